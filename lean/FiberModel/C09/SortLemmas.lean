import FiberModel.C09.Spec
/-
C09 — lemmas for `sortAcceptedTypes`: the four-key comparison as an order on natural-number keys
(qualities scaled to a common denominator), correctness of the binary search on a sorted prefix,
insertion keeps the list sorted and is a permutation.
-/
namespace C09
open B

/-! ### qualities on a common scale -/

def expOf : Qual → Nat
  | .fin _ e => e
  | _ => 0

/-- value scaled by `10^E` (for `fin m e` with `e ≤ E`) -/
def qv (E : Nat) : Qual → Nat
  | .fin m e => m * 10 ^ (E - e)
  | _ => 0

def Qual.isFin : Qual → Bool
  | .fin _ _ => true
  | _ => false

theorem pow10_pos (n : Nat) : 0 < 10 ^ n := Nat.pow_pos (by decide)

theorem scale_split {e E : Nat} (h : e ≤ E) : 10 ^ (E - e) * 10 ^ e = 10 ^ E := by
  rw [← Nat.pow_add, Nat.sub_add_cancel h]

/-- cross-multiplied comparison = comparison of the scaled values -/
theorem cross_lt {m e m' e' E : Nat} (h : e ≤ E) (h' : e' ≤ E) :
    m * 10 ^ e' < m' * 10 ^ e ↔ m * 10 ^ (E - e) < m' * 10 ^ (E - e') := by
  have hp : 0 < 10 ^ e * 10 ^ e' := Nat.mul_pos (pow10_pos e) (pow10_pos e')
  have hT : 0 < 10 ^ E := pow10_pos E
  rw [← Nat.mul_lt_mul_right (a := 10 ^ e * 10 ^ e') hp (b := m * 10 ^ (E - e))]
  have e1 : m * 10 ^ (E - e) * (10 ^ e * 10 ^ e') = (m * 10 ^ e') * 10 ^ E := by
    rw [← scale_split h]; simp [Nat.mul_comm, Nat.mul_left_comm, Nat.mul_assoc]
  have e2 : m' * 10 ^ (E - e') * (10 ^ e * 10 ^ e') = (m' * 10 ^ e) * 10 ^ E := by
    rw [← scale_split h']; simp [Nat.mul_comm, Nat.mul_left_comm, Nat.mul_assoc]
  rw [e1, e2, Nat.mul_lt_mul_right hT]

theorem cross_eq {m e m' e' E : Nat} (h : e ≤ E) (h' : e' ≤ E) :
    m * 10 ^ e' = m' * 10 ^ e ↔ m * 10 ^ (E - e) = m' * 10 ^ (E - e') := by
  have h1 := cross_lt (m := m) (m' := m') h h'
  have h2 := cross_lt (m := m') (m' := m) h' h
  omega

theorem lt_iff_qv {a c : Qual} {E : Nat} (ha : a.isFin) (hc : c.isFin) (h : expOf a ≤ E) (h' : expOf c ≤ E) :
    a.lt c = true ↔ qv E a < qv E c := by
  cases a <;> cases c <;> simp [Qual.isFin] at ha hc
  simp only [Qual.lt, qv, decide_eq_true_eq]
  exact cross_lt h h'

theorem eq_iff_qv {a c : Qual} {E : Nat} (ha : a.isFin) (hc : c.isFin) (h : expOf a ≤ E) (h' : expOf c ≤ E) :
    a.eq c = true ↔ qv E a = qv E c := by
  cases a <;> cases c <;> simp [Qual.isFin] at ha hc
  simp only [Qual.eq, qv, decide_eq_true_eq]
  exact cross_eq h h'

/-! ### the comparison of `sortAcceptedTypes` on numeric keys -/

/-- a range whose quality is finite with exponent at most `E` -/
def Range.ok (E : Nat) (r : Range) : Prop := r.q.isFin = true ∧ expOf r.q ≤ E

/-- `after x m` on the scaled keys -/
def afterN (E : Nat) (x m : Range) : Prop :=
  qv E x.q < qv E m.q ∨
  (qv E x.q = qv E m.q ∧ x.spcf < m.spcf) ∨
  (qv E x.q = qv E m.q ∧ x.spcf = m.spcf ∧ x.params.length < m.params.length) ∨
  (qv E x.q = qv E m.q ∧ x.spcf = m.spcf ∧ x.params.length = m.params.length ∧ x.order > m.order)

theorem after_iff {E : Nat} {x m : Range} (hx : x.ok E) (hm : m.ok E) : after x m = true ↔ afterN E x m := by
  have hl := lt_iff_qv (E := E) hx.1 hm.1 hx.2 hm.2
  have he := eq_iff_qv (E := E) hx.1 hm.1 hx.2 hm.2
  unfold after afterN
  simp only [Bool.or_eq_true, Bool.and_eq_true, decide_eq_true_eq, beq_iff_eq, hl, he]
  omega

theorem afterN_trans {E : Nat} {a c d : Range} (h1 : afterN E a c) (h2 : afterN E c d) : afterN E a d := by
  unfold afterN at *; omega

theorem afterN_irrefl {E : Nat} {a : Range} : ¬ afterN E a a := by
  unfold afterN; omega

theorem afterN_total {E : Nat} {a c : Range} (h : a.order ≠ c.order) : afterN E a c ∨ afterN E c a := by
  unfold afterN; omega

theorem afterN_asymm {E : Nat} {a c : Range} (h : afterN E a c) : ¬ afterN E c a := by
  unfold afterN at *; omega

/-- sorted: every earlier element is strictly preferred (the later one "belongs after" it) -/
def Sorted (l : List Range) : Prop := l.Pairwise fun a c => after c a = true

def AllOk (E : Nat) (l : List Range) : Prop := ∀ r ∈ l, r.ok E

theorem sorted_iff {E : Nat} {l : List Range} (h : AllOk E l) : Sorted l ↔ l.Pairwise fun a c => afterN E c a := by
  unfold Sorted
  induction l with
  | nil => simp
  | cons x xs ih =>
    have hx : x.ok E := h x (by simp)
    have hxs : AllOk E xs := fun r hr => h r (by simp [hr])
    simp only [List.pairwise_cons, ih hxs]
    constructor
    · rintro ⟨h1, h2⟩; exact ⟨fun a ha => (after_iff (hxs a ha) hx).1 (h1 a ha), h2⟩
    · rintro ⟨h1, h2⟩; exact ⟨fun a ha => (after_iff (hxs a ha) hx).2 (h1 a ha), h2⟩

/-! ### the binary search -/

/-- loop invariant: everything left of `lo` is before `x`, everything from `hiX` on is not -/
theorem bsearch_inv (pre : List Range) (x : Range) (P : Range → Prop)
    (hP : ∀ m, m ∈ pre → (after x m = true ↔ P m))
    (mono : ∀ (i j : Nat) (a c : Range), i < j → pre[i]? = some a → pre[j]? = some c → P c → P a) :
    ∀ (fuel lo hiX : Nat), hiX - lo < fuel → lo ≤ hiX → hiX ≤ pre.length →
      (∀ (i : Nat) (m : Range), i < lo → pre[i]? = some m → P m) →
      (∀ (i : Nat) (m : Range), hiX ≤ i → pre[i]? = some m → ¬ P m) →
      bsearch pre x fuel lo hiX ≤ pre.length ∧
      (∀ (i : Nat) (m : Range), i < bsearch pre x fuel lo hiX → pre[i]? = some m → P m) ∧
      (∀ (i : Nat) (m : Range), bsearch pre x fuel lo hiX ≤ i → pre[i]? = some m → ¬ P m) := by
  intro fuel
  induction fuel with
  | zero => intro lo hiX h; omega
  | succ f ih =>
    intro lo hiX hf hle hh hlo hhi
    simp only [bsearch]
    by_cases hlt : lo < hiX
    · simp only [hlt, if_true]
      have hmid1 : lo ≤ (lo + (hiX - 1)) / 2 := by omega
      have hmid2 : (lo + (hiX - 1)) / 2 < hiX := by omega
      have hml : (lo + (hiX - 1)) / 2 < pre.length := by omega
      cases hg : pre[(lo + (hiX - 1)) / 2]? with
      | none => rw [List.getElem?_eq_none_iff] at hg; omega
      | some mm =>
        simp only
        have hmem : mm ∈ pre := List.mem_of_getElem? hg
        by_cases ha : after x mm = true
        · simp only [ha, if_true]
          have hPm := (hP _ hmem).1 ha
          apply ih (((lo + (hiX - 1)) / 2) + 1) hiX (by omega) (by omega) hh
          · intro i m hi hm
            by_cases hieq : i = (lo + (hiX - 1)) / 2
            · subst hieq; rw [hg] at hm; cases hm; exact hPm
            · exact mono i _ m mm (by omega) hm hg hPm
          · exact hhi
        · simp only [ha]
          have hPm : ¬ P mm := fun hp => ha ((hP _ hmem).2 hp)
          apply ih lo ((lo + (hiX - 1)) / 2) (by omega) (by omega) (by omega) hlo
          intro i m hge hm
          by_cases hieq : i = (lo + (hiX - 1)) / 2
          · subst hieq; rw [hg] at hm; cases hm; exact hPm
          · intro hp; exact hPm (mono _ i mm m (by omega) hg hm hp)
    · simp only [hlt, if_false]
      have : lo = hiX := by omega
      subst this
      exact ⟨hh, hlo, hhi⟩

/-- on a sorted prefix the search returns the insertion point -/
theorem bsearch_spec {E : Nat} (pre : List Range) (x : Range) (hok : AllOk E pre) (hx : x.ok E) (hs : Sorted pre) :
    bsearch pre x (pre.length + 1) 0 pre.length ≤ pre.length ∧
    (∀ m ∈ pre.take (bsearch pre x (pre.length + 1) 0 pre.length), afterN E x m) ∧
    (∀ m ∈ pre.drop (bsearch pre x (pre.length + 1) 0 pre.length), ¬ afterN E x m) := by
  have hsN := (sorted_iff hok).1 hs
  have key := bsearch_inv pre x (fun m => afterN E x m)
    (fun m hm => after_iff hx (hok m hm))
    (by
      intro i j a c hij ha hc hPc
      obtain ⟨hi, rfl⟩ := List.getElem?_eq_some_iff.1 ha
      obtain ⟨hj, rfl⟩ := List.getElem?_eq_some_iff.1 hc
      have := List.pairwise_iff_getElem.1 hsN i j hi hj hij
      exact afterN_trans hPc this)
    (pre.length + 1) 0 pre.length (by omega) (by omega) (Nat.le_refl _)
    (by intro i m h; omega)
    (by intro i m hge hm; obtain ⟨hi, _⟩ := List.getElem?_eq_some_iff.1 hm; omega)
  obtain ⟨hr, h1, h2⟩ := key
  refine ⟨hr, ?_, ?_⟩
  · intro m hm
    obtain ⟨j, hj, rfl⟩ := List.mem_take_iff_getElem.1 hm
    exact h1 j _ (by omega) (List.getElem?_eq_getElem (by omega))
  · intro m hm
    obtain ⟨j, hj, rfl⟩ := List.mem_drop_iff_getElem.1 hm
    exact h2 (bsearch pre x (pre.length + 1) 0 pre.length + j) _ (by omega) (List.getElem?_eq_getElem (by omega))

/-! ### insertion and the whole sort -/

theorem insertAt_perm (pre : List Range) (x : Range) (lo : Nat) : (insertAt pre x lo).Perm (x :: pre) := by
  unfold insertAt
  have := List.perm_middle (a := x) (l₁ := pre.take lo) (l₂ := pre.drop lo)
  rwa [List.take_append_drop] at this

theorem insertSorted_perm (pre : List Range) (x : Range) : (insertSorted pre x).Perm (x :: pre) :=
  insertAt_perm _ _ _

theorem insertSorted_sorted {E : Nat} (pre : List Range) (x : Range) (hok : AllOk E pre) (hx : x.ok E)
    (hs : Sorted pre) (hd : ∀ m ∈ pre, m.order ≠ x.order) : Sorted (insertSorted pre x) := by
  obtain ⟨_, h1, h2⟩ := bsearch_spec pre x hok hx hs
  have hokI : AllOk E (insertSorted pre x) := by
    intro r hr'
    have := (insertSorted_perm pre x).mem_iff.1 hr'
    rcases List.mem_cons.1 this with rfl | h
    · exact hx
    · exact hok r h
  rw [sorted_iff hokI]
  have hsN := (sorted_iff hok).1 hs
  unfold insertSorted insertAt
  rw [← List.take_append_drop (bsearch pre x (pre.length + 1) 0 pre.length) pre] at hsN
  obtain ⟨hs1, hs2, hs3⟩ := List.pairwise_append.1 hsN
  rw [List.pairwise_append]
  refine ⟨hs1, ?_, ?_⟩
  · rw [List.pairwise_cons]
    refine ⟨?_, hs2⟩
    intro a ha
    have hna := h2 a ha
    have hne : a.order ≠ x.order := hd a (List.mem_of_mem_drop ha)
    rcases afterN_total (E := E) hne with h | h
    · exact h
    · exact absurd h hna
  · intro a ha c hc
    rcases List.mem_cons.1 hc with rfl | hc
    · exact h1 a ha
    · exact hs3 a ha c hc

theorem sortAccepted_foldl_perm (l acc : List Range) : (l.foldl insertSorted acc).Perm (acc ++ l) := by
  induction l generalizing acc with
  | nil => simp
  | cons x xs ih =>
    simp only [List.foldl_cons]
    refine (ih _).trans ?_
    have h1 : (insertSorted acc x ++ xs).Perm ((x :: acc) ++ xs) := (insertSorted_perm acc x).append_right xs
    refine h1.trans ?_
    simp only [List.cons_append]
    exact (List.perm_middle (a := x) (l₁ := acc) (l₂ := xs)).symm

theorem sortAccepted_perm (l : List Range) : (sortAccepted l).Perm l := by
  have := sortAccepted_foldl_perm l []
  simpa [sortAccepted] using this

theorem foldl_sorted {E : Nat} (l acc : List Range) (hokA : AllOk E acc) (hokL : AllOk E l) (hs : Sorted acc)
    (hd : (acc ++ l).Pairwise fun a c => a.order ≠ c.order) : Sorted (l.foldl insertSorted acc) := by
  induction l generalizing acc with
  | nil => simpa using hs
  | cons x xs ih =>
    simp only [List.foldl_cons]
    have hx : x.ok E := hokL x (by simp)
    have hxs : AllOk E xs := fun r hr => hokL r (by simp [hr])
    obtain ⟨hd1, hd2, hd3⟩ := List.pairwise_append.1 hd
    have hdx : ∀ m ∈ acc, m.order ≠ x.order := fun m hm => hd3 m hm x (by simp)
    have hp := insertSorted_perm acc x
    apply ih (insertSorted acc x)
    · intro r hr
      rcases List.mem_cons.1 (hp.mem_iff.1 hr) with rfl | h
      · exact hx
      · exact hokA r h
    · exact hxs
    · exact insertSorted_sorted acc x hokA hx hs hdx
    · have hsymm : ∀ {a c : Range}, a.order ≠ c.order → c.order ≠ a.order := fun h => Ne.symm h
      have hperm : (insertSorted acc x ++ xs).Perm (acc ++ x :: xs) := by
        refine (hp.append_right xs).trans ?_
        simp only [List.cons_append]
        exact (List.perm_middle (a := x) (l₁ := acc) (l₂ := xs)).symm
      exact (List.Perm.pairwise_iff hsymm hperm).2 hd

end C09
