import FiberModel.C09.ElemLemmas
/-
C09 — parsing a rendered header gives back its meaning: `parseRanges (render es)` is `denote es`
(plus harmless empty ranges for empty list elements).
-/
namespace C09
open B

/-- a specification range as `getOffer` stores it -/
def fromS (s : SRange) : Range :=
  { spec := s.spec, q := s.q, spcf := specificity s.spec, params := s.params, order := s.pos }

theorem toS_fromS (s : SRange) : toS (fromS s) = s := rfl

/-- K2 does not apply to this element -/
def Elem.noK2 (e : Elem) : Prop := Known.emptyBeforeNonEmpty (Known.significant e.params) = false

theorem range_no_sp_semi {r : Bytes} (h : isRange r = true) : ∀ c ∈ r, c ≠ 32 ∧ c ≠ 59 := by
  intro c hc
  rcases (isRange_chars h).2 c hc with ht | rfl
  · exact ⟨(tchar_ne ht).1, (tchar_ne ht).2.1⟩
  · decide

theorem strict_distinct {e : Elem} (h : e.strict) :
    distinctNames ((mediaParams e.params).map (fun p => toLower p.name)) = true := by
  have := h.1
  unfold wfElem at this
  simp only [Bool.and_eq_true] at this
  exact this.2

theorem weight_qvalue {e : Elem} (h : e.strict) {w : Param} (hw : weightOf e.params = some w) :
    ∃ qq, qvalue? w.value = some qq := by
  unfold weightOf at hw
  have hmem := List.mem_of_find?_eq_some hw
  have hisw := List.find?_some hw
  have hwf := (h.2.2.2 w hmem).1
  unfold wfParam at hwf
  simp only [Bool.and_eq_true] at hwf
  have hn' : (w.name == []) = false := by simpa using isWeight_name_ne hisw
  have hbody := hwf.2
  simp only [hn', Bool.false_eq_true, if_false, Bool.and_eq_true, hisw, if_true] at hbody
  exact Option.isSome_iff_exists.1 hbody.2.2

theorem parseElem_rendered (tab : Bytes → Option Qual) (e : Elem) (n : Nat) (h : e.strict) (hr : e.rng ≠ [])
    (hk2 : e.noK2) : parseElem tab (bodyOf e) n = (denoteElem e n).map fromS := by
  have hrange := strict_range h hr
  have hchars := range_no_sp_semi hrange
  have hr' : (e.rng == []) = false := by simpa using hr
  cases hps : e.params with
  | nil =>
    have hbody : bodyOf e = e.rng ++ e.trail := by simp [bodyOf, hps, renderParams]
    have hnosemi : ¬ 59 ∈ e.rng ++ e.trail := by
      intro hm
      rcases List.mem_append.1 hm with hm | hm
      · exact (hchars 59 hm).2 rfl
      · have := List.all_eq_true.1 (spOnly_all h.2.2.1) 59 hm; simp at this
    rw [hbody]
    unfold parseElem
    rw [splitSemi_none _ hnosemi]
    simp only [trim_range e.rng e.trail hr (fun c hc => (hchars c hc).1) h.2.2.1]
    simp [denoteElem, hr', hps, weightOf, mediaParams, fromS, Qual.isZero, Qual.one]
  | cons p ps =>
    have hp : p.strict := h.2.2.2 p (by rw [hps]; simp)
    have hpss : ∀ q ∈ ps, q.strict := fun q hq => h.2.2.2 q (by rw [hps]; simp [hq])
    have hbody : bodyOf e = (e.rng ++ p.ows1) ++ restOf p ps e.trail := by
      simp [bodyOf, hps, renderParams_cons, renderParam, restOf, List.append_assoc]
    have hnosemi : ¬ 59 ∈ e.rng ++ p.ows1 := by
      intro hm
      rcases List.mem_append.1 hm with hm | hm
      · exact (hchars 59 hm).2 rfl
      · have := List.all_eq_true.1 (spOnly_all hp.2.1) 59 hm; simp at this
    have hsplit : splitSemi (bodyOf e) = some (e.rng ++ p.ows1, restOf p ps e.trail) := by
      rw [hbody]
      have : restOf p ps e.trail = 59 :: (restOf p ps e.trail).tail := by simp [restOf]
      rw [this, splitSemi_at _ _ hnosemi]
    have hk2' : Known.emptyBeforeNonEmpty (Known.significant (p :: ps)) = false := by
      have := hk2; unfold Elem.noK2 at this; rw [hps] at this; exact this
    have hd : distinctNames (([] : Params).map (·.1) ++ (mediaParams (p :: ps)).map (fun p => toLower p.name)) = true := by
      have := strict_distinct h; rw [hps] at this; simpa using this
    have hqp := qualityParams_rendered tab p ps e.trail hp hpss h.2.2.1
    rw [slowParams_visited tab (p :: ps) .one [] hk2' hd] at hqp
    unfold parseElem
    rw [hsplit]
    simp only [hqp, List.nil_append]
    rw [trim_range e.rng p.ows1 hr (fun c hc => (hchars c hc).1) hp.2.1]
    unfold denoteElem
    simp only [hr', Bool.false_eq_true, if_false, hps]
    cases hw : weightOf (p :: ps) with
    | none => simp [fromS, Qual.isZero, Qual.one]
    | some w =>
      obtain ⟨qq, hqq⟩ := weight_qvalue h (by rw [hps]; exact hw)
      simp only [ufloat_qvalue tab hqq, hqq, Option.getD_some]
      cases qq.isZero <;> simp [fromS]

/-! ### the whole header -/

def emptyRange (n : Nat) : Range := { spec := [], q := .one, spcf := 4, params := [], order := n }

theorem specificity_nil : specificity [] = 4 := by decide

theorem parseElem_nil (tab : Bytes → Option Qual) (n : Nat) : parseElem tab [] n = some (emptyRange n) := by
  simp [parseElem, splitSemi, trim, trimLeft, trimRight, specificity_nil, emptyRange]

theorem render_cons_cons (e e2 : Elem) (es : List Elem) :
    render (e :: e2 :: es) = renderElem e ++ 44 :: render (e2 :: es) := by
  simp [render, join]

theorem render_single (e : Elem) : render [e] = renderElem e := by simp [render, join]

theorem denoteElem_empty (e : Elem) (n : Nat) (hr : e.rng = []) : denoteElem e n = none := by
  simp [denoteElem, hr]

theorem denoteElem_spec {e : Elem} {n : Nat} {s : SRange} (h : denoteElem e n = some s) : s.spec = e.rng ∧ e.rng ≠ [] := by
  unfold denoteElem at h
  by_cases hr : e.rng = []
  · simp [hr] at h
  · have hr' : (e.rng == []) = false := by simpa using hr
    simp only [hr', Bool.false_eq_true, if_false] at h
    simp only [Option.ite_none_left_eq_some, Option.some.injEq] at h
    obtain ⟨_, hs⟩ := h
    rw [← hs]; exact ⟨rfl, hr⟩

/-- the accepted types parsed from a rendered header: the header's meaning, interleaved with
    empty ranges (quality 1) for empty list elements -/
theorem parse_render (tab : Bytes → Option Qual) (es : List Elem)
    (hs : ∀ e ∈ es, e.strict) (hk : ∀ e ∈ es, e.noK2) :
    ∀ (saw : Bool) (n : Nat),
      ((parseRangesFrom tab (rangesGo (render es) (.lead saw) []) n).filter (fun r => r.spec != [])) =
        (denoteFrom es (n + 1)).map fromS ∧
      (∀ r ∈ parseRangesFrom tab (rangesGo (render es) (.lead saw) []) n, r.spec = [] → r.q = .one) := by
  induction es with
  | nil =>
    intro saw n
    cases saw <;> simp [render, join, rangesGo, parseRangesFrom, parseElem_nil, denoteFrom, emptyRange]
  | cons e es ih =>
    intro saw n
    have he := hs e (by simp)
    have hke := hk e (by simp)
    have hs' : ∀ x ∈ es, x.strict := fun x hx => hs x (by simp [hx])
    have hk' : ∀ x ∈ es, x.noK2 := fun x hx => hk x (by simp [hx])
    cases es with
    | nil =>
      rw [render_single]
      by_cases hr : e.rng = []
      · rw [rangesGo_empty_last e he hr]
        simp only [denoteFrom, denoteElem_empty e _ hr, List.map_nil]
        split <;> simp [parseRangesFrom, parseElem_nil, emptyRange]
      · rw [rangesGo_elem_last e he hr]
        simp only [parseRangesFrom, parseElem_rendered tab e (n + 1) he hr hke, denoteFrom]
        cases hd : denoteElem e (n + 1) with
        | none => simp
        | some s =>
          obtain ⟨hsp, hne⟩ := denoteElem_spec hd
          have hf : ((fromS s).spec != []) = true := by
            show (s.spec != []) = true
            rw [hsp]; simpa using hne
          simp only [Option.map_some, List.filter_cons, hf, if_true, List.filter_nil, List.map_cons, List.map_nil,
            true_and]
          intro r hr' hnil
          simp only [List.mem_cons, List.not_mem_nil, or_false] at hr'
          subst hr'
          have : s.spec = [] := hnil
          rw [hsp] at this; exact absurd this hne
    | cons e2 es' =>
      rw [render_cons_cons]
      obtain ⟨ih1, ih2⟩ := ih hs' hk' false (n + 1)
      by_cases hr : e.rng = []
      · rw [rangesGo_empty_comma e he hr]
        simp only [parseRangesFrom, parseElem_nil, denoteFrom, denoteElem_empty e _ hr]
        refine ⟨?_, ?_⟩
        · simp only [List.filter_cons, emptyRange, bne_self_eq_false, Bool.false_eq_true, if_false]
          exact ih1
        · intro r hr' hnil
          rcases List.mem_cons.1 hr' with rfl | hr'
          · rfl
          · exact ih2 r hr' hnil
      · rw [rangesGo_elem_comma e he hr]
        simp only [parseRangesFrom, parseElem_rendered tab e (n + 1) he hr hke, denoteFrom]
        cases hd : denoteElem e (n + 1) with
        | none => simp only [Option.map_none]; exact ⟨ih1, ih2⟩
        | some s =>
          obtain ⟨hsp, hne⟩ := denoteElem_spec hd
          have hf : ((fromS s).spec != []) = true := by
            show (s.spec != []) = true
            rw [hsp]; simpa using hne
          simp only [Option.map_some]
          refine ⟨?_, ?_⟩
          · simp only [List.filter_cons, hf, if_true, List.map_cons, ih1]
            rfl
          · intro r hr' hnil
            rcases List.mem_cons.1 hr' with rfl | hr'
            · have : s.spec = [] := hnil
              rw [hsp] at this; exact absurd this hne
            · exact ih2 r hr' hnil

/-! ### from the grammar predicates to the strict form -/

theorem ows_spOnly {s : Bytes} (h : isOWS s = true) (h9 : s.contains 9 = false) : spOnly s = true := by
  unfold isOWS at h
  unfold spOnly
  rw [List.all_eq_true] at h ⊢
  intro x hx
  have := h x hx
  simp only [Bool.or_eq_true, beq_iff_eq] at this ⊢
  rcases this with e | e
  · exact e
  · subst e
    have : List.contains s 9 = true := List.contains_iff_mem.2 hx
    rw [h9] at this; cases this

theorem strict_of_wf {es : List Elem} (hwf : wf es = true) (hk1 : Known.K1 es = false) : ∀ e ∈ es, e.strict := by
  intro e he
  unfold wf at hwf
  have hwe := List.all_eq_true.1 hwf e he
  unfold Known.K1 at hk1
  have hke : (e.lead.contains 9 || e.trail.contains 9 || e.params.any fun p => p.ows1.contains 9 || p.ows2.contains 9) = false := by
    cases hh : (e.lead.contains 9 || e.trail.contains 9 || e.params.any fun p => p.ows1.contains 9 || p.ows2.contains 9) with
    | false => rfl
    | true =>
      have : (es.any fun e => e.lead.contains 9 || e.trail.contains 9 || e.params.any fun p => p.ows1.contains 9 || p.ows2.contains 9) = true :=
        List.any_eq_true.2 ⟨e, he, hh⟩
      rw [hk1] at this; cases this
  simp only [Bool.or_eq_false_iff] at hke
  obtain ⟨⟨hl, ht⟩, hp⟩ := hke
  have hwe' := hwe
  unfold wfElem at hwe'
  simp only [Bool.and_eq_true] at hwe'
  obtain ⟨⟨⟨⟨hol, hot⟩, _⟩, hpar⟩, _⟩ := hwe'
  refine ⟨hwe, ows_spOnly hol hl, ows_spOnly hot ht, ?_⟩
  intro p hpm
  have hwp := List.all_eq_true.1 hpar p hpm
  have hp9 : (p.ows1.contains 9 || p.ows2.contains 9) = false := by
    cases hh : (p.ows1.contains 9 || p.ows2.contains 9) with
    | false => rfl
    | true =>
      have : (e.params.any fun p => p.ows1.contains 9 || p.ows2.contains 9) = true := List.any_eq_true.2 ⟨p, hpm, hh⟩
      rw [hp] at this; cases this
  simp only [Bool.or_eq_false_iff] at hp9
  have hwp' := hwp
  unfold wfParam at hwp'
  simp only [Bool.and_eq_true] at hwp'
  exact ⟨hwp, ows_spOnly hwp'.1.1 hp9.1, ows_spOnly hwp'.1.2 hp9.2⟩

theorem noK2_of {es : List Elem} (hk2 : Known.K2 es = false) : ∀ e ∈ es, e.noK2 := by
  intro e he
  unfold Known.K2 at hk2
  unfold Elem.noK2
  cases hh : Known.emptyBeforeNonEmpty (Known.significant e.params) with
  | false => rfl
  | true =>
    have : (es.any fun e => Known.emptyBeforeNonEmpty (Known.significant e.params)) = true := List.any_eq_true.2 ⟨e, he, hh⟩
    rw [hk2] at this; cases this

/-! ### bridging the candidate lists -/

theorem filter_bridge (P : SRange → Bool) (L : List Range) (D : List SRange)
    (h1 : L.filter (fun r => r.spec != []) = D.map fromS) (h2 : ∀ r ∈ L, r.spec = [] → P (toS r) = false) :
    (L.map toS).filter P = D.filter P := by
  induction L generalizing D with
  | nil =>
    have : D = [] := by simpa using h1.symm
    subst this; rfl
  | cons r L ih =>
    have h2' : ∀ x ∈ L, x.spec = [] → P (toS x) = false := fun x hx => h2 x (by simp [hx])
    by_cases hr : r.spec = []
    · have hf : (r.spec != []) = false := by simp [hr]
      simp only [List.filter_cons, hf, Bool.false_eq_true, if_false] at h1
      have hp := h2 r (by simp) hr
      simp only [List.map_cons, List.filter_cons, hp, Bool.false_eq_true, if_false]
      exact ih D h1 h2'
    · have hf : (r.spec != []) = true := by simpa using hr
      simp only [List.filter_cons, hf, if_true] at h1
      cases D with
      | nil => simp at h1
      | cons d D' =>
        simp only [List.map_cons, List.cons.injEq] at h1
        obtain ⟨hrd, hrest⟩ := h1
        have : toS r = d := by rw [hrd]; rfl
        simp only [List.map_cons, List.filter_cons, this]
        rw [ih D' hrest h2']

theorem denoteElem_fin {e : Elem} {n : Nat} {s : SRange} (h : denoteElem e n = some s) : s.q.isFin = true := by
  unfold denoteElem at h
  by_cases hr : e.rng = []
  · simp [hr] at h
  · have hr' : (e.rng == []) = false := by simpa using hr
    simp only [hr', Bool.false_eq_true, if_false, Option.ite_none_left_eq_some, Option.some.injEq] at h
    obtain ⟨_, hs⟩ := h
    rw [← hs]
    simp only
    split
    · rename_i w _
      cases hq : qvalue? w.value with
      | none => rfl
      | some qq =>
        simp only [Option.getD_some]
        unfold qvalue? at hq
        repeat' split at hq
        all_goals first | (cases hq; rfl) | cases hq
    · rfl

theorem denoteFrom_fin (es : List Elem) (n : Nat) : ∀ s ∈ denoteFrom es n, s.q.isFin = true := by
  induction es generalizing n with
  | nil => intro s h; simp [denoteFrom] at h
  | cons e es ih =>
    intro s h
    simp only [denoteFrom] at h
    cases hd : denoteElem e n with
    | none => rw [hd] at h; exact ih _ s h
    | some d =>
      rw [hd] at h
      rcases List.mem_cons.1 h with rfl | h
      · exact denoteElem_fin hd
      · exact ih _ s h

end C09
