import FiberModel.C09.ElemLemmas
/-
C09 — parsing a rendered header gives back its meaning: `parseRanges (render es)` is `denote es`
(plus harmless empty ranges for empty list elements).
-/
namespace C09
open B

/-- a specification range as `getOffer` stores it -/
def fromS (s : SRange) : Range :=
  { spec := s.spec, q := s.q, spcf := specificity s.spec, params := s.params, order := s.pos }

theorem toS_fromS (s : SRange) : toS (fromS s) = s := rfl

theorem range_no_sp_semi {r : Bytes} (h : isRange r = true) : ∀ c ∈ r, isOWSb c = false ∧ c ≠ 59 := by
  intro c hc
  rcases (isRange_chars h).2 c hc with ht | rfl
  · have := tchar_ne ht
    exact ⟨by simp [isOWSb, this.1, this.2.2.2.2.2.2], this.2.1⟩
  · decide

theorem weight_qvalue {e : Elem} (h : e.strict) {w : Param} (hw : weightOf e.params = some w) :
    ∃ qq, qvalue? w.value = some qq := by
  unfold weightOf at hw
  have hmem := List.mem_of_find?_eq_some hw
  have hisw := List.find?_some hw
  have hwf := (h.2.2.2 w hmem).1
  unfold wfParam at hwf
  simp only [Bool.and_eq_true] at hwf
  have hn' : (w.name == []) = false := by simpa using isWeight_name_ne hisw
  have hbody := hwf.2
  simp only [hn', Bool.false_eq_true, if_false, Bool.and_eq_true, hisw, if_true] at hbody
  exact Option.isSome_iff_exists.1 hbody.2.2

theorem parseElem_rendered (tab : Bytes → Option Qual) (e : Elem) (n : Nat) (h : e.strict) (hr : e.rng ≠ []) :
    parseElem tab (bodyOf e) n = (denoteElem e n).map fromS := by
  have hrange := strict_range h hr
  have hchars := range_no_sp_semi hrange
  have hr' : (e.rng == []) = false := by simpa using hr
  cases hps : e.params with
  | nil =>
    have hbody : bodyOf e = e.rng ++ e.trail := by simp [bodyOf, hps, renderParams]
    have hnosemi : ¬ 59 ∈ e.rng ++ e.trail := by
      intro hm
      rcases List.mem_append.1 hm with hm | hm
      · exact (hchars 59 hm).2 rfl
      · rcases owsOnly_mem h.2.2.1 hm with e | e <;> cases e
    rw [hbody]
    unfold parseElem
    rw [splitSemi_none _ hnosemi]
    simp only [trim_range e.rng e.trail hr (fun c hc => (hchars c hc).1) h.2.2.1]
    simp [denoteElem, hr', hps, weightOf, mediaParams, paramMap, fromS, Qual.isZero, Qual.one]
  | cons p ps =>
    have hp : p.strict := h.2.2.2 p (by rw [hps]; simp)
    have hpss : ∀ q ∈ ps, q.strict := fun q hq => h.2.2.2 q (by rw [hps]; simp [hq])
    have hbody : bodyOf e = (e.rng ++ p.ows1) ++ restOf p ps e.trail := by
      simp [bodyOf, hps, renderParams_cons, renderParam, restOf, List.append_assoc]
    have hnosemi : ¬ 59 ∈ e.rng ++ p.ows1 := by
      intro hm
      rcases List.mem_append.1 hm with hm | hm
      · exact (hchars 59 hm).2 rfl
      · rcases owsOnly_mem hp.2.1 hm with e | e <;> cases e
    have hsplit : splitSemi (bodyOf e) = some (e.rng ++ p.ows1, restOf p ps e.trail) := by
      rw [hbody]
      have : restOf p ps e.trail = 59 :: (restOf p ps e.trail).tail := by simp [restOf]
      rw [this, splitSemi_at _ _ hnosemi]
    have hqp := qualityParams_rendered tab p ps e.trail hp hpss h.2.2.1
    rw [slowParams_visited tab (p :: ps) .one []] at hqp
    unfold parseElem
    rw [hsplit]
    simp only [hqp, List.nil_append]
    rw [trim_range e.rng p.ows1 hr (fun c hc => (hchars c hc).1) hp.2.1]
    unfold denoteElem
    simp only [hr', Bool.false_eq_true, if_false, hps]
    cases hw : weightOf (p :: ps) with
    | none => simp [fromS, paramMap, Qual.isZero, Qual.one]
    | some w =>
      obtain ⟨qq, hqq⟩ := weight_qvalue h (by rw [hps]; exact hw)
      simp only [ufloat_qvalue tab hqq, hqq, Option.getD_some]
      cases qq.isZero <;> simp [fromS, paramMap]

/-! ### the whole header -/

def emptyRange (n : Nat) : Range := { spec := [], q := .one, spcf := 4, params := [], order := n }

theorem specificity_nil : specificity [] = 4 := by decide

theorem parseElem_nil (tab : Bytes → Option Qual) (n : Nat) : parseElem tab [] n = some (emptyRange n) := by
  simp [parseElem, splitSemi, trimOWS, trimRightOWS, specificity_nil, emptyRange]

theorem render_cons_cons (e e2 : Elem) (es : List Elem) :
    render (e :: e2 :: es) = renderElem e ++ 44 :: render (e2 :: es) := by
  simp [render, join]

theorem render_single (e : Elem) : render [e] = renderElem e := by simp [render, join]

theorem denoteElem_empty (e : Elem) (n : Nat) (hr : e.rng = []) : denoteElem e n = none := by
  simp [denoteElem, hr]

theorem denoteElem_spec {e : Elem} {n : Nat} {s : SRange} (h : denoteElem e n = some s) : s.spec = e.rng ∧ e.rng ≠ [] := by
  unfold denoteElem at h
  by_cases hr : e.rng = []
  · simp [hr] at h
  · have hr' : (e.rng == []) = false := by simpa using hr
    simp only [hr', Bool.false_eq_true, if_false] at h
    simp only [Option.ite_none_left_eq_some, Option.some.injEq] at h
    obtain ⟨_, hs⟩ := h
    rw [← hs]; exact ⟨rfl, hr⟩

/-- the accepted types parsed from a rendered header: the header's meaning, interleaved with
    empty ranges (quality 1) for empty list elements -/
theorem parse_render (tab : Bytes → Option Qual) (es : List Elem)
    (hs : ∀ e ∈ es, e.strict) :
    ∀ (saw : Bool) (n : Nat),
      ((parseRangesFrom tab (rangesGo (render es) (.lead saw) []) n).filter (fun r => r.spec != [])) =
        (denoteFrom es (n + 1)).map fromS ∧
      (∀ r ∈ parseRangesFrom tab (rangesGo (render es) (.lead saw) []) n, r.spec = [] → r.q = .one) := by
  induction es with
  | nil =>
    intro saw n
    cases saw <;> simp [render, join, rangesGo, parseRangesFrom, parseElem_nil, denoteFrom, emptyRange]
  | cons e es ih =>
    intro saw n
    have he := hs e (by simp)
    have hs' : ∀ x ∈ es, x.strict := fun x hx => hs x (by simp [hx])
    cases es with
    | nil =>
      rw [render_single]
      by_cases hr : e.rng = []
      · rw [rangesGo_empty_last e he hr]
        simp only [denoteFrom, denoteElem_empty e _ hr, List.map_nil]
        split <;> simp [parseRangesFrom, parseElem_nil, emptyRange]
      · rw [rangesGo_elem_last e he hr]
        simp only [parseRangesFrom, parseElem_rendered tab e (n + 1) he hr, denoteFrom]
        cases hd : denoteElem e (n + 1) with
        | none => simp
        | some s =>
          obtain ⟨hsp, hne⟩ := denoteElem_spec hd
          have hf : ((fromS s).spec != []) = true := by
            show (s.spec != []) = true
            rw [hsp]; simpa using hne
          simp only [Option.map_some, List.filter_cons, hf, if_true, List.filter_nil, List.map_cons, List.map_nil,
            true_and]
          intro r hr' hnil
          simp only [List.mem_cons, List.not_mem_nil, or_false] at hr'
          subst hr'
          have : s.spec = [] := hnil
          rw [hsp] at this; exact absurd this hne
    | cons e2 es' =>
      rw [render_cons_cons]
      obtain ⟨ih1, ih2⟩ := ih hs' false (n + 1)
      by_cases hr : e.rng = []
      · rw [rangesGo_empty_comma e he hr]
        simp only [parseRangesFrom, parseElem_nil, denoteFrom, denoteElem_empty e _ hr]
        refine ⟨?_, ?_⟩
        · simp only [List.filter_cons, emptyRange, bne_self_eq_false, Bool.false_eq_true, if_false]
          exact ih1
        · intro r hr' hnil
          rcases List.mem_cons.1 hr' with rfl | hr'
          · rfl
          · exact ih2 r hr' hnil
      · rw [rangesGo_elem_comma e he hr]
        simp only [parseRangesFrom, parseElem_rendered tab e (n + 1) he hr, denoteFrom]
        cases hd : denoteElem e (n + 1) with
        | none => simp only [Option.map_none]; exact ⟨ih1, ih2⟩
        | some s =>
          obtain ⟨hsp, hne⟩ := denoteElem_spec hd
          have hf : ((fromS s).spec != []) = true := by
            show (s.spec != []) = true
            rw [hsp]; simpa using hne
          simp only [Option.map_some]
          refine ⟨?_, ?_⟩
          · simp only [List.filter_cons, hf, if_true, List.map_cons, ih1]
            rfl
          · intro r hr' hnil
            rcases List.mem_cons.1 hr' with rfl | hr'
            · have : s.spec = [] := hnil
              rw [hsp] at this; exact absurd this hne
            · exact ih2 r hr' hnil

/-! ### from the grammar predicate to its unpacked form -/

theorem strict_of_wf {es : List Elem} (hwf : wf es = true) : ∀ e ∈ es, e.strict := by
  intro e he
  unfold wf at hwf
  have hwe := List.all_eq_true.1 hwf e he
  have hwe' := hwe
  unfold wfElem at hwe'
  simp only [Bool.and_eq_true] at hwe'
  obtain ⟨⟨⟨hol, hot⟩, _⟩, hpar⟩ := hwe'
  refine ⟨hwe, hol, hot, ?_⟩
  intro p hpm
  have hwp := List.all_eq_true.1 hpar p hpm
  have hwp' := hwp
  unfold wfParam at hwp'
  simp only [Bool.and_eq_true] at hwp'
  exact ⟨hwp, hwp'.1.1, hwp'.1.2⟩

/-! ### bridging the candidate lists -/

theorem filter_bridge (P : SRange → Bool) (L : List Range) (D : List SRange)
    (h1 : L.filter (fun r => r.spec != []) = D.map fromS) (h2 : ∀ r ∈ L, r.spec = [] → P (toS r) = false) :
    (L.map toS).filter P = D.filter P := by
  induction L generalizing D with
  | nil =>
    have : D = [] := by simpa using h1.symm
    subst this; rfl
  | cons r L ih =>
    have h2' : ∀ x ∈ L, x.spec = [] → P (toS x) = false := fun x hx => h2 x (by simp [hx])
    by_cases hr : r.spec = []
    · have hf : (r.spec != []) = false := by simp [hr]
      simp only [List.filter_cons, hf, Bool.false_eq_true, if_false] at h1
      have hp := h2 r (by simp) hr
      simp only [List.map_cons, List.filter_cons, hp, Bool.false_eq_true, if_false]
      exact ih D h1 h2'
    · have hf : (r.spec != []) = true := by simpa using hr
      simp only [List.filter_cons, hf, if_true] at h1
      cases D with
      | nil => simp at h1
      | cons d D' =>
        simp only [List.map_cons, List.cons.injEq] at h1
        obtain ⟨hrd, hrest⟩ := h1
        have : toS r = d := by rw [hrd]; rfl
        simp only [List.map_cons, List.filter_cons, this]
        rw [ih D' hrest h2']

theorem denoteElem_fin {e : Elem} {n : Nat} {s : SRange} (h : denoteElem e n = some s) : s.q.isFin = true := by
  unfold denoteElem at h
  by_cases hr : e.rng = []
  · simp [hr] at h
  · have hr' : (e.rng == []) = false := by simpa using hr
    simp only [hr', Bool.false_eq_true, if_false, Option.ite_none_left_eq_some, Option.some.injEq] at h
    obtain ⟨_, hs⟩ := h
    rw [← hs]
    simp only
    split
    · rename_i w _
      cases hq : qvalue? w.value with
      | none => rfl
      | some qq =>
        simp only [Option.getD_some]
        unfold qvalue? at hq
        repeat' split at hq
        all_goals first | (cases hq; rfl) | cases hq
    · rfl

theorem denoteFrom_fin (es : List Elem) (n : Nat) : ∀ s ∈ denoteFrom es n, s.q.isFin = true := by
  induction es generalizing n with
  | nil => intro s h; simp [denoteFrom] at h
  | cons e es ih =>
    intro s h
    simp only [denoteFrom] at h
    cases hd : denoteElem e n with
    | none => rw [hd] at h; exact ih _ s h
    | some d =>
      rw [hd] at h
      rcases List.mem_cons.1 h with rfl | h
      · exact denoteElem_fin hd
      · exact ih _ s h

end C09
