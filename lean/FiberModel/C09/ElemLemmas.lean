import FiberModel.C09.VisitLemmas
import FiberModel.C09.ParseLemmas
/-
C09 — parsing one rendered element (`parseElem` on `bodyOf e`) yields the element's meaning
(`denoteElem e`).
-/
namespace C09
open B

/-! ### splitting at the first `;`, trimming -/

theorem splitSemi_none (s : Bytes) (h : ¬ 59 ∈ s) : splitSemi s = none := by
  induction s with
  | nil => rfl
  | cons c cs ih =>
    have hc : (c == 59) = false := by
      have : c ≠ 59 := fun e => h (by simp [e])
      simpa using this
    simp only [splitSemi, hc, Bool.false_eq_true, if_false]
    rw [ih fun e => h (by simp [e])]; rfl

theorem splitSemi_at (pre post : Bytes) (h : ¬ 59 ∈ pre) : splitSemi (pre ++ 59 :: post) = some (pre, 59 :: post) := by
  induction pre with
  | nil => simp [splitSemi]
  | cons c cs ih =>
    have hc : (c == 59) = false := by
      have : c ≠ 59 := fun e => h (by simp [e])
      simpa using this
    simp only [List.cons_append, splitSemi, hc, Bool.false_eq_true, if_false]
    rw [ih fun e => h (by simp [e])]; rfl

/-- `bytes.Trim(rng ++ ows, " \t")` = `rng` when `rng` neither starts nor ends with optional whitespace -/
theorem trim_range (r sp : Bytes) (hne : r ≠ []) (hr : ∀ c ∈ r, isOWSb c = false) (hsp : owsOnly sp = true) :
    trimOWS (r ++ sp) = r := by
  unfold trimOWS trimRightOWS
  obtain ⟨c, cs, hcs⟩ := List.exists_cons_of_ne_nil hne
  have hc : isOWSb c = false := hr c (by simp [hcs])
  have h1 : (r ++ sp).dropWhile isOWSb = r ++ sp := by
    simp [hcs, List.dropWhile_cons, hc]
  rw [h1, List.reverse_append]
  have hsr : sp.reverse.all (fun c => c == 32 || c == 9) = true := by
    rw [List.all_eq_true]; intro x hx
    exact List.all_eq_true.1 (owsOnly_all hsp) x (List.mem_reverse.1 hx)
  rw [dropWhile_prefix _ _ hsr]
  have h2 : r.reverse.dropWhile (fun c => c == 32 || c == 9) = r.reverse := by
    apply dropWhile_head
    cases hrr : r.reverse with
    | nil => simp
    | cons y ys =>
      have hy : y ∈ r := List.mem_reverse.1 (by rw [hrr]; simp)
      have := hr y hy
      simp only [isOWSb, Bool.or_eq_false_iff, beq_eq_false_iff_ne, ne_eq] at this
      simp [this.1, this.2]
  rw [h2, List.reverse_reverse]

/-! ### qvalues -/

theorem digitsVal_cons48 (ds : Bytes) : digitsVal (48 :: ds) = digitsVal ds := by
  simp [digitsVal]

theorem foldl_zeros (ds : Bytes) (a : Nat) (h : ds.all (· == 48) = true) :
    ds.foldl (fun a c => a * 10 + (c - 48)) a = a * 10 ^ ds.length := by
  induction ds generalizing a with
  | nil => simp
  | cons d ds ih =>
    simp only [List.all_cons, Bool.and_eq_true, beq_iff_eq] at h
    obtain ⟨rfl, hds⟩ := h
    simp only [List.foldl_cons, List.length_cons]
    rw [ih _ hds, Nat.pow_succ]
    simp [Nat.mul_assoc, Nat.mul_comm]

theorem takeWhile_digit_dot (d : Nat) (hd : isDigit d = true) (ds : Bytes) :
    (d :: 46 :: ds).takeWhile isDigit = [d] := by
  simp [List.takeWhile_cons, hd, show isDigit 46 = false by decide]

/-- `ParseFloat` on a qvalue is the qvalue -/
theorem parseSimple_qvalue {v : Bytes} {q : Qual} (h : qvalue? v = some q) : parseSimple v = some q := by
  unfold qvalue? at h
  split at h
  · cases h; decide
  · cases h; decide
  · rename_i ds
    split at h
    · rename_i hc
      simp only [Bool.and_eq_true, decide_eq_true_eq] at hc
      cases h
      unfold parseSimple
      have hlen : ¬ (48 :: 46 :: ds).length > 15 := by simp only [List.length_cons]; omega
      simp only [hlen, if_false, takeWhile_digit_dot 48 (by decide) ds, List.length_cons, List.length_nil,
        List.drop_succ_cons, List.drop_zero, hc.2, List.isEmpty_cons, Bool.false_and, Bool.not_false, Bool.and_self,
        if_true, List.singleton_append, digitsVal_cons48]
      have : ¬ ds.length + 1 + 1 > 15 := by omega
      simp [this]
    · cases h
  · rename_i ds
    split at h
    · rename_i hc
      simp only [Bool.and_eq_true, decide_eq_true_eq] at hc
      cases h
      unfold parseSimple
      have hlen : ¬ (49 :: 46 :: ds).length > 15 := by simp only [List.length_cons]; omega
      have hdig : ds.all isDigit = true := by
        rw [List.all_eq_true]; intro x hx
        have := List.all_eq_true.1 hc.2 x hx
        simp only [beq_iff_eq] at this; subst this; decide
      have hval : digitsVal (49 :: ds) = 10 ^ ds.length := by
        simp only [digitsVal, List.foldl_cons]
        rw [foldl_zeros ds _ hc.2]; simp
      simp only [hlen, if_false, takeWhile_digit_dot 49 (by decide) ds, List.length_cons, List.length_nil,
        List.drop_succ_cons, List.drop_zero, hdig, List.isEmpty_cons, Bool.false_and, Bool.not_false, Bool.and_self,
        if_true, List.singleton_append, hval]
      have : ¬ ds.length + 1 + 1 > 15 := by omega
      simp [this]
    · cases h
  · cases h

theorem ufloat_qvalue (tab : Bytes → Option Qual) {v : Bytes} {q : Qual} (h : qvalue? v = some q) :
    ufloat tab v = some q := by
  simp [ufloat, parseSimple_qvalue h]

/-! ### the weight key -/

theorem lowerByte_113 (c : Nat) : lowerByte c = 113 ↔ c = 113 ∨ c = 81 := by
  unfold lowerByte isUpper
  split
  · rename_i h; simp only [Bool.and_eq_true, decide_eq_true_eq] at h; omega
  · rename_i h; simp only [Bool.and_eq_true, decide_eq_true_eq, not_and, Nat.not_le] at h
    constructor
    · intro e; left; exact e
    · rintro (e | e)
      · exact e
      · subst e; simp at h

theorem isQKey_eq_isWeight (p : Param) : isQKey p.name = isWeight p := by
  unfold isQKey isWeight toLower
  cases hn : p.name with
  | nil => rfl
  | cons c cs =>
    cases cs with
    | nil =>
      simp only [List.map_cons, List.map_nil]
      rw [Bool.eq_iff_iff]
      simp only [Bool.or_eq_true, beq_iff_eq, List.cons.injEq, and_true]
      exact (lowerByte_113 c).symm
    | cons d ds => simp

theorem isWeight_name_ne {p : Param} (h : isWeight p = true) : p.name ≠ [] := by
  intro e; unfold isWeight at h; rw [e] at h; simp [toLower] at h

/-! ### the slow path over the visited pairs -/

theorem slowParams_visited (tab : Bytes → Option Qual) (ps : List Param) (q0 : Qual) (m0 : Params) :
    slowParams tab (visitedPairs ps) q0 m0 =
      ((match weightOf ps with
        | some w => (ufloat tab w.value).getD q0
        | none => q0),
       (mediaParams ps).foldl (fun m p => mapInsert m (toLower p.name) p.value) m0) := by
  induction ps generalizing m0 with
  | nil => simp [visitedPairs, slowParams, weightOf, mediaParams]
  | cons p ps ih =>
    by_cases hn : p.name = []
    · -- an empty parameter: skipped by the scanner, by `mediaParams` and by `weightOf`
      have hw : isWeight p = false := by
        cases h : isWeight p with
        | false => rfl
        | true => exact absurd hn (isWeight_name_ne h)
      have hn' : (p.name == []) = true := by simp [hn]
      have hmp : mediaParams (p :: ps) = mediaParams ps := by simp [mediaParams, hw, hn']
      have hwo : weightOf (p :: ps) = weightOf ps := by simp [weightOf, List.find?_cons, hw]
      rw [hmp, hwo]
      simp only [visitedPairs, hn', if_true]
      exact ih m0
    · have hn' : (p.name == []) = false := by simpa using hn
      by_cases hw : isWeight p = true
      · have hq : isQKey p.name = true := by rw [isQKey_eq_isWeight]; exact hw
        simp [visitedPairs, hn', slowParams, hq, weightOf, List.find?_cons, hw, mediaParams]
      · have hw' : isWeight p = false := by simpa using hw
        have hq : isQKey p.name = false := by rw [isQKey_eq_isWeight]; exact hw'
        have hmp : mediaParams (p :: ps) = p :: mediaParams ps := by simp [mediaParams, hw', hn']
        have hwo : weightOf (p :: ps) = weightOf ps := by simp [weightOf, List.find?_cons, hw']
        rw [hmp, hwo]
        simp only [visitedPairs, hn', Bool.false_eq_true, if_false, slowParams, hq, List.foldl_cons]
        exact ih _

/-! ### the fast path agrees with the slow path -/

theorem trimRightOWS_token (v sp : Bytes) (hv : isToken v = true) (hsp : owsOnly sp = true) :
    trimRightOWS (v ++ sp) = v := by
  obtain ⟨hne, hall⟩ := token_all hv
  unfold trimRightOWS
  rw [List.reverse_append]
  have hsr : sp.reverse.all (fun c => c == 32 || c == 9) = true := by
    rw [List.all_eq_true]; intro x hx
    exact List.all_eq_true.1 (owsOnly_all hsp) x (List.mem_reverse.1 hx)
  rw [dropWhile_prefix _ _ hsr]
  have h2 : v.reverse.dropWhile (fun c => c == 32 || c == 9) = v.reverse := by
    apply dropWhile_head
    cases hrr : v.reverse with
    | nil => simp
    | cons y ys =>
      have hy : y ∈ v := List.mem_reverse.1 (by rw [hrr]; simp)
      have ht := tchar_ne (List.all_eq_true.1 hall y hy)
      simp [ht.1, ht.2.2.2.2.2.2]
  rw [h2, List.reverse_reverse]

theorem renderParams_has_semi (p : Param) (ps : List Param) (trail : Bytes) : 59 ∈ renderParams (p :: ps) ++ trail := by
  rw [renderParams_cons]; unfold renderParam; simp

/-- `accept[i:]` of an element whose first parameter is `p` (its leading OWS went with the range) -/
def restOf (p : Param) (ps : List Param) (trail : Bytes) : Bytes :=
  59 :: (p.ows2 ++ ((if p.name == [] then [] else p.name ++ [61] ++ (if p.quoted then [34] ++ p.value ++ [34] else p.value)) ++
    (renderParams ps ++ trail)))

theorem restOf_eq (p : Param) (ps : List Param) (trail : Bytes) :
    restOf p ps trail = renderParams ({ p with ows1 := [] } :: ps) ++ trail := by
  simp [restOf, renderParams_cons, renderParam, List.append_assoc]

theorem strict_noOws1 {p : Param} (h : p.strict) : ({ p with ows1 := [] } : Param).strict := by
  obtain ⟨h1, h2, h3⟩ := h
  refine ⟨?_, by simp [owsOnly], h3⟩
  unfold wfParam at h1 ⊢
  simp only [Bool.and_eq_true] at h1 ⊢
  exact ⟨⟨by simp [isOWS], h1.1.2⟩, h1.2⟩

theorem visitedPairs_noOws1 (p : Param) (ps : List Param) :
    visitedPairs ({ p with ows1 := [] } :: ps) = visitedPairs (p :: ps) := by
  simp [visitedPairs]

theorem hasPrefix_semiq (rest : Bytes) (h : hasPrefix rest (b ";q=") = true) : ∃ t, rest = 59 :: 113 :: 61 :: t := by
  have hb : b ";q=" = [59, 113, 61] := by decide
  unfold hasPrefix at h
  rw [hb] at h
  match rest, h with
  | [], h => simp [List.isPrefixOf] at h
  | [_], h => simp [List.isPrefixOf] at h
  | [_, _], h => simp [List.isPrefixOf] at h
  | x :: y :: z :: t, h =>
    simp only [List.isPrefixOf, Bool.and_eq_true, beq_iff_eq, Bool.and_true] at h
    obtain ⟨h1, h2, h3⟩ := h
    exact ⟨t, by rw [← h1, ← h2, ← h3]⟩

theorem qualityParams_rendered (tab : Bytes → Option Qual) (p : Param) (ps : List Param) (trail : Bytes)
    (hp : p.strict) (hps : ∀ q ∈ ps, q.strict) (ht : owsOnly trail = true) :
    qualityParams tab (restOf p ps trail) = slowParams tab (visitedPairs (p :: ps)) .one [] := by
  have hvisit : scanParams (restOf p ps trail) = visitedPairs (p :: ps) := by
    rw [restOf_eq, scanParams_rendered _ _ (by
      intro q hq
      rcases List.mem_cons.1 hq with rfl | hq
      · exact strict_noOws1 hp
      · exact hps q hq) ht, visitedPairs_noOws1]
  unfold qualityParams
  split
  · rename_i hcond
    simp only [Bool.and_eq_true, Bool.not_eq_true'] at hcond
    obtain ⟨hpre, hnosemi⟩ := hcond
    obtain ⟨t, heq⟩ := hasPrefix_semiq _ hpre
    have hmore := more_head ps trail hps ht
    -- ows2 must be empty
    have hows2 : p.ows2 = [] := by
      cases ho : p.ows2 with
      | nil => rfl
      | cons c cs =>
        have := hp.2.2
        rw [ho] at this
        obtain ⟨hc, _⟩ := owsOnly_cons this
        rcases hc with rfl | rfl <;> simp [restOf, ho] at heq
    -- the name is exactly "q"
    have hname : p.name = [113] := by
      cases hn : p.name with
      | nil =>
        exfalso
        simp only [restOf, hows2, hn, beq_self_eq_true, if_true, List.nil_append, List.cons.injEq, true_and] at heq
        rw [heq] at hmore
        revert hmore; simp; decide
      | cons c cs =>
        have hnne : p.name ≠ [] := by rw [hn]; simp
        obtain ⟨htok, _⟩ := strict_value hp hnne
        obtain ⟨_, hall⟩ := token_all htok
        rw [hn] at hall
        simp only [List.all_cons, Bool.and_eq_true] at hall
        have hn' : (p.name == []) = false := by simpa using hnne
        simp only [restOf, hows2, hn', Bool.false_eq_true, if_false, List.nil_append, hn, List.cons_append,
          List.append_assoc, List.cons.injEq, true_and] at heq
        have hne0 : (c :: cs == ([] : Bytes)) = false := by simp
        simp only [hne0, Bool.false_eq_true, if_false, List.cons_append, List.append_assoc, List.cons.injEq] at heq
        obtain ⟨hc, hrest⟩ := heq
        cases hcs : cs with
        | nil => rw [hc]
        | cons d ds =>
          exfalso
          rw [hcs] at hall hrest
          simp only [List.all_cons, Bool.and_eq_true] at hall
          simp only [List.cons_append, List.cons.injEq] at hrest
          exact (tchar_ne hall.2.1).2.2.1 hrest.1
    have hw : isWeight p = true := by simp [isWeight, hname, toLower, lowerByte, isUpper]
    have hnne : p.name ≠ [] := by rw [hname]; simp
    -- the weight is an unquoted qvalue
    have hwf := hp.1
    unfold wfParam at hwf
    simp only [Bool.and_eq_true] at hwf
    have hn' : (p.name == []) = false := by simpa using hnne
    have hbody := hwf.2
    simp only [hn', Bool.false_eq_true, if_false, Bool.and_eq_true, hw, if_true, Bool.not_eq_true'] at hbody
    obtain ⟨_, hq, hqv⟩ := hbody
    obtain ⟨qq, hqq⟩ := Option.isSome_iff_exists.1 hqv
    -- nothing follows
    have hps0 : ps = [] := by
      cases hpsc : ps with
      | nil => rfl
      | cons p2 ps2 =>
        exfalso
        have hmem := renderParams_has_semi p2 ps2 trail
        have : (List.drop 3 (restOf p ps trail)).contains 59 = true := by
          rw [List.contains_iff_mem, hpsc]
          simp only [restOf, hows2, hn', hname, hq, Bool.false_eq_true, if_false, List.nil_append, List.cons_append,
            List.append_assoc, List.drop_succ_cons, List.drop_zero]
          exact List.mem_append_right _ hmem
        rw [hnosemi] at this; cases this
    subst hps0
    have hdrop : List.drop 3 (restOf p [] trail) = p.value ++ trail := by
      simp [restOf, hows2, hn', hname, hq, renderParams]
    rw [hdrop, trimRightOWS_token _ _ (qvalue_token hqq) ht]
    have hq' : isQKey p.name = true := by rw [isQKey_eq_isWeight]; exact hw
    simp [visitedPairs, hn', slowParams, hq']
  · rw [hvisit]

end C09
