import FiberModel.Basic
/-
C09 — executable model of fiber's content negotiation (after the `fix:` commits F1–F5, see
docs/C09.md): `/repo/helpers.go` `forEachMediaRange`, `forEachParameter`, `isTokenByte`, `getOffer`
(fast and slow q parsers, specificity), `sortAcceptedTypes` (binary insertion exactly as written),
the nested search, `acceptsOffer`, `acceptsOfferType`, `paramsMatch`; `fasthttp.VisitHeaderParams`
(offer parameters in `paramsMatch`); `ctx.go` `Format`.

Parameters (modelled, not verified): `strconv.ParseFloat` outside the plain decimal grammar
(`tab`), `utils.GetMIME` (`mime`). Both are shipped by the harness with every case.
-/
namespace C09
open B

/-! ### quality values (Go `float64` as produced by `fasthttp.ParseUfloat`) -/

/-- A non-negative float64 as far as `getOffer` can observe it: an exact decimal `m / 10^e`
    (every text of ≤ 15 significant digits denotes a distinct float64, and comparison of such
    floats is comparison of the decimals), `+Inf`, or `NaN`. -/
inductive Qual where
  | fin (m e : Nat)
  | inf
  | nan
  deriving DecidableEq, Repr, Inhabited

namespace Qual
/-- float64 `<` -/
def lt : Qual → Qual → Bool
  | fin m e, fin m' e' => decide (m * 10 ^ e' < m' * 10 ^ e)
  | fin _ _, inf => true
  | _, _ => false
/-- float64 `==` -/
def eq : Qual → Qual → Bool
  | fin m e, fin m' e' => decide (m * 10 ^ e' = m' * 10 ^ e)
  | inf, inf => true
  | _, _ => false
/-- `quality == 0.0` -/
def isZero : Qual → Bool
  | fin m _ => m == 0
  | _ => false
def one : Qual := fin 1 0
def isNaN : Qual → Bool
  | nan => true
  | _ => false
end Qual

def digitsVal (s : Bytes) : Nat := s.foldl (fun a c => a * 10 + (c - 48)) 0

/-- The part of `strconv.ParseFloat`'s grammar that is modelled exactly: `digits [ "." digits ]`
    with at least one digit and at most 15 bytes. -/
def parseSimple (s : Bytes) : Option Qual :=
  if s.length > 15 then none else
  let ip := s.takeWhile isDigit
  match s.drop ip.length with
  | [] => if ip.isEmpty then none else some (.fin (digitsVal ip) 0)
  | 46 :: fr =>
    if fr.all isDigit && !(ip.isEmpty && fr.isEmpty) then some (.fin (digitsVal (ip ++ fr)) fr.length)
    else none
  | _ => none

/-- `fasthttp.ParseUfloat` (= `strconv.ParseFloat`, negative ⇒ error). `tab` answers for every text
    outside `parseSimple`'s grammar (`none` = error). -/
def ufloat (tab : Bytes → Option Qual) (s : Bytes) : Option Qual :=
  match parseSimple s with
  | some q => some q
  | none => tab s

/-! ### `fasthttp.VisitHeaderParams` -/

/-- `validHeaderFieldByte`: RFC 9110 `tchar`. -/
def tchar (c : Nat) : Bool :=
  isDigit c || isAlpha c || c == 33 || (35 ≤ c && c ≤ 39) || c == 42 || c == 43 || c == 45 || c == 46 ||
  c == 94 || c == 95 || c == 96 || c == 124 || c == 126

/-- the scan to the next `;`: the bytes after it, if any -/
def afterSemi : Bytes → Option Bytes
  | [] => none
  | c :: cs => if c == 59 then some cs else afterSemi cs

/-- quoted value scan (`escaping` flag as in fasthttp): content and the bytes after the closing
    quote; `none` when the closing quote is missing -/
def quotedValue : Bytes → Bool → Bytes → Option (Bytes × Bytes)
  | [], _, _ => none
  | c :: cs, esc, acc =>
    if c == 34 && !esc then some (acc.reverse, cs)
    else quotedValue cs (c == 92 && !esc) (c :: acc)

/-- one iteration of the `for len(b) > 0` loop: the pair handed to the callback and the bytes the
    next iteration starts from; `none` = the function returns -/
def visitStep (b : Bytes) : Option ((Bytes × Bytes) × Bytes) :=
  match afterSemi b with
  | none => none
  | some b1 =>
    let b2 := b1.dropWhile (· == 32)
    let key := b2.takeWhile tchar
    if key.isEmpty then none else
    match b2.drop key.length with
    | 61 :: c :: rest =>
      if tchar c then
        let v := (c :: rest).takeWhile tchar
        some ((key, v), (c :: rest).drop v.length)
      else if c == 34 then
        match quotedValue rest false [] with
        | none => none
        | some (v, after) => some ((key, v), after)
      else none
    | _ => none

/-- All `(key, value)` pairs `VisitHeaderParams` passes to a callback that never stops it.
    One loop iteration per unit of fuel (each iteration consumes at least the `;`). -/
def visitFuel : Nat → Bytes → List (Bytes × Bytes)
  | 0, _ => []
  | fuel + 1, b =>
    match visitStep b with
    | none => []
    | some (kv, rest) => kv :: visitFuel fuel rest

def visitParams (b : Bytes) : List (Bytes × Bytes) := visitFuel (b.length + 1) b

/-! ### `helpers.go forEachParameter` (the parameters of a media range of the request header) -/

/-- a byte of optional whitespace: `OWS = *( SP / HTAB )` -/
def isOWSb (c : Nat) : Bool := c == 32 || c == 9

/-- the part of one loop iteration of `forEachParameter` after the `;` and the optional whitespace
    (`isTokenByte` = `tchar`): `none` = the function returns; `some (none, rest)` = an empty parameter
    (`continue`); `some (some kv, rest)` = the pair handed to the callback. `rest` = the bytes the next
    iteration starts from. -/
def scanBody (b2 : Bytes) : Option (Option (Bytes × Bytes) × Bytes) :=
  if b2.head? == some 59 then some (none, b2) else
  let key := b2.takeWhile tchar
  if key.isEmpty then none else
  match b2.drop key.length with
  | 61 :: c :: rest =>
    if tchar c then
      let v := (c :: rest).takeWhile tchar
      some (some (key, v), (c :: rest).drop v.length)
    else if c == 34 then
      match quotedValue rest false [] with
      | none => none
      | some (v, after) => some (some (key, v), after)
    else none
  | _ => none

/-- one iteration of the `for` loop of `forEachParameter`. Differs from `visitStep` in two places
    only: HTAB is skipped after the `;` like SP, and a `;` right after the optional whitespace is an
    empty parameter, not the end of the scan. -/
def scanStep (b : Bytes) : Option (Option (Bytes × Bytes) × Bytes) :=
  match afterSemi b with
  | none => none
  | some b1 => scanBody (b1.dropWhile isOWSb)

/-- All `(key, value)` pairs `forEachParameter` passes to a callback that never stops it.
    One loop iteration per unit of fuel (each iteration consumes at least the `;`). -/
def scanFuel : Nat → Bytes → List (Bytes × Bytes)
  | 0, _ => []
  | fuel + 1, b =>
    match scanStep b with
    | none => []
    | some (none, rest) => scanFuel fuel rest
    | some (some kv, rest) => kv :: scanFuel fuel rest

def scanParams (b : Bytes) : List (Bytes × Bytes) := scanFuel (b.length + 1) b

/-! ### `forEachMediaRange` -/

inductive Mode where
  | lead (saw : Bool)            -- `bytes.TrimLeft(header, " \t")`; `saw` = some byte follows the last comma
  | body (odd esc : Bool)        -- inside an element: `quotes % 2 == 1`, `escaping`

inductive StepR where
  | emit
  | cont (odd esc : Bool)

/-- one iteration of the inner scan loop (the `hasDQuote` branch; without any `"` in the header
    `odd` and `esc` stay false and this is the plain search for the next comma) -/
def bodyStep (c : Nat) (odd esc : Bool) : StepR :=
  if esc then .cont odd false
  else if c == 44 then (if odd then .cont odd false else .emit)
  else if c == 34 then .cont (!odd) false
  else if c == 92 then .cont odd odd
  else .cont odd false

def rangesGo : Bytes → Mode → Bytes → List Bytes
  | [], .lead saw, _ => if saw then [[]] else []
  | [], .body _ _, acc => [acc.reverse]
  | c :: cs, .lead _, _ =>
    if isOWSb c then rangesGo cs (.lead true) []
    else match bodyStep c false false with
      | .emit => [] :: rangesGo cs (.lead false) []
      | .cont o e => rangesGo cs (.body o e) [c]
  | c :: cs, .body o e, acc =>
    match bodyStep c o e with
    | .emit => acc.reverse :: rangesGo cs (.lead false) []
    | .cont o' e' => rangesGo cs (.body o' e') (c :: acc)

/-- the elements `forEachMediaRange` hands to its functor, in order -/
def mediaRanges (header : Bytes) : List Bytes := rangesGo header (.lead false) []

/-! ### `getOffer`: parsing one element -/

abbrev Params := List (Bytes × Bytes)

/-- `acceptedType` -/
structure Range where
  spec : Bytes
  q : Qual
  spcf : Nat
  params : Params          -- the `headerParams` map as an association list (distinct keys); `[]` also models nil
  order : Nat
  deriving Repr, DecidableEq

/-- `params[lowerKey] = value` -/
def mapInsert (m : Params) (k v : Bytes) : Params :=
  if m.any (·.1 == k) then m.map (fun p => if p.1 == k then (k, v) else p) else m ++ [(k, v)]

def isQKey (k : Bytes) : Bool := k == [113] || k == [81]

/-- the callback of the slow path, folded over the visited pairs: stops at the weight -/
def slowParams (tab : Bytes → Option Qual) : Params → Qual → Params → Qual × Params
  | [], q, m => (q, m)
  | (k, v) :: rest, q, m =>
    if isQKey k then ((ufloat tab v).getD q, m)
    else slowParams tab rest q (mapInsert m (toLower k) v)

def specificity (spec : Bytes) : Nat :=
  if spec == [42] then 1
  else if spec == b "*/*" then 1
  else if hasSuffix spec (b "/*") then 2
  else if spec.contains 47 then 3
  else 4

/-- `bytes.TrimRight(x, " \t")` -/
def trimRightOWS (s : Bytes) : Bytes := (s.reverse.dropWhile (fun c => c == 32 || c == 9)).reverse

/-- `bytes.Trim(x, " \t")` -/
def trimOWS (s : Bytes) : Bytes := trimRightOWS (s.dropWhile isOWSb)

/-- split at the first `;`: (before, from the `;` on) -/
def splitSemi : Bytes → Option (Bytes × Bytes)
  | [] => none
  | c :: cs => if c == 59 then some ([], c :: cs) else (splitSemi cs).map fun (a, r) => (c :: a, r)

/-- quality and parameters of one element (`accept[i:]` = `rest`, starting with `;`) -/
def qualityParams (tab : Bytes → Option Qual) (rest : Bytes) : Qual × Params :=
  if hasPrefix rest (b ";q=") && !(rest.drop 3).contains 59 then
    ((ufloat tab (trimRightOWS (rest.drop 3))).getD .one, [])
  else slowParams tab (scanParams rest) .one []

/-- the functor body of `getOffer` for one element; `none` = skipped (`quality == 0.0`) -/
def parseElem (tab : Bytes → Option Qual) (accept : Bytes) (order : Nat) : Option Range :=
  match splitSemi accept with
  | none =>
    let spec := trimOWS accept
    some { spec := spec, q := .one, spcf := specificity spec, params := [], order := order }
  | some (sp, rest) =>
    let (q, params) := qualityParams tab rest
    if q.isZero then none
    else
      let spec := trimOWS sp
      some { spec := spec, q := q, spcf := specificity spec, params := params, order := order }

/-- all accepted types, in header order; `order` counts every element (skipped ones too) -/
def parseRangesFrom (tab : Bytes → Option Qual) : List Bytes → Nat → List Range
  | [], _ => []
  | a :: as, n =>
    match parseElem tab a (n + 1) with
    | none => parseRangesFrom tab as (n + 1)
    | some r => r :: parseRangesFrom tab as (n + 1)

def parseRanges (tab : Bytes → Option Qual) (header : Bytes) : List Range :=
  parseRangesFrom tab (mediaRanges header) 0

/-! ### `sortAcceptedTypes` -/

/-- the `if` of the binary search with `at[i] = x`, `at[mid] = m`: "x belongs after m" -/
def after (x m : Range) : Bool :=
  x.q.lt m.q ||
  (x.q.eq m.q && x.spcf < m.spcf) ||
  (x.q.eq m.q && x.spcf == m.spcf && x.params.length < m.params.length) ||
  (x.q.eq m.q && x.spcf == m.spcf && x.params.length == m.params.length && x.order > m.order)

/-- the `for lo <= hi` loop over the sorted prefix `pre`, with `hiX = hi + 1` (so that `hi = -1`
    needs no integers): returns the final `lo` -/
def bsearch (pre : List Range) (x : Range) : Nat → Nat → Nat → Nat
  | 0, lo, _ => lo
  | fuel + 1, lo, hiX =>
    if lo < hiX then
      let mid := (lo + (hiX - 1)) / 2
      match pre[mid]? with
      | none => lo                      -- unreachable: mid < hiX ≤ pre.length
      | some m => if after x m then bsearch pre x fuel (mid + 1) hiX else bsearch pre x fuel lo mid
    else lo

/-- the swap loop `for j := i; j > lo; j--` moves `at[i]` down to index `lo` -/
def insertAt (pre : List Range) (x : Range) (lo : Nat) : List Range := pre.take lo ++ x :: pre.drop lo

def insertSorted (pre : List Range) (x : Range) : List Range :=
  insertAt pre x (bsearch pre x (pre.length + 1) 0 pre.length)

def sortAccepted (l : List Range) : List Range := l.foldl insertSorted []

/-! ### the acceptability predicates -/

/-- `acceptsOffer` (charsets, encodings, languages) -/
def acceptsOffer (spec offer : Bytes) (_ : Params) : Bool :=
  (spec.getLast? == some 42) || hasPrefix spec offer

/-- `paramsMatch`: every parameter of the range equals (ASCII case-insensitively) the *first*
    parameter of the offer with that name. Go iterates a map: the result does not depend on order. -/
def paramsMatch (specParams : Params) (offerParams : Bytes) : Bool :=
  let ops := visitParams offerParams
  specParams.all fun (k, v) =>
    match ops.find? (fun p => equalFold k p.1) with
    | some p => equalFold v p.2
    | none => false

/-- offer ↦ (MIME part, parameter part from the `;` on) -/
def splitOffer (offer : Bytes) : Bytes × Bytes :=
  match splitSemi offer with
  | none => (offer, [])
  | some (m, ps) => (m, ps)

/-- `acceptsOfferType`. `mime` is `utils.GetMIME`. Go panics (`mimetype[:-1]`) when the MIME type
    has no `/`: such offers are outside the domain (`offerOK`), here the answer is `false`. -/
def acceptsOfferType (mime : Bytes → Bytes) (spec offerType : Bytes) (specParams : Params) : Bool :=
  let (offerMime, offerParams) := splitOffer offerType
  if spec == b "*/*" then paramsMatch specParams offerParams
  else
    let mimetype := if offerMime.contains 47 then offerMime else mime offerMime
    if spec == mimetype then paramsMatch specParams offerParams
    else match indexByte mimetype 47 with
      | none => false
      | some s =>
        if hasPrefix spec (mimetype.take s) && (spec.drop s == b "/*" || mimetype.drop s == b "/*") then
          paramsMatch specParams offerParams
        else false

/-- offers on which `acceptsOfferType` cannot panic -/
def offerOK (mime : Bytes → Bytes) (offer : Bytes) : Bool :=
  let m := (splitOffer offer).1
  offer == [] || m.contains 47 || (mime m).contains 47

/-! ### `getOffer` -/

/-- the nested search -/
def findOffer (acc : Bytes → Bytes → Params → Bool) : List Range → List Bytes → Bytes
  | [], _ => []
  | r :: rs, offers =>
    match offers.find? (fun o => o != [] && acc r.spec o r.params) with
    | some o => o
    | none => findOffer acc rs offers

def getOffer (tab : Bytes → Option Qual) (acc : Bytes → Bytes → Params → Bool) (header : Bytes)
    (offers : List Bytes) : Bytes :=
  match offers with
  | [] => []
  | o0 :: _ =>
    if header == [] then o0
    else
      let ats := parseRanges tab header
      let ats := if ats.length > 1 then sortAccepted ats else ats
      findOffer acc ats offers

/-! ### `Format` -/

structure FormatObs where
  handler : Option Nat     -- index of the handler that ran
  status : Nat
  ctype : Bytes            -- `Response.Header.ContentType()`
  vary : Bytes
  err : Bool
  deriving Repr, DecidableEq

def defaultCT : Bytes := b "text/plain; charset=utf-8"
def sDefault : Bytes := b "default"

def lastIndexFrom : List Bytes → Bytes → Nat → Option Nat → Option Nat
  | [], _, _, acc => acc
  | y :: ys, x, i, acc => lastIndexFrom ys x (i + 1) (if y == x then some i else acc)

/-- index of the last handler whose media type is `x` (the `for` loop keeps overwriting `defaultHandler`) -/
def lastIndexOf (l : List Bytes) (x : Bytes) : Option Nat := lastIndexFrom l x 0 none

def ctOf (m : Bytes) : Bytes := if m == [] then defaultCT else m

/-- `(*DefaultCtx).Format` with `handlers[i].MediaType = types[i]` -/
def format (tab : Bytes → Option Qual) (mime : Bytes → Bytes) (header : Bytes) (types : List Bytes) : FormatObs :=
  match types with
  | [] => { handler := none, status := 200, ctype := defaultCT, vary := [], err := true }
  | t0 :: _ =>
    if header == [] then { handler := some 0, status := 200, ctype := ctOf t0, vary := b "Accept", err := false }
    else
      let offers := types.filter (· != sDefault)
      let accept := getOffer tab (acceptsOfferType mime) header offers
      if accept == [] then
        match lastIndexOf types sDefault with
        | none => { handler := none, status := 406, ctype := defaultCT, vary := b "Accept", err := false }
        | some i => { handler := some i, status := 200, ctype := defaultCT, vary := b "Accept", err := false }
      else
        match types.findIdx? (· == accept) with
        | some i => { handler := some i, status := 200, ctype := accept, vary := b "Accept", err := false }
        | none => { handler := none, status := 200, ctype := defaultCT, vary := b "Accept", err := true }

end C09
