import FiberModel.C09.SortLemmas
/-
C09 — lemmas tying the nested search over the sorted list (`findOffer`) to the argmax formulation
of the property (`select`).
-/
namespace C09
open B

/-- a parsed range seen by the specification -/
def toS (r : Range) : SRange := { spec := r.spec, q := r.q, params := r.params, pos := r.order }

/-- `isAccepted` of Go's `getOffer` as a predicate on specification ranges -/
def accS (acc : Bytes → Bytes → Params → Bool) : SRange → Bytes → Bool := fun s o => acc s.spec o s.params

/-- the invariant `getOffer` establishes: `specificity` field computed from the spelling -/
def Range.spcfOK (r : Range) : Prop := r.spcf = specificity r.spec

theorem pref_toS {E : Nat} {a c : Range} (ha : a.ok E) (hc : c.ok E) (sa : a.spcfOK) (sc : c.spcfOK) :
    pref (toS a) (toS c) = true ↔ afterN E c a := by
  have hl := lt_iff_qv (E := E) hc.1 ha.1 hc.2 ha.2
  have he := eq_iff_qv (E := E) ha.1 hc.1 ha.2 hc.2
  unfold pref afterN toS
  unfold Range.spcfOK at sa sc
  simp only [Bool.or_eq_true, Bool.and_eq_true, decide_eq_true_eq, beq_iff_eq, hl, he, ← sa, ← sc]
  omega

/-! ### `best` returns the greatest element -/

theorem best_none {l : List SRange} : best l = none ↔ l = [] := by
  cases l with
  | nil => simp [best]
  | cons r rs =>
    simp only [best]
    cases best rs with
    | none => simp
    | some m => by_cases h : pref m r = true <;> simp [h]

theorem best_spec (l : List SRange)
    (trans : ∀ a c d, a ∈ l → c ∈ l → d ∈ l → pref a c = true → pref c d = true → pref a d = true)
    (total : ∀ a c, a ∈ l → c ∈ l → a = c ∨ pref a c = true ∨ pref c a = true) :
    ∀ m, best l = some m → m ∈ l ∧ ∀ x ∈ l, x = m ∨ pref m x = true := by
  induction l with
  | nil => intro m h; simp [best] at h
  | cons r rs ih =>
    have trans' : ∀ a c d, a ∈ rs → c ∈ rs → d ∈ rs → pref a c = true → pref c d = true → pref a d = true :=
      fun a c d ha hc hd => trans a c d (by simp [ha]) (by simp [hc]) (by simp [hd])
    have total' : ∀ a c, a ∈ rs → c ∈ rs → a = c ∨ pref a c = true ∨ pref c a = true :=
      fun a c ha hc => total a c (by simp [ha]) (by simp [hc])
    intro m hm
    simp only [best] at hm
    cases hb : best rs with
    | none =>
      rw [hb] at hm; cases hm
      have : rs = [] := best_none.1 hb
      subst this; simp
    | some m' =>
      rw [hb] at hm
      obtain ⟨hm'in, hm'max⟩ := ih trans' total' m' hb
      by_cases hp : pref m' r = true
      · simp only [hp, if_true] at hm; cases hm
        refine ⟨by simp [hm'in], ?_⟩
        intro x hx
        rcases List.mem_cons.1 hx with rfl | hx
        · right; exact hp
        · exact hm'max x hx
      · simp only [hp] at hm; cases hm
        refine ⟨by simp, ?_⟩
        intro x hx
        rcases List.mem_cons.1 hx with rfl | hx
        · left; rfl
        · have hrm := total r m' (by simp) (by simp [hm'in])
          rcases hrm with rfl | hrm | hrm
          · exact hm'max x hx
          · rcases hm'max x hx with rfl | hx'
            · right; exact hrm
            · right; exact trans r m' x (by simp) (by simp [hm'in]) (by simp [hx]) hrm hx'
          · exact absurd hrm hp

/-! ### the nested search over a sorted list -/

theorem findOffer_nil_of_none (acc : Bytes → Bytes → Params → Bool) (L : List Range) (offers : List Bytes)
    (h : ∀ r ∈ L, (firstAcceptable (accS acc) (toS r) offers) = none) : findOffer acc L offers = [] := by
  induction L with
  | nil => simp [findOffer]
  | cons r rs ih =>
    have hr := h r (by simp)
    simp only [firstAcceptable, accS, toS] at hr
    simp only [findOffer, hr]
    exact ih fun r' hr' => h r' (by simp [hr'])

/-- the search returns the first offer of the first range (in list order) that accepts one -/
theorem findOffer_first (acc : Bytes → Bytes → Params → Bool) (L : List Range) (offers : List Bytes)
    (pre post : List Range) (r0 : Range) (o : Bytes) (hL : L = pre ++ r0 :: post)
    (hpre : ∀ r ∈ pre, firstAcceptable (accS acc) (toS r) offers = none)
    (h0 : firstAcceptable (accS acc) (toS r0) offers = some o) : findOffer acc L offers = o := by
  subst hL
  induction pre with
  | nil =>
    simp only [firstAcceptable, accS, toS] at h0
    simp [findOffer, h0]
  | cons p ps ih =>
    have hp := hpre p (by simp)
    simp only [firstAcceptable, accS, toS] at hp
    simp only [List.cons_append, findOffer, hp]
    exact ih fun r hr => hpre r (by simp [hr])

/-- split a list at its first element satisfying `p` -/
theorem exists_first {α : Type} (p : α → Bool) (l : List α) (h : ∃ x ∈ l, p x = true) :
    ∃ pre x post, l = pre ++ x :: post ∧ p x = true ∧ ∀ y ∈ pre, p y = false := by
  induction l with
  | nil => obtain ⟨x, hx, _⟩ := h; simp at hx
  | cons a as ih =>
    by_cases ha : p a = true
    · exact ⟨[], a, as, rfl, ha, by simp⟩
    · obtain ⟨x, hx, hpx⟩ := h
      rcases List.mem_cons.1 hx with rfl | hx
      · exact absurd hpx ha
      · obtain ⟨pre, y, post, hl, hy, hpre⟩ := ih ⟨x, hx, hpx⟩
        refine ⟨a :: pre, y, post, by simp [hl], hy, ?_⟩
        intro z hz
        rcases List.mem_cons.1 hz with rfl | hz
        · simpa using ha
        · exact hpre z hz

/-- **selection**: over any list of parsed ranges with finite qualities, distinct positions and the
    specificity invariant, the nested search over the sorted list is the property's argmax rule -/
theorem findOffer_sorted_eq_select {E : Nat} (acc : Bytes → Bytes → Params → Bool) (rs : List Range)
    (offers : List Bytes) (hok : AllOk E rs) (hsp : ∀ r ∈ rs, r.spcfOK)
    (hd : rs.Pairwise fun a c => a.order ≠ c.order) :
    findOffer acc (sortAccepted rs) offers = select (accS acc) (rs.map toS) offers := by
  have hperm := sortAccepted_perm rs
  have hokL : AllOk E (sortAccepted rs) := fun r hr => hok r (hperm.mem_iff.1 hr)
  have hsorted : Sorted (sortAccepted rs) := by
    have := foldl_sorted (E := E) rs [] (by intro r hr; simp at hr) hok (by simp [Sorted]) (by simpa using hd)
    simpa [sortAccepted] using this
  have hsN := (sorted_iff hokL).1 hsorted
  -- the candidate list of the specification
  let M := (rs.map toS).filter fun r => (firstAcceptable (accS acc) r offers).isSome
  have hM : ∀ x, x ∈ M ↔ ∃ r ∈ rs, x = toS r ∧ (firstAcceptable (accS acc) (toS r) offers).isSome = true := by
    intro x
    simp only [M, List.mem_filter, List.mem_map]
    constructor
    · rintro ⟨⟨r, hr, rfl⟩, h⟩; exact ⟨r, hr, rfl, h⟩
    · rintro ⟨r, hr, rfl, h⟩; exact ⟨⟨r, hr, rfl⟩, h⟩
  have hordinj : ∀ a c, a ∈ rs → c ∈ rs → a.order = c.order → a = c := by
    intro a c ha hc hac
    by_cases h : a = c
    · exact h
    · exfalso
      rcases List.mem_iff_getElem.1 ha with ⟨i, hi, rfl⟩
      rcases List.mem_iff_getElem.1 hc with ⟨j, hj, rfl⟩
      have hij : i ≠ j := fun hij => h (by subst hij; rfl)
      rcases Nat.lt_or_gt_of_ne hij with hlt | hgt
      · exact List.pairwise_iff_getElem.1 hd i j hi hj hlt hac
      · exact List.pairwise_iff_getElem.1 hd j i hj hi hgt hac.symm
  have transM : ∀ a c d, a ∈ M → c ∈ M → d ∈ M → pref a c = true → pref c d = true → pref a d = true := by
    intro a c d ha hc hd' h1 h2
    obtain ⟨ra, hra, rfl, _⟩ := (hM a).1 ha
    obtain ⟨rc, hrc, rfl, _⟩ := (hM c).1 hc
    obtain ⟨rd, hrd, rfl, _⟩ := (hM d).1 hd'
    have h1' := (pref_toS (hok ra hra) (hok rc hrc) (hsp ra hra) (hsp rc hrc)).1 h1
    have h2' := (pref_toS (hok rc hrc) (hok rd hrd) (hsp rc hrc) (hsp rd hrd)).1 h2
    exact (pref_toS (hok ra hra) (hok rd hrd) (hsp ra hra) (hsp rd hrd)).2 (afterN_trans h2' h1')
  have totalM : ∀ a c, a ∈ M → c ∈ M → a = c ∨ pref a c = true ∨ pref c a = true := by
    intro a c ha hc
    obtain ⟨ra, hra, rfl, _⟩ := (hM a).1 ha
    obtain ⟨rc, hrc, rfl, _⟩ := (hM c).1 hc
    by_cases hoc : ra.order = rc.order
    · left; rw [hordinj ra rc hra hrc hoc]
    · right
      rcases afterN_total (E := E) hoc with h | h
      · right; exact (pref_toS (hok rc hrc) (hok ra hra) (hsp rc hrc) (hsp ra hra)).2 h
      · left; exact (pref_toS (hok ra hra) (hok rc hrc) (hsp ra hra) (hsp rc hrc)).2 h
  show findOffer acc (sortAccepted rs) offers = select (accS acc) (rs.map toS) offers
  unfold select
  by_cases hex : ∃ r ∈ sortAccepted rs, (fun r => (firstAcceptable (accS acc) (toS r) offers).isSome) r = true
  · obtain ⟨pre, r0, post, hL, h0, hpre⟩ := exists_first _ _ hex
    obtain ⟨o, ho⟩ := Option.isSome_iff_exists.1 h0
    have hfind := findOffer_first acc (sortAccepted rs) offers pre post r0 o hL
      (fun r hr => by have := hpre r hr; simpa using this) ho
    have hr0L : r0 ∈ sortAccepted rs := by rw [hL]; simp
    have hr0 : r0 ∈ rs := hperm.mem_iff.1 hr0L
    have hr0M : toS r0 ∈ M := (hM _).2 ⟨r0, hr0, rfl, h0⟩
    -- r0 beats every other candidate
    have hmax : ∀ x ∈ M, x = toS r0 ∨ pref (toS r0) x = true := by
      intro x hx
      obtain ⟨rx, hrx, rfl, hax⟩ := (hM x).1 hx
      have hrxL : rx ∈ sortAccepted rs := hperm.mem_iff.2 hrx
      rw [hL] at hrxL hsN
      obtain ⟨_, hs2, hs3⟩ := List.pairwise_append.1 hsN
      rcases List.mem_append.1 hrxL with hin | hin
      · have := hpre rx hin; simp [hax] at this
      · rcases List.mem_cons.1 hin with rfl | hin
        · left; rfl
        · right
          have := (List.pairwise_cons.1 hs2).1 rx hin
          exact (pref_toS (hok r0 hr0) (hok rx hrx) (hsp r0 hr0) (hsp rx hrx)).2 this
    cases hb : best M with
    | none => have := best_none.1 hb; rw [this] at hr0M; simp at hr0M
    | some m =>
      obtain ⟨hmM, hmmax⟩ := best_spec M transM totalM m hb
      have hmeq : m = toS r0 := by
        rcases hmax m hmM with h | h
        · exact h
        · rcases hmmax (toS r0) hr0M with h' | h'
          · exact h'.symm
          · exfalso
            obtain ⟨rm, hrm, rfl, _⟩ := (hM m).1 hmM
            have a1 := (pref_toS (hok r0 hr0) (hok rm hrm) (hsp r0 hr0) (hsp rm hrm)).1 h
            have a2 := (pref_toS (hok rm hrm) (hok r0 hr0) (hsp rm hrm) (hsp r0 hr0)).1 h'
            exact afterN_asymm a1 a2
      show findOffer acc (sortAccepted rs) offers = (firstAcceptable (accS acc) m offers).getD []
      rw [hmeq, ho, hfind]; rfl
  · have hnone : ∀ r ∈ sortAccepted rs, firstAcceptable (accS acc) (toS r) offers = none := by
      intro r hr
      cases h : firstAcceptable (accS acc) (toS r) offers with
      | none => rfl
      | some o => exact absurd ⟨r, hr, by simp [h]⟩ hex
    have hMnil : M = [] := by
      cases hMc : M with
      | nil => rfl
      | cons x xs =>
        have hx : x ∈ M := by rw [hMc]; simp
        obtain ⟨rx, hrx, rfl, hax⟩ := (hM x).1 hx
        have := hnone rx (hperm.mem_iff.2 hrx)
        simp [this] at hax
    rw [findOffer_nil_of_none acc _ offers hnone]
    show [] = match best M with
      | none => []
      | some r => (firstAcceptable (accS acc) r offers).getD []
    rw [hMnil]; rfl

end C09
