import FiberModel.C09.Spec
/-
C09 — `forEachMediaRange` on a rendered header: every rendered element is a balanced string
(quoted-strings closed, no comma outside them), so the splitter cuts exactly at the element
boundaries.
-/
namespace C09
open B

/-- simulate the inner scan over `s`; `none` if it would cut inside `s` -/
def bodyRun : Bytes → Bool → Bool → Option (Bool × Bool)
  | [], o, e => some (o, e)
  | c :: cs, o, e =>
    match bodyStep c o e with
    | .emit => none
    | .cont o' e' => bodyRun cs o' e'

theorem bodyRun_append (s t : Bytes) (o e : Bool) :
    bodyRun (s ++ t) o e = (bodyRun s o e).bind fun (o', e') => bodyRun t o' e' := by
  induction s generalizing o e with
  | nil => simp [bodyRun]
  | cons c cs ih =>
    simp only [List.cons_append, bodyRun]
    cases bodyStep c o e with
    | emit => rfl
    | cont o' e' => exact ih o' e'

theorem rangesGo_body (s rest acc : Bytes) (o e o' e' : Bool) (h : bodyRun s o e = some (o', e')) :
    rangesGo (s ++ rest) (.body o e) acc = rangesGo rest (.body o' e') (s.reverse ++ acc) := by
  induction s generalizing o e acc with
  | nil => simp only [bodyRun] at h; cases h; simp
  | cons c cs ih =>
    simp only [bodyRun] at h
    simp only [List.cons_append, rangesGo]
    cases hb : bodyStep c o e with
    | emit => rw [hb] at h; cases h
    | cont o1 e1 =>
      rw [hb] at h
      simp only
      rw [ih (c :: acc) o1 e1 h]
      simp

/-- bytes that leave the scanner state `(false, false)` alone -/
def plain (c : Nat) : Bool := c != 44 && c != 34 && c != 92

theorem bodyRun_plain (s : Bytes) (h : s.all plain = true) : bodyRun s false false = some (false, false) := by
  induction s with
  | nil => rfl
  | cons c cs ih =>
    simp only [List.all_cons, Bool.and_eq_true] at h
    have hc := h.1
    simp only [plain, Bool.and_eq_true, bne_iff_ne, ne_eq] at hc
    obtain ⟨⟨h1, h2⟩, h3⟩ := hc
    have e1 : (c == 44) = false := by simpa using h1
    have e2 : (c == 34) = false := by simpa using h2
    have e3 : (c == 92) = false := by simpa using h3
    simp only [bodyRun, bodyStep, e1, e2, e3, Bool.false_eq_true, if_false]
    exact ih h.2

/-- inside a quoted-string the content keeps the scanner inside, whatever it contains -/
theorem bodyRun_content (s : Bytes) (h : isQuotedContent s = true) : bodyRun s true false = some (true, false) := by
  induction s using isQuotedContent.induct with
  | case1 => rfl
  | case2 c rest ih =>
    simp only [isQuotedContent, Bool.and_eq_true] at h
    simp only [bodyRun, bodyStep, Bool.false_eq_true, if_false, show ((92 : Nat) == 44) = false by decide,
      show ((92 : Nat) == 34) = false by decide, beq_self_eq_true, if_true]
    exact ih h.2
  | case3 c rest hne ih =>
    simp only [isQuotedContent, Bool.and_eq_true] at h
    have hq := h.1
    have e2 : (c == 34) = false := by
      have : c ≠ 34 := by
        intro e; subst e; simp [qdtext] at hq
      simpa using this
    have e3 : (c == 92) = false := by
      have : c ≠ 92 := by
        intro e; subst e; simp [qdtext] at hq
      simpa using this
    simp only [bodyRun, bodyStep, Bool.false_eq_true, if_false, e2, e3]
    by_cases e1 : (c == 44) = true
    · simp only [e1, if_true]; exact ih h.2
    · simp only [e1, if_false]; exact ih h.2

theorem bodyRun_quoted (s : Bytes) (h : isQuotedContent s = true) :
    bodyRun ([34] ++ s ++ [34]) false false = some (false, false) := by
  rw [List.append_assoc, bodyRun_append]
  simp only [List.singleton_append, bodyRun, bodyStep, Bool.false_eq_true, if_false,
    show ((34 : Nat) == 44) = false by decide, beq_self_eq_true, if_true, Bool.not_false, Option.bind_some]
  rw [bodyRun_append, bodyRun_content s h]
  simp [bodyRun, bodyStep]

/-! ### character classes of the grammar -/

theorem tchar_plain {c : Nat} (h : tchar c = true) : plain c = true := by
  unfold plain
  by_cases h1 : c = 44
  · subst h1; revert h; decide
  by_cases h2 : c = 34
  · subst h2; revert h; decide
  by_cases h3 : c = 92
  · subst h3; revert h; decide
  simp [h1, h2, h3]

theorem tchar_ne {c : Nat} (h : tchar c = true) : c ≠ 32 ∧ c ≠ 59 ∧ c ≠ 61 ∧ c ≠ 34 ∧ c ≠ 44 ∧ c ≠ 47 ∧ c ≠ 9 := by
  refine ⟨?_, ?_, ?_, ?_, ?_, ?_, ?_⟩ <;> (intro e; subst e; revert h; decide)

/-- optional whitespace only: `*( SP / HTAB )` -/
def owsOnly (s : Bytes) : Bool := s.all isOWSb

theorem isOWSb_iff {c : Nat} : isOWSb c = true ↔ c = 32 ∨ c = 9 := by
  simp [isOWSb]

theorem owsOnly_cons {c : Nat} {cs : Bytes} (h : owsOnly (c :: cs) = true) : (c = 32 ∨ c = 9) ∧ owsOnly cs = true := by
  simp only [owsOnly, List.all_cons, Bool.and_eq_true] at h
  exact ⟨isOWSb_iff.1 h.1, h.2⟩

theorem owsOnly_mem {s : Bytes} (h : owsOnly s = true) {x : Nat} (hx : x ∈ s) : x = 32 ∨ x = 9 :=
  isOWSb_iff.1 (List.all_eq_true.1 h x hx)

theorem owsOnly_isOWS {s : Bytes} : owsOnly s = isOWS s := rfl

theorem owsOnly_plain {s : Bytes} (h : owsOnly s = true) : s.all plain = true := by
  rw [List.all_eq_true]
  intro x hx
  rcases owsOnly_mem h hx with rfl | rfl <;> decide

theorem token_plain {s : Bytes} (h : isToken s = true) : s.all plain = true := by
  unfold isToken at h
  simp only [Bool.and_eq_true] at h
  rw [List.all_eq_true] at h ⊢
  exact fun x hx => tchar_plain (h.2 x hx)

theorem all_append_plain {s t : Bytes} (hs : s.all plain = true) (ht : t.all plain = true) :
    (s ++ t).all plain = true := by simp [List.all_append, hs, ht]

theorem qvalue_chars {v : Bytes} {q : Qual} (h : qvalue? v = some q) :
    v.all (fun c => isDigit c || c == 46) = true := by
  unfold qvalue? at h
  split at h
  · decide
  · decide
  · rename_i ds
    split at h
    · rename_i hc
      simp only [Bool.and_eq_true, decide_eq_true_eq] at hc
      simp only [List.all_cons, show isDigit 48 = true by decide, Bool.true_or, Bool.true_and,
        show ((46 : Nat) == 46) = true by decide, Bool.or_true]
      rw [List.all_eq_true] at hc ⊢
      intro x hx; simp [hc.2 x hx]
    · cases h
  · rename_i ds
    split at h
    · rename_i hc
      simp only [Bool.and_eq_true, decide_eq_true_eq] at hc
      simp only [List.all_cons, show isDigit 49 = true by decide, Bool.true_or, Bool.true_and,
        show ((46 : Nat) == 46) = true by decide, Bool.or_true]
      rw [List.all_eq_true] at hc ⊢
      intro x hx
      have := hc.2 x hx
      simp only [beq_iff_eq] at this
      subst this; decide
    · cases h
  · cases h

theorem digdot_plain {s : Bytes} (h : s.all (fun c => isDigit c || c == 46) = true) : s.all plain = true := by
  rw [List.all_eq_true] at h ⊢
  intro x hx
  have := h x hx
  simp only [Bool.or_eq_true, beq_iff_eq] at this
  rcases this with hd | rfl
  · have hd' : 48 ≤ x ∧ x ≤ 57 := by simpa [isDigit] using hd
    unfold plain
    have a1 : x ≠ 44 := by omega
    have a2 : x ≠ 34 := by omega
    have a3 : x ≠ 92 := by omega
    simp [a1, a2, a3]
  · decide

/-- a parameter of the grammar, with its whitespace facts unpacked -/
def Param.strict (p : Param) : Prop := wfParam p = true ∧ owsOnly p.ows1 = true ∧ owsOnly p.ows2 = true

theorem bodyRun_param (p : Param) (h : p.strict) : bodyRun (renderParam p) false false = some (false, false) := by
  obtain ⟨hwf, h1, h2⟩ := h
  unfold renderParam
  have hsemi : ([59] : Bytes).all plain = true := by decide
  have hpre : (p.ows1 ++ [59] ++ p.ows2).all plain = true :=
    all_append_plain (all_append_plain (owsOnly_plain h1) hsemi) (owsOnly_plain h2)
  rw [bodyRun_append, bodyRun_plain _ hpre]
  simp only [Option.bind_some]
  unfold wfParam at hwf
  simp only [Bool.and_eq_true] at hwf
  obtain ⟨_, hbody⟩ := hwf
  by_cases hn : p.name = []
  · simp [hn, bodyRun]
  · have hn' : (p.name == []) = false := by simpa using hn
    simp only [hn', Bool.false_eq_true, if_false, Bool.and_eq_true] at hbody ⊢
    obtain ⟨hname, hval⟩ := hbody
    have heq : ([61] : Bytes).all plain = true := by decide
    rw [bodyRun_append, bodyRun_plain _ (all_append_plain (token_plain hname) heq)]
    simp only [Option.bind_some]
    by_cases hq : p.quoted = true
    · simp only [hq, if_true] at hval ⊢
      split at hval
      · simp at hval
      · exact bodyRun_quoted _ hval
    · have hq' : p.quoted = false := by simpa using hq
      simp only [hq', Bool.false_eq_true, if_false] at hval ⊢
      split at hval
      · -- the weight: a qvalue is made of digits and a dot
        simp only [Bool.not_false, Bool.true_and] at hval
        obtain ⟨q, hq⟩ := Option.isSome_iff_exists.1 hval
        exact bodyRun_plain _ (digdot_plain (qvalue_chars hq))
      · exact bodyRun_plain _ (token_plain hval)

theorem bodyRun_params (ps : List Param) (h : ∀ p ∈ ps, p.strict) :
    bodyRun (renderParams ps) false false = some (false, false) := by
  induction ps with
  | nil => rfl
  | cons p ps ih =>
    have : renderParams (p :: ps) = renderParam p ++ renderParams ps := by simp [renderParams]
    rw [this, bodyRun_append, bodyRun_param p (h p (by simp))]
    exact ih fun q hq => h q (by simp [hq])

/-! ### elements -/

theorem isRange_chars {s : Bytes} (h : isRange s = true) :
    s ≠ [] ∧ ∀ c ∈ s, tchar c = true ∨ c = 47 := by
  unfold isRange at h
  simp only at h
  have hsplit : s = s.takeWhile (· != 47) ++ s.drop (s.takeWhile (· != 47)).length := by
    clear h
    induction s with
    | nil => rfl
    | cons y ys ih =>
      simp only [List.takeWhile_cons]
      split
      · simp only [List.length_cons, List.drop_succ_cons, List.cons_append]; rw [← ih]
      · simp
  split at h
  · rename_i hd
    rw [hd, List.append_nil] at hsplit
    rw [← hsplit] at h
    unfold isToken at h
    simp only [Bool.and_eq_true, bne_iff_ne, ne_eq] at h
    exact ⟨h.1, fun c hc => Or.inl (List.all_eq_true.1 h.2 c hc)⟩
  · rename_i x u hd
    simp only [Bool.and_eq_true] at h
    obtain ⟨ht, hu⟩ := h
    unfold isToken at ht hu
    simp only [Bool.and_eq_true, bne_iff_ne, ne_eq] at ht hu
    have hx : x = 47 := by
      -- the byte after the maximal prefix of non-slashes is a slash
      have : ∀ (l : Bytes) (y : Nat) (r : Bytes), l.drop (l.takeWhile (· != 47)).length = y :: r → y = 47 := by
        intro l
        induction l with
        | nil => intro y r h; simp at h
        | cons z zs ih =>
          intro y r h
          simp only [List.takeWhile_cons] at h
          split at h
          · simp only [List.length_cons, List.drop_succ_cons] at h; exact ih y r h
          · rename_i hz
            simp only [List.length_nil, List.drop_zero, List.cons.injEq] at h
            have : z = 47 := by simpa using hz
            rw [← h.1]; exact this
      exact this s x u hd
    refine ⟨?_, ?_⟩
    · intro e; rw [e] at hd; simp at hd
    · intro c hc
      rw [hsplit, hd] at hc
      rcases List.mem_append.1 hc with hc | hc
      · exact Or.inl (List.all_eq_true.1 ht.2 c hc)
      · rcases List.mem_cons.1 hc with rfl | hc
        · exact Or.inr hx
        · exact Or.inl (List.all_eq_true.1 hu.2 c hc)

theorem rangeChar_plain {c : Nat} (h : tchar c = true ∨ c = 47) : plain c = true := by
  rcases h with h | rfl
  · exact tchar_plain h
  · decide

/-- a strictly formed element -/
def Elem.strict (e : Elem) : Prop :=
  wfElem e = true ∧ owsOnly e.lead = true ∧ owsOnly e.trail = true ∧ ∀ p ∈ e.params, p.strict

/-- what `forEachMediaRange` hands over for a non-empty element: everything but the leading spaces -/
def bodyOf (e : Elem) : Bytes := e.rng ++ renderParams e.params ++ e.trail

theorem strict_range {e : Elem} (h : e.strict) (hr : e.rng ≠ []) : isRange e.rng = true := by
  have := h.1
  unfold wfElem at this
  simp only [Bool.and_eq_true] at this
  have hr' : (e.rng == []) = false := by simpa using hr
  simpa [hr'] using this.1.2

theorem strict_empty {e : Elem} (h : e.strict) (hr : e.rng = []) : e.params = [] := by
  have := h.1
  unfold wfElem at this
  simp only [Bool.and_eq_true] at this
  simpa [hr] using this.1.2

theorem rangesGo_lead_acc (s : Bytes) (saw : Bool) (acc : Bytes) :
    rangesGo s (.lead saw) acc = rangesGo s (.lead saw) [] := by
  cases s with
  | nil => simp [rangesGo]
  | cons c cs => simp [rangesGo]

theorem rangesGo_spaces (sp rest : Bytes) (saw : Bool) (h : owsOnly sp = true) :
    rangesGo (sp ++ rest) (.lead saw) [] = rangesGo rest (.lead (saw || sp != [])) [] := by
  induction sp generalizing saw with
  | nil => simp
  | cons c cs ih =>
    obtain ⟨hc, hcs⟩ := owsOnly_cons h
    have hc' : isOWSb c = true := isOWSb_iff.2 hc
    simp only [List.cons_append, rangesGo, hc', if_true]
    rw [ih true hcs]
    have : (c :: cs != []) = true := by simp
    simp [this]

/-- the scan of a non-empty element that is followed by a comma -/
theorem rangesGo_elem_comma (e : Elem) (h : e.strict) (hr : e.rng ≠ []) (more : Bytes) (saw : Bool) :
    rangesGo (renderElem e ++ 44 :: more) (.lead saw) [] = bodyOf e :: rangesGo more (.lead false) [] := by
  obtain ⟨hrne, hchars⟩ := isRange_chars (strict_range h hr)
  obtain ⟨c, cs, hcs⟩ := List.exists_cons_of_ne_nil hrne
  have hc : tchar c = true ∨ c = 47 := hchars c (by simp [hcs])
  have hcplain := rangeChar_plain hc
  have hc32 : isOWSb c = false := by
    rcases hc with hc | rfl
    · have := tchar_ne hc; simp [isOWSb, this.1, this.2.2.2.2.2.2]
    · decide
  have hstep : bodyStep c false false = .cont false false := by
    simp only [plain, Bool.and_eq_true, bne_iff_ne, ne_eq] at hcplain
    obtain ⟨⟨h1, h2⟩, h3⟩ := hcplain
    have e1 : (c == 44) = false := by simpa using h1
    have e2 : (c == 34) = false := by simpa using h2
    have e3 : (c == 92) = false := by simpa using h3
    simp [bodyStep, e1, e2, e3]
  have hrest : bodyRun (cs ++ renderParams e.params ++ e.trail) false false = some (false, false) := by
    have h1 : cs.all plain = true := by
      rw [List.all_eq_true]; intro x hx; exact rangeChar_plain (hchars x (by simp [hcs, hx]))
    rw [List.append_assoc, bodyRun_append, bodyRun_plain _ h1]
    simp only [Option.bind_some]
    rw [bodyRun_append, bodyRun_params _ h.2.2.2]
    simp only [Option.bind_some]
    exact bodyRun_plain _ (owsOnly_plain h.2.2.1)
  have hre : renderElem e ++ 44 :: more = e.lead ++ (c :: ((cs ++ renderParams e.params ++ e.trail) ++ 44 :: more)) := by
    simp [renderElem, hcs, List.append_assoc]
  rw [hre, rangesGo_spaces _ _ _ h.2.1]
  simp only [rangesGo, hc32, Bool.false_eq_true, if_false, hstep]
  rw [rangesGo_body _ _ _ _ _ _ _ hrest]
  simp only [rangesGo, bodyStep, Bool.false_eq_true, if_false, beq_self_eq_true, if_true]
  simp [bodyOf, hcs, List.append_assoc]

/-- the scan of a non-empty last element -/
theorem rangesGo_elem_last (e : Elem) (h : e.strict) (hr : e.rng ≠ []) (saw : Bool) :
    rangesGo (renderElem e) (.lead saw) [] = [bodyOf e] := by
  obtain ⟨hrne, hchars⟩ := isRange_chars (strict_range h hr)
  obtain ⟨c, cs, hcs⟩ := List.exists_cons_of_ne_nil hrne
  have hc : tchar c = true ∨ c = 47 := hchars c (by simp [hcs])
  have hcplain := rangeChar_plain hc
  have hc32 : isOWSb c = false := by
    rcases hc with hc | rfl
    · have := tchar_ne hc; simp [isOWSb, this.1, this.2.2.2.2.2.2]
    · decide
  have hstep : bodyStep c false false = .cont false false := by
    simp only [plain, Bool.and_eq_true, bne_iff_ne, ne_eq] at hcplain
    obtain ⟨⟨h1, h2⟩, h3⟩ := hcplain
    have e1 : (c == 44) = false := by simpa using h1
    have e2 : (c == 34) = false := by simpa using h2
    have e3 : (c == 92) = false := by simpa using h3
    simp [bodyStep, e1, e2, e3]
  have hrest : bodyRun (cs ++ renderParams e.params ++ e.trail) false false = some (false, false) := by
    have h1 : cs.all plain = true := by
      rw [List.all_eq_true]; intro x hx; exact rangeChar_plain (hchars x (by simp [hcs, hx]))
    rw [List.append_assoc, bodyRun_append, bodyRun_plain _ h1]
    simp only [Option.bind_some]
    rw [bodyRun_append, bodyRun_params _ h.2.2.2]
    simp only [Option.bind_some]
    exact bodyRun_plain _ (owsOnly_plain h.2.2.1)
  have hre : renderElem e = e.lead ++ (c :: ((cs ++ renderParams e.params ++ e.trail) ++ [])) := by
    simp [renderElem, hcs, List.append_assoc]
  rw [hre, rangesGo_spaces _ _ _ h.2.1]
  simp only [rangesGo, hc32, Bool.false_eq_true, if_false, hstep]
  rw [rangesGo_body _ _ _ _ _ _ _ hrest]
  simp [rangesGo, bodyOf, hcs, List.append_assoc]

/-- an empty list element (only spaces) followed by a comma -/
theorem rangesGo_empty_comma (e : Elem) (h : e.strict) (hr : e.rng = []) (more : Bytes) (saw : Bool) :
    rangesGo (renderElem e ++ 44 :: more) (.lead saw) [] = [] :: rangesGo more (.lead false) [] := by
  have hp := strict_empty h hr
  have hre : renderElem e ++ 44 :: more = (e.lead ++ e.trail) ++ 44 :: more := by
    simp [renderElem, hr, hp, renderParams]
  have hsp : owsOnly (e.lead ++ e.trail) = true := by
    have h1 := h.2.1; have h2 := h.2.2.1
    unfold owsOnly at *
    simp [List.all_append, h1, h2]
  rw [hre, rangesGo_spaces _ _ _ hsp]
  simp [rangesGo, bodyStep, show isOWSb 44 = false by decide]

/-- an empty last element -/
theorem rangesGo_empty_last (e : Elem) (h : e.strict) (hr : e.rng = []) (saw : Bool) :
    rangesGo (renderElem e) (.lead saw) [] = if saw || renderElem e != [] then [[]] else [] := by
  have hp := strict_empty h hr
  have hre : renderElem e = (e.lead ++ e.trail) ++ [] := by
    simp [renderElem, hr, hp, renderParams]
  have hsp : owsOnly (e.lead ++ e.trail) = true := by
    have h1 := h.2.1; have h2 := h.2.2.1
    unfold owsOnly at *
    simp [List.all_append, h1, h2]
  rw [hre, rangesGo_spaces _ _ _ hsp]
  simp [rangesGo]

end C09
