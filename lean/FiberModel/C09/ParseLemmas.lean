import FiberModel.C09.SelectLemmas
/-
C09 — invariants of `parseRanges` (positions strictly increase, specificity field is computed from
the spelling, qualities are never zero, finite when `ParseFloat` is) and small facts about the sort.
-/
namespace C09
open B

def tabFinite (tab : Bytes → Option Qual) : Prop := ∀ s q, tab s = some q → q.isFin = true

theorem parseSimple_fin {s : Bytes} {q : Qual} (h : parseSimple s = some q) : q.isFin = true := by
  unfold parseSimple at h
  split at h
  · cases h
  · simp only at h
    split at h
    · split at h
      · cases h
      · cases h; rfl
    · split at h
      · cases h; rfl
      · cases h
    · cases h

theorem ufloat_fin {tab : Bytes → Option Qual} (ht : tabFinite tab) {s : Bytes} {q : Qual}
    (h : ufloat tab s = some q) : q.isFin = true := by
  unfold ufloat at h
  split at h
  · rename_i q' hq; cases h; exact parseSimple_fin hq
  · exact ht _ _ h

theorem slowParams_fin {tab : Bytes → Option Qual} (ht : tabFinite tab) (ps : Params) (q : Qual) (m : Params)
    (hq : q.isFin = true) : (slowParams tab ps q m).1.isFin = true := by
  induction ps generalizing q m with
  | nil => simpa [slowParams] using hq
  | cons p ps ih =>
    obtain ⟨k, v⟩ := p
    simp only [slowParams]
    split
    · cases hu : ufloat tab v with
      | none => simpa using hq
      | some q' => simpa using ufloat_fin ht hu
    · exact ih _ _ hq

theorem qualityParams_fin {tab : Bytes → Option Qual} (ht : tabFinite tab) (rest : Bytes) :
    (qualityParams tab rest).1.isFin = true := by
  unfold qualityParams
  split
  · cases hu : ufloat tab (trimRightOWS (rest.drop 3)) with
    | none => simp [Qual.one, Qual.isFin]
    | some q' => simpa using ufloat_fin ht hu
  · exact slowParams_fin ht _ _ _ (by simp [Qual.one, Qual.isFin])

theorem parseElem_props {tab : Bytes → Option Qual} {a : Bytes} {n : Nat} {r : Range} (h : parseElem tab a n = some r) :
    r.order = n ∧ r.spcfOK ∧ r.q.isZero = false ∧ (tabFinite tab → r.q.isFin = true) := by
  unfold parseElem at h
  split at h
  · cases h; exact ⟨rfl, rfl, rfl, fun _ => rfl⟩
  · rename_i sp rest hs
    have hfin := fun ht => qualityParams_fin (tab := tab) ht rest
    generalize qualityParams tab rest = qp at h hfin
    obtain ⟨q, params⟩ := qp
    simp only at h
    split at h
    · cases h
    · rename_i hz
      cases h
      exact ⟨rfl, rfl, by simpa using hz, hfin⟩

theorem parseRangesFrom_props (tab : Bytes → Option Qual) (as : List Bytes) (n : Nat) :
    (∀ r ∈ parseRangesFrom tab as n, n < r.order ∧ r.spcfOK ∧ r.q.isZero = false ∧ (tabFinite tab → r.q.isFin = true)) ∧
    (parseRangesFrom tab as n).Pairwise (fun a c => a.order < c.order) := by
  induction as generalizing n with
  | nil => simp [parseRangesFrom]
  | cons a as ih =>
    obtain ⟨ih1, ih2⟩ := ih (n + 1)
    simp only [parseRangesFrom]
    cases hp : parseElem tab a (n + 1) with
    | none =>
      simp only
      exact ⟨fun r hr => by have := ih1 r hr; exact ⟨by omega, this.2⟩, ih2⟩
    | some r0 =>
      simp only
      obtain ⟨ho, hs, hz, hf⟩ := parseElem_props hp
      refine ⟨?_, ?_⟩
      · intro r hr
        rcases List.mem_cons.1 hr with rfl | hr
        · exact ⟨by omega, hs, hz, hf⟩
        · have := ih1 r hr; exact ⟨by omega, this.2⟩
      · rw [List.pairwise_cons]
        exact ⟨fun c hc => by have := (ih1 c hc).1; omega, ih2⟩

theorem expOf_le_sum {l : List Range} {r : Range} (h : r ∈ l) : expOf r.q ≤ (l.map fun r => expOf r.q).sum := by
  induction l with
  | nil => simp at h
  | cons x xs ih =>
    simp only [List.map_cons, List.sum_cons]
    rcases List.mem_cons.1 h with rfl | h
    · omega
    · have := ih h; omega

theorem sortAccepted_short (l : List Range) (h : ¬ l.length > 1) : sortAccepted l = l := by
  match l, h with
  | [], _ => rfl
  | [x], _ => simp [sortAccepted, insertSorted, insertAt, bsearch]
  | _ :: _ :: _, h => simp at h

theorem lastIndexFrom_isSome (l : List Bytes) (x : Bytes) (i : Nat) (acc : Option Nat) :
    (lastIndexFrom l x i acc).isSome = (acc.isSome || l.contains x) := by
  induction l generalizing i acc with
  | nil => simp [lastIndexFrom]
  | cons y ys ih =>
    simp only [lastIndexFrom, ih, List.contains_cons]
    by_cases h : y = x
    · subst h; simp
    · have h1 : (y == x) = false := by simpa using h
      have h2 : (x == y) = false := by simpa using (fun e : x = y => h e.symm)
      simp [h1, h2]

theorem lastIndexOf_none_iff (l : List Bytes) (x : Bytes) : lastIndexOf l x = none ↔ ¬ x ∈ l := by
  have := lastIndexFrom_isSome l x 0 none
  unfold lastIndexOf
  cases h : lastIndexFrom l x 0 none <;> simp_all

theorem lastIndexFrom_get (l : List Bytes) (x : Bytes) (i0 : Nat) (acc : Option Nat) (pre : List Bytes)
    (hpre : pre.length = i0) (hacc : ∀ j, acc = some j → (pre ++ l)[j]? = some x) :
    ∀ j, lastIndexFrom l x i0 acc = some j → (pre ++ l)[j]? = some x := by
  induction l generalizing i0 acc pre with
  | nil => intro j h; simp only [lastIndexFrom] at h; exact hacc j h
  | cons y ys ih =>
    intro j h
    simp only [lastIndexFrom] at h
    have := ih (i0 + 1) (if (y == x) = true then some i0 else acc) (pre ++ [y]) (by simp [hpre])
      (by
        intro k hk
        split at hk
        · rename_i hyx
          cases hk
          simp only [beq_iff_eq] at hyx
          simp [← hpre, hyx]
        · have := hacc k hk
          simpa using this) j h
    simpa using this

theorem lastIndexOf_get {l : List Bytes} {x : Bytes} {j : Nat} (h : lastIndexOf l x = some j) : l[j]? = some x := by
  have := lastIndexFrom_get l x 0 none [] rfl (by intro j h; cases h) j h
  simpa using this

end C09
