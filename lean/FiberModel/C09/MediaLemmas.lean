import FiberModel.C09.RoundTrip
/-
C09 — `acceptsOfferType` (first parameter with the name decides) is the specification's
`accMedia` (some parameter with the name and value) on offers without repeated parameter names.
-/
namespace C09
open B

/-- no two parameters of the offer have the same name (ASCII case-insensitively) -/
def offerParamsDistinct (offer : Bytes) : Prop :=
  (visitParams (splitOffer offer).2).Pairwise fun a c => equalFold a.1 c.1 = false

theorem equalFold_trans {a c d : Bytes} (h1 : equalFold a c = true) (h2 : equalFold c d = true) : equalFold a d = true := by
  unfold equalFold at *
  simp only [beq_iff_eq] at *
  rw [h1, h2]

theorem equalFold_symm {a c : Bytes} (h : equalFold a c = true) : equalFold c a = true := by
  unfold equalFold at *
  simp only [beq_iff_eq] at *
  exact h.symm

theorem find_unique (ops : Params) (k : Bytes) (p' : Bytes × Bytes) (hd : ops.Pairwise fun a c => equalFold a.1 c.1 = false)
    (hm : p' ∈ ops) (hk : equalFold k p'.1 = true) : ops.find? (fun p => equalFold k p.1) = some p' := by
  induction ops with
  | nil => simp at hm
  | cons x xs ih =>
    rw [List.pairwise_cons] at hd
    by_cases hx : equalFold k x.1 = true
    · rcases List.mem_cons.1 hm with rfl | hm'
      · simp [List.find?_cons, hx]
      · exfalso
        have := hd.1 p' hm'
        have h2 : equalFold x.1 p'.1 = true := equalFold_trans (equalFold_symm hx) hk
        rw [this] at h2; cases h2
    · have hx' : equalFold k x.1 = false := by simpa using hx
      rcases List.mem_cons.1 hm with rfl | hm'
      · rw [hk] at hx'; cases hx'
      · simp only [List.find?_cons, hx']
        exact ih hd.2 hm'

theorem paramsMatch_eq_present (sp : Params) (op : Bytes)
    (hd : (visitParams op).Pairwise fun a c => equalFold a.1 c.1 = false) :
    paramsMatch sp op = paramsPresent sp (visitParams op) := by
  unfold paramsMatch paramsPresent
  simp only
  apply List.all_congr rfl
  intro kv
  obtain ⟨k, v⟩ := kv
  simp only
  rw [Bool.eq_iff_iff]
  constructor
  · intro h
    split at h
    · rename_i p hp
      rw [List.any_eq_true]
      refine ⟨p, List.mem_of_find?_eq_some hp, ?_⟩
      have hk := List.find?_some hp
      simp [hk, h]
    · cases h
  · intro h
    rw [List.any_eq_true] at h
    obtain ⟨p', hm, hp'⟩ := h
    simp only [Bool.and_eq_true] at hp'
    rw [find_unique _ k p' hd hm hp'.1]
    exact hp'.2

/-- the media type of the offer is not empty and does not start with `/` -/
def offerSane (mime : Bytes → Bytes) (offer : Bytes) : Bool :=
  let mt := offerMime mime offer
  mt != [] && mt.head? != some 47

theorem acceptsOfferType_eq_accMedia (mime : Bytes → Bytes) (r : SRange) (offer : Bytes)
    (hd : offerParamsDistinct offer) :
    accS (acceptsOfferType mime) r offer = accMedia mime r offer := by
  unfold accS acceptsOfferType accMedia typeMatches offerMime
  simp only
  rw [paramsMatch_eq_present _ _ hd]
  generalize hmt : (if (splitOffer offer).1.contains 47 then (splitOffer offer).1 else mime (splitOffer offer).1) = mt
  by_cases h1 : (r.spec == b "*/*") = true
  · simp [h1]
  · by_cases h2 : (r.spec == mt) = true
    · simp [h1, h2]
    · simp only [h1, h2, Bool.false_eq_true, if_false, Bool.false_or]
      cases indexByte mt 47 with
      | none => simp
      | some s =>
        simp only
        split <;> simp_all

theorem acceptsOfferType_empty (mime : Bytes → Bytes) (offer : Bytes) (ps : Params) (hs : offerSane mime offer = true) :
    acceptsOfferType mime [] offer ps = false := by
  unfold offerSane offerMime at hs
  simp only [Bool.and_eq_true, bne_iff_ne, ne_eq] at hs
  unfold acceptsOfferType
  simp only
  generalize hmt : (if (splitOffer offer).1.contains 47 then (splitOffer offer).1 else mime (splitOffer offer).1) = mt at hs
  obtain ⟨hne, hhead⟩ := hs
  have h1 : (([] : Bytes) == b "*/*") = false := by decide
  have h2 : (([] : Bytes) == mt) = false := by
    cases mt with
    | nil => exact absurd rfl hne
    | cons c cs => rfl
  simp only [h1, h2, Bool.false_eq_true, if_false]
  cases hi : indexByte mt 47 with
  | none => rfl
  | some s =>
    simp only
    cases mt with
    | nil => exact absurd rfl hne
    | cons c cs =>
      cases s with
      | zero =>
        -- index 0 means the media type starts with '/'
        exfalso
        simp only [indexByte] at hi
        split at hi
        · rename_i hc; simp only [beq_iff_eq] at hc; subst hc; simp at hhead
        · cases h : indexByte cs 47 <;> simp [h] at hi
      | succ s' => simp [hasPrefix, List.isPrefixOf]

end C09
