import FiberModel.C03.Lemmas
/-
C03 — the link "token list → parser": parsing the rendered text of a documented-syntax token list
(`WFPat`) yields exactly the segment list the completeness theorem talks about
(`parseRoute (patText p)` has the segments `segsOf p`).
-/
namespace C03
open B C02

/-! ### `findNextNonEscapedCharsetPosition` on text without the charset / without backslashes -/

theorem fnneGo_none (cs : List Nat) : (s : Bytes) → (prev : Option Nat) → (∀ c ∈ s, cs.contains c = false) →
    fnneGo cs prev s = none
  | [], _, _ => rfl
  | c :: r, prev, h => by
    unfold fnneGo
    rw [h c (List.mem_cons_self ..)]
    simp only [Bool.false_eq_true, if_false, Option.map_eq_none_iff]
    exact fnneGo_none cs r (some c) (fun x hx => h x (List.mem_cons_of_mem _ hx))

theorem fnneGo_hit (cs : List Nat) (c : Nat) (r : Bytes) (hc : cs.contains c = true) : (pre : Bytes) → (prev : Option Nat) →
    (∀ x ∈ pre, cs.contains x = false ∧ x ≠ BSL) → prev ≠ some BSL →
    fnneGo cs prev (pre ++ c :: r) = some pre.length
  | [], prev, _, hp => by
    simp only [List.nil_append, List.length_nil]
    unfold fnneGo
    have : (prev == some BSL) = false := beq_eq_false_iff_ne.mpr hp
    simp only [hc, this, if_true, Bool.false_eq_true, if_false]
  | x :: pre, prev, h, _ => by
    have hx := h x (List.mem_cons_self ..)
    simp only [List.cons_append, List.length_cons]
    unfold fnneGo
    rw [hx.1]
    simp only [Bool.false_eq_true, if_false]
    rw [fnneGo_hit cs c r hc pre (some x) (fun y hy => h y (List.mem_cons_of_mem _ hy))
      (by intro hh; cases hh; exact hx.2 rfl)]
    rfl

theorem fnneGo_ne_zero (cs : List Nat) (c : Nat) (r : Bytes) (prev : Option Nat) (hc : cs.contains c = false) :
    fnneGo cs prev (c :: r) ≠ some 0 := by
  unfold fnneGo
  rw [hc]
  simp only [Bool.false_eq_true, if_false]
  cases fnneGo cs (some c) r <;> simp

theorem fnnecpGo_none (ch : Nat) : (s : Bytes) → (prev : Option Nat) → (∀ c ∈ s, c ≠ ch) → fnnecpGo ch prev s = none
  | [], _, _ => rfl
  | c :: r, prev, h => by
    unfold fnnecpGo
    have : (c == ch) = false := beq_eq_false_iff_ne.mpr (h c (List.mem_cons_self ..))
    simp only [this, Bool.false_and, Bool.false_eq_true, if_false, Option.map_eq_none_iff]
    exact fnnecpGo_none ch r (some c) (fun x hx => h x (List.mem_cons_of_mem _ hx))

/-! ### bytes of the documented syntax -/

theorem not_special_facts {c : Nat} (h : specialByte c = false) :
    paramStartChars.contains c = false ∧ c ≠ BSL ∧ c ≠ C02.LT ∧ c ≠ C02.GT := by
  unfold specialByte at h
  simp only [Bool.or_eq_false_iff, beq_eq_false_iff_ne] at h
  obtain ⟨⟨⟨⟨⟨⟨h1, h2⟩, h3⟩, h4⟩, h5⟩, h6⟩, h7⟩ := h
  refine ⟨?_, h5, h6, h7⟩
  simp only [paramStartChars, List.contains_cons, List.contains_nil, Bool.or_false, Bool.or_eq_false_iff,
    beq_eq_false_iff_ne]
  exact ⟨h2, h3, h1⟩

theorem nameByte_facts {c : Nat} (h : nameByte c = true) :
    paramStartChars.contains c = false ∧ paramEndChars.contains c = false ∧ c ≠ BSL ∧ c ≠ C02.LT ∧ c ≠ QMARK := by
  unfold nameByte isAlpha isUpper isLower isDigit at h
  simp only [Bool.or_eq_true, Bool.and_eq_true, decide_eq_true_eq, beq_iff_eq] at h
  have hne : ∀ k, (k = 42 ∨ k = 43 ∨ k = 58 ∨ k = 63 ∨ k = 92 ∨ k = 47 ∨ k = 45 ∨ k = 46 ∨ k = 60) → c ≠ k := by
    intro k hk; omega
  refine ⟨?_, ?_, hne 92 (by omega), hne 60 (by omega), hne 63 (by omega)⟩
  · simp only [paramStartChars, List.contains_cons, List.contains_nil, Bool.or_false, Bool.or_eq_false_iff,
      beq_eq_false_iff_ne]
    exact ⟨hne 42 (by omega), hne 43 (by omega), hne 58 (by omega)⟩
  · simp only [paramEndChars, List.contains_cons, List.contains_nil, Bool.or_false, Bool.or_eq_false_iff,
      beq_eq_false_iff_ne]
    exact ⟨hne 63 (by omega), hne 58 (by omega), hne 92 (by omega), hne 47 (by omega), hne 45 (by omega),
      hne 46 (by omega)⟩

/-! ### `findNextParamPosition` -/

/-- text that starts with a parameter as `findNextParamPosition` sees it: a parameter-start byte
    that is `*` or is not directly followed by another parameter-start byte -/
def ParamStart (q : Bytes) : Prop :=
  ∃ c0 q', q = c0 :: q' ∧ paramStartChars.contains c0 = true ∧ (c0 = STAR ∨ fnne q' paramStartChars ≠ some 0)

theorem getD_append_cons (l : Bytes) (c : Nat) (r : Bytes) : (l ++ c :: r).getD l.length 0 = c := by
  induction l with
  | nil => rfl
  | cons x xs ih => simp

theorem fnpp_lit_param {l q : Bytes} (hl : ∀ c ∈ l, specialByte c = false) (h : ParamStart q) :
    findNextParamPosition (l ++ q) = some l.length := by
  obtain ⟨c0, q', rfl, hc, hq⟩ := h
  have hf : fnne (l ++ c0 :: q') paramStartChars = some l.length :=
    fnneGo_hit _ c0 q' hc l none (fun x hx => ⟨(not_special_facts (hl x hx)).1, (not_special_facts (hl x hx)).2.1⟩)
      (by simp)
  unfold findNextParamPosition
  rw [hf]
  simp only [getD_append_cons]
  have hd : (l ++ c0 :: q').drop (l.length + 1) = q' := by
    rw [← List.drop_drop, List.drop_left]; rfl
  rw [hd]
  rcases hq with rfl | hq
  · simp
  · have : (fnne q' paramStartChars == some 0) = false := beq_eq_false_iff_ne.mpr hq
    simp [this]

theorem fnpp_param {q : Bytes} (h : ParamStart q) : findNextParamPosition q = some 0 := by
  have := fnpp_lit_param (l := []) (fun c hc => by cases hc) h
  simpa using this

theorem fnpp_lit {l : Bytes} (hl : ∀ c ∈ l, specialByte c = false) : findNextParamPosition l = none := by
  unfold findNextParamPosition
  have : fnne l paramStartChars = none := fnneGo_none _ l none (fun c hc => (not_special_facts (hl c hc)).1)
  rw [this]

/-! ### `analyseParameterPart` on the three parameter forms -/

theorem app_star (q' : Bytes) (wc pc : Nat) :
    analyseParameterPart (STAR :: q') wc pc =
      some (1, { paramName := [STAR] ++ natToDec (wc + 1), isParam := true, isOptional := true, isGreedy := true },
        wc + 1, pc) := by
  unfold analyseParameterPart
  simp [getTrimmedParam, removeEscapeChar, STAR, PLUS, COLON, BSL, QMARK]

theorem app_plus (q' : Bytes) (wc pc : Nat) :
    analyseParameterPart (PLUS :: q') wc pc =
      some (1, { paramName := [PLUS] ++ natToDec (pc + 1), isParam := true, isGreedy := true },
        wc, pc + 1) := by
  unfold analyseParameterPart
  simp [getTrimmedParam, removeEscapeChar, STAR, PLUS, COLON, BSL, QMARK]

/-- what may follow a name: nothing, or a byte of `/ - .` -/
def DelimOrEnd (sfx : Bytes) : Prop :=
  sfx = [] ∨ ∃ d r, sfx = d :: r ∧ (d = SLASH ∨ d = DASH ∨ d = DOT)

theorem getLast?_cons_append_ne (x : Nat) (n : Bytes) (hn : n ≠ []) : (x :: n).getLast? = n.getLast? := by
  cases n with
  | nil => exact absurd rfl hn
  | cons y ys => simp [List.getLast?_cons_cons]

theorem app_named_req (n sfx : Bytes) (wc pc : Nat) (hn : n ≠ []) (hnb : ∀ c ∈ n, nameByte c = true)
    (hs : DelimOrEnd sfx) (hlt : sfx.contains C02.LT = false) :
    analyseParameterPart (COLON :: n ++ sfx) wc pc =
      some (n.length + 1, { paramName := n, isParam := true, isOptional := false }, wc, pc) := by
  have hnlt : n.contains C02.LT = false := by
    cases h : n.contains C02.LT
    · rfl
    · exact absurd rfl ((nameByte_facts (hnb _ (List.contains_iff_mem.mp h))).2.2.2.1)
  have hplt : (COLON :: n ++ sfx).contains C02.LT = false := by
    simp only [List.cons_append, List.contains_cons, List.contains_append, hnlt, hlt]; decide
  have hcont : ((COLON :: n ++ sfx).contains C02.LT && (COLON :: n ++ sfx).contains C02.GT) = false := by
    rw [hplt]; rfl
  have hlastn : ∀ y, n.getLast? = some y → y ≠ QMARK := fun y hy =>
    (nameByte_facts (hnb y (List.mem_of_getLast? hy))).2.2.2.2
  have hlen : 0 < n.length := List.length_pos_iff.mpr hn
  have htake : (COLON :: n ++ sfx).take (n.length + 1) = COLON :: n := by
    simp
  have hgetd : ((COLON :: n ++ sfx).getD n.length 0 == QMARK) = false := by
    obtain ⟨ys, hys⟩ : ∃ ys, n = ys ++ [n.getLast hn] := ⟨n.dropLast, (List.dropLast_concat_getLast hn).symm⟩
    have hy := hlastn (n.getLast hn) (List.getLast?_eq_some_getLast hn)
    have : (COLON :: n ++ sfx).getD n.length 0 = n.getLast hn := by
      conv => lhs; rw [hys]
      have e : (ys ++ [n.getLast hn]).length = (COLON :: ys).length := by simp
      rw [e]
      have : COLON :: (ys ++ [n.getLast hn]) ++ sfx = (COLON :: ys) ++ n.getLast hn :: sfx := by simp
      rw [this, getD_append_cons]
    rw [this]; exact beq_eq_false_iff_ne.mpr hy
  have hfn : ∀ k, fnnecp ((COLON :: n ++ sfx).take k) C02.LT = none := fun k =>
    fnnecpGo_none _ _ none (fun c hc hh => by
      have := List.contains_iff_mem.mpr (List.mem_of_mem_take hc)
      rw [hh, hplt] at this; cases this)
  have htrim : getTrimmedParam (COLON :: n) = n := by
    unfold getTrimmedParam
    have : ((COLON :: n).getLast? == some QMARK) = false := by
      rw [getLast?_cons_append_ne _ _ hn, beq_eq_false_iff_ne]
      intro hh; exact hlastn _ hh rfl
    simp [this]
  have hre : removeEscapeChar n = n :=
    removeEscapeChar_id n (by
      cases h : n.contains BSL
      · rfl
      · exact absurd rfl ((nameByte_facts (hnb _ (List.contains_iff_mem.mp h))).2.2.1))
  unfold analyseParameterPart
  have hhead : (COLON :: n ++ sfx).headD 0 = COLON := rfl
  simp only [hcont, Bool.false_eq_true, if_false, hhead, show (COLON == STAR) = false by decide,
    show (COLON == PLUS) = false by decide, Bool.or_self]
  have hpe : fnne (List.drop 1 (COLON :: n ++ sfx)) paramEndChars = none ∧ (COLON :: n ++ sfx).length - 1 = n.length ∨
      fnne (List.drop 1 (COLON :: n ++ sfx)) paramEndChars = some n.length ∧
        paramDelimChars.contains ((COLON :: n ++ sfx).getD (n.length + 1) 0) = true := by
    rcases hs with rfl | ⟨d, r, rfl, hd⟩
    · left
      refine ⟨?_, by simp⟩
      simp only [List.append_nil, List.drop_succ_cons, List.drop_zero]
      exact fnneGo_none _ n none (fun c hc => (nameByte_facts (hnb c hc)).2.1)
    · right
      have hdc : paramEndChars.contains d = true := by
        rcases hd with rfl | rfl | rfl <;> decide
      have hdd : paramDelimChars.contains d = true := by
        rcases hd with rfl | rfl | rfl <;> decide
      constructor
      · simp only [List.cons_append, List.drop_succ_cons, List.drop_zero]
        exact fnneGo_hit _ d r hdc n none
          (fun x hx => ⟨(nameByte_facts (hnb x hx)).2.1, (nameByte_facts (hnb x hx)).2.2.1⟩) (by simp)
      · simp only [List.cons_append, List.getD_cons_succ, getD_append_cons, hdd]
  rcases hpe with ⟨h1, h2⟩ | ⟨h1, h2⟩
  · rw [h1]
    simp only [h2, hfn, htake, htrim, hre, hgetd, hlen, if_true]
    simp
  · rw [h1]
    simp only [h2, if_true, hfn, htake, htrim, hre, hgetd, hlen]
    simp

theorem app_named_opt (n sfx : Bytes) (wc pc : Nat) (hn : n ≠ []) (hnb : ∀ c ∈ n, nameByte c = true)
    (hlt : sfx.contains C02.LT = false) :
    analyseParameterPart (COLON :: n ++ QMARK :: sfx) wc pc =
      some (n.length + 2, { paramName := n, isParam := true, isOptional := true }, wc, pc) := by
  have hnlt : n.contains C02.LT = false := by
    cases h : n.contains C02.LT
    · rfl
    · exact absurd rfl ((nameByte_facts (hnb _ (List.contains_iff_mem.mp h))).2.2.2.1)
  have hplt : (COLON :: n ++ QMARK :: sfx).contains C02.LT = false := by
    simp only [List.cons_append, List.contains_cons, List.contains_append, hnlt, hlt]; decide
  have hcont : ((COLON :: n ++ QMARK :: sfx).contains C02.LT && (COLON :: n ++ QMARK :: sfx).contains C02.GT) = false := by
    rw [hplt]; rfl
  have hlen : 0 < n.length := List.length_pos_iff.mpr hn
  have htake : (COLON :: n ++ QMARK :: sfx).take (n.length + 1 + 1) = COLON :: (n ++ [QMARK]) := by
    have : COLON :: n ++ QMARK :: sfx = (COLON :: (n ++ [QMARK])) ++ sfx := by simp
    rw [this]
    have e : n.length + 1 + 1 = (COLON :: (n ++ [QMARK])).length := by simp
    rw [e, List.take_left]
  have hgetd : (COLON :: n ++ QMARK :: sfx).getD (n.length + 1) 0 = QMARK := by
    simp only [List.cons_append, List.getD_cons_succ, getD_append_cons]
  have hfn : ∀ k, fnnecp ((COLON :: n ++ QMARK :: sfx).take k) C02.LT = none := fun k =>
    fnnecpGo_none _ _ none (fun c hc hh => by
      have := List.contains_iff_mem.mpr (List.mem_of_mem_take hc)
      rw [hh, hplt] at this; cases this)
  have htrim : getTrimmedParam (COLON :: (n ++ [QMARK])) = n := by
    unfold getTrimmedParam
    have : ((COLON :: (n ++ [QMARK])).getLast? == some QMARK) = true := by
      rw [getLast?_cons_append_ne _ _ (by simp)]; simp
    simp [this]
  have hre : removeEscapeChar n = n :=
    removeEscapeChar_id n (by
      cases h : n.contains BSL
      · rfl
      · exact absurd rfl ((nameByte_facts (hnb _ (List.contains_iff_mem.mp h))).2.2.1))
  have hf : fnne (List.drop 1 (COLON :: n ++ QMARK :: sfx)) paramEndChars = some n.length := by
    simp only [List.cons_append, List.drop_succ_cons, List.drop_zero]
    exact fnneGo_hit _ QMARK sfx (by decide) n none
      (fun x hx => ⟨(nameByte_facts (hnb x hx)).2.1, (nameByte_facts (hnb x hx)).2.2.1⟩) (by simp)
  unfold analyseParameterPart
  have hhead : (COLON :: n ++ QMARK :: sfx).headD 0 = COLON := rfl
  simp only [hcont, Bool.false_eq_true, if_false, hhead, show (COLON == STAR) = false by decide,
    show (COLON == PLUS) = false by decide, Bool.or_self]
  rw [hf]
  simp only [hgetd, show paramDelimChars.contains QMARK = false by decide, Bool.false_eq_true, if_false,
    hfn, htake, htrim, hre]
  simp

/-! ### the parse loop on the text of a token list -/

/-- per-token part of `WFPat` -/
def TokOK : Tok → Prop
  | .lit t => t ≠ [] ∧ ∀ c ∈ t, specialByte c = false
  | .named n _ => n ≠ [] ∧ ∀ c ∈ n, nameByte c = true
  | _ => True

theorem patText_cons (t : Tok) (rest : Pat) : patText (t :: rest) = t.text ++ patText rest := by
  simp [patText]

theorem contains_false_of_forall {s : Bytes} {c : Nat} (h : ∀ x ∈ s, x ≠ c) : s.contains c = false := by
  cases hc : s.contains c
  · rfl
  · exact absurd rfl (h c (List.contains_iff_mem.mp hc))

theorem patText_noLT : (p : Pat) → (∀ t ∈ p, TokOK t) → (patText p).contains C02.LT = false
  | [], _ => rfl
  | t :: rest, h => by
    have ih := patText_noLT rest (fun x hx => h x (List.mem_cons_of_mem _ hx))
    have ht := h t (List.mem_cons_self ..)
    rw [patText_cons, List.contains_append, ih, Bool.or_false]
    cases t with
    | lit l => exact contains_false_of_forall (fun x hx => (not_special_facts (ht.2 x hx)).2.2.1)
    | named n o =>
      have hnm : C02.LT ∉ n := fun hx => (nameByte_facts (ht.2 _ hx)).2.2.2.1 rfl
      cases o <;> simp [Tok.text, hnm, C02.LT, COLON, QMARK]
    | star => decide
    | plus => decide

theorem paramStart_patText {t : Tok} {rest : Pat} (ht : t.isParam = true) (hok : ∀ x ∈ t :: rest, TokOK x)
    (hsh : shapeOK (t :: rest) = true) : ParamStart (patText (t :: rest)) := by
  rw [patText_cons]
  cases t with
  | lit l => simp [Tok.isParam] at ht
  | named n o =>
    have hn := hok _ (List.mem_cons_self ..)
    obtain ⟨c, n', rfl⟩ : ∃ c n', n = c :: n' := by
      cases n with
      | nil => exact absurd rfl hn.1
      | cons c n' => exact ⟨c, n', rfl⟩
    refine ⟨COLON, _, rfl, by decide, Or.inr ?_⟩
    exact fnneGo_ne_zero _ c _ none (nameByte_facts (hn.2 c (List.mem_cons_self ..))).1
  | star => exact ⟨STAR, _, rfl, by decide, Or.inl rfl⟩
  | plus =>
    refine ⟨PLUS, patText rest, rfl, by decide, Or.inr ?_⟩
    cases rest with
    | nil => simp [patText, fnne, fnneGo]
    | cons t2 r =>
      cases t2 with
      | lit l =>
        have hl := hok _ (List.mem_cons_of_mem _ (List.mem_cons_self ..))
        obtain ⟨c, l', rfl⟩ : ∃ c l', l = c :: l' := by
          cases l with
          | nil => exact absurd rfl hl.1
          | cons c l' => exact ⟨c, l', rfl⟩
        rw [patText_cons]
        exact fnneGo_ne_zero _ c _ none (not_special_facts (hl.2 c (List.mem_cons_self ..))).1
      | named _ _ => simp [shapeOK] at hsh
      | star => simp [shapeOK] at hsh
      | plus => simp [shapeOK] at hsh

theorem parseLoop_nil (fuel wc pc : Nat) : parseLoop fuel [] wc pc = some [] := by
  cases fuel <;> simp [parseLoop]

/-- **Token list → parser, the loop.** On the text of a token list whose tokens are well-formed and
    whose shape is that of a parsed pattern, `parseRoute`'s loop produces exactly the raw segments
    `rawSegsOf`. -/
theorem parseLoop_patText : (p : Pat) → (fuel wc pc : Nat) → (∀ t ∈ p, TokOK t) → shapeOK p = true →
    (patText p).length ≤ fuel → parseLoop fuel (patText p) wc pc = some (rawSegsOf p wc pc)
  | [], fuel, wc, pc, _, _, _ => by simp [patText, parseLoop_nil, rawSegsOf]
  | .lit l :: rest, fuel, wc, pc, hok, hsh, hf => by
    have hl := hok _ (List.mem_cons_self ..)
    have hokr : ∀ t ∈ rest, TokOK t := fun x hx => hok x (List.mem_cons_of_mem _ hx)
    obtain ⟨c, l', hcl⟩ : ∃ c l', l = c :: l' := by
      cases l with
      | nil => exact absurd rfl hl.1
      | cons c l' => exact ⟨c, l', rfl⟩
    have hre : removeEscapeChar l = l :=
      removeEscapeChar_id l (contains_false_of_forall (fun x hx => (not_special_facts (hl.2 x hx)).2.1))
    rw [patText_cons] at hf ⊢
    simp only [Tok.text, List.length_append] at hf
    cases fuel with
    | zero => rw [hcl] at hf; simp at hf
    | succ fuel =>
      have hne : (l ++ patText rest).isEmpty = false := by rw [hcl]; rfl
      simp only [Tok.text]
      unfold parseLoop
      simp only [hne, Bool.false_eq_true, if_false]
      cases rest with
      | nil =>
        simp only [patText, List.flatMap_nil, List.append_nil]
        rw [fnpp_lit hl.2]
        simp only [analyseConstantPart, hre, List.drop_length, parseLoop_nil, Option.map_some, rawSegsOf]
      | cons t2 r =>
        have hshr : shapeOK (t2 :: r) = true ∧ t2.isParam = true := by
          cases t2 <;> simp [shapeOK, Tok.isParam] at hsh ⊢ <;> exact hsh
        have hps := paramStart_patText hshr.2 hokr hshr.1
        rw [fnpp_lit_param hl.2 hps]
        have hlen : l.length = l'.length + 1 := by rw [hcl]; rfl
        rw [hlen]
        simp only
        rw [← hlen]
        simp only [analyseConstantPart, List.take_left, hre, List.drop_left]
        rw [parseLoop_patText (t2 :: r) fuel wc pc hokr hshr.1 (by omega)]
        simp [rawSegsOf]
  | .named n o :: rest, fuel, wc, pc, hok, hsh, hf => by
    have hn := hok _ (List.mem_cons_self ..)
    have hokr : ∀ t ∈ rest, TokOK t := fun x hx => hok x (List.mem_cons_of_mem _ hx)
    have hps := paramStart_patText (t := .named n o) rfl hok hsh
    have hshr : shapeOK rest = true := by
      simp only [shapeOK, Bool.and_eq_true] at hsh; exact hsh.2
    have hnext : DelimOrEnd (patText rest) := by
      cases rest with
      | nil => left; rfl
      | cons t2 r =>
        cases t2 with
        | lit l2 =>
          right
          have h2 : startsWithDelim l2 = true := by
            simp only [shapeOK, Bool.and_eq_true] at hsh; exact hsh.1
          cases l2 with
          | nil => simp [startsWithDelim] at h2
          | cons d l2' =>
            refine ⟨d, l2' ++ patText r, by rw [patText_cons]; rfl, ?_⟩
            simp only [startsWithDelim, Bool.or_eq_true, beq_iff_eq] at h2
            rcases h2 with (h | h) | h
            · exact Or.inl h
            · exact Or.inr (Or.inl h)
            · exact Or.inr (Or.inr h)
        | named _ _ => simp [shapeOK] at hsh
        | star => simp [shapeOK] at hsh
        | plus => simp [shapeOK] at hsh
    have hlt := patText_noLT rest hokr
    rw [patText_cons] at hf ⊢
    cases fuel with
    | zero => simp [Tok.text] at hf
    | succ fuel =>
      have hne : ((Tok.named n o).text ++ patText rest).isEmpty = false := rfl
      have hps' : findNextParamPosition ((Tok.named n o).text ++ patText rest) = some 0 := by
        rw [← patText_cons]; exact fnpp_param hps
      unfold parseLoop
      simp only [hne, Bool.false_eq_true, if_false, hps']
      cases o with
      | false =>
        have e : (Tok.named n false).text ++ patText rest = COLON :: n ++ patText rest := by simp [Tok.text]
        rw [e, app_named_req n _ wc pc hn.1 hn.2 hnext hlt]
        simp only
        have hd : (COLON :: n ++ patText rest).drop (n.length + 1) = patText rest := by
          have : COLON :: n ++ patText rest = (COLON :: n) ++ patText rest := rfl
          rw [this]
          have e2 : n.length + 1 = (COLON :: n).length := rfl
          rw [e2, List.drop_left]
        rw [hd, parseLoop_patText rest fuel wc pc hokr hshr (by simp [Tok.text] at hf; omega)]
        simp [rawSegsOf]
      | true =>
        have e : (Tok.named n true).text ++ patText rest = COLON :: n ++ QMARK :: patText rest := by simp [Tok.text]
        rw [e, app_named_opt n _ wc pc hn.1 hn.2 hlt]
        simp only
        have hd : (COLON :: n ++ QMARK :: patText rest).drop (n.length + 2) = patText rest := by
          have : COLON :: n ++ QMARK :: patText rest = (COLON :: (n ++ [QMARK])) ++ patText rest := by simp
          rw [this]
          have e2 : n.length + 2 = (COLON :: (n ++ [QMARK])).length := by simp
          rw [e2, List.drop_left]
        rw [hd, parseLoop_patText rest fuel wc pc hokr hshr (by simp [Tok.text] at hf; omega)]
        simp [rawSegsOf]
  | .star :: rest, fuel, wc, pc, hok, hsh, hf => by
    have hokr : ∀ t ∈ rest, TokOK t := fun x hx => hok x (List.mem_cons_of_mem _ hx)
    have hps := paramStart_patText (t := .star) rfl hok hsh
    have hshr : shapeOK rest = true := by
      simp only [shapeOK, Bool.and_eq_true] at hsh; exact hsh.2
    rw [patText_cons] at hf ⊢
    cases fuel with
    | zero => simp [Tok.text] at hf
    | succ fuel =>
      have hne : (Tok.star.text ++ patText rest).isEmpty = false := rfl
      have hps' : findNextParamPosition (Tok.star.text ++ patText rest) = some 0 := by
        rw [← patText_cons]; exact fnpp_param hps
      unfold parseLoop
      simp only [hne, Bool.false_eq_true, if_false, hps']
      have e : Tok.star.text ++ patText rest = STAR :: patText rest := rfl
      rw [e, app_star]
      simp only [List.drop_succ_cons, List.drop_zero]
      rw [parseLoop_patText rest fuel (wc + 1) pc hokr hshr (by simp [Tok.text] at hf; omega)]
      simp [rawSegsOf]
  | .plus :: rest, fuel, wc, pc, hok, hsh, hf => by
    have hokr : ∀ t ∈ rest, TokOK t := fun x hx => hok x (List.mem_cons_of_mem _ hx)
    have hps := paramStart_patText (t := .plus) rfl hok hsh
    have hshr : shapeOK rest = true := by
      simp only [shapeOK, Bool.and_eq_true] at hsh; exact hsh.2
    rw [patText_cons] at hf ⊢
    cases fuel with
    | zero => simp [Tok.text] at hf
    | succ fuel =>
      have hne : (Tok.plus.text ++ patText rest).isEmpty = false := rfl
      have hps' : findNextParamPosition (Tok.plus.text ++ patText rest) = some 0 := by
        rw [← patText_cons]; exact fnpp_param hps
      unfold parseLoop
      simp only [hne, Bool.false_eq_true, if_false, hps']
      have e : Tok.plus.text ++ patText rest = PLUS :: patText rest := rfl
      rw [e, app_plus]
      simp only [List.drop_succ_cons, List.drop_zero]
      rw [parseLoop_patText rest fuel wc (pc + 1) hokr hshr (by simp [Tok.text] at hf; omega)]
      simp [rawSegsOf]

theorem wfPat_tokOK {p : Pat} (h : WFPat p = true) : (∀ t ∈ p, TokOK t) ∧ shapeOK p = true := by
  unfold WFPat at h
  simp only [Bool.and_eq_true, List.all_eq_true] at h
  refine ⟨fun t ht => ?_, h.2⟩
  have := h.1.2 t ht
  cases t with
  | lit l =>
    simp only [Bool.and_eq_true, Bool.not_eq_true', List.isEmpty_eq_false_iff, List.any_eq_false] at this
    exact ⟨this.1, fun c hc => by simpa using this.2 c hc⟩
  | named n o =>
    simp only [Bool.and_eq_true, Bool.not_eq_true', List.isEmpty_eq_false_iff, List.all_eq_true] at this
    exact this
  | star => trivial
  | plus => trivial

theorem parseRoute_patText' {p : Pat} (hok : ∀ t ∈ p, TokOK t) (hsh : shapeOK p = true) :
    parseRoute (patText p) = (segsOf p).map (fun segs => { segs := segs, params := paramNames segs }) := by
  unfold parseRoute segsOf
  rw [parseLoop_patText p _ 0 0 hok hsh (Nat.le_refl _)]
  simp only
  cases addParameterMetaInfo (markLast (rawSegsOf p 0 0)) <;> rfl

/-- **Token list → parser.** For every token list of the documented syntax (`WFPat`), parsing its
    rendered text with `parseRoute` yields exactly the segment list `segsOf p` the completeness
    theorem is stated over (and registration panics exactly when `segsOf p = none`, which for
    `WFPat` never happens, see `segsOf_isSome`). -/
theorem parseRoute_patText {p : Pat} (h : WFPat p = true) :
    parseRoute (patText p) = (segsOf p).map (fun segs => { segs := segs, params := paramNames segs }) :=
  parseRoute_patText' (wfPat_tokOK h).1 (wfPat_tokOK h).2

/-! ### registration of a well-formed token list never panics -/

theorem metaForward_isSome : (l : List Seg) → (∀ s ∈ l, s.isParam = false → s.const ≠ []) →
    ∃ l', metaForward l = some l'
  | [], _ => ⟨[], rfl⟩
  | s :: rest, h => by
    obtain ⟨rest', hr⟩ := metaForward_isSome rest (fun x hx => h x (List.mem_cons_of_mem _ hx))
    unfold metaForward
    simp only [hr]
    cases hp : s.isParam
    · simp only [Bool.false_eq_true, if_false]
      cases hl : s.const.getLast? with
      | none => exact absurd (List.getLast?_eq_none_iff.mp hl) (h s (List.mem_cons_self ..) hp)
      | some c => simp only; split <;> exact ⟨_, rfl⟩
    · simp only [if_true]; exact ⟨_, rfl⟩

theorem coreL_const_ne {l l' : List Seg} (h : CoreL l l') (hl : ∀ s ∈ l, s.isParam = false → s.const ≠ []) :
    ∀ s ∈ l', s.isParam = false → s.const ≠ [] := by
  induction h with
  | nil => intro s hs; cases hs
  | @cons a b as bs hab _ ih =>
    intro s hs hp
    rcases List.mem_cons.mp hs with rfl | hs
    · rw [hab.1]; exact hl a (List.mem_cons_self ..) (by rw [← hab.2.1]; exact hp)
    · exact ih (fun x hx => hl x (List.mem_cons_of_mem _ hx)) s hs hp

theorem rawSegsOf_const_ne : (p : Pat) → (wc pc : Nat) → (∀ t ∈ p, TokOK t) →
    ∀ s ∈ rawSegsOf p wc pc, s.isParam = false → s.const ≠ []
  | [], _, _, _, s, hs, _ => by unfold rawSegsOf at hs; cases hs
  | t :: rest, wc, pc, hok, s, hs, hp => by
    have ht := hok t (List.mem_cons_self ..)
    have hokr : ∀ x ∈ rest, TokOK x := fun x hx => hok x (List.mem_cons_of_mem _ hx)
    cases t <;> unfold rawSegsOf at hs <;> rcases List.mem_cons.mp hs with rfl | hs
    all_goals first
      | exact rawSegsOf_const_ne rest _ _ hokr s hs hp
      | exact ht.1
      | (simp at hp)

theorem segsOf_isSome' {p : Pat} (hok : ∀ t ∈ p, TokOK t) : ∃ segs, segsOf p = some segs := by
  unfold segsOf addParameterMetaInfo
  exact metaForward_isSome _
    (coreL_const_ne ((markLast_core _).trans (setCompareParts_core _)) (rawSegsOf_const_ne p 0 0 hok))

/-- a well-formed token list has a segment list (registering its text does not panic) -/
theorem segsOf_isSome {p : Pat} (h : WFPat p = true) : ∃ segs, segsOf p = some segs :=
  segsOf_isSome' (wfPat_tokOK h).1

end C03
