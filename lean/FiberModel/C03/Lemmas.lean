import FiberModel.C02.Meta
import FiberModel.C03.Spec
/-
C03 — helper lemmas for the completeness theorem: the second half of the `addParameterMetaInfo`
invariant (`IsLast`, the one-character rule), what `segsOf` yields for a token list, and
`findParamLen` on a filled path.
-/
namespace C03
open B C02

/-! ### more of the `addParameterMetaInfo` invariant -/

/-- `IsLast` marks exactly the last segment; a parameter's `Length` stays 0 unless it and its
    successor are both non-greedy parameters (the one-character rule). -/
def MetaOK2 : List Seg → Prop
  | [] => True
  | s :: rest =>
    (s.isLast = true ↔ rest = []) ∧
    (s.isParam = true → nextNonGreedyParam rest = false → s.length = 0) ∧
    MetaOK2 rest

def Pre2 : List Seg → Prop
  | [] => True
  | s :: rest => (s.isLast = true ↔ rest = []) ∧ (s.isParam = true → s.length = 0) ∧ Pre2 rest

end C03
namespace C02
theorem CoreL.nextNonGreedyParam_eq {l l' : List Seg} (h : CoreL l l') :
    nextNonGreedyParam l' = nextNonGreedyParam l := by
  cases h with
  | nil => rfl
  | cons hab _ => simp only [nextNonGreedyParam, hab.2.1, hab.2.2.1]

theorem CoreL.nil_iff {l l' : List Seg} (h : CoreL l l') : l' = [] ↔ l = [] := by
  cases h <;> simp
end C02
namespace C03
open B C02

theorem metaForward_metaOK2 : (l l' : List Seg) → Pre2 l → metaForward l = some l' → MetaOK2 l'
  | [], l', _, h => by unfold metaForward at h; cases h; trivial
  | s :: rest, l', hpre, h => by
    obtain ⟨p1, p2, p3⟩ := hpre
    unfold metaForward at h
    cases hr : metaForward rest with
    | none => simp [hr] at h
    | some rest' =>
      have ih := metaForward_metaOK2 rest rest' p3 hr
      have hcore := metaForward_core rest rest' hr
      simp only [hr] at h
      cases hp : s.isParam
      · simp only [hp, Bool.false_eq_true, if_false] at h
        cases hl : s.const.getLast? with
        | none => simp [hl] at h
        | some l =>
          simp only [hl] at h
          by_cases hc : (l == SLASH && (s.isLast || nextOptional rest)) = true
          · rw [if_pos hc] at h; cases h
            exact ⟨by rw [hcore.nil_iff]; exact p1, fun hh => (by simp at hh), ih⟩
          · rw [if_neg hc] at h; cases h
            exact ⟨by rw [hcore.nil_iff]; exact p1, fun hh => (by rw [hp] at hh; cases hh), ih⟩
      · simp only [hp, if_true] at h
        cases h
        refine ⟨?_, ?_, ih⟩
        · rw [hcore.nil_iff]
          have : ∀ (x : Seg), x.isLast = s.isLast → (x.isLast = true ↔ rest = []) := by
            intro x hx; rw [hx]; exact p1
          apply this
          (repeat' split) <;> rfl
        · intro _ hn
          rw [hcore.nextNonGreedyParam_eq] at hn
          have h0 := p2 hp
          simp only [hn, Bool.and_false, Bool.false_eq_true, if_false]
          (repeat' split) <;> simp [h0]

theorem setCompareParts_pre2 : (l : List Seg) → Pre2 l → Pre2 (setCompareParts l).1
  | [], _ => by unfold setCompareParts; trivial
  | s :: rest, h => by
    obtain ⟨q1, q2, q3⟩ := h
    have ih := setCompareParts_pre2 rest q3
    have hcore := setCompareParts_core rest
    unfold setCompareParts
    cases hp : s.isParam
    · simp only [Bool.false_eq_true, if_false]
      exact ⟨by rw [hcore.nil_iff]; exact q1, fun hh => (by rw [hp] at hh; cases hh), ih⟩
    · simp only [if_true]
      exact ⟨by rw [hcore.nil_iff]; exact q1, fun _ => q2 hp, ih⟩

theorem markLast_pre2 : (l : List Seg) → (∀ s ∈ l, s.isLast = false ∧ (s.isParam = true → s.length = 0)) →
    Pre2 (markLast l)
  | [], _ => by unfold markLast; trivial
  | [s], h => by
    have hs := h s (List.mem_cons_self ..)
    unfold markLast
    exact ⟨by simp, hs.2, trivial⟩
  | s :: t :: rest, h => by
    have hs := h s (List.mem_cons_self ..)
    have ih := markLast_pre2 (t :: rest) (fun x hx => h x (List.mem_cons_of_mem _ hx))
    unfold markLast
    refine ⟨?_, hs.2, ih⟩
    rw [hs.1]
    constructor
    · intro hh; cases hh
    · intro hh
      have := (markLast_core (t :: rest)).nil_iff.mp hh
      cases this

/-! ### what `segsOf` yields -/

theorem rawSegsOf_raw : (p : Pat) → (wc pc : Nat) → ∀ s ∈ rawSegsOf p wc pc,
    RawOK s ∧ (s.isParam = true → s.length = 0)
  | [], _, _, s, hs => by unfold rawSegsOf at hs; cases hs
  | t :: rest, wc, pc, s, hs => by
    cases t <;> unfold rawSegsOf at hs <;> rcases List.mem_cons.mp hs with rfl | hs
    all_goals first
      | exact rawSegsOf_raw rest _ _ s hs
      | (unfold RawOK; simp)

/-- The segment list of a token list: `CoreL`-related to the raw segments, and satisfying both
    halves of the meta-info invariant. -/
theorem segsOf_ok {p : Pat} {segs : List Seg} (h : segsOf p = some segs) :
    CoreL (rawSegsOf p 0 0) segs ∧ MetaOK segs ∧ MetaOK2 segs := by
  unfold segsOf addParameterMetaInfo at h
  have hraw := rawSegsOf_raw p 0 0
  refine ⟨(markLast_core _).trans ((setCompareParts_core _).trans (metaForward_core _ _ h)), ?_, ?_⟩
  · exact metaForward_metaOK _ _ (setCompareParts_pre _ (markLast_pre0 _ (fun s hs => (hraw s hs).1))) h
  · exact metaForward_metaOK2 _ _ (setCompareParts_pre2 _ (markLast_pre2 _
      (fun s hs => ⟨(hraw s hs).1.2.1, (hraw s hs).2⟩))) h

/-! ### byte-search facts -/

theorem contains_false_indexByte (s : Bytes) (c : Nat) (h : s.contains c = false) : indexByte s c = none := by
  induction s with
  | nil => rfl
  | cons x xs ih =>
    simp only [List.contains_cons, Bool.or_eq_false_iff] at h
    unfold indexByte
    have hx : (x == c) = false := by
      have := h.1
      rw [beq_eq_false_iff_ne] at this ⊢
      exact fun hh => this hh.symm
    simp [hx, ih h.2]

theorem removeEscapeChar_id (s : Bytes) (h : s.contains BSL = false) : removeEscapeChar s = s := by
  unfold removeEscapeChar
  rw [List.filter_eq_self]
  intro a ha
  simp only [bne_iff_ne, ne_eq]
  intro hh
  subst hh
  have : s.contains BSL = true := List.contains_iff_mem.mpr ha
  rw [h] at this; cases this

theorem contains_of_prefix {a s : Bytes} (hp : a <+: s) (c : Nat) (h : s.contains c = false) :
    a.contains c = false := by
  cases ha : a.contains c
  · rfl
  · have hm := List.contains_iff_mem.mp ha
    have := List.contains_iff_mem.mpr (hp.subset hm)
    rw [h] at this; cases this

theorem cmpOfConst_escFree (l : Bytes) (h : l.contains BSL = false) : (cmpOfConst l).contains BSL = false := by
  unfold cmpOfConst
  split
  · split
    · decide
    · exact contains_of_prefix (trimRight_prefix l SLASH) BSL h
  · exact h

/-! ### `findParamLen` on a filled path -/

/-- A parameter segment whose value `v` is followed by `tail` in the detection path: if the first
    occurrence of the next constant's search text is right behind `v`, a named value holds no `/`,
    and – for a greedy parameter whose search text `strings.Count` finds more than once – the
    right-to-left loop `findGreedyParamLen` lands on `|v|` (`hgreedy`, discharged by
    `greedy_strip` for clean fills), then `findParamLen` returns `|v|`. -/
theorem findParamLen_fill_core {seg : Seg} {rest : List Seg} {v tail : Bytes}
    (hm : MetaOK (seg :: rest)) (hm2 : MetaOK2 (seg :: rest)) (hp : seg.isParam = true)
    (hnext : nextNonGreedyParam rest = false)
    (hesc : removeEscapeChar (nextConstCmp rest) = nextConstCmp rest)
    (hslash : seg.isGreedy = true ∨ v.contains SLASH = false)
    (hlast : rest = [] → tail = [])
    (hidx : rest ≠ [] → indexOf (v ++ tail) (nextConstCmp rest) = some v.length)
    (hgreedy : rest ≠ [] → seg.isGreedy = true → count (v ++ tail) (nextConstCmp rest) > 1 →
      findGreedyParamLen (v ++ tail) (count (v ++ tail) (nextConstCmp rest)) seg = v.length) :
    findParamLen (v ++ tail) seg = v.length := by
  have hcmp : seg.comparePart = nextConstCmp rest := by rw [hm.2.1 hp, hesc]
  have hlen0 : seg.length = 0 := hm2.2.1 hp hnext
  have htake : (v ++ tail).take v.length = v := by simp
  unfold findParamLen
  by_cases hl : seg.isLast = true
  · have hr := hm2.1.mp hl
    rw [hlast hr, List.append_nil]
    simp only [hl, if_true]
    unfold findParamLenForLastSegment
    cases hg : seg.isGreedy
    · simp only [Bool.not_false, if_true]
      rcases hslash with h | h
      · rw [hg] at h; cases h
      · rw [contains_false_indexByte v SLASH h]
    · simp
  · have hr : rest ≠ [] := fun h => hl (hm2.1.mpr h)
    simp only [hl, Bool.false_eq_true, if_false, hlen0, bne_self_eq_false, Bool.false_and]
    have hi := hidx hr
    by_cases hgr : (seg.isGreedy && decide (count (v ++ tail) seg.comparePart > 1)) = true
    · simp only [hgr, if_true]
      simp only [Bool.and_eq_true, decide_eq_true_eq] at hgr
      rw [hcmp] at hgr ⊢
      exact hgreedy hr hgr.1 hgr.2
    simp only [hgr, Bool.false_eq_true, if_false]
    have hns : (!seg.isGreedy && ((v ++ tail).take v.length).contains SLASH) = false := by
      rw [htake]
      rcases hslash with h | h
      · simp [h]
      · rw [h]; simp
    split
    · rename_i h1
      simp only [beq_iff_eq] at h1
      -- one-byte search text
      have hc1 : seg.comparePart = [seg.comparePart.headD 0] := by
        match hcp : seg.comparePart, h1 with
        | [x], _ => rfl
      rw [← hcmp, hc1, indexOf_singleton] at hi
      rw [hi]
      simp only [hns, Bool.false_eq_true, if_false]
    · rw [← hcmp] at hi
      rw [hi]
      simp only [hns, Bool.false_eq_true, if_false]

/-- Stages (i) and (ii-a): as `findParamLen_fill_core`, for a greedy parameter whose search text
    occurs at most once (`strings.Count ≤ 1`, the `indexOf` branch). -/
theorem findParamLen_fill {seg : Seg} {rest : List Seg} {v tail : Bytes}
    (hm : MetaOK (seg :: rest)) (hm2 : MetaOK2 (seg :: rest)) (hp : seg.isParam = true)
    (hnext : nextNonGreedyParam rest = false)
    (hesc : removeEscapeChar (nextConstCmp rest) = nextConstCmp rest)
    (hslash : seg.isGreedy = true ∨ v.contains SLASH = false)
    (hlast : rest = [] → tail = [])
    (hidx : rest ≠ [] → indexOf (v ++ tail) (nextConstCmp rest) = some v.length)
    (honce : rest ≠ [] → seg.isGreedy = true → count (v ++ tail) (nextConstCmp rest) ≤ 1) :
    findParamLen (v ++ tail) seg = v.length :=
  findParamLen_fill_core hm hm2 hp hnext hesc hslash hlast hidx
    (fun hr hg hc => by have := honce hr hg; omega)

/-! ### `findParamLen(s, segment, following)`: when the full constant replaces the search text -/

theorem fullConst_nil (s : Bytes) (seg : Seg) : fullConst s seg [] = none := by
  unfold fullConst
  split <;> rfl

theorem fullConst_noFull {s : Bytes} {seg n : Seg} {rest' : List Seg}
    (h : ¬ n.const.length > seg.comparePart.length) : fullConst s seg (n :: rest') = none := by
  unfold fullConst
  split
  · rfl
  · have : (decide (n.const.length > seg.comparePart.length) && (indexOf s n.const).isSome) = false := by
      simp [h]
    simp only [this, Bool.false_eq_true, if_false]

theorem fullConst_full {s : Bytes} {seg n : Seg} {rest' : List Seg}
    (hl : seg.isLast = false) (hlen : seg.length = 0)
    (hlong : n.const.length > seg.comparePart.length) (hin : (indexOf s n.const).isSome = true) :
    fullConst s seg (n :: rest') =
      some { seg with comparePart := n.const, partCount := partCountOf n.const (n :: rest') } := by
  unfold fullConst
  have hg : (seg.isLast || (seg.length != 0 && decide (s.length ≥ seg.length))) = false := by
    simp [hl, hlen]
  have hc : (decide (n.const.length > seg.comparePart.length) && (indexOf s n.const).isSome) = true := by
    simp [hlong, hin]
  simp only [hg, hc, Bool.false_eq_true, if_false, if_true]

theorem paramLen_nil (s : Bytes) (seg : Seg) : paramLen s seg [] = findParamLen s seg := by
  unfold paramLen
  rw [fullConst_nil]

/-- the next constant is no longer than the search text (it has no trailing slashes to lose): the
    search text stays -/
theorem paramLen_noFull {s : Bytes} {seg n : Seg} {rest' : List Seg}
    (h : ¬ n.const.length > seg.comparePart.length) : paramLen s seg (n :: rest') = findParamLen s seg := by
  unfold paramLen
  rw [fullConst_noFull h]

/-- the path holds the next constant in full and that is longer than the search text: the locals are
    replaced -/
theorem paramLen_full {s : Bytes} {seg n : Seg} {rest' : List Seg}
    (hl : seg.isLast = false) (hlen : seg.length = 0)
    (hlong : n.const.length > seg.comparePart.length) (hin : (indexOf s n.const).isSome = true) :
    paramLen s seg (n :: rest') =
      if seg.isGreedy then
        findGreedyParamLen s (count s n.const)
          { seg with comparePart := n.const, partCount := partCountOf n.const (n :: rest') }
      else findParamLen s { seg with comparePart := n.const, partCount := partCountOf n.const (n :: rest') } := by
  unfold paramLen
  rw [fullConst_full hl hlen hlong hin]

/-- a non-greedy parameter that is neither last nor of fixed length ends at the first occurrence of
    its search text, if the bytes before hold no slash -/
theorem findParamLen_at {seg : Seg} {v tail : Bytes} (hl : seg.isLast = false) (hlen : seg.length = 0)
    (hg : seg.isGreedy = false) (hs : v.contains SLASH = false)
    (hidx : indexOf (v ++ tail) seg.comparePart = some v.length) :
    findParamLen (v ++ tail) seg = v.length := by
  have htake : (v ++ tail).take v.length = v := by simp
  unfold findParamLen
  simp only [hl, Bool.false_eq_true, if_false, hlen, bne_self_eq_false, Bool.false_and, hg, Bool.not_false,
    Bool.true_and]
  split
  · rename_i h1
    simp only [beq_iff_eq] at h1
    have hc1 : seg.comparePart = [seg.comparePart.headD 0] := by
      match hcp : seg.comparePart, h1 with
      | [x], _ => rfl
    rw [hc1, indexOf_singleton] at hidx
    rw [hidx]
    simp only [htake, hs, Bool.false_eq_true, if_false]
  · rw [hidx]
    simp only [htake, hs, Bool.false_eq_true, if_false]

/-! ### configuration normalisation helpers -/

/-- case folding of the configuration -/
def foldBytes (cfg : Config) (s : Bytes) : Bytes := if cfg.caseSensitive then s else toLower s

theorem trimRight_append_same (s : Bytes) (c : Nat) (n : Nat) :
    trimRight (s ++ List.replicate n c) c = trimRight s c := by
  unfold trimRight
  rw [List.reverse_append, List.reverse_replicate]
  congr 1
  induction n with
  | zero => simp
  | succ n ih => simp [List.replicate_succ, ih]

theorem trimRight_of_last_ne (s : Bytes) (c : Nat) (h : s.getLast? ≠ some c) : trimRight s c = s := by
  unfold trimRight
  cases hr : s.reverse with
  | nil => simp [List.reverse_eq_nil_iff.mp hr]
  | cons x xs =>
    have hx : s.getLast? = some x := by
      rw [List.getLast?_eq_head?_reverse, hr]; rfl
    have : (x == c) = false := by
      rw [beq_eq_false_iff_ne]; intro hh; subst hh; exact h hx
    simp only [List.dropWhile_cons, this, Bool.false_eq_true, if_false]
    rw [← hr, List.reverse_reverse]

end C03
