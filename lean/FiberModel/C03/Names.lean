import FiberModel.C03.Serve
import FiberModel.C03.Parse
/-
C03 — the declared parameter names of a documented-syntax pattern are pairwise distinct under the
comparison `ctx.Params` uses, as soon as the names the *user* chose are: the generated names of the
wildcard / plus parameters (`*1`, `*2`, … / `+1`, `+2`, …; path.go `analyseParameterPart`:
`ParamName + strconv.Itoa(counter)`) never collide with each other (decimal rendering is injective)
nor with a user name (those are alphanumeric). Helper file for `Props.lean`.
-/
namespace C03
open B C02

/-! ### decimal rendering -/

theorem natToDec_inj {n m : Nat} (h : natToDec n = natToDec m) : n = m := by
  unfold natToDec at h
  have hn : (toString n).toList = Nat.toDigits 10 n := Nat.toList_repr
  have hm : (toString m).toList = Nat.toDigits 10 m := Nat.toList_repr
  rw [hn, hm] at h
  have h2 : Nat.toDigits 10 n = Nat.toDigits 10 m :=
    (List.map_inj_right (fun a b hab => Char.toNat_inj.mp hab)).mp h
  have := Nat.ofDigitChars_toDigits (b := 10) (n := n) (by omega) (by omega)
  rw [h2, Nat.ofDigitChars_toDigits (by omega) (by omega)] at this
  exact this.symm

theorem natToDec_digit {n c : Nat} (h : c ∈ natToDec n) : isDigit c = true := by
  unfold natToDec at h
  have hn : (toString n).toList = Nat.toDigits 10 n := Nat.toList_repr
  rw [hn] at h
  obtain ⟨ch, hch, rfl⟩ := List.mem_map.mp h
  have hd := Nat.isDigit_of_mem_toDigits (b := 10) (by omega) (by omega) hch
  unfold Char.isDigit at hd
  unfold isDigit
  simp only [Bool.and_eq_true, decide_eq_true_eq, ge_iff_le] at hd ⊢
  exact ⟨by have := hd.1; exact this, by have := hd.2; exact this⟩

theorem toLower_natToDec (n : Nat) : toLower (natToDec n) = natToDec n := by
  unfold toLower
  conv => rhs; rw [← List.map_id (natToDec n)]
  apply List.map_congr_left
  intro c hc
  have hd := natToDec_digit hc
  unfold isDigit at hd
  simp only [Bool.and_eq_true, decide_eq_true_eq] at hd
  unfold lowerByte isUpper
  have : (decide (65 ≤ c) && decide (c ≤ 90)) = false := by
    simp only [Bool.and_eq_false_iff, decide_eq_false_iff_not]; left; omega
  simp [this]

/-! ### the comparison of `ctx.Params` -/

theorem nameMatch_false_of_lower_ne (cfg : Config) {a c : Bytes} (h : toLower a ≠ toLower c) :
    nameMatch cfg a c = false := by
  unfold nameMatch
  have h1 : (a == c) = false := by
    rw [beq_eq_false_iff_ne]; intro hh; exact h (by rw [hh])
  have h2 : equalFold a c = false := by
    unfold equalFold; rw [beq_eq_false_iff_ne]; exact h
  simp [h1, h2]

theorem nameMatch_comm (cfg : Config) (a c : Bytes) : nameMatch cfg a c = nameMatch cfg c a := by
  unfold nameMatch equalFold
  have e1 : (a.length == c.length) = (c.length == a.length) := by
    cases h : (a.length == c.length) <;> cases h' : (c.length == a.length) <;> simp_all
  have e2 : (a == c) = (c == a) := by
    cases h : (a == c) <;> cases h' : (c == a) <;> simp_all
  have e3 : (toLower a == toLower c) = (toLower c == toLower a) := by
    cases h : (toLower a == toLower c) <;> cases h' : (toLower c == toLower a) <;> simp_all
  rw [e1, e2, e3]

theorem lowerByte_nameByte_ne {c : Nat} (h : nameByte c = true) : lowerByte c ≠ STAR ∧ lowerByte c ≠ PLUS := by
  unfold nameByte isAlpha isUpper isLower isDigit at h
  unfold lowerByte isUpper
  simp only [Bool.or_eq_true, Bool.and_eq_true, decide_eq_true_eq, beq_iff_eq] at h
  have hs : STAR = 42 := rfl
  have hp : PLUS = 43 := rfl
  split
  · rename_i hu
    simp only [Bool.and_eq_true, decide_eq_true_eq] at hu
    constructor <;> omega
  · constructor <;> omega

/-- a user-chosen name never answers to a generated one -/
theorem user_ne_generated (cfg : Config) {n : Bytes} (hne : n ≠ []) (hn : ∀ c ∈ n, nameByte c = true)
    (x : Nat) (hx : x = STAR ∨ x = PLUS) (k : Nat) : nameMatch cfg n (x :: natToDec k) = false := by
  apply nameMatch_false_of_lower_ne
  cases n with
  | nil => exact absurd rfl hne
  | cons c cs =>
    have hc := lowerByte_nameByte_ne (hn c (List.mem_cons_self ..))
    unfold toLower
    simp only [List.map_cons]
    intro hh
    injection hh with hh1 _
    have hlx : lowerByte x = x := by
      unfold lowerByte isUpper
      rcases hx with rfl | rfl <;> decide
    rw [hlx] at hh1
    rcases hx with rfl | rfl
    · exact hc.1 hh1
    · exact hc.2 hh1

theorem generated_ne (cfg : Config) (x y : Nat) (hx : x = STAR ∨ x = PLUS) (hy : y = STAR ∨ y = PLUS)
    (i j : Nat) (h : x ≠ y ∨ i ≠ j) : nameMatch cfg (x :: natToDec i) (y :: natToDec j) = false := by
  apply nameMatch_false_of_lower_ne
  unfold toLower
  simp only [List.map_cons]
  have hlx : lowerByte x = x := by
    unfold lowerByte isUpper
    rcases hx with rfl | rfl <;> decide
  have hly : lowerByte y = y := by
    unfold lowerByte isUpper
    rcases hy with rfl | rfl <;> decide
  have e1 := toLower_natToDec i
  have e2 := toLower_natToDec j
  unfold toLower at e1 e2
  rw [hlx, hly, e1, e2]
  intro hh
  injection hh with h1 h2
  rcases h with h | h
  · exact h h1
  · exact h (natToDec_inj h2)

/-! ### the names a token list declares -/

/-- the names the user wrote -/
def userNames : Pat → List Bytes
  | [] => []
  | .named n _ :: rest => n :: userNames rest
  | _ :: rest => userNames rest

/-- where a declared name comes from, relative to the counters the parser has reached -/
def NameIn (p : Pat) (wc pc : Nat) (x : Bytes) : Prop :=
  x ∈ userNames p ∨ (∃ k, wc < k ∧ x = STAR :: natToDec k) ∨ (∃ k, pc < k ∧ x = PLUS :: natToDec k)

theorem paramNames_core {l l' : List Seg} (h : CoreL l l') : paramNames l' = paramNames l := by
  induction h with
  | nil => rfl
  | @cons a b as bs hab _ ih =>
    unfold paramNames at *
    simp only [List.filter_cons, hab.2.1]
    split
    · simp only [List.map_cons, hab.2.2.2.2.2.1, ih]
    · exact ih

theorem paramNames_lit (l : Bytes) (rest : Pat) (wc pc : Nat) :
    paramNames (rawSegsOf (.lit l :: rest) wc pc) = paramNames (rawSegsOf rest wc pc) := by
  unfold paramNames; simp [rawSegsOf]

theorem paramNames_named (n : Bytes) (o : Bool) (rest : Pat) (wc pc : Nat) :
    paramNames (rawSegsOf (.named n o :: rest) wc pc) = n :: paramNames (rawSegsOf rest wc pc) := by
  unfold paramNames; simp [rawSegsOf]

theorem paramNames_star (rest : Pat) (wc pc : Nat) :
    paramNames (rawSegsOf (.star :: rest) wc pc) =
      (STAR :: natToDec (wc + 1)) :: paramNames (rawSegsOf rest (wc + 1) pc) := by
  unfold paramNames; simp [rawSegsOf]

theorem paramNames_plus (rest : Pat) (wc pc : Nat) :
    paramNames (rawSegsOf (.plus :: rest) wc pc) =
      (PLUS :: natToDec (pc + 1)) :: paramNames (rawSegsOf rest wc (pc + 1)) := by
  unfold paramNames; simp [rawSegsOf]

theorem names_in : (p : Pat) → (wc pc : Nat) → ∀ x ∈ paramNames (rawSegsOf p wc pc), NameIn p wc pc x
  | [], _, _, x, hx => by simp [paramNames, rawSegsOf] at hx
  | .lit l :: rest, wc, pc, x, hx => by
    rw [paramNames_lit] at hx
    rcases names_in rest wc pc x hx with h | h | h
    · exact Or.inl (by simpa [userNames] using h)
    · exact Or.inr (Or.inl h)
    · exact Or.inr (Or.inr h)
  | .named n o :: rest, wc, pc, x, hx => by
    rw [paramNames_named] at hx
    rcases List.mem_cons.mp hx with rfl | hx
    · exact Or.inl (by simp [userNames])
    · rcases names_in rest wc pc x hx with h | h | h
      · exact Or.inl (by simp [userNames, h])
      · exact Or.inr (Or.inl h)
      · exact Or.inr (Or.inr h)
  | .star :: rest, wc, pc, x, hx => by
    rw [paramNames_star] at hx
    rcases List.mem_cons.mp hx with rfl | hx
    · exact Or.inr (Or.inl ⟨wc + 1, by omega, rfl⟩)
    · rcases names_in rest (wc + 1) pc x hx with h | ⟨k, hk, h⟩ | h
      · exact Or.inl (by simpa [userNames] using h)
      · exact Or.inr (Or.inl ⟨k, by omega, h⟩)
      · exact Or.inr (Or.inr h)
  | .plus :: rest, wc, pc, x, hx => by
    rw [paramNames_plus] at hx
    rcases List.mem_cons.mp hx with rfl | hx
    · exact Or.inr (Or.inr ⟨pc + 1, by omega, rfl⟩)
    · rcases names_in rest wc (pc + 1) x hx with h | h | ⟨k, hk, h⟩
      · exact Or.inl (by simpa [userNames] using h)
      · exact Or.inr (Or.inl h)
      · exact Or.inr (Or.inr ⟨k, by omega, h⟩)

/-- user names are non-empty and alphanumeric -/
def UserOK (p : Pat) : Prop := ∀ n ∈ userNames p, n ≠ [] ∧ ∀ c ∈ n, nameByte c = true

theorem userOK_of_tokOK : (p : Pat) → (∀ t ∈ p, TokOK t) → UserOK p
  | [], _ => by intro n hn; simp [userNames] at hn
  | t :: rest, hok => by
    have ih := userOK_of_tokOK rest (fun x hx => hok x (List.mem_cons_of_mem _ hx))
    have ht := hok t (List.mem_cons_self ..)
    intro n hn
    cases t with
    | named m o =>
      simp only [userNames, List.mem_cons] at hn
      rcases hn with rfl | hn
      · exact ht
      · exact ih n hn
    | lit l => exact ih n (by simpa [userNames] using hn)
    | star => exact ih n (by simpa [userNames] using hn)
    | plus => exact ih n (by simpa [userNames] using hn)

theorem UserOK.tail {t : Tok} {rest : Pat} (h : UserOK (t :: rest)) : UserOK rest := by
  intro n hn
  apply h
  cases t <;> simp [userNames, hn]

/-- **The declared names are pairwise distinct** under the comparison of `ctx.Params`, for any
    state of the wildcard / plus counters, provided the user's own names are. -/
theorem names_pairwise (cfg : Config) : (p : Pat) → (wc pc : Nat) → UserOK p →
    (userNames p).Pairwise (fun a c => nameMatch cfg a c = false) →
    (paramNames (rawSegsOf p wc pc)).Pairwise (fun a c => nameMatch cfg a c = false)
  | [], _, _, _, _ => by simp [paramNames, rawSegsOf]
  | .lit l :: rest, wc, pc, hu, hp => by
    rw [paramNames_lit]
    exact names_pairwise cfg rest wc pc hu.tail (by simpa [userNames] using hp)
  | .named n o :: rest, wc, pc, hu, hp => by
    rw [paramNames_named]
    simp only [userNames, List.pairwise_cons] at hp
    refine List.pairwise_cons.mpr ⟨fun x hx => ?_, names_pairwise cfg rest wc pc hu.tail hp.2⟩
    have hn := hu n (by simp [userNames])
    rcases names_in rest wc pc x hx with h | ⟨k, _, rfl⟩ | ⟨k, _, rfl⟩
    · exact hp.1 x h
    · exact user_ne_generated cfg hn.1 hn.2 STAR (Or.inl rfl) k
    · exact user_ne_generated cfg hn.1 hn.2 PLUS (Or.inr rfl) k
  | .star :: rest, wc, pc, hu, hp => by
    rw [paramNames_star]
    refine List.pairwise_cons.mpr ⟨fun x hx => ?_,
      names_pairwise cfg rest (wc + 1) pc hu.tail (by simpa [userNames] using hp)⟩
    rcases names_in rest (wc + 1) pc x hx with h | ⟨k, hk, rfl⟩ | ⟨k, _, rfl⟩
    · have hn := hu x (by simpa [userNames] using h)
      rw [nameMatch_comm]
      exact user_ne_generated cfg hn.1 hn.2 STAR (Or.inl rfl) _
    · exact generated_ne cfg STAR STAR (Or.inl rfl) (Or.inl rfl) _ _ (Or.inr (by omega))
    · exact generated_ne cfg STAR PLUS (Or.inl rfl) (Or.inr rfl) _ _ (Or.inl (by decide))
  | .plus :: rest, wc, pc, hu, hp => by
    rw [paramNames_plus]
    refine List.pairwise_cons.mpr ⟨fun x hx => ?_,
      names_pairwise cfg rest wc (pc + 1) hu.tail (by simpa [userNames] using hp)⟩
    rcases names_in rest wc (pc + 1) x hx with h | ⟨k, _, rfl⟩ | ⟨k, hk, rfl⟩
    · have hn := hu x (by simpa [userNames] using h)
      rw [nameMatch_comm]
      exact user_ne_generated cfg hn.1 hn.2 PLUS (Or.inr rfl) _
    · exact generated_ne cfg PLUS STAR (Or.inr rfl) (Or.inl rfl) _ _ (Or.inl (by decide))
    · exact generated_ne cfg PLUS PLUS (Or.inr rfl) (Or.inr rfl) _ _ (Or.inr (by omega))

/-- the names `register` stores for a documented-syntax pattern: pairwise distinct as soon as the
    user's are -/
theorem segsOf_names_distinct (cfg : Config) {p : Pat} {segs : List Seg} (hwf : WFPat p = true)
    (hs : segsOf p = some segs)
    (hnames : (userNames p).Pairwise (fun a c => nameMatch cfg a c = false)) :
    (paramNames segs).Pairwise (fun a c => nameMatch cfg a c = false) := by
  rw [paramNames_core (segsOf_ok hs).1]
  exact names_pairwise cfg p 0 0 (userOK_of_tokOK p (wfPat_tokOK hwf).1) hnames

/-- the route `register` builds for a documented-syntax pattern declares the names of `segsOf p` -/
theorem register_params {cfg : Config} {p : Pat} {r : Route} (hwf : WFPat p = true)
    (hr : register cfg false (patText p) = some r) :
    ∃ sr, segsOf p = some sr ∧ r.params = paramNames sr := by
  obtain ⟨sr, hsr⟩ := segsOf_isSome hwf
  obtain ⟨l', rest, hp⟩ := wfPat_head hwf
  have hraw : rawPattern (patText p) = patText p := by
    rw [hp, patText_cons]; unfold rawPattern; simp [Tok.text]
  refine ⟨sr, hsr, ?_⟩
  unfold register at hr
  simp only [hraw, parseRoute_patText hwf, hsr, Option.map_some] at hr
  split at hr
  · rename_i pr pp hpr hpp
    cases hr
    simp only [Option.some.injEq] at hpr
    rw [← hpr]
  · cases hr

end C03
