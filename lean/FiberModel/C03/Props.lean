import FiberModel.C03.Complete
import FiberModel.C03.Parse
import FiberModel.C03.Serve
import FiberModel.C03.Trim
import FiberModel.C03.Names
import FiberModel.C03.Escape
import FiberModel.C02.Props
/-
C03 — property theorems (only).

Staging of the completeness statement as in DESIGN §6 C03:
  (i)    non-greedy parameter followed by a literal, non-greedy / greedy last parameter   — proved
  (ii-a) greedy parameter followed by a literal whose search text occurs once in the rest  — proved
  (ii-b) greedy parameter whose literal re-occurs later (`findGreedyParamLen`)             — proved
         (Greedy.lean: `count_eq_cntR`, `count_fill`, `greedy_strip`).
The statements are at full strength: the occurrence condition is the property sentence's `CleanFill`
(no additional occurrence of the *literal* that follows a parameter). Former known finding K1 (the
matcher searched for the literal minus its trailing slashes) is repaired in fiber: `findParamLen`
searches for the following constant in full whenever the path holds it (`C02.fullConst`).
-/
namespace C03
open B C02

/-! ### normalisation commutes with filling -/

/-- **normalise_commutes (letter case).** Case-folding a filled path is filling the case-folded
    pattern with the case-folded values. -/
theorem fill_fold (cfg : Config) : (p : Pat) → (vals : List Bytes) →
    fill (foldPat cfg p) (foldVals cfg vals) = foldBytes cfg (fill p vals)
  | [], vals => by
    unfold foldPat foldBytes fill
    cases cfg.caseSensitive <;> simp [toLower]
  | t :: rest, vals => by
    have ih := fill_fold cfg rest
    unfold foldPat foldVals foldBytes at *
    cases hcs : cfg.caseSensitive
    · simp only [hcs, Bool.false_eq_true, if_false] at ih ⊢
      cases t with
      | lit l =>
        simp only [List.map_cons, foldTok, hcs, Bool.false_eq_true, if_false, fill]
        rw [ih, toLower_append]
      | named n o =>
        simp only [List.map_cons, foldTok, fill]
        rw [toLower_append, ← ih vals.tail]
        cases vals <;> simp [toLower]
      | star =>
        simp only [List.map_cons, foldTok, fill]
        rw [toLower_append, ← ih vals.tail]
        cases vals <;> simp [toLower]
      | plus =>
        simp only [List.map_cons, foldTok, fill]
        rw [toLower_append, ← ih vals.tail]
        cases vals <;> simp [toLower]
    · simp only [hcs, if_true] at ih ⊢
      cases t <;> simp [foldTok, hcs, fill, ih]

/-- The user-visible path `fill p vals` (plus anything behind it, e.g. ignored trailing slashes)
    carries the values `vals` at the value positions of the case-folded fill. -/
theorem pathFor_fill (cfg : Config) : (p : Pat) → (vals : List Bytes) → (extra : Bytes) →
    vals.length = (p.filter (·.isParam)).length →
    PathFor (foldPat cfg p) (foldVals cfg vals) vals (fill p vals ++ extra)
  | [], vals, extra, h => by
    simp at h
    unfold foldPat PathFor
    simpa using h
  | .lit l :: rest, vals, extra, h => by
    have ih := pathFor_fill cfg rest vals extra (by simpa [Tok.isParam] using h)
    unfold foldPat at *
    simp only [List.map_cons, foldTok, PathFor, fill]
    have : (if cfg.caseSensitive then l else toLower l).length = l.length := by
      split <;> simp [toLower]
    rw [this, List.append_assoc, List.drop_left]
    exact ih
  | .named n o :: rest, vals, extra, h => pathFor_param cfg (by rfl) rest vals extra h (pathFor_fill cfg rest)
  | .star :: rest, vals, extra, h => pathFor_param cfg (by rfl) rest vals extra h (pathFor_fill cfg rest)
  | .plus :: rest, vals, extra, h => pathFor_param cfg (by rfl) rest vals extra h (pathFor_fill cfg rest)
where
  pathFor_param (cfg : Config) {t : Tok} (ht : t.isParam = true) (rest : Pat) (vals : List Bytes) (extra : Bytes)
      (h : vals.length = ((t :: rest).filter (·.isParam)).length)
      (ih : ∀ (vals : List Bytes) (extra : Bytes), vals.length = (rest.filter (·.isParam)).length →
        PathFor (foldPat cfg rest) (foldVals cfg vals) vals (fill rest vals ++ extra)) :
      PathFor (foldPat cfg (t :: rest)) (foldVals cfg vals) vals (fill (t :: rest) vals ++ extra) := by
    cases vals with
    | nil => simp [List.filter, ht] at h
    | cons v vs =>
      have h' : vs.length = (rest.filter (·.isParam)).length := by
        simp [List.filter, ht] at h; exact h
      have ih' := ih vs extra h'
      have hft : foldTok cfg t = t := by cases t <;> simp [foldTok, Tok.isParam] at ht ⊢
      have hfv : foldVals cfg (v :: vs) = (foldBytes cfg v) :: foldVals cfg vs := by
        unfold foldVals foldBytes; cases cfg.caseSensitive <;> simp
      have hlen : (foldBytes cfg v).length = v.length := by
        unfold foldBytes; split <;> simp [toLower]
      unfold foldPat at *
      simp only [List.map_cons, hft, hfv]
      rw [fill_param t rest v vs ht]
      have : PathFor (t :: List.map (foldTok cfg) rest) (foldBytes cfg v :: foldVals cfg vs) (v :: vs)
          (v ++ fill rest vs ++ extra) =
          ((v ++ fill rest vs ++ extra).take (foldBytes cfg v).length = v ∧
           PathFor (List.map (foldTok cfg) rest) (foldVals cfg vs) vs
             ((v ++ fill rest vs ++ extra).drop (foldBytes cfg v).length)) := by
        cases t <;> simp [PathFor, Tok.isParam] at ht ⊢
      rw [this, hlen, List.append_assoc, List.take_left, List.drop_left]
      exact ⟨rfl, ih'⟩

theorem foldPat_delimited (cfg : Config) : (p : Pat) → Delimited (foldPat cfg p) = Delimited p
  | [] => rfl
  | t :: rest => by
    have ih := foldPat_delimited cfg rest
    unfold foldPat at *
    simp only [List.map_cons, Delimited, ih]
    have h1 : (foldTok cfg t).isParam = t.isParam := by cases t <;> rfl
    have h2 : delimNext (List.map (foldTok cfg) rest) = delimNext rest := by
      cases rest with
      | nil => rfl
      | cons t2 r2 =>
        cases t2 with
        | lit l =>
          simp only [List.map_cons, foldTok, delimNext]
          cases l with
          | nil => cases cfg.caseSensitive <;> rfl
          | cons c cs =>
            cases hcs : cfg.caseSensitive
            · simp only [Bool.false_eq_true, if_false, toLower, List.map_cons, startsWithDelim]
              unfold lowerByte isUpper
              split
              · rename_i h
                simp only [Bool.and_eq_true, decide_eq_true_eq] at h
                have e1 : (c == SLASH) = false := by rw [beq_eq_false_iff_ne]; show c ≠ 47; omega
                have e2 : (c == DASH) = false := by rw [beq_eq_false_iff_ne]; show c ≠ 45; omega
                have e3 : (c == DOT) = false := by rw [beq_eq_false_iff_ne]; show c ≠ 46; omega
                have f1 : (c + 32 == SLASH) = false := by rw [beq_eq_false_iff_ne]; show c + 32 ≠ 47; omega
                have f2 : (c + 32 == DASH) = false := by rw [beq_eq_false_iff_ne]; show c + 32 ≠ 45; omega
                have f3 : (c + 32 == DOT) = false := by rw [beq_eq_false_iff_ne]; show c + 32 ≠ 46; omega
                simp [e1, e2, e3, f1, f2, f3]
              · rfl
            · simp
        | named _ _ => rfl
        | star => rfl
        | plus => rfl
    rw [h1, h2]

theorem foldPat_escFree (cfg : Config) (p : Pat) (h : litsEscFree p) : litsEscFree (foldPat cfg p) := by
  intro t ht l hl
  unfold foldPat at ht
  obtain ⟨t0, ht0, hmap⟩ := List.mem_map.mp ht
  subst hl
  cases t0 with
  | lit l0 =>
    simp only [foldTok, Tok.lit.injEq] at hmap
    have h0 := h (.lit l0) ht0 l0 rfl
    subst hmap
    split
    · exact h0
    · cases hc : (toLower l0).contains BSL
      · rfl
      · exfalso
        have hm := List.contains_iff_mem.mp hc
        unfold toLower at hm
        obtain ⟨x, hx, hxe⟩ := List.mem_map.mp hm
        have : x = BSL := by
          unfold lowerByte isUpper at hxe
          split at hxe
          · rename_i hh
            simp only [Bool.and_eq_true, decide_eq_true_eq] at hh
            have : BSL = 92 := rfl
            omega
          · exact hxe
        subst this
        have := List.contains_iff_mem.mpr hx
        rw [h0] at this; cases this
  | named _ _ => simp [foldTok] at hmap
  | star => simp [foldTok] at hmap
  | plus => simp [foldTok] at hmap

/-! ## Completeness -/

/-- **fill → match completeness** (all stages of DESIGN §6 C03: (i) non-greedy / last parameters,
    (ii-a) greedy parameters whose delimiter occurs once, (ii-b) greedy parameters whose delimiter
    re-occurs behind them — `findGreedyParamLen` / `PartCount`), at full strength:
    `Delimited p → CleanFill p vals → getMatch (parse p) (fill p vals) = some vals`.

    What the matcher searches for behind a parameter followed by the literal `L`: the literal itself
    when it has no trailing slashes to lose (or is a single `/`); otherwise `ComparePart` is `L`
    minus its trailing slashes, but `findParamLen` replaces it by `L` in full whenever the path holds
    `L` (`C02.fullConst`; the fill always does), recounting `PartCount` for `L`, and a greedy
    parameter then always searches from the right. Either way the search text `K` is `L` on a fill.

    Which fillings the matcher serves behind a greedy parameter: `strings.Count(rest of the path, K)`
    non-overlapping occurrences are seen; `PartCount` (= Σ `strings.Count(literal, K)` over the
    literals behind the parameter, the directly following one included) occurrences are cut off
    from the right with `strings.LastIndex`. For a clean filling – the rest of the path holds exactly
    the literals' occurrences of `K`, at any offset, overlapping ones included – no occurrence
    touches a value, so the count from the left is `PartCount` (`count_fill`), as many can be cut
    from the right (`count_eq_cntR`, also for self-overlapping `K` such as `--`), and the last cut is
    the occurrence directly behind the value (`greedy_strip_key`).

    For every configuration (case folding), every token list `p` (with segment list `segs`), every
    value assignment `vals` and anything (`extra`) behind the filled path – e.g. trailing slashes
    the configuration ignores: on the case-folded fill as detection path and the fill as written as
    user path, `getMatch` succeeds and reports exactly `vals`. -/
theorem fill_match_complete {chk : Constraint → Bytes → Bool} (cfg : Config)
    {p : Pat} {vals : List Bytes} {segs : List Seg} (extra : Bytes)
    (hs : segsOf (foldPat cfg p) = some segs)
    (hd : Delimited p = true) (hesc : litsEscFree p)
    (hn : vals.length = (p.filter (·.isParam)).length)
    (hcl : CleanFill (foldPat cfg p) (foldVals cfg vals) = true) :
    getMatch chk segs (foldBytes cfg (fill p vals)) (fill p vals ++ extra) false = some vals := by
  obtain ⟨hcore, hm, hm2⟩ := segsOf_ok hs
  rw [← fill_fold]
  exact getMatch_fill (foldPat cfg p) 0 0 segs _ vals _ hcore hm hm2 (segsOf_partCount hs)
    (by rw [foldPat_delimited]; exact hd) (foldPat_escFree cfg p hesc) hcl
    (pathFor_fill cfg p vals extra hn)

/-- non-vacuity, stages (i)/(ii-a): `/api/:x-:y?/files/*` filled with `Ab`, ``, `a/b.txt` under the
    default (case-insensitive) configuration -/
example :
    let p : Pat := [.lit (b "/api/"), .named (b "x") false, .lit (b "-"), .named (b "y") true,
                    .lit (b "/files/"), .star]
    let vals := [b "Ab", [], b "a/b.txt"]
    (Delimited p && CleanFill (foldPat {} p) (foldVals {} vals) &&
     (match segsOf (foldPat {} p) with
      | some segs => getMatch (fun _ _ => true) segs (foldBytes {} (fill p vals)) (fill p vals) false == some vals
      | none => false)) = true := by decide

/-- non-vacuity, stage (ii-b), search text = the literal (no trailing slash): slash, star, the
    literal dash-dash, plus, the literal dash-dash-dash-x (self-overlapping search text, which
    re-occurs in the later literal twice by position, once by `strings.Count`) filled with `a-b`,
    `c/d`: the hypotheses hold, `greedyOnce` fails (the loop of `findGreedyParamLen` runs), the route
    matches with exactly these values. -/
example :
    let p : Pat := [.lit (b "/"), .star, .lit (b "--"), .plus, .lit (b "---x")]
    let vals := [b "a-b", b "c/d"]
    (Delimited p && CleanFill (foldPat {} p) (foldVals {} vals) &&
     !greedyOnce id (foldPat {} p) (foldVals {} vals) &&
     (match segsOf (foldPat {} p) with
      | some segs => getMatch (fun _ _ => true) segs (foldBytes {} (fill p vals)) (fill p vals) false == some vals
      | none => false)) = true := by decide

/-- non-vacuity, the literal has trailing slashes (the region of former known finding K1), greedy:
    slash, plus, the literal dash-slash, star, the literal dash-slash, star. The values `q`, `r`,
    `c-d` hold the slash-less search text `-` of `ComparePart` but create no occurrence of the
    literal; counting `-` lands the right-to-left loop on the second literal (the old 404), counting
    the literal in full returns the values. -/
example :
    let cfg : Config := { caseSensitive := true, strictRouting := true }
    let p : Pat := [.lit (b "/"), .plus, .lit (b "-/"), .star, .lit (b "-/"), .star]
    let vals := [b "q", b "r", b "c-d"]
    (Delimited p && CleanFill (foldPat cfg p) (foldVals cfg vals) &&
     !cleanFillWith cmpOfConst (foldPat cfg p) (foldVals cfg vals) &&
     (match segsOf (foldPat cfg p) with
      | some segs =>
        getMatch (fun _ _ => true) segs (foldBytes cfg (fill p vals)) (fill p vals) false == some vals &&
        -- without the replacement (`findParamLen` on the segment's own `ComparePart`) the first cut is wrong
        (match segs with
         | _ :: s1 :: rest => findParamLen (b "q-/r-/c-d") s1 != 1 && paramLen (b "q-/r-/c-d") s1 rest == 1
         | _ => false)
      | none => false)) = true := by decide

/-! ## The decision under the configuration -/

/-- **Letter case is ignored unless CaseSensitive:** two request paths that differ only in letter
    case get the same detection path. -/
theorem case_ignored (cfg : Config) (hcs : cfg.caseSensitive = false) (hu : cfg.unescapePath = false)
    (a c : Bytes) (h : toLower a = toLower c) :
    (configDependentPaths cfg a).2 = (configDependentPaths cfg c).2 := by
  unfold configDependentPaths
  simp [hcs, hu, h]

/-- **A trailing slash is ignored unless StrictRouting:** a request path that does not end in a
    slash and the same path with any number of slashes appended get the same detection path. -/
theorem trailing_slash_ignored (cfg : Config) (hst : cfg.strictRouting = false) (hu : cfg.unescapePath = false)
    (orig : Bytes) (hne : orig ≠ []) (hl : orig.getLast? ≠ some SLASH) (n : Nat) :
    (configDependentPaths cfg (orig ++ List.replicate n SLASH)).2 = (configDependentPaths cfg orig).2 := by
  have key : ∀ (s : Bytes), s ≠ [] → s.getLast? ≠ some SLASH →
      (if (!cfg.strictRouting && decide ((s ++ List.replicate n SLASH).length > 1) &&
            ((s ++ List.replicate n SLASH).getLast? == some SLASH)) = true
       then trimRight (s ++ List.replicate n SLASH) SLASH else s ++ List.replicate n SLASH) =
      (if (!cfg.strictRouting && decide (s.length > 1) && (s.getLast? == some SLASH)) = true
       then trimRight s SLASH else s) := by
    intro s hs hls
    have h2 : (s.getLast? == some SLASH) = false := by
      rw [beq_eq_false_iff_ne]; exact hls
    simp only [h2, Bool.and_false, Bool.false_eq_true, if_false]
    cases n with
    | zero => simp [h2]
    | succ n =>
      have hlast : (s ++ List.replicate (n + 1) SLASH).getLast? = some SLASH := by
        rw [List.replicate_succ', ← List.append_assoc, List.getLast?_append]; simp
      have hlen : (s ++ List.replicate (n + 1) SLASH).length > 1 := by
        have : s.length ≥ 1 := by
          cases s with
          | nil => exact absurd rfl hs
          | cons _ _ => simp
        simp; omega
      simp only [hst, Bool.not_false, hlen, decide_true, hlast, beq_self_eq_true, Bool.and_self, if_true]
      rw [trimRight_append_same, trimRight_of_last_ne s SLASH hls]
  unfold configDependentPaths
  simp only [hu, Bool.false_eq_true, if_false]
  cases hcs : cfg.caseSensitive
  · simp only [Bool.not_false, if_true]
    have hmap : toLower (orig ++ List.replicate n SLASH) = toLower orig ++ List.replicate n SLASH := by
      rw [toLower_append]
      congr 1
      unfold toLower
      rw [List.map_replicate]
      rfl
    rw [hmap]
    apply key
    · intro h; apply hne
      unfold toLower at h
      exact List.map_eq_nil_iff.mp h
    · intro h
      apply hl
      unfold toLower at h
      rw [List.getLast?_map] at h
      cases hg : orig.getLast? with
      | none => rw [hg] at h; cases h
      | some x =>
        rw [hg] at h
        simp only [Option.map_some, Option.some.injEq] at h
        have : x = SLASH := by
          unfold lowerByte isUpper at h
          split at h
          · rename_i hh
            simp only [Bool.and_eq_true, decide_eq_true_eq] at hh
            have : SLASH = 47 := rfl
            omega
          · exact h
        rw [this]
  · simp only [Bool.not_true, Bool.false_eq_true, if_false]
    exact key orig hne hl

/-- the routing path as a function of the user-visible (decoded) path alone -/
def detOfPath (cfg : Config) (path : Bytes) : Bytes :=
  (configDependentPaths { cfg with unescapePath := false } path).2

theorem det_eq_detOfPath (cfg : Config) (orig : Bytes) :
    (configDependentPaths cfg orig).2 = detOfPath cfg (configDependentPaths cfg orig).1 := by
  unfold detOfPath configDependentPaths; simp

/-- **Letter case is ignored unless CaseSensitive, also with UnescapePath:** two requests whose
    user-visible (percent-decoded iff UnescapePath) paths differ only in letter case get the same
    detection path. -/
theorem case_ignored_decoded (cfg : Config) (hcs : cfg.caseSensitive = false) (a c : Bytes)
    (h : toLower (configDependentPaths cfg a).1 = toLower (configDependentPaths cfg c).1) :
    (configDependentPaths cfg a).2 = (configDependentPaths cfg c).2 := by
  rw [det_eq_detOfPath, det_eq_detOfPath cfg c]
  exact case_ignored { cfg with unescapePath := false } hcs rfl _ _ h

/-- **A trailing slash is ignored unless StrictRouting, also with UnescapePath:** if the user-visible
    path of `c` is that of `a` (non-empty, not ending in a slash) plus any number of slashes – written
    as `/` or, with UnescapePath, as `%2F` – both get the same detection path. -/
theorem trailing_slash_ignored_decoded (cfg : Config) (hst : cfg.strictRouting = false) (a c : Bytes) (n : Nat)
    (hne : (configDependentPaths cfg a).1 ≠ []) (hl : (configDependentPaths cfg a).1.getLast? ≠ some SLASH)
    (h : (configDependentPaths cfg c).1 = (configDependentPaths cfg a).1 ++ List.replicate n SLASH) :
    (configDependentPaths cfg c).2 = (configDependentPaths cfg a).2 := by
  rw [det_eq_detOfPath, det_eq_detOfPath cfg a, h]
  exact trailing_slash_ignored { cfg with unescapePath := false } hst rfl _ hne hl n

/-- non-vacuity: UnescapePath on, `/a%2Fb` + `%2f` vs `/A/b` -/
example :
    let cfg : Config := { unescapePath := true }
    (configDependentPaths cfg (b "/A/b")).1 = b "/A/b" ∧
    (configDependentPaths cfg (b "/a%2Fb%2f")).1 = b "/a/b" ++ List.replicate 1 SLASH := by
  constructor <;> simp [configDependentPaths, unquote, b, hexNibble] <;> decide

/-- **Percent-decoding applies only with UnescapePath.** -/
theorem unescape_only_with_flag (cfg : Config) (orig : Bytes) :
    (configDependentPaths cfg orig).1 = if cfg.unescapePath then unquote orig else orig := by
  unfold configDependentPaths; rfl

/-! ## RoutePatternMatch = single-route dispatch -/

/-- **The tree index is transparent for a single route** (uses C02's locality lemma and the repaired
    `buildTree` key): dispatching to an app that holds only `r` is `Route.match`. -/
theorem dispatch1_eq_routeMatch {chk : Constraint → Bytes → Bool} {cfg : Config} {use : Bool} {pattern : Bytes}
    {r : Route} (hr : register cfg use pattern = some r) (det path : Bytes) :
    dispatch1 chk r det path = routeMatch chk r det path := by
  unfold dispatch1
  split
  · rfl
  · rename_i hcond
    cases hm : routeMatch chk r det path with
    | none => rfl
    | some vs =>
      exfalso
      apply hcond
      simp only [Bool.or_eq_true, beq_iff_eq]
      cases hsegs : r.parser.segs with
      | nil => left; unfold routeTreeKey; rw [hsegs]
      | cons s0 rest =>
        by_cases hk : (decide (s0.const.length ≥ 3) && (decide (s0.const.length > 3) || !s0.hasOptionalSlash)) = true
        · right
          have h3 : s0.const.length ≥ 3 := by
            simp only [Bool.and_eq_true, decide_eq_true_eq] at hk; exact hk.1
          have hno : ¬ (s0.const.length = 3 ∧ s0.hasOptionalSlash = true) := by
            intro ⟨h1, h2⟩
            simp only [Bool.and_eq_true, decide_eq_true_eq, Bool.or_eq_true, Bool.not_eq_true'] at hk
            rcases hk.2 with h | h
            · omega
            · rw [h2] at h; cases h
          have hc : s0.isParam = false := by
            cases hp : s0.isParam
            · rfl
            · exfalso
              obtain ⟨_, pp, hpp, hpe⟩ := register_use hr
              have := parseRouteW_param_const hpp s0 (by rw [← hpe, hsegs]; exact List.mem_cons_self ..) hp
              rw [this] at h3; simp at h3
          exact match_same_bucket hr hsegs hc h3 hno hm
        · left
          unfold routeTreeKey
          rw [hsegs]
          simp only [hk, Bool.false_eq_true, if_false]

/-- **RoutePatternMatch answers exactly as dispatching the path to an app holding only that route**
    (for the repaired `RoutePatternMatch`, `fix:` commits a94e154 and c0ae1a8, and the repaired
    catch-all shortcut a0d0533). Hypotheses: the request path is non-empty (always true on the
    wire); the pattern as written and the configuration-normalised pattern agree on whether there
    are parameters (`harity` — the same text with CaseSensitive+StrictRouting; checked at run time
    otherwise); a pattern whose escape-free text is "/" declares no parameters (`hrootnp`, checked
    at run time); no custom constraints are registered on the app (RoutePatternMatch cannot know
    them: the same verdict function `chk` on both sides). -/
theorem rpm_eq_single_route_dispatch {chk : Constraint → Bytes → Bool} {cfg : Config} {pattern : Bytes}
    {r : Route} (hr : register cfg false pattern = some r) (reqPath : Bytes) (hne : reqPath ≠ [])
    (harity : (r.params.length > 0) ↔ (r.parser.params.length > 0))
    (hrootnp : r.root = true → ¬ (r.parser.params.length > 0)) :
    routePatternMatch chk cfg reqPath pattern =
      some (dispatch1 chk r (configDependentPaths cfg reqPath).2 (configDependentPaths cfg reqPath).1).isSome := by
  rw [dispatch1_eq_routeMatch hr]
  unfold register at hr
  simp only at hr
  split at hr
  · rename_i pr pp hpr hpp
    cases hr
    simp only at harity hrootnp
    -- the detection path RoutePatternMatch computes is configDependentPaths'
    have hdet : ∀ (s : Bytes),
        (if (!cfg.strictRouting && decide (s.length > 1)) = true then trimRight s SLASH else s) =
        (if (!cfg.strictRouting && decide (s.length > 1) && (s.getLast? == some SLASH)) = true
         then trimRight s SLASH else s) := by
      intro s
      by_cases hl : s.getLast? = some SLASH
      · simp [hl]
      · have : (s.getLast? == some SLASH) = false := beq_eq_false_iff_ne.mpr hl
        simp only [this, Bool.and_false, Bool.false_eq_true, if_false]
        split
        · exact trimRight_of_last_ne s SLASH hl
        · rfl
    have hne' : (if reqPath.isEmpty then [SLASH] else reqPath) = reqPath := by
      cases reqPath with
      | nil => exact absurd rfl hne
      | cons _ _ => rfl
    unfold routePatternMatch
    simp only [hne', hpp]
    rw [hdet]
    have hcd : configDependentPaths cfg reqPath =
        ((if cfg.unescapePath then unquote reqPath else reqPath),
         (let d := if !cfg.caseSensitive then toLower (if cfg.unescapePath then unquote reqPath else reqPath)
                   else (if cfg.unescapePath then unquote reqPath else reqPath)
          if (!cfg.strictRouting && decide (d.length > 1) && (d.getLast? == some SLASH)) = true
          then trimRight d SLASH else d)) := by
      unfold configDependentPaths; rfl
    rw [hcd]
    simp only
    generalize (if (!cfg.strictRouting &&
        decide ((if (!cfg.caseSensitive) = true then toLower (if cfg.unescapePath = true then unquote reqPath else reqPath)
                 else if cfg.unescapePath = true then unquote reqPath else reqPath).length > 1) &&
        ((if (!cfg.caseSensitive) = true then toLower (if cfg.unescapePath = true then unquote reqPath else reqPath)
          else if cfg.unescapePath = true then unquote reqPath else reqPath).getLast? == some SLASH)) = true
      then trimRight (if (!cfg.caseSensitive) = true then toLower (if cfg.unescapePath = true then unquote reqPath else reqPath)
          else if cfg.unescapePath = true then unquote reqPath else reqPath) SLASH
      else (if (!cfg.caseSensitive) = true then toLower (if cfg.unescapePath = true then unquote reqPath else reqPath)
          else if cfg.unescapePath = true then unquote reqPath else reqPath)) = det
    generalize (if cfg.unescapePath = true then unquote reqPath else reqPath) = upath
    unfold routeMatch
    simp only [Bool.false_eq_true, if_false]
    generalize hpre : prettyPattern cfg pattern = pretty at *
    -- facts about the shortcuts
    have hA : pretty = [SLASH] → removeEscapeChar pretty = [SLASH] := by intro h; rw [h]; rfl
    by_cases hroot : removeEscapeChar pretty = [SLASH]
    · have hnp : ¬ (pp.params.length > 0) := hrootnp (by simp [hroot])
      have hnr : ¬ (pr.params.length > 0) := fun h => hnp (harity.mp h)
      have hstar : (pretty == [SLASH, STAR]) = false := by
        rw [beq_eq_false_iff_ne]; intro h; rw [h] at hroot; revert hroot; decide
      simp only [hroot, beq_self_eq_true, Bool.true_and, hstar, Bool.false_eq_true, if_false, hnp, hnr]
      by_cases hd : det = [SLASH]
      · subst hd; simp
      · have hd' : (det == [SLASH]) = false := beq_eq_false_iff_ne.mpr hd
        have hd'' : ([SLASH] == det) = false := beq_eq_false_iff_ne.mpr (fun h => hd h.symm)
        simp [hd', hd'']
    · have hroot' : (removeEscapeChar pretty == [SLASH]) = false := beq_eq_false_iff_ne.mpr hroot
      have hpr' : (pretty == [SLASH]) = false := by
        rw [beq_eq_false_iff_ne]; exact fun h => hroot (hA h)
      simp only [hroot', hpr', Bool.false_and, Bool.false_eq_true, if_false]
      by_cases hstar : pretty = [SLASH, STAR]
      · simp [hstar]
      · have hstar' : (pretty == [SLASH, STAR]) = false := beq_eq_false_iff_ne.mpr hstar
        simp only [hstar', Bool.false_eq_true, if_false]
        by_cases hp : pp.params.length > 0
        · have hq : pr.params.length > 0 := harity.mpr hp
          simp [hp, hq]
        · have hq : ¬ (pr.params.length > 0) := fun h => hp (harity.mp h)
          simp only [hp, hq, if_false]
          cases h : (removeEscapeChar pretty == det)
          · have : (det == removeEscapeChar pretty) = false := by
              rw [beq_eq_false_iff_ne] at h ⊢; exact fun hh => h hh.symm
            simp [this]
          · have : (det == removeEscapeChar pretty) = true := by
              rw [beq_iff_eq] at h ⊢; exact h.symm
            simp [this]
  · cases hr

/-! ## End to end: registration, request normalisation, `Route.match`, dispatch, RoutePatternMatch -/

theorem text_len_ge2 {p : Pat} (hwf : WFPat p = true) (hp : p.filter (·.isParam) ≠ []) : 2 ≤ (patText p).length := by
  obtain ⟨hok, _⟩ := wfPat_tokOK hwf
  obtain ⟨l', rest, rfl⟩ := wfPat_head hwf
  have hr : rest ≠ [] := by
    intro h; subst h; exact hp rfl
  have := List.length_pos_iff.mpr (patText_ne_nil (fun x hx => hok x (List.mem_cons_of_mem _ hx)) hr)
  rw [patText_cons]
  simp only [Tok.text, List.length_append, List.length_cons]
  omega

/-- The route `register` builds for a documented-syntax pattern, against the case-folded fill as
    detection path and an ARBITRARY user-visible path `upath`: `Route.match` succeeds; when `upath`
    has the length of the fill, the values written are its slices at the value positions. (For a
    longer `upath` – the fill plus ignored trailing slashes – `getMatch` still cuts the slices, only
    the catch-all shortcut of the pattern `/*` hands out the whole rest of the path.) Also the two
    parser facts `rpm_eq_single_route_dispatch` needs. -/
theorem served_route {chk : Constraint → Bytes → Bool} (cfg : Config) {p : Pat} {vals : List Bytes}
    (hwf : WFPat p = true) (hd : Delimited p = true)
    (hn : vals.length = (p.filter (·.isParam)).length)
    (hcl : CleanFill (foldPat cfg p) (foldVals cfg vals) = true)
    (htr : trailingOK cfg p vals = true) :
    ∃ r, register cfg false (patText p) = some r ∧
      ((r.params.length > 0) ↔ (r.parser.params.length > 0)) ∧
      (r.root = true → ¬ (r.parser.params.length > 0)) ∧
      ∀ upath : Bytes, ∃ vs, routeMatch chk r (foldBytes cfg (fill p vals)) upath = some vs ∧
        (upath.length = (fill p vals).length → vs = slicesOf p vals upath) := by
  obtain ⟨hok, hsh⟩ := wfPat_tokOK hwf
  have hokq := tokOK_prettyPat cfg hok
  have hshq : shapeOK (prettyPat cfg p) = true := by rw [shapeOK_pretty]; exact hsh
  obtain ⟨sr, hsr⟩ := segsOf_isSome hwf
  obtain ⟨sp, hsp⟩ := segsOf_isSome' hokq
  obtain ⟨hpretty, hraw⟩ := prettyPattern_text hwf htr
  rw [← patText_prettyPat] at hpretty
  have hclean : removeEscapeChar (patText (prettyPat cfg p)) = patText (prettyPat cfg p) :=
    removeEscapeChar_id _ (patText_noBSL _ hokq)
  have hreg : register cfg false (patText p) = some
      { pathRaw := patText p, path := patText (prettyPat cfg p), params := paramNames sr,
        parser := { segs := sp, params := paramNames sp }, use := false,
        star := patText (prettyPat cfg p) == [SLASH, STAR], root := patText (prettyPat cfg p) == [SLASH] } := by
    unfold register
    simp only [hraw, hpretty, hclean, parseRouteW_noLT _ (patText_noLT _ hokq), parseRoute_patText hwf,
      parseRoute_patText' hokq hshq, hsr, hsp, Option.map_some]
  have hlenr : (paramNames sr).length = (p.filter (·.isParam)).length := segsOf_params_len hsr
  have hlenp : (paramNames sp).length = (p.filter (·.isParam)).length := by
    rw [segsOf_params_len hsp, filter_isParam_pretty]
  refine ⟨_, hreg, by simp only [hlenr, hlenp], ?_, fun upath => ?_⟩
  · simp only [beq_iff_eq]
    intro hroot hpar
    rw [hlenp] at hpar
    have h2 := text_len_ge2 hwf (List.length_pos_iff.mp hpar)
    have := congrArg List.length hroot
    rw [patText_prettyPat, foldBytes_length] at this
    simp at this; omega
  -- the dispatch
  by_cases hnp : p.filter (·.isParam) = []
  · -- a single literal
    obtain ⟨l, rfl⟩ := wfPat_noParam hwf hnp
    have hv : vals = [] := List.eq_nil_of_length_eq_zero (by rw [hn, hnp]; rfl)
    subst hv
    have hT : patText (prettyPat cfg [Tok.lit l]) = foldBytes cfg l := by
      rw [patText_prettyPat]; simp [patText, Tok.text]
    have hF : fill [Tok.lit l] [] = l := by simp [fill]
    have hS : slicesOf [Tok.lit l] [] upath = [] := by simp [slicesOf]
    refine ⟨[], ?_, fun _ => hS.symm⟩
    unfold routeMatch
    simp only [hT, hF]
    split
    · rfl
    · have hstar : (foldBytes cfg l == [SLASH, STAR]) = false := by
        rw [beq_eq_false_iff_ne]
        intro h
        have := star_shape (cfg := cfg) hwf (by simpa [patText, Tok.text] using h)
        simp at this
      have hpl : ¬ ((paramNames sr).length > 0) := by rw [hlenr, hnp]; simp
      simp [hstar, hpl]
  · -- at least one parameter
    have h2 := text_len_ge2 hwf hnp
    have hroot : (patText (prettyPat cfg p) == [SLASH]) = false := by
      rw [beq_eq_false_iff_ne]
      intro h
      have := congrArg List.length h
      rw [patText_prettyPat, foldBytes_length] at this
      simp at this; omega
    by_cases hstar : patText (prettyPat cfg p) = [SLASH, STAR]
    · have hp := star_shape (cfg := cfg) hwf (by rw [← patText_prettyPat]; exact hstar)
      subst hp
      have hbeq : (patText (prettyPat cfg [Tok.lit [SLASH], Tok.star]) == [SLASH, STAR]) = true := by
        rw [hstar]; rfl
      have hrm : routeMatch chk
          { pathRaw := patText [Tok.lit [SLASH], Tok.star], path := patText (prettyPat cfg [Tok.lit [SLASH], Tok.star]),
            params := paramNames sr, parser := { segs := sp, params := paramNames sp }, use := false,
            star := patText (prettyPat cfg [Tok.lit [SLASH], Tok.star]) == [SLASH, STAR],
            root := patText (prettyPat cfg [Tok.lit [SLASH], Tok.star]) == [SLASH] }
          (foldBytes cfg (fill [Tok.lit [SLASH], Tok.star] vals)) upath = some [upath.drop 1] := by
        unfold routeMatch
        simp only [hroot, Bool.false_and, Bool.false_eq_true, if_false, hbeq, if_true]
      refine ⟨[upath.drop 1], hrm, fun huplen => ?_⟩
      match vals, hn, huplen with
      | [v], _, huplen =>
        simp only [fill, List.headD_cons, List.length_append, List.length_cons, List.length_nil] at huplen
        simp only [slicesOf, List.headD_cons, List.length_cons, List.length_nil]
        rw [List.take_of_length_le (by simp only [List.length_drop]; omega)]
    · have hbeq : (patText (prettyPat cfg p) == [SLASH, STAR]) = false := beq_eq_false_iff_ne.mpr hstar
      have hpl : (paramNames sr).length > 0 := by
        rw [hlenr]; exact List.length_pos_iff.mpr hnp
      refine ⟨slicesOf p vals upath, ?_, fun _ => rfl⟩
      unfold routeMatch
      simp only [hroot, Bool.false_and, Bool.false_eq_true, if_false, hbeq, hpl, if_true]
      -- the induction, on the routed token list
      obtain ⟨hcore, hm, hm2⟩ := segsOf_ok hsp
      rw [← fill_fold, ← fill_ren (foldBytes cfg), ← prettyPat_eq]
      exact getMatch_fill (chk := chk) (prettyPat cfg p) 0 0 sp (foldVals cfg vals) (slicesOf p vals upath) upath
        hcore hm hm2 (segsOf_partCount hsp)
        (by rw [prettyPat_eq, delimited_ren, foldPat_delimited]; exact hd)
        (by rw [prettyPat_eq]; exact litsEscFree_ren _ _ (foldPat_escFree cfg p (wfPat_escFree hwf)))
        (by rw [prettyPat_eq, cleanFillWith_ren]; exact hcl)
        (by rw [prettyPat_eq]; exact pathFor_ren _ _ _ _ _ (pathFor_slices cfg p vals upath hn))

/-- a request whose path is empty has an empty user-visible path -/
theorem upath_nil (cfg : Config) : (configDependentPaths cfg []).1 = [] := by
  unfold configDependentPaths; simp only; split <;> simp [unquote]

/-- **The filled path is served, end to end** (model of `app.Get(pattern)` + one request +
    `RoutePatternMatch`). For every configuration, every token list `p` of the documented syntax
    (`WFPat`) that is `Delimited`, every assignment `vals` that is clean in the property sentence's
    sense (`CleanFill`: no additional occurrence of a literal that follows a parameter), with
    `trailingOK` (without StrictRouting the fill does not end in a slash), and every request path
    `orig` whose user-visible form (percent-decoded iff UnescapePath) is the fill *up to the letter
    case the configuration ignores*:

    * registering the pattern text does not panic and yields a route `r`,
    * dispatching the request to an app holding only `r` (tree index, `Route.match` with its `/`,
      `/*` and parameter-free shortcuts, `getMatch`) matches and writes exactly the values as they
      stand in the request (`slicesOf`: the user-visible path cut at the value boundaries; these
      are `vals` themselves when the path is the fill as written, `fill_served_values`),
    * `RoutePatternMatch(orig, text, cfg)` is true.

    This closes the gap between the induction over segment lists (`fill_match_complete`) and
    the route the app really holds: the parser on the prettified text (`parseRoute_patText`), the
    case folding of literals and names, the trailing-slash trimming on both sides. Full strength
    since the repair of former known finding K1. -/
theorem fill_served {chk : Constraint → Bytes → Bool} (cfg : Config) {p : Pat} {vals : List Bytes}
    (orig : Bytes) (hwf : WFPat p = true) (hd : Delimited p = true)
    (hn : vals.length = (p.filter (·.isParam)).length)
    (hcl : CleanFill (foldPat cfg p) (foldVals cfg vals) = true)
    (htr : trailingOK cfg p vals = true)
    (horig : foldBytes cfg (configDependentPaths cfg orig).1 = foldBytes cfg (fill p vals)) :
    ∃ r, register cfg false (patText p) = some r ∧
      dispatch1 chk r (configDependentPaths cfg orig).2 (configDependentPaths cfg orig).1 =
        some (slicesOf p vals (configDependentPaths cfg orig).1) ∧
      routePatternMatch chk cfg orig (patText p) = some true := by
  obtain ⟨r, hreg, harity, hrootnp, hall⟩ := served_route (chk := chk) cfg hwf hd hn hcl htr
  have hdet := det_of_fill htr horig
  have huplen : (configDependentPaths cfg orig).1.length = (fill p vals).length := by
    have := congrArg List.length horig
    simpa [foldBytes_length] using this
  have hne : orig ≠ [] := by
    intro h
    subst h
    obtain ⟨l', rest, rfl⟩ := wfPat_head hwf
    rw [upath_nil] at huplen
    simp [fill] at huplen
  obtain ⟨vs, hvs, hsl⟩ := hall (configDependentPaths cfg orig).1
  have hdisp : routeMatch chk r (foldBytes cfg (fill p vals)) (configDependentPaths cfg orig).1 =
      some (slicesOf p vals (configDependentPaths cfg orig).1) := by rw [hvs, hsl huplen]
  refine ⟨r, hreg, ?_, ?_⟩
  · rw [dispatch1_eq_routeMatch hreg, hdet]
    exact hdisp
  · rw [rpm_eq_single_route_dispatch hreg orig hne harity hrootnp, dispatch1_eq_routeMatch hreg, hdet, hdisp]
    rfl

/-- request-side normalisation of "the fill plus trailing slashes" without StrictRouting -/
theorem det_of_fill_slashes {cfg : Config} {p : Pat} {vals : List Bytes} {orig : Bytes} (n : Nat)
    (hst : cfg.strictRouting = false) (hne : fill p vals ≠ [])
    (hlast : (fill p vals).getLast? ≠ some SLASH)
    (horig : foldBytes cfg (configDependentPaths cfg orig).1 =
      foldBytes cfg (fill p vals) ++ List.replicate n SLASH) :
    (configDependentPaths cfg orig).2 = foldBytes cfg (fill p vals) := by
  rw [det_eq_detOfPath cfg orig]
  generalize (configDependentPaths cfg orig).1 = upath at horig ⊢
  unfold detOfPath configDependentPaths
  simp only [Bool.false_eq_true, if_false]
  have hfold : ∀ x : Bytes, (if (!cfg.caseSensitive) = true then toLower x else x) = foldBytes cfg x := by
    intro x; unfold foldBytes; cases cfg.caseSensitive <;> rfl
  rw [hfold, horig]
  have hl2 : (foldBytes cfg (fill p vals)).getLast? ≠ some SLASH := fun hh => hlast (foldBytes_last_slash hh)
  have hne2 : foldBytes cfg (fill p vals) ≠ [] := by
    intro hh
    have := congrArg List.length hh
    rw [foldBytes_length] at this
    exact hne (List.eq_nil_of_length_eq_zero (by simpa using this))
  cases n with
  | zero =>
    simp only [List.replicate_zero, List.append_nil]
    split
    · exact trimRight_of_last_ne _ _ hl2
    · rfl
  | succ n =>
    have hlast' : (foldBytes cfg (fill p vals) ++ List.replicate (n + 1) SLASH).getLast? = some SLASH := by
      rw [List.replicate_succ', ← List.append_assoc, List.getLast?_append]; simp
    have hlen : (foldBytes cfg (fill p vals) ++ List.replicate (n + 1) SLASH).length > 1 := by
      have : (foldBytes cfg (fill p vals)).length ≥ 1 := by
        cases h : foldBytes cfg (fill p vals) with
        | nil => exact absurd h hne2
        | cons _ _ => simp
      simp; omega
    simp only [hst, Bool.not_false, hlen, decide_true, hlast', beq_self_eq_true, Bool.and_self, if_true]
    rw [trimRight_append_same, trimRight_of_last_ne _ _ hl2]

/-- **The decision ignores trailing slashes unless StrictRouting, on filled paths.** Without
    StrictRouting, for a documented-syntax token list, a clean assignment whose fill does not end in
    a slash, and every request whose user-visible path (decoded iff UnescapePath) is that fill – up
    to ignored letter case – followed by ANY number of slashes: the route is registered, the request
    is dispatched to it (`Route.match` succeeds) and `RoutePatternMatch` is true. (The values are
    claimed for the fill itself, `fill_served`; behind extra slashes `getMatch` still writes the
    slices, the catch-all shortcut of `/*` the whole rest of the path.) -/
theorem fill_slashes_served {chk : Constraint → Bytes → Bool} (cfg : Config) {p : Pat} {vals : List Bytes}
    (orig : Bytes) (n : Nat) (hwf : WFPat p = true) (hd : Delimited p = true)
    (hnv : vals.length = (p.filter (·.isParam)).length)
    (hcl : CleanFill (foldPat cfg p) (foldVals cfg vals) = true)
    (hst : cfg.strictRouting = false) (hlast : (fill p vals).getLast? ≠ some SLASH)
    (horig : foldBytes cfg (configDependentPaths cfg orig).1 =
      foldBytes cfg (fill p vals) ++ List.replicate n SLASH) :
    ∃ r vs, register cfg false (patText p) = some r ∧
      dispatch1 chk r (configDependentPaths cfg orig).2 (configDependentPaths cfg orig).1 = some vs ∧
      routePatternMatch chk cfg orig (patText p) = some true := by
  have htr : trailingOK cfg p vals = true := by
    unfold trailingOK
    simp only [Bool.or_eq_true, decide_eq_true_eq, bne_iff_ne, ne_eq]
    exact Or.inr hlast
  obtain ⟨r, hreg, harity, hrootnp, hall⟩ := served_route (chk := chk) cfg hwf hd hnv hcl htr
  have hfne : fill p vals ≠ [] := by
    obtain ⟨l', rest, rfl⟩ := wfPat_head hwf
    simp [fill]
  have hdet := det_of_fill_slashes n hst hfne hlast horig
  have hne : orig ≠ [] := by
    intro h
    subst h
    rw [upath_nil] at horig
    have := congrArg List.length horig
    simp only [foldBytes_length, List.length_nil, List.length_append, List.length_replicate] at this
    have : (fill p vals).length = 0 := by omega
    exact hfne (List.eq_nil_of_length_eq_zero this)
  obtain ⟨vs, hvs, _⟩ := hall (configDependentPaths cfg orig).1
  refine ⟨r, vs, hreg, ?_, ?_⟩
  · rw [dispatch1_eq_routeMatch hreg, hdet]
    exact hvs
  · rw [rpm_eq_single_route_dispatch hreg orig hne harity hrootnp, dispatch1_eq_routeMatch hreg, hdet, hvs]
    rfl

/-- non-vacuity: default configuration, `/Api/:Id-*` filled with `A7`, `b/c`; the request is in
    another letter case and adds three slashes -/
example :
    let cfg : Config := {}
    let p : Pat := [.lit (b "/Api/"), .named (b "Id") false, .lit (b "-"), .star]
    let vals := [b "A7", b "b/c"]
    let orig := b "/api/a7-B/c///"
    (WFPat p && Delimited p && CleanFill (foldPat cfg p) (foldVals cfg vals) && !cfg.strictRouting &&
     ((fill p vals).getLast? != some SLASH) &&
     (foldBytes cfg (configDependentPaths cfg orig).1 == foldBytes cfg (fill p vals) ++ List.replicate 3 SLASH) &&
     (match register cfg false (patText p) with
      | some r => dispatch1 (fun _ _ => true) r (configDependentPaths cfg orig).2 (configDependentPaths cfg orig).1 ==
            some [b "a7", b "B/c"] &&
          routePatternMatch (fun _ _ => true) cfg orig (patText p) == some true
      | none => false)) = true := by decide

/-- "…and Params returns exactly those values": when the user-visible path is the fill as written,
    the values written are `vals`. -/
theorem fill_served_values {chk : Constraint → Bytes → Bool} (cfg : Config) {p : Pat} {vals : List Bytes}
    (orig : Bytes) (hwf : WFPat p = true) (hd : Delimited p = true)
    (hn : vals.length = (p.filter (·.isParam)).length)
    (hcl : CleanFill (foldPat cfg p) (foldVals cfg vals) = true)
    (htr : trailingOK cfg p vals = true)
    (horig : (configDependentPaths cfg orig).1 = fill p vals) :
    ∃ r, register cfg false (patText p) = some r ∧
      dispatch1 chk r (configDependentPaths cfg orig).2 (configDependentPaths cfg orig).1 = some vals ∧
      routePatternMatch chk cfg orig (patText p) = some true := by
  obtain ⟨r, h1, h2, h3⟩ := fill_served (chk := chk) cfg orig hwf hd hn hcl htr (by rw [horig])
  refine ⟨r, h1, ?_, h3⟩
  rw [h2, horig, slicesOf_fill p vals hn]

/-- **Percent-decoding with UnescapePath: the filled path in ANY percent-encoding is served.** With
    UnescapePath, whichever bytes of the fill the client writes as `%XX` (hex digits in either letter
    case) – it has to encode `%` and `+`, which the decoder rewrites –, the user-visible path is the
    fill (`unquote_writePath`), so the route matches, the values come back exactly and
    `RoutePatternMatch` is true. -/
theorem fill_served_encoded {chk : Constraint → Bytes → Bool} (cfg : Config) {p : Pat} {vals : List Bytes}
    (ws : List Wr) (hwf : WFPat p = true) (hd : Delimited p = true)
    (hn : vals.length = (p.filter (·.isParam)).length)
    (hcl : CleanFill (foldPat cfg p) (foldVals cfg vals) = true)
    (htr : trailingOK cfg p vals = true)
    (hu : cfg.unescapePath = true) (hb : ∀ c ∈ fill p vals, c < 256) (hw : wrOK (fill p vals) ws = true) :
    ∃ r, register cfg false (patText p) = some r ∧
      dispatch1 chk r (configDependentPaths cfg (writePath (fill p vals) ws)).2
        (configDependentPaths cfg (writePath (fill p vals) ws)).1 = some vals ∧
      routePatternMatch chk cfg (writePath (fill p vals) ws) (patText p) = some true :=
  fill_served_values cfg _ hwf hd hn hcl htr
    (by rw [unescape_only_with_flag, hu]; exact unquote_writePath _ _ hb hw)

/-- non-vacuity: `/f/:x-*` filled with `a b`, `c/d`: the space, the dash and the second slash are sent
    percent-encoded (`%20`, `%2D`, `%2f`) -/
example :
    let cfg : Config := { unescapePath := true }
    let p : Pat := [.lit (b "/f/"), .named (b "x") false, .lit (b "-"), .star]
    let vals := [b "a b", b "c/d"]
    let ws : List Wr := [.raw, .raw, .raw, .raw, .pct false false, .raw, .pct true true, .raw, .pct false false]
    (WFPat p && Delimited p && CleanFill (foldPat cfg p) (foldVals cfg vals) && trailingOK cfg p vals &&
     decide (∀ c ∈ fill p vals, c < 256) && wrOK (fill p vals) ws &&
     (writePath (fill p vals) ws == b "/f/a%20b%2Dc%2fd")) = true := by decide

/-- non-vacuity: case-insensitive, non-strict; mixed-case pattern `/Api/:Id-*.x/+` (names and
    literals are folded by `register`; the literal `.x/` has a trailing slash), the request in yet
    another letter case: the values come back as the request wrote them -/
example :
    let cfg : Config := {}
    let p : Pat := [.lit (b "/Api/"), .named (b "Id") false, .lit (b "-"), .star, .lit (b ".x/"), .plus]
    let vals := [b "A7", b "b.c-d", b "e/F g"]
    let orig := b "/aPI/A7-b.C-d.X/e/F g"
    (WFPat p && Delimited p && CleanFill (foldPat cfg p) (foldVals cfg vals) &&
     trailingOK cfg p vals &&
     (foldBytes cfg (configDependentPaths cfg orig).1 == foldBytes cfg (fill p vals)) &&
     (match register cfg false (patText p) with
      | some r => dispatch1 (fun _ _ => true) r (configDependentPaths cfg orig).2 (configDependentPaths cfg orig).1 ==
          some [b "A7", b "b.C-d", b "e/F g"]
      | none => false)) = true := by decide

/-- **The witness of former known finding K1 is served** (strict, case-sensitive): named parameter
    followed by the literal dash-slash, value `a-b`. The fill creates no additional occurrence of the
    literal; the hypotheses of `fill_served_values` hold, the route matches, `x = a-b` comes back and
    `RoutePatternMatch` is true. (Before the repair the matcher cut the value at the first dash and
    answered 404.) -/
theorem former_K1_witness_served :
    let cfg : Config := { caseSensitive := true, strictRouting := true }
    let p : Pat := [.lit (b "/"), .named (b "x") false, .lit (b "-/")]
    let vals := [b "a-b"]
    (WFPat p && Delimited p && CleanFill (foldPat cfg p) (foldVals cfg vals) && trailingOK cfg p vals &&
     !cleanFillWith cmpOfConst (foldPat cfg p) (foldVals cfg vals) &&
     (match register cfg false (patText p) with
      | some r => routeMatch (fun _ _ => true) r (fill p vals) (fill p vals) == some vals &&
          routePatternMatch (fun _ _ => true) cfg (fill p vals) (patText p) == some true
      | none => false)) = true := by decide

/-- **`Params(name)` hands back the value written for that name** (ctx.go `Params`: first declared
    name equal to the key – exactly, or ignoring letter case unless CaseSensitive – decides): for a
    route whose declared names are pairwise distinct under that comparison, looking up every
    declared name in turn returns exactly the values `getMatch` wrote. Together with
    `fill_served` this is "Params returns exactly those values". (That the generated names
    of `*`/`+` parameters – `*1`, `*2`, `+1` … – are distinct is `declared_names_distinct` below;
    `fill_served_params` puts the two together.) -/
theorem params_return_values (cfg : Config) (names vals : List Bytes) (hlen : names.length = vals.length)
    (hdist : names.Pairwise (fun a c => nameMatch cfg a c = false)) :
    names.map (paramsLookup cfg names vals) = vals :=
  paramsLookup_distinct cfg [] names [] vals rfl hlen hdist

example :
    let names := [b "id", b "*1", b "+1"]
    (decide (names.Pairwise (fun a c => nameMatch {} a c = false)) &&
     names.map (paramsLookup {} names [b "7", [], b "x/y"]) == [b "7", [], b "x/y"]) = true := by decide

/-- **The names a documented-syntax route declares are pairwise distinct** under the comparison of
    `ctx.Params` as soon as the names the user wrote are: the generated names `*1, *2, … / +1, +2, …`
    (`analyseParameterPart`: `*` / `+` followed by the decimal counter) differ from each other
    (decimal rendering is injective, `natToDec_inj`; digits are not touched by case folding) and
    from every user name (those are alphanumeric, `WFPat`). -/
theorem declared_names_distinct (cfg : Config) {p : Pat} {r : Route} (hwf : WFPat p = true)
    (hr : register cfg false (patText p) = some r)
    (hnames : (userNames p).Pairwise (fun a c => nameMatch cfg a c = false)) :
    r.params.Pairwise (fun a c => nameMatch cfg a c = false) := by
  obtain ⟨sr, hsr, hpar⟩ := register_params hwf hr
  rw [hpar]
  exact segsOf_names_distinct cfg hwf hsr hnames

/-- **"…and Params returns exactly those values", by name, end to end.** Under the hypotheses of
    `fill_served_values` and pairwise distinct *user* names (no hypothesis on the generated names any
    more): the route is registered, the request is dispatched to it, and looking up every declared
    name with `ctx.Params` returns the values that were filled in, one by one. -/
theorem fill_served_params {chk : Constraint → Bytes → Bool} (cfg : Config) {p : Pat} {vals : List Bytes}
    (orig : Bytes) (hwf : WFPat p = true) (hd : Delimited p = true)
    (hn : vals.length = (p.filter (·.isParam)).length)
    (hcl : CleanFill (foldPat cfg p) (foldVals cfg vals) = true)
    (htr : trailingOK cfg p vals = true)
    (horig : (configDependentPaths cfg orig).1 = fill p vals)
    (hnames : (userNames p).Pairwise (fun a c => nameMatch cfg a c = false)) :
    ∃ r vs, register cfg false (patText p) = some r ∧
      dispatch1 chk r (configDependentPaths cfg orig).2 (configDependentPaths cfg orig).1 = some vs ∧
      r.params.map (paramsLookup cfg r.params vs) = vals := by
  obtain ⟨r, h1, h2, _⟩ := fill_served_values (chk := chk) cfg orig hwf hd hn hcl htr horig
  obtain ⟨sr, hsr, hpar⟩ := register_params hwf h1
  refine ⟨r, vals, h1, h2, ?_⟩
  rw [hpar]
  exact params_return_values cfg _ vals (by rw [segsOf_params_len hsr, hn])
    (segsOf_names_distinct cfg hwf hsr hnames)

/-- non-vacuity: two wildcards, a plus and two user names that differ only beyond letter case;
    the declared names are `a`, `*1`, `+1`, `*2`, `Ab` and every one answers with its own value -/
example :
    let cfg : Config := {}
    let p : Pat := [.lit (b "/"), .named (b "a") false, .lit (b "/"), .star, .lit (b "-"), .plus, .lit (b "."),
                    .star, .lit (b "/"), .named (b "Ab") true]
    let vals := [b "x", b "p/q", b "r", [], b "Z"]
    (WFPat p && Delimited p && CleanFill (foldPat cfg p) (foldVals cfg vals) && trailingOK cfg p vals &&
     decide ((userNames p).Pairwise (fun a c => nameMatch cfg a c = false)) &&
     (match register cfg false (patText p) with
      | some r => r.params == [b "a", b "*1", b "+1", b "*2", b "Ab"] &&
          (match dispatch1 (fun _ _ => true) r (configDependentPaths cfg (fill p vals)).2 (configDependentPaths cfg (fill p vals)).1 with
           | some vs => r.params.map (paramsLookup cfg r.params vs) == vals
           | none => false)
      | none => false)) = true := by decide

/-! ## RoutePatternMatch = dispatch for the documented syntax, without run-time hypotheses -/

theorem text_slash_noParam {q : Pat} (hok : ∀ t ∈ q, TokOK t) (h : patText q = [SLASH]) :
    q.filter (·.isParam) = [] := by
  cases q with
  | nil => rfl
  | cons t rest =>
    have hokt := hok t (List.mem_cons_self ..)
    have hokr : ∀ x ∈ rest, TokOK x := fun x hx => hok x (List.mem_cons_of_mem _ hx)
    rw [patText_cons] at h
    have hlen := congrArg List.length h
    simp only [List.length_append, List.length_cons, List.length_nil] at hlen
    have htl : 0 < t.text.length := List.length_pos_iff.mpr (tokText_ne_nil hokt)
    have hr : rest = [] := by
      by_cases hr : rest = []
      · exact hr
      · have := List.length_pos_iff.mpr (patText_ne_nil hokr hr); omega
    subst hr
    simp only [patText, List.flatMap_nil, List.append_nil] at h
    cases t with
    | lit l => rfl
    | named n o => simp [Tok.text, COLON, SLASH] at h
    | star => simp [Tok.text, STAR, SLASH] at h
    | plus => simp [Tok.text, PLUS, SLASH] at h

/-- **RoutePatternMatch answers exactly as dispatching the path to an app holding only that route —
    for every pattern of the documented syntax, with no further hypothesis.** The two parser facts
    `rpm_eq_single_route_dispatch` assumes (the pattern as written and the routed, possibly
    slash-trimmed and case-folded pattern agree on having parameters; a root pattern declares none)
    are proved here for every `WFPat` token list, every configuration: registration does not panic,
    and for every non-empty request path the two answers agree. (For raw pattern text outside the
    token syntax the two facts stay run-time validated, `hypViolated` in the driver.) -/
theorem rpm_eq_dispatch_documented {chk : Constraint → Bytes → Bool} (cfg : Config) {p : Pat}
    (hwf : WFPat p = true) (reqPath : Bytes) (hne : reqPath ≠ []) :
    ∃ r, register cfg false (patText p) = some r ∧
      routePatternMatch chk cfg reqPath (patText p) =
        some (dispatch1 chk r (configDependentPaths cfg reqPath).2 (configDependentPaths cfg reqPath).1).isSome := by
  obtain ⟨hok, hsh⟩ := wfPat_tokOK hwf
  have hokq := tokOK_prettyPat cfg hok
  have hshq : shapeOK (prettyPat cfg p) = true := by rw [shapeOK_pretty]; exact hsh
  obtain ⟨sr, hsr⟩ := segsOf_isSome hwf
  -- the routed text is the text of a well-formed token list with as many parameters
  obtain ⟨l', rest, hp⟩ := wfPat_head hwf
  obtain ⟨T', hT⟩ : ∃ T', patText p = SLASH :: T' := by rw [hp, patText_cons]; exact ⟨_, rfl⟩
  have hraw : rawPattern (patText p) = patText p := by rw [hT]; unfold rawPattern; simp
  obtain ⟨q', hokq', hshq', htext, hcount⟩ : ∃ q', (∀ t ∈ q', TokOK t) ∧ shapeOK q' = true ∧
      patText q' = prettyPattern cfg (patText p) ∧
      (q'.filter (·.isParam)).length = (p.filter (·.isParam)).length := by
    have hpp : prettyPattern cfg (patText p) =
        if (!cfg.strictRouting && decide ((foldBytes cfg (patText p)).length > 1)) = true
        then trimRight (foldBytes cfg (patText p)) SLASH else foldBytes cfg (patText p) := by
      rw [hT]
      unfold prettyPattern
      simp only [List.isEmpty_cons, Bool.false_eq_true, if_false, List.headD_cons, bne_self_eq_false]
      have hfold : (if (!cfg.caseSensitive) = true then toLower (SLASH :: T') else SLASH :: T') =
          foldBytes cfg (SLASH :: T') := by
        unfold foldBytes; cases cfg.caseSensitive <;> rfl
      rw [hfold]
    rw [hpp, ← patText_prettyPat]
    split
    · obtain ⟨q', h1, h2, h3, h4⟩ := trim_text hokq hshq
      exact ⟨q', h1, h2, h3, by rw [h4, filter_isParam_pretty]⟩
    · exact ⟨prettyPat cfg p, hokq, hshq, rfl, filter_isParam_pretty cfg p⟩
  obtain ⟨sp, hsp⟩ := segsOf_isSome' hokq'
  have hclean : removeEscapeChar (patText q') = patText q' := removeEscapeChar_id _ (patText_noBSL _ hokq')
  have hreg : register cfg false (patText p) = some
      { pathRaw := patText p, path := patText q', params := paramNames sr,
        parser := { segs := sp, params := paramNames sp }, use := false,
        star := patText q' == [SLASH, STAR], root := patText q' == [SLASH] } := by
    unfold register
    simp only [hraw, ← htext, hclean, parseRouteW_noLT _ (patText_noLT _ hokq'), parseRoute_patText hwf,
      parseRoute_patText' hokq' hshq', hsr, hsp, Option.map_some]
  have hlenr : (paramNames sr).length = (p.filter (·.isParam)).length := segsOf_params_len hsr
  have hlenp : (paramNames sp).length = (p.filter (·.isParam)).length := by
    rw [segsOf_params_len hsp, hcount]
  refine ⟨_, hreg, ?_⟩
  exact rpm_eq_single_route_dispatch hreg reqPath hne (by simp only [hlenr, hlenp])
    (by
      simp only [beq_iff_eq]
      intro hroot hpar
      rw [segsOf_params_len hsp, text_slash_noParam hokq' hroot] at hpar
      simp at hpar)

/-- non-vacuity: pattern `/Shop/:id?/` (trailing slash, optional parameter, upper case) -/
example :
    let p : Pat := [.lit (b "/Shop/"), .named (b "id") true, .lit (b "/")]
    (WFPat p && (match register {} false (patText p) with
      | some r => (routePatternMatch (fun _ _ => true) {} (b "/shop") (patText p) ==
          some (dispatch1 (fun _ _ => true) r (configDependentPaths {} (b "/shop")).2 (configDependentPaths {} (b "/shop")).1).isSome)
          && routePatternMatch (fun _ _ => true) {} (b "/shop") (patText p) == some true
      | none => false)) = true := by decide

/-- `/:x/:x/…/:x` with `n` parameters -/
def slashPat : Nat → Pat
  | 0 => []
  | n + 1 => .lit [SLASH] :: .named [120] false :: slashPat n

def strictCS : Config := { caseSensitive := true, strictRouting := true, unescapePath := false }

set_option maxRecDepth 1000000 in
/-- the hypotheses of `fill_served_values` on `/:x/…/:x` filled with `a`, for 1 … 41 parameters -/
theorem slashPat_hyps : ∀ n ∈ List.range 41,
    WFPat (slashPat (n + 1)) = true ∧ Delimited (slashPat (n + 1)) = true ∧
    CleanFill (foldPat strictCS (slashPat (n + 1))) (foldVals strictCS (List.replicate (n + 1) [97])) = true ∧
    trailingOK strictCS (slashPat (n + 1)) (List.replicate (n + 1) [97]) = true ∧
    nparams (slashPat (n + 1)) = n + 1 ∧
    (List.replicate (n + 1) [97]).length = ((slashPat (n + 1)).filter (·.isParam)).length := by decide

/-- **The completeness theorems carry no bound on the number of parameters.** `fill_served` quantifies
    over every token list; this is the witness that the statement is not vacuous at and beyond fiber's
    `maxParams` = 30: for every parameter count 1 … 41 the model registers the strict, case-sensitive
    route `/:x/:x/…/:x`, dispatches the path `/a/a/…/a` to it with exactly the values written and
    answers RoutePatternMatch with true. Real fiber serves such patterns up to 30 parameters and refuses
    to register more (`router.go`); that bound is therefore held by the oracle and the driver
    (`C03.maxParams`, every run draws patterns with 28, 29, 30 and 31 parameters), not by the model. -/
theorem fill_served_many_params {chk : Constraint → Bytes → Bool} (n : Nat) (h : n < 41) :
    nparams (slashPat (n + 1)) = n + 1 ∧
    ∃ r, register strictCS false (patText (slashPat (n + 1))) = some r ∧
      dispatch1 chk r (fill (slashPat (n + 1)) (List.replicate (n + 1) [97]))
        (fill (slashPat (n + 1)) (List.replicate (n + 1) [97])) = some (List.replicate (n + 1) [97]) ∧
      routePatternMatch chk strictCS (fill (slashPat (n + 1)) (List.replicate (n + 1) [97]))
        (patText (slashPat (n + 1))) = some true := by
  obtain ⟨hwf, hd, hcl, htr, hnp, hlen⟩ := slashPat_hyps n (List.mem_range.mpr h)
  refine ⟨hnp, ?_⟩
  have hc : configDependentPaths strictCS (fill (slashPat (n + 1)) (List.replicate (n + 1) [97])) =
      (fill (slashPat (n + 1)) (List.replicate (n + 1) [97]), fill (slashPat (n + 1)) (List.replicate (n + 1) [97])) := by
    simp [configDependentPaths, strictCS]
  have := fill_served_values (chk := chk) strictCS (fill (slashPat (n + 1)) (List.replicate (n + 1) [97]))
    hwf hd hlen hcl htr (by rw [hc])
  rw [hc] at this
  exact this

/-- non-vacuity: the 30th and the 31st parameter count are among the instances -/
example : nparams (slashPat 30) = 30 ∧ nparams (slashPat 31) = 31 ∧ maxParams = 30 := by decide

end C03
