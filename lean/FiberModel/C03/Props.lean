import FiberModel.C03.Complete
import FiberModel.C03.Known
import FiberModel.C02.Props
/-
C03 — property theorems (only).

Staging of the completeness statement as in DESIGN §6 C03:
  (i)    non-greedy parameter followed by a literal, non-greedy / greedy last parameter   — proved
  (ii-a) greedy parameter followed by a literal whose search text occurs once in the rest  — proved
  (ii-b) greedy parameter whose literal re-occurs later (`findGreedyParamLen`)             — NOT proved;
         covered only by the exhaustive small-scope enumeration and the random stream (tests).
Hence the main theorem is `fill_match_complete_partial`; the full statement is in its comment.
-/
namespace C03
open B C02

/-! ### normalisation commutes with filling -/

def foldBytes (cfg : Config) (s : Bytes) : Bytes := if cfg.caseSensitive then s else toLower s

/-- **normalise_commutes (letter case).** Case-folding a filled path is filling the case-folded
    pattern with the case-folded values. -/
theorem fill_fold (cfg : Config) : (p : Pat) → (vals : List Bytes) →
    fill (foldPat cfg p) (foldVals cfg vals) = foldBytes cfg (fill p vals)
  | [], vals => by
    unfold foldPat foldBytes fill
    cases cfg.caseSensitive <;> simp [fill, toLower]
  | t :: rest, vals => by
    have ih := fill_fold cfg rest
    unfold foldPat foldVals foldBytes at *
    cases hcs : cfg.caseSensitive
    · simp only [hcs, Bool.false_eq_true, if_false] at ih ⊢
      cases t with
      | lit l =>
        simp only [List.map_cons, foldTok, hcs, Bool.false_eq_true, if_false, fill]
        rw [ih, toLower_append]
      | named n o =>
        simp only [List.map_cons, foldTok, fill]
        rw [toLower_append, ← ih vals.tail]
        cases vals <;> simp [toLower]
      | star =>
        simp only [List.map_cons, foldTok, fill]
        rw [toLower_append, ← ih vals.tail]
        cases vals <;> simp [toLower]
      | plus =>
        simp only [List.map_cons, foldTok, fill]
        rw [toLower_append, ← ih vals.tail]
        cases vals <;> simp [toLower]
    · simp only [hcs, if_true] at ih ⊢
      cases t <;> simp [foldTok, hcs, fill, ih]

/-- The user-visible path `fill p vals` (plus anything behind it, e.g. ignored trailing slashes)
    carries the values `vals` at the value positions of the case-folded fill. -/
theorem pathFor_fill (cfg : Config) : (p : Pat) → (vals : List Bytes) → (extra : Bytes) →
    vals.length = (p.filter (·.isParam)).length →
    PathFor (foldPat cfg p) (foldVals cfg vals) vals (fill p vals ++ extra)
  | [], vals, extra, h => by
    simp at h
    unfold foldPat PathFor
    simpa using h
  | .lit l :: rest, vals, extra, h => by
    have ih := pathFor_fill cfg rest vals extra (by simpa [Tok.isParam] using h)
    unfold foldPat at *
    simp only [List.map_cons, foldTok, PathFor, fill]
    have : (if cfg.caseSensitive then l else toLower l).length = l.length := by
      split <;> simp [toLower]
    rw [this, List.append_assoc, List.drop_left]
    exact ih
  | .named n o :: rest, vals, extra, h => pathFor_param cfg (by rfl) rest vals extra h (pathFor_fill cfg rest)
  | .star :: rest, vals, extra, h => pathFor_param cfg (by rfl) rest vals extra h (pathFor_fill cfg rest)
  | .plus :: rest, vals, extra, h => pathFor_param cfg (by rfl) rest vals extra h (pathFor_fill cfg rest)
where
  pathFor_param (cfg : Config) {t : Tok} (ht : t.isParam = true) (rest : Pat) (vals : List Bytes) (extra : Bytes)
      (h : vals.length = ((t :: rest).filter (·.isParam)).length)
      (ih : ∀ (vals : List Bytes) (extra : Bytes), vals.length = (rest.filter (·.isParam)).length →
        PathFor (foldPat cfg rest) (foldVals cfg vals) vals (fill rest vals ++ extra)) :
      PathFor (foldPat cfg (t :: rest)) (foldVals cfg vals) vals (fill (t :: rest) vals ++ extra) := by
    cases vals with
    | nil => simp [List.filter, ht] at h
    | cons v vs =>
      have h' : vs.length = (rest.filter (·.isParam)).length := by
        simp [List.filter, ht] at h; exact h
      have ih' := ih vs extra h'
      have hft : foldTok cfg t = t := by cases t <;> simp [foldTok, Tok.isParam] at ht ⊢
      have hfv : foldVals cfg (v :: vs) = (foldBytes cfg v) :: foldVals cfg vs := by
        unfold foldVals foldBytes; cases cfg.caseSensitive <;> simp
      have hlen : (foldBytes cfg v).length = v.length := by
        unfold foldBytes; split <;> simp [toLower]
      unfold foldPat at *
      simp only [List.map_cons, hft, hfv]
      rw [fill_param t rest v vs ht]
      have : PathFor (t :: List.map (foldTok cfg) rest) (foldBytes cfg v :: foldVals cfg vs) (v :: vs)
          (v ++ fill rest vs ++ extra) =
          ((v ++ fill rest vs ++ extra).take (foldBytes cfg v).length = v ∧
           PathFor (List.map (foldTok cfg) rest) (foldVals cfg vs) vs
             ((v ++ fill rest vs ++ extra).drop (foldBytes cfg v).length)) := by
        cases t <;> simp [PathFor, Tok.isParam] at ht ⊢
      rw [this, hlen, List.append_assoc, List.take_left, List.drop_left]
      exact ⟨rfl, ih'⟩

theorem foldPat_delimited (cfg : Config) : (p : Pat) → Delimited (foldPat cfg p) = Delimited p
  | [] => rfl
  | t :: rest => by
    have ih := foldPat_delimited cfg rest
    unfold foldPat at *
    simp only [List.map_cons, Delimited, ih]
    have h1 : (foldTok cfg t).isParam = t.isParam := by cases t <;> rfl
    have h2 : delimNext (List.map (foldTok cfg) rest) = delimNext rest := by
      cases rest with
      | nil => rfl
      | cons t2 r2 =>
        cases t2 with
        | lit l =>
          simp only [List.map_cons, foldTok, delimNext]
          cases l with
          | nil => cases cfg.caseSensitive <;> rfl
          | cons c cs =>
            cases hcs : cfg.caseSensitive
            · simp only [Bool.false_eq_true, if_false, toLower, List.map_cons, startsWithDelim]
              unfold lowerByte isUpper
              split
              · rename_i h
                simp only [Bool.and_eq_true, decide_eq_true_eq] at h
                have e1 : (c == SLASH) = false := by rw [beq_eq_false_iff_ne]; show c ≠ 47; omega
                have e2 : (c == DASH) = false := by rw [beq_eq_false_iff_ne]; show c ≠ 45; omega
                have e3 : (c == DOT) = false := by rw [beq_eq_false_iff_ne]; show c ≠ 46; omega
                have f1 : (c + 32 == SLASH) = false := by rw [beq_eq_false_iff_ne]; show c + 32 ≠ 47; omega
                have f2 : (c + 32 == DASH) = false := by rw [beq_eq_false_iff_ne]; show c + 32 ≠ 45; omega
                have f3 : (c + 32 == DOT) = false := by rw [beq_eq_false_iff_ne]; show c + 32 ≠ 46; omega
                simp [e1, e2, e3, f1, f2, f3]
              · rfl
            · simp
        | named _ _ => rfl
        | star => rfl
        | plus => rfl
    rw [h1, h2]

theorem foldPat_escFree (cfg : Config) (p : Pat) (h : litsEscFree p) : litsEscFree (foldPat cfg p) := by
  intro t ht l hl
  unfold foldPat at ht
  obtain ⟨t0, ht0, hmap⟩ := List.mem_map.mp ht
  subst hl
  cases t0 with
  | lit l0 =>
    simp only [foldTok, Tok.lit.injEq] at hmap
    have h0 := h (.lit l0) ht0 l0 rfl
    subst hmap
    split
    · exact h0
    · cases hc : (toLower l0).contains BSL
      · rfl
      · exfalso
        have hm := List.contains_iff_mem.mp hc
        unfold toLower at hm
        obtain ⟨x, hx, hxe⟩ := List.mem_map.mp hm
        have : x = BSL := by
          unfold lowerByte isUpper at hxe
          split at hxe
          · rename_i hh
            simp only [Bool.and_eq_true, decide_eq_true_eq] at hh
            have : BSL = 92 := rfl
            omega
          · exact hxe
        subst this
        have := List.contains_iff_mem.mpr hx
        rw [h0] at this; cases this
  | named _ _ => simp [foldTok] at hmap
  | star => simp [foldTok] at hmap
  | plus => simp [foldTok] at hmap

/-! ## Completeness -/

/-- **fill → match completeness, stages (i) and (ii-a).**

    Full statement (DESIGN): `Delimited p → CleanFill p vals → getMatch (parse p) (fill p vals) = some vals`.
    Proved here under two further hypotheses, both decidable and both reported per case by the driver:
    * `CleanFillCmp` instead of `CleanFill`: the occurrence condition is taken for the literal
      *without its trailing slashes* (what the matcher searches for). Where the two differ is
      known finding K1 (`fill_match_witness_K1`).
    * `greedyOnce`: behind a greedy parameter the following literal's search text occurs only once
      in the rest of the path — stage (ii-b) (`findGreedyParamLen`, literal re-occurring later) is
      not proved; it is covered by the exhaustive enumeration / random stream only (a test).

    For every configuration (case folding), every token list `p` (with segment list `segs`), every
    value assignment `vals` and anything (`extra`) behind the filled path – e.g. trailing slashes
    the configuration ignores: on the case-folded fill as detection path and the fill as written as
    user path, `getMatch` succeeds and reports exactly `vals`. -/
theorem fill_match_complete_partial {chk : Constraint → Bytes → Bool} (cfg : Config)
    {p : Pat} {vals : List Bytes} {segs : List Seg} (extra : Bytes)
    (hs : segsOf (foldPat cfg p) = some segs)
    (hd : Delimited p = true) (hesc : litsEscFree p)
    (hn : vals.length = (p.filter (·.isParam)).length)
    (hcl : CleanFillCmp (foldPat cfg p) (foldVals cfg vals) = true)
    (hgo : greedyOnce cmpOfConst (foldPat cfg p) (foldVals cfg vals) = true) :
    getMatch chk segs (foldBytes cfg (fill p vals)) (fill p vals ++ extra) false = some vals := by
  obtain ⟨hcore, hm, hm2⟩ := segsOf_ok hs
  rw [← fill_fold]
  exact getMatch_fill (foldPat cfg p) 0 0 segs _ vals _ hcore hm hm2
    (by rw [foldPat_delimited]; exact hd) (foldPat_escFree cfg p hesc) hcl hgo
    (pathFor_fill cfg p vals extra hn)

/-- non-vacuity: `/api/:x-:y?/files/*` filled with `Ab`, ``, `a/b.txt` under the default
    (case-insensitive) configuration -/
example :
    let p : Pat := [.lit (b "/api/"), .named (b "x") false, .lit (b "-"), .named (b "y") true,
                    .lit (b "/files/"), .star]
    let vals := [b "Ab", [], b "a/b.txt"]
    (Delimited p && CleanFillCmp (foldPat {} p) (foldVals {} vals) &&
     greedyOnce cmpOfConst (foldPat {} p) (foldVals {} vals) &&
     (match segsOf (foldPat {} p) with
      | some segs => getMatch (fun _ _ => true) segs (foldBytes {} (fill p vals)) (fill p vals) false == some vals
      | none => false)) = true := by decide

/-- Where the sentence's `CleanFill` holds and the region of known finding K1 is left, the
    matcher-side condition holds. -/
theorem cleanFill_not_K1 (cfg : Config) (p : Pat) (vals : List Bytes)
    (h : CleanFill (foldPat cfg p) (foldVals cfg vals) = true) (hk : Known.K1 cfg p vals = false) :
    CleanFillCmp (foldPat cfg p) (foldVals cfg vals) = true := by
  unfold Known.K1 at hk
  rw [h] at hk
  simpa using hk

/-- K1 witness (strict, case-sensitive): named parameter followed by the literal dash-slash,
    value `a-b`. The fill creates no additional occurrence of the literal, yet the route does not
    match, because the matcher looks for the literal without its trailing slash. -/
theorem fill_match_witness_K1 :
    let cfg : Config := { caseSensitive := true, strictRouting := true }
    let p : Pat := [.lit (b "/"), .named (b "x") false, .lit (b "-/")]
    let vals := [b "a-b"]
    (WFPat p && Delimited p && CleanFill (foldPat cfg p) (foldVals cfg vals) && Known.K1 cfg p vals &&
     (match register cfg false (patText p) with
      | some r => routeMatch (fun _ _ => true) r (fill p vals) (fill p vals) == none
      | none => false)) = true := by decide

/-! ## The decision under the configuration -/

/-- **Letter case is ignored unless CaseSensitive:** two request paths that differ only in letter
    case get the same detection path. -/
theorem case_ignored (cfg : Config) (hcs : cfg.caseSensitive = false) (hu : cfg.unescapePath = false)
    (a c : Bytes) (h : toLower a = toLower c) :
    (configDependentPaths cfg a).2 = (configDependentPaths cfg c).2 := by
  unfold configDependentPaths
  simp [hcs, hu, h]

theorem trimRight_append_same (s : Bytes) (c : Nat) (n : Nat) :
    trimRight (s ++ List.replicate n c) c = trimRight s c := by
  unfold trimRight
  rw [List.reverse_append, List.reverse_replicate]
  congr 1
  induction n with
  | zero => simp
  | succ n ih => simp [List.replicate_succ, ih]

theorem trimRight_of_last_ne (s : Bytes) (c : Nat) (h : s.getLast? ≠ some c) : trimRight s c = s := by
  unfold trimRight
  cases hr : s.reverse with
  | nil => simp [List.reverse_eq_nil_iff.mp hr]
  | cons x xs =>
    have hx : s.getLast? = some x := by
      rw [List.getLast?_eq_head?_reverse, hr]; rfl
    have : (x == c) = false := by
      rw [beq_eq_false_iff_ne]; intro hh; subst hh; exact h hx
    simp only [List.dropWhile_cons, this, Bool.false_eq_true, if_false]
    rw [← hr, List.reverse_reverse]

/-- **A trailing slash is ignored unless StrictRouting:** a request path that does not end in a
    slash and the same path with any number of slashes appended get the same detection path. -/
theorem trailing_slash_ignored (cfg : Config) (hst : cfg.strictRouting = false) (hu : cfg.unescapePath = false)
    (orig : Bytes) (hne : orig ≠ []) (hl : orig.getLast? ≠ some SLASH) (n : Nat) :
    (configDependentPaths cfg (orig ++ List.replicate n SLASH)).2 = (configDependentPaths cfg orig).2 := by
  have key : ∀ (s : Bytes), s ≠ [] → s.getLast? ≠ some SLASH →
      (if (!cfg.strictRouting && decide ((s ++ List.replicate n SLASH).length > 1) &&
            ((s ++ List.replicate n SLASH).getLast? == some SLASH)) = true
       then trimRight (s ++ List.replicate n SLASH) SLASH else s ++ List.replicate n SLASH) =
      (if (!cfg.strictRouting && decide (s.length > 1) && (s.getLast? == some SLASH)) = true
       then trimRight s SLASH else s) := by
    intro s hs hls
    have h2 : (s.getLast? == some SLASH) = false := by
      rw [beq_eq_false_iff_ne]; exact hls
    simp only [h2, Bool.and_false, Bool.false_eq_true, if_false]
    cases n with
    | zero => simp [h2]
    | succ n =>
      have hlast : (s ++ List.replicate (n + 1) SLASH).getLast? = some SLASH := by
        rw [List.replicate_succ', ← List.append_assoc, List.getLast?_append]; simp
      have hlen : (s ++ List.replicate (n + 1) SLASH).length > 1 := by
        have : s.length ≥ 1 := by
          cases s with
          | nil => exact absurd rfl hs
          | cons _ _ => simp
        simp; omega
      simp only [hst, Bool.not_false, hlen, decide_true, hlast, beq_self_eq_true, Bool.and_self, if_true]
      rw [trimRight_append_same, trimRight_of_last_ne s SLASH hls]
  unfold configDependentPaths
  simp only [hu, Bool.false_eq_true, if_false]
  cases hcs : cfg.caseSensitive
  · simp only [Bool.not_false, if_true]
    have hmap : toLower (orig ++ List.replicate n SLASH) = toLower orig ++ List.replicate n SLASH := by
      rw [toLower_append]
      congr 1
      unfold toLower
      rw [List.map_replicate]
      rfl
    rw [hmap]
    apply key
    · intro h; apply hne
      unfold toLower at h
      exact List.map_eq_nil_iff.mp h
    · intro h
      apply hl
      unfold toLower at h
      rw [List.getLast?_map] at h
      cases hg : orig.getLast? with
      | none => rw [hg] at h; cases h
      | some x =>
        rw [hg] at h
        simp only [Option.map_some, Option.some.injEq] at h
        have : x = SLASH := by
          unfold lowerByte isUpper at h
          split at h
          · rename_i hh
            simp only [Bool.and_eq_true, decide_eq_true_eq] at hh
            have : SLASH = 47 := rfl
            omega
          · exact h
        rw [this]
  · simp only [Bool.not_true, Bool.false_eq_true, if_false]
    exact key orig hne hl

/-- **Percent-decoding applies only with UnescapePath.** -/
theorem unescape_only_with_flag (cfg : Config) (orig : Bytes) :
    (configDependentPaths cfg orig).1 = if cfg.unescapePath then unquote orig else orig := by
  unfold configDependentPaths; rfl

/-! ## RoutePatternMatch = single-route dispatch -/

/-- **The tree index is transparent for a single route** (uses C02's locality lemma and the repaired
    `buildTree` key): dispatching to an app that holds only `r` is `Route.match`. -/
theorem dispatch1_eq_routeMatch {chk : Constraint → Bytes → Bool} {cfg : Config} {use : Bool} {pattern : Bytes}
    {r : Route} (hr : register cfg use pattern = some r) (det path : Bytes) :
    dispatch1 chk r det path = routeMatch chk r det path := by
  unfold dispatch1
  split
  · rfl
  · rename_i hcond
    cases hm : routeMatch chk r det path with
    | none => rfl
    | some vs =>
      exfalso
      apply hcond
      simp only [Bool.or_eq_true, beq_iff_eq]
      cases hsegs : r.parser.segs with
      | nil => left; unfold routeTreeKey; rw [hsegs]
      | cons s0 rest =>
        by_cases hk : (decide (s0.const.length ≥ 3) && (decide (s0.const.length > 3) || !s0.hasOptionalSlash)) = true
        · right
          have h3 : s0.const.length ≥ 3 := by
            simp only [Bool.and_eq_true, decide_eq_true_eq] at hk; exact hk.1
          have hno : ¬ (s0.const.length = 3 ∧ s0.hasOptionalSlash = true) := by
            intro ⟨h1, h2⟩
            simp only [Bool.and_eq_true, decide_eq_true_eq, Bool.or_eq_true, Bool.not_eq_true'] at hk
            rcases hk.2 with h | h
            · omega
            · rw [h2] at h; cases h
          have hc : s0.isParam = false := by
            cases hp : s0.isParam
            · rfl
            · exfalso
              obtain ⟨_, pp, hpp, hpe⟩ := register_use hr
              have := parseRoute_param_const hpp s0 (by rw [← hpe, hsegs]; exact List.mem_cons_self ..) hp
              rw [this] at h3; simp at h3
          exact match_same_bucket hr hsegs hc h3 hno hm
        · left
          unfold routeTreeKey
          rw [hsegs]
          simp only [hk, Bool.false_eq_true, if_false]

/-- **RoutePatternMatch answers exactly as dispatching the path to an app holding only that route**
    (for the repaired `RoutePatternMatch`, `fix:` commits a94e154 and c0ae1a8, and the repaired
    catch-all shortcut a0d0533). Hypotheses: the request path is non-empty (always true on the
    wire); the pattern as written and the configuration-normalised pattern agree on whether there
    are parameters (`harity` — the same text with CaseSensitive+StrictRouting; checked at run time
    otherwise); a pattern whose escape-free text is "/" declares no parameters (`hrootnp`, checked
    at run time); no custom constraints are registered on the app (RoutePatternMatch cannot know
    them: the same verdict function `chk` on both sides). -/
theorem rpm_eq_single_route_dispatch {chk : Constraint → Bytes → Bool} {cfg : Config} {pattern : Bytes}
    {r : Route} (hr : register cfg false pattern = some r) (reqPath : Bytes) (hne : reqPath ≠ [])
    (harity : (r.params.length > 0) ↔ (r.parser.params.length > 0))
    (hrootnp : r.root = true → ¬ (r.parser.params.length > 0)) :
    routePatternMatch chk cfg reqPath pattern =
      some (dispatch1 chk r (configDependentPaths cfg reqPath).2 (configDependentPaths cfg reqPath).1).isSome := by
  rw [dispatch1_eq_routeMatch hr]
  unfold register at hr
  simp only at hr
  split at hr
  · rename_i pr pp hpr hpp
    cases hr
    simp only at harity hrootnp
    -- the detection path RoutePatternMatch computes is configDependentPaths'
    have hdet : ∀ (s : Bytes),
        (if (!cfg.strictRouting && decide (s.length > 1)) = true then trimRight s SLASH else s) =
        (if (!cfg.strictRouting && decide (s.length > 1) && (s.getLast? == some SLASH)) = true
         then trimRight s SLASH else s) := by
      intro s
      by_cases hl : s.getLast? = some SLASH
      · simp [hl]
      · have : (s.getLast? == some SLASH) = false := beq_eq_false_iff_ne.mpr hl
        simp only [this, Bool.and_false, Bool.false_eq_true, if_false]
        split
        · exact trimRight_of_last_ne s SLASH hl
        · rfl
    have hne' : (if reqPath.isEmpty then [SLASH] else reqPath) = reqPath := by
      cases reqPath with
      | nil => exact absurd rfl hne
      | cons _ _ => rfl
    unfold routePatternMatch
    simp only [hne', hpp]
    rw [hdet]
    have hcd : configDependentPaths cfg reqPath =
        ((if cfg.unescapePath then unquote reqPath else reqPath),
         (let d := if !cfg.caseSensitive then toLower (if cfg.unescapePath then unquote reqPath else reqPath)
                   else (if cfg.unescapePath then unquote reqPath else reqPath)
          if (!cfg.strictRouting && decide (d.length > 1) && (d.getLast? == some SLASH)) = true
          then trimRight d SLASH else d)) := by
      unfold configDependentPaths; rfl
    rw [hcd]
    simp only
    generalize (if (!cfg.strictRouting &&
        decide ((if (!cfg.caseSensitive) = true then toLower (if cfg.unescapePath = true then unquote reqPath else reqPath)
                 else if cfg.unescapePath = true then unquote reqPath else reqPath).length > 1) &&
        ((if (!cfg.caseSensitive) = true then toLower (if cfg.unescapePath = true then unquote reqPath else reqPath)
          else if cfg.unescapePath = true then unquote reqPath else reqPath).getLast? == some SLASH)) = true
      then trimRight (if (!cfg.caseSensitive) = true then toLower (if cfg.unescapePath = true then unquote reqPath else reqPath)
          else if cfg.unescapePath = true then unquote reqPath else reqPath) SLASH
      else (if (!cfg.caseSensitive) = true then toLower (if cfg.unescapePath = true then unquote reqPath else reqPath)
          else if cfg.unescapePath = true then unquote reqPath else reqPath)) = det
    generalize (if cfg.unescapePath = true then unquote reqPath else reqPath) = upath
    unfold routeMatch
    simp only [Bool.false_eq_true, if_false]
    generalize hpre : prettyPattern cfg pattern = pretty at *
    -- facts about the shortcuts
    have hA : pretty = [SLASH] → removeEscapeChar pretty = [SLASH] := by intro h; rw [h]; rfl
    by_cases hroot : removeEscapeChar pretty = [SLASH]
    · have hnp : ¬ (pp.params.length > 0) := hrootnp (by simp [hroot])
      have hnr : ¬ (pr.params.length > 0) := fun h => hnp (harity.mp h)
      have hstar : (pretty == [SLASH, STAR]) = false := by
        rw [beq_eq_false_iff_ne]; intro h; rw [h] at hroot; revert hroot; decide
      simp only [hroot, beq_self_eq_true, Bool.true_and, hstar, Bool.false_eq_true, if_false, hnp, hnr]
      by_cases hd : det = [SLASH]
      · subst hd; simp
      · have hd' : (det == [SLASH]) = false := beq_eq_false_iff_ne.mpr hd
        have hd'' : ([SLASH] == det) = false := beq_eq_false_iff_ne.mpr (fun h => hd h.symm)
        simp [hd', hd'']
    · have hroot' : (removeEscapeChar pretty == [SLASH]) = false := beq_eq_false_iff_ne.mpr hroot
      have hpr' : (pretty == [SLASH]) = false := by
        rw [beq_eq_false_iff_ne]; exact fun h => hroot (hA h)
      simp only [hroot', hpr', Bool.false_and, Bool.false_eq_true, if_false]
      by_cases hstar : pretty = [SLASH, STAR]
      · simp [hstar]
      · have hstar' : (pretty == [SLASH, STAR]) = false := beq_eq_false_iff_ne.mpr hstar
        simp only [hstar', Bool.false_eq_true, if_false]
        by_cases hp : pp.params.length > 0
        · have hq : pr.params.length > 0 := harity.mpr hp
          simp [hp, hq]
        · have hq : ¬ (pr.params.length > 0) := fun h => hp (harity.mp h)
          simp only [hp, hq, if_false]
          cases h : (removeEscapeChar pretty == det)
          · have : (det == removeEscapeChar pretty) = false := by
              rw [beq_eq_false_iff_ne] at h ⊢; exact fun hh => h hh.symm
            simp [this]
          · have : (det == removeEscapeChar pretty) = true := by
              rw [beq_iff_eq] at h ⊢; exact h.symm
            simp [this]
  · cases hr

end C03
