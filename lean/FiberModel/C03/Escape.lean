import FiberModel.C03.Spec
/-
C03 — percent-encoding round trip: whatever subset of the bytes of a path a client writes as `%XX`
(upper- or lower-case hex digits, byte by byte), the model of fasthttp's `AppendUnquotedArg`
(`C02.unquote`, what `configDependentPaths` applies with UnescapePath) gives the path back – provided
the bytes written raw are neither `%` nor `+` (both are rewritten by the decoder). Helper file for
`Props.lean`.
-/
namespace C03
open B C02

/-- one hex digit, in the chosen letter case -/
def hexChar (upper : Bool) (n : Nat) : Nat :=
  if n < 10 then 48 + n else if upper then 55 + n else 87 + n

theorem hexNibble_hexChar (u : Bool) {n : Nat} (h : n < 16) : hexNibble (hexChar u n) = some n := by
  unfold hexChar hexNibble
  by_cases h10 : n < 10
  · have h1 : 48 ≤ 48 + n ∧ 48 + n ≤ 57 := by omega
    simp only [h10, if_true, h1, and_self]
    congr 1; omega
  · cases u
    · have h1 : ¬ (48 ≤ 87 + n ∧ 87 + n ≤ 57) := by omega
      have h2 : 97 ≤ 87 + n ∧ 87 + n ≤ 102 := by omega
      simp only [h10, if_false, Bool.false_eq_true, h1, h2, and_self, if_true]
      congr 1; omega
    · have h1 : ¬ (48 ≤ 55 + n ∧ 55 + n ≤ 57) := by omega
      have h2 : ¬ (97 ≤ 55 + n ∧ 55 + n ≤ 102) := by omega
      have h3 : 65 ≤ 55 + n ∧ 55 + n ≤ 70 := by omega
      simp only [h10, if_false, if_true, h1, h2, h3, and_self]
      congr 1; omega

/-- how one byte of the path is written in the request target: as it is, or as `%XX` with each hex
    digit in upper or lower case -/
inductive Wr
  | raw
  | pct (u1 u2 : Bool)
  deriving DecidableEq, Repr

def writeByte (c : Nat) : Wr → Bytes
  | .raw => [c]
  | .pct u1 u2 => [PCT, hexChar u1 (c / 16), hexChar u2 (c % 16)]

/-- the request target for a path, byte by byte (bytes beyond the end of the choice list are written
    as they are) -/
def writePath : Bytes → List Wr → Bytes
  | [], _ => []
  | c :: cs, [] => c :: writePath cs []
  | c :: cs, w :: ws => writeByte c w ++ writePath cs ws

/-- the bytes written as they are, are neither `%` nor `+` -/
def wrOK : Bytes → List Wr → Bool
  | [], _ => true
  | c :: cs, [] => (c != PCT && c != PLUS) && wrOK cs []
  | c :: cs, .raw :: ws => (c != PCT && c != PLUS) && wrOK cs ws
  | _ :: cs, .pct _ _ :: ws => wrOK cs ws

theorem unquote_raw {c : Nat} (h1 : c ≠ PCT) (h2 : c ≠ PLUS) (rest : Bytes) :
    unquote (c :: rest) = c :: unquote rest := by
  have e1 : (c == PCT) = false := beq_eq_false_iff_ne.mpr h1
  have e2 : (c == PLUS) = false := beq_eq_false_iff_ne.mpr h2
  conv => lhs; unfold unquote
  simp only [e1, e2, Bool.false_eq_true, if_false]

theorem unquote_pct (u1 u2 : Bool) {c : Nat} (hc : c < 256) (rest : Bytes) :
    unquote (PCT :: hexChar u1 (c / 16) :: hexChar u2 (c % 16) :: rest) = c :: unquote rest := by
  have h1 : c / 16 < 16 := by omega
  have h2 : c % 16 < 16 := by omega
  conv => lhs; unfold unquote
  simp only [beq_self_eq_true, if_true, hexNibble_hexChar u1 h1, hexNibble_hexChar u2 h2]
  congr 1; omega

/-- **Percent-decoding inverts percent-encoding**, whichever bytes the client chose to encode and in
    whichever letter case it wrote the hex digits. -/
theorem unquote_writePath : (s : Bytes) → (ws : List Wr) → (∀ c ∈ s, c < 256) → wrOK s ws = true →
    unquote (writePath s ws) = s
  | [], _, _, _ => by simp [writePath, unquote]
  | c :: cs, [], hb, hw => by
    simp only [wrOK, Bool.and_eq_true, bne_iff_ne, ne_eq] at hw
    simp only [writePath]
    rw [unquote_raw hw.1.1 hw.1.2, unquote_writePath cs [] (fun x hx => hb x (List.mem_cons_of_mem _ hx)) hw.2]
  | c :: cs, .raw :: ws, hb, hw => by
    simp only [wrOK, Bool.and_eq_true, bne_iff_ne, ne_eq] at hw
    simp only [writePath, writeByte, List.singleton_append]
    rw [unquote_raw hw.1.1 hw.1.2, unquote_writePath cs ws (fun x hx => hb x (List.mem_cons_of_mem _ hx)) hw.2]
  | c :: cs, .pct u1 u2 :: ws, hb, hw => by
    simp only [wrOK] at hw
    simp only [writePath, writeByte, List.cons_append, List.nil_append]
    rw [unquote_pct u1 u2 (hb c (List.mem_cons_self ..)),
      unquote_writePath cs ws (fun x hx => hb x (List.mem_cons_of_mem _ hx)) hw]

-- non-vacuity: "/a b%" with the space and the percent sign encoded (mixed-case hex), the rest raw
example : writePath (b "/a b%") [.raw, .raw, .pct false false, .raw, .pct true false] = b "/a%20b%25" ∧
    wrOK (b "/a b%") [.raw, .raw, .pct false false, .raw, .pct true false] = true ∧
    unquote (b "/a%20b%25") = b "/a b%" := by
  have hw : writePath (b "/a b%") [.raw, .raw, .pct false false, .raw, .pct true false] = b "/a%20b%25" := by decide
  refine ⟨hw, by decide, ?_⟩
  rw [← hw]
  exact unquote_writePath _ _ (by decide) (by decide)

end C03
