import FiberModel.C03.Greedy
/-
C03 — the induction behind `fill_match_complete` (helper file).
-/
namespace C03
open B C02

/-! ### forward steps of `getMatch` -/

theorem getMatch_const_intro {chk : Constraint → Bytes → Bool} {seg : Seg} {rest : List Seg}
    {d path : Bytes} {pc : Bool} (hc : seg.isParam = false) (hl : seg.length = seg.const.length) :
    getMatch chk (seg :: rest) (seg.const ++ d) path pc = getMatch chk rest d (path.drop seg.const.length) pc := by
  conv => lhs; unfold getMatch
  simp only [hc, Bool.not_false, if_true, hl, List.length_append]
  have h1 : (seg.hasOptionalSlash && decide (seg.const.length > 0) &&
      (seg.const.length + d.length == seg.const.length - 1) &&
      (seg.const ++ d == seg.const.take (seg.const.length - 1))) = false := by
    by_cases h0 : seg.const.length > 0
    · have : (seg.const.length + d.length == seg.const.length - 1) = false := by
        rw [beq_eq_false_iff_ne]; omega
      simp [this]
    · simp [h0]
  rw [h1]
  simp only [Bool.false_eq_true, if_false]
  have h2 : (decide (seg.const.length ≤ seg.const.length + d.length) &&
      ((seg.const ++ d).take seg.const.length == seg.const)) = true := by
    simp
  rw [h2]
  simp only [if_true]
  split
  · simp
  · have h0 : seg.const.length = 0 := by omega
    have hd : d.length = 0 := by omega
    have hc0 : seg.const = [] := List.eq_nil_of_length_eq_zero h0
    simp [hc0]

theorem getMatch_param_intro {chk : Constraint → Bytes → Bool} {seg : Seg} {rest : List Seg}
    {v d path : Bytes} {pc : Bool} (hp : seg.isParam = true)
    (hlen : paramLen (v ++ d) seg rest = v.length)
    (hreq : seg.isOptional = true ∨ v ≠ []) (hcons : seg.constraints = []) :
    getMatch chk (seg :: rest) (v ++ d) path pc =
      (getMatch chk rest d (path.drop v.length) pc).map (path.take v.length :: ·) := by
  conv => lhs; unfold getMatch
  simp only [hp, Bool.not_true, Bool.false_eq_true, if_false, hlen, hcons, List.all_nil, Bool.not_true,
    Bool.and_false]
  have h1 : (!seg.isOptional && v.length == 0) = false := by
    rcases hreq with h | h
    · simp [h]
    · have : v.length ≠ 0 := fun hh => h (List.eq_nil_of_length_eq_zero hh)
      simp [this]
  rw [h1]
  simp only [Bool.false_eq_true, if_false, List.length_append]
  split
  · simp
  · have h0 : v.length = 0 := by omega
    have hv : v = [] := List.eq_nil_of_length_eq_zero h0
    simp [hv]

/-! ### the user-visible path against the fill -/

/-- `path` carries, at the value positions of `fill p ds`, the values `vs` (same lengths as `ds`;
    the literal positions may differ in letter case, and `path` may be longer than the fill). -/
def PathFor : Pat → List Bytes → List Bytes → Bytes → Prop
  | [], _, vs, _ => vs = []
  | .lit t :: rest, ds, vs, path => PathFor rest ds vs (path.drop t.length)
  | _ :: rest, d :: ds, v :: vs, path => path.take d.length = v ∧ PathFor rest ds vs (path.drop d.length)
  | _ :: _, _, _, _ => False

def litsEscFree (p : Pat) : Prop := ∀ t ∈ p, ∀ l, t = Tok.lit l → l.contains BSL = false

theorem fill_param (t : Tok) (rest : Pat) (d : Bytes) (ds : List Bytes) (ht : t.isParam = true) :
    fill (t :: rest) (d :: ds) = d ++ fill rest ds := by
  cases t <;> simp [fill, Tok.isParam] at ht ⊢

/-- The raw segment of a parameter token. -/
theorem rawSegsOf_param (t : Tok) (rest : Pat) (wc pc : Nat) (ht : t.isParam = true) :
    ∃ a wc' pc', rawSegsOf (t :: rest) wc pc = a :: rawSegsOf rest wc' pc' ∧ a.isParam = true ∧
      a.isGreedy = t.isGreedy ∧ a.isOptional = t.isOptional ∧ a.constraints = [] := by
  cases t with
  | lit l => simp [Tok.isParam] at ht
  | named n o => exact ⟨_, wc, pc, rfl, rfl, rfl, rfl, rfl⟩
  | star => exact ⟨_, wc + 1, pc, rfl, rfl, rfl, rfl, rfl⟩
  | plus => exact ⟨_, wc, pc + 1, rfl, rfl, rfl, rfl, rfl⟩

/-- **The completeness induction.** For the segment list of a delimited token list, a detection
    path that is the fill with clean values `ds`, and a user path carrying values `vs` at the same
    positions, `getMatch` succeeds and reports exactly `vs`. -/
theorem getMatch_fill {chk : Constraint → Bytes → Bool} :
    (p : Pat) → (wc pc : Nat) → (segs : List Seg) → (ds vs : List Bytes) → (path : Bytes) →
    CoreL (rawSegsOf p wc pc) segs → MetaOK segs → MetaOK2 segs → MetaOK3 segs → Delimited p = true → litsEscFree p →
    cleanFillWith id p ds = true → PathFor p ds vs path →
    getMatch chk segs (fill p ds) path false = some vs
  | [], _, _, segs, ds, vs, path, hc, _, _, _, _, _, _, hpf => by
    unfold rawSegsOf at hc
    cases hc
    unfold PathFor at hpf
    subst hpf
    unfold getMatch fill
    simp
  | .lit t :: rest, wc, pc, segs, ds, vs, path, hc, hm, hm2, hm3, hd, hesc, hcl, hpf => by
    unfold rawSegsOf at hc
    cases hc with
    | @cons a b as bs hab hrest =>
      have hbp : b.isParam = false := hab.2.1
      have hbc : b.const = t := hab.1
      have hbl : b.length = b.const.length := by rw [hab.2.2.2.2.2.2.1 rfl, hbc]
      unfold fill
      rw [← hbc, getMatch_const_intro hbp hbl, hbc]
      unfold Delimited at hd
      simp only [Tok.isParam, Bool.false_eq_true, if_false, Bool.true_and] at hd
      unfold cleanFillWith at hcl
      unfold PathFor at hpf
      exact getMatch_fill rest wc pc bs ds vs _ hrest hm.tail hm2.2.2 hm3.2 hd
        (fun x hx => hesc x (List.mem_cons_of_mem _ hx)) hcl hpf
  | t@(.named n o) :: rest, wc, pc, segs, ds, vs, path, hc, hm, hm2, hm3, hd, hesc, hcl, hpf =>
    getMatch_fill_param (by rfl) rest wc pc segs ds vs path hc hm hm2 hm3 hd hesc hcl hpf
      (fun wc' pc' bs ds' vs' path' => getMatch_fill rest wc' pc' bs ds' vs' path')
  | .star :: rest, wc, pc, segs, ds, vs, path, hc, hm, hm2, hm3, hd, hesc, hcl, hpf =>
    getMatch_fill_param (by rfl) rest wc pc segs ds vs path hc hm hm2 hm3 hd hesc hcl hpf
      (fun wc' pc' bs ds' vs' path' => getMatch_fill rest wc' pc' bs ds' vs' path')
  | .plus :: rest, wc, pc, segs, ds, vs, path, hc, hm, hm2, hm3, hd, hesc, hcl, hpf =>
    getMatch_fill_param (by rfl) rest wc pc segs ds vs path hc hm hm2 hm3 hd hesc hcl hpf
      (fun wc' pc' bs ds' vs' path' => getMatch_fill rest wc' pc' bs ds' vs' path')
where
  /-- the parameter step, given the statement for the rest of the pattern -/
  getMatch_fill_param {chk : Constraint → Bytes → Bool} {t : Tok} (ht : t.isParam = true)
      (rest : Pat) (wc pc : Nat) (segs : List Seg) (ds vs : List Bytes) (path : Bytes)
      (hc : CoreL (rawSegsOf (t :: rest) wc pc) segs) (hm : MetaOK segs) (hm2 : MetaOK2 segs) (hm3 : MetaOK3 segs)
      (hd : Delimited (t :: rest) = true) (hesc : litsEscFree (t :: rest))
      (hcl : cleanFillWith id (t :: rest) ds = true)
      (hpf : PathFor (t :: rest) ds vs path)
      (ih : ∀ (wc' pc' : Nat) (bs : List Seg) (ds' vs' : List Bytes) (path' : Bytes),
          CoreL (rawSegsOf rest wc' pc') bs → MetaOK bs → MetaOK2 bs → MetaOK3 bs → Delimited rest = true → litsEscFree rest →
          cleanFillWith id rest ds' = true → PathFor rest ds' vs' path' →
          getMatch chk bs (fill rest ds') path' false = some vs') :
      getMatch chk segs (fill (t :: rest) ds) path false = some vs := by
    obtain ⟨a, wc', pc', hraw, hap, hag, hao, hacs⟩ := rawSegsOf_param t rest wc pc ht
    rw [hraw] at hc
    cases hc with
    | @cons _ b _ bs hab hrest =>
      have hbp : b.isParam = true := by rw [hab.2.1]; exact hap
      have hbg : b.isGreedy = t.isGreedy := by rw [hab.2.2.1]; exact hag
      have hbo : b.isOptional = t.isOptional := by rw [hab.2.2.2.1]; exact hao
      have hbcs : b.constraints = [] := by rw [hab.2.2.2.2.1]; exact hacs
      -- values
      cases ds with
      | nil => cases t <;> simp [cleanFillWith, Tok.isParam] at hcl ht
      | cons d ds' =>
        cases vs with
        | nil => cases t <;> simp [PathFor, Tok.isParam] at hpf ht
        | cons v vs' =>
          have hpf' : path.take d.length = v ∧ PathFor rest ds' vs' (path.drop d.length) := by
            cases t <;> simp [PathFor, Tok.isParam] at hpf ht <;> exact hpf
          have hcl' : (t.isOptional || !d.isEmpty) = true ∧ (t.isGreedy || !d.contains SLASH) = true ∧
              (match nextLit rest with
               | none => true
               | some l => indexOf (d ++ fill rest ds') l == some d.length &&
                   (!t.isGreedy || occ (d ++ fill rest ds') l == litOcc l rest)) = true ∧
              cleanFillWith id rest ds' = true := by
            cases t <;> simp [cleanFillWith, Tok.isParam, Bool.and_eq_true] at hcl ht ⊢ <;>
              exact ⟨hcl.1.1.1, hcl.1.1.2, hcl.1.2, hcl.2⟩
          have hd' : delimNext rest = true ∧ Delimited rest = true := by
            unfold Delimited at hd
            simp only [ht, if_true, Bool.and_eq_true] at hd
            exact hd
          rw [fill_param t rest d ds' ht]
          have hslash : b.isGreedy = true ∨ d.contains SLASH = false := by
            rw [hbg]
            have := hcl'.2.1
            simp only [Bool.or_eq_true, Bool.not_eq_true'] at this
            exact this
          -- the shape of what follows
          have hlen : paramLen (d ++ fill rest ds') b bs = d.length := by
            cases rest with
            | nil =>
              unfold rawSegsOf at hrest
              cases hrest
              rw [paramLen_nil]
              exact findParamLen_fill_core hm hm2 hbp rfl rfl hslash (fun _ => rfl)
                (fun h => absurd rfl h) (fun h => absurd rfl h)
            | cons t2 rest2 =>
              cases t2 with
              | lit l =>
                unfold rawSegsOf at hrest
                cases hrest with
                | @cons a2 b2 _ bs2 hab2 hrest2 =>
                  have hb2p : b2.isParam = false := hab2.2.1
                  have hb2c : b2.const = l := hab2.1
                  have hncc : nextConstCmp (b2 :: bs2) = cmpOfConst l := by
                    unfold nextConstCmp; simp [hb2p, hb2c]
                  have hl : l.contains BSL = false :=
                    hesc (.lit l) (List.mem_cons_of_mem _ (List.mem_cons_self ..)) l rfl
                  simp only [nextLit, Bool.and_eq_true, beq_iff_eq, Bool.or_eq_true, Bool.not_eq_true'] at hcl'
                  have hesc' : removeEscapeChar (nextConstCmp (b2 :: bs2)) = nextConstCmp (b2 :: bs2) := by
                    rw [hncc]; exact removeEscapeChar_id _ (cmpOfConst_escFree l hl)
                  have hcp : b.comparePart = cmpOfConst l := by rw [hm.2.1 hbp, hesc', hncc]
                  have hlne : l ≠ [] := by
                    intro hh; rw [hh] at hd'; simp [delimNext, startsWithDelim] at hd'
                  have hnng : nextNonGreedyParam (b2 :: bs2) = false := by simp [nextNonGreedyParam, hb2p]
                  have hidx : indexOf (d ++ fill (.lit l :: rest2) ds') l = some d.length := hcl'.2.2.1.1
                  have hocc : b.isGreedy = true →
                      occ (d ++ fill (.lit l :: rest2) ds') l = litOcc l (.lit l :: rest2) := by
                    intro hg
                    rcases hcl'.2.2.1.2 with h | h
                    · rw [hbg, h] at hg; cases hg
                    · exact h
                  by_cases hlong : l.length > (cmpOfConst l).length
                  · -- the literal has trailing slashes the search text lacks; the fill holds the literal
                    -- in full, so the matcher searches for the literal itself
                    have hbl : b.isLast = false := by
                      cases h : b.isLast
                      · rfl
                      · exact absurd (hm2.1.mp h) (by simp)
                    have hb0 : b.length = 0 := hm2.2.1 hbp hnng
                    rw [paramLen_full hbl hb0 (by rw [hb2c, hcp]; exact hlong) (by rw [hb2c, hidx]; rfl), hb2c]
                    rcases Bool.eq_false_or_eq_true b.isGreedy with hg | hg
                    · rw [if_pos hg]
                      obtain ⟨g1, g2⟩ := greedy_strip_full hlne hidx (hocc hg)
                      have hpc : partCountOf l (b2 :: bs2) = litCount l (.lit l :: rest2) := by
                        rw [CoreL.partCountOf_eq _ (.cons hab2 hrest2), ← partCountOf_rawSegsOf _ (.lit l :: rest2) wc' pc']
                        rfl
                      unfold findGreedyParamLen
                      simp only
                      rw [hpc, g1, findGreedyLoop_eq_stripR, Nat.min_self, g2]
                    · rw [if_neg (by rw [hg]; simp)]
                      have hs : d.contains SLASH = false := by
                        rcases hslash with h | h
                        · rw [hg] at h; cases h
                        · exact h
                      exact findParamLen_at (seg := { b with comparePart := l, partCount := partCountOf l (b2 :: bs2) })
                        hbl hb0 hg hs hidx
                  · -- the search text is the literal itself
                    have hkey : cmpOfConst l = l := cmpOfConst_eq_of_length hlong
                    rw [paramLen_noFull (by rw [hb2c, hcp]; exact hlong)]
                    refine findParamLen_fill_core hm hm2 hbp hnng hesc' hslash (fun h => (by cases h))
                      (fun _ => by rw [hncc, hkey]; exact hidx) (fun _ hg _ => ?_)
                    -- stage (ii-b): the right-to-left loop on a clean fill
                    obtain ⟨g1, g2⟩ := greedy_strip_full hlne hidx (hocc hg)
                    have hpc : b.partCount = litCount l (.lit l :: rest2) := by
                      rw [hm3.1 hbp (by rw [hcp, hkey]; exact hlne), hcp, hkey,
                        CoreL.partCountOf_eq _ (.cons hab2 hrest2), ← partCountOf_rawSegsOf _ (.lit l :: rest2) wc' pc']
                      rfl
                    rw [hncc, hkey, g1]
                    unfold findGreedyParamLen
                    rw [hcp, hkey, hpc, findGreedyLoop_eq_stripR, Nat.min_self, g2]
              | named _ _ => simp [delimNext] at hd'
              | star => simp [delimNext] at hd'
              | plus => simp [delimNext] at hd'
          have hreq : b.isOptional = true ∨ d ≠ [] := by
            rw [hbo]
            have := hcl'.1
            simp only [Bool.or_eq_true, Bool.not_eq_true', List.isEmpty_eq_false_iff] at this
            exact this
          rw [getMatch_param_intro hbp hlen hreq hbcs]
          rw [ih wc' pc' bs ds' vs' _ hrest hm.tail hm2.2.2 hm3.2 hd'.2
            (fun x hx => hesc x (List.mem_cons_of_mem _ hx)) hcl'.2.2.2 hpf'.2]
          simp [hpf'.1]

end C03
