import FiberModel.C03.Serve
/-
C03 — trailing-slash trimming of the pattern text (`register` / `RoutePatternMatch` without
StrictRouting) on the text of a well-formed token list: the trimmed text is again the text of a
well-formed token list with the same parameters. Used to discharge, for the documented syntax, the
two parser hypotheses of `rpm_eq_single_route_dispatch`.
-/
namespace C03
open B C02

theorem trimRight_append (a l : Bytes) (c : Nat) :
    trimRight (a ++ l) c = if (trimRight l c).isEmpty then trimRight a c else a ++ trimRight l c := by
  unfold trimRight
  rw [List.reverse_append, List.dropWhile_append]
  by_cases h : (List.dropWhile (· == c) l.reverse).isEmpty = true
  · simp [h]
  · simp [h]

/-! ### `shapeOK` as a condition on adjacent tokens -/

def okPair : Tok → Tok → Bool
  | .lit _, .lit _ => false
  | .lit _, _ => true
  | .named _ _, .lit l => startsWithDelim l
  | _, .lit _ => true
  | _, _ => false

def shapeOK' : Pat → Bool
  | [] => true
  | [_] => true
  | x :: y :: r => okPair x y && shapeOK' (y :: r)

theorem shapeOK_single (t : Tok) : shapeOK [t] = true := by cases t <;> rfl

theorem shapeOK_eq : (p : Pat) → shapeOK p = shapeOK' p
  | [] => rfl
  | [t] => shapeOK_single t
  | x :: y :: r => by
    have ih := shapeOK_eq (y :: r)
    conv => lhs; unfold shapeOK
    cases x <;> cases y <;> simp only [shapeOK', okPair, ih, Bool.true_and, Bool.false_and] <;> rfl

theorem shapeOK'_prefix : (a b : Pat) → shapeOK' (a ++ b) = true → shapeOK' a = true
  | [], _, _ => rfl
  | [t], _, _ => rfl
  | t :: t2 :: a, b, h => by
    simp only [List.cons_append, shapeOK', Bool.and_eq_true] at h ⊢
    exact ⟨h.1, shapeOK'_prefix (t2 :: a) b h.2⟩

theorem shapeOK_prefix (a b : Pat) (h : shapeOK (a ++ b) = true) : shapeOK a = true := by
  rw [shapeOK_eq] at h ⊢; exact shapeOK'_prefix a b h

theorem okPair_lit_swap (t : Tok) (l l' : Bytes) (hs : startsWithDelim l' = startsWithDelim l) :
    okPair t (.lit l') = okPair t (.lit l) := by
  cases t <;> simp [okPair, hs]

theorem shapeOK'_last_lit : (init : Pat) → (l l' : Bytes) → startsWithDelim l' = startsWithDelim l →
    shapeOK' (init ++ [.lit l]) = true → shapeOK' (init ++ [.lit l']) = true
  | [], _, _, _, _ => rfl
  | [t], l, l', hs, h => by
    simp only [List.cons_append, List.nil_append, shapeOK', Bool.and_true] at h ⊢
    rw [okPair_lit_swap t l l' hs]; exact h
  | t :: t2 :: init, l, l', hs, h => by
    simp only [List.cons_append, shapeOK', Bool.and_eq_true] at h ⊢
    exact ⟨h.1, shapeOK'_last_lit (t2 :: init) l l' hs h.2⟩

theorem shapeOK_last_lit (init : Pat) (l l' : Bytes) (hs : startsWithDelim l' = startsWithDelim l)
    (h : shapeOK (init ++ [.lit l]) = true) : shapeOK (init ++ [.lit l']) = true := by
  rw [shapeOK_eq] at h ⊢; exact shapeOK'_last_lit init l l' hs h

/-- in a well-shaped list the token before a final literal is a parameter -/
theorem shapeOK'_before_lit : (i0 : Pat) → (t : Tok) → (l : Bytes) → shapeOK' (i0 ++ [t, .lit l]) = true →
    t.isParam = true
  | [], t, l, h => by
    cases t <;> simp [shapeOK', okPair, Tok.isParam] at h ⊢
  | [x], t, l, h => by
    simp only [List.cons_append, List.nil_append, shapeOK', Bool.and_eq_true] at h
    cases t <;> simp [okPair, Tok.isParam] at h ⊢
  | x :: y :: i0, t, l, h => by
    simp only [List.cons_append, shapeOK', Bool.and_eq_true] at h
    exact shapeOK'_before_lit (y :: i0) t l h.2

/-! ### trimming the text of a token list -/

theorem patText_append (a c : Pat) : patText (a ++ c) = patText a ++ patText c := by
  simp [patText]

theorem patText_single (t : Tok) : patText [t] = t.text := by simp [patText]

theorem startsWithDelim_prefix {a l : Bytes} (hp : a <+: l) (ha : a ≠ []) : startsWithDelim a = startsWithDelim l := by
  obtain ⟨r, rfl⟩ := hp
  cases a with
  | nil => exact absurd rfl ha
  | cons c cs => rfl

/-- **Trimming trailing slashes stays inside the documented syntax.** The text of a well-formed,
    well-shaped token list, with its trailing slashes removed, is the text of another such list
    with the same number of parameters. -/
theorem trim_text {q : Pat} (hok : ∀ t ∈ q, TokOK t) (hsh : shapeOK q = true) :
    ∃ q', (∀ t ∈ q', TokOK t) ∧ shapeOK q' = true ∧ patText q' = trimRight (patText q) SLASH ∧
      (q'.filter (·.isParam)).length = (q.filter (·.isParam)).length := by
  rcases List.eq_nil_or_concat q with rfl | ⟨init, t, rfl⟩
  · exact ⟨[], hok, rfl, by simp [patText, trimRight], rfl⟩
  · rw [List.concat_eq_append] at hok hsh ⊢
    have hokt := hok t (by simp)
    have hoki : ∀ x ∈ init, TokOK x := fun x hx => hok x (by simp [hx])
    have hshi := shapeOK_prefix init [t] hsh
    by_cases htp : t.isParam = true
    · -- the text ends in a parameter: nothing to trim
      refine ⟨init ++ [t], hok, hsh, ?_, rfl⟩
      rw [trimRight_of_last_ne]
      rw [patText_append, patText_single, List.getLast?_append]
      have hne := tokText_ne_nil hokt
      cases hg : t.text.getLast? with
      | none => exact absurd (List.getLast?_eq_none_iff.mp hg) hne
      | some x =>
        simp only [Option.some_or]
        rw [← hg]; exact paramText_last htp hokt
    · -- the text ends in a literal
      obtain ⟨l, rfl⟩ : ∃ l, t = .lit l := by
        cases t with
        | lit l => exact ⟨l, rfl⟩
        | named _ _ => simp [Tok.isParam] at htp
        | star => simp [Tok.isParam] at htp
        | plus => simp [Tok.isParam] at htp
      rw [patText_append, patText_single, trimRight_append]
      simp only [Tok.text]
      by_cases hl' : (trimRight l SLASH).isEmpty = true
      · -- the literal is slashes only: it disappears, and what is in front ends in a parameter
        simp only [hl', if_true]
        refine ⟨init, hoki, hshi, ?_, by simp [List.filter_append, Tok.isParam]⟩
        rcases List.eq_nil_or_concat init with rfl | ⟨i0, t0, rfl⟩
        · simp [patText, trimRight]
        · rw [List.concat_eq_append] at hsh hoki ⊢
          have hsh' : shapeOK' (i0 ++ [t0, .lit l]) = true := by
            rw [← shapeOK_eq]; simpa using hsh
          have ht0 := shapeOK'_before_lit i0 t0 l hsh'
          have hok0 := hoki t0 (by simp)
          rw [trimRight_of_last_ne]
          rw [patText_append, patText_single, List.getLast?_append]
          have hne := tokText_ne_nil hok0
          cases hg : t0.text.getLast? with
          | none => exact absurd (List.getLast?_eq_none_iff.mp hg) hne
          | some x =>
            simp only [Option.some_or]
            rw [← hg]; exact paramText_last ht0 hok0
      · -- the literal keeps a non-empty part
        simp only [hl', Bool.false_eq_true, if_false]
        have hne : trimRight l SLASH ≠ [] := by
          intro h; rw [h] at hl'; simp at hl'
        have hpre := trimRight_prefix l SLASH
        refine ⟨init ++ [.lit (trimRight l SLASH)], ?_, ?_, ?_, ?_⟩
        · intro x hx
          rcases List.mem_append.mp hx with hx | hx
          · exact hoki x hx
          · simp only [List.mem_singleton] at hx
            subst hx
            exact ⟨hne, fun c hc => hokt.2 c (hpre.subset hc)⟩
        · exact shapeOK_last_lit init l _ (startsWithDelim_prefix hpre hne) hsh
        · rw [patText_append, patText_single]; rfl
        · simp [List.filter_append, Tok.isParam]

end C03
