import FiberModel.C03.Lemmas
/-
C03 — stage (ii-b) of fill → match completeness: a greedy parameter (`*`, `+`) whose delimiter
re-occurs behind it (`findGreedyParamLen`, `PartCount`).

Part 1 (this file, byte strings only): occurrences of a non-empty key `K` in a string,
`strings.Index` / `strings.LastIndex` / `strings.Count` in terms of them, the right-to-left
stripping loop of `findGreedyParamLen`, and the two facts the completeness proof rests on:

  * `count_eq_cntR` — the number of non-overlapping occurrences counted from the left
    (`strings.Count`, what `PartCount` and `searchCount` are made of) equals the number of
    occurrences the loop can strip from the right (`strings.LastIndex` repeatedly) — for every
    string and key, self-overlapping keys such as `--` included;
  * `NoStradP` — "no occurrence of `K` in `a ++ b` straddles the boundary", which follows from
    `occ (a ++ b) = occ a + occ b` and makes `Count`, `LastIndex` and the stripping loop additive.
-/
namespace C03
open B C02

/-! ### occurrences -/

/-- `K` occurs in `s` at offset `i` -/
def OccAt (K s : Bytes) (i : Nat) : Prop := K <+: s.drop i

theorem occAt_cons_succ (K : Bytes) (x : Nat) (xs : Bytes) (i : Nat) :
    OccAt K (x :: xs) (i + 1) ↔ OccAt K xs i := by simp [OccAt]

theorem occAt_zero (K s : Bytes) : OccAt K s 0 ↔ K <+: s := by simp [OccAt]

theorem occAt_bound {K s : Bytes} {i : Nat} (hK : K ≠ []) (h : OccAt K s i) : i + K.length ≤ s.length := by
  have h1 := h.length_le
  simp only [List.length_drop] at h1
  have h2 : 0 < K.length := List.length_pos_iff.mpr hK
  omega

theorem occAt_drop (K s : Bytes) (a q : Nat) : OccAt K (s.drop a) q ↔ OccAt K s (a + q) := by
  simp [OccAt, List.drop_drop]

theorem occAt_take (K s : Bytes) (a p : Nat) :
    OccAt K (s.take a) p ↔ OccAt K s p ∧ K.length ≤ a - p := by
  simp [OccAt, List.drop_take, List.prefix_take_iff]

theorem occAt_append_right (K a c : Bytes) (q : Nat) : OccAt K (a ++ c) (a.length + q) ↔ OccAt K c q := by
  unfold OccAt
  rw [← List.drop_drop, List.drop_left]

/-! ### `strings.Index` / `strings.LastIndex` through occurrences -/

theorem not_occAt_nil {K : Bytes} (hK : K ≠ []) (i : Nat) : ¬ OccAt K [] i := by
  intro h
  have := occAt_bound hK h
  have h2 : 0 < K.length := List.length_pos_iff.mpr hK
  simp only [List.length_nil] at this; omega

theorem isEmpty_false {K : Bytes} (hK : K ≠ []) : K.isEmpty = false := by
  cases K with
  | nil => exact absurd rfl hK
  | cons _ _ => rfl

theorem indexOf_none_iff {K : Bytes} (hK : K ≠ []) : (s : Bytes) → (indexOf s K = none ↔ ∀ i, ¬ OccAt K s i)
  | [] => by
    simp only [indexOf, isEmpty_false hK, Bool.false_eq_true, if_false, true_iff]
    exact not_occAt_nil hK
  | x :: xs => by
    have ih := indexOf_none_iff hK xs
    unfold indexOf
    by_cases hp : K.isPrefixOf (x :: xs) = true
    · simp only [hp, if_true]
      constructor
      · intro h; cases h
      · intro h; exact absurd ((occAt_zero K _).mpr (List.isPrefixOf_iff_prefix.mp hp)) (h 0)
    · simp only [hp, Bool.false_eq_true, if_false, Option.map_eq_none_iff]
      rw [ih]
      constructor
      · intro h i
        cases i with
        | zero =>
          rw [occAt_zero]; intro hh; exact hp (List.isPrefixOf_iff_prefix.mpr hh)
        | succ i => rw [occAt_cons_succ]; exact h i
      · intro h i; rw [← occAt_cons_succ K x]; exact h (i + 1)

theorem indexOf_some_iff {K : Bytes} (hK : K ≠ []) : (s : Bytes) → (i : Nat) →
    (indexOf s K = some i ↔ OccAt K s i ∧ ∀ p, p < i → ¬ OccAt K s p)
  | [], i => by
    simp only [indexOf, isEmpty_false hK, Bool.false_eq_true, if_false]
    constructor
    · intro h; cases h
    · intro h; exact absurd h.1 (not_occAt_nil hK i)
  | x :: xs, i => by
    unfold indexOf
    by_cases hp : K.isPrefixOf (x :: xs) = true
    · simp only [hp, if_true, Option.some.injEq]
      have h0 : OccAt K (x :: xs) 0 := (occAt_zero K _).mpr (List.isPrefixOf_iff_prefix.mp hp)
      constructor
      · intro h; subst h; exact ⟨h0, fun p hp' => by omega⟩
      · intro h
        cases i with
        | zero => rfl
        | succ i => exact absurd h0 (h.2 0 (by omega))
    · simp only [hp, Bool.false_eq_true, if_false]
      have hn0 : ¬ OccAt K (x :: xs) 0 := by
        rw [occAt_zero]; intro hh; exact hp (List.isPrefixOf_iff_prefix.mpr hh)
      cases i with
      | zero =>
        constructor
        · intro h
          cases hi : indexOf xs K with
          | none => simp [hi] at h
          | some j => simp [hi] at h
        · intro h; exact absurd h.1 hn0
      | succ i =>
        have ih := indexOf_some_iff hK xs i
        constructor
        · intro h
          have hi : indexOf xs K = some i := by
            cases hi : indexOf xs K with
            | none => simp [hi] at h
            | some j => simp [hi] at h; rw [h]
          obtain ⟨h1, h2⟩ := ih.mp hi
          refine ⟨(occAt_cons_succ K x xs i).mpr h1, fun p hp' => ?_⟩
          cases p with
          | zero => exact hn0
          | succ p => rw [occAt_cons_succ]; exact h2 p (by omega)
        · intro ⟨h1, h2⟩
          have : indexOf xs K = some i :=
            ih.mpr ⟨(occAt_cons_succ K x xs i).mp h1, fun p hp' => by
              rw [← occAt_cons_succ K x]; exact h2 (p + 1) (by omega)⟩
          simp [this]

theorem lastIndexOf_none_iff {K : Bytes} (hK : K ≠ []) : (s : Bytes) → (lastIndexOf s K = none ↔ ∀ i, ¬ OccAt K s i)
  | [] => by
    simp only [lastIndexOf, isEmpty_false hK, Bool.false_eq_true, if_false, true_iff]
    exact not_occAt_nil hK
  | x :: xs => by
    have ih := lastIndexOf_none_iff hK xs
    unfold lastIndexOf
    cases hl : lastIndexOf xs K with
    | some k =>
      simp only
      constructor
      · intro h; cases h
      · intro h
        exfalso
        have : ¬ ∀ i, ¬ OccAt K xs i := fun hh => by rw [← ih] at hh; rw [hl] at hh; cases hh
        exact this (fun i => by rw [← occAt_cons_succ K x]; exact h (i + 1))
    | none =>
      have hno := ih.mp hl
      simp only
      by_cases hp : K.isPrefixOf (x :: xs) = true
      · simp only [hp, if_true]
        constructor
        · intro h; cases h
        · intro h; exact absurd ((occAt_zero K _).mpr (List.isPrefixOf_iff_prefix.mp hp)) (h 0)
      · simp only [hp, Bool.false_eq_true, if_false, true_iff]
        intro i
        cases i with
        | zero => rw [occAt_zero]; intro hh; exact hp (List.isPrefixOf_iff_prefix.mpr hh)
        | succ i => rw [occAt_cons_succ]; exact hno i

theorem lastIndexOf_some_iff {K : Bytes} (hK : K ≠ []) : (s : Bytes) → (j : Nat) →
    (lastIndexOf s K = some j ↔ OccAt K s j ∧ ∀ p, j < p → ¬ OccAt K s p)
  | [], j => by
    simp only [lastIndexOf, isEmpty_false hK, Bool.false_eq_true, if_false]
    constructor
    · intro h; cases h
    · intro h; exact absurd h.1 (not_occAt_nil hK j)
  | x :: xs, j => by
    unfold lastIndexOf
    cases hl : lastIndexOf xs K with
    | some k =>
      obtain ⟨k1, k2⟩ := (lastIndexOf_some_iff hK xs k).mp hl
      simp only [Option.some.injEq]
      constructor
      · intro h; subst h
        refine ⟨(occAt_cons_succ K x xs k).mpr k1, fun p hp' => ?_⟩
        cases p with
        | zero => omega
        | succ p => rw [occAt_cons_succ]; exact k2 p (by omega)
      · intro ⟨h1, h2⟩
        cases j with
        | zero => exact absurd ((occAt_cons_succ K x xs k).mpr k1) (h2 (k + 1) (by omega))
        | succ j =>
          rw [occAt_cons_succ] at h1
          have a1 : ¬ (j < k) := fun hh => h2 (k + 1) (by omega) ((occAt_cons_succ K x xs k).mpr k1)
          have a2 : ¬ (k < j) := fun hh => k2 j hh h1
          omega
    | none =>
      have hno := (lastIndexOf_none_iff hK xs).mp hl
      simp only
      by_cases hp : K.isPrefixOf (x :: xs) = true
      · simp only [hp, if_true, Option.some.injEq]
        have h0 : OccAt K (x :: xs) 0 := (occAt_zero K _).mpr (List.isPrefixOf_iff_prefix.mp hp)
        constructor
        · intro h; subst h
          refine ⟨h0, fun p hp' => ?_⟩
          cases p with
          | zero => omega
          | succ p => rw [occAt_cons_succ]; exact hno p
        · intro ⟨h1, _⟩
          cases j with
          | zero => rfl
          | succ j => rw [occAt_cons_succ] at h1; exact absurd h1 (hno j)
      · simp only [hp, Bool.false_eq_true, if_false]
        constructor
        · intro h; cases h
        · intro ⟨h1, _⟩
          cases j with
          | zero => rw [occAt_zero] at h1; exact absurd (List.isPrefixOf_iff_prefix.mpr h1) hp
          | succ j => rw [occAt_cons_succ] at h1; exact absurd h1 (hno j)

/-! ### `strings.Count` through the first occurrence -/

theorem countGo_skip (K : Bytes) : (s : Bytes) → (sk : Nat) → countGo K s sk = countGo K (s.drop sk) 0
  | [], sk => by simp [countGo]
  | x :: xs, 0 => by simp
  | x :: xs, sk + 1 => by
    rw [countGo, List.drop_succ_cons]
    exact countGo_skip K xs sk

theorem count_eq_countGo {K : Bytes} (hK : K ≠ []) (s : Bytes) : count s K = countGo K s 0 := by
  unfold count; simp [isEmpty_false hK]

theorem countGo_no_occ {K : Bytes} : (s : Bytes) → (sk : Nat) → (∀ i, ¬ OccAt K s i) → countGo K s sk = 0
  | [], _, _ => by simp [countGo]
  | x :: xs, sk + 1, h => by
    rw [countGo]
    exact countGo_no_occ xs sk (fun i => by rw [← occAt_cons_succ K x]; exact h (i + 1))
  | x :: xs, 0, h => by
    rw [countGo]
    have hp : K.isPrefixOf (x :: xs) = false := by
      cases hp : K.isPrefixOf (x :: xs)
      · rfl
      · exact absurd ((occAt_zero K _).mpr (List.isPrefixOf_iff_prefix.mp hp)) (h 0)
    simp only [hp, Bool.false_eq_true, if_false]
    exact countGo_no_occ xs 0 (fun i => by rw [← occAt_cons_succ K x]; exact h (i + 1))

theorem count_none {K : Bytes} (hK : K ≠ []) {s : Bytes} (h : indexOf s K = none) : count s K = 0 := by
  rw [count_eq_countGo hK]
  exact countGo_no_occ s 0 ((indexOf_none_iff hK s).mp h)

/-- `strings.Count` = 1 + the count behind the first occurrence -/
theorem countGo_some {K : Bytes} (hK : K ≠ []) : (s : Bytes) → (i : Nat) → indexOf s K = some i →
    countGo K s 0 = 1 + countGo K (s.drop (i + K.length)) 0
  | [], i, h => by simp [indexOf, isEmpty_false hK] at h
  | x :: xs, i, h => by
    have hlen : 0 < K.length := List.length_pos_iff.mpr hK
    unfold indexOf at h
    rw [countGo]
    by_cases hp : K.isPrefixOf (x :: xs) = true
    · simp only [hp, if_true, Option.some.injEq] at h ⊢
      subst h
      rw [countGo_skip]
      have : (0 + K.length) = (K.length - 1) + 1 := by omega
      rw [this, List.drop_succ_cons]
    · simp only [hp, Bool.false_eq_true, if_false] at h ⊢
      cases hi : indexOf xs K with
      | none => simp [hi] at h
      | some j =>
        simp only [hi, Option.map_some, Option.some.injEq] at h
        subst h
        rw [countGo_some hK xs j hi]
        have : j + 1 + K.length = (j + K.length) + 1 := by omega
        rw [this, List.drop_succ_cons]

/-! ### the right-to-left stripping loop -/

/-- `findGreedyParamLen`'s loop body, `n` times: cut the string at the last occurrence of `K`. -/
def stripR (K : Bytes) : Nat → Bytes → Bytes
  | 0, s => s
  | n + 1, s =>
    match lastIndexOf s K with
    | none => s
    | some k => stripR K n (s.take k)

theorem findGreedyLoop_eq_stripR (K : Bytes) : (i sc : Nat) → (s : Bytes) →
    findGreedyLoop K i sc s = stripR K (min i sc) s
  | 0, sc, s => by simp [findGreedyLoop, stripR]
  | i + 1, 0, s => by simp [findGreedyLoop, stripR]
  | i + 1, sc + 1, s => by
    have : min (i + 1) (sc + 1) = min i sc + 1 := by omega
    rw [this]
    unfold findGreedyLoop stripR
    cases lastIndexOf s K with
    | none => rfl
    | some k => exact findGreedyLoop_eq_stripR K i sc (s.take k)

theorem lastIndexOf_lt {K s : Bytes} {k : Nat} (hK : K ≠ []) (h : lastIndexOf s K = some k) : k < s.length := by
  have := occAt_bound hK ((lastIndexOf_some_iff hK s k).mp h).1
  have h2 : 0 < K.length := List.length_pos_iff.mpr hK
  omega

set_option linter.unusedVariables false in
/-- how many times the loop can strip: occurrences taken from the right, non-overlapping -/
def cntR (K : Bytes) (s : Bytes) : Nat :=
  if hK : K = [] then 0
  else
    match h : lastIndexOf s K with
    | none => 0
    | some k => 1 + cntR K (s.take k)
termination_by s.length
decreasing_by
  have := lastIndexOf_lt hK h
  simp only [List.length_take]; omega

theorem cntR_none {K s : Bytes} (h : lastIndexOf s K = none) : cntR K s = 0 := by
  unfold cntR
  split
  · rfl
  · split
    · rfl
    · rename_i k hk; rw [h] at hk; cases hk

theorem cntR_some {K s : Bytes} {k : Nat} (hK : K ≠ []) (h : lastIndexOf s K = some k) :
    cntR K s = 1 + cntR K (s.take k) := by
  conv => lhs; unfold cntR
  simp only [hK, dite_false]
  split
  · rename_i hk; rw [h] at hk; cases hk
  · rename_i k' hk; rw [h] at hk; cases hk; rfl

/-- **Counting from the left = stripping from the right.** `strings.Count(s, K)` (greedy,
    non-overlapping, left to right) is the number of times `strings.LastIndex` finds `K` when the
    string is cut at each hit — for every string and every non-empty key, self-overlapping ones
    included. -/
theorem count_eq_cntR {K : Bytes} (hK : K ≠ []) : (n : Nat) → (s : Bytes) → s.length ≤ n → countGo K s 0 = cntR K s
  | 0, s, hn => by
    have : s = [] := List.eq_nil_of_length_eq_zero (by omega)
    subst this
    rw [cntR_none ((lastIndexOf_none_iff hK []).mpr (not_occAt_nil hK))]
    rfl
  | n + 1, s, hn => by
    have hlen : 0 < K.length := List.length_pos_iff.mpr hK
    cases hi : indexOf s K with
    | none =>
      have hno := (indexOf_none_iff hK s).mp hi
      rw [countGo_no_occ s 0 hno, cntR_none ((lastIndexOf_none_iff hK s).mpr hno)]
    | some i =>
      obtain ⟨i1, i2⟩ := (indexOf_some_iff hK s i).mp hi
      cases hl : lastIndexOf s K with
      | none => exact absurd i1 ((lastIndexOf_none_iff hK s).mp hl i)
      | some j =>
        obtain ⟨j1, j2⟩ := (lastIndexOf_some_iff hK s j).mp hl
        have hib := occAt_bound hK i1
        have hjb := occAt_bound hK j1
        rw [countGo_some hK s i hi, cntR_some hK hl]
        rw [count_eq_cntR hK n (s.drop (i + K.length)) (by simp only [List.length_drop]; omega)]
        rw [← count_eq_cntR hK n (s.take j) (by simp only [List.length_take]; omega)]
        congr 1
        by_cases hij : i + K.length ≤ j
        · -- the first and the last occurrence are disjoint: peel both
          have hl2 : lastIndexOf (s.drop (i + K.length)) K = some (j - (i + K.length)) := by
            rw [lastIndexOf_some_iff hK]
            refine ⟨?_, fun p hp => ?_⟩
            · rw [occAt_drop]; have : i + K.length + (j - (i + K.length)) = j := by omega
              rw [this]; exact j1
            · rw [occAt_drop]; exact j2 _ (by omega)
          have hi2 : indexOf (s.take j) K = some i := by
            rw [indexOf_some_iff hK]
            refine ⟨?_, fun p hp => ?_⟩
            · rw [occAt_take]; exact ⟨i1, by omega⟩
            · rw [occAt_take]; exact fun hh => i2 p hp hh.1
          rw [cntR_some hK hl2, countGo_some hK (s.take j) i hi2]
          congr 1
          rw [List.drop_take]
          exact (count_eq_cntR hK n _ (by simp only [List.length_take, List.length_drop]; omega)).symm
        · -- they overlap (or coincide): nothing is left on either side
          have h1 : lastIndexOf (s.drop (i + K.length)) K = none := by
            rw [lastIndexOf_none_iff hK]
            intro q; rw [occAt_drop]; exact j2 _ (by omega)
          have h2 : ∀ p, ¬ OccAt K (s.take j) p := by
            intro p; rw [occAt_take]
            intro ⟨hh, hb⟩
            have : ¬ p < i := fun hp => i2 p hp hh
            omega
          rw [cntR_none h1, countGo_no_occ _ 0 h2]

/-! ### no occurrence straddles a boundary -/

/-- No occurrence of `K` in `a ++ b` that starts inside `a` reaches into `b`. -/
def NoStradP (K : Bytes) : Bytes → Bytes → Prop
  | [], _ => True
  | x :: xs, c => (K.isPrefixOf (x :: xs ++ c) = true → K.isPrefixOf (x :: xs) = true) ∧ NoStradP K xs c

theorem isPrefixOf_append_right {K a : Bytes} (c : Bytes) (h : K.isPrefixOf a = true) : K.isPrefixOf (a ++ c) = true := by
  rw [List.isPrefixOf_iff_prefix] at h ⊢
  exact h.trans (List.prefix_append a c)

theorem occ_nil_key {K : Bytes} (hK : K ≠ []) : occ [] K = 0 := by
  simp [occ, isEmpty_false hK]

/-- Occurrences (all positions) are super-additive, and additive only if none straddles. -/
theorem occ_append {K : Bytes} (hK : K ≠ []) (c : Bytes) : (a : Bytes) →
    occ a K + occ c K ≤ occ (a ++ c) K ∧ (occ (a ++ c) K ≤ occ a K + occ c K → NoStradP K a c)
  | [] => by simp [occ_nil_key hK, NoStradP]
  | x :: xs => by
    obtain ⟨ih1, ih2⟩ := occ_append hK c xs
    have e1 : occ (x :: xs ++ c) K = (if K.isPrefixOf (x :: xs ++ c) then 1 else 0) + occ (xs ++ c) K := by
      simp [occ]
    have e2 : occ (x :: xs) K = (if K.isPrefixOf (x :: xs) then 1 else 0) + occ xs K := by
      simp [occ]
    rw [e1, e2]
    by_cases h1 : K.isPrefixOf (x :: xs) = true
    · have h2 := isPrefixOf_append_right c h1
      simp only [h1, h2, if_true]
      refine ⟨by omega, fun h => ⟨fun _ => h1, ih2 (by omega)⟩⟩
    · by_cases h2 : K.isPrefixOf (x :: xs ++ c) = true
      · simp only [h1, h2, if_true, Bool.false_eq_true, if_false]
        refine ⟨by omega, fun h => ?_⟩
        omega
      · simp only [h1, h2, Bool.false_eq_true, if_false]
        refine ⟨by omega, fun h => ⟨fun hh => absurd hh h2, ih2 (by omega)⟩⟩

theorem occ_zero_no_occ {K : Bytes} (hK : K ≠ []) : (s : Bytes) → occ s K = 0 → ∀ i, ¬ OccAt K s i
  | [], _ => not_occAt_nil hK
  | x :: xs, h => by
    have e : occ (x :: xs) K = (if K.isPrefixOf (x :: xs) then 1 else 0) + occ xs K := by simp [occ]
    rw [e] at h
    have hp : ¬ K.isPrefixOf (x :: xs) = true := by
      intro hp; simp [hp] at h
    have ih := occ_zero_no_occ hK xs (by omega)
    intro i
    cases i with
    | zero => rw [occAt_zero]; intro hh; exact hp (List.isPrefixOf_iff_prefix.mpr hh)
    | succ i => rw [occAt_cons_succ]; exact ih i

theorem NoStradP.take {K : Bytes} (c : Bytes) (k : Nat) : (a : Bytes) → NoStradP K a c → NoStradP K a (c.take k)
  | [], _ => trivial
  | x :: xs, h => by
    refine ⟨fun hh => h.1 ?_, NoStradP.take c k xs h.2⟩
    rw [List.isPrefixOf_iff_prefix] at hh ⊢
    exact hh.trans ((List.prefix_append_right_inj (x :: xs)).mpr (List.take_prefix k c))

/-- positional form -/
theorem NoStradP.occAt {K : Bytes} (c : Bytes) : (a : Bytes) → NoStradP K a c → (j : Nat) → j < a.length →
    OccAt K (a ++ c) j → OccAt K a j
  | [], _, j, hj, _ => by simp at hj
  | x :: xs, h, 0, _, ho => by
    rw [occAt_zero] at ho ⊢
    exact List.isPrefixOf_iff_prefix.mp (h.1 (List.isPrefixOf_iff_prefix.mpr ho))
  | x :: xs, h, j + 1, hj, ho => by
    rw [List.cons_append, occAt_cons_succ] at ho
    rw [occAt_cons_succ]
    exact NoStradP.occAt c xs h.2 j (by simpa using hj) ho

/-- `strings.Count` is additive across a boundary no occurrence straddles. -/
theorem countGo_append {K : Bytes} (hK : K ≠ []) (c : Bytes) : (a : Bytes) → (sk : Nat) → sk ≤ a.length →
    NoStradP K a c → countGo K (a ++ c) sk = countGo K a sk + countGo K c 0
  | [], sk, hsk, _ => by
    have : sk = 0 := by simpa using hsk
    subst this; simp [countGo]
  | x :: xs, sk + 1, hsk, h => by
    rw [List.cons_append, countGo, countGo]
    exact countGo_append hK c xs sk (by simpa using hsk) h.2
  | x :: xs, 0, _, h => by
    rw [List.cons_append, countGo, countGo]
    by_cases h2 : K.isPrefixOf (x :: (xs ++ c)) = true
    · have h1 := h.1 h2
      have hb : K.length ≤ (x :: xs).length := (List.isPrefixOf_iff_prefix.mp h1).length_le
      simp only [h1, h2, if_true]
      rw [countGo_append hK c xs (K.length - 1) (by simp at hb; omega) h.2]
      omega
    · have h1 : ¬ K.isPrefixOf (x :: xs) = true := fun hh => h2 (isPrefixOf_append_right c hh)
      simp only [h1, h2, Bool.false_eq_true, if_false]
      exact countGo_append hK c xs 0 (by omega) h.2

/-- `strings.LastIndex` across a boundary no occurrence straddles. -/
theorem lastIndexOf_append {K : Bytes} (hK : K ≠ []) (c : Bytes) : (a : Bytes) → NoStradP K a c →
    lastIndexOf (a ++ c) K =
      match lastIndexOf c K with
      | some k => some (a.length + k)
      | none => lastIndexOf a K
  | [], _ => by
    have : lastIndexOf [] K = none := (lastIndexOf_none_iff hK []).mpr (not_occAt_nil hK)
    cases h : lastIndexOf c K <;> simp [this, h]
  | x :: xs, h => by
    have ih := lastIndexOf_append hK c xs h.2
    rw [List.cons_append]
    conv => lhs; unfold lastIndexOf
    rw [ih]
    cases hc : lastIndexOf c K with
    | some k => simp only [List.length_cons]; congr 1; omega
    | none =>
      simp only
      conv => rhs; unfold lastIndexOf
      cases hx : lastIndexOf xs K with
      | some j => rfl
      | none =>
        simp only
        by_cases h2 : K.isPrefixOf (x :: (xs ++ c)) = true
        · simp [h2, h.1 h2]
        · have h1 : ¬ K.isPrefixOf (x :: xs) = true := fun hh => h2 (isPrefixOf_append_right c hh)
          simp [h1, h2]

/-- the loop works on the right part alone as long as that still holds occurrences -/
theorem stripR_append {K : Bytes} (hK : K ≠ []) (a : Bytes) : (n : Nat) → (c : Bytes) → NoStradP K a c →
    n ≤ cntR K c → stripR K n (a ++ c) = a ++ stripR K n c
  | 0, c, _, _ => rfl
  | n + 1, c, h, hn => by
    cases hc : lastIndexOf c K with
    | none => rw [cntR_none hc] at hn; omega
    | some k =>
      rw [cntR_some hK hc] at hn
      unfold stripR
      rw [lastIndexOf_append hK c a h, hc]
      simp only
      rw [List.take_append, List.take_of_length_le (by omega)]
      have : a.length + k - a.length = k := by omega
      rw [this]
      exact stripR_append hK a n (c.take k) (h.take c k a) (by omega)

/-- After every strippable occurrence is gone, what is left is the string up to an occurrence, and
    holds no occurrence. -/
theorem stripR_all {K : Bytes} (hK : K ≠ []) : (n : Nat) → (f : Bytes) → f.length ≤ n → (∃ i, OccAt K f i) →
    ∃ j, stripR K (cntR K f) f = f.take j ∧ OccAt K f j ∧ ∀ p, ¬ OccAt K (f.take j) p
  | 0, f, hn, ⟨i, hi⟩ => by
    have := occAt_bound hK hi
    have h2 : 0 < K.length := List.length_pos_iff.mpr hK
    omega
  | n + 1, f, hn, ⟨i, hi⟩ => by
    cases hl : lastIndexOf f K with
    | none => exact absurd hi ((lastIndexOf_none_iff hK f).mp hl i)
    | some k =>
      obtain ⟨k1, _⟩ := (lastIndexOf_some_iff hK f k).mp hl
      have hkb := lastIndexOf_lt hK hl
      rw [cntR_some hK hl]
      have e : stripR K (1 + cntR K (f.take k)) f = stripR K (cntR K (f.take k)) (f.take k) := by
        rw [Nat.add_comm]; conv => lhs; unfold stripR
        rw [hl]
      rw [e]
      by_cases hex : ∃ i, OccAt K (f.take k) i
      · obtain ⟨j, j1, j2, j3⟩ := stripR_all hK n (f.take k) (by simp only [List.length_take]; omega) hex
        rw [occAt_take] at j2
        have hlen : 0 < K.length := List.length_pos_iff.mpr hK
        have hjk : j ≤ k := by omega
        have e2 : (f.take k).take j = f.take j := by rw [List.take_take]; congr 1; omega
        rw [e2] at j1 j3
        exact ⟨j, j1, j2.1, j3⟩
      · have hno : ∀ i, ¬ OccAt K (f.take k) i := fun i hh => hex ⟨i, hh⟩
        rw [cntR_none ((lastIndexOf_none_iff hK _).mpr hno)]
        exact ⟨k, rfl, k1, hno⟩

/-- **The loop lands on the first occurrence.** If `K` occurs at the very start of `f` and nowhere
    else within its first `|K|` bytes (no occurrence overlaps the one at 0), stripping every
    strippable occurrence leaves nothing. -/
theorem stripR_all_nil {K f : Bytes} (hK : K ≠ []) (h0 : OccAt K f 0)
    (hov : ∀ j, j < K.length → OccAt K f j → j = 0) : stripR K (cntR K f) f = [] := by
  obtain ⟨j, j1, j2, j3⟩ := stripR_all hK f.length f (Nat.le_refl _) ⟨0, h0⟩
  have hj : j < K.length := by
    rcases Nat.lt_or_ge j K.length with h | h
    · exact h
    · exact absurd ((occAt_take K f j 0).mpr ⟨h0, by omega⟩) (j3 0)
  rw [j1, hov j hj j2]; rfl

/-! ### the search text of a literal (`ComparePart`) inside that literal -/

/-- `utils.TrimRight(s, c)`: `s` is the trimmed string plus a run of `c`, and the trimmed string does
    not end in `c`. -/
theorem trimRight_spec (s : Bytes) (c : Nat) :
    ∃ sl, s = trimRight s c ++ sl ∧ (∀ x ∈ sl, x = c) ∧ (trimRight s c).getLast? ≠ some c := by
  refine ⟨(s.reverse.takeWhile (· == c)).reverse, ?_, ?_, ?_⟩
  · unfold trimRight
    rw [← List.reverse_append, List.takeWhile_append_dropWhile, List.reverse_reverse]
  · intro x hx
    rw [List.mem_reverse] at hx
    have h := List.all_takeWhile (l := s.reverse) (p := (· == c))
    rw [List.all_eq_true] at h
    simpa using h x hx
  · unfold trimRight
    rw [List.getLast?_reverse]
    have h := List.head?_dropWhile_not (· == c) s.reverse
    intro hh
    rw [hh] at h
    simp at h

theorem cmpOfConst_ne_nil {l : Bytes} (hl : l ≠ []) : cmpOfConst l ≠ [] := by
  unfold cmpOfConst
  split
  · split
    · simp
    · rename_i h; intro hh; rw [hh] at h; simp at h
  · exact hl

theorem cmpOfConst_length_le {l : Bytes} : (cmpOfConst l).length ≤ l.length := by
  unfold cmpOfConst
  split
  · split
    · simp; omega
    · exact (trimRight_prefix l SLASH).length_le
  · exact Nat.le_refl _

theorem trim_occ_zero {T sl : Bytes} {j : Nat} (hsl : ∀ x ∈ sl, x = SLASH) (hlast : T.getLast? ≠ some SLASH)
    (hj : j < T.length) (ho : OccAt T (T ++ sl) j) : j = 0 := by
  cases j with
  | zero => rfl
  | succ j =>
    exfalso
    unfold OccAt at ho
    rw [List.drop_append_of_le_length (by omega), List.prefix_iff_eq_take,
      List.take_append, List.take_of_length_le (by simp)] at ho
    simp only [List.length_drop] at ho
    have hlen := congrArg List.length ho
    simp only [List.length_append, List.length_drop, List.length_take] at hlen
    have hne2 : sl.take (T.length - (T.length - (j + 1))) ≠ [] := by
      intro hh
      have := congrArg List.length hh
      simp only [List.length_take, List.length_nil] at this
      omega
    apply hlast
    rw [ho, List.getLast?_append]
    cases hg : (sl.take (T.length - (T.length - (j + 1)))).getLast? with
    | none => exact absurd (List.getLast?_eq_none_iff.mp hg) hne2
    | some y =>
      have := hsl y (List.mem_of_mem_take (List.mem_of_getLast? hg))
      simp [this]

/-- The search text of a literal occurs in the literal only at offset 0, as far as occurrences
    overlapping that one go (it does not end in `/` unless it is a single `/`). -/
theorem cmpOfConst_occ_zero {l : Bytes} {j : Nat} (hj : j < (cmpOfConst l).length)
    (ho : OccAt (cmpOfConst l) l j) : j = 0 := by
  unfold cmpOfConst at hj ho
  by_cases h1 : l.length > 1
  · by_cases h2 : (trimRight l SLASH).isEmpty = true
    · simp only [h1, h2, if_true, List.length_singleton] at hj
      omega
    · simp only [h1, h2, if_true, Bool.false_eq_true, if_false] at hj ho
      obtain ⟨sl, hs, hsl, hlast⟩ := trimRight_spec l SLASH
      generalize trimRight l SLASH = T at *
      rw [hs] at ho
      exact trim_occ_zero hsl hlast hj ho
  · simp only [h1, if_false] at hj
    omega

/-! ### occurrences in a filled pattern -/

/-- Σ `strings.Count(literal, K)` over the literals of a pattern: what `PartCount` holds -/
def litCount (K : Bytes) : Pat → Nat
  | [] => 0
  | .lit l :: rest => count l K + litCount K rest
  | _ :: rest => litCount K rest

theorem fill_param' (t : Tok) (rest : Pat) (ds : List Bytes) (ht : t.isParam = true) :
    fill (t :: rest) ds = ds.headD [] ++ fill rest ds.tail := by
  cases t <;> simp [fill, Tok.isParam] at ht ⊢

theorem litOcc_param (K : Bytes) (t : Tok) (rest : Pat) (ht : t.isParam = true) :
    litOcc K (t :: rest) = litOcc K rest := by
  cases t <;> simp [litOcc, Tok.isParam] at ht ⊢

theorem litCount_param (K : Bytes) (t : Tok) (rest : Pat) (ht : t.isParam = true) :
    litCount K (t :: rest) = litCount K rest := by
  cases t <;> simp [litCount, Tok.isParam] at ht ⊢

/-- the literals' occurrences are all there in the fill -/
theorem litOcc_le_occ_fill {K : Bytes} (hK : K ≠ []) : (p : Pat) → (ds : List Bytes) →
    litOcc K p ≤ occ (fill p ds) K
  | [], _ => by simp [litOcc]
  | .lit l :: rest, ds => by
    have ih := litOcc_le_occ_fill hK rest ds
    have := (occ_append hK (fill rest ds) l).1
    simp only [litOcc, fill]; omega
  | .named n o :: rest, ds => by
    have ih := litOcc_le_occ_fill hK rest ds.tail
    have := (occ_append hK (fill rest ds.tail) (ds.headD [])).1
    rw [fill_param' _ _ _ rfl, litOcc_param _ _ _ rfl]; omega
  | .star :: rest, ds => by
    have ih := litOcc_le_occ_fill hK rest ds.tail
    have := (occ_append hK (fill rest ds.tail) (ds.headD [])).1
    rw [fill_param' _ _ _ rfl, litOcc_param _ _ _ rfl]; omega
  | .plus :: rest, ds => by
    have ih := litOcc_le_occ_fill hK rest ds.tail
    have := (occ_append hK (fill rest ds.tail) (ds.headD [])).1
    rw [fill_param' _ _ _ rfl, litOcc_param _ _ _ rfl]; omega

/-- a value in front of a fill whose occurrences are all the literals': the value holds none, none
    straddles into the fill, and the fill alone has the same property -/
theorem tight_value {K : Bytes} (hK : K ≠ []) (v : Bytes) (rest : Pat) (ds : List Bytes)
    (h : occ (v ++ fill rest ds) K = litOcc K rest) :
    occ v K = 0 ∧ occ (fill rest ds) K = litOcc K rest ∧ NoStradP K v (fill rest ds) := by
  have h1 := occ_append hK (fill rest ds) v
  have h2 := litOcc_le_occ_fill hK rest ds
  exact ⟨by omega, by omega, h1.2 (by omega)⟩

theorem tight_lit {K : Bytes} (hK : K ≠ []) (l : Bytes) (rest : Pat) (ds : List Bytes)
    (h : occ (l ++ fill rest ds) K = occ l K + litOcc K rest) :
    occ (fill rest ds) K = litOcc K rest ∧ NoStradP K l (fill rest ds) := by
  have h1 := occ_append hK (fill rest ds) l
  have h2 := litOcc_le_occ_fill hK rest ds
  exact ⟨by omega, h1.2 (by omega)⟩

/-- **`strings.Count` of a clean fill = Σ over the literals.** If the fill holds exactly the
    literals' occurrences of `K` (all positions), the non-overlapping count from the left is the sum
    of the per-literal counts. -/
theorem count_fill {K : Bytes} (hK : K ≠ []) : (p : Pat) → (ds : List Bytes) →
    occ (fill p ds) K = litOcc K p → countGo K (fill p ds) 0 = litCount K p
  | [], _, _ => by simp [fill, litCount, countGo]
  | .lit l :: rest, ds, h => by
    simp only [fill, litOcc] at h
    obtain ⟨h1, h2⟩ := tight_lit hK l rest ds h
    simp only [fill, litCount]
    rw [countGo_append hK _ l 0 (by omega) h2, count_fill hK rest ds h1, count_eq_countGo hK]
  | .named n o :: rest, ds, h => count_fill_param hK rfl rest ds h (count_fill hK rest ds.tail)
  | .star :: rest, ds, h => count_fill_param hK rfl rest ds h (count_fill hK rest ds.tail)
  | .plus :: rest, ds, h => count_fill_param hK rfl rest ds h (count_fill hK rest ds.tail)
where
  count_fill_param {K : Bytes} (hK : K ≠ []) {t : Tok} (ht : t.isParam = true) (rest : Pat) (ds : List Bytes)
      (h : occ (fill (t :: rest) ds) K = litOcc K (t :: rest))
      (ih : occ (fill rest ds.tail) K = litOcc K rest → countGo K (fill rest ds.tail) 0 = litCount K rest) :
      countGo K (fill (t :: rest) ds) 0 = litCount K (t :: rest) := by
    rw [fill_param' _ _ _ ht, litOcc_param _ _ _ ht] at h
    obtain ⟨h0, h1, h2⟩ := tight_value hK _ rest ds.tail h
    rw [fill_param' _ _ _ ht, litCount_param _ _ _ ht, countGo_append hK _ _ 0 (by omega) h2, ih h1,
      countGo_no_occ _ 0 (occ_zero_no_occ hK _ h0)]
    omega

/-- **Stage (ii-b): the greedy search on a clean fill**, for any search text `K` that fits into the
    following literal `l1` and occurs in it at offset 0 only (as far as occurrences overlapping that
    one go). A value `d` followed by the fill of `lit l1 :: rest2`, the whole string holding exactly
    the literals' occurrences of `K`: `strings.Count` sees as many non-overlapping occurrences as
    `PartCount` records, and stripping that many from the right leaves exactly the value. -/
theorem greedy_strip_key {K d l1 : Bytes} {rest2 : Pat} {ds : List Bytes} (hK : K ≠ [])
    (hle : K.length ≤ l1.length) (hz : ∀ j, j < K.length → OccAt K l1 j → j = 0)
    (hidx : indexOf (d ++ fill (.lit l1 :: rest2) ds) K = some d.length)
    (hocc : occ (d ++ fill (.lit l1 :: rest2) ds) K = litOcc K (.lit l1 :: rest2)) :
    count (d ++ fill (.lit l1 :: rest2) ds) K = litCount K (.lit l1 :: rest2) ∧
    stripR K (litCount K (.lit l1 :: rest2)) (d ++ fill (.lit l1 :: rest2) ds) = d := by
  obtain ⟨h0, h1, h2⟩ := tight_value hK d _ ds hocc
  have hcf := count_fill hK _ ds h1
  have hcnt : countGo K (d ++ fill (.lit l1 :: rest2) ds) 0 = litCount K (.lit l1 :: rest2) := by
    rw [countGo_append hK _ d 0 (by omega) h2, hcf, countGo_no_occ _ 0 (occ_zero_no_occ hK _ h0)]
    omega
  refine ⟨by rw [count_eq_countGo hK]; exact hcnt, ?_⟩
  have hN : litCount K (.lit l1 :: rest2) = cntR K (fill (.lit l1 :: rest2) ds) := by
    rw [← hcf]; exact count_eq_cntR hK _ _ (Nat.le_refl _)
  rw [hN, stripR_append hK d _ _ h2 (Nat.le_refl _)]
  have hocc0 : OccAt K (fill (.lit l1 :: rest2) ds) 0 := by
    have := ((indexOf_some_iff hK _ _).mp hidx).1
    exact (occAt_append_right K d _ 0).mp (by simpa using this)
  have hov : ∀ j, j < K.length → OccAt K (fill (.lit l1 :: rest2) ds) j → j = 0 := by
    intro j hj ho
    simp only [fill, litOcc] at h1 ho
    obtain ⟨_, hns⟩ := tight_lit hK l1 rest2 ds h1
    exact hz j hj (hns.occAt _ l1 j (by omega) ho)
  rw [stripR_all_nil hK hocc0 hov, List.append_nil]

/-- the search text of `findParamLen`'s `ComparePart`: the literal minus its trailing slashes -/
theorem greedy_strip {d l1 : Bytes} {rest2 : Pat} {ds : List Bytes} (hl1 : l1 ≠ [])
    (hidx : indexOf (d ++ fill (.lit l1 :: rest2) ds) (cmpOfConst l1) = some d.length)
    (hocc : occ (d ++ fill (.lit l1 :: rest2) ds) (cmpOfConst l1) = litOcc (cmpOfConst l1) (.lit l1 :: rest2)) :
    count (d ++ fill (.lit l1 :: rest2) ds) (cmpOfConst l1) = litCount (cmpOfConst l1) (.lit l1 :: rest2) ∧
    stripR (cmpOfConst l1) (litCount (cmpOfConst l1) (.lit l1 :: rest2)) (d ++ fill (.lit l1 :: rest2) ds) = d :=
  greedy_strip_key (cmpOfConst_ne_nil hl1) cmpOfConst_length_le (fun _ hj ho => cmpOfConst_occ_zero hj ho) hidx hocc

/-- the search text when the path holds the literal in full: the literal itself -/
theorem greedy_strip_full {d l1 : Bytes} {rest2 : Pat} {ds : List Bytes} (hl1 : l1 ≠ [])
    (hidx : indexOf (d ++ fill (.lit l1 :: rest2) ds) l1 = some d.length)
    (hocc : occ (d ++ fill (.lit l1 :: rest2) ds) l1 = litOcc l1 (.lit l1 :: rest2)) :
    count (d ++ fill (.lit l1 :: rest2) ds) l1 = litCount l1 (.lit l1 :: rest2) ∧
    stripR l1 (litCount l1 (.lit l1 :: rest2)) (d ++ fill (.lit l1 :: rest2) ds) = d :=
  greedy_strip_key hl1 (Nat.le_refl _) (fun j _ ho => by have := occAt_bound hl1 ho; omega) hidx hocc

/-- the search text differs from the literal only when it is shorter -/
theorem cmpOfConst_eq_of_length {l : Bytes} (h : ¬ l.length > (cmpOfConst l).length) : cmpOfConst l = l := by
  unfold cmpOfConst at h ⊢
  by_cases h1 : l.length > 1
  · rw [if_pos h1] at h ⊢
    by_cases h2 : (trimRight l SLASH).isEmpty = true
    · rw [if_pos h2] at h
      simp only [List.length_singleton] at h
      omega
    · rw [if_neg h2] at h ⊢
      have hp := trimRight_prefix l SLASH
      exact hp.eq_of_length (by have := hp.length_le; omega)
  · rw [if_neg h1]

/-! ### `PartCount` of the segment list of a token list -/

/-- third part of the `addParameterMetaInfo` invariant: a parameter with a non-empty `ComparePart`
    carries Σ `strings.Count(Const, ComparePart)` over the constants behind it. -/
def MetaOK3 : List Seg → Prop
  | [] => True
  | s :: rest =>
    (s.isParam = true → s.comparePart ≠ [] → s.partCount = partCountOf s.comparePart rest) ∧ MetaOK3 rest

end C03
namespace C02
theorem CoreL.partCountOf_eq (K : List Nat) {l l' : List Seg} (h : CoreL l l') :
    partCountOf K l' = partCountOf K l := by
  induction h with
  | nil => rfl
  | cons hab _ ih => simp only [partCountOf, hab.1, hab.2.1, ih]
end C02
namespace C03
open B C02

theorem metaForward_metaOK3 : (l l' : List Seg) → (∀ s ∈ l, s.partCount = 0) → metaForward l = some l' → MetaOK3 l'
  | [], l', _, h => by unfold metaForward at h; cases h; trivial
  | s :: rest, l', hpre, h => by
    unfold metaForward at h
    cases hr : metaForward rest with
    | none => simp [hr] at h
    | some rest' =>
      have ih := metaForward_metaOK3 rest rest' (fun x hx => hpre x (List.mem_cons_of_mem _ hx)) hr
      have hcore := metaForward_core rest rest' hr
      have h0 := hpre s (List.mem_cons_self ..)
      simp only [hr] at h
      cases hp : s.isParam
      · simp only [hp, Bool.false_eq_true, if_false] at h
        cases hl : s.const.getLast? with
        | none => simp [hl] at h
        | some l =>
          simp only [hl] at h
          by_cases hc : (l == SLASH && (s.isLast || nextOptional rest)) = true
          · rw [if_pos hc] at h; cases h
            exact ⟨fun hh => (by simp at hh), ih⟩
          · rw [if_neg hc] at h; cases h
            exact ⟨fun hh => (by rw [hp] at hh; cases hh), ih⟩
      · simp only [hp, if_true] at h
        cases h
        refine ⟨fun _ => ?_, ih⟩
        rw [hcore.partCountOf_eq]
        (repeat' split) <;> simp_all

theorem setCompareParts_partCount : (l : List Seg) → (∀ s ∈ l, s.partCount = 0) →
    ∀ s ∈ (setCompareParts l).1, s.partCount = 0
  | [], _ => by unfold setCompareParts; simp
  | s :: rest, h => by
    have ih := setCompareParts_partCount rest (fun x hx => h x (List.mem_cons_of_mem _ hx))
    have h0 := h s (List.mem_cons_self ..)
    unfold setCompareParts
    cases hp : s.isParam
    · simp only [Bool.false_eq_true, if_false]
      intro x hx
      rcases List.mem_cons.mp hx with rfl | hx
      · exact h0
      · exact ih x hx
    · simp only [if_true]
      intro x hx
      rcases List.mem_cons.mp hx with rfl | hx
      · exact h0
      · exact ih x hx

theorem markLast_partCount : (l : List Seg) → (∀ s ∈ l, s.partCount = 0) → ∀ s ∈ markLast l, s.partCount = 0
  | [], _ => by unfold markLast; simp
  | [s], h => by
    have h0 := h s (List.mem_cons_self ..)
    unfold markLast
    intro x hx
    rcases List.mem_cons.mp hx with rfl | hx
    · exact h0
    · cases hx
  | s :: t :: rest, h => by
    have ih := markLast_partCount (t :: rest) (fun x hx => h x (List.mem_cons_of_mem _ hx))
    unfold markLast
    intro x hx
    rcases List.mem_cons.mp hx with rfl | hx
    · exact h x (List.mem_cons_self ..)
    · exact ih x hx

theorem rawSegsOf_partCount : (p : Pat) → (wc pc : Nat) → ∀ s ∈ rawSegsOf p wc pc, s.partCount = 0
  | [], _, _, s, hs => by unfold rawSegsOf at hs; cases hs
  | t :: rest, wc, pc, s, hs => by
    cases t <;> unfold rawSegsOf at hs <;> rcases List.mem_cons.mp hs with rfl | hs
    all_goals first
      | exact rawSegsOf_partCount rest _ _ s hs
      | rfl

/-- The segment list of a token list carries the `PartCount` bookkeeping. -/
theorem segsOf_partCount {p : Pat} {segs : List Seg} (h : segsOf p = some segs) : MetaOK3 segs := by
  unfold segsOf addParameterMetaInfo at h
  exact metaForward_metaOK3 _ _
    (setCompareParts_partCount _ (markLast_partCount _ (rawSegsOf_partCount p 0 0))) h

theorem partCountOf_rawSegsOf (K : Bytes) : (p : Pat) → (wc pc : Nat) →
    partCountOf K (rawSegsOf p wc pc) = litCount K p
  | [], _, _ => rfl
  | .lit l :: rest, wc, pc => by
    simp only [rawSegsOf, partCountOf, litCount, partCountOf_rawSegsOf K rest wc pc]; rfl
  | .named n o :: rest, wc, pc => by
    simp only [rawSegsOf, partCountOf, litCount, partCountOf_rawSegsOf K rest wc pc]; simp
  | .star :: rest, wc, pc => by
    simp only [rawSegsOf, partCountOf, litCount, partCountOf_rawSegsOf K rest (wc + 1) pc]; simp
  | .plus :: rest, wc, pc => by
    simp only [rawSegsOf, partCountOf, litCount, partCountOf_rawSegsOf K rest wc (pc + 1)]; simp

end C03
