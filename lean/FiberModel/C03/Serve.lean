import FiberModel.C03.Complete
import FiberModel.C03.Parse
/-
C03 — the plumbing between the completeness induction (`getMatch_fill`, on a segment list) and the
route an app actually holds: `register` prettifies the pattern text (case folding, trailing
slashes), parses it, `Route.match` has shortcuts for "/" and "/*" and for parameter-free routes,
and `configDependentPaths` normalises the request path. Helper file for
`fill_served_partial` in Props.lean.
-/
namespace C03
open B C02

/-! ### the token list of the routed (prettified) pattern -/

/-- `register` lower-cases the whole pattern text unless CaseSensitive: literals *and* names. -/
def prettyTok (cfg : Config) : Tok → Tok
  | .lit t => .lit (foldBytes cfg t)
  | .named n o => .named (foldBytes cfg n) o
  | t => t

def prettyPat (cfg : Config) (p : Pat) : Pat := p.map (prettyTok cfg)

/-- a renaming of the named parameters -/
def renTok (g : Bytes → Bytes) : Tok → Tok
  | .named n o => .named (g n) o
  | t => t

theorem prettyPat_eq (cfg : Config) (p : Pat) : prettyPat cfg p = (foldPat cfg p).map (renTok (foldBytes cfg)) := by
  unfold prettyPat foldPat
  rw [List.map_map]
  apply List.map_congr_left
  intro t _
  cases t <;> simp [prettyTok, foldTok, renTok, foldBytes]

/-! ### nothing the completeness statement talks about depends on parameter names -/

theorem renTok_isParam (g : Bytes → Bytes) (t : Tok) : (renTok g t).isParam = t.isParam := by cases t <;> rfl
theorem renTok_isGreedy (g : Bytes → Bytes) (t : Tok) : (renTok g t).isGreedy = t.isGreedy := by cases t <;> rfl
theorem renTok_isOptional (g : Bytes → Bytes) (t : Tok) : (renTok g t).isOptional = t.isOptional := by cases t <;> rfl

theorem fill_ren (g : Bytes → Bytes) : (p : Pat) → (vs : List Bytes) → fill (p.map (renTok g)) vs = fill p vs
  | [], _ => rfl
  | t :: rest, vs => by
    cases t <;> simp [renTok, fill, fill_ren g rest]

theorem nextLit_ren (g : Bytes → Bytes) (p : Pat) : nextLit (p.map (renTok g)) = nextLit p := by
  cases p with
  | nil => rfl
  | cons t rest => cases t <;> rfl

theorem litOcc_ren (g : Bytes → Bytes) (k : Bytes) : (p : Pat) → litOcc k (p.map (renTok g)) = litOcc k p
  | [] => rfl
  | t :: rest => by cases t <;> simp [renTok, litOcc, litOcc_ren g k rest]

theorem delimNext_ren (g : Bytes → Bytes) (p : Pat) : delimNext (p.map (renTok g)) = delimNext p := by
  cases p with
  | nil => rfl
  | cons t rest => cases t <;> rfl

theorem delimited_ren (g : Bytes → Bytes) : (p : Pat) → Delimited (p.map (renTok g)) = Delimited p
  | [] => rfl
  | t :: rest => by
    simp only [List.map_cons, Delimited, renTok_isParam, delimNext_ren, delimited_ren g rest]

theorem cleanFillWith_ren (g : Bytes → Bytes) (key : Bytes → Bytes) : (p : Pat) → (vs : List Bytes) →
    cleanFillWith key (p.map (renTok g)) vs = cleanFillWith key p vs
  | [], vs => by cases vs <;> rfl
  | .lit l :: rest, vs => by simp only [List.map_cons, renTok, cleanFillWith, cleanFillWith_ren g key rest]
  | .named n o :: rest, vs => by
    cases vs with
    | nil => rfl
    | cons v vs' =>
      simp only [List.map_cons, renTok, cleanFillWith, cleanFillWith_ren g key rest, fill_ren, nextLit_ren,
        litOcc_ren, Tok.isOptional, Tok.isGreedy]
  | .star :: rest, vs => by
    cases vs with
    | nil => rfl
    | cons v vs' =>
      simp only [List.map_cons, renTok, cleanFillWith, cleanFillWith_ren g key rest, fill_ren, nextLit_ren,
        litOcc_ren]
  | .plus :: rest, vs => by
    cases vs with
    | nil => rfl
    | cons v vs' =>
      simp only [List.map_cons, renTok, cleanFillWith, cleanFillWith_ren g key rest, fill_ren, nextLit_ren,
        litOcc_ren]

theorem pathFor_ren (g : Bytes → Bytes) : (p : Pat) → (ds vs : List Bytes) → (path : Bytes) →
    PathFor p ds vs path → PathFor (p.map (renTok g)) ds vs path
  | [], _, _, _, h => h
  | .lit l :: rest, ds, vs, path, h => by
    simp only [List.map_cons, renTok, PathFor] at h ⊢
    exact pathFor_ren g rest ds vs _ h
  | .named n o :: rest, ds, vs, path, h => by
    cases ds with
    | nil => simp [PathFor] at h
    | cons d ds' =>
      cases vs with
      | nil => simp [PathFor] at h
      | cons v vs' =>
        simp only [List.map_cons, renTok, PathFor] at h ⊢
        exact ⟨h.1, pathFor_ren g rest ds' vs' _ h.2⟩
  | .star :: rest, ds, vs, path, h => by
    cases ds with
    | nil => simp [PathFor] at h
    | cons d ds' =>
      cases vs with
      | nil => simp [PathFor] at h
      | cons v vs' =>
        simp only [List.map_cons, renTok, PathFor] at h ⊢
        exact ⟨h.1, pathFor_ren g rest ds' vs' _ h.2⟩
  | .plus :: rest, ds, vs, path, h => by
    cases ds with
    | nil => simp [PathFor] at h
    | cons d ds' =>
      cases vs with
      | nil => simp [PathFor] at h
      | cons v vs' =>
        simp only [List.map_cons, renTok, PathFor] at h ⊢
        exact ⟨h.1, pathFor_ren g rest ds' vs' _ h.2⟩

theorem litsEscFree_ren (g : Bytes → Bytes) (p : Pat) (h : litsEscFree p) : litsEscFree (p.map (renTok g)) := by
  intro t ht l hl
  obtain ⟨t0, ht0, hmap⟩ := List.mem_map.mp ht
  subst hl
  cases t0 with
  | lit l0 => simp only [renTok, Tok.lit.injEq] at hmap; subst hmap; exact h _ ht0 l0 rfl
  | named _ _ => simp [renTok] at hmap
  | star => simp [renTok] at hmap
  | plus => simp [renTok] at hmap

/-! ### the prettified text is the text of the prettified token list -/

theorem lowerByte_fix {c : Nat} (h : isUpper c = false) : lowerByte c = c := by
  unfold lowerByte; simp [h]

theorem patText_prettyPat (cfg : Config) : (p : Pat) → patText (prettyPat cfg p) = foldBytes cfg (patText p)
  | [] => by unfold prettyPat foldBytes; split <;> rfl
  | t :: rest => by
    have ih := patText_prettyPat cfg rest
    unfold prettyPat at *
    rw [List.map_cons, patText_cons, patText_cons, ih]
    unfold foldBytes
    cases hcs : cfg.caseSensitive
    · simp only [Bool.false_eq_true, if_false, toLower_append]
      congr 1
      cases t with
      | lit l => simp [prettyTok, foldBytes, hcs, Tok.text]
      | named n o =>
        cases o <;> simp [prettyTok, foldBytes, hcs, Tok.text, toLower] <;> decide
      | star => rfl
      | plus => rfl
    · simp only [if_true]
      congr 1
      cases t <;> simp [prettyTok, foldBytes, hcs]

/-! ### the prettified token list is well-formed -/

theorem specialByte_lower {c : Nat} (h : specialByte c = false) : specialByte (lowerByte c) = false := by
  unfold lowerByte
  split
  · rename_i hu
    unfold isUpper at hu
    simp only [Bool.and_eq_true, decide_eq_true_eq] at hu
    unfold specialByte
    simp only [Bool.or_eq_false_iff, beq_eq_false_iff_ne, COLON, STAR, PLUS, QMARK, BSL, C02.LT, C02.GT]
    omega
  · exact h

theorem nameByte_lower {c : Nat} (h : nameByte c = true) : nameByte (lowerByte c) = true := by
  unfold lowerByte
  split
  · rename_i hu
    unfold isUpper at hu
    simp only [Bool.and_eq_true, decide_eq_true_eq] at hu
    have : isLower (c + 32) = true := by
      unfold isLower
      simp only [Bool.and_eq_true, decide_eq_true_eq]; omega
    unfold nameByte isAlpha
    simp [this]
  · exact h

theorem tokOK_pretty (cfg : Config) {t : Tok} (h : TokOK t) : TokOK (prettyTok cfg t) := by
  cases t with
  | lit l =>
    show TokOK (.lit (if cfg.caseSensitive then l else toLower l))
    cases cfg.caseSensitive
    · simp only [Bool.false_eq_true, if_false]
      refine ⟨fun hh => h.1 (List.map_eq_nil_iff.mp hh), fun c hc => ?_⟩
      obtain ⟨x, hx, rfl⟩ := List.mem_map.mp hc
      exact specialByte_lower (h.2 x hx)
    · exact h
  | named n o =>
    show TokOK (.named (if cfg.caseSensitive then n else toLower n) o)
    cases cfg.caseSensitive
    · simp only [Bool.false_eq_true, if_false]
      refine ⟨fun hh => h.1 (List.map_eq_nil_iff.mp hh), fun c hc => ?_⟩
      obtain ⟨x, hx, rfl⟩ := List.mem_map.mp hc
      exact nameByte_lower (h.2 x hx)
    · exact h
  | star => trivial
  | plus => trivial

theorem startsWithDelim_fold (cfg : Config) (l : Bytes) : startsWithDelim (foldBytes cfg l) = startsWithDelim l := by
  unfold foldBytes
  split
  · rfl
  · cases l with
    | nil => rfl
    | cons c cs =>
      simp only [toLower, List.map_cons, startsWithDelim]
      unfold lowerByte isUpper
      split
      · rename_i h
        simp only [Bool.and_eq_true, decide_eq_true_eq] at h
        have e1 : (c == SLASH) = false := by rw [beq_eq_false_iff_ne]; show c ≠ 47; omega
        have e2 : (c == DASH) = false := by rw [beq_eq_false_iff_ne]; show c ≠ 45; omega
        have e3 : (c == DOT) = false := by rw [beq_eq_false_iff_ne]; show c ≠ 46; omega
        have f1 : (c + 32 == SLASH) = false := by rw [beq_eq_false_iff_ne]; show c + 32 ≠ 47; omega
        have f2 : (c + 32 == DASH) = false := by rw [beq_eq_false_iff_ne]; show c + 32 ≠ 45; omega
        have f3 : (c + 32 == DOT) = false := by rw [beq_eq_false_iff_ne]; show c + 32 ≠ 46; omega
        simp [e1, e2, e3, f1, f2, f3]
      · rfl

theorem shapeOK_pretty (cfg : Config) : (p : Pat) → shapeOK (prettyPat cfg p) = shapeOK p
  | [] => rfl
  | [t] => by cases t <;> rfl
  | t :: t2 :: rest => by
    have ih := shapeOK_pretty cfg (t2 :: rest)
    unfold prettyPat at *
    simp only [List.map_cons] at ih ⊢
    cases t <;> cases t2 <;> simp [shapeOK, prettyTok, startsWithDelim_fold] at ih ⊢ <;> simp [ih]

theorem tokOK_prettyPat (cfg : Config) {p : Pat} (h : ∀ t ∈ p, TokOK t) : ∀ t ∈ prettyPat cfg p, TokOK t := by
  intro t ht
  unfold prettyPat at ht
  obtain ⟨t0, ht0, rfl⟩ := List.mem_map.mp ht
  exact tokOK_pretty cfg (h t0 ht0)

/-! ### trailing slashes: what `trailingOK` buys -/

theorem nameByte_ne_slash {c : Nat} (h : nameByte c = true) : c ≠ SLASH := by
  unfold nameByte isAlpha isUpper isLower isDigit at h
  simp only [Bool.or_eq_true, Bool.and_eq_true, decide_eq_true_eq, beq_iff_eq] at h
  show c ≠ 47; omega

theorem tokText_ne_nil {t : Tok} (hok : TokOK t) : t.text ≠ [] := by
  cases t with
  | lit l => exact hok.1
  | named n o => simp [Tok.text]
  | star => simp [Tok.text]
  | plus => simp [Tok.text]

theorem patText_ne_nil {p : Pat} (hok : ∀ t ∈ p, TokOK t) (hp : p ≠ []) : patText p ≠ [] := by
  cases p with
  | nil => exact absurd rfl hp
  | cons t rest =>
    rw [patText_cons]
    intro h
    exact tokText_ne_nil (hok t (List.mem_cons_self ..)) (List.append_eq_nil_iff.mp h).1

theorem paramText_last {t : Tok} (ht : t.isParam = true) (hok : TokOK t) : t.text.getLast? ≠ some SLASH := by
  cases t with
  | lit l => simp [Tok.isParam] at ht
  | named n o =>
    cases o
    · simp only [Tok.text, Bool.false_eq_true, if_false, List.append_nil]
      rw [getLast?_cons_append_ne _ _ hok.1]
      intro h
      exact nameByte_ne_slash (hok.2 _ (List.mem_of_getLast? h)) rfl
    · simp only [Tok.text, if_true]
      have : COLON :: n ++ [QMARK] = (COLON :: n) ++ [QMARK] := rfl
      rw [this, List.getLast?_append]
      simp [QMARK, SLASH]
  | star => simp [Tok.text, STAR, SLASH]
  | plus => simp [Tok.text, PLUS, SLASH]

/-- a pattern text ending in `/` ends in a literal, so every fill ends in `/` too -/
theorem fill_last_slash : (p : Pat) → (vs : List Bytes) → (∀ t ∈ p, TokOK t) →
    (patText p).getLast? = some SLASH → (fill p vs).getLast? = some SLASH
  | [], _, _, h => by simp [patText] at h
  | t :: rest, vs, hok, h => by
    have ht := hok t (List.mem_cons_self ..)
    have hokr : ∀ x ∈ rest, TokOK x := fun x hx => hok x (List.mem_cons_of_mem _ hx)
    rw [patText_cons, List.getLast?_append] at h
    by_cases hr : rest = []
    · subst hr
      simp only [patText, List.flatMap_nil, List.getLast?_nil, Option.none_or] at h
      cases t with
      | lit l => simpa [fill, Tok.text] using h
      | named n o => exact absurd h (paramText_last rfl ht)
      | star => exact absurd h (paramText_last rfl ht)
      | plus => exact absurd h (paramText_last rfl ht)
    · have hne := patText_ne_nil hokr hr
      cases hg : (patText rest).getLast? with
      | none => exact absurd (List.getLast?_eq_none_iff.mp hg) hne
      | some x =>
        rw [hg] at h
        simp only [Option.some_or, Option.some.injEq] at h
        have hx : (patText rest).getLast? = some SLASH := by rw [hg, h]
        cases t with
        | lit l =>
          have := fill_last_slash rest vs hokr hx
          simp only [fill, List.getLast?_append, this, Option.some_or]
        | named n o =>
          have := fill_last_slash rest vs.tail hokr hx
          simp only [fill, List.getLast?_append, this, Option.some_or]
        | star =>
          have := fill_last_slash rest vs.tail hokr hx
          simp only [fill, List.getLast?_append, this, Option.some_or]
        | plus =>
          have := fill_last_slash rest vs.tail hokr hx
          simp only [fill, List.getLast?_append, this, Option.some_or]

theorem toLower_last_slash {s : Bytes} (h : (toLower s).getLast? = some SLASH) : s.getLast? = some SLASH := by
  unfold toLower at h
  rw [List.getLast?_map] at h
  cases hg : s.getLast? with
  | none => rw [hg] at h; cases h
  | some x =>
    rw [hg] at h
    simp only [Option.map_some, Option.some.injEq] at h
    have : x = SLASH := by
      unfold lowerByte isUpper at h
      split at h
      · rename_i hh
        simp only [Bool.and_eq_true, decide_eq_true_eq] at hh
        have : SLASH = 47 := rfl
        omega
      · exact h
    rw [this]

theorem foldBytes_last_slash {cfg : Config} {s : Bytes} (h : (foldBytes cfg s).getLast? = some SLASH) :
    s.getLast? = some SLASH := by
  unfold foldBytes at h
  split at h
  · exact h
  · exact toLower_last_slash h

theorem foldBytes_length (cfg : Config) (s : Bytes) : (foldBytes cfg s).length = s.length := by
  unfold foldBytes; split <;> simp [toLower]

/-- the head of a well-formed token list -/
theorem wfPat_head {p : Pat} (h : WFPat p = true) : ∃ l' rest, p = .lit (SLASH :: l') :: rest := by
  unfold WFPat at h
  simp only [Bool.and_eq_true] at h
  cases p with
  | nil => simp at h
  | cons t rest =>
    cases t with
    | lit l =>
      cases l with
      | nil => simp at h
      | cons c l' =>
        have : c = SLASH := by simpa using h.1.1
        exact ⟨l', rest, by rw [this]⟩
    | named _ _ => simp at h
    | star => simp at h
    | plus => simp at h

/-- Under `trailingOK` the pattern text is strict-safe: StrictRouting, or one byte, or no trailing `/`. -/
theorem text_trailing {cfg : Config} {p : Pat} {vals : List Bytes} (hwf : WFPat p = true)
    (htr : trailingOK cfg p vals = true) :
    cfg.strictRouting = true ∨ (patText p).length ≤ 1 ∨ (patText p).getLast? ≠ some SLASH := by
  obtain ⟨hok, _⟩ := wfPat_tokOK hwf
  by_cases hl : (patText p).getLast? = some SLASH
  · have hf := fill_last_slash p vals hok hl
    unfold trailingOK at htr
    simp only [Bool.or_eq_true, decide_eq_true_eq, bne_iff_ne, ne_eq] at htr
    rcases htr with (h | h) | h
    · exact Or.inl h
    · right; left
      obtain ⟨l', rest, rfl⟩ := wfPat_head hwf
      simp only [fill, List.cons_append, List.length_cons, List.length_append] at h
      have hl' : l' = [] := List.eq_nil_of_length_eq_zero (by omega)
      have hfr : fill rest vals = [] := List.eq_nil_of_length_eq_zero (by omega)
      subst hl'
      by_cases hr : rest = []
      · subst hr; simp [patText, Tok.text]
      · exfalso
        have hokr : ∀ x ∈ rest, TokOK x := fun x hx => hok x (List.mem_cons_of_mem _ hx)
        have hne := patText_ne_nil hokr hr
        rw [patText_cons, List.getLast?_append] at hl
        cases hg : (patText rest).getLast? with
        | none => exact absurd (List.getLast?_eq_none_iff.mp hg) hne
        | some x =>
          rw [hg] at hl
          simp only [Option.some_or, Option.some.injEq] at hl
          have := fill_last_slash rest vals hokr (by rw [hg, hl])
          rw [hfr] at this; cases this
    · exact absurd hf h
  · exact Or.inr (Or.inr hl)

/-- `register`'s pattern normalisation on the text of a well-formed token list, under `trailingOK`:
    only the case folding happens. -/
theorem prettyPattern_text {cfg : Config} {p : Pat} {vals : List Bytes} (hwf : WFPat p = true)
    (htr : trailingOK cfg p vals = true) :
    prettyPattern cfg (patText p) = foldBytes cfg (patText p) ∧ rawPattern (patText p) = patText p := by
  obtain ⟨l', rest, hp⟩ := wfPat_head hwf
  have hT : ∃ T', patText p = SLASH :: T' := by rw [hp, patText_cons]; exact ⟨_, rfl⟩
  obtain ⟨T', hT⟩ := hT
  have h3 := text_trailing hwf htr
  rw [hT] at h3 ⊢
  constructor
  · unfold prettyPattern
    simp only [List.isEmpty_cons, Bool.false_eq_true, if_false, List.headD_cons, bne_self_eq_false]
    have hfold : (if (!cfg.caseSensitive) = true then toLower (SLASH :: T') else SLASH :: T') =
        foldBytes cfg (SLASH :: T') := by
      unfold foldBytes; cases cfg.caseSensitive <;> rfl
    rw [hfold]
    split
    · rename_i hc
      simp only [Bool.and_eq_true, Bool.not_eq_true', decide_eq_true_eq, foldBytes_length] at hc
      rcases h3 with h | h | h
      · rw [h] at hc; exact absurd hc.1 (by simp)
      · omega
      · exact trimRight_of_last_ne _ _ (fun hh => h (foldBytes_last_slash hh))
    · rfl
  · unfold rawPattern
    simp

/-- the request-side normalisation when the user-visible path is, up to the configuration's case
    folding, a fill satisfying `trailingOK` -/
theorem det_of_fill {cfg : Config} {p : Pat} {vals : List Bytes} {orig : Bytes}
    (htr : trailingOK cfg p vals = true)
    (horig : foldBytes cfg (configDependentPaths cfg orig).1 = foldBytes cfg (fill p vals)) :
    (configDependentPaths cfg orig).2 = foldBytes cfg (fill p vals) := by
  unfold configDependentPaths at horig ⊢
  simp only at horig ⊢
  have hfold : ∀ x : Bytes, (if (!cfg.caseSensitive) = true then toLower x else x) = foldBytes cfg x := by
    intro x; unfold foldBytes; cases cfg.caseSensitive <;> rfl
  rw [hfold, horig]
  split
  · rename_i hc
    simp only [Bool.and_eq_true, Bool.not_eq_true', decide_eq_true_eq, foldBytes_length, beq_iff_eq] at hc
    unfold trailingOK at htr
    simp only [Bool.or_eq_true, decide_eq_true_eq, bne_iff_ne, ne_eq] at htr
    rcases htr with (h | h) | h
    · rw [h] at hc; exact absurd hc.1.1 (by simp)
    · omega
    · exact absurd (foldBytes_last_slash hc.2) h
  · rfl

/-! ### the values "as put in, in the letter case of the request" -/

theorem foldVals_cons (cfg : Config) (v : Bytes) (vs : List Bytes) :
    foldVals cfg (v :: vs) = foldBytes cfg v :: foldVals cfg vs := by
  unfold foldVals foldBytes; cases cfg.caseSensitive <;> simp

/-- Whatever the user-visible path is, `slicesOf` cuts it at the value positions of the fill. -/
theorem pathFor_slices (cfg : Config) : (p : Pat) → (vals : List Bytes) → (path : Bytes) →
    vals.length = (p.filter (·.isParam)).length →
    PathFor (foldPat cfg p) (foldVals cfg vals) (slicesOf p vals path) path
  | [], vals, path, _ => by unfold foldPat PathFor slicesOf; rfl
  | .lit l :: rest, vals, path, h => by
    have ih := pathFor_slices cfg rest vals (path.drop l.length) (by simpa [Tok.isParam] using h)
    unfold foldPat at *
    simp only [List.map_cons, foldTok, PathFor, slicesOf]
    have : (if cfg.caseSensitive then l else toLower l).length = l.length := by split <;> simp [toLower]
    rw [this]; exact ih
  | .named n o :: rest, vals, path, h => slices_param cfg rfl rest vals path h (pathFor_slices cfg rest)
  | .star :: rest, vals, path, h => slices_param cfg rfl rest vals path h (pathFor_slices cfg rest)
  | .plus :: rest, vals, path, h => slices_param cfg rfl rest vals path h (pathFor_slices cfg rest)
where
  slices_param (cfg : Config) {t : Tok} (ht : t.isParam = true) (rest : Pat) (vals : List Bytes) (path : Bytes)
      (h : vals.length = ((t :: rest).filter (·.isParam)).length)
      (ih : ∀ (vals : List Bytes) (path : Bytes), vals.length = (rest.filter (·.isParam)).length →
        PathFor (foldPat cfg rest) (foldVals cfg vals) (slicesOf rest vals path) path) :
      PathFor (foldPat cfg (t :: rest)) (foldVals cfg vals) (slicesOf (t :: rest) vals path) path := by
    cases vals with
    | nil => simp [List.filter, ht] at h
    | cons v vs =>
      have h' : vs.length = (rest.filter (·.isParam)).length := by
        simp [List.filter, ht] at h; exact h
      have ih' := ih vs (path.drop v.length) h'
      have hft : foldTok cfg t = t := by cases t <;> simp [foldTok, Tok.isParam] at ht ⊢
      have hlen : (foldBytes cfg v).length = v.length := foldBytes_length cfg v
      have hsl : slicesOf (t :: rest) (v :: vs) path = path.take v.length :: slicesOf rest vs (path.drop v.length) := by
        cases t <;> simp [slicesOf, Tok.isParam] at ht ⊢
      unfold foldPat at *
      simp only [List.map_cons, hft, foldVals_cons, hsl]
      have : PathFor (t :: List.map (foldTok cfg) rest) (foldBytes cfg v :: foldVals cfg vs)
          (path.take v.length :: slicesOf rest vs (path.drop v.length)) path =
          (path.take (foldBytes cfg v).length = path.take v.length ∧
           PathFor (List.map (foldTok cfg) rest) (foldVals cfg vs) (slicesOf rest vs (path.drop v.length))
             (path.drop (foldBytes cfg v).length)) := by
        cases t <;> simp [PathFor, Tok.isParam] at ht ⊢
      rw [this, hlen]
      exact ⟨rfl, ih'⟩

/-- on the fill itself the slices are the values -/
theorem slicesOf_fill : (p : Pat) → (vals : List Bytes) → vals.length = (p.filter (·.isParam)).length →
    slicesOf p vals (fill p vals) = vals
  | [], vals, h => by
    simp at h; subst h; rfl
  | .lit l :: rest, vals, h => by
    simp only [slicesOf, fill, List.drop_left]
    exact slicesOf_fill rest vals (by simpa [Tok.isParam] using h)
  | .named n o :: rest, vals, h => by
    cases vals with
    | nil => simp [List.filter, Tok.isParam] at h
    | cons v vs =>
      simp only [slicesOf, fill, List.headD_cons, List.tail_cons, List.take_left, List.drop_left]
      rw [slicesOf_fill rest vs (by simpa [List.filter, Tok.isParam] using h)]
  | .star :: rest, vals, h => by
    cases vals with
    | nil => simp [List.filter, Tok.isParam] at h
    | cons v vs =>
      simp only [slicesOf, fill, List.headD_cons, List.tail_cons, List.take_left, List.drop_left]
      rw [slicesOf_fill rest vs (by simpa [List.filter, Tok.isParam] using h)]
  | .plus :: rest, vals, h => by
    cases vals with
    | nil => simp [List.filter, Tok.isParam] at h
    | cons v vs =>
      simp only [slicesOf, fill, List.headD_cons, List.tail_cons, List.take_left, List.drop_left]
      rw [slicesOf_fill rest vs (by simpa [List.filter, Tok.isParam] using h)]

/-! ### parameter names of the parsed pattern -/

theorem paramNames_len_core {l l' : List Seg} (h : CoreL l l') : (paramNames l').length = (paramNames l).length := by
  induction h with
  | nil => rfl
  | @cons a b as bs hab _ ih =>
    unfold paramNames at *
    simp only [List.length_map] at *
    simp only [List.filter_cons, hab.2.1]
    split <;> simp [ih]

theorem paramNames_rawSegsOf_len : (p : Pat) → (wc pc : Nat) →
    (paramNames (rawSegsOf p wc pc)).length = (p.filter (·.isParam)).length
  | [], _, _ => rfl
  | t :: rest, wc, pc => by
    have ih := paramNames_rawSegsOf_len rest
    unfold paramNames at *
    simp only [List.length_map] at *
    cases t with
    | lit l =>
      have e : (Tok.lit l).isParam = false := rfl
      simp only [rawSegsOf, List.filter_cons, e, Bool.false_eq_true, if_false]
      exact ih wc pc
    | named n o =>
      have e : (Tok.named n o).isParam = true := rfl
      simp only [rawSegsOf, List.filter_cons, e, if_true, List.length_cons]
      rw [ih wc pc]
    | star =>
      have e : Tok.star.isParam = true := rfl
      simp only [rawSegsOf, List.filter_cons, e, if_true, List.length_cons]
      rw [ih (wc + 1) pc]
    | plus =>
      have e : Tok.plus.isParam = true := rfl
      simp only [rawSegsOf, List.filter_cons, e, if_true, List.length_cons]
      rw [ih wc (pc + 1)]

theorem segsOf_params_len {p : Pat} {segs : List Seg} (h : segsOf p = some segs) :
    (paramNames segs).length = (p.filter (·.isParam)).length := by
  rw [paramNames_len_core (segsOf_ok h).1, paramNames_rawSegsOf_len]

theorem filter_isParam_pretty (cfg : Config) (p : Pat) :
    ((prettyPat cfg p).filter (·.isParam)).length = (p.filter (·.isParam)).length := by
  unfold prettyPat
  induction p with
  | nil => rfl
  | cons t rest ih => cases t <;> simp [prettyTok, Tok.isParam, List.filter_cons] at ih ⊢ <;> exact ih

/-! ### shapes behind `Route.match`'s shortcuts -/

theorem patText_noBSL : (p : Pat) → (∀ t ∈ p, TokOK t) → (patText p).contains BSL = false
  | [], _ => rfl
  | t :: rest, h => by
    have ih := patText_noBSL rest (fun x hx => h x (List.mem_cons_of_mem _ hx))
    have ht := h t (List.mem_cons_self ..)
    rw [patText_cons, List.contains_append, ih, Bool.or_false]
    cases t with
    | lit l => exact contains_false_of_forall (fun x hx => (not_special_facts (ht.2 x hx)).2.1)
    | named n o =>
      have hnm : BSL ∉ n := fun hx => (nameByte_facts (ht.2 _ hx)).2.2.1 rfl
      cases o <;> simp [Tok.text, hnm, BSL, COLON, QMARK]
    | star => decide
    | plus => decide

theorem wfPat_escFree {p : Pat} (h : WFPat p = true) : litsEscFree p := by
  intro t ht l hl
  subst hl
  have := (wfPat_tokOK h).1 _ ht
  exact contains_false_of_forall (fun x hx => (not_special_facts (this.2 x hx)).2.1)

/-- a well-formed token list without parameters is a single literal -/
theorem wfPat_noParam {p : Pat} (h : WFPat p = true) (hn : p.filter (·.isParam) = []) : ∃ l, p = [.lit l] := by
  obtain ⟨l', rest, rfl⟩ := wfPat_head h
  have hsh := (wfPat_tokOK h).2
  cases rest with
  | nil => exact ⟨_, rfl⟩
  | cons t2 r =>
    cases t2 with
    | lit l2 => simp [shapeOK] at hsh
    | named _ _ => simp [List.filter_cons, Tok.isParam] at hn
    | star => simp [List.filter_cons, Tok.isParam] at hn
    | plus => simp [List.filter_cons, Tok.isParam] at hn

theorem foldByte_eq {cfg : Config} {x k : Nat} (_hk : isUpper k = false) (hk2 : k < 97 ∨ 122 < k)
    (h : foldBytes cfg [x] = [k]) : x = k := by
  unfold foldBytes at h
  split at h
  · simpa using h
  · simp only [toLower, List.map_cons, List.map_nil, List.cons.injEq, and_true] at h
    unfold lowerByte at h
    split at h
    · rename_i hu
      unfold isUpper at hu
      simp only [Bool.and_eq_true, decide_eq_true_eq] at hu
      omega
    · exact h

theorem foldBytes_cons (cfg : Config) (x : Nat) (s : Bytes) :
    foldBytes cfg (x :: s) = foldBytes cfg [x] ++ foldBytes cfg s := by
  unfold foldBytes; split <;> simp [toLower]

/-- the catch-all shortcut `/*`: the only well-formed token list whose routed text is `/*` -/
theorem star_shape {cfg : Config} {p : Pat} (hwf : WFPat p = true)
    (h : foldBytes cfg (patText p) = [SLASH, STAR]) : p = [.lit [SLASH], .star] := by
  obtain ⟨hok, _⟩ := wfPat_tokOK hwf
  obtain ⟨l', rest, rfl⟩ := wfPat_head hwf
  have hokr : ∀ x ∈ rest, TokOK x := fun x hx => hok x (List.mem_cons_of_mem _ hx)
  have hlit := hok _ (List.mem_cons_self ..)
  rw [patText_cons] at h
  simp only [Tok.text, List.cons_append] at h
  rw [foldBytes_cons] at h
  have hlen := congrArg List.length h
  simp only [List.length_append, foldBytes_length, List.length_cons, List.length_nil] at hlen
  have hstar : specialByte STAR = true := by decide
  cases l' with
  | cons x l'' =>
    exfalso
    have hl0 : l'' = [] := List.eq_nil_of_length_eq_zero (by simp at hlen; omega)
    have hp0 : patText rest = [] := List.eq_nil_of_length_eq_zero (by simp at hlen; omega)
    subst hl0
    rw [hp0] at h
    have h1 : foldBytes cfg [SLASH] = [SLASH] := by unfold foldBytes; split <;> rfl
    rw [h1] at h
    simp only [List.append_nil, List.cons_append, List.nil_append, List.cons.injEq, true_and] at h
    have := foldByte_eq (by decide) (by decide) h
    have hx := hlit.2 x (by simp)
    rw [this, hstar] at hx; cases hx
  | nil =>
    simp only [List.nil_append] at h hlen
    have h1 : foldBytes cfg [SLASH] = [SLASH] := by unfold foldBytes; split <;> rfl
    rw [h1] at h
    simp only [List.cons_append, List.nil_append, List.cons.injEq, true_and] at h
    cases rest with
    | nil => simp [patText, foldBytes] at h; split at h <;> simp [toLower] at h
    | cons t rest2 =>
      have hokr2 : ∀ x ∈ rest2, TokOK x := fun x hx => hokr x (List.mem_cons_of_mem _ hx)
      have ht := hokr t (List.mem_cons_self ..)
      rw [patText_cons] at h hlen
      have hlen2 : t.text.length + (patText rest2).length = 1 := by
        simp only [List.length_append, List.length_nil] at hlen; omega
      have htne := tokText_ne_nil ht
      have htl : 0 < t.text.length := List.length_pos_iff.mpr htne
      have hr2 : rest2 = [] := by
        by_cases hr : rest2 = []
        · exact hr
        · have := List.length_pos_iff.mpr (patText_ne_nil hokr2 hr); omega
      subst hr2
      simp only [patText, List.flatMap_nil, List.append_nil] at h
      cases t with
      | lit l =>
        exfalso
        have hl1 : l.length = 1 := by simp [Tok.text, patText] at hlen2; exact hlen2
        obtain ⟨y, rfl⟩ := List.length_eq_one_iff.mp hl1
        have := foldByte_eq (by decide) (by decide) h
        have hy := ht.2 y (by simp)
        rw [this, hstar] at hy; cases hy
      | named n o =>
        exfalso
        have : 2 ≤ (Tok.named n o).text.length := by
          have := List.length_pos_iff.mpr ht.1
          simp [Tok.text]; omega
        omega
      | star => rfl
      | plus =>
        exfalso
        have := foldByte_eq (k := STAR) (x := PLUS) (by decide) (by decide) h
        cases this

/-! ### `ctx.Params(name)` on distinct names -/

/-- the test `Params` applies to each declared name -/
def nameMatch (cfg : Config) (a key : Bytes) : Bool :=
  a.length == key.length && (a == key || (!cfg.caseSensitive && equalFold a key))

theorem nameMatch_self (cfg : Config) (a : Bytes) : nameMatch cfg a a = true := by simp [nameMatch]

theorem paramsLookup_at (cfg : Config) (pre ns : List Bytes) (vpre vs : List Bytes) (k v : Bytes)
    (hl : pre.length = vpre.length) (hpre : ∀ a ∈ pre, nameMatch cfg a k = false) :
    paramsLookup cfg (pre ++ k :: ns) (vpre ++ v :: vs) k = v := by
  unfold paramsLookup
  have hz : (pre ++ k :: ns).zip ((vpre ++ v :: vs) ++ List.replicate (pre ++ k :: ns).length []) =
      pre.zip vpre ++ (k, v) :: ns.zip (vs ++ List.replicate (pre ++ k :: ns).length []) := by
    rw [List.append_assoc, List.zip_append hl]; rfl
  rw [hz, List.find?_append]
  have hnone : (pre.zip vpre).find? (fun nv => nv.1.length == k.length &&
      (nv.1 == k || (!cfg.caseSensitive && equalFold nv.1 k))) = none := by
    rw [List.find?_eq_none]
    intro x hx
    have hm := hpre x.1 (List.of_mem_zip hx).1
    unfold nameMatch at hm
    simp only [hm, Bool.false_eq_true, not_false_eq_true]
  rw [hnone]
  have := nameMatch_self cfg k
  unfold nameMatch at this
  simp [this]

/-- **`Params` returns the values by name** when the declared names are pairwise distinct under the
    comparison `Params` uses (exact, or case-insensitive unless CaseSensitive). -/
theorem paramsLookup_distinct (cfg : Config) : (pre ns vpre vs : List Bytes) → pre.length = vpre.length →
    ns.length = vs.length → (pre ++ ns).Pairwise (fun a c => nameMatch cfg a c = false) →
    ns.map (paramsLookup cfg (pre ++ ns) (vpre ++ vs)) = vs
  | _, [], _, vs, _, h, _ => by
    have : vs = [] := List.eq_nil_of_length_eq_zero h.symm
    subst this; rfl
  | pre, k :: ns, vpre, [], _, h, _ => by simp at h
  | pre, k :: ns, vpre, v :: vs, hl, h, hp => by
    rw [List.map_cons]
    have hpk : ∀ a ∈ pre, nameMatch cfg a k = false := by
      intro a ha
      rw [List.pairwise_append] at hp
      exact hp.2.2 a ha k (List.mem_cons_self ..)
    rw [paramsLookup_at cfg pre ns vpre vs k v hl hpk]
    congr 1
    have e1 : pre ++ k :: ns = (pre ++ [k]) ++ ns := by simp
    have e2 : vpre ++ v :: vs = (vpre ++ [v]) ++ vs := by simp
    rw [e1, e2]
    exact paramsLookup_distinct cfg (pre ++ [k]) ns (vpre ++ [v]) vs (by simp [hl]) (by simpa using h)
      (by rw [← e1]; exact hp)

end C03
