import FiberModel.C03.Model
/-
C03 — the property sentence as an executable check on one observation.

"For every pattern in the documented syntax whose parameters are each delimited by the end of the
 pattern or a following literal starting with '/', '-' or '.', and every path obtained by filling the
 parameters with values that create no additional occurrence of a literal that follows a parameter
 (optional parameters and '*' possibly empty, '+' and named values non-empty, named values free of
 '/'), the route matches and Params returns exactly those values. The decision ignores letter case
 unless CaseSensitive and a trailing slash unless StrictRouting, percent-decoding applies only with
 UnescapePath, and RoutePatternMatch answers exactly as dispatching the path to an app holding only
 that route."
-/
namespace C03
open B C02

/-- The request path is a rendering of the filled pattern under the configuration: after
    percent-decoding (only with UnescapePath), case folding (unless CaseSensitive) and trailing-slash
    removal (unless StrictRouting) it equals the equally normalised fill. -/
def pathIsFill (cfg : Config) (p : Pat) (vals : List Bytes) (reqPath : Bytes) : Bool :=
  (configDependentPaths cfg reqPath).2 == normPath cfg (fill p vals)

/-- Cut the user-visible path at the value boundaries of the fill: the values "as put in", in the
    letter case of the request. -/
def slicesOf : Pat → List Bytes → Bytes → List Bytes
  | [], _, _ => []
  | .lit t :: rest, vs, path => slicesOf rest vs (path.drop t.length)
  | _ :: rest, vs, path =>
    (path.take (vs.headD []).length) :: slicesOf rest vs.tail (path.drop (vs.headD []).length)

/-- Without StrictRouting the routing path has no trailing slash, so a filling is only
    distinguishable if it does not end in one (or is just "/"). -/
def trailingOK (cfg : Config) (p : Pat) (vals : List Bytes) : Bool :=
  cfg.strictRouting || (fill p vals).length ≤ 1 || (fill p vals).getLast? != some SLASH

/-- hypotheses of the completeness clause, all decidable -/
def completenessApplies (cfg : Config) (p : Pat) (vals : List Bytes) (reqPath : Bytes) : Bool :=
  WFPat p && Delimited p && vals.length == (p.filter (·.isParam)).length &&
  CleanFill (foldPat cfg p) (foldVals cfg vals) && trailingOK cfg p vals && pathIsFill cfg p vals reqPath

/-- fiber's `maxParams` (ctx.go): a request holds at most 30 parameter values; `register` refuses
    (panics on) a route that declares more, `getMatch` lets such a pattern match nothing. The model
    (`C02.register`, `C02.getMatch`) has no such bound – the completeness theorems hold for every
    parameter count (`fill_served_any_count`) – so the bound is part of the oracle and of the driver's
    rendering of the model, not of the model. -/
def maxParams : Nat := 30

def nparams (p : Pat) : Nat := (p.filter (·.isParam)).length

structure Obs3 where
  disp : Obs
  rpm : Option Bool      -- none = RoutePatternMatch panicked
  deriving DecidableEq, Repr

/-- first failing clause, or none. A well-formed pattern with at most `maxParams` parameters must be
    registered (one with more may be refused: nothing is demanded of a refused route; if it is
    accepted the clauses below apply to it like to any other). The values clause applies when the (decoded) request path is the
    fill itself up to letter case; a request that only differs by an ignored trailing slash is held
    to the decision only. -/
def specViolation (cfg : Config) (p : Pat) (vals : List Bytes) (reqPath : Bytes) (o : Obs3) : Option String :=
  if o.disp.panic then (if WFPat p && nparams p ≤ maxParams then some "wellformed-pattern-refused" else none)
  else if o.rpm != some (o.disp.ran == 1) then some "rpm-eq-dispatch"
  else if completenessApplies cfg p vals reqPath then
    (if o.disp.ran != 1 then some "fill-matches"
     else if (configDependentPaths cfg reqPath).1.length == (fill p vals).length &&
             o.disp.vals != slicesOf p vals (configDependentPaths cfg reqPath).1 then some "params-return-values"
     else none)
  else none

end C03
