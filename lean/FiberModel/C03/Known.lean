import FiberModel.C03.Spec
/-
C03 — region of the recorded known finding K1 (see known/C03.json).
-/
namespace C03.Known
open B C02 C03

/-- K1: the matcher ends a parameter at the first occurrence of the following literal *without its
    trailing slashes* (`ComparePart`; that is what lets `/a/:x/` + optional parameter accept the
    path without the slash). A value that contains the slash-less literal but creates no additional
    occurrence of the literal itself (StrictRouting, pattern slash-colon-x-dash-slash, i.e. a named parameter followed by the literal dash-slash, with `x = a-b`) is therefore cut short and the
    route does not match. Region: the sentence's `CleanFill` holds but the same condition for the
    slash-trimmed literals fails. -/
def K1 (cfg : Config) (p : Pat) (vals : List Bytes) : Bool :=
  CleanFill (foldPat cfg p) (foldVals cfg vals) && !CleanFillCmp (foldPat cfg p) (foldVals cfg vals)

end C03.Known
