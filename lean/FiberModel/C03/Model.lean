import FiberModel.C02.Model
import FiberModel.C02.Spec
/-
C03 — the documented pattern syntax as a token list, filling, and the hypotheses of the
completeness statement (`Delimited`, `CleanFill`). The parser/matcher model itself is C02's
(`FiberModel/C02/Model.lean`); this file adds only the structured view of a pattern that the
property sentence quantifies over. Core Lean only (linked into the driver).
-/
namespace C03
open B C02

/-- One token of the documented syntax: literal text, `:name` / `:name?`, `*`, `+`. -/
inductive Tok
  | lit (t : Bytes)
  | named (name : Bytes) (opt : Bool)
  | star
  | plus
  deriving DecidableEq, Repr

abbrev Pat := List Tok

def Tok.isParam : Tok → Bool
  | .lit _ => false
  | _ => true

def Tok.isGreedy : Tok → Bool
  | .star | .plus => true
  | _ => false

def Tok.isOptional : Tok → Bool
  | .named _ o => o
  | .star => true
  | _ => false

/-- the pattern text a user writes -/
def Tok.text : Tok → Bytes
  | .lit t => t
  | .named n o => COLON :: n ++ (if o then [QMARK] else [])
  | .star => [STAR]
  | .plus => [PLUS]

def patText (p : Pat) : Bytes := p.flatMap Tok.text

/-- What `analyseConstantPart` / `analyseParameterPart` produce for each token (before
    `markLast` / `addParameterMetaInfo`); `wc` / `pc` number the wildcards and plus parameters. -/
def rawSegsOf : Pat → Nat → Nat → List Seg
  | [], _, _ => []
  | .lit t :: rest, wc, pc => { const := t, length := t.length } :: rawSegsOf rest wc pc
  | .named n o :: rest, wc, pc =>
    { paramName := n, isParam := true, isOptional := o } :: rawSegsOf rest wc pc
  | .star :: rest, wc, pc =>
    { paramName := [STAR] ++ natToDec (wc + 1), isParam := true, isOptional := true, isGreedy := true } ::
      rawSegsOf rest (wc + 1) pc
  | .plus :: rest, wc, pc =>
    { paramName := [PLUS] ++ natToDec (pc + 1), isParam := true, isGreedy := true } ::
      rawSegsOf rest wc (pc + 1)

/-- the segment list the router works with for this pattern -/
def segsOf (p : Pat) : Option (List Seg) := addParameterMetaInfo (markLast (rawSegsOf p 0 0))

/-- substitute values for the parameters -/
def fill : Pat → List Bytes → Bytes
  | [], _ => []
  | .lit t :: rest, vs => t ++ fill rest vs
  | _ :: rest, vs => vs.headD [] ++ fill rest vs.tail

def startsWithDelim (t : Bytes) : Bool :=
  match t with
  | c :: _ => c == SLASH || c == DASH || c == DOT
  | [] => false

def delimNext : Pat → Bool
  | [] => true
  | .lit l :: _ => startsWithDelim l
  | _ => false

/-- "each parameter is delimited by the end of the pattern or a following literal starting with
    `/`, `-` or `.`" -/
def Delimited : Pat → Bool
  | [] => true
  | t :: rest => (if t.isParam then delimNext rest else true) && Delimited rest

def specialByte (c : Nat) : Bool :=
  c == COLON || c == STAR || c == PLUS || c == QMARK || c == BSL || c == C02.LT || c == C02.GT

def nameByte (c : Nat) : Bool := isAlpha c || isDigit c || c == 95

/-- no two literals in a row; a parameter is followed by the end of the pattern or a literal, and
    behind a *named* parameter that literal starts with `/`, `-` or `.` (any other byte would be read
    as part of the name) -/
def shapeOK : Pat → Bool
  | .lit _ :: .lit _ :: _ => false
  | .lit l :: rest => shapeOK rest
  | .named _ _ :: rest =>
    (match rest with | [] => true | .lit l :: _ => startsWithDelim l | _ => false) && shapeOK rest
  | _ :: rest => (match rest with | [] => true | .lit _ :: _ => true | _ => false) && shapeOK rest
  | [] => true

/-- Token lists that are the structured form of a pattern text: first token a literal starting with
    `/`, literals non-empty and free of the syntax' special bytes, names non-empty alphanumerics,
    and `shapeOK`. (Adjacent parameters and escaped characters are covered by C02's generator.) -/
def WFPat (p : Pat) : Bool :=
  (match p with | .lit (c :: _) :: _ => c == SLASH | _ => false) &&
  p.all (fun t => match t with
    | .lit t => !t.isEmpty && !t.any specialByte
    | .named n _ => !n.isEmpty && n.all nameByte
    | _ => true) &&
  shapeOK p

/-- The literal directly behind a parameter, if any. -/
def nextLit : Pat → Option Bytes
  | .lit l :: _ => some l
  | _ => none

/-- number of positions at which `k` occurs in `s` (all occurrences, overlapping ones included) -/
def occ : Bytes → Bytes → Nat
  | [], k => if k.isEmpty then 1 else 0
  | x :: xs, k => (if k.isPrefixOf (x :: xs) then 1 else 0) + occ xs k

/-- occurrences of `k` inside the literals of a pattern -/
def litOcc (k : Bytes) : Pat → Nat
  | [] => 0
  | .lit l :: rest => occ l k + litOcc k rest
  | _ :: rest => litOcc k rest

/-- `CleanFill` for one choice of "the search text of a literal" (`key`): the property sentence's
    reading uses the literal itself (`key = id`) – that is also what the matcher searches for on a
    filled path since the repair of former known finding K1 (`C02.fullConst`); `key = cmpOfConst`
    (the literal without its trailing slashes, `ComparePart`) only describes the region that finding
    covered.

    For every parameter with value `v` and everything behind it rendered as `tail`:
    * named values and `+` are non-empty unless optional; named values contain no `/`;
    * if a literal `L` follows: the first occurrence of `key L` in `v ++ tail` is the one at the end
      of `v` (the value creates no earlier occurrence, also none straddling the boundary), and for a
      greedy parameter `v ++ tail` holds exactly as many occurrences of `key L` (all positions,
      overlapping ones included) as the literals behind the parameter do – no value creates one,
      not even one overlapping a literal. -/
def cleanFillWith (key : Bytes → Bytes) : Pat → List Bytes → Bool
  | [], [] => true
  | [], _ :: _ => false
  | .lit _ :: rest, vs => cleanFillWith key rest vs
  | t :: rest, vs =>
    match vs with
    | [] => false
    | v :: vs' =>
      let tail := fill rest vs'
      (t.isOptional || !v.isEmpty) &&
      (t.isGreedy || !v.contains SLASH) &&
      (match nextLit rest with
       | none => true
       | some l =>
         indexOf (v ++ tail) (key l) == some v.length &&
         (!t.isGreedy || occ (v ++ tail) (key l) == litOcc (key l) rest)) &&
      cleanFillWith key rest vs'

/-- Stage (ii-a) of DESIGN §6 C03: behind every greedy parameter that is followed by a literal, the
    literal's search text occurs only once in the rest of the path. -/
def greedyOnce (key : Bytes → Bytes) : Pat → List Bytes → Bool
  | [], _ => true
  | .lit _ :: rest, vs => greedyOnce key rest vs
  | t :: rest, vs =>
    (match nextLit rest with
     | none => true
     | some l => !t.isGreedy || decide (count (vs.headD [] ++ fill rest vs.tail) (key l) ≤ 1)) &&
    greedyOnce key rest vs.tail

/-- the property sentence's hypothesis on the values -/
def CleanFill (p : Pat) (vals : List Bytes) : Bool := cleanFillWith id p vals

/-- configuration-normalised pattern / values (case folding) -/
def foldTok (cfg : Config) : Tok → Tok
  | .lit t => .lit (if cfg.caseSensitive then t else toLower t)
  | t => t

def foldPat (cfg : Config) (p : Pat) : Pat := p.map (foldTok cfg)
def foldVals (cfg : Config) (vs : List Bytes) : List Bytes :=
  if cfg.caseSensitive then vs else vs.map toLower

end C03
