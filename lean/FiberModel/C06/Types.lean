/-
C06 — vocabulary of the regenerated accessor table (`FiberModel/Generated/C06Facts.lean`, written by
translator/c06 on every check run). Core Lean only.
-/
namespace C06

/-- Provenance atoms of a returned value (see translator/c06/main.go). -/
inductive Src where
  | owned    -- literal / fresh allocation / `string(b)` / `utils.Copy*` / strconv …
  | imm      -- through `app.getString` / `app.getBytes` (or an `if Immutable { copy }` guard): copy iff Immutable
  | alias    -- storage recycled between requests (fasthttp buffers, `append(buf[:0], …)`, sub-slices of them)
  | arg      -- an argument of the accessor itself (the caller's own data)
  | reqobj   -- a request/response object handed to a binder (its extraction has its own rows)
  | unknown  -- not understood by the translator: NOT proved
  deriving DecidableEq, Repr, Inhabited

/-- Which configuration a return site is reachable in. -/
inductive Guard where
  | always | immOnly | mutOnly
  deriving DecidableEq, Repr, Inhabited

structure Ret where
  guard : Guard
  srcs : List Src
  deriving DecidableEq, Repr, Inhabited

/-- What a row of the table describes. -/
inductive Kind where
  | ctx       -- exported method of DefaultCtx (and its Req()/Res() facades)
  | generic   -- generic helper taking a Ctx (Query, Params, GetReqHeader)
  | redirect  -- flash-message readers of Redirect
  | binder    -- key / value handed to formatBindData inside package binder
  | bind      -- what a method of fiber.Bind feeds to its binder
  | conv      -- the copying conversion itself (getStringImmutable …, installed under Immutable)
  deriving DecidableEq, Repr, Inhabited

/-- One accessor. -/
structure Row where
  kind : Kind
  name : String
  rets : List Ret
  /-- recycled storage the accessor (or a callee) writes IN PLACE: context fields reused through
      `append(f[:0], …)`, `f = x[:0]`, `clear`/`delete`/`copy`/element assignment, and fasthttp objects
      changed through a mutator (`fasthttp.SetBodyRaw` …). Only extracted for `ctx` / `generic` rows. -/
  writes : List String := []
  deriving DecidableEq, Repr, Inhabited

end C06
