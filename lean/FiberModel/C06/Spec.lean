import FiberModel.C06.Model
/-
C06 — the property as an executable predicate over what the harness observed for ONE accessor:
the text of the value the handler obtained, read (a) when it was obtained, (b) at the end of the
handler, (c) after later requests recycled the context and every buffer (`none` when `Immutable` is
off: the property promises nothing then), plus the reference text (`none` when the accessor has no
transcribed semantics).

  "With the Immutable option enabled, every string or byte slice a handler obtains from the context …
   keeps its content after the handler returns, however many later requests reuse the same context
   and buffers. Without the option the same values are correct and stable at least until the handler
   returns."
-/
namespace C06
open B

structure Obs where
  during : List Bytes
  atEnd : List Bytes
  after : Option (List Bytes)

/-- First failing clause for one accessor, or `none`. -/
def specViolation (immutable : Bool) (want : Option (List Bytes)) (o : Obs) : Option String :=
  if (match want with | some w => o.during != w | none => false) then some "correct"
  else if o.atEnd != o.during then some "stable-until-return"
  else if immutable && (match o.after with | some a => a != o.during | none => true) then some "immutable-stable"
  else none

/-- What the harness records for ONE value `v` captured while the storage was `st`: its content at
    capture, at the end of the handler (storage untouched), and – with the option – after history `h`. -/
def observeVal (immutable : Bool) (st : Store) (h : List Overwrite) (v : Val) : Obs :=
  { during := [v.read st], atEnd := [v.read st], after := if immutable then some [v.read (st.after h)] else none }

end C06
