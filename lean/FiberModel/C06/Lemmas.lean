import FiberModel.C06.Spec
/-
C06 — helper lemmas for Props.lean.
-/
namespace C06
open B

theorem okImmutable_atom {r : Row} (hr : r.okImmutable = true) {ret : Ret} (hret : ret ∈ r.rets)
    (hreach : ret.reachableImmutable = true) {s : Src} (hs : s ∈ ret.srcs) (hobj : s ≠ .reqobj) :
    s.copiesWhenImmutable = true := by
  unfold Row.okImmutable at hr
  rw [List.all_eq_true] at hr
  have h1 := hr ret hret
  simp only [hreach, Bool.not_true, Bool.false_or, Bool.and_eq_true, List.all_eq_true] at h1
  have h2 := h1.2 s hs
  rcases Bool.or_eq_true _ _ |>.mp h2 with h | h
  · exact h
  · simp only [Bool.and_eq_true, beq_iff_eq] at h
    exact absurd h.2 hobj

/-- Reading a sub-slice is slicing what the parent reads – in every state of the storage. -/
theorem sub_read (v : Val) (off len : Nat) (st : Store) :
    (v.sub off len).read st = ((v.read st).drop off).take len := by
  cases v with
  | owned bs => rfl
  | view buf o l =>
    simp only [Val.sub, Val.read]
    rw [List.drop_take, List.drop_drop, List.take_take]

end C06
