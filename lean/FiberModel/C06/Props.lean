import FiberModel.C06.Model
import FiberModel.Generated.C06Facts
/-
C06 — property theorems. The table `C06.Facts.rows` is regenerated from the fiber sources by
translator/c06 on every check run; `all_accessors_copy_when_immutable` and
`all_accessors_yield_text` are closed by `decide` over the WHOLE table, so a source change that
makes any accessor skip the copying conversion (or that the translator cannot classify) breaks the
build of this module.
-/
namespace C06
open B

/-- An owned value is unchanged by any later history of buffer overwrites. -/
theorem owned_stable (st : Store) (h : List Overwrite) (bs : Bytes) :
    (Val.owned bs).read (st.after h) = (Val.owned bs).read st := rfl

/-- Until the handler returns (no request has been served in between, so the storage is still
    `st`) every value – owned or view, either configuration – reads as the text it was taken from. -/
theorem view_valid_until_return (immutable : Bool) (st : Store) (site : Site) (s : Src) (v : Val)
    (hv : materialise immutable st site s = some v) : v.read st = expected st site s := by
  cases s <;> simp [materialise] at hv
  · subst hv; rfl
  · subst hv; cases immutable <;> rfl
  · subst hv; rfl
  · subst hv; rfl

/-- A copying atom yields an owned value when `Immutable` is set. -/
theorem copying_atom_owned (st : Store) (site : Site) (s : Src) (hs : s.copiesWhenImmutable = true) :
    ∃ v, materialise true st site s = some v ∧ v.isOwned = true := by
  cases s <;> simp [Src.copiesWhenImmutable] at hs <;> simp [materialise, Val.isOwned]

/-- **Obligation over the regenerated table.** Every accessor row (context methods, generic helpers,
    redirect readers, binder key/value extraction, binder sources, the conversion itself) returns,
    on every return site reachable with `Immutable` set, only through copying atoms. -/
theorem all_accessors_copy_when_immutable : Facts.rows.all Row.okImmutable = true := by decide

/-- Rows whose reachable-under-Immutable return sites were all understood and are non-empty; the
    non-Immutable half additionally needs every other return site to denote text at all. -/
def Row.yieldsText (r : Row) : Bool :=
  r.rets.all fun ret => !ret.srcs.isEmpty && ret.srcs.all fun s => s != .unknown && (s != .reqobj || r.kind == .bind)

/-- **Obligation over the regenerated table** for the half without the option: every return site
    of every row is classified (no `unknown`). -/
theorem all_accessors_yield_text : Facts.rows.all Row.yieldsText = true := by decide

theorem okImmutable_atom {r : Row} (hr : r.okImmutable = true) {ret : Ret} (hret : ret ∈ r.rets)
    (hreach : ret.reachableImmutable = true) {s : Src} (hs : s ∈ ret.srcs) (hobj : s ≠ .reqobj) :
    s.copiesWhenImmutable = true := by
  unfold Row.okImmutable at hr
  rw [List.all_eq_true] at hr
  have h1 := hr ret hret
  simp only [hreach, Bool.not_true, Bool.false_or, Bool.and_eq_true, List.all_eq_true] at h1
  have h2 := h1.2 s hs
  rcases Bool.or_eq_true _ _ |>.mp h2 with h | h
  · exact h
  · simp only [Bool.and_eq_true, beq_iff_eq] at h
    exact absurd h.2 hobj

/-- **Main theorem (Immutable half).** For every accessor of the regenerated table, every return
    site reachable with `Immutable` set, every atom it may yield, every state of the recycled storage
    at capture time and EVERY later history of overwrites: the value the handler obtained reads, after
    that history, exactly as the text it was taken from. -/
theorem immutable_values_stable (r : Row) (hr : r ∈ Facts.rows) (ret : Ret) (hret : ret ∈ r.rets)
    (hreach : ret.reachableImmutable = true) (s : Src) (hs : s ∈ ret.srcs) (hobj : s ≠ .reqobj)
    (st : Store) (site : Site) (h : List Overwrite) :
    ∃ v, materialise true st site s = some v ∧ v.read (st.after h) = expected st site s := by
  have hok : r.okImmutable = true := (List.all_eq_true.mp all_accessors_copy_when_immutable) r hr
  have hc := okImmutable_atom hok hret hreach hs hobj
  cases s <;> simp [Src.copiesWhenImmutable] at hc <;> simp [materialise, Val.read, expected]

/-- **Main theorem (half without the option).** For every accessor of the table, every return site
    and atom, in either configuration: the value exists and is correct as long as the storage has
    not been recycled (i.e. until the handler returns). -/
theorem values_valid_until_return (immutable : Bool) (r : Row) (hr : r ∈ Facts.rows) (ret : Ret)
    (hret : ret ∈ r.rets) (s : Src) (hs : s ∈ ret.srcs) (hobj : s ≠ .reqobj) (st : Store) (site : Site) :
    ∃ v, materialise immutable st site s = some v ∧ v.read st = expected st site s := by
  have hy : r.yieldsText = true := (List.all_eq_true.mp all_accessors_yield_text) r hr
  unfold Row.yieldsText at hy
  rw [List.all_eq_true] at hy
  have h1 := hy ret hret
  simp only [Bool.and_eq_true, List.all_eq_true] at h1
  have h2 := h1.2 s hs
  have hne : s ≠ .unknown := by
    intro he; subst he; simp at h2
  cases s
  case unknown => exact absurd rfl hne
  case reqobj => exact absurd rfl hobj
  all_goals (refine ⟨_, rfl, ?_⟩; first | rfl | (cases immutable <;> rfl))

/-! ### Non-vacuity and sharpness -/

/-- The table is not empty and names the accessors of the property. -/
example : (Facts.rows.filter (·.kind == .ctx)).length ≥ 20 := by decide
example : (Facts.rows.map (·.name)).contains "Params" = true := by decide
example : (Facts.rows.map (·.name)).contains "Protocol" = true := by decide

/-- Sharpness: a view (what `alias`, or `imm` without the option, yields) DOES change when a later
    request overwrites its buffer – "alice" becomes "bobby" – while the owned copy does not. -/
example :
    let st : Store := fun _ => b "/u/alice"
    let site : Site := ⟨0, 3, 5, []⟩
    let h := [Overwrite.mk 0 (b "/u/bobby")]
    (materialise false st site .imm).map (·.read (st.after h)) = some (b "bobby") ∧
    (materialise true st site .imm).map (·.read (st.after h)) = some (b "alice") ∧
    (materialise true st site .alias).map (·.read (st.after h)) = some (b "bobby") := by decide

/-- `okImmutable` rejects a row that returns an alias on a reachable site, accepts it when that
    site is only reachable without the option. -/
example : (Row.mk .ctx "X" [⟨.always, [.imm, .alias]⟩]).okImmutable = false := by decide
example : (Row.mk .ctx "X" [⟨.immOnly, [.owned]⟩, ⟨.mutOnly, [.alias]⟩]).okImmutable = true := by decide
example : (Row.mk .ctx "X" [⟨.always, [.unknown]⟩]).okImmutable = false := by decide

end C06
