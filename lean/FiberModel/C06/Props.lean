import FiberModel.C06.Lemmas
import FiberModel.Generated.C06Facts
/-
C06 — property theorems (helper lemmas: Lemmas.lean). The table `C06.Facts.rows` is regenerated from the fiber sources by
translator/c06 on every check run; `all_accessors_copy_when_immutable` and
`all_accessors_yield_text` are closed by `decide` over the WHOLE table, so a source change that
makes any accessor skip the copying conversion (or that the translator cannot classify) breaks the
build of this module.
-/
namespace C06
open B

/-- An owned value is unchanged by any later history of buffer overwrites. -/
theorem owned_stable (st : Store) (h : List Overwrite) (bs : Bytes) :
    (Val.owned bs).read (st.after h) = (Val.owned bs).read st := rfl

/-- Until the handler returns (no request has been served in between, so the storage is still
    `st`) every value – owned or view, either configuration – reads as the text it was taken from. -/
theorem view_valid_until_return (immutable : Bool) (st : Store) (site : Site) (s : Src) (v : Val)
    (hv : materialise immutable st site s = some v) : v.read st = expected st site s := by
  cases s <;> simp [materialise] at hv
  · subst hv; rfl
  · subst hv; cases immutable <;> rfl
  · subst hv; rfl
  · subst hv; rfl

/-- A copying atom yields an owned value when `Immutable` is set. -/
theorem copying_atom_owned (st : Store) (site : Site) (s : Src) (hs : s.copiesWhenImmutable = true) :
    ∃ v, materialise true st site s = some v ∧ v.isOwned = true := by
  cases s <;> simp [Src.copiesWhenImmutable] at hs <;> simp [materialise, Val.isOwned]

/-- **Obligation over the regenerated table.** Every accessor row (context methods, generic helpers,
    redirect readers, binder key/value extraction, binder sources, the conversion itself) returns,
    on every return site reachable with `Immutable` set, only through copying atoms. -/
theorem all_accessors_copy_when_immutable : Facts.rows.all Row.okImmutable = true := by decide

/-- **Obligation over the regenerated table** for the half without the option: every return site
    of every row is classified (no `unknown`). -/
theorem all_accessors_yield_text : Facts.rows.all Row.yieldsText = true := by decide

/-- **Obligation over the regenerated table.** Wherever a method of `Bind` hands a request or response
    object (not text) to a binder, the binder's own extraction – keys, values and the decoded data – is
    in the table too, hence (by `all_accessors_copy_when_immutable`) copying. This closes the one
    exception (`reqobj`) the main theorems make. -/
theorem bind_request_objects_extracted : Facts.rows.all (Row.bindCovered Facts.rows) = true := by decide

/-- **Main theorem (Immutable half).** For every accessor of the regenerated table, every return
    site reachable with `Immutable` set, every atom it may yield, every state of the recycled storage
    at capture time and EVERY later history of overwrites: the value the handler obtained reads, after
    that history, exactly as the text it was taken from. -/
theorem immutable_values_stable (r : Row) (hr : r ∈ Facts.rows) (ret : Ret) (hret : ret ∈ r.rets)
    (hreach : ret.reachableImmutable = true) (s : Src) (hs : s ∈ ret.srcs) (hobj : s ≠ .reqobj)
    (st : Store) (site : Site) (h : List Overwrite) :
    ∃ v, materialise true st site s = some v ∧ v.read (st.after h) = expected st site s := by
  have hok : r.okImmutable = true := (List.all_eq_true.mp all_accessors_copy_when_immutable) r hr
  have hc := okImmutable_atom hok hret hreach hs hobj
  cases s <;> simp [Src.copiesWhenImmutable] at hc <;> simp [materialise, Val.read, expected]

/-- **Main theorem (half without the option).** For every accessor of the table, every return site
    and atom, in either configuration: the value exists and is correct as long as the storage has
    not been recycled (i.e. until the handler returns). -/
theorem values_valid_until_return (immutable : Bool) (r : Row) (hr : r ∈ Facts.rows) (ret : Ret)
    (hret : ret ∈ r.rets) (s : Src) (hs : s ∈ ret.srcs) (hobj : s ≠ .reqobj) (st : Store) (site : Site) :
    ∃ v, materialise immutable st site s = some v ∧ v.read st = expected st site s := by
  have hy : r.yieldsText = true := (List.all_eq_true.mp all_accessors_yield_text) r hr
  unfold Row.yieldsText at hy
  rw [List.all_eq_true] at hy
  have h1 := hy ret hret
  simp only [Bool.and_eq_true, List.all_eq_true] at h1
  have h2 := h1.2 s hs
  have hne : s ≠ .unknown := by
    intro he; subst he; simp at h2
  cases s
  case unknown => exact absurd rfl hne
  case reqobj => exact absurd rfl hobj
  all_goals (refine ⟨_, rfl, ?_⟩; first | rfl | (cases immutable <;> rfl))

/-! ### Inside one handler: accessors do not disturb each other -/

/-- **Obligation over the regenerated table.** No accessor (method of DefaultCtx / DefaultReq /
    DefaultRes, generic helper) writes recycled storage in place – context buffers reused through
    `append(f[:0], …)`, emptied containers, fasthttp mutators – apart from `Path` (on the handler's own
    override) and `Body` (installs and restores private copies). -/
theorem accessors_do_not_write_recycled_storage : Facts.rows.all Row.writesAllowed = true := by decide

/-- A trace of calls of read-only accessors leaves the recycled storage unchanged. -/
theorem readOnly_trace_keeps_store (st : Store) (tr : List Step) (h : tr.all Step.isReadOnly = true) :
    st.afterSteps tr = st := by
  induction tr generalizing st with
  | nil => rfl
  | cons s tr ih =>
    simp only [List.all_cons, Bool.and_eq_true] at h
    cases s with
    | readOnlyCall => exact ih st h.2
    | otherCall ws => simp [Step.isReadOnly] at h

/-- **Half without the option, across accessor calls.** In either configuration, a value obtained from
    any accessor of the table is still correct after the handler has called any number of read-only
    accessors (every row of the table except `Path` with an override and `Body`, by
    `accessors_do_not_write_recycled_storage`): it stays valid until the handler returns. -/
theorem values_valid_across_accessor_calls (immutable : Bool) (r : Row) (hr : r ∈ Facts.rows) (ret : Ret)
    (hret : ret ∈ r.rets) (s : Src) (hs : s ∈ ret.srcs) (hobj : s ≠ .reqobj) (st : Store) (site : Site)
    (tr : List Step) (htr : tr.all Step.isReadOnly = true) :
    ∃ v, materialise immutable st site s = some v ∧ v.read (st.afterSteps tr) = expected st site s := by
  obtain ⟨v, hm, hv⟩ := values_valid_until_return immutable r hr ret hret s hs hobj st site
  exact ⟨v, hm, by rw [readOnly_trace_keeps_store st tr htr, hv]⟩

/-- rows that are read-only outright: everything but `Path`, `Body` and their `Req.` twins -/
example : (Facts.rows.filter fun r => !r.readOnly).map (·.name) = ["Body", "Path", "Req.Body", "Req.Path"] := by decide
/-- a scratch buffer refilled by an accessor is rejected -/
example : (Row.mk .ctx "Cookies" [⟨.always, [.imm, .arg]⟩] ["scratch"]).writesAllowed = false := by decide
/-- without the read-only hypothesis the statement fails: a call that rewrites the buffer changes a view -/
example :
    let st : Store := fun _ => b "sid=alpha"
    (Val.view 0 4 5).read (st.afterSteps [.otherCall [⟨0, b "sid=omega"⟩]]) ≠ (Val.view 0 4 5).read st := by decide

/-! ### Derived values -/

/-- **Values derived from stable values are stable.** A sub-slice (substring, split piece, trimmed
    value) of a value that reads the same after a history reads the same after that history. -/
theorem derived_stable (v : Val) (off len : Nat) (st : Store) (h : List Overwrite)
    (hv : v.read (st.after h) = v.read st) :
    (v.sub off len).read (st.after h) = (v.sub off len).read st := by
  rw [sub_read, sub_read, hv]

/-- With `Immutable`, every value DERIVED by slicing from what an accessor of the table yields keeps
    its content after every later history. -/
theorem immutable_derived_values_stable (r : Row) (hr : r ∈ Facts.rows) (ret : Ret) (hret : ret ∈ r.rets)
    (hreach : ret.reachableImmutable = true) (s : Src) (hs : s ∈ ret.srcs) (hobj : s ≠ .reqobj)
    (st : Store) (site : Site) (h : List Overwrite) (off len : Nat) :
    ∃ v, materialise true st site s = some v ∧
      (v.sub off len).read (st.after h) = ((expected st site s).drop off).take len := by
  obtain ⟨v, hm, hv⟩ := immutable_values_stable r hr ret hret hreach s hs hobj st site h
  exact ⟨v, hm, by rw [sub_read, hv]⟩

example : ((Val.owned (b "front.test, back.test")).sub 0 10).read (fun _ => []) = b "front.test" := by decide

/-! ### The criterion is exact: a view does change -/

/-- A non-empty view that lies inside its buffer is NOT stable: some later history makes it read
    differently. So `Row.okImmutable` cannot be weakened – a return site that yields an `alias` atom
    (or an `imm` atom without the option) hands out a value a later request can change. -/
theorem view_not_stable (st : Store) (buf off len : Nat) (hlen : 0 < len) (hin : off < (st buf).length) :
    ∃ h : List Overwrite, (Val.view buf off len).read (st.after h) ≠ (Val.view buf off len).read st := by
  -- overwrite the buffer with bytes that all differ from the first byte of the current reading
  let a := (st buf)[off]
  refine ⟨[⟨buf, List.replicate (off + len) (a + 1)⟩], ?_⟩
  have hafter : (Val.view buf off len).read (st.after [⟨buf, List.replicate (off + len) (a + 1)⟩])
      = List.replicate len (a + 1) := by
    simp [Val.read, Store.after, Store.write]
  have hbefore : ((Val.view buf off len).read st).head? = some a := by
    simp only [Val.read]
    obtain ⟨n, rfl⟩ : ∃ n, len = n + 1 := ⟨len - 1, by omega⟩
    rw [List.drop_eq_getElem_cons hin, List.take_succ_cons]
    rfl
  intro heq
  rw [hafter] at heq
  rw [← heq] at hbefore
  obtain ⟨n, rfl⟩ : ∃ n, len = n + 1 := ⟨len - 1, by omega⟩
  simp [List.replicate_succ] at hbefore

/-- An `alias` atom under `Immutable`, and an `imm` atom without it, materialise as such a view. -/
theorem alias_atom_not_stable (st : Store) (site : Site) (hlen : 0 < site.len)
    (hin : site.off < (st site.buf).length) :
    ∃ v h, materialise true st site .alias = some v ∧ v.read (st.after h) ≠ v.read st := by
  obtain ⟨h, hh⟩ := view_not_stable st site.buf site.off site.len hlen hin
  exact ⟨_, h, rfl, hh⟩

example : ∃ h : List Overwrite, (Val.view 0 3 5).read (Store.after (fun _ => b "/u/alice") h)
    ≠ (Val.view 0 3 5).read (fun _ => b "/u/alice") :=
  view_not_stable (fun _ => b "/u/alice") 0 3 5 (by decide) (by decide)

/-! ### Model ⊑ Spec: what the model yields passes the property oracle of the driver -/

/-- **The model meets the specification.** For every accessor of the regenerated table, every return
    site reachable in the configuration, every atom, storage state and later history, the observation
    of the value the model yields violates no clause of `specViolation` (correct, stable until return,
    and – with `Immutable` – unchanged after the history). -/
theorem model_meets_spec (immutable : Bool) (r : Row) (hr : r ∈ Facts.rows) (ret : Ret) (hret : ret ∈ r.rets)
    (hreach : immutable = true → ret.reachableImmutable = true) (s : Src) (hs : s ∈ ret.srcs)
    (hobj : s ≠ .reqobj) (st : Store) (site : Site) (h : List Overwrite) :
    ∃ v, materialise immutable st site s = some v ∧
      specViolation immutable (some [expected st site s]) (observeVal immutable st h v) = none := by
  cases immutable with
  | false =>
    obtain ⟨v, hm, hv⟩ := values_valid_until_return false r hr ret hret s hs hobj st site
    exact ⟨v, hm, by simp [specViolation, observeVal, hv]⟩
  | true =>
    obtain ⟨v, hm, hv⟩ := immutable_values_stable r hr ret hret (hreach rfl) s hs hobj st site h
    obtain ⟨v', hm', hv'⟩ := values_valid_until_return true r hr ret hret s hs hobj st site
    have : v' = v := by rw [hm] at hm'; exact (Option.some.inj hm').symm
    subst this
    exact ⟨v', hm, by simp [specViolation, observeVal, hv, hv']⟩

/-- the oracle is not trivially satisfied: a value that changed after the history fails it -/
example : specViolation true (some [b "alice"]) ⟨[b "alice"], [b "alice"], some [b "bobby"]⟩ = some "immutable-stable" := by decide
example : specViolation false (some [b "alice"]) ⟨[b "alice"], [b "alicf"], none⟩ = some "stable-until-return" := by decide
example : specViolation true (some [b "alice"]) ⟨[b "alicf"], [b "alicf"], some [b "alicf"]⟩ = some "correct" := by decide

/-! ### Non-vacuity and sharpness -/

/-- The table is not empty and names the accessors of the property. -/
example : (Facts.rows.filter (·.kind == .ctx)).length ≥ 20 := by decide
example : (Facts.rows.map (·.name)).contains "Params" = true := by decide
example : (Facts.rows.map (·.name)).contains "Protocol" = true := by decide

/-- Sharpness: a view (what `alias`, or `imm` without the option, yields) DOES change when a later
    request overwrites its buffer – "alice" becomes "bobby" – while the owned copy does not. -/
example :
    let st : Store := fun _ => b "/u/alice"
    let site : Site := ⟨0, 3, 5, []⟩
    let h := [Overwrite.mk 0 (b "/u/bobby")]
    (materialise false st site .imm).map (·.read (st.after h)) = some (b "bobby") ∧
    (materialise true st site .imm).map (·.read (st.after h)) = some (b "alice") ∧
    (materialise true st site .alias).map (·.read (st.after h)) = some (b "bobby") := by decide

/-- `okImmutable` rejects a row that returns an alias on a reachable site, accepts it when that
    site is only reachable without the option. -/
example : (Row.mk .ctx "X" [⟨.always, [.imm, .alias]⟩] []).okImmutable = false := by decide
example : (Row.mk .ctx "X" [⟨.immOnly, [.owned]⟩, ⟨.mutOnly, [.alias]⟩] []).okImmutable = true := by decide
example : (Row.mk .ctx "X" [⟨.always, [.unknown]⟩] []).okImmutable = false := by decide
/-- a Bind method passing a request object to a binder the table does not know is not covered -/
example : (Row.mk .bind "Bind.Trailer:source" [⟨.always, [.reqobj]⟩] []).bindCovered Facts.rows = false := by decide
example : (Facts.rows.filter fun r => r.kind == .bind && r.rets.any fun ret => ret.srcs.contains .reqobj).length = 5 := by decide

end C06
