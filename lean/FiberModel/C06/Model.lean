import FiberModel.Basic
import FiberModel.C06.Types
/-
C06 — model.

Part 1 (aliasing): values a handler obtains are either `owned` bytes or a `view` into storage that
the worker recycles (fasthttp header/URI/args/body buffers, `DefaultCtx.path`). Serving later
requests overwrites that storage with arbitrary new contents. `materialise` says what each
provenance atom of the regenerated accessor table (translator/c06) produces:
  app.go New / helpers.go getStringImmutable:  `getString` copies iff `Config.Immutable`.

Part 2 (accessor semantics): what each accessor of ctx.go returns for the structured requests the
harness sends (route: literal `u`, `:name`, literal `-`, then `*`; default configuration apart from `Immutable`), transcribed from
ctx.go (`Params`, `Path`, `OriginalURL`, `Protocol`, `Query`, `Queries`, `Get`, `Cookies`, `Host`,
`Hostname`, `Scheme`, `BaseURL`, `IPs`, `Subdomains`, `Body`, `FormValue`, …) and bind.go/binder
(map targets). Accessors without a transcription return `none` and are only checked for stability.
-/
namespace C06
open B

/-! ## Part 1 — owned values and views into recycled storage -/

abbrev BufId := Nat

/-- Contents of every recyclable buffer of the worker. -/
abbrev Store := BufId → Bytes

inductive Val where
  | owned (bs : Bytes)
  | view (buf : BufId) (off len : Nat)
  deriving Repr

def Val.isOwned : Val → Bool
  | .owned _ => true
  | .view .. => false

/-- Reading a value: an owned value is its bytes, a view is whatever the buffer holds *now*. -/
def Val.read (st : Store) : Val → Bytes
  | .owned bs => bs
  | .view buf off len => ((st buf).drop off).take len

/-- One effect of serving a later request: a buffer gets arbitrary new contents. -/
structure Overwrite where
  buf : BufId
  contents : Bytes

def Store.write (st : Store) (w : Overwrite) : Store :=
  fun b => if b = w.buf then w.contents else st b

/-- The storage after any later history (each request = any number of overwrites). -/
def Store.after (st : Store) (h : List Overwrite) : Store := h.foldl Store.write st

/-- Where the text an accessor is about lives while the handler runs, and the caller's own argument
    (default value / offer) it may return instead. -/
structure Site where
  buf : BufId
  off : Nat
  len : Nat
  arg : Bytes

def Site.text (s : Site) (st : Store) : Bytes := (Val.view s.buf s.off s.len).read st

/-- What a provenance atom turns the text at `site` into. `none`: the atom does not denote a text
    value the model can account for (`unknown`, or a request object handed to a binder). -/
def materialise (immutable : Bool) (st : Store) (site : Site) : Src → Option Val
  | .owned => some (.owned (site.text st))
  | .imm => some (if immutable then .owned (site.text st) else .view site.buf site.off site.len)
  | .alias => some (.view site.buf site.off site.len)
  | .arg => some (.owned site.arg)
  | .reqobj => none
  | .unknown => none

/-- the text the handler is entitled to see for that atom -/
def expected (st : Store) (site : Site) : Src → Bytes
  | .arg => site.arg
  | _ => site.text st

/-- atoms that are copies when `Immutable` is set -/
def Src.copiesWhenImmutable : Src → Bool
  | .owned | .imm | .arg => true
  | .alias | .reqobj | .unknown => false

/-- Return sites reachable with `Immutable` set. -/
def Ret.reachableImmutable (r : Ret) : Bool := r.guard != .mutOnly

/-- A row is fine under `Immutable` when every reachable return site only yields copying atoms.
    Rows of kind `bind` may hand a request object to the binder: what the binder extracts from it
    is classified by the `binder` rows. -/
def Row.okImmutable (r : Row) : Bool :=
  r.rets.all fun ret => !ret.reachableImmutable ||
    (!ret.srcs.isEmpty && ret.srcs.all fun s => s.copiesWhenImmutable || (r.kind == .bind && s == .reqobj))

/-! ## Part 2 — accessor semantics on the harness' structured requests -/

structure Req where
  proto : Nat                       -- 0 = HTTP/1.1, 1 = HTTP/1.0
  name : Bytes
  rest : Bytes
  query : List (Bytes × Bytes)
  headers : List (Bytes × Bytes)
  cookies : List (Bytes × Bytes)
  host : Bytes
  bkind : Char                      -- 'n' | 'r' | 'f' | 'j'
  braw : Bytes
  bform : List (Bytes × Bytes)
  deriving Repr

def joinPairs (ps : List (Bytes × Bytes)) (eq sep : Bytes) : Bytes :=
  join (ps.map fun p => p.1 ++ eq ++ p.2) sep

def Req.path (q : Req) : Bytes := b "/u/" ++ q.name ++ b "/-/" ++ q.rest

def Req.uri (q : Req) : Bytes :=
  if q.query.isEmpty then q.path else q.path ++ b "?" ++ joinPairs q.query (b "=") (b "&")

def Req.contentType (q : Req) : Bytes :=
  match q.bkind with
  | 'r' => b "text/plain"
  | 'f' => b "application/x-www-form-urlencoded"
  | 'j' => b "application/json"
  | _ => []

def Req.body (q : Req) : Bytes :=
  match q.bkind with
  | 'r' => q.braw
  | 'f' => joinPairs q.bform (b "=") (b "&")
  | 'j' => b "{" ++ join (q.bform.map fun p => b "\"" ++ p.1 ++ b "\":\"" ++ p.2 ++ b "\"") (b ",") ++ b "}"
  | _ => []

def first? (ps : List (Bytes × Bytes)) (k : Bytes) : Option Bytes :=
  (ps.find? (·.1 == k)).map (·.2)

/-- header lookup as `RequestHeader.Peek` sees the request the harness assembles -/
def Req.header (q : Req) (k : Bytes) : Bytes :=
  let k' := toLower k
  if k' == b "host" then q.host
  else if k' == b "content-type" then q.contentType
  else if k' == b "content-length" then (if q.bkind == 'n' then [] else natToDec q.body.length)
  else if k' == b "cookie" then joinPairs q.cookies (b "=") (b "; ")
  else ((q.headers.find? fun h => toLower h.1 == k').map (·.2)).getD []

def upTo (s : Bytes) (c : Nat) : Bytes :=
  match indexByte s c with
  | some i => s.take i
  | none => s

/-- ctx.go `Host` (TrustProxy off ⇒ `IsProxyTrusted` is true ⇒ X-Forwarded-Host is honoured) -/
def Req.hostV (q : Req) : Bytes :=
  let xf := q.header (b "X-Forwarded-Host")
  if xf ≠ [] then upTo xf 44 else q.host

/-- ctx.go `Scheme` without TLS: last X-Forwarded-Proto wins, up to the first comma -/
def Req.scheme (q : Req) : Bytes :=
  match q.headers.find? fun h => h.1 == b "X-Forwarded-Proto" with
  | some h => upTo h.2 44
  | none => b "http"

def lastIndexByte (s : Bytes) (c : Nat) : Option Nat :=
  (indexByte s.reverse c).map fun i => s.length - 1 - i

/-- helpers.go `parseAddr`: host part before the last ':' -/
def hostname (h : Bytes) : Bytes :=
  match lastIndexByte h 58 with
  | some i => h.take i
  | none => h

/-- ctx.go `extractIPsFromHeader` with IP validation off: comma-separated pieces, blanks trimmed -/
def ipsOf (v : Bytes) : List Bytes :=
  if v = [] then [] else
  (splitOn v 44).map fun p => trimRight (p.dropWhile fun c => c == 32 || c == 44) 32

/-- ctx.go `Subdomains` (offset 2) -/
def subdomains (h : Bytes) : List Bytes :=
  let parts := splitOn h 46
  if parts.length < 2 then parts else parts.take (parts.length - 2)

/-- distinct keys in ascending byte order with the LAST value of each (Go map built by VisitAll) -/
def lexLt : Bytes → Bytes → Bool
  | [], [] => false
  | [], _ :: _ => true
  | _ :: _, [] => false
  | x :: xs, y :: ys => if x < y then true else if y < x then false else lexLt xs ys

def insertSorted (k : Bytes) : List Bytes → List Bytes
  | [] => [k]
  | x :: xs => if k == x then x :: xs else if lexLt k x then k :: x :: xs else x :: insertSorted k xs

def sortedKeys (ps : List (Bytes × Bytes)) : List Bytes :=
  ps.foldl (fun acc p => insertSorted p.1 acc) []

def lastOf (ps : List (Bytes × Bytes)) (k : Bytes) : Bytes :=
  ((ps.reverse.find? (·.1 == k)).map (·.2)).getD []

def allOf (ps : List (Bytes × Bytes)) (k : Bytes) : List Bytes :=
  (ps.filter (·.1 == k)).map (·.2)

/-- flattening of a `map[string]string` as the harness renders it: k₁, v₁, k₂, v₂ … -/
def flatMapLast (ps : List (Bytes × Bytes)) : List Bytes :=
  (sortedKeys ps).flatMap fun k => [k, lastOf ps k]

def flatMapAll (ps : List (Bytes × Bytes)) : List Bytes :=
  (sortedKeys ps).flatMap fun k => k :: allOf ps k

def Req.postArgs (q : Req) : List (Bytes × Bytes) := if q.bkind == 'f' then q.bform else []

/-- ctx.go `Params` on the harness route (Route.Params = ["name", "*1"], case-insensitive keys) -/
def Req.param (q : Req) (k : Bytes) : Bytes :=
  let k := if k == b "*" || k == b "+" then k ++ b "1" else k
  if equalFold k (b "name") then q.name
  else if k == b "*1" then q.rest
  else []

/-- `fasthttp.RequestCtx.FormValue`: first non-empty of query args, post args -/
def Req.formValue (q : Req) (k : Bytes) : Bytes :=
  let a := (first? q.query k).getD []
  if a ≠ [] then a else (first? q.postArgs k).getD []

/-- Semantics of accessor `meth` (with key `key` when it takes one): the flattened text it returns.
    `none` = no transcription (checked for stability only). -/
def sem (q : Req) (meth : String) (key : Bytes) : Option (List Bytes) :=
  match meth with
  | "Params" | "Params[string]" | "Params[[]byte]" | "Req.Params" => some [q.param key]
  | "Path" => some [q.path]
  | "OriginalURL" => some [q.uri]
  | "Protocol" | "Req.Protocol" => some [if q.proto == 1 then b "HTTP/1.0" else b "HTTP/1.1"]
  | "Method" => some [if q.bkind == 'n' then b "GET" else b "POST"]
  | "Query" | "Query[string]" | "Query[[]byte]" => some [(first? q.query key).getD []]
  | "Queries" => some (flatMapLast q.query)
  | "Get" | "GetReqHeader[string]" | "GetReqHeader[[]byte]" => some [q.header key]
  | "Cookies" => some [(first? q.cookies key).getD []]
  | "Host" | "Req.Host" => some [q.hostV]
  | "Hostname" => some [hostname q.hostV]
  | "Scheme" => some [q.scheme]
  | "BaseURL" => some [q.scheme ++ b "://" ++ q.hostV]
  | "IP" => some [b "10.0.0.7"]
  | "Port" => some [b "4242"]
  | "IPs" => some (ipsOf (q.header (b "X-Forwarded-For")))
  | "Subdomains" => some (subdomains q.hostV)
  | "Body" | "BodyRaw" | "Req.Body" => some [q.body]
  | "FormValue" => some [q.formValue key]
  | "Route.Path" => some [b "/u/:name/-/*"]
  | "Bind.Query:map" => some (flatMapLast q.query ++ [[]])
  | "Bind.Query:mapslice" => some (flatMapAll q.query ++ [[]])
  | "Bind.Cookie:map" => some (flatMapLast q.cookies ++ [[]])
  | "Bind.Form:map" => some (flatMapLast q.postArgs ++ [[]])
  | "Bind.URI:map" => some ([b "*1", q.rest, b "name", q.name, []])
  | _ => none

end C06
