import FiberModel.Basic
import FiberModel.C06.Types
/-
C06 — model.

Part 1 (aliasing): values a handler obtains are either `owned` bytes or a `view` into storage that
the worker recycles (fasthttp header/URI/args/body buffers, `DefaultCtx.path`). Serving later
requests overwrites that storage with arbitrary new contents. `materialise` says what each
provenance atom of the regenerated accessor table (translator/c06) produces:
  app.go New / helpers.go getStringImmutable:  `getString` copies iff `Config.Immutable`.

Part 2 (accessor semantics): what each accessor of ctx.go returns for the structured requests the
harness sends (route: literal `u`, `:name`, literal `-`, then `*`; configuration `Cfg`), transcribed from
ctx.go (`Params`, `Path`, `OriginalURL`, `Protocol`, `Query`, `Queries`, `Get`, `Cookies`, `Host`,
`Hostname`, `Scheme`, `BaseURL`, `IPs`, `Subdomains`, `Body`, `FormValue`, …) and bind.go/binder
(map targets). Accessors without a transcription return `none` and are only checked for stability.
-/
namespace C06
open B

/-! ## Part 1 — owned values and views into recycled storage -/

abbrev BufId := Nat

/-- Contents of every recyclable buffer of the worker. -/
abbrev Store := BufId → Bytes

inductive Val where
  | owned (bs : Bytes)
  | view (buf : BufId) (off len : Nat)
  deriving Repr

def Val.isOwned : Val → Bool
  | .owned _ => true
  | .view .. => false

/-- Reading a value: an owned value is its bytes, a view is whatever the buffer holds *now*. -/
def Val.read (st : Store) : Val → Bytes
  | .owned bs => bs
  | .view buf off len => ((st buf).drop off).take len

/-- A value derived by slicing (Go `s[off:off+len]`, `strings.Split`, `utils.Trim`, the comma cut of
    `Host`, the pieces of `IPs` / `Subdomains` / `Range`): a sub-slice of an owned value shares the owned
    bytes, a sub-slice of a view is a view into the same buffer. -/
def Val.sub (off len : Nat) : Val → Val
  | .owned bs => .owned ((bs.drop off).take len)
  | .view buf o l => .view buf (o + off) (min len (l - off))

/-- One effect of serving a later request: a buffer gets arbitrary new contents. -/
structure Overwrite where
  buf : BufId
  contents : Bytes

def Store.write (st : Store) (w : Overwrite) : Store :=
  fun b => if b = w.buf then w.contents else st b

/-- The storage after any later history (each request = any number of overwrites). -/
def Store.after (st : Store) (h : List Overwrite) : Store := h.foldl Store.write st

/-- What the handler does between obtaining a value and returning: it calls accessors. A call of an
    accessor that writes no recycled storage in place (`Row.readOnly`, a regenerated fact) leaves the
    storage as it is; any other call may overwrite buffers arbitrarily. -/
inductive Step where
  | readOnlyCall                      -- a call of an accessor whose row has `writes = []`
  | otherCall (ws : List Overwrite)   -- anything else: arbitrary effect on the recycled storage

def Step.apply (st : Store) : Step → Store
  | .readOnlyCall => st
  | .otherCall ws => st.after ws

def Store.afterSteps (st : Store) (tr : List Step) : Store := tr.foldl Step.apply st

def Step.isReadOnly : Step → Bool
  | .readOnlyCall => true
  | .otherCall _ => false

/-- Where the text an accessor is about lives while the handler runs, and the caller's own argument
    (default value / offer) it may return instead. -/
structure Site where
  buf : BufId
  off : Nat
  len : Nat
  arg : Bytes

def Site.text (s : Site) (st : Store) : Bytes := (Val.view s.buf s.off s.len).read st

/-- What a provenance atom turns the text at `site` into. `none`: the atom does not denote a text
    value the model can account for (`unknown`, or a request object handed to a binder). -/
def materialise (immutable : Bool) (st : Store) (site : Site) : Src → Option Val
  | .owned => some (.owned (site.text st))
  | .imm => some (if immutable then .owned (site.text st) else .view site.buf site.off site.len)
  | .alias => some (.view site.buf site.off site.len)
  | .arg => some (.owned site.arg)
  | .reqobj => none
  | .unknown => none

/-- the text the handler is entitled to see for that atom -/
def expected (st : Store) (site : Site) : Src → Bytes
  | .arg => site.arg
  | _ => site.text st

/-- atoms that are copies when `Immutable` is set -/
def Src.copiesWhenImmutable : Src → Bool
  | .owned | .imm | .arg => true
  | .alias | .reqobj | .unknown => false

/-- Return sites reachable with `Immutable` set. -/
def Ret.reachableImmutable (r : Ret) : Bool := r.guard != .mutOnly

/-- A row is fine under `Immutable` when every reachable return site only yields copying atoms.
    Rows of kind `bind` may hand a request object to the binder: what the binder extracts from it
    is classified by the `binder` rows. -/
def Row.okImmutable (r : Row) : Bool :=
  r.rets.all fun ret => !ret.reachableImmutable ||
    (!ret.srcs.isEmpty && ret.srcs.all fun s => s.copiesWhenImmutable || (r.kind == .bind && s == .reqobj))

/-- Rows whose reachable-under-Immutable return sites were all understood and are non-empty; the
    non-Immutable half additionally needs every other return site to denote text at all. -/
def Row.yieldsText (r : Row) : Bool :=
  r.rets.all fun ret => !ret.srcs.isEmpty && ret.srcs.all fun s => s != .unknown && (s != .reqobj || r.kind == .bind)


/-- In-place writes of recycled storage an accessor is allowed to make, with the reason:
    * `Path` (`Req.Path`): only when the HANDLER passes an override – rewriting the path is then the
      handler's own doing (ctx.go `Path`: `SetPath`, `configDependentPaths` refill `path`/`detectionPath`);
    * `Body` (`Req.Body`): `SetBodyRaw` installs the decoded layer and afterwards a private copy of the
      original body (ctx.go `tryDecodeBodyInOrder` / `Body`); the bytes a `BodyRaw()` view points to are
      not rewritten by it. -/
def allowedWrites : String → List String
  | "Path" | "Req.Path" => ["detectionPath", "path", "fasthttp.SetPath"]
  | "Body" | "Req.Body" => ["fasthttp.SetBodyRaw"]
  | _ => []

/-- An accessor leaves the recycled storage alone (apart from the documented exceptions). -/
def Row.writesAllowed (r : Row) : Bool := r.writes.all (allowedWrites r.name).contains

/-- An accessor call that cannot disturb values handed out earlier: it writes nothing in place. -/
def Row.readOnly (r : Row) : Bool := r.writes.isEmpty

/-- The binder (package binder) a method of `fiber.Bind` hands the request / response object to.
    A new method that passes such an object on has no entry here and fails `Row.bindCovered`. -/
def binderRowOf : String → Option String
  | "Bind.Cookie:source" => some "binder.CookieBinding.Bind"
  | "Bind.Form:source" => some "binder.FormBinding.Bind"
  | "Bind.Header:source" => some "binder.HeaderBinding.Bind"
  | "Bind.Query:source" => some "binder.QueryBinding.Bind"
  | "Bind.RespHeader:source" => some "binder.RespHeaderBinding.Bind"
  | _ => none

/-- A `bind` row that hands a request object to a binder is covered when the table also holds that
    binder's rows: what it extracts as key and value and the data it passes to the decoder. -/
def Row.bindCovered (rows : List Row) (r : Row) : Bool :=
  r.kind != .bind || !(r.rets.any fun ret => ret.srcs.contains .reqobj) ||
    match binderRowOf r.name with
    | some bn => [":key", ":value", ":data"].all fun sfx => rows.any fun b => b.kind == .binder && b.name == bn ++ sfx
    | none => false

/-! ## Part 2 — accessor semantics on the harness' structured requests -/

/-- Configuration of the app under test (harness/cmd/c06 `config`). -/
structure Cfg where
  imm : Bool
  cs : Bool := false      -- CaseSensitive
  split : Bool := false   -- EnableSplittingOnParsers
  ph : Bool := false      -- ProxyHeader = X-Forwarded-For
  ipv : Bool := false     -- EnableIPValidation
  tp : Bool := false      -- TrustProxy on, peer not trusted
  srv : Bool := false     -- driven through a real server over loopback TCP (peer 127.0.0.1, random port)
  /-- handler chain in front of the endpoint: 0 none; 1 `hh` two handlers on the endpoint route;
      2 `mw` `Use("/u/:tenant", front)`; 3 `rr` the same, `front` calls RestartRouting on its first
      visit; 4 `po` `Use` of the endpoint's pattern with `:tenant` for `:name`, `front` overrides the
      path (name ↦ "ovr" ++ name) before `Next()`. (Patterns are not spelled out here: they contain the
      comment opener.)
      No endpoint reached, the accessors run in a custom ErrorHandler without a matched route:
      5 `nf` nothing matches (404); 6 `na` the path is registered for another method only (405);
      7 `uo` only the `Use` middleware of `mw` matches, probes, and `Next()` fails. -/
  chain : Nat := 0
  deriving Repr

structure Req where
  proto : Nat                       -- 0 = HTTP/1.1, 1 = HTTP/1.0
  name : Bytes
  rest : Bytes
  query : List (Bytes × Bytes)
  headers : List (Bytes × Bytes)
  cookies : List (Bytes × Bytes)
  host : Bytes
  bkind : Char                      -- 'n' | 'r' | 'f' | 'j' | 'm' | 'z'
  braw : Bytes
  bform : List (Bytes × Bytes)
  bfiles : List (Bytes × Bytes) := []   -- 'm': field name ↦ file name
  encs : List Bytes := []               -- 'z': Content-Encoding elements in header order
  layers : List Bytes := []             -- 'z': layers[0] = wire body, layers[i+1] = layers[i] decoded by encs[i]
  deriving Repr

def joinPairs (ps : List (Bytes × Bytes)) (eq sep : Bytes) : Bytes :=
  join (ps.map fun p => p.1 ++ eq ++ p.2) sep

def Req.path (q : Req) : Bytes := b "/u/" ++ q.name ++ b "/-/" ++ q.rest

def Req.uri (q : Req) : Bytes :=
  if q.query.isEmpty then q.path else q.path ++ b "?" ++ joinPairs q.query (b "=") (b "&")

def boundary : Bytes := b "XbOuNdArYx"
def crlf : Bytes := [13, 10]

def Req.contentType (q : Req) : Bytes :=
  match q.bkind with
  | 'r' => b "text/plain"
  | 'z' => b "text/plain"
  | 'f' => b "application/x-www-form-urlencoded"
  | 'j' => b "application/json"
  | 'm' => b "multipart/form-data; boundary=" ++ boundary
  | _ => []

/-- the multipart body exactly as harness/cmd/c06 `request.body` assembles it -/
def Req.multipartBody (q : Req) : Bytes :=
  let field (p : Bytes × Bytes) : Bytes :=
    b "--" ++ boundary ++ crlf ++ b "Content-Disposition: form-data; name=\"" ++ p.1 ++ b "\"" ++ crlf ++ crlf ++ p.2 ++ crlf
  let file (p : Bytes × Bytes) : Bytes :=
    b "--" ++ boundary ++ crlf ++ b "Content-Disposition: form-data; name=\"" ++ p.1 ++ b "\"; filename=\"" ++ p.2 ++ b "\"" ++ crlf ++
      b "Content-Type: text/plain" ++ crlf ++ crlf ++ b "content of " ++ p.2 ++ crlf
  (q.bform.map field).flatten ++ (q.bfiles.map file).flatten ++ b "--" ++ boundary ++ b "--" ++ crlf

/-- the body on the wire (`Request.Body()`, ctx.go `BodyRaw`) -/
def Req.body (q : Req) : Bytes :=
  match q.bkind with
  | 'r' => q.braw
  | 'f' => joinPairs q.bform (b "=") (b "&")
  | 'j' => b "{" ++ join (q.bform.map fun p => b "\"" ++ p.1 ++ b "\":\"" ++ p.2 ++ b "\"") (b ",") ++ b "}"
  | 'm' => q.multipartBody
  | 'z' => q.layers.headD []
  | _ => []

def supportedEnc (e : Bytes) : Bool :=
  e == b "gzip" || e == b "br" || e == b "brotli" || e == b "deflate" || e == b "zstd"

/-- ctx.go `tryDecodeBodyInOrder` over the layers the harness supplies: the encodings are applied in
    HEADER order; a supported one replaces `body` by the next layer, the first unsupported one ends the
    loop returning what has been decoded so far (nothing at index 0) – except that a SINGLE unsupported
    encoding returns the raw body. `none`: a layer is missing (outside the harness' domain). -/
def decodeInOrder (raw : Bytes) (n : Nat) : List Bytes → List Bytes → Option Bytes → Option Bytes
  | [], _, body => body
  | e :: es, ls, body =>
    if supportedEnc e then
      match ls with
      | l :: ls' => decodeInOrder raw n es ls' (some l)
      | [] => none
    else if n == 1 then some raw else some (body.getD [])

/-- ctx.go `Body`: no Content-Encoding ⇒ the raw body; otherwise the decoded one. -/
def Req.decodedBody (q : Req) : Option Bytes :=
  if q.bkind == 'z' then
    if q.encs.isEmpty then some q.body
    else decodeInOrder q.body q.encs.length q.encs (q.layers.drop 1) (some [])
  else some q.body

def first? (ps : List (Bytes × Bytes)) (k : Bytes) : Option Bytes :=
  (ps.find? (·.1 == k)).map (·.2)

/-- header lookup as `RequestHeader.Peek` sees the request the harness assembles -/
def Req.header (q : Req) (k : Bytes) : Bytes :=
  let k' := toLower k
  if k' == b "host" then q.host
  else if k' == b "content-type" then q.contentType
  else if k' == b "content-length" then (if q.bkind == 'n' then [] else natToDec q.body.length)
  else if k' == b "cookie" then joinPairs q.cookies (b "=") (b "; ")
  else if k' == b "content-encoding" then (if q.bkind == 'z' then join q.encs (b ", ") else [])
  else ((q.headers.find? fun h => toLower h.1 == k').map (·.2)).getD []

def upTo (s : Bytes) (c : Nat) : Bytes :=
  match indexByte s c with
  | some i => s.take i
  | none => s

/-- ctx.go `IsProxyTrusted`: TrustProxy off ⇒ true; on with an empty TrustProxyConfig ⇒ the peer
    10.0.0.7 is not trusted. -/
def Cfg.trusted (c : Cfg) : Bool := !c.tp

/-- ctx.go `Host`: X-Forwarded-Host (up to the first comma) is honoured for a trusted peer -/
def Req.hostV (c : Cfg) (q : Req) : Bytes :=
  let xf := q.header (b "X-Forwarded-Host")
  if c.trusted && xf ≠ [] then upTo xf 44 else q.host

/-- ctx.go `Scheme` without TLS: for a trusted peer X-Forwarded-Proto, up to the first comma -/
def Req.scheme (c : Cfg) (q : Req) : Bytes :=
  if !c.trusted then b "http" else
  match q.headers.find? fun h => h.1 == b "X-Forwarded-Proto" with
  | some h => upTo h.2 44
  | none => b "http"

def lastIndexByte (s : Bytes) (c : Nat) : Option Nat :=
  (indexByte s.reverse c).map fun i => s.length - 1 - i

/-- helpers.go `parseAddr`: host part before the last ':' -/
def hostname (h : Bytes) : Bytes :=
  match lastIndexByte h 58 with
  | some i => h.take i
  | none => h

/-- ctx.go `extractIPsFromHeader` with IP validation off: comma-separated pieces, blanks trimmed -/
def ipsOf (v : Bytes) : List Bytes :=
  if v = [] then [] else
  (splitOn v 44).map fun p => trimRight (p.dropWhile fun c => c == 32 || c == 44) 32

/-- ctx.go `Subdomains` (offset 2) -/
def subdomains (h : Bytes) : List Bytes :=
  let parts := splitOn h 46
  if parts.length < 2 then parts else parts.take (parts.length - 2)

/-- distinct keys in ascending byte order with the LAST value of each (Go map built by VisitAll) -/
def lexLt : Bytes → Bytes → Bool
  | [], [] => false
  | [], _ :: _ => true
  | _ :: _, [] => false
  | x :: xs, y :: ys => if x < y then true else if y < x then false else lexLt xs ys

def insertSorted (k : Bytes) : List Bytes → List Bytes
  | [] => [k]
  | x :: xs => if k == x then x :: xs else if lexLt k x then k :: x :: xs else x :: insertSorted k xs

def sortedKeys (ps : List (Bytes × Bytes)) : List Bytes :=
  ps.foldl (fun acc p => insertSorted p.1 acc) []

def lastOf (ps : List (Bytes × Bytes)) (k : Bytes) : Bytes :=
  ((ps.reverse.find? (·.1 == k)).map (·.2)).getD []

def allOf (ps : List (Bytes × Bytes)) (k : Bytes) : List Bytes :=
  (ps.filter (·.1 == k)).map (·.2)

/-- flattening of a `map[string]string` as the harness renders it: k₁, v₁, k₂, v₂ … -/
def flatMapLast (ps : List (Bytes × Bytes)) : List Bytes :=
  (sortedKeys ps).flatMap fun k => [k, lastOf ps k]

def flatMapAll (ps : List (Bytes × Bytes)) : List Bytes :=
  (sortedKeys ps).flatMap fun k => k :: allOf ps k

def Req.postArgs (q : Req) : List (Bytes × Bytes) := if q.bkind == 'f' then q.bform else []

/-- binder/mapping.go `parseParamSquareBrackets` on balanced, un-nested brackets: `[` followed by
    something other than `]` becomes `.`, every other bracket disappears. -/
def bracketKey : Bytes → Bytes
  | [] => []
  | 91 :: 93 :: rest => bracketKey rest                -- "[]"
  | 91 :: rest => 46 :: bracketKey rest                -- "[x" ↦ ".x"
  | 93 :: rest => bracketKey rest
  | c :: rest => c :: bracketKey rest

/-- binder/mapping.go `formatBindData` + `assignBindData` for a map target (`equalFieldType` is true
    for every key of a map): the data the decoder receives, as (key, value) pairs in arrival order. -/
def bindData (split brackets : Bool) (ps : List (Bytes × Bytes)) : List (Bytes × Bytes) :=
  ps.flatMap fun p =>
    let k := if brackets && p.1.contains 91 then bracketKey p.1 else p.1
    if split && p.2.contains 44 then (splitOn p.2 44).map fun v => (k, v) else [(k, p.2)]

/-- what `Bind().Form` sees: urlencoded post arguments, or the values of a multipart form -/
def Req.formArgs (q : Req) : List (Bytes × Bytes) :=
  if q.bkind == 'f' || q.bkind == 'm' then q.bform else []

/-- ctx.go `Params` on a route whose Params are [`pname`] or [`pname`, "*1"] -/
def paramOf (c : Cfg) (pname : Bytes) (star : Bool) (name rest k : Bytes) : Bytes :=
  let k := if k == b "*" || k == b "+" then k ++ b "1" else k
  if k == pname || (!c.cs && equalFold k pname) then name
  else if star && k == b "*1" then rest
  else []

/-- The name the ENDPOINT handler sees: with `po` the handler in front has rewritten the path. -/
def Req.endName (c : Cfg) (q : Req) : Bytes := if c.chain == 4 then b "ovr" ++ q.name else q.name

/-- ctx.go `Params` in the handler at `stage` (0 = endpoint, parameters name and star; 1 = the handler
    in front: the same route for `hh`, parameter tenant only for `mw`/`rr`, tenant and star for `po`) -/
def Req.param (c : Cfg) (stage : Nat) (q : Req) (k : Bytes) : Bytes :=
  if stage == 0 && (c.chain == 5 || c.chain == 6) then []     -- no route: Route() is the fallback, no Params
  else if stage == 0 then paramOf c (b "name") true (q.endName c) q.rest k
  else if c.chain == 1 then paramOf c (b "name") true q.name q.rest k
  else paramOf c (b "tenant") (c.chain == 4) q.name q.rest k

/-- ctx.go `Path` in the handler at `stage` -/
def Req.pathAt (c : Cfg) (stage : Nat) (q : Req) : Bytes :=
  if stage == 0 then b "/u/" ++ q.endName c ++ b "/-/" ++ q.rest else q.path

/-- `Bind().URI` into a map at `stage`: the route's parameters in key order -/
def Req.uriMap (c : Cfg) (stage : Nat) (q : Req) : List Bytes :=
  if stage == 0 && (c.chain == 5 || c.chain == 6) then [[]]
  else if stage == 0 then [b "*1", q.rest, b "name", q.endName c, []]
  else if c.chain == 1 then [b "*1", q.rest, b "name", q.name, []]
  else if c.chain == 4 then [b "*1", q.rest, b "tenant", q.name, []]
  else [b "tenant", q.name, []]

/-- `fasthttp.RequestCtx.FormValue`: first non-empty of query args, post args, multipart values -/
def Req.formValue (q : Req) (k : Bytes) : Bytes :=
  let a := (first? q.query k).getD []
  if a ≠ [] then a else
  let p := (first? q.postArgs k).getD []
  if p ≠ [] then p else
  if q.bkind == 'm' then (first? q.bform k).getD [] else []

def Req.method (q : Req) : Bytes := if q.bkind == 'n' then b "GET" else b "POST"

/-- response headers the harness' handler has set before it calls the accessors -/
def Req.respHeader (c : Cfg) (stage : Nat) (q : Req) (k : Bytes) : Option Bytes :=
  let k' := toLower k
  if k' == b "x-resp" then some (b "r-" ++ (if stage == 0 then (if c.chain ≥ 5 then [] else q.endName c) else q.name))
  else if k' == b "x-echo" then some (q.header (b "X-Custom-A"))
  else if k' == b "content-type" then some (b "text/plain; charset=utf-8")   -- fasthttp's default
  else none

/-- Semantics of accessor `meth` (with key `key` when it takes one): the flattened text it returns.
    `none` = no transcription (checked for stability only). The `Req.` / `Res.` facades (req.go,
    res.go) delegate to the context's methods. -/
def sem (c : Cfg) (q : Req) (meth : String) (key : Bytes) : Option (List Bytes) :=
  -- `Mw.X` / `H1.X`: accessor X called in the handler in front of the endpoint (stage 1)
  let stage := if meth.startsWith "Mw." || meth.startsWith "H1." then 1 else 0
  let meth := if stage == 1 then (meth.drop 3).toString else meth
  -- `Pre.X`: the same accessor, called by the harness before all others
  let meth := if meth.startsWith "Pre." then (meth.drop 4).toString else meth
  let meth := if meth.startsWith "Req." then (meth.drop 4).toString else meth
  match meth with
  | "Params" | "Params[string]" | "Params[[]byte]" =>
    -- `uo`: whether the error handler still sees the middleware's route is not transcribed
    if stage == 0 && c.chain == 7 then none else some [q.param c stage key]
  | "Path" => some [q.pathAt c stage]
  | "OriginalURL" => some [q.uri]
  | "Protocol" => some [if q.proto == 1 then b "HTTP/1.0" else b "HTTP/1.1"]
  | "Method" => some [q.method]
  | "Query" | "Query[string]" | "Query[[]byte]" => some [(first? q.query key).getD []]
  | "Queries" => some (flatMapLast q.query)
  | "Get" | "GetReqHeader[string]" | "GetReqHeader[[]byte]" => some [q.header key]
  | "Cookies" => some [(first? q.cookies key).getD []]
  | "Host" => some [q.hostV c]
  | "Hostname" => some [hostname (q.hostV c)]
  | "Scheme" => some [q.scheme c]
  | "BaseURL" => some [q.scheme c ++ b "://" ++ q.hostV c]
  | "IP" =>
    if c.trusted && c.ph then (if c.ipv then none else some [q.header (b "X-Forwarded-For")])
    else some [if c.srv then b "127.0.0.1" else b "10.0.0.7"]
  | "Port" => if c.srv then none else some [b "4242"]
  | "IPs" => if c.ipv then none else some (ipsOf (q.header (b "X-Forwarded-For")))
  | "Subdomains" => some (subdomains (q.hostV c))
  -- a multipart body is pre-parsed by fasthttp (`Request.Read` / the server loop, unless
  -- DisablePreParseMultipartForm) and `Request.Body()` re-marshals the form on every call, parts in Go
  -- map order: not the wire bytes, not even the same bytes twice. Stability only.
  | "BodyRaw" => if q.bkind == 'm' then none else some [q.body]
  | "Body" => if q.bkind == 'm' then none else q.decodedBody.map fun d => [d]
  | "FormValue" => some [q.formValue key]
  | "GetRespHeader" | "Res.Get" => (q.respHeader c stage key).map fun v => [v]
  | "Route" =>
    if stage == 1 && c.chain != 1 then none
    else if stage == 0 && c.chain == 7 then none
    -- ctx.go `Route` without a matched route: `&Route{Path: c.pathOriginal, Method: c.Method(), …}`
    else if stage == 0 && (c.chain == 5 || c.chain == 6) then some [q.method, [], q.path]
    else some [q.method, [], b "/u/:name/-/*", b "name", b "*1"]
  | "Bind.Query:map" => some (flatMapLast (bindData c.split true q.query) ++ [[]])
  | "Bind.Query:mapslice" => some (flatMapAll (bindData c.split true q.query) ++ [[]])
  | "Bind.Cookie:map" => some (flatMapLast (bindData c.split false q.cookies) ++ [[]])
  | "Bind.Cookie:mapslice" => some (flatMapAll (bindData c.split false q.cookies) ++ [[]])
  | "Bind.Form:map" => some (flatMapLast (bindData c.split true q.formArgs) ++ [[]])
  | "Bind.Form:mapslice" => some (flatMapAll (bindData c.split true q.formArgs) ++ [[]])
  | "Bind.Body:map" =>
    if q.bkind == 'f' || q.bkind == 'm' then some (flatMapLast (bindData c.split true q.formArgs) ++ [[]]) else none
  | "Bind.Body:mapslice" =>
    if q.bkind == 'f' || q.bkind == 'm' then some (flatMapAll (bindData c.split true q.formArgs) ++ [[]]) else none
  | "Bind.URI:map" | "Bind.URI:mapslice" => if stage == 0 && c.chain == 7 then none else some (q.uriMap c stage)
  | _ => none

end C06
