import FiberModel.C20.Base64
/-
C20 — model of middleware/encryptcookie (encryptcookie.go, utils.go, config.go) as it is in /repo
(after the two `fix:` commits, see docs/C20.md).

Layers
  * `Aead`        – AES-GCM as an abstract pair seal/unseal (its properties are HYPOTHESES of theorems)
  * `encryptCookie` / `decryptCookie` – utils.go, incl. key decoding + length check and the wire
                    format  base64( nonce ‖ ciphertext ‖ tag )
  * `Codec`       – what the middleware actually calls: `cfg.Encryptor(·, cfg.Key)` /
                    `cfg.Decryptor(·, cfg.Key)`  (default = the two functions above, or custom)
  * `Jar`         – fasthttp's ordered cookie collection `[]argsKV` with `setArg` (replace FIRST match
                    or append) and `peekArg` (first match)
  * `decryptJar`  – the request loop of `New`;  `encryptJar` – the response loop of `New`
  * the handler's views of the request cookies: `lookup` (c.Cookies), enumeration (VisitAllCookie),
    `bindValues`/`bindLast` (Bind().Cookie into map[string][]string / map[string]string),
    `cookieHeader` (c.Get("Cookie"))
  * `decryptJarOld` / `encryptJarOld` – the loops as they were BEFORE the fixes (kept to state the
    defect as a theorem and to show the fix changes nothing for duplicate-free collections)
-/
namespace C20
open B

/-! ## AES-GCM, abstract -/

/-- `cipher.AEAD` for one block cipher family: key, nonce, data. `seal k n p` = `gcm.Seal(nil,n,p,nil)`
    (ciphertext ‖ tag), `unseal k n c` = `gcm.Open(nil,n,c,nil)` (`none` = authentication failure). -/
structure Aead where
  sealWith : Bytes → Bytes → Bytes → Bytes
  openWith : Bytes → Bytes → Bytes → Option Bytes

/-- `gcm.NonceSize()` -/
def nonceSize : Nat := 12

/-- `keyLen != 16 && keyLen != 24 && keyLen != 32` -/
def validKeyLen (n : Nat) : Bool := n == 16 || n == 24 || n == 32

/-- utils.go `EncryptCookie(value, key)` with the nonce read from `rand.Reader` as a parameter.
    `none` = returns an error. -/
def encryptCookie (A : Aead) (nonce value key : Bytes) : Option Bytes :=
  match decode key with
  | none => none                                   -- "failed to base64-decode key"
  | some kd =>
    if !validKeyLen kd.length then none            -- ErrInvalidKeyLength
    else some (encode (nonce ++ A.sealWith kd nonce value))

/-- utils.go `DecryptCookie(value, key)`. `none` = returns an error. -/
def decryptCookie (A : Aead) (value key : Bytes) : Option Bytes :=
  match decode key with
  | none => none
  | some kd =>
    if !validKeyLen kd.length then none
    else
      match decode value with
      | none => none                               -- "failed to base64-decode value"
      | some enc =>
        if enc.length < nonceSize then none        -- "encrypted value is not valid"
        else A.openWith kd (enc.take nonceSize) (enc.drop nonceSize)

/-! ## what the middleware calls -/

/-- `cfg.Encryptor(value, cfg.Key)` (first argument: the randomness it draws) and
    `cfg.Decryptor(value, cfg.Key)`; `none` = error. -/
structure Codec where
  enc : Bytes → Bytes → Option Bytes
  dec : Bytes → Option Bytes

/-- config.go `ConfigDefault`: Encryptor = EncryptCookie, Decryptor = DecryptCookie -/
def stdCodec (A : Aead) (key : Bytes) : Codec :=
  { enc := fun nonce v => encryptCookie A nonce v key, dec := fun c => decryptCookie A c key }

/-- A custom Encryptor/Decryptor pair (the one the harness configures): the inner text reversed
    behind a one-byte tag `X`. -/
def wrapCodec (C : Codec) : Codec :=
  { enc := fun nonce v => (C.enc nonce v).map fun s => 88 :: s.reverse,
    dec := fun s => match s with
      | 88 :: t => C.dec t.reverse
      | _ => none }

/-- config.go `configDefault`: the constructor panics exactly when `Key == ""`.
    (It validates nothing else: a key that does not decode or has a bad length is only noticed per
    cookie.) -/
def ctorPanics (key : Bytes) : Bool := key.isEmpty

/-! ## fasthttp cookie collections -/

/-- `[]argsKV` of a RequestHeader: ordered (key, value) pairs, duplicates possible -/
abbrev Jar := List (Bytes × Bytes)

/-- fasthttp args.go `setArg`: overwrite the FIRST entry with that key, else append -/
def setArg : Jar → Bytes → Bytes → Jar
  | [], k, v => [(k, v)]
  | (k', v') :: r, k, v => if k' = k then (k, v) :: r else (k', v') :: setArg r k v

/-- fasthttp args.go `peekArgStr`: value of the first entry with that key -/
def peek : Jar → Bytes → Option Bytes
  | [], _ => none
  | (k', v') :: r, k => if k' = k then some v' else peek r k

/-- utils.go `isDisabled`: exact, case-sensitive membership in `Except` -/
def isDisabled (k : Bytes) (except : List Bytes) : Bool := except.contains k

/-- value the request loop stores for one cookie -/
def openValue (C : Codec) (ex : List Bytes) (k v : Bytes) : Bytes :=
  if isDisabled k ex then v else (C.dec v).getD []

/-- encryptcookie.go `New`, request part (current code):
    `reqCookies` is copied out, `DelAllCookies()`, then for i = 0..: skip when
    `isRepeated(reqCookies[:i], key)`, else `SetCookie(key, decrypted-or-"" / raw if excepted)`.
    `seen` = keys of `reqCookies[:i]`, `acc` = the collection being rebuilt. -/
def rebuild (C : Codec) (ex : List Bytes) : List Bytes → Jar → Jar → Jar
  | _, [], acc => acc
  | seen, (k, v) :: r, acc =>
    if seen.contains k then rebuild C ex (k :: seen) r acc
    else rebuild C ex (k :: seen) r (setArg acc k (openValue C ex k v))

def decryptJar (C : Codec) (ex : List Bytes) (j : Jar) : Jar := rebuild C ex [] j []

/-- first cookie of each name (declarative counterpart of the loop's `isRepeated` test) -/
def firsts : List Bytes → Jar → Jar
  | _, [] => []
  | seen, (k, v) :: r =>
    if seen.contains k then firsts (k :: seen) r else (k, v) :: firsts (k :: seen) r

/-- The request loop BEFORE the fix: `VisitAllCookie` over the live collection, writing back with
    `SetCookie` = `setArg` (first match!). `i` runs over the indices `0 .. n-1`. -/
def oldVisit (C : Codec) (ex : List Bytes) (j : Jar) (i : Nat) : Jar :=
  match j[i]? with
  | none => j
  | some (k, v) => if isDisabled k ex then j else setArg j k ((C.dec v).getD [])

def decryptJarOld (C : Codec) (ex : List Bytes) (j : Jar) : Jar :=
  (List.range j.length).foldl (oldVisit C ex) j

/-! ## the handler's views of the request cookies -/

/-- `c.Cookies(name)`: first match, "" when absent -/
def lookup (j : Jar) (k : Bytes) : Bytes := (peek j k).getD []

/-- `Bind().Cookie(&map[string][]string{})`: all values under a name, in order -/
def bindValues (j : Jar) (k : Bytes) : List Bytes := (j.filter (fun e => e.1 == k)).map (·.2)

/-- `Bind().Cookie(&map[string]string{})`: the LAST value under a name -/
def bindLast (j : Jar) (k : Bytes) : Bytes := (bindValues j k).getLast?.getD []

/-- `c.Get("Cookie")` once the cookies are collected: fasthttp `appendRequestCookieBytes` -/
def cookieHeader : Jar → Bytes
  | [] => []
  | [(k, v)] => (if k = [] then [] else k ++ [61]) ++ v
  | (k, v) :: r => (if k = [] then [] else k ++ [61]) ++ v ++ [59, 32] ++ cookieHeader r

/-- names in order of first appearance -/
def distinctKeys (j : Jar) : List Bytes := (firsts [] j).map (·.1)

/-- everything a handler can see of the request cookies -/
structure Views where
  enum : Jar                              -- VisitAllCookie
  look : List (Bytes × Bytes)             -- c.Cookies(name) for some names
  bind : List (Bytes × List Bytes)        -- Bind().Cookie(&map[string][]string{}), names in order
  hdr : Bytes                             -- c.Get("Cookie")

/-- the views a handler behind the middleware gets for request cookies `j` (`ks` = names it looks up) -/
def modelViews (C : Codec) (ex : List Bytes) (j : Jar) (ks : List Bytes) : Views :=
  let e := decryptJar C ex j
  { enum := e, look := ks.map fun k => (k, lookup e k),
    bind := (distinctKeys e).map fun k => (k, bindValues e k), hdr := cookieHeader e }

/-! ## response cookies -/

/-- One response cookie as the handler left it: fasthttp's stored key and Set-Cookie text, plus what
    `fasthttp.Cookie.Parse(raw)` makes of it (key, value; `tail` = everything `Cookie.AppendBytes`
    renders after the value). The cookie parser itself is fasthttp's and is not modelled: the three
    parsed components are inputs. -/
structure RCookie where
  key : Bytes
  raw : Bytes
  pkey : Bytes
  pvalue : Bytes
  tail : Bytes
deriving DecidableEq, Repr

/-- fasthttp `Cookie.AppendBytes`: `key=` (only when the key is non-empty), value, attributes -/
def render (pkey value tail : Bytes) : Bytes :=
  (if pkey = [] then [] else pkey ++ [61]) ++ value ++ tail

/-- fasthttp cookie.go `getCookieKey`: text before the first `=` (all of it when there is none),
    spaces trimmed — the key `ResponseHeader.Add("Set-Cookie", …)` stores -/
def getCookieKey (raw : Bytes) : Bytes := trim (raw.takeWhile (· != 61)) 32

/-- a response cookie after the middleware -/
structure WCookie where
  key : Bytes        -- stored key
  raw : Bytes        -- Set-Cookie text on the wire
  pkey : Bytes
  value : Bytes      -- the value inside `raw`
  tail : Bytes
deriving DecidableEq, Repr

/-- encryptcookie.go `New`, response part (current code): the cookies are copied out,
    `DelAllCookies()`, then each is added back with `Header.Add("Set-Cookie", …)`: an excepted one
    verbatim, any other re-rendered from its parse with the encrypted value. One nonce is drawn per
    encrypted cookie. `none` = `panic(err)` (Encryptor failed). -/
def encryptJar (C : Codec) (ex : List Bytes) : List Bytes → List RCookie → Option (List WCookie)
  | _, [] => some []
  | ns, c :: r =>
    if isDisabled c.key ex then
      (encryptJar C ex ns r).map fun t =>
        { key := getCookieKey c.raw, raw := c.raw, pkey := c.pkey, value := c.pvalue, tail := c.tail } :: t
    else
      match ns with
      | [] => none                       -- `io.ReadFull(rand.Reader, nonce)` failed: error, panic
      | n :: ns' =>
        match C.enc n c.pvalue with
        | none => none
        | some e =>
          (encryptJar C ex ns' r).map fun t =>
            { key := getCookieKey (render c.pkey e c.tail), raw := render c.pkey e c.tail,
              pkey := c.pkey, value := e, tail := c.tail } :: t

/-- what a client sends back for the cookies it received (name = parsed key, value as received) -/
def echo (ws : List WCookie) : Jar := ws.map fun w => (w.pkey, w.value)

/-- The response loop BEFORE the fix, on the stored (key ↦ Set-Cookie text) collection:
    for i = 0..n-1: key := entry i's key; unless excepted: look the FIRST entry with that key up,
    parse it, encrypt its value, `SetCookie` = replace the FIRST entry with the parsed key (or append).
    `parse` is fasthttp's cookie parser (key, value, tail). -/
def oldEncVisit (C : Codec) (ex : List Bytes) (parse : Bytes → Bytes × Bytes × Bytes)
    (st : Option (Jar × List Bytes)) (i : Nat) : Option (Jar × List Bytes) :=
  match st with
  | none => none
  | some (j, ns) =>
    match j[i]? with
    | none => some (j, ns)
    | some (k, _) =>
      if isDisabled k ex then some (j, ns)
      else match peek j k with
        | none => some (j, ns)
        | some raw =>
          let (pk, pv, tl) := parse raw
          match C.enc (ns.headD []) pv with
          | none => none
          | some e => some (setArg j pk (render pk e tl), ns.drop 1)

def encryptJarOld (C : Codec) (ex : List Bytes) (parse : Bytes → Bytes × Bytes × Bytes)
    (ns : List Bytes) (j : Jar) : Option Jar :=
  ((List.range j.length).foldl (oldEncVisit C ex parse) (some (j, ns))).map (·.1)

end C20
