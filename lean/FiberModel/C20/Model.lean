import FiberModel.C20.Base64
/-
C20 — model of middleware/encryptcookie (encryptcookie.go, utils.go, config.go) as it is in /repo
(after the two `fix:` commits, see docs/C20.md).

Layers
  * `Aead`        – AES-GCM as an abstract pair seal/unseal (its properties are HYPOTHESES of theorems)
  * `encryptCookie` / `decryptCookie` – utils.go, incl. key decoding + length check and the wire
                    format  base64( nonce ‖ ciphertext ‖ tag )
  * `Codec`       – what the middleware actually calls: `cfg.Encryptor(·, cfg.Key)` /
                    `cfg.Decryptor(·, cfg.Key)`  (default = the two functions above, or custom)
  * `Jar`         – fasthttp's ordered cookie collection `[]argsKV` with `setArg` (replace FIRST match
                    or append) and `peekArg` (first match)
  * `decryptJar`  – the request loop of `New`;  `encryptJar` – the response loop of `New`
  * the handler's views of the request cookies: `lookup` (c.Cookies), enumeration (VisitAllCookie),
    `bindValues`/`bindLast` (Bind().Cookie into map[string][]string / map[string]string),
    `cookieHeader` (c.Get("Cookie"))
  * `decryptJarOld` / `encryptJarOld` – the loops as they were BEFORE the fixes (kept to state the
    defect as a theorem and to show the fix changes nothing for duplicate-free collections)
-/
namespace C20
open B

/-! ## AES-GCM, abstract -/

/-- `cipher.AEAD` for one block cipher family: key, nonce, data. `seal k n p` = `gcm.Seal(nil,n,p,nil)`
    (ciphertext ‖ tag), `unseal k n c` = `gcm.Open(nil,n,c,nil)` (`none` = authentication failure). -/
structure Aead where
  sealWith : Bytes → Bytes → Bytes → Bytes
  openWith : Bytes → Bytes → Bytes → Option Bytes

/-- `gcm.NonceSize()` -/
def nonceSize : Nat := 12

/-- `keyLen != 16 && keyLen != 24 && keyLen != 32` -/
def validKeyLen (n : Nat) : Bool := n == 16 || n == 24 || n == 32

/-- utils.go `EncryptCookie(value, key)` with the nonce read from `rand.Reader` as a parameter.
    `none` = returns an error. -/
def encryptCookie (A : Aead) (nonce value key : Bytes) : Option Bytes :=
  match decode key with
  | none => none                                   -- "failed to base64-decode key"
  | some kd =>
    if !validKeyLen kd.length then none            -- ErrInvalidKeyLength
    else some (encode (nonce ++ A.sealWith kd nonce value))

/-- utils.go `DecryptCookie(value, key)`. `none` = returns an error. -/
def decryptCookie (A : Aead) (value key : Bytes) : Option Bytes :=
  match decode key with
  | none => none
  | some kd =>
    if !validKeyLen kd.length then none
    else
      match decode value with
      | none => none                               -- "failed to base64-decode value"
      | some enc =>
        if enc.length < nonceSize then none        -- "encrypted value is not valid"
        else A.openWith kd (enc.take nonceSize) (enc.drop nonceSize)

/-! ## what the middleware calls -/

/-- `cfg.Encryptor(value, cfg.Key)` (first argument: the randomness it draws) and
    `cfg.Decryptor(value, cfg.Key)`; `none` = error. -/
structure Codec where
  enc : Bytes → Bytes → Option Bytes
  dec : Bytes → Option Bytes

/-- config.go `ConfigDefault`: Encryptor = EncryptCookie, Decryptor = DecryptCookie -/
def stdCodec (A : Aead) (key : Bytes) : Codec :=
  { enc := fun nonce v => encryptCookie A nonce v key, dec := fun c => decryptCookie A c key }

/-- A custom Encryptor/Decryptor pair (the one the harness configures): the inner text reversed
    behind a one-byte tag `X`. -/
def wrapCodec (C : Codec) : Codec :=
  { enc := fun nonce v => (C.enc nonce v).map fun s => 88 :: s.reverse,
    dec := fun s => match s with
      | 88 :: t => C.dec t.reverse
      | _ => none }

/-- config.go `configDefault`: the constructor panics exactly when `Key == ""`.
    (It validates nothing else: a key that does not decode or has a bad length is only noticed per
    cookie.) -/
def ctorPanics (key : Bytes) : Bool := key.isEmpty

/-! ## fasthttp cookie collections -/

/-- `[]argsKV` of a RequestHeader: ordered (key, value) pairs, duplicates possible -/
abbrev Jar := List (Bytes × Bytes)

/-- fasthttp args.go `setArg`: overwrite the FIRST entry with that key, else append -/
def setArg : Jar → Bytes → Bytes → Jar
  | [], k, v => [(k, v)]
  | (k', v') :: r, k, v => if k' = k then (k, v) :: r else (k', v') :: setArg r k v

/-- fasthttp args.go `peekArgStr`: value of the first entry with that key -/
def peek : Jar → Bytes → Option Bytes
  | [], _ => none
  | (k', v') :: r, k => if k' = k then some v' else peek r k

/-- utils.go `isDisabled`: exact, case-sensitive membership in `Except` -/
def isDisabled (k : Bytes) (except : List Bytes) : Bool := except.contains k

/-- value the request loop stores for one cookie -/
def openValue (C : Codec) (ex : List Bytes) (k v : Bytes) : Bytes :=
  if isDisabled k ex then v else (C.dec v).getD []

/-- encryptcookie.go `New`, request part (current code):
    `reqCookies` is copied out, `DelAllCookies()`, then for i = 0..: skip when
    `isRepeated(reqCookies[:i], key)`, else `SetCookie(key, decrypted-or-"" / raw if excepted)`.
    `seen` = keys of `reqCookies[:i]`, `acc` = the collection being rebuilt. -/
def rebuild (C : Codec) (ex : List Bytes) : List Bytes → Jar → Jar → Jar
  | _, [], acc => acc
  | seen, (k, v) :: r, acc =>
    if seen.contains k then rebuild C ex (k :: seen) r acc
    else rebuild C ex (k :: seen) r (setArg acc k (openValue C ex k v))

def decryptJar (C : Codec) (ex : List Bytes) (j : Jar) : Jar := rebuild C ex [] j []

/-- first cookie of each name (declarative counterpart of the loop's `isRepeated` test) -/
def firsts : List Bytes → Jar → Jar
  | _, [] => []
  | seen, (k, v) :: r =>
    if seen.contains k then firsts (k :: seen) r else (k, v) :: firsts (k :: seen) r

/-- The request loop BEFORE the fix: `VisitAllCookie` over the live collection, writing back with
    `SetCookie` = `setArg` (first match!). `i` runs over the indices `0 .. n-1`. -/
def oldVisit (C : Codec) (ex : List Bytes) (j : Jar) (i : Nat) : Jar :=
  match j[i]? with
  | none => j
  | some (k, v) => if isDisabled k ex then j else setArg j k ((C.dec v).getD [])

def decryptJarOld (C : Codec) (ex : List Bytes) (j : Jar) : Jar :=
  (List.range j.length).foldl (oldVisit C ex) j

/-! ## the handler's views of the request cookies -/

/-- `c.Cookies(name)`: first match, "" when absent -/
def lookup (j : Jar) (k : Bytes) : Bytes := (peek j k).getD []

/-- `Bind().Cookie(&map[string][]string{})`: all values under a name, in order -/
def bindValues (j : Jar) (k : Bytes) : List Bytes := (j.filter (fun e => e.1 == k)).map (·.2)

/-- `Bind().Cookie(&map[string]string{})`: the LAST value under a name -/
def bindLast (j : Jar) (k : Bytes) : Bytes := (bindValues j k).getLast?.getD []

/-- `c.Get("Cookie")` once the cookies are collected: fasthttp `appendRequestCookieBytes` -/
def cookieHeader : Jar → Bytes
  | [] => []
  | [(k, v)] => (if k = [] then [] else k ++ [61]) ++ v
  | (k, v) :: r => (if k = [] then [] else k ++ [61]) ++ v ++ [59, 32] ++ cookieHeader r

/-- names in order of first appearance -/
def distinctKeys (j : Jar) : List Bytes := (firsts [] j).map (·.1)

/-- everything a handler can see of the request cookies -/
structure Views where
  enum : Jar                              -- VisitAllCookie
  look : List (Bytes × Bytes)             -- c.Cookies(name) for some names
  bind : List (Bytes × List Bytes)        -- Bind().Cookie(&map[string][]string{}), names in order
  hdr : Bytes                             -- c.Get("Cookie")
  more : List Bytes := []                 -- every other rendering of the Cookie header a handler can ask
                                          -- for: Header.PeekAll("Cookie"), the Cookie line of the
                                          -- re-serialised header block (Header.String()/Header()),
                                          -- GetReqHeaders()["Cookie"] — as a set
deriving DecidableEq, Repr

/-- the views a handler behind the middleware gets for request cookies `j` (`ks` = names it looks up) -/
def modelViews (C : Codec) (ex : List Bytes) (j : Jar) (ks : List Bytes) : Views :=
  let e := decryptJar C ex j
  { enum := e, look := ks.map fun k => (k, lookup e k),
    bind := (distinctKeys e).map fun k => (k, bindValues e k), hdr := cookieHeader e,
    more := [cookieHeader e] }

/-! ## response cookies -/

/-- One response cookie as the handler left it: fasthttp's stored key and Set-Cookie text, plus what
    `fasthttp.Cookie.Parse(raw)` makes of it (key, value; `tail` = everything `Cookie.AppendBytes`
    renders after the value). The cookie parser itself is fasthttp's and is not modelled: the three
    parsed components are inputs. -/
structure RCookie where
  key : Bytes
  raw : Bytes
  pkey : Bytes
  pvalue : Bytes
  tail : Bytes
deriving DecidableEq, Repr

/-- fasthttp `Cookie.AppendBytes`: `key=` (only when the key is non-empty), value, attributes -/
def render (pkey value tail : Bytes) : Bytes :=
  (if pkey = [] then [] else pkey ++ [61]) ++ value ++ tail

/-- fasthttp cookie.go `getCookieKey`: text before the first `=` (all of it when there is none),
    spaces trimmed — the key `ResponseHeader.Add("Set-Cookie", …)` stores -/
def getCookieKey (raw : Bytes) : Bytes := trim (raw.takeWhile (· != 61)) 32

/-- a response cookie after the middleware -/
structure WCookie where
  key : Bytes        -- stored key
  raw : Bytes        -- Set-Cookie text on the wire
  pkey : Bytes
  value : Bytes      -- the value inside `raw`
  tail : Bytes
deriving DecidableEq, Repr

/-- encryptcookie.go `New`, response part (current code): the cookies are copied out,
    `DelAllCookies()`, then each is added back with `Header.Add("Set-Cookie", …)`: an excepted one
    verbatim, any other re-rendered from its parse with the encrypted value. One nonce is drawn per
    encrypted cookie. `none` = `panic(err)` (Encryptor failed). -/
def encryptJar (C : Codec) (ex : List Bytes) : List Bytes → List RCookie → Option (List WCookie)
  | _, [] => some []
  | ns, c :: r =>
    if isDisabled c.key ex then
      (encryptJar C ex ns r).map fun t =>
        { key := getCookieKey c.raw, raw := c.raw, pkey := c.pkey, value := c.pvalue, tail := c.tail } :: t
    else
      match ns with
      | [] => none                       -- `io.ReadFull(rand.Reader, nonce)` failed: error, panic
      | n :: ns' =>
        match C.enc n c.pvalue with
        | none => none
        | some e =>
          (encryptJar C ex ns' r).map fun t =>
            { key := getCookieKey (render c.pkey e c.tail), raw := render c.pkey e c.tail,
              pkey := c.pkey, value := e, tail := c.tail } :: t

/-- what a client sends back for the cookies it received (name = parsed key, value as received) -/
def echo (ws : List WCookie) : Jar := ws.map fun w => (w.pkey, w.value)

/-- The response loop BEFORE the fix, on the stored (key ↦ Set-Cookie text) collection:
    for i = 0..n-1: key := entry i's key; unless excepted: look the FIRST entry with that key up,
    parse it, encrypt its value, `SetCookie` = replace the FIRST entry with the parsed key (or append).
    `parse` is fasthttp's cookie parser (key, value, tail). -/
def oldEncVisit (C : Codec) (ex : List Bytes) (parse : Bytes → Bytes × Bytes × Bytes)
    (st : Option (Jar × List Bytes)) (i : Nat) : Option (Jar × List Bytes) :=
  match st with
  | none => none
  | some (j, ns) =>
    match j[i]? with
    | none => some (j, ns)
    | some (k, _) =>
      if isDisabled k ex then some (j, ns)
      else match peek j k with
        | none => some (j, ns)
        | some raw =>
          let (pk, pv, tl) := parse raw
          match C.enc (ns.headD []) pv with
          | none => none
          | some e => some (setArg j pk (render pk e tl), ns.drop 1)

def encryptJarOld (C : Codec) (ex : List Bytes) (parse : Bytes → Bytes × Bytes × Bytes)
    (ns : List Bytes) (j : Jar) : Option Jar :=
  ((List.range j.length).foldl (oldEncVisit C ex parse) (some (j, ns))).map (·.1)

/-! ## the whole handler of `New`: `Config.Next`, failing / panicking code, what surrounds it

Everything above is one of the two loops. This part puts them into the handler function
`New` returns, with every way control can leave it:

  * `cfg.Next != nil && cfg.Next(c)`  → `return c.Next()`: neither loop runs (`skip`);
  * a custom Decryptor that PANICS (an error is just `""`): the panic leaves the handler before
    any handler behind it ran (`decPanics`);
  * the handlers behind return `nil`, return an error, or panic (`Flow`); the response loop runs in
    all three cases (it is deferred – fix F3);
  * the Encryptor fails (error or panic – both end in a panic of the request): the response loop
    stops there, the cookies re-added so far are all that is left in the response (`encryptRun`);
  * code that is NOT behind the middleware writes cookies after it returned: middleware registered
    in front of it (after its own `c.Next()`), the app's ErrorHandler (`Late`, `applyLate`);
  * a recover middleware in front of it turns a panic into an error response (`recover`).
-/

/-- how the handlers behind the middleware end: `return nil`, `return err`, `panic` -/
inductive Flow where
  | ok | err | panic
deriving DecidableEq, Repr

/-- the views of request cookies `j` as they are (no middleware, or `cfg.Next(c)` said skip) -/
def rawViews (j : Jar) (ks : List Bytes) : Views :=
  { enum := j, look := ks.map fun k => (k, lookup j k),
    bind := (distinctKeys j).map fun k => (k, bindValues j k), hdr := cookieHeader j,
    more := [cookieHeader j] }

/-- encryptcookie.go `New`: `if cfg.Next != nil && cfg.Next(c) { return c.Next() }`, else the request
    loop – what the handlers behind see -/
def mwViews (skip : Bool) (C : Codec) (ex : List Bytes) (j : Jar) (ks : List Bytes) : Views :=
  if skip then rawViews j ks else modelViews C ex j ks

/-- the request loop calls `cfg.Decryptor` for the first cookie of every non-excepted name, in order;
    a Decryptor that panics on one of them (`decPanics`) takes the whole request down before any
    handler behind the middleware ran -/
def reqPanics (decPanics : Bytes → Bool) (ex : List Bytes) (j : Jar) : Bool :=
  (firsts [] j).any fun e => !isDisabled e.1 ex && decPanics e.2

/-- a response cookie the middleware did not touch (stored key and text as they are) -/
def keep (c : RCookie) : WCookie :=
  { key := c.key, raw := c.raw, pkey := c.pkey, value := c.pvalue, tail := c.tail }

/-- an excepted cookie, re-added verbatim with `Header.Add` (fasthttp derives the stored key anew) -/
def asIs (c : RCookie) : WCookie :=
  { key := getCookieKey c.raw, raw := c.raw, pkey := c.pkey, value := c.pvalue, tail := c.tail }

/-- a cookie re-rendered with the encrypted value `e` -/
def sealedCookie (c : RCookie) (e : Bytes) : WCookie :=
  { key := getCookieKey (render c.pkey e c.tail), raw := render c.pkey e c.tail,
    pkey := c.pkey, value := e, tail := c.tail }

/-- The response loop with its failure made visible: the cookies added back when the loop ends, and
    whether it ran to the end. It ends early (`panic(err)`) at the first cookie whose encryption
    fails; the cookies after it were deleted by `DelAllCookies()` and are not added back. -/
def encryptRun (C : Codec) (ex : List Bytes) : List Bytes → List RCookie → List WCookie × Bool
  | _, [] => ([], true)
  | ns, c :: r =>
    if isDisabled c.key ex then
      (asIs c :: (encryptRun C ex ns r).1, (encryptRun C ex ns r).2)
    else
      match ns with
      | [] => ([], false)
      | n :: ns' =>
        match C.enc n c.pvalue with
        | none => ([], false)
        | some e => (sealedCookie c e :: (encryptRun C ex ns' r).1, (encryptRun C ex ns' r).2)

/-- a cookie written after the middleware returned, by code that is not behind it -/
structure Late where
  replace : Bool     -- `c.Cookie(…)` = `ResponseHeader.SetCookie` (replace the first cookie stored under
                     -- that key, else append) / false: `Header.Add("Set-Cookie", …)` (append)
  w : WCookie
deriving DecidableEq, Repr

/-- fasthttp `setArgBytes` on the response cookies: replace the FIRST cookie stored under the key -/
def setW : List WCookie → WCookie → List WCookie
  | [], w => [w]
  | x :: r, w => if x.key = w.key then w :: r else x :: setW r w

def applyLate (ws : List WCookie) (ops : List Late) : List WCookie :=
  ops.foldl (fun acc o => if o.replace then setW acc o.w else acc ++ [o.w]) ws

/-- a configured middleware instance -/
structure Mw where
  codec : Codec
  decPanics : Bytes → Bool     -- texts on which a custom Decryptor panics (never, for utils.go's)
  except : List Bytes

/-- config.go defaults: utils.go's pair; `DecryptCookie` has no panicking path (the slice
    `enc[:nonceSize]` is guarded by the length test) -/
def stdMw (A : Aead) (key : Bytes) (ex : List Bytes) : Mw :=
  { codec := stdCodec A key, decPanics := fun _ => false, except := ex }

/-- one request/response exchange through the handler `New` returns, with its surroundings -/
structure Exchange where
  skip : Bool                -- `cfg.Next != nil && cfg.Next(c)`
  jar : Jar                  -- request cookies as they arrive
  ks : List Bytes            -- names the handlers look up
  opre : List RCookie        -- response cookies already there when the middleware is entered
  cookies : List RCookie     -- response cookies when the handlers behind it are done (incl. `opre`)
  flow : Flow                -- how the handlers behind it end
  nonces : List Bytes        -- what `rand.Reader` delivers
  recover : Bool             -- a recover middleware is registered in front
  late : List Late           -- cookie writes executed after the middleware was left

structure Outcome where
  views : Option Views            -- `none`: no handler behind the middleware ran
  mid : List WCookie              -- response cookies when the middleware is left (returning or panicking)
  wire : Option (List WCookie)    -- what is sent; `none`: the panic reached the server loop
deriving DecidableEq

/-- encryptcookie.go `New`, the returned handler, start to end -/
def serve (m : Mw) (x : Exchange) : Outcome :=
  if x.skip then
    let mid := x.cookies.map keep
    { views := some (rawViews x.jar x.ks), mid := mid,
      wire := if x.flow = Flow.panic && !x.recover then none else some (applyLate mid x.late) }
  else if reqPanics m.decPanics m.except x.jar then
    let mid := x.opre.map keep
    { views := none, mid := mid, wire := if x.recover then some (applyLate mid x.late) else none }
  else
    let run := encryptRun m.codec m.except x.nonces x.cookies
    { views := some (modelViews m.codec m.except x.jar x.ks), mid := run.1,
      wire := if (x.flow = Flow.panic || !run.2) && !x.recover then none
              else some (applyLate run.1 x.late) }

/-- the faulty custom pair of the harness: around `wrapCodec`, an Encryptor that returns an error for
    values starting with `ERR` and panics for values starting with `PANIC` (both end the request with
    a panic), a Decryptor that panics on texts starting with `PANIC` -/
def faultyEnc (v : Bytes) : Bool := hasPrefix v (b "ERR") || hasPrefix v (b "PANIC")

def faultyCodec (C : Codec) : Codec :=
  { enc := fun nonce v => if faultyEnc v then none else (wrapCodec C).enc nonce v,
    dec := (wrapCodec C).dec }

def faultyDecPanics (s : Bytes) : Bool := hasPrefix s (b "PANIC")

end C20
