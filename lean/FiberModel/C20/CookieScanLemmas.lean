import FiberModel.C20.CookieScan
import FiberModel.C20.Base64Lemmas
/-
C20 — lemmas about the cookie scanner model (helper file).
-/
namespace C20
open B

theorem splitOn_go_no_sep (c : Nat) (a acc : Bytes) (h : ∀ x ∈ a, x ≠ c) :
    splitOn.go c a acc = [acc.reverse ++ a] := by
  induction a generalizing acc with
  | nil => simp [splitOn.go]
  | cons x xs ih =>
    have hx : (x == c) = false := by simpa using h x (by simp)
    simp only [splitOn.go, hx, Bool.false_eq_true, if_false]
    rw [ih (x :: acc) (fun y hy => h y (by simp [hy]))]
    simp

theorem splitOn_go_head (c : Nat) (a rest acc : Bytes) (h : ∀ x ∈ a, x ≠ c) :
    (splitOn.go c (a ++ c :: rest) acc).headD [] = acc.reverse ++ a := by
  induction a generalizing acc with
  | nil => simp [splitOn.go]
  | cons x xs ih =>
    have hx : (x == c) = false := by simpa using h x (by simp)
    simp only [List.cons_append, splitOn.go, hx, Bool.false_eq_true, if_false]
    rw [ih (x :: acc) (fun y hy => h y (by simp [hy]))]
    simp

/-- first `c`-separated piece of `a ++ t` when `a` has no `c` and `t` is empty or starts with `c` -/
theorem splitOn_head (c : Nat) (a t : Bytes) (h : ∀ x ∈ a, x ≠ c) (ht : t = [] ∨ ∃ r, t = c :: r) :
    (splitOn (a ++ t) c).headD [] = a := by
  unfold splitOn
  rcases ht with rfl | ⟨r, rfl⟩
  · rw [List.append_nil, splitOn_go_no_sep c a [] h]; simp
  · rw [splitOn_go_head c a r [] h]; simp

theorem indexByte_append (k v : Bytes) (c : Nat) (h : ∀ x ∈ k, x ≠ c) :
    indexByte (k ++ c :: v) c = some k.length := by
  induction k with
  | nil => simp [indexByte]
  | cons x xs ih =>
    have hx : (x == c) = false := by simpa using h x (by simp)
    simp [indexByte, hx, ih (fun y hy => h y (by simp [hy]))]

theorem indexByte_none (s : Bytes) (c : Nat) (h : ∀ x ∈ s, x ≠ c) : indexByte s c = none := by
  induction s with
  | nil => rfl
  | cons x xs ih =>
    have hx : (x == c) = false := by simpa using h x (by simp)
    simp [indexByte, hx, ih (fun y hy => h y (by simp [hy]))]

theorem dropWhile_id_of_head {p : Nat → Bool} (s : Bytes) (h : ∀ x, s.head? = some x → p x = false) :
    s.dropWhile p = s := by
  cases s with
  | nil => rfl
  | cons x xs => simp [List.dropWhile, h x (by simp)]

theorem trimSp_id (s : Bytes) (h : ∀ x ∈ s, x ≠ 32) : trimSp s = s := by
  unfold trimSp trim trimRight trimLeft
  have h1 : s.dropWhile (· == 32) = s := by
    apply dropWhile_id_of_head
    intro x hx
    have : x ∈ s := List.mem_of_head? hx
    simpa using h x this
  rw [h1]
  have h2 : s.reverse.dropWhile (· == 32) = s.reverse := by
    apply dropWhile_id_of_head
    intro x hx
    have : x ∈ s.reverse := List.mem_of_head? hx
    simpa using h x (by simpa using this)
  rw [h2, List.reverse_reverse]

theorem unquote_id (s : Bytes) (h : ∀ x ∈ s, x ≠ 34) : unquote s = s := by
  unfold unquote
  split
  · rename_i hc
    obtain ⟨_, hh, _⟩ := hc
    exact absurd rfl (h 34 (List.mem_of_head? hh))
  · rfl

/-- a byte that may appear in a cookie name or value without being touched by the scanner -/
def plainByte (x : Nat) : Prop := x ≠ 59 ∧ x ≠ 32 ∧ x ≠ 34

/-- THE SCANNER READS BACK WHAT WAS RENDERED: for a non-empty name without `=`,`;`,space,quote, a value
    without `;`,space,quote (it may contain `=`), and attributes that are empty or start with `;`,
    `fasthttp.Cookie.Parse(AppendBytes(name, value, attrs))` yields exactly (name, value). -/
theorem scan_render (k v t : Bytes) (hk0 : k ≠ []) (hk : ∀ x ∈ k, plainByte x ∧ x ≠ 61)
    (hv : ∀ x ∈ v, plainByte x) (ht : t = [] ∨ ∃ r, t = 59 :: r) :
    scanSetCookie (render k v t) = (k, v) := by
  unfold scanSetCookie render
  simp only [hk0, if_false]
  have hne : k ++ [61] ++ v ++ t ≠ [] := by
    cases k with
    | nil => exact absurd rfl hk0
    | cons _ _ => simp
  simp only [hne, if_false]
  have hseg : ∀ x ∈ k ++ [61] ++ v, x ≠ 59 := by
    intro x hx
    simp at hx
    rcases hx with h | rfl | h
    · exact (hk x h).1.1
    · decide
    · exact (hv x h).1
  rw [splitOn_head 59 (k ++ [61] ++ v) t hseg ht]
  unfold scanSegment
  have hidx : indexByte (k ++ [61] ++ v) 61 = some k.length := by
    rw [List.append_assoc]; exact indexByte_append k v 61 (fun x hx => (hk x hx).2)
  rw [hidx]
  simp only
  have htake : (k ++ [61] ++ v).take k.length = k := by
    rw [List.append_assoc]; exact List.take_left
  have hdrop : (k ++ [61] ++ v).drop (k.length + 1) = v := by
    have : (k ++ [61] ++ v) = (k ++ [61]) ++ v := rfl
    rw [this]
    have hl : (k ++ [61]).length = k.length + 1 := by simp
    rw [← hl]; exact List.drop_left
  rw [htake, hdrop]
  simp only [decodeArg, if_true, Bool.false_eq_true, if_false]
  rw [trimSp_id k (fun x hx => (hk x hx).1.2.1), trimSp_id v (fun x hx => (hv x hx).2.1),
    unquote_id v (fun x hx => (hv x hx).2.2)]

/-- every character of a base64 text is plain -/
theorem encode_plain (bs : Bytes) : ∀ x ∈ encode bs, plainByte x := by
  have hc : ∀ n, plainByte (char64 n) := by
    intro n; unfold plainByte char64; (repeat' split) <;> omega
  have hp : plainByte PAD := by unfold plainByte PAD; omega
  fun_induction encode bs <;> simp_all

end C20
