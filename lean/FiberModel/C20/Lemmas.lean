import FiberModel.C20.Spec
import FiberModel.C20.Base64Lemmas
/-
C20 — helper lemmas (collections, loops, codec hypotheses). Property theorems are in Props.lean.
-/
namespace C20
open B

/-! ## hypotheses about AES-GCM and about codecs (never axioms: always theorem hypotheses) -/

/-- log of what the server sealed under a key: (nonce, ciphertext‖tag, plaintext) -/
abbrev SealLog := List (Bytes × Bytes × Bytes)

/-- a string of real bytes -/
def IsBytes (p : Bytes) : Prop := ∀ x ∈ p, x < 256

/-- `open k n (seal k n p) = some p` (for byte strings `p`) -/
def Aead.Correct (A : Aead) : Prop := ∀ k n p, IsBytes p → A.openWith k n (A.sealWith k n p) = some p

/-- integrity: whatever opens under `k` was sealed by the server (is in the log) -/
def Aead.Authentic (A : Aead) (k : Bytes) (L : SealLog) : Prop :=
  ∀ n c p, A.openWith k n c = some p → (n, c, p) ∈ L

/-- the log is truthful and made of byte strings with 12-byte nonces -/
def Aead.Logged (A : Aead) (k : Bytes) (L : SealLog) : Prop :=
  ∀ n c p, (n, c, p) ∈ L → A.openWith k n c = some p ∧ n.length = nonceSize ∧
    (∀ x ∈ n, x < 256) ∧ (∀ x ∈ c, x < 256)

/-- ciphertexts are byte strings of length |p| + 16 (GCM tag) -/
def Aead.GcmShape (A : Aead) : Prop :=
  ∀ k n p, (∀ x ∈ A.sealWith k n p, x < 256) ∧ (A.sealWith k n p).length = p.length + 16

/-- the wire texts behind a seal log (what the default codec writes) -/
def wireIssued (L : SealLog) : Issued := L.map fun e => (encode (e.1 ++ e.2.1), e.2.2)

/-- a nonce as `rand.Reader` delivers it -/
def goodNonce (n : Bytes) : Prop := n.length = nonceSize ∧ ∀ x ∈ n, x < 256

/-- codec level: decrypting what was encrypted gives the value back -/
def Codec.Correct (C : Codec) : Prop :=
  ∀ n p e, goodNonce n → IsBytes p → C.enc n p = some e → C.dec e = some p

/-- codec level: whatever decrypts denotes the same ciphertext as an issued wire text with that
    plaintext -/
def Codec.Sound (C : Codec) (wc : WireCodec) (iss : Issued) : Prop :=
  ∀ r p, C.dec r = some p → ∃ c0, (c0, p) ∈ iss ∧ sameCipher wc r c0 = true

/-- the same, only for the values a given request carries. This is the form the theorems use: it is
    a statement about what the CLIENT managed to put into the request (unforgeability), so it is
    compatible with `Codec.Correct` for one and the same AEAD. -/
def Codec.SoundOn (C : Codec) (wc : WireCodec) (iss : Issued) (j : Jar) : Prop :=
  ∀ k r p, (k, r) ∈ j → C.dec r = some p → ∃ c0, (c0, p) ∈ iss ∧ sameCipher wc r c0 = true

theorem Codec.Sound.on {C : Codec} {wc : WireCodec} {iss : Issued} (h : C.Sound wc iss) (j : Jar) :
    C.SoundOn wc iss j := fun _ r p _ hd => h r p hd

/-- decrypting depends on a text only through the ciphertext it denotes -/
def Codec.Respects (C : Codec) (wc : WireCodec) : Prop :=
  ∀ r r', sameCipher wc r r' = true → C.dec r = C.dec r'

/-- codec level: every text denoting an issued ciphertext decrypts to the issued plaintext -/
def Codec.Complete (C : Codec) (wc : WireCodec) (iss : Issued) : Prop :=
  (∀ c0 p r, (c0, p) ∈ iss → sameCipher wc r c0 = true → C.dec r = some p) ∧
  (∀ c0 p, (c0, p) ∈ iss → sameCipher wc c0 c0 = true)      -- issued texts are well-formed

/-- codec level: the wire format of what is written -/
def Codec.Format (C : Codec) (wc : WireCodec) : Prop :=
  ∀ n p e, goodNonce n → C.enc n p = some e → wireFormatOK wc e p = true

/-! ## collections -/

theorem setArg_not_mem (acc : Jar) (k v : Bytes) (h : k ∉ acc.map (·.1)) :
    setArg acc k v = acc ++ [(k, v)] := by
  induction acc with
  | nil => rfl
  | cons e r ih =>
    obtain ⟨k', v'⟩ := e
    simp at h
    simp [setArg, ih (by simpa using h.2)]
    intro hk; exact absurd hk.symm h.1

/-- the stored pair for one request cookie -/
def tr (C : Codec) (ex : List Bytes) (e : Bytes × Bytes) : Bytes × Bytes := (e.1, openValue C ex e.1 e.2)

theorem rebuild_eq (C : Codec) (ex : List Bytes) (r : Jar) :
    ∀ (seen : List Bytes) (acc : Jar), (∀ k ∈ acc.map (·.1), k ∈ seen) →
      rebuild C ex seen r acc = acc ++ (firsts seen r).map (tr C ex) := by
  induction r with
  | nil => intro seen acc _; simp [rebuild, firsts]
  | cons e r ih =>
    intro seen acc hacc
    obtain ⟨k, v⟩ := e
    by_cases hk : seen.contains k = true
    · simp only [rebuild, firsts, hk, if_true]
      exact ih (k :: seen) acc (fun x hx => List.mem_cons_of_mem _ (hacc x hx))
    · have hk' : k ∉ seen := by simpa using hk
      have hnot : k ∉ acc.map (·.1) := fun hm => hk' (hacc k hm)
      simp only [rebuild, firsts, hk]
      rw [setArg_not_mem acc k _ hnot]
      rw [ih (k :: seen) (acc ++ [(k, openValue C ex k v)])]
      · simp [tr]
      · intro x hx
        simp at hx
        rcases hx with ⟨b, hb⟩ | rfl
        · exact List.mem_cons_of_mem _ (hacc x (by simp; exact ⟨b, hb⟩))
        · simp

/-- the request loop keeps the first cookie of each name and stores `openValue` for it -/
theorem decryptJar_eq (C : Codec) (ex : List Bytes) (j : Jar) :
    decryptJar C ex j = (firsts [] j).map (tr C ex) := by
  unfold decryptJar
  rw [rebuild_eq C ex j [] [] (by simp)]
  simp

theorem mem_firsts {seen : List Bytes} {j : Jar} {e : Bytes × Bytes} (h : e ∈ firsts seen j) :
    e ∈ j ∧ e.1 ∉ seen := by
  induction j generalizing seen with
  | nil => simp [firsts] at h
  | cons x r ih =>
    obtain ⟨k, v⟩ := x
    by_cases hk : seen.contains k = true
    · simp only [firsts, hk, if_true] at h
      have := ih h
      exact ⟨List.mem_cons_of_mem _ this.1, fun hm => this.2 (List.mem_cons_of_mem _ hm)⟩
    · simp only [firsts, hk] at h
      simp at h
      rcases h with rfl | h
      · exact ⟨by simp, by simpa using hk⟩
      · have := ih h
        exact ⟨List.mem_cons_of_mem _ this.1, fun hm => this.2 (List.mem_cons_of_mem _ hm)⟩

theorem firsts_keys_nodup (seen : List Bytes) (j : Jar) : ((firsts seen j).map (·.1)).Nodup := by
  induction j generalizing seen with
  | nil => simp [firsts]
  | cons x r ih =>
    obtain ⟨k, v⟩ := x
    by_cases hk : seen.contains k = true
    · simp only [firsts, hk, if_true]; exact ih _
    · simp only [firsts, hk]
      simp only [Bool.false_eq_true, if_false, List.map_cons, List.nodup_cons]
      refine ⟨?_, ih _⟩
      intro hm
      simp at hm
      obtain ⟨b, hb⟩ := hm
      exact (mem_firsts hb).2 (by simp)

theorem firsts_of_nodup (l : Jar) : ∀ (seen : List Bytes), (∀ e ∈ l, e.1 ∉ seen) → (l.map (·.1)).Nodup →
    firsts seen l = l := by
  induction l with
  | nil => intro _ _ _; rfl
  | cons x r ih =>
    intro seen hs hn
    obtain ⟨k, v⟩ := x
    have hk : seen.contains k = false := by
      have := hs (k, v) (by simp)
      simpa using this
    simp only [firsts, hk]
    simp only [Bool.false_eq_true, if_false, List.cons.injEq, true_and]
    simp only [List.map_cons, List.nodup_cons] at hn
    apply ih
    · intro e he hm
      simp at hm
      rcases hm with h | h
      · apply hn.1; simp; exact ⟨e.2, by rw [← h]; exact he⟩
      · exact hs e (List.mem_cons_of_mem _ he) h
    · exact hn.2

theorem bindValues_cons_eq (k v : Bytes) (r : Jar) : bindValues ((k, v) :: r) k = v :: bindValues r k := by
  simp [bindValues]

theorem bindValues_cons_ne {k' k : Bytes} (v : Bytes) (r : Jar) (h : k' ≠ k) :
    bindValues ((k', v) :: r) k = bindValues r k := by
  simp [bindValues, h]

theorem contains_cons_ne {k' k : Bytes} (seen : List Bytes) (h : k' ≠ k) :
    (k' :: seen).contains k = seen.contains k := by
  simp; intro h'; exact absurd h'.symm h

theorem bindValues_firsts (k : Bytes) (j : Jar) : ∀ (seen : List Bytes),
    bindValues (firsts seen j) k = if seen.contains k then [] else (bindValues j k).take 1 := by
  induction j with
  | nil => intro seen; simp [firsts, bindValues]
  | cons x r ih =>
    intro seen
    obtain ⟨k', v⟩ := x
    by_cases hk : seen.contains k' = true
    · simp only [firsts, hk, if_true]
      rw [ih]
      by_cases hkk : k' = k
      · subst hkk
        have hk' : k' ∈ seen := by simpa using hk
        simp [hk']
      · rw [contains_cons_ne seen hkk, bindValues_cons_ne v r hkk]
    · simp only [firsts, hk]
      simp only [Bool.false_eq_true, if_false]
      by_cases hkk : k' = k
      · subst hkk
        rw [bindValues_cons_eq, bindValues_cons_eq, ih]
        have hk' : k' ∉ seen := by simpa using hk
        simp [hk']
      · rw [bindValues_cons_ne v _ hkk, bindValues_cons_ne v r hkk, ih, contains_cons_ne seen hkk]

theorem bindValues_map_tr (C : Codec) (ex : List Bytes) (k : Bytes) (l : Jar) :
    bindValues (l.map (tr C ex)) k = (bindValues l k).map (openValue C ex k) := by
  induction l with
  | nil => rfl
  | cons x r ih =>
    obtain ⟨k', v⟩ := x
    by_cases hkk : k' = k
    · subst hkk
      simp only [List.map_cons, tr]
      rw [bindValues_cons_eq, bindValues_cons_eq, ih]; rfl
    · simp only [List.map_cons, tr]
      rw [bindValues_cons_ne _ _ hkk, bindValues_cons_ne _ _ hkk, ih]

theorem bindValues_decryptJar (C : Codec) (ex : List Bytes) (j : Jar) (k : Bytes) :
    bindValues (decryptJar C ex j) k = ((bindValues j k).take 1).map (openValue C ex k) := by
  rw [decryptJar_eq, bindValues_map_tr, bindValues_firsts]; simp

theorem mem_bindValues {j : Jar} {k r : Bytes} : r ∈ bindValues j k ↔ (k, r) ∈ j := by
  simp [bindValues]

theorem peek_eq_head (j : Jar) (k : Bytes) : peek j k = (bindValues j k).head? := by
  induction j with
  | nil => rfl
  | cons x r ih =>
    obtain ⟨k', v⟩ := x
    by_cases hkk : k' = k
    · subst hkk; simp [peek, bindValues]
    · simp [peek, bindValues, hkk] at ih ⊢; exact ih

theorem lookup_decryptJar (C : Codec) (ex : List Bytes) (j : Jar) (k : Bytes) :
    lookup (decryptJar C ex j) k = ((peek j k).map (openValue C ex k)).getD [] := by
  unfold lookup
  rw [peek_eq_head, bindValues_decryptJar, peek_eq_head]
  cases bindValues j k <;> simp

theorem distinctKeys_decryptJar (C : Codec) (ex : List Bytes) (j : Jar) :
    distinctKeys (decryptJar C ex j) = distinctKeys j := by
  unfold distinctKeys
  rw [decryptJar_eq]
  have hk : ((firsts [] j).map (tr C ex)).map (·.1) = (firsts [] j).map (·.1) := by
    simp [tr, Function.comp_def]
  rw [firsts_of_nodup _ [] (by simp) (by rw [hk]; exact firsts_keys_nodup [] j), hk]

/-! ## codec facts used by the oracle clauses -/

theorem mem_authPlain {wc : WireCodec} {iss : Issued} {r c0 p : Bytes} (hm : (c0, p) ∈ iss)
    (hs : sameCipher wc r c0 = true) : p ∈ authPlain wc iss r := by
  simp [authPlain]
  exact ⟨c0, hm, hs⟩

theorem valueOK_nil (wc : WireCodec) (iss : Issued) (j : Jar) (k : Bytes) : valueOK wc iss j k [] = true := by
  simp [valueOK]

theorem mem_of_issuedPlain {iss : Issued} {c p : Bytes} (h : issuedPlain iss c = some p) : (c, p) ∈ iss := by
  unfold issuedPlain at h
  cases hf : iss.find? (fun e => e.1 == c) with
  | none => simp [hf] at h
  | some e =>
    simp [hf] at h
    have hm := List.mem_of_find?_eq_some hf
    have he := List.find?_some hf
    simp at he
    obtain ⟨a, b⟩ := e
    simp at he h; subst he; subst h; exact hm

/-- what the loop stores for a non-excepted cookie is what the oracle expects for it -/
theorem expectOne_openValue {C : Codec} {wc : WireCodec} {iss : Issued} (r : Bytes)
    (hS : ∀ p, C.dec r = some p → ∃ c0, (c0, p) ∈ iss ∧ sameCipher wc r c0 = true)
    (hC : C.Complete wc iss) : expectOne wc iss r ((C.dec r).getD []) = true := by
  unfold expectOne
  cases hi : issuedPlain iss r with
  | some p =>
    have hm := mem_of_issuedPlain hi
    simp [hC.1 r p r hm (hC.2 r p hm)]
  | none =>
    cases hd : C.dec r with
    | none => simp
    | some p =>
      obtain ⟨c0, hm, hs⟩ := hS p hd
      simp only [Option.getD_some, Bool.or_eq_true]
      right
      simpa using mem_authPlain hm hs

/-! ## AES-GCM hypotheses ⟹ codec hypotheses, for the default codec (utils.go) -/

theorem sameCipher_std {r c : Bytes} :
    sameCipher stdWire r c = true ↔ ∃ x, decode r = some x ∧ decode c = some x := by
  unfold sameCipher stdWire
  cases h : decode r <;> simp [h]

theorem take_drop_nonce {n c : Bytes} (h : n.length = nonceSize) :
    (n ++ c).take nonceSize = n ∧ (n ++ c).drop nonceSize = c := by
  constructor
  · rw [← h]; exact List.take_left
  · rw [← h]; exact List.drop_left

theorem decryptCookie_some {A : Aead} {r key p : Bytes} (h : decryptCookie A r key = some p) :
    ∃ kd enc, decode key = some kd ∧ validKeyLen kd.length = true ∧ decode r = some enc ∧
      nonceSize ≤ enc.length ∧ A.openWith kd (enc.take nonceSize) (enc.drop nonceSize) = some p := by
  unfold decryptCookie at h
  cases hk : decode key with
  | none => simp [hk] at h
  | some kd =>
    simp only [hk] at h
    cases hv : validKeyLen kd.length with
    | false => simp [hv] at h
    | true =>
      simp only [hv] at h
      cases hr : decode r with
      | none => simp [hr] at h
      | some enc =>
        simp only [hr] at h
        by_cases hl : enc.length < nonceSize
        · simp [hl] at h
        · simp [hl] at h
          exact ⟨kd, enc, rfl, hv, rfl, by omega, h⟩

theorem decryptCookie_of {A : Aead} {r key kd enc : Bytes} (hk : decode key = some kd)
    (hv : validKeyLen kd.length = true) (hr : decode r = some enc) (hl : nonceSize ≤ enc.length) :
    decryptCookie A r key = A.openWith kd (enc.take nonceSize) (enc.drop nonceSize) := by
  unfold decryptCookie
  have : ¬ enc.length < nonceSize := by omega
  simp [hk, hv, hr, this]

theorem std_sound {A : Aead} {key kd : Bytes} {L : SealLog} (hk : decode key = some kd)
    (hA : A.Authentic kd L) : (stdCodec A key).Sound stdWire (wireIssued L) := by
  intro r p hd
  obtain ⟨kd', enc, hk', _, hr, hl, ho⟩ := decryptCookie_some hd
  rw [hk] at hk'; cases hk'
  have hm := hA _ _ _ ho
  refine ⟨encode (enc.take nonceSize ++ enc.drop nonceSize), ?_, ?_⟩
  · unfold wireIssued
    exact List.mem_map.mpr ⟨_, hm, rfl⟩
  · rw [List.take_append_drop, sameCipher_std]
    exact ⟨enc, hr, decode_encode enc (decode_bytes hr)⟩

theorem mem_wireIssued {L : SealLog} {c0 p : Bytes} (h : (c0, p) ∈ wireIssued L) :
    ∃ n c, (n, c, p) ∈ L ∧ c0 = encode (n ++ c) := by
  unfold wireIssued at h
  obtain ⟨⟨n, c, p'⟩, hm, he⟩ := List.mem_map.mp h
  simp at he
  obtain ⟨rfl, rfl⟩ := he
  exact ⟨n, c, hm, rfl⟩

theorem std_complete {A : Aead} {key kd : Bytes} {L : SealLog} (hk : decode key = some kd)
    (hv : validKeyLen kd.length = true) (hL : A.Logged kd L) :
    (stdCodec A key).Complete stdWire (wireIssued L) := by
  refine ⟨?_, ?_⟩
  rotate_left
  · intro c0 p hm
    obtain ⟨n, c, hmem, rfl⟩ := mem_wireIssued hm
    obtain ⟨_, _, hbn, hbc⟩ := hL n c p hmem
    have hb : ∀ y ∈ n ++ c, y < 256 := by
      intro y hy; rcases List.mem_append.mp hy with h | h
      · exact hbn y h
      · exact hbc y h
    exact sameCipher_std.mpr ⟨_, decode_encode _ hb, decode_encode _ hb⟩
  intro c0 p r hm hs
  obtain ⟨n, c, hmem, rfl⟩ := mem_wireIssued hm
  obtain ⟨ho, hn, hbn, hbc⟩ := hL n c p hmem
  obtain ⟨x, hr, hc0⟩ := sameCipher_std.mp hs
  have hb : ∀ y ∈ n ++ c, y < 256 := by
    intro y hy; rcases List.mem_append.mp hy with h | h
    · exact hbn y h
    · exact hbc y h
  rw [decode_encode _ hb] at hc0
  cases hc0
  show decryptCookie A r key = some p
  rw [decryptCookie_of hk hv hr (by simp [hn])]
  obtain ⟨h1, h2⟩ := take_drop_nonce (c := c) hn
  rw [h1, h2]; exact ho

theorem encryptCookie_some {A : Aead} {n p key e : Bytes} (h : encryptCookie A n p key = some e) :
    ∃ kd, decode key = some kd ∧ validKeyLen kd.length = true ∧ e = encode (n ++ A.sealWith kd n p) := by
  unfold encryptCookie at h
  cases hk : decode key with
  | none => simp [hk] at h
  | some kd =>
    simp only [hk] at h
    cases hv : validKeyLen kd.length with
    | false => simp [hv] at h
    | true => simp [hv] at h; exact ⟨kd, rfl, hv, h.symm⟩

theorem sealed_bytes {A : Aead} (hG : A.GcmShape) {n : Bytes} (hn : goodNonce n) (kd p : Bytes) :
    ∀ y ∈ n ++ A.sealWith kd n p, y < 256 := by
  intro y hy
  rcases List.mem_append.mp hy with h | h
  · exact hn.2 y h
  · exact (hG kd n p).1 y h

theorem std_correct {A : Aead} {key : Bytes} (hA : A.Correct) (hG : A.GcmShape) :
    (stdCodec A key).Correct := by
  intro n p e hn hp he
  obtain ⟨kd, hk, hv, rfl⟩ := encryptCookie_some he
  show decryptCookie A _ key = some p
  rw [decryptCookie_of hk hv (decode_encode _ (sealed_bytes hG hn kd p)) (by simp [hn.1])]
  obtain ⟨h1, h2⟩ := take_drop_nonce (c := A.sealWith kd n p) hn.1
  rw [h1, h2]; exact hA kd n p hp

theorem std_format {A : Aead} {key : Bytes} (hG : A.GcmShape) : (stdCodec A key).Format stdWire := by
  intro n p e hn he
  obtain ⟨kd, _, _, rfl⟩ := encryptCookie_some he
  unfold wireFormatOK stdWire
  simp only [decode_encode _ (sealed_bytes hG hn kd p)]
  simp [hn.1, (hG kd n p).2]
  omega

/-- config/utils: a key that does not decode, or decodes to a wrong length, encrypts and decrypts
    nothing -/
theorem std_invalid_key (A : Aead) (key : Bytes)
    (h : ∀ kd, decode key = some kd → validKeyLen kd.length = false) :
    (∀ r, (stdCodec A key).dec r = none) ∧ (∀ n p, (stdCodec A key).enc n p = none) := by
  constructor
  · intro r
    show decryptCookie A r key = none
    unfold decryptCookie
    cases hk : decode key with
    | none => rfl
    | some kd => simp [h kd hk]
  · intro n p
    show encryptCookie A n p key = none
    unfold encryptCookie
    cases hk : decode key with
    | none => rfl
    | some kd => simp [h kd hk]

/-! ## the custom codec of the harness inherits everything -/

def wrapIssued (iss : Issued) : Issued := iss.map fun e => (88 :: e.1.reverse, e.2)

theorem sameCipher_wrap {r c : Bytes} :
    sameCipher wrapWire (88 :: r.reverse) (88 :: c.reverse) = sameCipher stdWire r c := by
  simp [sameCipher, wrapWire, stdWire]

theorem wrap_correct {C : Codec} (h : C.Correct) : (wrapCodec C).Correct := by
  intro n p e hn hp he
  simp only [wrapCodec] at he ⊢
  cases hc : C.enc n p with
  | none => simp [hc] at he
  | some s =>
    simp [hc] at he
    subst he
    simpa using h n p s hn hp hc

theorem wrap_sound {C : Codec} {iss : Issued} (h : C.Sound stdWire iss) :
    (wrapCodec C).Sound wrapWire (wrapIssued iss) := by
  intro r p hd
  simp only [wrapCodec] at hd
  match r, hd with
  | 88 :: t, hd =>
    obtain ⟨c0, hm, hs⟩ := h t.reverse p hd
    refine ⟨88 :: c0.reverse, ?_, ?_⟩
    · unfold wrapIssued; exact List.mem_map.mpr ⟨(c0, p), hm, rfl⟩
    · have := @sameCipher_wrap t.reverse c0
      simp at this; rw [this]; exact hs

theorem wrap_complete {C : Codec} {iss : Issued} (h : C.Complete stdWire iss) :
    (wrapCodec C).Complete wrapWire (wrapIssued iss) := by
  refine ⟨?_, ?_⟩
  rotate_left
  · intro c0 p hm
    unfold wrapIssued at hm
    obtain ⟨⟨c, p'⟩, hmem, he⟩ := List.mem_map.mp hm
    simp at he
    obtain ⟨rfl, rfl⟩ := he
    rw [sameCipher_wrap]; exact h.2 c p' hmem
  intro c0 p r hm hs
  unfold wrapIssued at hm
  obtain ⟨⟨c, p'⟩, hmem, he⟩ := List.mem_map.mp hm
  simp at he
  obtain ⟨rfl, rfl⟩ := he
  match r, hs with
  | 88 :: t, hs =>
    have := @sameCipher_wrap t.reverse c
    simp at this; rw [this] at hs
    exact h.1 c p' t.reverse hmem hs
  | [], hs => simp [sameCipher, wrapWire] at hs
  | x :: t, hs =>
    by_cases hx : x = 88
    · subst hx
      have := @sameCipher_wrap t.reverse c
      simp at this; rw [this] at hs
      exact h.1 c p' t.reverse hmem hs
    · simp [sameCipher, wrapWire] at hs
      split at hs <;> simp_all

theorem wrap_format {C : Codec} (h : C.Format stdWire) : (wrapCodec C).Format wrapWire := by
  intro n p e hn he
  simp only [wrapCodec] at he
  cases hc : C.enc n p with
  | none => simp [hc] at he
  | some s =>
    simp [hc] at he
    subst he
    have := h n p s hn hc
    unfold wireFormatOK at this ⊢
    simp only [wrapWire, stdWire] at this ⊢
    simp only [List.reverse_reverse]
    cases hd : decode s with
    | none => simp [hd] at this
    | some bs =>
      simp [hd] at this ⊢
      exact ⟨this.1, by rw [this.2]⟩

/-! ## the response loop, cookie by cookie -/

/-- element-wise relation between two lists of equal length -/
inductive Paired {α β : Type} (R : α → β → Prop) : List α → List β → Prop
  | nil : Paired R [] []
  | cons {a b l₁ l₂} : R a b → Paired R l₁ l₂ → Paired R (a :: l₁) (b :: l₂)

/-- how one response cookie is related to what the handler set -/
def WRel (C : Codec) (ex : List Bytes) (c : RCookie) (w : WCookie) : Prop :=
  w.pkey = c.pkey ∧ w.tail = c.tail ∧
  (isDisabled c.key ex = true → w.raw = c.raw ∧ w.value = c.pvalue) ∧
  (isDisabled c.key ex = false →
    (∃ n, goodNonce n ∧ C.enc n c.pvalue = some w.value) ∧ w.raw = render c.pkey w.value c.tail)

theorem encryptJar_rel (C : Codec) (ex : List Bytes) (cs : List RCookie) :
    ∀ (ns : List Bytes) (ws : List WCookie), (∀ n ∈ ns, goodNonce n) →
      encryptJar C ex ns cs = some ws → Paired (WRel C ex) cs ws := by
  induction cs with
  | nil => intro ns ws _ h; simp [encryptJar] at h; subst h; exact Paired.nil
  | cons c r ih =>
    intro ns ws hns h
    by_cases hd : isDisabled c.key ex = true
    · simp only [encryptJar, hd, if_true] at h
      cases hr : encryptJar C ex ns r with
      | none => simp [hr] at h
      | some t =>
        simp [hr] at h; subst h
        refine Paired.cons ⟨rfl, rfl, fun _ => ⟨rfl, rfl⟩, fun hf => ?_⟩ (ih ns t hns hr)
        rw [hd] at hf; cases hf
    · have hd' : isDisabled c.key ex = false := by simpa using hd
      simp only [encryptJar, hd'] at h
      match ns, hns, h with
      | [], _, h => simp at h
      | n :: ns', hns, h =>
        simp only [Bool.false_eq_true, if_false] at h
        cases he : C.enc n c.pvalue with
        | none => simp [he] at h
        | some e =>
          simp only [he] at h
          cases hr : encryptJar C ex ns' r with
          | none => simp [hr] at h
          | some t =>
            simp [hr] at h; subst h
            refine Paired.cons ⟨rfl, rfl, fun hf => ?_, fun _ => ⟨⟨n, hns n (by simp), he⟩, rfl⟩⟩
              (ih ns' t (fun m hm => hns m (by simp [hm])) hr)
            rw [hd'] at hf; cases hf

theorem issuedPlain_of_functional {f : Bytes → Option Bytes} (iss : Issued)
    (hf : ∀ e ∈ iss, f e.1 = some e.2) {c p : Bytes} (hm : (c, p) ∈ iss) : issuedPlain iss c = some p := by
  unfold issuedPlain
  induction iss with
  | nil => cases hm
  | cons e t ih =>
    by_cases he : e.1 = c
    · simp [he]
      have h1 := hf e (by simp)
      have h2 := hf (c, p) hm
      rw [he] at h1; simp at h2; rw [h2] at h1; exact (Option.some.inj h1).symm
    · simp [he]
      rcases List.mem_cons.mp hm with h | h
      · exact absurd (by rw [← h]) he
      · simpa using ih (fun x hx => hf x (List.mem_cons_of_mem _ hx)) h

theorem resp_clause {C : Codec} {wc : WireCodec} (hF : C.Format wc) (ex : List Bytes) (iss : Issued)
    (hfun : ∀ e ∈ iss, C.dec e.1 = some e.2) (cs : List RCookie) (ws : List WCookie)
    (hp : Paired (WRel C ex) cs ws) (hsub : ∀ e ∈ issuedBy ex cs ws, e ∈ iss) :
    respAllOK wc ex iss cs ws = true := by
  induction hp with
  | nil => rfl
  | @cons c w cs ws hr _ ih =>
    simp only [respAllOK, Bool.and_eq_true]
    cases hd : isDisabled c.key ex with
    | true =>
      refine ⟨?_, ih (fun e he => hsub e (by simp [issuedBy, hd, he]))⟩
      simp [respCookieOK, hd, (hr.2.2.1 hd).1]
    | false =>
      refine ⟨?_, ih (fun e he => hsub e (by simp [issuedBy, hd, he]))⟩
      obtain ⟨⟨n, hn, he⟩, hraw⟩ := hr.2.2.2 hd
      have hmem : (w.value, c.pvalue) ∈ iss := hsub _ (by simp [issuedBy, hd])
      simp only [respCookieOK, hd, Bool.false_eq_true, if_false, Bool.and_eq_true, beq_iff_eq]
      refine ⟨⟨⟨⟨hr.1, hr.2.1⟩, ?_⟩, issuedPlain_of_functional iss hfun hmem⟩, hF n c.pvalue w.value hn he⟩
      rw [hraw, hr.1, hr.2.1]

theorem issuedBy_enc {C : Codec} {ex : List Bytes} {cs : List RCookie} {ws : List WCookie}
    (hp : Paired (WRel C ex) cs ws) :
    ∀ e ∈ issuedBy ex cs ws, ∃ n, goodNonce n ∧ C.enc n e.2 = some e.1 := by
  induction hp with
  | nil => intro e he; simp [issuedBy] at he
  | @cons c w cs ws hr _ ih =>
    intro e he
    cases hd : isDisabled c.key ex with
    | true => simp [issuedBy, hd] at he; exact ih e he
    | false =>
      simp [issuedBy, hd] at he
      rcases he with rfl | he
      · exact (hr.2.2.2 hd).1
      · exact ih e he

theorem issuedBy_plain {C : Codec} {ex : List Bytes} {cs : List RCookie} {ws : List WCookie}
    (hp : Paired (WRel C ex) cs ws) : ∀ e ∈ issuedBy ex cs ws, ∃ c ∈ cs, e.2 = c.pvalue := by
  induction hp with
  | nil => intro e he; simp [issuedBy] at he
  | @cons c w cs ws hr _ ih =>
    intro e he
    cases hd : isDisabled c.key ex with
    | true =>
      simp [issuedBy, hd] at he
      obtain ⟨c', h1, h2⟩ := ih e he
      exact ⟨c', List.mem_cons_of_mem _ h1, h2⟩
    | false =>
      simp [issuedBy, hd] at he
      rcases he with rfl | he
      · exact ⟨c, by simp, rfl⟩
      · obtain ⟨c', h1, h2⟩ := ih e he
        exact ⟨c', List.mem_cons_of_mem _ h1, h2⟩

theorem echo_eq {C : Codec} {ex : List Bytes} {cs : List RCookie} {ws : List WCookie}
    (hC : C.Correct) (hb : ∀ c ∈ cs, IsBytes c.pvalue)
    (hkey : ∀ c ∈ cs, isDisabled c.pkey ex = isDisabled c.key ex)
    (hp : Paired (WRel C ex) cs ws) :
    (echo ws).map (tr C ex) = cs.map fun c => (c.pkey, c.pvalue) := by
  induction hp with
  | nil => rfl
  | @cons c w cs ws hr _ ih =>
    simp only [echo, List.map_cons] at ih ⊢
    rw [ih (fun x hx => hb x (List.mem_cons_of_mem _ hx)) (fun x hx => hkey x (List.mem_cons_of_mem _ hx))]
    congr 1
    simp only [tr, hr.1, Prod.mk.injEq, true_and]
    cases hd : isDisabled c.key ex with
    | true => simp [openValue, hkey c (by simp), hd, (hr.2.2.1 hd).2]
    | false =>
      obtain ⟨⟨n, hn, he⟩, _⟩ := hr.2.2.2 hd
      simp [openValue, hkey c (by simp), hd, hC n c.pvalue w.value hn (hb c (by simp)) he]


/-- number of cookies the response loop encrypts -/
def encCount (ex : List Bytes) (cs : List RCookie) : Nat := (cs.filter fun c => !isDisabled c.key ex).length

/-- the nonces readable off the issued wire texts are exactly the nonces drawn, in order -/
theorem issued_nonces {A : Aead} {key : Bytes} (hG : A.GcmShape) (ex : List Bytes) (cs : List RCookie) :
    ∀ (ns : List Bytes) (ws : List WCookie), (∀ n ∈ ns, goodNonce n) →
      encryptJar (stdCodec A key) ex ns cs = some ws →
      (issuedBy ex cs ws).filterMap (fun e => (decode e.1).map (·.take nonceSize)) = ns.take (encCount ex cs) := by
  induction cs with
  | nil => intro ns ws _ h; simp [encryptJar] at h; subst h; simp [issuedBy, encCount]
  | cons c r ih =>
    intro ns ws hns h
    cases hd : isDisabled c.key ex with
    | true =>
      simp only [encryptJar, hd, if_true] at h
      cases hr : encryptJar (stdCodec A key) ex ns r with
      | none => simp [hr] at h
      | some t =>
        simp [hr] at h; subst h
        have := ih ns t hns hr
        simpa [issuedBy, hd, encCount] using this
    | false =>
      simp only [encryptJar, hd] at h
      match ns, hns, h with
      | [], _, h => simp at h
      | n :: ns', hns, h =>
        simp only [Bool.false_eq_true, if_false] at h
        cases he : (stdCodec A key).enc n c.pvalue with
        | none => simp [he] at h
        | some e =>
          simp only [he] at h
          cases hr : encryptJar (stdCodec A key) ex ns' r with
          | none => simp [hr] at h
          | some t =>
            simp [hr] at h; subst h
            have hn := hns n (by simp)
            obtain ⟨kd, _, _, rfl⟩ := encryptCookie_some he
            have ih' := ih ns' t (fun m hm => hns m (by simp [hm])) hr
            have hdec := decode_encode _ (sealed_bytes hG hn kd c.pvalue)
            simp only [issuedBy, hd, Bool.false_eq_true, if_false, List.filterMap_cons, hdec, Option.map_some]
            rw [(take_drop_nonce (c := A.sealWith kd n c.pvalue) hn.1).1]
            simp only [encCount, List.filter_cons, hd, Bool.not_false, if_true, List.length_cons, List.take_succ_cons]
            congr 1

/-! ## the request loop before the fix agrees with the current one when no name repeats -/

theorem setArg_at (pre : Jar) (k v v' : Bytes) (post : Jar) (h : k ∉ pre.map (·.1)) :
    setArg (pre ++ (k, v) :: post) k v' = pre ++ (k, v') :: post := by
  induction pre with
  | nil => simp [setArg]
  | cons e r ih =>
    obtain ⟨k', w⟩ := e
    simp at h
    have hne : ¬ k' = k := fun hk => h.1 hk.symm
    simp [setArg, hne, ih (by simpa using h.2)]

theorem oldLoop_prefix (C : Codec) (ex : List Bytes) (j : Jar) (hnd : (j.map (·.1)).Nodup) :
    ∀ i, i ≤ j.length →
      (List.range i).foldl (oldVisit C ex) j = (j.take i).map (tr C ex) ++ j.drop i := by
  intro i
  induction i with
  | zero => intro _; simp
  | succ i ih =>
    intro hi
    have hlt : i < j.length := by omega
    rw [List.range_succ, List.foldl_append, ih (by omega)]
    simp only [List.foldl_cons, List.foldl_nil]
    have hdrop : j.drop i = j[i] :: j.drop (i + 1) := List.drop_eq_getElem_cons hlt
    have htake : j.take (i + 1) = j.take i ++ [j[i]] := by
      rw [List.take_add_one, List.getElem?_eq_getElem hlt]; rfl
    have hlen : ((j.take i).map (tr C ex)).length = i := by simp; omega
    have hget : ((j.take i).map (tr C ex) ++ j.drop i)[i]? = some j[i] := by
      rw [List.getElem?_append_right (by omega), hlen, hdrop]; simp
    rcases hji : j[i] with ⟨k, v⟩
    unfold oldVisit
    rw [hget, hji]
    simp only
    rw [htake, hji, List.map_append, List.map_cons, List.map_nil, List.append_assoc]
    cases hd : isDisabled k ex with
    | true => simp [tr, openValue, hd, hdrop, hji]
    | false =>
      simp only [Bool.false_eq_true, if_false]
      rw [hdrop, hji]
      have hk : k ∉ ((j.take i).map (tr C ex)).map (·.1) := by
        have hsplit : j = j.take i ++ (k, v) :: j.drop (i + 1) := by
          conv => lhs; rw [← List.take_append_drop i j, hdrop, hji]
        rw [hsplit, List.map_append, List.map_cons] at hnd
        have := (List.nodup_append.mp hnd).2.2
        intro hm
        have hkeys : ((j.take i).map (tr C ex)).map (·.1) = (j.take i).map (·.1) := by
          simp [tr, Function.comp_def]
        rw [hkeys] at hm
        exact this k hm k (List.mem_cons_self) rfl
      rw [setArg_at _ k v _ _ hk]
      simp [tr, openValue, hd]

/-- with pairwise distinct names the old in-place loop and the current rebuild give the same request -/
theorem decryptJarOld_eq_of_nodup (C : Codec) (ex : List Bytes) (j : Jar) (hnd : (j.map (·.1)).Nodup) :
    decryptJarOld C ex j = decryptJar C ex j := by
  unfold decryptJarOld
  rw [oldLoop_prefix C ex j hnd j.length (Nat.le_refl _), decryptJar_eq,
    firsts_of_nodup j [] (by simp) hnd]
  simp

/-! ## more codec facts: `Respects`, and completeness of a log the server produced itself -/

theorem std_respects (A : Aead) (key : Bytes) : (stdCodec A key).Respects stdWire := by
  intro r r' hs
  obtain ⟨x, h1, h2⟩ := sameCipher_std.mp hs
  show decryptCookie A r key = decryptCookie A r' key
  unfold decryptCookie
  rw [h1, h2]

theorem sameCipher_iff {wc : WireCodec} {r c : Bytes} :
    sameCipher wc r c = true ↔ ∃ x, wc.canon r = some x ∧ wc.canon c = some x := by
  unfold sameCipher
  cases h : wc.canon r <;> simp

theorem wrap_canon_some {s x : Bytes} (h : wrapWire.canon s = some x) :
    ∃ t, s = 88 :: t ∧ decode t.reverse = some x := by
  match s, h with
  | [], h => simp [wrapWire] at h
  | y :: t, h =>
    by_cases hy : y = 88
    · subst hy; exact ⟨t, rfl, by simpa [wrapWire] using h⟩
    · simp only [wrapWire] at h
      split at h
      · rename_i heq; simp at heq; exact absurd heq.1 hy
      · cases h

theorem wrap_respects {C : Codec} (h : C.Respects stdWire) : (wrapCodec C).Respects wrapWire := by
  intro r r' hs
  obtain ⟨x, h1, h2⟩ := sameCipher_iff.mp hs
  obtain ⟨t, rfl, ht⟩ := wrap_canon_some h1
  obtain ⟨t', rfl, ht'⟩ := wrap_canon_some h2
  have : sameCipher stdWire t.reverse t'.reverse = true := sameCipher_std.mpr ⟨x, ht, ht'⟩
  simpa [wrapCodec] using h _ _ this

/-- a log whose every entry the codec itself wrote (with a good nonce, for a byte value) -/
def Codec.Wrote (C : Codec) (iss : Issued) : Prop :=
  ∀ e ∈ iss, ∃ n, goodNonce n ∧ IsBytes e.2 ∧ C.enc n e.2 = some e.1

theorem complete_of_wrote {C : Codec} {wc : WireCodec} (hCor : C.Correct) (hF : C.Format wc)
    (hR : C.Respects wc) {iss : Issued} (hW : C.Wrote iss) : C.Complete wc iss := by
  constructor
  · intro c0 p r hm hs
    obtain ⟨n, hn, hb, he⟩ := hW (c0, p) hm
    rw [hR r c0 hs]
    exact hCor n p c0 hn hb he
  · intro c0 p hm
    obtain ⟨n, hn, _, he⟩ := hW (c0, p) hm
    have := hF n p c0 hn he
    unfold wireFormatOK at this
    unfold sameCipher
    cases hc : wc.canon c0 with
    | none => simp [hc] at this
    | some bs => simp

theorem wrote_functional {C : Codec} (hCor : C.Correct) {iss : Issued} (hW : C.Wrote iss) :
    ∀ e ∈ iss, C.dec e.1 = some e.2 := by
  intro e he
  obtain ⟨n, hn, hb, hen⟩ := hW e he
  exact hCor n e.2 e.1 hn hb hen

theorem wrote_append {C : Codec} {a b : Issued} (ha : C.Wrote a) (hb : C.Wrote b) : C.Wrote (a ++ b) := by
  intro e he
  rcases List.mem_append.mp he with h | h
  · exact ha e h
  · exact hb e h

theorem wrote_issuedBy {C : Codec} {ex : List Bytes} {cs : List RCookie} {ws : List WCookie}
    (hp : Paired (WRel C ex) cs ws) (hb : ∀ c ∈ cs, IsBytes c.pvalue) : C.Wrote (issuedBy ex cs ws) := by
  intro e he
  obtain ⟨n, hn, hen⟩ := issuedBy_enc hp e he
  obtain ⟨c, hc, hpv⟩ := issuedBy_plain hp e he
  exact ⟨n, hn, by rw [hpv]; exact hb c hc, hen⟩

end C20
