import FiberModel.C20.Model
/-
C20 — fasthttp's cookie scanner (cookie.go `cookieScanner.next`, `decodeCookieArg`,
`parseRequestCookies`, first pair of `Cookie.ParseBytes`).

It decides which (name, value) pairs reach the middleware for a given `Cookie:` header text, and which
(name, value) a client (or the middleware's own `fasthttp.Cookie.Parse`) reads off a Set-Cookie text.
The property theorems quantify over every collection and do not depend on it; it is modelled so that
(a) the driver can recompute the harness' snapshot of the request collection from the raw header
    values (`parseCookieHeaders`, differential check on every case), and
(b) the round trip can be closed on the TEXT level: what is rendered for a cookie is read back as the
    same (name, value) (`scan_render`, Props.lean).
-/
namespace C20
open B

/-- `decodeCookieArg` without the quote rule: leading and trailing spaces (only 0x20) removed -/
def trimSp (s : Bytes) : Bytes := trim s 32

/-- `decodeCookieArg(…, skipQuotes=true)`'s extra rule: one pair of surrounding double quotes removed -/
def unquote (s : Bytes) : Bytes :=
  if 1 < s.length ∧ s.head? = some 34 ∧ s.getLast? = some 34 then (s.drop 1).dropLast else s

/-- `decodeCookieArg(dst, src, skipQuotes)` -/
def decodeArg (s : Bytes) (skipQuotes : Bool) : Bytes :=
  if skipQuotes then unquote (trimSp s) else trimSp s

/-- `cookieScanner.next` on one `;`-separated segment: key = text before the FIRST `=` (empty when
    there is none), value = the rest -/
def scanSegment (seg : Bytes) : Bytes × Bytes :=
  match indexByte seg 61 with
  | none => ([], decodeArg seg true)
  | some i => (decodeArg (seg.take i) false, decodeArg (seg.drop (i + 1)) true)

/-- `parseRequestCookies` for one header value: segments in order, pairs with empty key AND empty value
    dropped -/
def parseCookieHeader (src : Bytes) : Jar :=
  ((splitOn src 59).map scanSegment).filter fun e => !(e.1.isEmpty && e.2.isEmpty)

/-- `collectCookies` over all `Cookie` header lines, then the direct `SetCookie(k, v)` calls -/
def parseCookieHeaders (hdrs : List Bytes) (direct : Jar) : Jar :=
  direct.foldl (fun j e => setArg j e.1 e.2) (hdrs.flatMap parseCookieHeader)

/-- first pair of `fasthttp.Cookie.ParseBytes` (name and value of a Set-Cookie text) -/
def scanSetCookie (raw : Bytes) : Bytes × Bytes :=
  if raw = [] then ([], []) else scanSegment ((splitOn raw 59).headD [])

end C20
