import FiberModel.C20.Lemmas
/-
C20 — helper lemmas for the whole handler (`serve`): `Config.Next`, the response loop that stops at
a failing Encryptor (`encryptRun`), late cookie writes (`applyLate`). Property theorems: Props.lean.
-/
namespace C20
open B

/-! ## `encryptRun` is `encryptJar` with the failure made visible -/

theorem encryptRun_of_some (C : Codec) (ex : List Bytes) (cs : List RCookie) :
    ∀ (ns : List Bytes) (ws : List WCookie), encryptJar C ex ns cs = some ws →
      encryptRun C ex ns cs = (ws, true) := by
  induction cs with
  | nil => intro ns ws h; simp [encryptJar] at h; subst h; rfl
  | cons c r ih =>
    intro ns ws h
    by_cases hd : isDisabled c.key ex = true
    · simp only [encryptJar, hd, if_true] at h
      cases hr : encryptJar C ex ns r with
      | none => simp [hr] at h
      | some t =>
        simp [hr] at h; subst h
        simp [encryptRun, hd, ih ns t hr, asIs]
    · have hd' : isDisabled c.key ex = false := by simpa using hd
      simp only [encryptJar, hd'] at h
      match ns, h with
      | [], h => simp at h
      | n :: ns', h =>
        simp only [Bool.false_eq_true, if_false] at h
        cases he : C.enc n c.pvalue with
        | none => simp [he] at h
        | some e =>
          simp only [he] at h
          cases hr : encryptJar C ex ns' r with
          | none => simp [hr] at h
          | some t =>
            simp [hr] at h; subst h
            simp [encryptRun, hd', he, ih ns' t hr, sealedCookie]

theorem encryptRun_of_none (C : Codec) (ex : List Bytes) (cs : List RCookie) :
    ∀ (ns : List Bytes), encryptJar C ex ns cs = none → (encryptRun C ex ns cs).2 = false := by
  induction cs with
  | nil => intro ns h; simp [encryptJar] at h
  | cons c r ih =>
    intro ns h
    by_cases hd : isDisabled c.key ex = true
    · simp only [encryptJar, hd, if_true] at h
      cases hr : encryptJar C ex ns r with
      | none => simp [encryptRun, hd, ih ns hr]
      | some t => simp [hr] at h
    · have hd' : isDisabled c.key ex = false := by simpa using hd
      simp only [encryptJar, hd'] at h
      match ns, h with
      | [], _ => simp [encryptRun, hd']
      | n :: ns', h =>
        simp only [Bool.false_eq_true, if_false] at h
        cases he : C.enc n c.pvalue with
        | none => simp [encryptRun, hd', he]
        | some e =>
          simp only [he] at h
          cases hr : encryptJar C ex ns' r with
          | none => simp [encryptRun, hd', he, ih ns' hr]
          | some t => simp [hr] at h

/-- the two descriptions of the response loop agree: it returns `ws` iff the run completes with `ws` -/
theorem encryptJar_eq_some_iff (C : Codec) (ex : List Bytes) (ns : List Bytes) (cs : List RCookie)
    (ws : List WCookie) : encryptJar C ex ns cs = some ws ↔ encryptRun C ex ns cs = (ws, true) := by
  constructor
  · exact encryptRun_of_some C ex cs ns ws
  · intro h
    cases hj : encryptJar C ex ns cs with
    | none => have := encryptRun_of_none C ex cs ns hj; rw [h] at this; cases this
    | some t => have := encryptRun_of_some C ex cs ns t hj; rw [h] at this; cases this; rfl

theorem encryptJar_eq_none_iff (C : Codec) (ex : List Bytes) (ns : List Bytes) (cs : List RCookie) :
    encryptJar C ex ns cs = none ↔ (encryptRun C ex ns cs).2 = false := by
  constructor
  · exact encryptRun_of_none C ex cs ns
  · intro h
    cases hj : encryptJar C ex ns cs with
    | none => rfl
    | some t => have := encryptRun_of_some C ex cs ns t hj; rw [this] at h; cases h

/-- what the loop leaves is the finished work for a PREFIX of the handler's cookies -/
theorem encryptRun_rel (C : Codec) (ex : List Bytes) (cs : List RCookie) :
    ∀ (ns : List Bytes), (∀ n ∈ ns, goodNonce n) →
      Paired (WRel C ex) (cs.take (encryptRun C ex ns cs).1.length) (encryptRun C ex ns cs).1 := by
  induction cs with
  | nil => intro ns _; simp [encryptRun]; exact Paired.nil
  | cons c r ih =>
    intro ns hns
    by_cases hd : isDisabled c.key ex = true
    · simp only [encryptRun, hd, if_true, List.length_cons, List.take_succ_cons]
      refine Paired.cons ⟨rfl, rfl, fun _ => ⟨rfl, rfl⟩, fun hf => ?_⟩ (ih ns hns)
      rw [hd] at hf; cases hf
    · have hd' : isDisabled c.key ex = false := by simpa using hd
      match ns, hns with
      | [], _ => simp [encryptRun, hd']; exact Paired.nil
      | n :: ns', hns =>
        cases he : C.enc n c.pvalue with
        | none => simp [encryptRun, hd', he]; exact Paired.nil
        | some e =>
          simp only [encryptRun, hd', he, Bool.false_eq_true, if_false, List.length_cons, List.take_succ_cons]
          refine Paired.cons ⟨rfl, rfl, fun hf => ?_, fun _ => ⟨⟨n, hns n (by simp), he⟩, rfl⟩⟩
            (ih ns' (fun m hm => hns m (by simp [hm])))
          rw [hd'] at hf; cases hf

theorem encryptRun_length_le (C : Codec) (ex : List Bytes) (cs : List RCookie) :
    ∀ (ns : List Bytes), (encryptRun C ex ns cs).1.length ≤ cs.length := by
  induction cs with
  | nil => intro ns; simp [encryptRun]
  | cons c r ih =>
    intro ns
    by_cases hd : isDisabled c.key ex = true
    · simp only [encryptRun, hd, if_true, List.length_cons]; have := ih ns; omega
    · have hd' : isDisabled c.key ex = false := by simpa using hd
      match ns with
      | [] => simp [encryptRun, hd']
      | n :: ns' =>
        cases he : C.enc n c.pvalue with
        | none => simp [encryptRun, hd', he]
        | some e =>
          simp only [encryptRun, hd', he, Bool.false_eq_true, if_false, List.length_cons]
          have := ih ns'; omega

theorem encryptRun_complete_length (C : Codec) (ex : List Bytes) (cs : List RCookie) :
    ∀ (ns : List Bytes), (encryptRun C ex ns cs).2 = true → (encryptRun C ex ns cs).1.length = cs.length := by
  induction cs with
  | nil => intro ns _; simp [encryptRun]
  | cons c r ih =>
    intro ns h
    by_cases hd : isDisabled c.key ex = true
    · simp only [encryptRun, hd, if_true, List.length_cons] at h ⊢; rw [ih ns h]
    · have hd' : isDisabled c.key ex = false := by simpa using hd
      match ns, h with
      | [], h => simp [encryptRun, hd'] at h
      | n :: ns', h =>
        cases he : C.enc n c.pvalue with
        | none => simp [encryptRun, hd', he] at h
        | some e =>
          simp only [encryptRun, hd', he, Bool.false_eq_true, if_false, List.length_cons] at h ⊢
          rw [ih ns' h]

/-- where and why the loop stops: at a non-excepted cookie, because the randomness ran out or because
    the Encryptor failed on that cookie's value -/
theorem encryptRun_stop (C : Codec) (ex : List Bytes) (cs : List RCookie) :
    ∀ (ns : List Bytes), (encryptRun C ex ns cs).2 = false →
      ∃ c, cs[(encryptRun C ex ns cs).1.length]? = some c ∧ isDisabled c.key ex = false ∧
        (ns.length < encCount ex cs ∨ ∃ n ∈ ns, C.enc n c.pvalue = none) := by
  induction cs with
  | nil => intro ns h; simp [encryptRun] at h
  | cons c r ih =>
    intro ns h
    by_cases hd : isDisabled c.key ex = true
    · simp only [encryptRun, hd, if_true] at h
      obtain ⟨c', h1, h2, h3⟩ := ih ns h
      refine ⟨c', by simp [encryptRun, hd, h1], h2, ?_⟩
      simpa [encCount, List.filter_cons, hd] using h3
    · have hd' : isDisabled c.key ex = false := by simpa using hd
      match ns, h with
      | [], _ =>
        exact ⟨c, by simp [encryptRun, hd'], hd', Or.inl (by simp [encCount, hd'])⟩
      | n :: ns', h =>
        cases he : C.enc n c.pvalue with
        | none => exact ⟨c, by simp [encryptRun, hd', he], hd', Or.inr ⟨n, by simp, he⟩⟩
        | some e =>
          simp only [encryptRun, hd', he, Bool.false_eq_true, if_false] at h
          obtain ⟨c', h1, h2, h3⟩ := ih ns' h
          refine ⟨c', by simp [encryptRun, hd', he, h1], h2, ?_⟩
          rcases h3 with h3 | ⟨m, hm, h3⟩
          · left; simp [encCount, hd'] at h3 ⊢; omega
          · right; exact ⟨m, by simp [hm], h3⟩

/-- `issuedBy` only pairs up as far as the shorter list goes -/
theorem issuedBy_take (ex : List Bytes) (cs : List RCookie) :
    ∀ (ws : List WCookie), issuedBy ex (cs.take ws.length) ws = issuedBy ex cs ws := by
  induction cs with
  | nil => intro ws; simp [issuedBy]
  | cons c r ih =>
    intro ws
    cases ws with
    | nil => simp [issuedBy]
    | cons w t =>
      simp only [List.length_cons, List.take_succ_cons, issuedBy]
      rw [ih t]

/-! ## `Config.Next` -/

theorem skip_request_ok (j : Jar) (ks : List Bytes) : skipReqViolation j (rawViews j ks) = none := by
  simp [skipReqViolation, rawViews, hdrOK]

theorem passThrough_keep (cs : List RCookie) : passThrough cs (cs.map keep) = true := by
  simp [passThrough, keep, Function.comp_def]

theorem modelViews_eq_rawViews (C : Codec) (ex : List Bytes) (j : Jar) (ks : List Bytes) :
    modelViews C ex j ks = rawViews (decryptJar C ex j) ks := rfl

/-! ## late writes -/

theorem mem_setW {ws : List WCookie} {w w' : WCookie} (h : w' ∈ setW ws w) : w' ∈ ws ∨ w' = w := by
  induction ws with
  | nil => simp [setW] at h; exact Or.inr h
  | cons x r ih =>
    by_cases hk : x.key = w.key
    · simp only [setW, hk, if_true, List.mem_cons] at h
      rcases h with h | h
      · exact Or.inr h
      · exact Or.inl (List.mem_cons_of_mem _ h)
    · simp only [setW, hk, if_false, List.mem_cons] at h
      rcases h with h | h
      · exact Or.inl (by simp [h])
      · rcases ih h with h | h
        · exact Or.inl (List.mem_cons_of_mem _ h)
        · exact Or.inr h

theorem mem_applyLate (ops : List Late) : ∀ (ws : List WCookie) (w : WCookie),
    w ∈ applyLate ws ops → w ∈ ws ∨ ∃ l ∈ ops, l.w = w := by
  induction ops with
  | nil => intro ws w h; exact Or.inl h
  | cons o r ih =>
    intro ws w h
    simp only [applyLate, List.foldl_cons] at h
    rcases ih _ w h with h | ⟨l, hl, he⟩
    · by_cases hr : o.replace = true
      · simp only [hr, if_true] at h
        rcases mem_setW h with h | h
        · exact Or.inl h
        · exact Or.inr ⟨o, by simp, h.symm⟩
      · simp only [hr, Bool.false_eq_true, if_false, List.mem_append, List.mem_singleton] at h
        rcases h with h | h
        · exact Or.inl h
        · exact Or.inr ⟨o, by simp, h.symm⟩
    · exact Or.inr ⟨l, List.mem_cons_of_mem _ hl, he⟩

/-! ## which key texts make the default Encryptor fail -/

/-- the key text base64-decodes (newlines and padding bits tolerated) to 16, 24 or 32 bytes -/
def KeyValid (key : Bytes) : Prop := ∃ kd, decode key = some kd ∧ validKeyLen kd.length = true

theorem std_enc_none_iff (A : Aead) (key n p : Bytes) :
    (stdCodec A key).enc n p = none ↔ ¬ KeyValid key := by
  show encryptCookie A n p key = none ↔ _
  unfold encryptCookie KeyValid
  cases hk : decode key with
  | none => simp
  | some kd =>
    cases hv : validKeyLen kd.length with
    | false => simp [hv]
    | true => simp [hv]

/-- enough randomness and an Encryptor that never fails: the loop runs to the end -/
theorem encryptRun_complete_of (C : Codec) (ex : List Bytes) (cs : List RCookie)
    (henc : ∀ n p, C.enc n p ≠ none) :
    ∀ (ns : List Bytes), encCount ex cs ≤ ns.length → (encryptRun C ex ns cs).2 = true := by
  intro ns hlen
  cases h : (encryptRun C ex ns cs).2 with
  | true => rfl
  | false =>
    obtain ⟨c, _, _, h3⟩ := encryptRun_stop C ex cs ns h
    rcases h3 with h3 | ⟨n, _, h3⟩
    · omega
    · exact absurd h3 (henc n c.pvalue)

/-- an Encryptor that always fails: the loop stops at the first non-excepted cookie -/
theorem encryptRun_fails_of (C : Codec) (ex : List Bytes) (cs : List RCookie)
    (henc : ∀ n p, C.enc n p = none) (hc : ∃ c ∈ cs, isDisabled c.key ex = false) :
    ∀ (ns : List Bytes), (encryptRun C ex ns cs).2 = false := by
  induction cs with
  | nil => obtain ⟨c, hm, _⟩ := hc; cases hm
  | cons c r ih =>
    intro ns
    by_cases hd : isDisabled c.key ex = true
    · simp only [encryptRun, hd, if_true]
      apply ih
      obtain ⟨c', hm, hd'⟩ := hc
      rcases List.mem_cons.mp hm with rfl | hm
      · rw [hd] at hd'; cases hd'
      · exact ⟨c', hm, hd'⟩
    · have hd' : isDisabled c.key ex = false := by simpa using hd
      match ns with
      | [] => simp [encryptRun, hd']
      | n :: ns' => simp [encryptRun, hd', henc n c.pvalue]

/-- only excepted cookies: nothing is encrypted, the loop cannot fail -/
theorem encryptRun_all_excepted (C : Codec) (ex : List Bytes) (cs : List RCookie)
    (hc : ∀ c ∈ cs, isDisabled c.key ex = true) :
    ∀ (ns : List Bytes), (encryptRun C ex ns cs).2 = true := by
  induction cs with
  | nil => intro ns; rfl
  | cons c r ih =>
    intro ns
    simp only [encryptRun, hc c (by simp), if_true]
    exact ih (fun x hx => hc x (List.mem_cons_of_mem _ hx)) ns

end C20
