import FiberModel.C20.Base64
/-
C20 — lemmas about the base64 model (helper file; the property theorems are in Props.lean).
-/
namespace C20
open B

theorem val64_char64 : ∀ n, n < 64 → val64 (char64 n) = some n := by decide

theorem char64_ne_pad (n : Nat) : char64 n ≠ PAD := by
  unfold char64 PAD; (repeat' split) <;> omega

theorem char64_not_nl (n : Nat) : isNL (char64 n) = false := by
  unfold char64 isNL; (repeat' split) <;> simp <;> omega

theorem char64_lt (n : Nat) : char64 n < 128 := by
  unfold char64; (repeat' split) <;> omega

theorem val64_some {c v : Nat} (h : val64 c = some v) : v < 64 ∧ char64 v = c := by
  unfold val64 at h
  (repeat' split at h) <;> simp at h <;> subst h <;> unfold char64 <;>
    refine ⟨by omega, ?_⟩ <;> (repeat' split) <;> omega

theorem val64_pad : val64 PAD = none := by decide

theorem pad_not_nl : isNL PAD = false := by decide

theorem encode_not_nl (bs : Bytes) : ∀ c ∈ encode bs, isNL c = false := by
  fun_induction encode bs <;> simp_all [char64_not_nl, pad_not_nl]

theorem stripNL_encode (bs : Bytes) : stripNL (encode bs) = encode bs := by
  unfold stripNL
  rw [List.filter_eq_self]
  intro c hc
  simp [encode_not_nl bs c hc]

/-- decoding what was encoded gives the bytes back (quanta level) -/
theorem decodeCore_encode (bs : Bytes) (h : ∀ x ∈ bs, x < 256) : decodeCore (encode bs) = some bs := by
  fun_induction encode bs
  · rfl
  · rename_i x
    have hx : x < 256 := h x (by simp)
    simp [decodeCore, val64_char64 (x / 4) (by omega), val64_char64 (x % 4 * 16) (by omega)]
    omega
  · rename_i x y
    have hx : x < 256 := h x (by simp)
    have hy : y < 256 := h y (by simp)
    simp [decodeCore, val64_char64 (x / 4) (by omega), val64_char64 (x % 4 * 16 + y / 16) (by omega),
      val64_char64 (y % 16 * 4) (by omega), char64_ne_pad]
    omega
  · rename_i x y z rest ih
    have hx : x < 256 := h x (by simp)
    have hy : y < 256 := h y (by simp)
    have hz : z < 256 := h z (by simp)
    have ih' := ih (fun w hw => h w (by simp [hw]))
    simp [decodeCore, val64_char64 (x / 4) (by omega), val64_char64 (x % 4 * 16 + y / 16) (by omega),
      val64_char64 (y % 16 * 4 + z / 64) (by omega), val64_char64 (z % 64) (by omega), char64_ne_pad, ih']
    omega

/-- everything the decoder outputs is a byte -/
theorem decodeCore_bytes (s bs : Bytes) (h : decodeCore s = some bs) : ∀ x ∈ bs, x < 256 := by
  fun_induction decodeCore s generalizing bs <;> simp_all
  · rename_i va vb hb ha _
    have := (val64_some ha).1
    have := (val64_some hb).1
    subst h; simp; omega
  · rename_i va vb hb ha _ vc hc
    have := (val64_some ha).1
    have := (val64_some hb).1
    have := (val64_some hc).1
    subst h; simp; omega
  · rename_i va vb hb ha _ vc hc _ vd hd ih
    have := (val64_some ha).1
    have := (val64_some hb).1
    have := (val64_some hc).1
    have := (val64_some hd).1
    obtain ⟨t, ht, rfl⟩ := h
    intro x hx
    simp at hx
    rcases hx with rfl | rfl | rfl | hx
    · omega
    · omega
    · omega
    · exact ih t ht x hx

/-- A decodable text, with the bits the decoder ignores cleared, is the canonical encoding of what it
    decodes to (quanta level). -/
theorem zeroPad_of_decodeCore (s bs : Bytes) (h : decodeCore s = some bs) : zeroPad s = encode bs := by
  fun_induction decodeCore s generalizing bs <;> simp_all
  · subst h; rfl
  · rename_i a b d rest va vb hb ha hd
    obtain ⟨ha1, ha2⟩ := val64_some ha
    obtain ⟨hb1, hb2⟩ := val64_some hb
    obtain ⟨rfl, rfl⟩ := hd
    subst h
    simp [zeroPad, encode, clearLow, hb]
    refine ⟨?_, ?_⟩
    · rw [← ha2]; congr 1; omega
    · congr 1; omega
  · rename_i a b c va vb hb ha hc' vc hc
    obtain ⟨ha1, ha2⟩ := val64_some ha
    obtain ⟨hb1, hb2⟩ := val64_some hb
    obtain ⟨hc1, hc2⟩ := val64_some hc
    subst h
    simp [zeroPad, encode, clearLow, hc, hc']
    refine ⟨?_, ?_, ?_⟩
    · rw [← ha2]; congr 1; omega
    · rw [← hb2]; congr 1; omega
    · congr 1; omega
  · rename_i a b c d rest va vb hb ha hc' vc hc hd' vd hd ih
    obtain ⟨ha1, ha2⟩ := val64_some ha
    obtain ⟨hb1, hb2⟩ := val64_some hb
    obtain ⟨hc1, hc2⟩ := val64_some hc
    obtain ⟨hd1, hd2⟩ := val64_some hd
    obtain ⟨t, ht, rfl⟩ := h
    simp [zeroPad, encode, hc', hd', ih t ht]
    refine ⟨?_, ?_, ?_, ?_⟩
    · rw [← ha2]; congr 1; omega
    · rw [← hb2]; congr 1; omega
    · rw [← hc2]; congr 1; omega
    · rw [← hd2]; congr 1; omega

/-! ### `decode` level -/

theorem decode_encode (bs : Bytes) (h : ∀ x ∈ bs, x < 256) : decode (encode bs) = some bs := by
  unfold decode; rw [stripNL_encode]; exact decodeCore_encode bs h

theorem decode_bytes {s bs : Bytes} (h : decode s = some bs) : ∀ x ∈ bs, x < 256 :=
  decodeCore_bytes _ _ h

theorem canonText_of_decode {s bs : Bytes} (h : decode s = some bs) : canonText s = encode bs :=
  zeroPad_of_decodeCore _ _ h

theorem encode_injective {x y : Bytes} (hx : ∀ a ∈ x, a < 256) (hy : ∀ a ∈ y, a < 256)
    (h : encode x = encode y) : x = y := by
  have h1 := decode_encode x hx
  rw [h, decode_encode y hy] at h1
  exact (Option.some.inj h1).symm

end C20
