import FiberModel.C20.Model
/-
C20 — the property sentence as an executable oracle.

  "For every key of a valid length, cookie name and value, a cookie set by a handler behind the
   middleware reaches the client only as ciphertext and, sent back, reaches the next handler with its
   original value. A cookie value that was not issued by the server under the current key – altered,
   truncated, extended or encrypted under another key – reaches the handler as empty (or, if the
   alteration decodes to the very same ciphertext, as the originally issued value), never as any other
   text; excepted names pass through unchanged in both directions."

Vocabulary
  * `Issued`     – what the server issued under the current key so far: (wire text, plaintext) pairs
  * `canon`      – the ciphertext bytes a wire text denotes (`decode` for the default codec);
                   `sameCipher r c` = "r decodes to the very same ciphertext as c"
  * `pre`        – the request cookies as they arrive (ordered, duplicates possible)
  * a `Views`    – everything a handler can see of the request cookies: enumeration, per-name lookup,
                   the Bind().Cookie map, the Cookie header text

The oracle never looks at how the middleware works: every clause relates what arrived (`pre`,
what the handler set) to what is seen (`Views`, the Set-Cookie list), through `Issued` only.
-/
namespace C20
open B

abbrev Issued := List (Bytes × Bytes)

/-- how wire texts denote ciphertext bytes: `canon` reads a text (`none` = not decodable), `emit` is
    the text the server writes for given bytes -/
structure WireCodec where
  canon : Bytes → Option Bytes
  emit : Bytes → Bytes

/-- default codec: base64-std -/
def stdWire : WireCodec := { canon := decode, emit := encode }

/-- the custom codec of the harness (`wrapCodec`): tag `X` + reversed base64 -/
def wrapWire : WireCodec :=
  { canon := fun s => match s with
      | 88 :: t => decode t.reverse
      | _ => none,
    emit := fun bs => 88 :: (encode bs).reverse }

/-- `r` decodes to the very same ciphertext as `c` -/
def sameCipher (wc : WireCodec) (r c : Bytes) : Bool :=
  match wc.canon r with
  | none => false
  | some x => wc.canon c == some x

/-- the originally issued values a raw client value may reach the handler as -/
def authPlain (wc : WireCodec) (iss : Issued) (r : Bytes) : List Bytes :=
  (iss.filter fun e => sameCipher wc r e.1).map (·.2)

/-- "empty, or the originally issued value of something the client sent under that name" -/
def valueOK (wc : WireCodec) (iss : Issued) (pre : Jar) (k v : Bytes) : Bool :=
  v == [] || (bindValues pre k).any fun r => (authPlain wc iss r).contains v

/-- issued value of exactly this wire text -/
def issuedPlain (iss : Issued) (c : Bytes) : Option Bytes := (iss.find? fun e => e.1 == c).map (·.2)

/-- exact expectation for a raw value `r` that is the only one under its name:
    * sent back exactly as issued → the original value (round trip);
    * anything else → empty, or the original value if it decodes to the very same ciphertext as an
      issued one (the sentence allows either for such an alteration) -/
def expectOne (wc : WireCodec) (iss : Issued) (r v : Bytes) : Bool :=
  match issuedPlain iss r with
  | some p => v == p
  | none => v == [] || (authPlain wc iss r).contains v

/-- enumeration view, non-excepted names: never any other text -/
def enumOK (wc : WireCodec) (ex : List Bytes) (iss : Issued) (pre post : Jar) : Bool :=
  post.all fun e => isDisabled e.1 ex || valueOK wc iss pre e.1 e.2

/-- a non-excepted name that occurs once arrives once, with exactly the expected value (round trip /
    rejection) -/
def onceOK (wc : WireCodec) (ex : List Bytes) (iss : Issued) (pre post : Jar) : Bool :=
  (distinctKeys pre).all fun k =>
    isDisabled k ex ||
    match bindValues pre k with
    | [r] => (match bindValues post k with
              | [v] => expectOne wc iss r v
              | _ => false)
    | _ => true

/-- excepted names pass through unchanged: nothing but the client's own values under that name, in
    order, starting with the first; with a single cookie of that name exactly that cookie -/
def exceptOK (ex : List Bytes) (pre post : Jar) : Bool :=
  ex.all fun k =>
    let pv := bindValues pre k
    let ev := bindValues post k
    ev.isSublist pv && ev.head? == pv.head? && (!(decide (pv.length ≤ 1)) || ev == pv)

/-- no cookie name is invented or lost -/
def namesOK (pre post : Jar) : Bool := distinctKeys post == distinctKeys pre

/-- lookup view (`c.Cookies(name)`), non-excepted names -/
def lookOK (wc : WireCodec) (ex : List Bytes) (iss : Issued) (pre : Jar)
    (look : List (Bytes × Bytes)) : Bool :=
  look.all fun e =>
    isDisabled e.1 ex ||
      (valueOK wc iss pre e.1 e.2 &&
       (match bindValues pre e.1 with
        | [] => e.2 == []
        | [r] => expectOne wc iss r e.2
        | _ => true))

/-- lookup view, excepted names: the client's own (first) value -/
def lookExceptOK (ex : List Bytes) (pre : Jar) (look : List (Bytes × Bytes)) : Bool :=
  look.all fun e => !isDisabled e.1 ex || e.2 == lookup pre e.1

/-- Bind().Cookie view -/
def bindOK (wc : WireCodec) (ex : List Bytes) (iss : Issued) (pre : Jar)
    (bind : List (Bytes × List Bytes)) : Bool :=
  bind.all fun e =>
    e.2.all fun v =>
      if isDisabled e.1 ex then (bindValues pre e.1).contains v else valueOK wc iss pre e.1 v

/-- the Cookie header the handler reads — in any of its renderings — is nothing but the enumerated
    cookies (`RequestHeader.RawHeaders()` is not one of them: see docs/C20.md, scope) -/
def hdrOK (v : Views) : Bool :=
  v.hdr == cookieHeader v.enum && v.more.all fun h => h == cookieHeader v.enum

/-- request direction: first violated clause -/
def reqViolation (wc : WireCodec) (ex : List Bytes) (iss : Issued) (pre : Jar)
    (v : Views) : Option String :=
  if !enumOK wc ex iss pre v.enum then some "handler-enumerates-other-text"
  else if !lookOK wc ex iss pre v.look then some "handler-lookup-other-text"
  else if !bindOK wc ex iss pre v.bind then some "handler-bind-other-text"
  else if !onceOK wc ex iss pre v.enum then some "roundtrip-or-rejection"
  else if !exceptOK ex pre v.enum then some "except-request-changed"
  else if !lookExceptOK ex pre v.look then some "except-lookup-changed"
  else if !namesOK pre v.enum then some "cookie-names-changed"
  else if !hdrOK v then some "cookie-header-view"
  else none

/-! ### response direction -/

/-- wire format of one encrypted value under the default codec:
    canonical text (`emit`) of nonce(12) ‖ ciphertext(|p|) ‖ tag(16) -/
def wireFormatOK (wc : WireCodec) (value p : Bytes) : Bool :=
  match wc.canon value with
  | none => false
  | some bs => bs.length == nonceSize + p.length + 16 && wc.emit bs == value

/-- one response cookie: excepted → byte-identical; otherwise same name and attributes, and the value
    is a ciphertext (in the wire format) whose plaintext is the handler's value -/
def respCookieOK (wc : WireCodec) (ex : List Bytes) (iss : Issued) (c : RCookie)
    (w : WCookie) : Bool :=
  if isDisabled c.key ex then w.raw == c.raw
  else
    w.pkey == c.pkey && w.tail == c.tail && w.raw == render w.pkey w.value w.tail &&
    issuedPlain iss w.value == some c.pvalue && wireFormatOK wc w.value c.pvalue

def respAllOK (wc : WireCodec) (ex : List Bytes) (iss : Issued) :
    List RCookie → List WCookie → Bool
  | [], [] => true
  | c :: cs, w :: ws => respCookieOK wc ex iss c w && respAllOK wc ex iss cs ws
  | _, _ => false

/-- the nonces (first 12 bytes of the denoted ciphertext) of all values issued so far are distinct -/
def noncesOK (wc : WireCodec) (iss : Issued) : Bool :=
  let ns := iss.filterMap fun e => (wc.canon e.1).map (·.take nonceSize)
  decide ns.Nodup

/-- response direction: `post = none` is a panic. The sentence quantifies over keys of a valid
    length: with an invalid key the only demand is that nothing is sent in the clear (a panic, or
    only excepted cookies). -/
def respViolation (wc : WireCodec) (ex : List Bytes) (keyValid : Bool) (iss : Issued)
    (pre : List RCookie) (post : Option (List WCookie)) : Option String :=
  match post with
  | none => if keyValid then some "panic-with-valid-key" else none
  | some ws =>
    if !respAllOK wc ex iss pre ws then
      some (if ws.length != pre.length then "response-cookie-count" else "client-sees-non-ciphertext-or-changed-cookie")
    else if !noncesOK wc iss then some "nonce-reused"
    else none

/-- the log of what a response issued: (wire text, plaintext) of every non-excepted cookie -/
def issuedBy (ex : List Bytes) : List RCookie → List WCookie → Issued
  | c :: cs, w :: ws =>
    if isDisabled c.key ex then issuedBy ex cs ws else (w.value, c.pvalue) :: issuedBy ex cs ws
  | _, _ => []

/-! ### `Config.Next`, failing code, code that is not behind the middleware

The sentence speaks of handlers BEHIND the middleware. Three things follow for a whole exchange:

  * `cfg.Next(c)` said skip: for this request the middleware is not there. Nothing is decrypted and
    nothing is encrypted: every view shows the client's cookies as they arrived, every response
    cookie leaves as it was set.
  * a cookie a handler behind the middleware set must be ciphertext on the wire however that
    handler ended – `return nil`, `return err` (error handler), or a panic that a recover
    middleware in front turns into a response. It is judged at the point where control leaves the
    middleware (`mid`): the cookies there are the ciphertext of a PREFIX of what the handlers
    set; the prefix may be proper only if the Encryptor could not work (invalid key / a custom
    Encryptor that fails), and then nothing of the rest is left at all.
  * cookies written later by code that is NOT behind it (middleware registered in front, after its
    own `c.Next()`; the app's ErrorHandler) are outside the sentence; the only demand is that such a
    write leaves what the middleware produced alone: every cookie on the wire is one of the
    middleware's or one of those late writes, whole.
-/

/-- `cfg.Next(c)` said skip: every view is the client's own cookies -/
def skipReqViolation (pre : Jar) (v : Views) : Option String :=
  if v.enum != pre then some "next-skip-request-changed"
  else if !(v.look.all fun e => e.2 == lookup pre e.1) then some "next-skip-lookup-changed"
  else if !(v.bind.all fun e => e.2 == bindValues pre e.1) then some "next-skip-bind-changed"
  else if !hdrOK v then some "cookie-header-view"
  else none

/-- request direction with `Config.Next` -/
def reqViolationAt (skip : Bool) (wc : WireCodec) (ex : List Bytes) (iss : Issued) (pre : Jar)
    (v : Views) : Option String :=
  if skip then skipReqViolation pre v else reqViolation wc ex iss pre v

/-- stored key and Set-Cookie text of every cookie unchanged, in order -/
def passThrough (pre : List RCookie) (mid : List WCookie) : Bool :=
  mid.map (fun w => (w.key, w.raw)) == pre.map (fun c => (c.key, c.raw))

/-- what the oracle is told about the configuration (besides `Except` and the wire format) -/
structure Told where
  keyValid : Bool                 -- the key text decodes to 16/24/32 bytes
  encFails : Bytes → Bool         -- values on which the configured (custom) Encryptor fails
  decPanics : Bytes → Bool        -- texts on which the configured (custom) Decryptor panics

/-- the response loop did not get through: allowed only when the Encryptor could not work for the
    cookie it stopped at -/
def stopExcused (t : Told) (pre : List RCookie) (n : Nat) : Bool :=
  !t.keyValid || (match pre[n]? with
    | some c => t.encFails c.pvalue
    | none => false)

/-- One exchange, request and response, as observed (`o`): first violated clause.
    `issBefore` = issued before this exchange (requests are judged against it), `issAfter` = including
    what this exchange issued. -/
def exchangeViolation (wc : WireCodec) (ex : List Bytes) (t : Told) (issBefore issAfter : Issued)
    (x : Exchange) (o : Outcome) : Option String :=
  let reqV : Option String := match o.views with
    | some v => reqViolationAt x.skip wc ex issBefore x.jar v
    | none =>
      -- no handler ran: only a panicking Decryptor on one of the request's cookies explains that
      if !x.skip && (x.jar.any fun e => !isDisabled e.1 ex && t.decPanics e.2) then none
      else some "handler-not-reached"
  match reqV with
  | some c => some c
  | none =>
    match o.wire with
    | none =>
      -- a panic reached the server loop: nothing is sent. It must have a reason: a handler behind
      -- the middleware panicked, a custom Decryptor panicked, or the Encryptor could not work.
      if x.recover then some "panic-unexplained"
      else if x.flow == Flow.panic || o.views.isNone then none
      else if !x.skip && o.mid.length < x.cookies.length then
        (if stopExcused t x.cookies o.mid.length then none else some "panic-with-valid-key")
      else some "panic-unexplained"
    | some ws =>
      -- something is sent: judged where the middleware is left …
      let respV : Option String :=
        if x.skip then
          (if passThrough x.cookies o.mid then none else some "next-skip-response-changed")
        else if o.views.isNone then
          -- nothing behind the middleware ran; what is there was set in front of it
          (if passThrough x.opre o.mid then none else some "response-before-handler-changed")
        else if x.cookies.length < o.mid.length then some "response-cookie-count"
        else if !respAllOK wc ex issAfter (x.cookies.take o.mid.length) o.mid then
          some "client-sees-non-ciphertext-or-changed-cookie"
        else if o.mid.length < x.cookies.length && !stopExcused t x.cookies o.mid.length then
          some "panic-with-valid-key"
        else none
      match respV with
      | some c => some c
      | none =>
        -- … and every cookie on the wire is one of those or a late write, whole
        if ws.all fun w => o.mid.contains w || x.late.any fun l => l.w == w then none
        else some "late-write-damaged-cookie"

/-! ### histories -/

/-- one request/response exchange of a history: whether `cfg.Next` skips it, what arrives, which names
    the handler looks up, which cookies are in the response when the handlers behind are done, and the
    randomness the encryptions draw. (How the handlers end, and what code in front of the middleware
    writes afterwards, changes neither what the handlers see nor what the middleware issues: see
    `serve`, `exchangeViolation`.) -/
structure Step where
  skip : Bool := false
  jar : Jar
  ks : List Bytes
  cookies : List RCookie
  nonces : List Bytes

/-- the response cookies where the middleware is left -/
def stepMid (C : Codec) (ex : List Bytes) (s : Step) : List WCookie :=
  if s.skip then s.cookies.map keep else (encryptRun C ex s.nonces s.cookies).1

/-- the issued log after a step: what the response loop put into the response — also when it was
    stopped by a failing Encryptor (a recover middleware in front may still send that part);
    nothing when the step is skipped -/
def nextLog (C : Codec) (ex : List Bytes) (log : Issued) (s : Step) : Issued :=
  if s.skip then log else log ++ issuedBy ex s.cookies (encryptRun C ex s.nonces s.cookies).1

/-- every step of a history, judged by the oracle against the log issued BEFORE it (requests) and
    including it (responses) -/
def historyViolation (C : Codec) (wc : WireCodec) (ex : List Bytes) : Issued → List Step → Option String
  | _, [] => none
  | log, s :: rest =>
    match reqViolationAt s.skip wc ex log s.jar (mwViews s.skip C ex s.jar s.ks) with
    | some c => some c
    | none =>
      if s.skip then
        if !passThrough s.cookies (stepMid C ex s) then some "next-skip-response-changed"
        else historyViolation C wc ex log rest
      else
        if !respAllOK wc ex (nextLog C ex log s) (s.cookies.take (stepMid C ex s).length) (stepMid C ex s) then
          some "response"
        else historyViolation C wc ex (nextLog C ex log s) rest

end C20
