import FiberModel.Basic
/-
C20 — base64, as Go's `encoding/base64.StdEncoding` (padded, NON-strict) does it.

`utils.go` calls `base64.StdEncoding.EncodeToString` / `DecodeString` for both the key and the cookie
value. What the decoder accepts decides which altered cookie values "decode to the very same
ciphertext" (the property's own exception), so it is transcribed exactly:

* `Encoding.Decode` / `decodeQuantum` (go1.23 src/encoding/base64/base64.go):
  - `\r` and `\n` are skipped wherever they occur (inside a quantum, between the two `=`, after the
    padding);
  - input is consumed in quanta of 4 alphabet characters; at end of input an incomplete quantum is an
    error (padded encoding);
  - `=` is only accepted as 3rd+4th (`xx==`) or 4th (`xxx=`) character of the LAST quantum; anything
    but `\r`/`\n` after the padding is an error ("trailing garbage");
  - not strict: the unused low bits of the last data character are NOT checked
    (`QQ==` and `QR==` both decode to "A").
  Any error makes `DecodeString` return `err != nil`, which is all `utils.go` looks at.

Hence `decode s = decodeCore (s without \r \n)`.
A byte is a `Nat` (see Basic.lean); only values < 256 are real bytes.
-/
namespace C20
open B

/-- the base64 alphabet `A–Z a–z 0–9 + /` -/
def char64 (n : Nat) : Nat :=
  if n < 26 then 65 + n
  else if n < 52 then 71 + n
  else if n < 62 then n - 4
  else if n = 62 then 43
  else 47

/-- `enc.decodeMap` : value of an alphabet character, `none` = 0xff -/
def val64 (c : Nat) : Option Nat :=
  if 65 ≤ c ∧ c ≤ 90 then some (c - 65)
  else if 97 ≤ c ∧ c ≤ 122 then some (c - 71)
  else if 48 ≤ c ∧ c ≤ 57 then some (c + 4)
  else if c = 43 then some 62
  else if c = 47 then some 63
  else none

/-- `=` -/
def PAD : Nat := 61

/-- the two characters the decoder skips -/
def isNL (c : Nat) : Bool := c == 10 || c == 13

def stripNL (s : Bytes) : Bytes := s.filter (fun c => !isNL c)

/-- `StdEncoding.EncodeToString` -/
def encode : Bytes → Bytes
  | [] => []
  | [x] => [char64 (x / 4), char64 (x % 4 * 16), PAD, PAD]
  | [x, y] => [char64 (x / 4), char64 (x % 4 * 16 + y / 16), char64 (y % 16 * 4), PAD]
  | x :: y :: z :: rest =>
    char64 (x / 4) :: char64 (x % 4 * 16 + y / 16) :: char64 (y % 16 * 4 + z / 64) :: char64 (z % 64)
      :: encode rest

/-- `Encoding.Decode` on input without `\r`/`\n`: quanta of four; `none` = CorruptInputError. -/
def decodeCore : Bytes → Option Bytes
  | [] => some []
  | a :: b :: c :: d :: rest =>
    match val64 a, val64 b with
    | some va, some vb =>
      if c = PAD then
        -- "xx==" : must be the end of the input
        if d = PAD ∧ rest = [] then some [va * 4 + vb / 16] else none
      else
        match val64 c with
        | none => none
        | some vc =>
          if d = PAD then
            -- "xxx=" : must be the end of the input
            if rest = [] then some [va * 4 + vb / 16, vb % 16 * 16 + vc / 4] else none
          else
            match val64 d with
            | none => none
            | some vd =>
              (decodeCore rest).map
                (fun t => (va * 4 + vb / 16) :: (vb % 16 * 16 + vc / 4) :: (vc % 4 * 64 + vd) :: t)
    | _, _ => none
  | _ => none      -- 1..3 characters left: incomplete quantum / not enough padding

/-- `StdEncoding.DecodeString` (`none` = any error) -/
def decode (s : Bytes) : Option Bytes := decodeCore (stripNL s)

/-- clear the low bits of an alphabet character: `v ↦ v / m * m` -/
def clearLow (ch m : Nat) : Nat :=
  match val64 ch with
  | some v => char64 (v / m * m)
  | none => ch

/-- Canonical form of a decodable text (after `stripNL`): the bits of the last data character that
    the decoder ignores are set to zero. -/
def zeroPad : Bytes → Bytes
  | a :: b :: c :: d :: rest =>
    if c = PAD then a :: clearLow b 16 :: c :: d :: rest
    else if d = PAD then a :: b :: clearLow c 4 :: d :: rest
    else a :: b :: c :: d :: zeroPad rest
  | s => s

/-- the canonical text a wire text stands for -/
def canonText (s : Bytes) : Bytes := zeroPad (stripNL s)

end C20
