import FiberModel.C20.Lemmas
import FiberModel.C20.CookieScanLemmas
/-
C20 — property theorems (only). Helper lemmas: Base64Lemmas.lean, Lemmas.lean.

Everything about AES-GCM enters as a HYPOTHESIS (`Aead.Correct`, `Aead.Authentic`, `Aead.Logged`,
`Aead.GcmShape`), or one level up as a hypothesis about the configured Encryptor/Decryptor pair
(`Codec.Correct/Sound/Complete/Format`); `std_*` (Lemmas.lean) derive the latter from the former for
utils.go's functions, `wrap_*` for the custom pair used by the harness. Quantification is over every
key text, every Except list, every request cookie collection (any order, any duplicates), every
response cookie list, every nonce sequence.
-/
namespace C20
open B

/-! ## base64 (proved, not assumed) -/

/-- `DecodeString(EncodeToString(x)) = x` -/
theorem base64_roundtrip (bs : Bytes) (h : IsBytes bs) : decode (encode bs) = some bs :=
  decode_encode bs h

/-- The property's own exception, characterised: two decodable texts denote the very same bytes
    exactly when they agree after dropping `\r`/`\n` and clearing the bits of the last data character
    that the decoder ignores. -/
theorem base64_decode_canonical_or_same {c c' bs bs' : Bytes} (h : decode c = some bs)
    (h' : decode c' = some bs') : bs = bs' ↔ canonText c = canonText c' := by
  rw [canonText_of_decode h, canonText_of_decode h']
  constructor
  · intro e; rw [e]
  · exact encode_injective (decode_bytes h) (decode_bytes h')

/-- a decodable text in canonical form IS the encoding of its bytes: among all texts that decode to
    given bytes exactly one is canonical, the one the server writes -/
theorem base64_canonical_unique {c bs : Bytes} (h : decode c = some bs) (hc : canonText c = c) :
    c = encode bs := by
  rw [← hc]; exact canonText_of_decode h

/-- the decoder only ever produces bytes -/
theorem base64_decode_bytes {c bs : Bytes} (h : decode c = some bs) : IsBytes bs := decode_bytes h

-- non-vacuity / sanity: "A" has the canonical text QQ==; QR==, Q\nQ=\r= decode to the same byte;
-- QQ=, QQ==A, Q=== and the URL alphabet do not decode
example : encode (b "A") = b "QQ==" := by decide
example : decode (b "QQ==") = some (b "A") ∧ decode (b "QR==") = some (b "A") ∧
    decode (b "Q\nQ=\r=\n") = some (b "A") := by decide
example : decode (b "QQ=") = none ∧ decode (b "QQ==A") = none ∧ decode (b "Q===") = none ∧
    decode (b "-_-_") = none ∧ decode (b "QQ= =") = none := by decide
example : canonText (b "Q\nR==") = b "QQ==" := by decide

/-- injectivity of the wire format base64(nonce ‖ ciphertext ‖ tag): equal texts mean equal nonce and
    equal ciphertext -/
theorem wire_injective {n n' c c' : Bytes} (hb : IsBytes (n ++ c)) (hb' : IsBytes (n' ++ c'))
    (hn : n.length = nonceSize) (hn' : n'.length = nonceSize)
    (h : encode (n ++ c) = encode (n' ++ c')) : n = n' ∧ c = c' := by
  have := encode_injective hb hb' h
  exact List.append_inj this (by rw [hn, hn'])

/-! ## request direction -/

/-- ENUMERATION view (`VisitAllCookie`): every value a handler can enumerate under a non-excepted name
    is empty, or the originally issued plaintext of a value the client sent under that very name that
    decodes to the same ciphertext as an issued one. Never any other text. -/
theorem tampered_reaches_handler_empty_or_original {C : Codec} {wc : WireCodec} {iss : Issued}
    (ex : List Bytes) (j : Jar) (hS : C.SoundOn wc iss j) (k v : Bytes)
    (hm : (k, v) ∈ decryptJar C ex j) (hk : isDisabled k ex = false) :
    v = [] ∨ ∃ r c0, (k, r) ∈ j ∧ (c0, v) ∈ iss ∧ sameCipher wc r c0 = true := by
  rw [decryptJar_eq] at hm
  obtain ⟨⟨k', r⟩, hf, he⟩ := List.mem_map.mp hm
  simp only [tr, Prod.mk.injEq] at he
  obtain ⟨rfl, rfl⟩ := he
  have hj := (mem_firsts hf).1
  simp only [openValue, hk]
  cases hd : C.dec r with
  | none => left; rfl
  | some p =>
    right
    obtain ⟨c0, h1, h2⟩ := hS _ r p hj hd
    exact ⟨r, c0, hj, by simpa using h1, h2⟩

/-- LOOKUP view (`c.Cookies(name)`) -/
theorem tampered_reaches_handler_empty_or_original_lookup {C : Codec} {wc : WireCodec} {iss : Issued}
    (ex : List Bytes) (j : Jar) (hS : C.SoundOn wc iss j) (k : Bytes) (hk : isDisabled k ex = false) :
    lookup (decryptJar C ex j) k = [] ∨
    ∃ r c0, (k, r) ∈ j ∧ (c0, lookup (decryptJar C ex j) k) ∈ iss ∧ sameCipher wc r c0 = true := by
  unfold lookup
  cases hp : peek (decryptJar C ex j) k with
  | none => left; rfl
  | some v =>
    have hm : (k, v) ∈ decryptJar C ex j := by
      rw [peek_eq_head] at hp
      exact mem_bindValues.mp (List.mem_of_head? hp)
    simpa using tampered_reaches_handler_empty_or_original ex j hS k v hm hk

/-- BIND view (`Bind().Cookie` into `map[string][]string`, and the last element, which is what
    `map[string]string` receives) -/
theorem tampered_reaches_handler_empty_or_original_bind {C : Codec} {wc : WireCodec} {iss : Issued}
    (ex : List Bytes) (j : Jar) (hS : C.SoundOn wc iss j) (k v : Bytes) (hk : isDisabled k ex = false)
    (hv : v ∈ bindValues (decryptJar C ex j) k ∨
          ((bindValues (decryptJar C ex j) k) ≠ [] ∧ v = bindLast (decryptJar C ex j) k)) :
    v = [] ∨ ∃ r c0, (k, r) ∈ j ∧ (c0, v) ∈ iss ∧ sameCipher wc r c0 = true := by
  have hmem : v ∈ bindValues (decryptJar C ex j) k := by
    rcases hv with h | ⟨hne, rfl⟩
    · exact h
    · unfold bindLast
      cases hl : (bindValues (decryptJar C ex j) k).getLast? with
      | none => rw [List.getLast?_eq_none_iff] at hl; exact absurd hl hne
      | some x => simpa using List.mem_of_getLast? hl
  exact tampered_reaches_handler_empty_or_original ex j hS k v (mem_bindValues.mp hmem) hk

/-- A cookie that is the only one of its name reaches the handler exactly once and with exactly the
    value the property prescribes: the issued plaintext when it denotes an issued ciphertext, empty
    otherwise (round trip + rejection, as one statement). -/
theorem single_cookie_exact {C : Codec} {wc : WireCodec} {iss : Issued} (ex : List Bytes) (j : Jar)
    (hS : C.SoundOn wc iss j) (hC : C.Complete wc iss) (k r : Bytes) (hk : isDisabled k ex = false)
    (h1 : bindValues j k = [r]) :
    bindValues (decryptJar C ex j) k = [(C.dec r).getD []] ∧
    lookup (decryptJar C ex j) k = (C.dec r).getD [] ∧
    expectOne wc iss r ((C.dec r).getD []) = true := by
  refine ⟨?_, ?_, expectOne_openValue r (fun p hd => hS k r p (mem_bindValues.mp (by rw [h1]; simp)) hd) hC⟩
  · rw [bindValues_decryptJar, h1]; simp [openValue, hk]
  · rw [lookup_decryptJar, peek_eq_head, h1]; simp [openValue, hk]

/-- excepted names pass through unchanged (request): the value looked up is the client's, the cookie
    enumerated is the client's first one, and with a single cookie of that name nothing changes -/
theorem except_passthrough_request (C : Codec) (ex : List Bytes) (j : Jar) (k : Bytes)
    (hk : isDisabled k ex = true) :
    lookup (decryptJar C ex j) k = lookup j k ∧
    bindValues (decryptJar C ex j) k = (bindValues j k).take 1 ∧
    ((bindValues j k).length ≤ 1 → bindValues (decryptJar C ex j) k = bindValues j k) := by
  have hid : (openValue C ex k) = id := by funext v; simp [openValue, hk]
  refine ⟨?_, ?_, ?_⟩
  · rw [lookup_decryptJar, hid]; simp [lookup]
  · rw [bindValues_decryptJar, hid]; simp
  · intro hl
    rw [bindValues_decryptJar, hid, List.map_id, List.take_of_length_le hl]

/-! ### the executable oracle accepts the model, clause by clause, for every input -/

theorem enum_clause {C : Codec} {wc : WireCodec} {iss : Issued} (ex : List Bytes) (j : Jar)
    (hS : C.SoundOn wc iss j) : enumOK wc ex iss j (decryptJar C ex j) = true := by
  unfold enumOK
  rw [List.all_eq_true]
  intro e he
  cases hk : isDisabled e.1 ex with
  | true => rfl
  | false =>
    simp only [Bool.false_or]
    rcases tampered_reaches_handler_empty_or_original ex j hS e.1 e.2 he hk with h | ⟨r, c0, h1, h2, h3⟩
    · rw [h]; exact valueOK_nil wc iss j e.1
    · simp only [valueOK, Bool.or_eq_true]
      right
      rw [List.any_eq_true]
      exact ⟨r, mem_bindValues.mpr h1, by simpa using mem_authPlain h2 h3⟩

theorem look_clause {C : Codec} {wc : WireCodec} {iss : Issued} (ex : List Bytes) (j : Jar)
    (hS : C.SoundOn wc iss j) (hC : C.Complete wc iss) (ks : List Bytes) :
    lookOK wc ex iss j (ks.map fun k => (k, lookup (decryptJar C ex j) k)) = true := by
  unfold lookOK
  rw [List.all_eq_true]
  intro e he
  obtain ⟨k, _, rfl⟩ := List.mem_map.mp he
  cases hk : isDisabled k ex with
  | true => rfl
  | false =>
    simp only [Bool.false_or, Bool.and_eq_true]
    constructor
    · rcases tampered_reaches_handler_empty_or_original_lookup ex j hS k hk with h | ⟨r, c0, h1, h2, h3⟩
      · rw [h]; exact valueOK_nil wc iss j k
      · simp only [valueOK, Bool.or_eq_true]
        right
        rw [List.any_eq_true]
        exact ⟨r, mem_bindValues.mpr h1, by simpa using mem_authPlain h2 h3⟩
    · rw [lookup_decryptJar, peek_eq_head]
      cases hb : bindValues j k with
      | nil => simp
      | cons r t =>
        cases t with
        | nil =>
          simpa [openValue, hk] using
            expectOne_openValue r (fun p hd => hS k r p (mem_bindValues.mp (by rw [hb]; simp)) hd) hC
        | cons _ _ => rfl

theorem look_except_clause (C : Codec) (ex : List Bytes) (j : Jar) (ks : List Bytes) :
    lookExceptOK ex j (ks.map fun k => (k, lookup (decryptJar C ex j) k)) = true := by
  unfold lookExceptOK
  rw [List.all_eq_true]
  intro e he
  obtain ⟨k, _, rfl⟩ := List.mem_map.mp he
  cases hk : isDisabled k ex with
  | false => rfl
  | true =>
    simp only [Bool.not_true, Bool.false_or]
    rw [(except_passthrough_request C ex j k hk).1]; simp

theorem bind_clause {C : Codec} {wc : WireCodec} {iss : Issued} (ex : List Bytes) (j : Jar)
    (hS : C.SoundOn wc iss j) :
    bindOK wc ex iss j ((distinctKeys (decryptJar C ex j)).map fun k => (k, bindValues (decryptJar C ex j) k)) = true := by
  unfold bindOK
  rw [List.all_eq_true]
  intro e he
  obtain ⟨k, _, rfl⟩ := List.mem_map.mp he
  rw [List.all_eq_true]
  intro v hv
  cases hk : isDisabled k ex with
  | true =>
    simp only [if_true]
    rw [(except_passthrough_request C ex j k hk).2.1] at hv
    simpa using List.mem_of_mem_take hv
  | false =>
    simp only [Bool.false_eq_true, if_false]
    rcases tampered_reaches_handler_empty_or_original ex j hS k v (mem_bindValues.mp hv) hk with h | ⟨r, c0, h1, h2, h3⟩
    · rw [h]; exact valueOK_nil wc iss j k
    · simp only [valueOK, Bool.or_eq_true]
      right
      rw [List.any_eq_true]
      exact ⟨r, mem_bindValues.mpr h1, by simpa using mem_authPlain h2 h3⟩

theorem once_clause {C : Codec} {wc : WireCodec} {iss : Issued} (ex : List Bytes) (j : Jar)
    (hS : C.SoundOn wc iss j) (hC : C.Complete wc iss) : onceOK wc ex iss j (decryptJar C ex j) = true := by
  unfold onceOK
  rw [List.all_eq_true]
  intro k _
  cases hk : isDisabled k ex with
  | true => rfl
  | false =>
    simp only [Bool.false_or]
    cases hb : bindValues j k with
    | nil => rfl
    | cons r t =>
      cases t with
      | cons _ _ => rfl
      | nil =>
        have := single_cookie_exact ex j hS hC k r hk hb
        simp only [this.1]
        exact this.2.2

theorem except_clause (C : Codec) (ex : List Bytes) (j : Jar) : exceptOK ex j (decryptJar C ex j) = true := by
  unfold exceptOK
  rw [List.all_eq_true]
  intro k hk
  have hk' : isDisabled k ex = true := by simpa [isDisabled] using hk
  obtain ⟨_, h2, h3⟩ := except_passthrough_request C ex j k hk'
  simp only [h2, Bool.and_eq_true, Bool.or_eq_true, Bool.not_eq_true', decide_eq_false_iff_not,
    beq_iff_eq, List.isSublist_iff_sublist]
  refine ⟨⟨List.take_sublist 1 _, ?_⟩, ?_⟩
  · cases bindValues j k <;> simp
  · by_cases hl : (bindValues j k).length ≤ 1
    · right; rw [List.take_of_length_le hl]
    · left; exact hl

theorem names_clause (C : Codec) (ex : List Bytes) (j : Jar) : namesOK j (decryptJar C ex j) = true := by
  simp [namesOK, distinctKeys_decryptJar]

/-- REQUEST DIRECTION, full strength: for every Encryptor/Decryptor pair that is authentic and
    complete with respect to the issued log, every Except list, every request cookie collection
    (duplicates included) and every set of names looked up, no clause of the executable property
    oracle is violated by what the handler sees — in any of its views. -/
theorem request_meets_spec {C : Codec} {wc : WireCodec} {iss : Issued} (ex : List Bytes) (j : Jar)
    (hS : C.SoundOn wc iss j) (hC : C.Complete wc iss) (ks : List Bytes) :
    reqViolation wc ex iss j (modelViews C ex j ks) = none := by
  unfold reqViolation modelViews
  simp only [enum_clause ex j hS, look_clause ex j hS hC ks, bind_clause ex j hS, once_clause ex j hS hC,
    except_clause C ex j, look_except_clause C ex j ks, names_clause C ex j, hdrOK]
  simp

/-! ## response direction -/

/-- CLIENT SEES ONLY CIPHERTEXT, structurally: whatever the handler set, every Set-Cookie the client
    receives for a non-excepted name is `name=` + base64(nonce ‖ AES-GCM(key, nonce, value)) +
    the attributes — the value enters only through the AEAD; excepted cookies are byte-identical. -/
theorem client_sees_only_ciphertext (A : Aead) (key : Bytes) (ex : List Bytes) (ns : List Bytes)
    (cs : List RCookie) (ws : List WCookie) (hns : ∀ n ∈ ns, goodNonce n)
    (h : encryptJar (stdCodec A key) ex ns cs = some ws) :
    Paired (fun c w =>
      (isDisabled c.key ex = true → w.raw = c.raw) ∧
      (isDisabled c.key ex = false → ∃ kd n, decode key = some kd ∧ validKeyLen kd.length = true ∧
        goodNonce n ∧ w.value = encode (n ++ A.sealWith kd n c.pvalue) ∧
        w.raw = render c.pkey w.value c.tail)) cs ws := by
  have hp := encryptJar_rel (stdCodec A key) ex cs ns ws hns h
  clear h hns
  induction hp with
  | nil => exact Paired.nil
  | cons hr _ ih =>
    refine Paired.cons ⟨fun hd => (hr.2.2.1 hd).1, fun hd => ?_⟩ ih
    obtain ⟨⟨n, hn, he⟩, hraw⟩ := hr.2.2.2 hd
    obtain ⟨kd, hk, hv, hval⟩ := encryptCookie_some he
    exact ⟨kd, n, hk, hv, hn, hval, hraw⟩

/-- RESPONSE DIRECTION, full strength: for every correct Encryptor/Decryptor pair with the wire
    format, every Except list, every list of response cookies (duplicate names included), every nonce
    sequence: if the middleware returns (no panic), the Set-Cookie list satisfies the oracle —
    same count, same names and attributes, excepted cookies byte-identical, every other value a
    wire-format ciphertext that the log maps to the handler's value. -/
theorem response_meets_spec {C : Codec} {wc : WireCodec} (hCor : C.Correct) (hF : C.Format wc)
    (ex : List Bytes) (ns : List Bytes) (cs : List RCookie) (ws : List WCookie)
    (hns : ∀ n ∈ ns, goodNonce n) (hb : ∀ c ∈ cs, IsBytes c.pvalue)
    (h : encryptJar C ex ns cs = some ws) :
    respAllOK wc ex (issuedBy ex cs ws) cs ws = true := by
  have hp := encryptJar_rel C ex cs ns ws hns h
  refine resp_clause hF ex _ ?_ cs ws hp (fun e he => he)
  intro e he
  obtain ⟨n, hn, hen⟩ := issuedBy_enc hp e he
  obtain ⟨c, hc, hpv⟩ := issuedBy_plain hp e he
  exact hCor n e.2 e.1 hn (by rw [hpv]; exact hb c hc) hen

/-- fresh nonces stay visible as distinct nonces on the wire: if `rand.Reader` never repeats a nonce,
    no two issued wire texts share one (the oracle's `noncesOK`) -/
theorem nonces_distinct {A : Aead} {key : Bytes} (hG : A.GcmShape) (ex : List Bytes) (ns : List Bytes)
    (cs : List RCookie) (ws : List WCookie) (hns : ∀ n ∈ ns, goodNonce n) (hnd : ns.Nodup)
    (h : encryptJar (stdCodec A key) ex ns cs = some ws) :
    noncesOK stdWire (issuedBy ex cs ws) = true := by
  unfold noncesOK
  rw [decide_eq_true_iff]
  have := issued_nonces hG ex cs ns ws hns h
  simp only [stdWire]
  rw [this]
  exact hnd.sublist (List.take_sublist _ _)

/-- excepted names pass through unchanged (response): same position, byte-identical Set-Cookie -/
theorem except_passthrough_response (C : Codec) (ex : List Bytes) (ns : List Bytes) (cs : List RCookie)
    (ws : List WCookie) (hns : ∀ n ∈ ns, goodNonce n) (h : encryptJar C ex ns cs = some ws) :
    Paired (fun c w => isDisabled c.key ex = true → w.raw = c.raw ∧ w.value = c.pvalue) cs ws := by
  have hp := encryptJar_rel C ex cs ns ws hns h
  clear h hns
  induction hp with
  | nil => exact Paired.nil
  | cons hr _ ih => exact Paired.cons hr.2.2.1 ih

/-! ## round trip -/

/-- ROUND TRIP: cookies set by a handler (distinct names, byte values) are encrypted, the client sends
    back exactly what it received, and the next handler's request holds every cookie with its ORIGINAL
    value, in order, once — for every correct Encryptor/Decryptor pair, every Except list. -/
theorem roundtrip {C : Codec} (hC : C.Correct) (ex : List Bytes) (ns : List Bytes) (cs : List RCookie)
    (ws : List WCookie) (hns : ∀ n ∈ ns, goodNonce n) (hb : ∀ c ∈ cs, IsBytes c.pvalue)
    (hkey : ∀ c ∈ cs, isDisabled c.pkey ex = isDisabled c.key ex)
    (hnd : (cs.map (·.pkey)).Nodup)
    (h : encryptJar C ex ns cs = some ws) :
    decryptJar C ex (echo ws) = cs.map fun c => (c.pkey, c.pvalue) := by
  have hp := encryptJar_rel C ex cs ns ws hns h
  have hkeys : (echo ws).map (·.1) = cs.map (·.pkey) := by
    clear hns hb hkey hnd h
    induction hp with
    | nil => rfl
    | cons hr _ ih => simp only [echo, List.map_cons] at ih ⊢; rw [ih, hr.1]
  rw [decryptJar_eq, firsts_of_nodup _ [] (by simp) (by rw [hkeys]; exact hnd)]
  exact echo_eq hC hb hkey hp

/-! ## the same, from the AES-GCM hypotheses (default Encryptor/Decryptor and the custom pair) -/

/-- request direction for utils.go's DecryptCookie under a valid key: from AEAD integrity
    (`Authentic`) and a truthful log (`Logged`) -/
theorem request_meets_spec_aesgcm {A : Aead} {key kd : Bytes} {L : SealLog} (hk : decode key = some kd)
    (hv : validKeyLen kd.length = true) (hA : A.Authentic kd L) (hL : A.Logged kd L)
    (ex : List Bytes) (j : Jar) (ks : List Bytes) :
    reqViolation stdWire ex (wireIssued L) j (modelViews (stdCodec A key) ex j ks) = none :=
  request_meets_spec ex j ((std_sound hk hA).on j) (std_complete hk hv hL) ks

/-- … and for the custom Encryptor/Decryptor pair of the harness -/
theorem request_meets_spec_custom {A : Aead} {key kd : Bytes} {L : SealLog} (hk : decode key = some kd)
    (hv : validKeyLen kd.length = true) (hA : A.Authentic kd L) (hL : A.Logged kd L)
    (ex : List Bytes) (j : Jar) (ks : List Bytes) :
    reqViolation wrapWire ex (wrapIssued (wireIssued L)) j
      (modelViews (wrapCodec (stdCodec A key)) ex j ks) = none :=
  request_meets_spec ex j ((wrap_sound (std_sound hk hA)).on j) (wrap_complete (std_complete hk hv hL)) ks

/-- … and with a key text that is not valid: nothing was ever issued, nothing but "" is seen -/
theorem request_meets_spec_invalid_key (A : Aead) (key : Bytes)
    (hbad : ∀ kd, decode key = some kd → validKeyLen kd.length = false)
    (ex : List Bytes) (j : Jar) (ks : List Bytes) :
    reqViolation stdWire ex [] j (modelViews (stdCodec A key) ex j ks) = none := by
  refine request_meets_spec ex j ?_ ?_ ks
  · intro k r p _ hd; rw [(std_invalid_key A key hbad).1 r] at hd; cases hd
  · refine ⟨?_, ?_⟩
    · intro c0 p r hm; cases hm
    · intro c0 p hm; cases hm

/-- round trip for utils.go's pair, from AEAD correctness -/
theorem roundtrip_aesgcm {A : Aead} (hA : A.Correct) (hG : A.GcmShape) (key : Bytes) (ex : List Bytes)
    (ns : List Bytes) (cs : List RCookie) (ws : List WCookie) (hns : ∀ n ∈ ns, goodNonce n)
    (hb : ∀ c ∈ cs, IsBytes c.pvalue) (hkey : ∀ c ∈ cs, isDisabled c.pkey ex = isDisabled c.key ex)
    (hnd : (cs.map (·.pkey)).Nodup) (h : encryptJar (stdCodec A key) ex ns cs = some ws) :
    decryptJar (stdCodec A key) ex (echo ws) = cs.map fun c => (c.pkey, c.pvalue) :=
  roundtrip (std_correct hA hG) ex ns cs ws hns hb hkey hnd h

/-- response direction for utils.go's pair: no clause of the response oracle is violated (incl.
    distinct nonces on the wire when the drawn nonces are distinct) -/
theorem response_meets_spec_aesgcm {A : Aead} (hA : A.Correct) (hG : A.GcmShape) (key : Bytes)
    (ex : List Bytes) (ns : List Bytes) (cs : List RCookie) (ws : List WCookie)
    (hns : ∀ n ∈ ns, goodNonce n) (hnd : ns.Nodup) (hb : ∀ c ∈ cs, IsBytes c.pvalue)
    (h : encryptJar (stdCodec A key) ex ns cs = some ws) :
    respViolation stdWire ex true (issuedBy ex cs ws) cs (some ws) = none := by
  unfold respViolation
  simp [response_meets_spec (std_correct hA hG) (std_format hG) ex ns cs ws hns hb h,
    nonces_distinct hG ex ns cs ws hns hnd h]

/-- … and for the custom pair -/
theorem response_meets_spec_custom {A : Aead} (hA : A.Correct) (hG : A.GcmShape) (key : Bytes)
    (ex : List Bytes) (ns : List Bytes) (cs : List RCookie) (ws : List WCookie)
    (hns : ∀ n ∈ ns, goodNonce n) (hb : ∀ c ∈ cs, IsBytes c.pvalue)
    (h : encryptJar (wrapCodec (stdCodec A key)) ex ns cs = some ws) :
    respAllOK wrapWire ex (issuedBy ex cs ws) cs ws = true :=
  response_meets_spec (wrap_correct (std_correct hA hG)) (wrap_format (std_format hG)) ex ns cs ws hns hb h

/-- what fasthttp's cookie scanner (client side, or `fasthttp.Cookie.Parse`) reads off the Set-Cookie
    texts the middleware wrote is exactly the (name, value) pairs of `echo` -/
theorem scan_of_written {A : Aead} {key : Bytes} {ex : List Bytes} {cs : List RCookie} {ws : List WCookie}
    (hp : Paired (WRel (stdCodec A key) ex) cs ws)
    (hnames : ∀ c ∈ cs, c.pkey ≠ [] ∧ ∀ x ∈ c.pkey, plainByte x ∧ x ≠ 61)
    (htail : ∀ c ∈ cs, c.tail = [] ∨ ∃ r, c.tail = 59 :: r)
    (hparse : ∀ c ∈ cs, isDisabled c.key ex = true → scanSetCookie c.raw = (c.pkey, c.pvalue)) :
    ws.map (fun w => scanSetCookie w.raw) = echo ws := by
  induction hp with
  | nil => rfl
  | @cons c w cs ws hr _ ih =>
    simp only [echo, List.map_cons] at ih ⊢
    rw [ih (fun x hx => hnames x (List.mem_cons_of_mem _ hx)) (fun x hx => htail x (List.mem_cons_of_mem _ hx))
      (fun x hx => hparse x (List.mem_cons_of_mem _ hx))]
    congr 1
    cases hd : isDisabled c.key ex with
    | true =>
      obtain ⟨h1, h2⟩ := hr.2.2.1 hd
      rw [h1, hparse c (by simp) hd, hr.1, h2]
    | false =>
      obtain ⟨⟨n, _, he⟩, hraw⟩ := hr.2.2.2 hd
      obtain ⟨kd, _, _, hval⟩ := encryptCookie_some he
      rw [hraw, hr.1]
      have hn := hnames c (by simp)
      exact scan_render c.pkey w.value c.tail hn.1 hn.2 (by rw [hval]; exact encode_plain _) (htail c (by simp))

/-- ROUND TRIP ON THE TEXT LEVEL (utils.go's pair): the handler sets cookies (distinct plain names,
    byte values, attributes rendered by fasthttp), the client reads the Set-Cookie TEXTS with the cookie
    scanner and sends the pairs back: the next handler's request holds every cookie once with its
    original value. -/
theorem roundtrip_text {A : Aead} (hA : A.Correct) (hG : A.GcmShape) (key : Bytes) (ex : List Bytes)
    (ns : List Bytes) (cs : List RCookie) (ws : List WCookie) (hns : ∀ n ∈ ns, goodNonce n)
    (hb : ∀ c ∈ cs, IsBytes c.pvalue) (hkey : ∀ c ∈ cs, isDisabled c.pkey ex = isDisabled c.key ex)
    (hnd : (cs.map (·.pkey)).Nodup)
    (hnames : ∀ c ∈ cs, c.pkey ≠ [] ∧ ∀ x ∈ c.pkey, plainByte x ∧ x ≠ 61)
    (htail : ∀ c ∈ cs, c.tail = [] ∨ ∃ r, c.tail = 59 :: r)
    (hparse : ∀ c ∈ cs, isDisabled c.key ex = true → scanSetCookie c.raw = (c.pkey, c.pvalue))
    (h : encryptJar (stdCodec A key) ex ns cs = some ws) :
    decryptJar (stdCodec A key) ex (ws.map fun w => scanSetCookie w.raw) =
      cs.map fun c => (c.pkey, c.pvalue) := by
  rw [scan_of_written (encryptJar_rel _ ex cs ns ws hns h) hnames htail hparse]
  exact roundtrip_aesgcm hA hG key ex ns cs ws hns hb hkey hnd h

/-! ## whole histories -/

/-- unforgeability along a history: at every step, whatever the request carries that the Decryptor
    accepts denotes a ciphertext issued BEFORE that step -/
def Unforgeable (C : Codec) (wc : WireCodec) (ex : List Bytes) : Issued → List Step → Prop
  | _, [] => True
  | log, s :: rest => C.SoundOn wc log s.jar ∧ Unforgeable C wc ex (nextLog C ex log s) rest

/-- nonces are 12 real bytes, cookie values are byte strings -/
def GoodSteps (steps : List Step) : Prop :=
  ∀ s ∈ steps, (∀ n ∈ s.nonces, goodNonce n) ∧ (∀ c ∈ s.cookies, IsBytes c.pvalue)

/-- EVERY HISTORY: for a correct Encryptor/Decryptor pair with the wire format, whose Decryptor
    depends on a text only through the ciphertext it denotes, and any sequence of exchanges in which
    the client cannot forge (each request carries nothing decryptable that was not issued before):
    no step violates any clause of the oracle — requests judged against the log issued so far,
    responses against the log including them. The log is the one the middleware itself produces. -/
theorem history_meets_spec {C : Codec} {wc : WireCodec} (hCor : C.Correct) (hF : C.Format wc)
    (hR : C.Respects wc) (ex : List Bytes) :
    ∀ (steps : List Step) (log : Issued), C.Wrote log → GoodSteps steps →
      Unforgeable C wc ex log steps → historyViolation C wc ex log steps = none := by
  intro steps
  induction steps with
  | nil => intro _ _ _ _; rfl
  | cons s rest ih =>
    intro log hW hG hU
    obtain ⟨hS, hU'⟩ := hU
    have hGs := hG s (by simp)
    have hGr : GoodSteps rest := fun x hx => hG x (List.mem_cons_of_mem _ hx)
    unfold historyViolation
    rw [request_meets_spec ex s.jar hS (complete_of_wrote hCor hF hR hW) s.ks]
    simp only
    cases he : encryptJar C ex s.nonces s.cookies with
    | none =>
      simp only
      have : nextLog C ex log s = log := by simp [nextLog, he]
      rw [this] at hU'
      exact ih log hW hGr hU'
    | some ws =>
      simp only
      have hp := encryptJar_rel C ex s.cookies s.nonces ws hGs.1 he
      have hW' : C.Wrote (log ++ issuedBy ex s.cookies ws) := wrote_append hW (wrote_issuedBy hp hGs.2)
      have hresp : respAllOK wc ex (log ++ issuedBy ex s.cookies ws) s.cookies ws = true :=
        resp_clause hF ex _ (wrote_functional hCor hW') s.cookies ws hp
          (fun e hm => List.mem_append.mpr (Or.inr hm))
      simp only [hresp, Bool.not_true, Bool.false_eq_true, if_false]
      have : nextLog C ex log s = log ++ issuedBy ex s.cookies ws := by simp [nextLog, he]
      rw [this] at hU'
      exact ih _ hW' hGr hU'

/-- the same for utils.go's pair, from the AES-GCM hypotheses -/
theorem history_meets_spec_aesgcm {A : Aead} (hA : A.Correct) (hG : A.GcmShape) (key : Bytes)
    (ex : List Bytes) (steps : List Step) (hgood : GoodSteps steps)
    (hU : Unforgeable (stdCodec A key) stdWire ex [] steps) :
    historyViolation (stdCodec A key) stdWire ex [] steps = none :=
  history_meets_spec (std_correct hA hG) (std_format hG) (std_respects A key) ex steps []
    (fun e he => by cases he) hgood hU

/-! ## configuration -/

/-- `configDefault` validates only emptiness; a key text that does not decode or has a wrong length
    makes the middleware fail CLOSED: every non-excepted request cookie reaches the handler empty, and
    a response with a non-excepted cookie is not sent at all (panic). -/
theorem invalid_key_fails_closed (A : Aead) (key : Bytes) (ex : List Bytes)
    (hbad : ∀ kd, decode key = some kd → validKeyLen kd.length = false) :
    (∀ j k v, (k, v) ∈ decryptJar (stdCodec A key) ex j → isDisabled k ex = false → v = []) ∧
    (∀ ns cs, (∃ c ∈ cs, isDisabled c.key ex = false) → encryptJar (stdCodec A key) ex ns cs = none) := by
  obtain ⟨hdec, henc⟩ := std_invalid_key A key hbad
  constructor
  · intro j k v hm hk
    rw [decryptJar_eq] at hm
    obtain ⟨⟨k', r⟩, _, he⟩ := List.mem_map.mp hm
    simp only [tr, Prod.mk.injEq] at he
    obtain ⟨rfl, rfl⟩ := he
    simp [openValue, hk, hdec r]
  · intro ns cs
    induction cs generalizing ns with
    | nil => rintro ⟨c, hc, _⟩; cases hc
    | cons c r ih =>
      rintro ⟨c', hc', hd'⟩
      cases hd : isDisabled c.key ex with
      | false =>
        cases ns with
        | nil => simp [encryptJar, hd]
        | cons n ns' => simp [encryptJar, hd, henc n c.pvalue]
      | true =>
        have : ∃ c ∈ r, isDisabled c.key ex = false := by
          rcases List.mem_cons.mp hc' with rfl | h
          · rw [hd] at hd'; cases hd'
          · exact ⟨c', h, hd'⟩
        simp [encryptJar, hd, ih ns this]

/-- which key texts the default codec accepts: exactly those that base64-decode (newlines and padding
    bits tolerated) to 16, 24 or 32 bytes -/
theorem key_accepted_iff (A : Aead) (key n p : Bytes) :
    (∃ e, (stdCodec A key).enc n p = some e) ↔ ∃ kd, decode key = some kd ∧ validKeyLen kd.length = true := by
  constructor
  · rintro ⟨e, he⟩
    obtain ⟨kd, h1, h2, _⟩ := encryptCookie_some he
    exact ⟨kd, h1, h2⟩
  · rintro ⟨kd, h1, h2⟩
    exact ⟨encode (n ++ A.sealWith kd n p), by show encryptCookie A n p key = _; simp [encryptCookie, h1, h2]⟩

/-! ## the defect that was fixed, as theorems about the old loops -/

/-- The request loop as it was (writing back with `SetCookie` while visiting) violates the property:
    with `a=x; a=y` and a Decryptor that rejects everything, the handler still enumerates the raw
    client text `y`. (`tampered_reaches_handler_empty_or_original` is false for `decryptJarOld`.) -/
theorem old_request_loop_leaks_raw_duplicate :
    ¬ (∀ (C : Codec) (ex : List Bytes) (j : Jar) (k v : Bytes), (k, v) ∈ decryptJarOld C ex j →
        isDisabled k ex = false → v = [] ∨ ∃ r, (k, r) ∈ j ∧ C.dec r = some v) := by
  intro h
  have := h ⟨fun _ _ => none, fun _ => none⟩ [] [(b "a", b "x"), (b "a", b "y")] (b "a") (b "y")
    (by decide) (by decide)
  rcases this with h | ⟨r, _, h⟩
  · exact absurd h (by decide)
  · cases h

/-- The response loop as it was leaves the second of two same-named cookies in the clear and encrypts
    the first one twice (toy parser: `name=value`, toy Encryptor: prefix byte 0). -/
theorem old_response_loop_leaks_duplicate :
    encryptJarOld ⟨fun _ v => some (0 :: v), fun _ => none⟩ []
      (fun raw => (raw.takeWhile (· != 61), (raw.dropWhile (· != 61)).drop 1, []))
      [[1], [2]] [(b "a", b "a=one"), (b "a", b "a=two")]
      = some [(b "a", b "a=" ++ [0, 0] ++ b "one"), (b "a", b "a=two")] := by decide

/-- The fix is behaviour-preserving where there was no defect: for a request whose cookie names are
    pairwise distinct the old in-place loop and the current rebuild produce the same collection. -/
theorem fix_preserves_requests_without_duplicates (C : Codec) (ex : List Bytes) (j : Jar)
    (hnd : (j.map (·.1)).Nodup) : decryptJarOld C ex j = decryptJar C ex j :=
  decryptJarOld_eq_of_nodup C ex j hnd

/-- …while the current loops on the same inputs: nothing raw, nothing in the clear -/
example : decryptJar ⟨fun _ _ => none, fun _ => none⟩ [] [(b "a", b "x"), (b "a", b "y")] = [(b "a", [])] := by
  decide

/-! ## non-vacuity: the hypotheses are satisfiable -/

/-- toy AEAD: ciphertext = plaintext (as bytes) followed by a 16-byte tag of zeros -/
def toyAead : Aead :=
  { sealWith := fun _ _ p => p.map (· % 256) ++ List.replicate 16 0,
    openWith := fun _ _ c => if 16 ≤ c.length then some (c.take (c.length - 16)) else none }

example : toyAead.Correct ∧ toyAead.GcmShape := by
  constructor
  · intro k n p hp
    have : p.map (· % 256) = p := by
      rw [List.map_congr_left (g := id)]; simp
      intro a ha; exact Nat.mod_eq_of_lt (hp a ha)
    simp [toyAead, this]
  · intro k n p
    constructor
    · intro x hx
      simp [toyAead] at hx
      rcases hx with ⟨a, _, rfl⟩ | ⟨_, rfl⟩
      · exact Nat.mod_lt _ (by decide)
      · decide
    · simp [toyAead]

/-- AEAD given by a finite log: opens exactly what the log holds -/
def logAead (L : SealLog) : Aead :=
  { sealWith := fun _ _ _ => [],
    openWith := fun _ n c => (L.find? fun e => e.1 == n && e.2.1 == c).map (·.2.2) }

example : let L : SealLog := [(List.replicate 12 7, List.replicate 17 9, b "v")]
    (logAead L).Authentic [] L ∧ (logAead L).Logged [] L := by
  intro L
  constructor
  · intro n c p h
    simp [logAead, L, List.find?_cons] at h
    split at h <;> simp_all
    rename_i hh
    simp [L, ← h, hh.1, hh.2]
  · intro n c p h
    simp [L] at h
    obtain ⟨rfl, rfl, rfl⟩ := h
    refine ⟨by decide, by decide, by decide, by decide⟩

/-! ### concrete instances of the main theorems' hypotheses and conclusions -/

def exKey : Bytes := encode (List.replicate 16 1)
def exCookies : List RCookie :=
  [⟨b "a", b "a=hi; path=/", b "a", b "hi", b "; path=/"⟩, ⟨b "csrf_", b "csrf_=t", b "csrf_", b "t", []⟩]

-- round trip: set → only ciphertext for `a`, `csrf_` untouched → echoed → originals
example : (encryptJar (stdCodec toyAead exKey) [b "csrf_"] [List.replicate 12 5] exCookies).map
    (fun ws => (ws.map (·.raw) |>.drop 1, decryptJar (stdCodec toyAead exKey) [b "csrf_"] (echo ws)))
    = some ([b "csrf_=t"], [(b "a", b "hi"), (b "csrf_", b "t")]) := by decide

-- the same on the text level: the Set-Cookie texts, scanned like a client would, decrypt to the originals
example : (encryptJar (stdCodec toyAead exKey) [b "csrf_"] [List.replicate 12 5] exCookies).map
    (fun ws => decryptJar (stdCodec toyAead exKey) [b "csrf_"] (ws.map fun w => scanSetCookie w.raw))
    = some [(b "a", b "hi"), (b "csrf_", b "t")] := by decide

-- the scanner on a request header: split on `;`, first `=`, blanks and one pair of quotes removed,
-- nameless values kept, empty pairs dropped
example : parseCookieHeader (b "a=1; b = \"q\" ;; =x; y; c=d=e") =
    [(b "a", b "1"), (b "b", b "q"), ([], b "x"), ([], b "y"), (b "c", b "d=e")] := by decide

def exL : SealLog := [(List.replicate 12 7, List.replicate 17 9, b "v")]
def exWire : Bytes := encode (List.replicate 12 7 ++ List.replicate 17 9)

-- tampering: the issued text, the same text with a newline inside, an extended text, a duplicate
-- name with attacker text, an excepted name
example : decryptJar (stdCodec (logAead exL) exKey) [b "x"]
    [(b "a", exWire), (b "b", 10 :: exWire), (b "c", exWire ++ [65]), (b "a", b "admin"), (b "x", b "raw")]
    = [(b "a", b "v"), (b "b", b "v"), (b "c", []), (b "x", b "raw")] := by decide

-- a concrete history (toy AEAD): set two cookies; send them back with a duplicate carrying attacker
-- text, a truncated value and an excepted cookie; the oracle finds nothing — and does find the
-- violation when the handler is shown the attacker's text
def exSteps : List Step :=
  [{ jar := [], ks := [], cookies := exCookies, nonces := [List.replicate 12 5] },
   { jar := [(b "a", encode (List.replicate 12 5 ++ (toyAead.sealWith [] [] (b "hi")))), (b "a", b "admin"),
             (b "b", (encode (List.replicate 12 5 ++ (toyAead.sealWith [] [] (b "hi")))).take 20),
             (b "csrf_", b "t")],
     ks := [b "a", b "b", b "csrf_", b "zz"], cookies := [], nonces := [] }]

example : historyViolation (stdCodec toyAead exKey) stdWire [b "csrf_"] [] exSteps = none := by decide

-- the hypotheses of `history_meets_spec_aesgcm` hold together for ONE AEAD on that history
example : toyAead.Correct ∧ toyAead.GcmShape ∧ GoodSteps exSteps ∧
    Unforgeable (stdCodec toyAead exKey) stdWire [b "csrf_"] [] exSteps := by
  refine ⟨?_, ?_, ?_, ?_, ?_, trivial⟩
  · intro k n p hp
    have : p.map (· % 256) = p := by
      rw [List.map_congr_left (g := id)]; simp
      intro a ha; exact Nat.mod_eq_of_lt (hp a ha)
    simp [toyAead, this]
  · intro k n p
    constructor
    · intro x hx
      simp [toyAead] at hx
      rcases hx with ⟨a, _, rfl⟩ | ⟨_, rfl⟩
      · exact Nat.mod_lt _ (by decide)
      · decide
    · simp [toyAead]
  · intro s hs
    simp [exSteps] at hs
    rcases hs with rfl | rfl
    · refine ⟨?_, ?_⟩
      · intro n hn; simp at hn; subst hn; exact ⟨by decide, by decide⟩
      · intro c hc; simp [exCookies] at hc; rcases hc with rfl | rfl <;> (unfold IsBytes; decide)
    · refine ⟨?_, ?_⟩
      · intro n hn; simp at hn
      · intro c hc; simp at hc
  · intro k r p hm; cases hm
  · intro k r p hm hd
    simp only [exSteps, List.mem_cons, Prod.mk.injEq, List.not_mem_nil, or_false] at hm
    rcases hm with ⟨rfl, rfl⟩ | ⟨rfl, rfl⟩ | ⟨rfl, rfl⟩ | ⟨rfl, rfl⟩
    · have h1 : (stdCodec toyAead exKey).dec (encode (List.replicate 12 5 ++ (toyAead.sealWith [] [] (b "hi"))))
          = some (b "hi") := by decide
      rw [h1] at hd; cases hd
      exact ⟨encode (List.replicate 12 5 ++ (toyAead.sealWith [] [] (b "hi"))), by decide, by decide⟩
    · have h1 : (stdCodec toyAead exKey).dec (b "admin") = none := by decide
      rw [h1] at hd; cases hd
    · have h1 : (stdCodec toyAead exKey).dec
          ((encode (List.replicate 12 5 ++ (toyAead.sealWith [] [] (b "hi")))).take 20) = none := by decide
      rw [h1] at hd; cases hd
    · have h1 : (stdCodec toyAead exKey).dec (b "t") = none := by decide
      rw [h1] at hd; cases hd

example : reqViolation stdWire [] [] [(b "a", b "admin")]
    { enum := [(b "a", b "admin")], look := [], bind := [], hdr := b "a=admin" }
    = some "handler-enumerates-other-text" := by decide

end C20
