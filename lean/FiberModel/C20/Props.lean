import FiberModel.C20.Lemmas
import FiberModel.C20.ServeLemmas
import FiberModel.C20.CookieScanLemmas
/-
C20 — property theorems (only). Helper lemmas: Base64Lemmas.lean, Lemmas.lean.

Everything about AES-GCM enters as a HYPOTHESIS (`Aead.Correct`, `Aead.Authentic`, `Aead.Logged`,
`Aead.GcmShape`), or one level up as a hypothesis about the configured Encryptor/Decryptor pair
(`Codec.Correct/Sound/Complete/Format`); `std_*` (Lemmas.lean) derive the latter from the former for
utils.go's functions, `wrap_*` for the custom pair used by the harness. Quantification is over every
key text, every Except list, every request cookie collection (any order, any duplicates), every
response cookie list, every nonce sequence.
-/
namespace C20
open B

/-! ## base64 (proved, not assumed) -/

/-- `DecodeString(EncodeToString(x)) = x` -/
theorem base64_roundtrip (bs : Bytes) (h : IsBytes bs) : decode (encode bs) = some bs :=
  decode_encode bs h

/-- The property's own exception, characterised: two decodable texts denote the very same bytes
    exactly when they agree after dropping `\r`/`\n` and clearing the bits of the last data character
    that the decoder ignores. -/
theorem base64_decode_canonical_or_same {c c' bs bs' : Bytes} (h : decode c = some bs)
    (h' : decode c' = some bs') : bs = bs' ↔ canonText c = canonText c' := by
  rw [canonText_of_decode h, canonText_of_decode h']
  constructor
  · intro e; rw [e]
  · exact encode_injective (decode_bytes h) (decode_bytes h')

/-- a decodable text in canonical form IS the encoding of its bytes: among all texts that decode to
    given bytes exactly one is canonical, the one the server writes -/
theorem base64_canonical_unique {c bs : Bytes} (h : decode c = some bs) (hc : canonText c = c) :
    c = encode bs := by
  rw [← hc]; exact canonText_of_decode h

/-- the decoder only ever produces bytes -/
theorem base64_decode_bytes {c bs : Bytes} (h : decode c = some bs) : IsBytes bs := decode_bytes h

-- non-vacuity / sanity: "A" has the canonical text QQ==; QR==, Q\nQ=\r= decode to the same byte;
-- QQ=, QQ==A, Q=== and the URL alphabet do not decode
example : encode (b "A") = b "QQ==" := by decide
example : decode (b "QQ==") = some (b "A") ∧ decode (b "QR==") = some (b "A") ∧
    decode (b "Q\nQ=\r=\n") = some (b "A") := by decide
example : decode (b "QQ=") = none ∧ decode (b "QQ==A") = none ∧ decode (b "Q===") = none ∧
    decode (b "-_-_") = none ∧ decode (b "QQ= =") = none := by decide
example : canonText (b "Q\nR==") = b "QQ==" := by decide

/-- injectivity of the wire format base64(nonce ‖ ciphertext ‖ tag): equal texts mean equal nonce and
    equal ciphertext -/
theorem wire_injective {n n' c c' : Bytes} (hb : IsBytes (n ++ c)) (hb' : IsBytes (n' ++ c'))
    (hn : n.length = nonceSize) (hn' : n'.length = nonceSize)
    (h : encode (n ++ c) = encode (n' ++ c')) : n = n' ∧ c = c' := by
  have := encode_injective hb hb' h
  exact List.append_inj this (by rw [hn, hn'])

/-! ## request direction -/

/-- ENUMERATION view (`VisitAllCookie`): every value a handler can enumerate under a non-excepted name
    is empty, or the originally issued plaintext of a value the client sent under that very name that
    decodes to the same ciphertext as an issued one. Never any other text. -/
theorem tampered_reaches_handler_empty_or_original {C : Codec} {wc : WireCodec} {iss : Issued}
    (ex : List Bytes) (j : Jar) (hS : C.SoundOn wc iss j) (k v : Bytes)
    (hm : (k, v) ∈ decryptJar C ex j) (hk : isDisabled k ex = false) :
    v = [] ∨ ∃ r c0, (k, r) ∈ j ∧ (c0, v) ∈ iss ∧ sameCipher wc r c0 = true := by
  rw [decryptJar_eq] at hm
  obtain ⟨⟨k', r⟩, hf, he⟩ := List.mem_map.mp hm
  simp only [tr, Prod.mk.injEq] at he
  obtain ⟨rfl, rfl⟩ := he
  have hj := (mem_firsts hf).1
  simp only [openValue, hk]
  cases hd : C.dec r with
  | none => left; rfl
  | some p =>
    right
    obtain ⟨c0, h1, h2⟩ := hS _ r p hj hd
    exact ⟨r, c0, hj, by simpa using h1, h2⟩

/-- LOOKUP view (`c.Cookies(name)`) -/
theorem tampered_reaches_handler_empty_or_original_lookup {C : Codec} {wc : WireCodec} {iss : Issued}
    (ex : List Bytes) (j : Jar) (hS : C.SoundOn wc iss j) (k : Bytes) (hk : isDisabled k ex = false) :
    lookup (decryptJar C ex j) k = [] ∨
    ∃ r c0, (k, r) ∈ j ∧ (c0, lookup (decryptJar C ex j) k) ∈ iss ∧ sameCipher wc r c0 = true := by
  unfold lookup
  cases hp : peek (decryptJar C ex j) k with
  | none => left; rfl
  | some v =>
    have hm : (k, v) ∈ decryptJar C ex j := by
      rw [peek_eq_head] at hp
      exact mem_bindValues.mp (List.mem_of_head? hp)
    simpa using tampered_reaches_handler_empty_or_original ex j hS k v hm hk

/-- BIND view (`Bind().Cookie` into `map[string][]string`, and the last element, which is what
    `map[string]string` receives) -/
theorem tampered_reaches_handler_empty_or_original_bind {C : Codec} {wc : WireCodec} {iss : Issued}
    (ex : List Bytes) (j : Jar) (hS : C.SoundOn wc iss j) (k v : Bytes) (hk : isDisabled k ex = false)
    (hv : v ∈ bindValues (decryptJar C ex j) k ∨
          ((bindValues (decryptJar C ex j) k) ≠ [] ∧ v = bindLast (decryptJar C ex j) k)) :
    v = [] ∨ ∃ r c0, (k, r) ∈ j ∧ (c0, v) ∈ iss ∧ sameCipher wc r c0 = true := by
  have hmem : v ∈ bindValues (decryptJar C ex j) k := by
    rcases hv with h | ⟨hne, rfl⟩
    · exact h
    · unfold bindLast
      cases hl : (bindValues (decryptJar C ex j) k).getLast? with
      | none => rw [List.getLast?_eq_none_iff] at hl; exact absurd hl hne
      | some x => simpa using List.mem_of_getLast? hl
  exact tampered_reaches_handler_empty_or_original ex j hS k v (mem_bindValues.mp hmem) hk

/-- A cookie that is the only one of its name reaches the handler exactly once and with exactly the
    value the property prescribes: the issued plaintext when it denotes an issued ciphertext, empty
    otherwise (round trip + rejection, as one statement). -/
theorem single_cookie_exact {C : Codec} {wc : WireCodec} {iss : Issued} (ex : List Bytes) (j : Jar)
    (hS : C.SoundOn wc iss j) (hC : C.Complete wc iss) (k r : Bytes) (hk : isDisabled k ex = false)
    (h1 : bindValues j k = [r]) :
    bindValues (decryptJar C ex j) k = [(C.dec r).getD []] ∧
    lookup (decryptJar C ex j) k = (C.dec r).getD [] ∧
    expectOne wc iss r ((C.dec r).getD []) = true := by
  refine ⟨?_, ?_, expectOne_openValue r (fun p hd => hS k r p (mem_bindValues.mp (by rw [h1]; simp)) hd) hC⟩
  · rw [bindValues_decryptJar, h1]; simp [openValue, hk]
  · rw [lookup_decryptJar, peek_eq_head, h1]; simp [openValue, hk]

/-- excepted names pass through unchanged (request): the value looked up is the client's, the cookie
    enumerated is the client's first one, and with a single cookie of that name nothing changes -/
theorem except_passthrough_request (C : Codec) (ex : List Bytes) (j : Jar) (k : Bytes)
    (hk : isDisabled k ex = true) :
    lookup (decryptJar C ex j) k = lookup j k ∧
    bindValues (decryptJar C ex j) k = (bindValues j k).take 1 ∧
    ((bindValues j k).length ≤ 1 → bindValues (decryptJar C ex j) k = bindValues j k) := by
  have hid : (openValue C ex k) = id := by funext v; simp [openValue, hk]
  refine ⟨?_, ?_, ?_⟩
  · rw [lookup_decryptJar, hid]; simp [lookup]
  · rw [bindValues_decryptJar, hid]; simp
  · intro hl
    rw [bindValues_decryptJar, hid, List.map_id, List.take_of_length_le hl]

/-! ### the executable oracle accepts the model, clause by clause, for every input -/

theorem enum_clause {C : Codec} {wc : WireCodec} {iss : Issued} (ex : List Bytes) (j : Jar)
    (hS : C.SoundOn wc iss j) : enumOK wc ex iss j (decryptJar C ex j) = true := by
  unfold enumOK
  rw [List.all_eq_true]
  intro e he
  cases hk : isDisabled e.1 ex with
  | true => rfl
  | false =>
    simp only [Bool.false_or]
    rcases tampered_reaches_handler_empty_or_original ex j hS e.1 e.2 he hk with h | ⟨r, c0, h1, h2, h3⟩
    · rw [h]; exact valueOK_nil wc iss j e.1
    · simp only [valueOK, Bool.or_eq_true]
      right
      rw [List.any_eq_true]
      exact ⟨r, mem_bindValues.mpr h1, by simpa using mem_authPlain h2 h3⟩

theorem look_clause {C : Codec} {wc : WireCodec} {iss : Issued} (ex : List Bytes) (j : Jar)
    (hS : C.SoundOn wc iss j) (hC : C.Complete wc iss) (ks : List Bytes) :
    lookOK wc ex iss j (ks.map fun k => (k, lookup (decryptJar C ex j) k)) = true := by
  unfold lookOK
  rw [List.all_eq_true]
  intro e he
  obtain ⟨k, _, rfl⟩ := List.mem_map.mp he
  cases hk : isDisabled k ex with
  | true => rfl
  | false =>
    simp only [Bool.false_or, Bool.and_eq_true]
    constructor
    · rcases tampered_reaches_handler_empty_or_original_lookup ex j hS k hk with h | ⟨r, c0, h1, h2, h3⟩
      · rw [h]; exact valueOK_nil wc iss j k
      · simp only [valueOK, Bool.or_eq_true]
        right
        rw [List.any_eq_true]
        exact ⟨r, mem_bindValues.mpr h1, by simpa using mem_authPlain h2 h3⟩
    · rw [lookup_decryptJar, peek_eq_head]
      cases hb : bindValues j k with
      | nil => simp
      | cons r t =>
        cases t with
        | nil =>
          simpa [openValue, hk] using
            expectOne_openValue r (fun p hd => hS k r p (mem_bindValues.mp (by rw [hb]; simp)) hd) hC
        | cons _ _ => rfl

theorem look_except_clause (C : Codec) (ex : List Bytes) (j : Jar) (ks : List Bytes) :
    lookExceptOK ex j (ks.map fun k => (k, lookup (decryptJar C ex j) k)) = true := by
  unfold lookExceptOK
  rw [List.all_eq_true]
  intro e he
  obtain ⟨k, _, rfl⟩ := List.mem_map.mp he
  cases hk : isDisabled k ex with
  | false => rfl
  | true =>
    simp only [Bool.not_true, Bool.false_or]
    rw [(except_passthrough_request C ex j k hk).1]; simp

theorem bind_clause {C : Codec} {wc : WireCodec} {iss : Issued} (ex : List Bytes) (j : Jar)
    (hS : C.SoundOn wc iss j) :
    bindOK wc ex iss j ((distinctKeys (decryptJar C ex j)).map fun k => (k, bindValues (decryptJar C ex j) k)) = true := by
  unfold bindOK
  rw [List.all_eq_true]
  intro e he
  obtain ⟨k, _, rfl⟩ := List.mem_map.mp he
  rw [List.all_eq_true]
  intro v hv
  cases hk : isDisabled k ex with
  | true =>
    simp only [if_true]
    rw [(except_passthrough_request C ex j k hk).2.1] at hv
    simpa using List.mem_of_mem_take hv
  | false =>
    simp only [Bool.false_eq_true, if_false]
    rcases tampered_reaches_handler_empty_or_original ex j hS k v (mem_bindValues.mp hv) hk with h | ⟨r, c0, h1, h2, h3⟩
    · rw [h]; exact valueOK_nil wc iss j k
    · simp only [valueOK, Bool.or_eq_true]
      right
      rw [List.any_eq_true]
      exact ⟨r, mem_bindValues.mpr h1, by simpa using mem_authPlain h2 h3⟩

theorem once_clause {C : Codec} {wc : WireCodec} {iss : Issued} (ex : List Bytes) (j : Jar)
    (hS : C.SoundOn wc iss j) (hC : C.Complete wc iss) : onceOK wc ex iss j (decryptJar C ex j) = true := by
  unfold onceOK
  rw [List.all_eq_true]
  intro k _
  cases hk : isDisabled k ex with
  | true => rfl
  | false =>
    simp only [Bool.false_or]
    cases hb : bindValues j k with
    | nil => rfl
    | cons r t =>
      cases t with
      | cons _ _ => rfl
      | nil =>
        have := single_cookie_exact ex j hS hC k r hk hb
        simp only [this.1]
        exact this.2.2

theorem except_clause (C : Codec) (ex : List Bytes) (j : Jar) : exceptOK ex j (decryptJar C ex j) = true := by
  unfold exceptOK
  rw [List.all_eq_true]
  intro k hk
  have hk' : isDisabled k ex = true := by simpa [isDisabled] using hk
  obtain ⟨_, h2, h3⟩ := except_passthrough_request C ex j k hk'
  simp only [h2, Bool.and_eq_true, Bool.or_eq_true, Bool.not_eq_true', decide_eq_false_iff_not,
    beq_iff_eq, List.isSublist_iff_sublist]
  refine ⟨⟨List.take_sublist 1 _, ?_⟩, ?_⟩
  · cases bindValues j k <;> simp
  · by_cases hl : (bindValues j k).length ≤ 1
    · right; rw [List.take_of_length_le hl]
    · left; exact hl

theorem names_clause (C : Codec) (ex : List Bytes) (j : Jar) : namesOK j (decryptJar C ex j) = true := by
  simp [namesOK, distinctKeys_decryptJar]

/-- REQUEST DIRECTION, full strength: for every Encryptor/Decryptor pair that is authentic and
    complete with respect to the issued log, every Except list, every request cookie collection
    (duplicates included) and every set of names looked up, no clause of the executable property
    oracle is violated by what the handler sees — in any of its views. -/
theorem request_meets_spec {C : Codec} {wc : WireCodec} {iss : Issued} (ex : List Bytes) (j : Jar)
    (hS : C.SoundOn wc iss j) (hC : C.Complete wc iss) (ks : List Bytes) :
    reqViolation wc ex iss j (modelViews C ex j ks) = none := by
  unfold reqViolation modelViews
  simp only [enum_clause ex j hS, look_clause ex j hS hC ks, bind_clause ex j hS, once_clause ex j hS hC,
    except_clause C ex j, look_except_clause C ex j ks, names_clause C ex j, hdrOK]
  simp

/-! ## response direction -/

/-- CLIENT SEES ONLY CIPHERTEXT, structurally: whatever the handler set, every Set-Cookie the client
    receives for a non-excepted name is `name=` + base64(nonce ‖ AES-GCM(key, nonce, value)) +
    the attributes — the value enters only through the AEAD; excepted cookies are byte-identical. -/
theorem client_sees_only_ciphertext (A : Aead) (key : Bytes) (ex : List Bytes) (ns : List Bytes)
    (cs : List RCookie) (ws : List WCookie) (hns : ∀ n ∈ ns, goodNonce n)
    (h : encryptJar (stdCodec A key) ex ns cs = some ws) :
    Paired (fun c w =>
      (isDisabled c.key ex = true → w.raw = c.raw) ∧
      (isDisabled c.key ex = false → ∃ kd n, decode key = some kd ∧ validKeyLen kd.length = true ∧
        goodNonce n ∧ w.value = encode (n ++ A.sealWith kd n c.pvalue) ∧
        w.raw = render c.pkey w.value c.tail)) cs ws := by
  have hp := encryptJar_rel (stdCodec A key) ex cs ns ws hns h
  clear h hns
  induction hp with
  | nil => exact Paired.nil
  | cons hr _ ih =>
    refine Paired.cons ⟨fun hd => (hr.2.2.1 hd).1, fun hd => ?_⟩ ih
    obtain ⟨⟨n, hn, he⟩, hraw⟩ := hr.2.2.2 hd
    obtain ⟨kd, hk, hv, hval⟩ := encryptCookie_some he
    exact ⟨kd, n, hk, hv, hn, hval, hraw⟩

/-- RESPONSE DIRECTION, full strength: for every correct Encryptor/Decryptor pair with the wire
    format, every Except list, every list of response cookies (duplicate names included), every nonce
    sequence: if the middleware returns (no panic), the Set-Cookie list satisfies the oracle —
    same count, same names and attributes, excepted cookies byte-identical, every other value a
    wire-format ciphertext that the log maps to the handler's value. -/
theorem response_meets_spec {C : Codec} {wc : WireCodec} (hCor : C.Correct) (hF : C.Format wc)
    (ex : List Bytes) (ns : List Bytes) (cs : List RCookie) (ws : List WCookie)
    (hns : ∀ n ∈ ns, goodNonce n) (hb : ∀ c ∈ cs, IsBytes c.pvalue)
    (h : encryptJar C ex ns cs = some ws) :
    respAllOK wc ex (issuedBy ex cs ws) cs ws = true := by
  have hp := encryptJar_rel C ex cs ns ws hns h
  refine resp_clause hF ex _ ?_ cs ws hp (fun e he => he)
  intro e he
  obtain ⟨n, hn, hen⟩ := issuedBy_enc hp e he
  obtain ⟨c, hc, hpv⟩ := issuedBy_plain hp e he
  exact hCor n e.2 e.1 hn (by rw [hpv]; exact hb c hc) hen

/-- fresh nonces stay visible as distinct nonces on the wire: if `rand.Reader` never repeats a nonce,
    no two issued wire texts share one (the oracle's `noncesOK`) -/
theorem nonces_distinct {A : Aead} {key : Bytes} (hG : A.GcmShape) (ex : List Bytes) (ns : List Bytes)
    (cs : List RCookie) (ws : List WCookie) (hns : ∀ n ∈ ns, goodNonce n) (hnd : ns.Nodup)
    (h : encryptJar (stdCodec A key) ex ns cs = some ws) :
    noncesOK stdWire (issuedBy ex cs ws) = true := by
  unfold noncesOK
  rw [decide_eq_true_iff]
  have := issued_nonces hG ex cs ns ws hns h
  simp only [stdWire]
  rw [this]
  exact hnd.sublist (List.take_sublist _ _)

/-- excepted names pass through unchanged (response): same position, byte-identical Set-Cookie -/
theorem except_passthrough_response (C : Codec) (ex : List Bytes) (ns : List Bytes) (cs : List RCookie)
    (ws : List WCookie) (hns : ∀ n ∈ ns, goodNonce n) (h : encryptJar C ex ns cs = some ws) :
    Paired (fun c w => isDisabled c.key ex = true → w.raw = c.raw ∧ w.value = c.pvalue) cs ws := by
  have hp := encryptJar_rel C ex cs ns ws hns h
  clear h hns
  induction hp with
  | nil => exact Paired.nil
  | cons hr _ ih => exact Paired.cons hr.2.2.1 ih

/-! ## round trip -/

/-- ROUND TRIP: cookies set by a handler (distinct names, byte values) are encrypted, the client sends
    back exactly what it received, and the next handler's request holds every cookie with its ORIGINAL
    value, in order, once — for every correct Encryptor/Decryptor pair, every Except list. -/
theorem roundtrip {C : Codec} (hC : C.Correct) (ex : List Bytes) (ns : List Bytes) (cs : List RCookie)
    (ws : List WCookie) (hns : ∀ n ∈ ns, goodNonce n) (hb : ∀ c ∈ cs, IsBytes c.pvalue)
    (hkey : ∀ c ∈ cs, isDisabled c.pkey ex = isDisabled c.key ex)
    (hnd : (cs.map (·.pkey)).Nodup)
    (h : encryptJar C ex ns cs = some ws) :
    decryptJar C ex (echo ws) = cs.map fun c => (c.pkey, c.pvalue) := by
  have hp := encryptJar_rel C ex cs ns ws hns h
  have hkeys : (echo ws).map (·.1) = cs.map (·.pkey) := by
    clear hns hb hkey hnd h
    induction hp with
    | nil => rfl
    | cons hr _ ih => simp only [echo, List.map_cons] at ih ⊢; rw [ih, hr.1]
  rw [decryptJar_eq, firsts_of_nodup _ [] (by simp) (by rw [hkeys]; exact hnd)]
  exact echo_eq hC hb hkey hp

/-! ## the same, from the AES-GCM hypotheses (default Encryptor/Decryptor and the custom pair) -/

/-- request direction for utils.go's DecryptCookie under a valid key: from AEAD integrity
    (`Authentic`) and a truthful log (`Logged`) -/
theorem request_meets_spec_aesgcm {A : Aead} {key kd : Bytes} {L : SealLog} (hk : decode key = some kd)
    (hv : validKeyLen kd.length = true) (hA : A.Authentic kd L) (hL : A.Logged kd L)
    (ex : List Bytes) (j : Jar) (ks : List Bytes) :
    reqViolation stdWire ex (wireIssued L) j (modelViews (stdCodec A key) ex j ks) = none :=
  request_meets_spec ex j ((std_sound hk hA).on j) (std_complete hk hv hL) ks

/-- … and for the custom Encryptor/Decryptor pair of the harness -/
theorem request_meets_spec_custom {A : Aead} {key kd : Bytes} {L : SealLog} (hk : decode key = some kd)
    (hv : validKeyLen kd.length = true) (hA : A.Authentic kd L) (hL : A.Logged kd L)
    (ex : List Bytes) (j : Jar) (ks : List Bytes) :
    reqViolation wrapWire ex (wrapIssued (wireIssued L)) j
      (modelViews (wrapCodec (stdCodec A key)) ex j ks) = none :=
  request_meets_spec ex j ((wrap_sound (std_sound hk hA)).on j) (wrap_complete (std_complete hk hv hL)) ks

/-- … and with a key text that is not valid: nothing was ever issued, nothing but "" is seen -/
theorem request_meets_spec_invalid_key (A : Aead) (key : Bytes)
    (hbad : ∀ kd, decode key = some kd → validKeyLen kd.length = false)
    (ex : List Bytes) (j : Jar) (ks : List Bytes) :
    reqViolation stdWire ex [] j (modelViews (stdCodec A key) ex j ks) = none := by
  refine request_meets_spec ex j ?_ ?_ ks
  · intro k r p _ hd; rw [(std_invalid_key A key hbad).1 r] at hd; cases hd
  · refine ⟨?_, ?_⟩
    · intro c0 p r hm; cases hm
    · intro c0 p hm; cases hm

/-- round trip for utils.go's pair, from AEAD correctness -/
theorem roundtrip_aesgcm {A : Aead} (hA : A.Correct) (hG : A.GcmShape) (key : Bytes) (ex : List Bytes)
    (ns : List Bytes) (cs : List RCookie) (ws : List WCookie) (hns : ∀ n ∈ ns, goodNonce n)
    (hb : ∀ c ∈ cs, IsBytes c.pvalue) (hkey : ∀ c ∈ cs, isDisabled c.pkey ex = isDisabled c.key ex)
    (hnd : (cs.map (·.pkey)).Nodup) (h : encryptJar (stdCodec A key) ex ns cs = some ws) :
    decryptJar (stdCodec A key) ex (echo ws) = cs.map fun c => (c.pkey, c.pvalue) :=
  roundtrip (std_correct hA hG) ex ns cs ws hns hb hkey hnd h

/-- response direction for utils.go's pair: no clause of the response oracle is violated (incl.
    distinct nonces on the wire when the drawn nonces are distinct) -/
theorem response_meets_spec_aesgcm {A : Aead} (hA : A.Correct) (hG : A.GcmShape) (key : Bytes)
    (ex : List Bytes) (ns : List Bytes) (cs : List RCookie) (ws : List WCookie)
    (hns : ∀ n ∈ ns, goodNonce n) (hnd : ns.Nodup) (hb : ∀ c ∈ cs, IsBytes c.pvalue)
    (h : encryptJar (stdCodec A key) ex ns cs = some ws) :
    respViolation stdWire ex true (issuedBy ex cs ws) cs (some ws) = none := by
  unfold respViolation
  simp [response_meets_spec (std_correct hA hG) (std_format hG) ex ns cs ws hns hb h,
    nonces_distinct hG ex ns cs ws hns hnd h]

/-- … and for the custom pair -/
theorem response_meets_spec_custom {A : Aead} (hA : A.Correct) (hG : A.GcmShape) (key : Bytes)
    (ex : List Bytes) (ns : List Bytes) (cs : List RCookie) (ws : List WCookie)
    (hns : ∀ n ∈ ns, goodNonce n) (hb : ∀ c ∈ cs, IsBytes c.pvalue)
    (h : encryptJar (wrapCodec (stdCodec A key)) ex ns cs = some ws) :
    respAllOK wrapWire ex (issuedBy ex cs ws) cs ws = true :=
  response_meets_spec (wrap_correct (std_correct hA hG)) (wrap_format (std_format hG)) ex ns cs ws hns hb h

/-- what fasthttp's cookie scanner (client side, or `fasthttp.Cookie.Parse`) reads off the Set-Cookie
    texts the middleware wrote is exactly the (name, value) pairs of `echo` -/
theorem scan_of_written {A : Aead} {key : Bytes} {ex : List Bytes} {cs : List RCookie} {ws : List WCookie}
    (hp : Paired (WRel (stdCodec A key) ex) cs ws)
    (hnames : ∀ c ∈ cs, c.pkey ≠ [] ∧ ∀ x ∈ c.pkey, plainByte x ∧ x ≠ 61)
    (htail : ∀ c ∈ cs, c.tail = [] ∨ ∃ r, c.tail = 59 :: r)
    (hparse : ∀ c ∈ cs, isDisabled c.key ex = true → scanSetCookie c.raw = (c.pkey, c.pvalue)) :
    ws.map (fun w => scanSetCookie w.raw) = echo ws := by
  induction hp with
  | nil => rfl
  | @cons c w cs ws hr _ ih =>
    simp only [echo, List.map_cons] at ih ⊢
    rw [ih (fun x hx => hnames x (List.mem_cons_of_mem _ hx)) (fun x hx => htail x (List.mem_cons_of_mem _ hx))
      (fun x hx => hparse x (List.mem_cons_of_mem _ hx))]
    congr 1
    cases hd : isDisabled c.key ex with
    | true =>
      obtain ⟨h1, h2⟩ := hr.2.2.1 hd
      rw [h1, hparse c (by simp) hd, hr.1, h2]
    | false =>
      obtain ⟨⟨n, _, he⟩, hraw⟩ := hr.2.2.2 hd
      obtain ⟨kd, _, _, hval⟩ := encryptCookie_some he
      rw [hraw, hr.1]
      have hn := hnames c (by simp)
      exact scan_render c.pkey w.value c.tail hn.1 hn.2 (by rw [hval]; exact encode_plain _) (htail c (by simp))

/-- ROUND TRIP ON THE TEXT LEVEL (utils.go's pair): the handler sets cookies (distinct plain names,
    byte values, attributes rendered by fasthttp), the client reads the Set-Cookie TEXTS with the cookie
    scanner and sends the pairs back: the next handler's request holds every cookie once with its
    original value. -/
theorem roundtrip_text {A : Aead} (hA : A.Correct) (hG : A.GcmShape) (key : Bytes) (ex : List Bytes)
    (ns : List Bytes) (cs : List RCookie) (ws : List WCookie) (hns : ∀ n ∈ ns, goodNonce n)
    (hb : ∀ c ∈ cs, IsBytes c.pvalue) (hkey : ∀ c ∈ cs, isDisabled c.pkey ex = isDisabled c.key ex)
    (hnd : (cs.map (·.pkey)).Nodup)
    (hnames : ∀ c ∈ cs, c.pkey ≠ [] ∧ ∀ x ∈ c.pkey, plainByte x ∧ x ≠ 61)
    (htail : ∀ c ∈ cs, c.tail = [] ∨ ∃ r, c.tail = 59 :: r)
    (hparse : ∀ c ∈ cs, isDisabled c.key ex = true → scanSetCookie c.raw = (c.pkey, c.pvalue))
    (h : encryptJar (stdCodec A key) ex ns cs = some ws) :
    decryptJar (stdCodec A key) ex (ws.map fun w => scanSetCookie w.raw) =
      cs.map fun c => (c.pkey, c.pvalue) := by
  rw [scan_of_written (encryptJar_rel _ ex cs ns ws hns h) hnames htail hparse]
  exact roundtrip_aesgcm hA hG key ex ns cs ws hns hb hkey hnd h

/-! ## `Config.Next`, the whole handler, its surroundings -/

/-- REQUEST DIRECTION WITH `Config.Next`: when `cfg.Next(c)` says skip every view shows the client's
    cookies exactly as they arrived (nothing is decrypted — no hypothesis about the codec is needed);
    otherwise `request_meets_spec`. -/
theorem request_meets_spec_next {C : Codec} {wc : WireCodec} {iss : Issued} (skip : Bool) (ex : List Bytes)
    (j : Jar) (hS : skip = false → C.SoundOn wc iss j) (hC : skip = false → C.Complete wc iss)
    (ks : List Bytes) : reqViolationAt skip wc ex iss j (mwViews skip C ex j ks) = none := by
  cases skip with
  | true => simp [reqViolationAt, mwViews, skip_request_ok]
  | false => simpa [reqViolationAt, mwViews] using request_meets_spec ex j (hS rfl) (hC rfl) ks

/-- a skipped exchange is not touched, in either direction: the handlers see the raw collection, the
    response cookies keep stored key and text, and nothing is issued -/
theorem next_skip_passthrough (m : Mw) (x : Exchange) (h : x.skip = true) :
    (serve m x).views = some (rawViews x.jar x.ks) ∧ (serve m x).mid = x.cookies.map keep ∧
    passThrough x.cookies (serve m x).mid = true := by
  simp [serve, h, passThrough_keep]

/-- RESPONSE DIRECTION WITH `Config.Next`: when `cfg.Next(c)` says skip the response cookies leave as the
    handlers set them (stored key and text; nothing encrypted, nothing can panic); otherwise
    `response_meets_spec`. -/
theorem response_meets_spec_next {C : Codec} {wc : WireCodec} (hCor : C.Correct) (hF : C.Format wc)
    (skip : Bool) (ex : List Bytes) (ns : List Bytes) (cs : List RCookie) (ws : List WCookie)
    (hns : ∀ n ∈ ns, goodNonce n) (hb : ∀ c ∈ cs, IsBytes c.pvalue)
    (h : (if skip then some (cs.map keep) else encryptJar C ex ns cs) = some ws) :
    if skip then passThrough cs ws = true else respAllOK wc ex (issuedBy ex cs ws) cs ws = true := by
  cases skip with
  | true =>
    simp only [if_true, Option.some.injEq] at h ⊢
    subst h; exact passThrough_keep cs
  | false =>
    simp only [Bool.false_eq_true, if_false] at h ⊢
    exact response_meets_spec hCor hF ex ns cs ws hns hb h

/-- HOW THE HANDLERS BEHIND END DOES NOT MATTER for what they saw and for what is in the response where
    the middleware is left: `return nil`, `return err` (the error handler answers) and `panic` (a recover
    middleware in front answers, or nobody) give the same views and the same, encrypted, cookies — the
    response loop is deferred. Only whether anything is sent depends on it. -/
theorem handler_outcome_does_not_matter (m : Mw) (x : Exchange) (f : Flow) :
    (serve m { x with flow := f }).views = (serve m x).views ∧
    (serve m { x with flow := f }).mid = (serve m x).mid := by
  unfold serve
  cases x.skip <;> cases reqPanics m.decPanics m.except x.jar <;> simp

/-- WHEN THE ENCRYPTOR FAILS (invalid key, custom Encryptor error or panic, `rand.Reader` error) the
    response loop stops with a panic; what is in the response at that moment — and what a recover
    middleware in front would send — is the finished work for a prefix of the handler's cookies:
    excepted ones verbatim, every other one re-rendered around an encrypted value. No cookie is left
    in clear; the cookie it failed on and everything after it is gone. -/
theorem stopped_response_is_encrypted_prefix (C : Codec) (ex : List Bytes) (ns : List Bytes)
    (cs : List RCookie) (hns : ∀ n ∈ ns, goodNonce n) :
    Paired (WRel C ex) (cs.take (encryptRun C ex ns cs).1.length) (encryptRun C ex ns cs).1 ∧
    ((encryptRun C ex ns cs).2 = true → (encryptRun C ex ns cs).1.length = cs.length) ∧
    ((encryptRun C ex ns cs).2 = false → ∃ c, cs[(encryptRun C ex ns cs).1.length]? = some c ∧
      isDisabled c.key ex = false ∧ (ns.length < encCount ex cs ∨ ∃ n ∈ ns, C.enc n c.pvalue = none)) :=
  ⟨encryptRun_rel C ex cs ns hns, encryptRun_complete_length C ex cs ns, encryptRun_stop C ex cs ns⟩

/-- …and it is the same loop: `encryptJar` returns `ws` exactly when the run completes with `ws` -/
theorem response_loop_completes_iff (C : Codec) (ex : List Bytes) (ns : List Bytes) (cs : List RCookie)
    (ws : List WCookie) : encryptJar C ex ns cs = some ws ↔ encryptRun C ex ns cs = (ws, true) :=
  encryptJar_eq_some_iff C ex ns cs ws

/-- COOKIES WRITTEN BY CODE THAT IS NOT BEHIND THE MIDDLEWARE (middleware registered in front of it,
    after its `c.Next()`; the ErrorHandler) are not encrypted — they are written after the response
    loop ran. What the middleware produced is never altered by them: every cookie on the wire is one
    the middleware left, or one of those late writes, whole (a late `c.Cookie` under the stored key of
    one of the middleware's cookies REPLACES it). -/
theorem late_writes_keep_or_replace (ws : List WCookie) (ops : List Late) (w : WCookie)
    (h : w ∈ applyLate ws ops) : w ∈ ws ∨ ∃ l ∈ ops, l.w = w := mem_applyLate ops ws w h

theorem no_late_writes (ws : List WCookie) : applyLate ws [] = ws := rfl

theorem wire_clause (mid : List WCookie) (late : List Late) :
    ((applyLate mid late).all fun w => mid.contains w || late.any fun l => l.w == w) = true := by
  rw [List.all_eq_true]
  intro w hw
  rcases mem_applyLate late mid w hw with h | ⟨l, hl, he⟩
  · simp [h]
  · simp only [Bool.or_eq_true, List.any_eq_true]
    right; exact ⟨l, hl, by simp [he]⟩

/-- THE WHOLE HANDLER, full strength: for every configured pair (incl. a Decryptor that panics and an
    Encryptor that fails), `Config.Next` decision, request collection, response cookies (those set in
    front of the middleware and those set behind it), way the handlers behind end (`nil`, error, panic),
    recover middleware or not, and late writes: the oracle finds no violated clause in what `serve`
    produces — views, the response where the middleware is left, the wire. Hypotheses: unforgeability on
    the request and completeness of the log (only when not skipped), wire format, a truthful log that
    contains what this exchange issues, good nonces and enough of them, and `Told` being true of the
    configured pair. -/
theorem serve_meets_spec {m : Mw} {wc : WireCodec} {t : Told} {issB issA : Issued} (x : Exchange)
    (hS : x.skip = false → m.codec.SoundOn wc issB x.jar)
    (hC : x.skip = false → m.codec.Complete wc issB)
    (hF : m.codec.Format wc)
    (hfun : ∀ e ∈ issA, m.codec.dec e.1 = some e.2)
    (hsub : x.skip = false →
      ∀ e ∈ issuedBy m.except x.cookies (encryptRun m.codec m.except x.nonces x.cookies).1, e ∈ issA)
    (hns : ∀ n ∈ x.nonces, goodNonce n) (hlen : encCount m.except x.cookies ≤ x.nonces.length)
    (hT : ∀ n v, m.codec.enc n v = none → t.keyValid = false ∨ t.encFails v = true)
    (hD : ∀ s, m.decPanics s = true → t.decPanics s = true) :
    exchangeViolation wc m.except t issB issA x (serve m x) = none := by
  unfold exchangeViolation serve
  cases hskip : x.skip with
  | true =>
    simp only [if_true, reqViolationAt, skip_request_ok, passThrough_keep]
    by_cases hp : (x.flow = Flow.panic && !x.recover) = true
    · simp only [hp, if_true]
      simp only [Bool.and_eq_true, decide_eq_true_eq, Bool.not_eq_true'] at hp
      simp [hp.1, hp.2]
    · simp only [hp, Bool.false_eq_true, if_false, wire_clause, if_true]
  | false =>
    simp only [Bool.false_eq_true, if_false]
    cases hrp : reqPanics m.decPanics m.except x.jar with
    | true =>
      simp only [if_true, Bool.not_false, Bool.true_and, Option.isNone_none, passThrough_keep]
      have hany : (x.jar.any fun e => !isDisabled e.1 m.except && t.decPanics e.2) = true := by
        unfold reqPanics at hrp
        rw [List.any_eq_true] at hrp ⊢
        obtain ⟨e, he, hb⟩ := hrp
        simp only [Bool.and_eq_true] at hb ⊢
        exact ⟨e, (mem_firsts he).1, hb.1, hD _ hb.2⟩
      simp only [hany, if_true]
      cases hr : x.recover with
      | true => simp only [if_true, wire_clause]
      | false => simp
    | false =>
      simp only [Bool.false_eq_true, if_false, reqViolationAt,
        request_meets_spec m.except x.jar (hS hskip) (hC hskip) x.ks, Option.isNone_some]
      have hle := encryptRun_length_le m.codec m.except x.cookies x.nonces
      have hp := encryptRun_rel m.codec m.except x.cookies x.nonces hns
      have hresp : respAllOK wc m.except issA
          (x.cookies.take (encryptRun m.codec m.except x.nonces x.cookies).1.length)
          (encryptRun m.codec m.except x.nonces x.cookies).1 = true :=
        resp_clause hF m.except issA hfun _ _ hp (by rw [issuedBy_take]; exact hsub hskip)
      have hnlt : ¬ x.cookies.length < (encryptRun m.codec m.except x.nonces x.cookies).1.length := by omega
      cases hok : (encryptRun m.codec m.except x.nonces x.cookies).2 with
      | true =>
        have hlen' := encryptRun_complete_length m.codec m.except x.cookies x.nonces hok
        have hnlt' : ¬ (encryptRun m.codec m.except x.nonces x.cookies).1.length < x.cookies.length := by omega
        by_cases hpn : (x.flow = Flow.panic && !x.recover) = true
        · simp only [Bool.and_eq_true, decide_eq_true_eq, Bool.not_eq_true'] at hpn
          simp [hpn.1, hpn.2]
        · have : (decide (x.flow = Flow.panic) && !x.recover) = false := by simpa using hpn
          simp only [Bool.not_true, Bool.or_false, this, Bool.false_eq_true, if_false, hnlt, hresp, hnlt',
            decide_false, Bool.false_and, wire_clause, if_true]
      | false =>
        obtain ⟨c, hget, _, hwhy⟩ := encryptRun_stop m.codec m.except x.cookies x.nonces hok
        have hlt : (encryptRun m.codec m.except x.nonces x.cookies).1.length < x.cookies.length := by
          have := (List.getElem?_eq_some_iff.mp hget).1; exact this
        have hexc : stopExcused t x.cookies (encryptRun m.codec m.except x.nonces x.cookies).1.length = true := by
          unfold stopExcused
          rw [hget]
          rcases hwhy with h | ⟨n, _, h⟩
          · omega
          · rcases hT n c.pvalue h with h | h
            · simp [h]
            · simp [h]
        cases hr : x.recover with
        | true =>
          simp only [Bool.not_false, Bool.or_true, Bool.not_true, Bool.and_false, Bool.false_eq_true, if_false,
            hnlt, hresp, hlt, decide_true, hexc, wire_clause, if_true]
        | false => simp [hlt, hexc]

/-- the oracle is told the truth about utils.go's pair under a valid key: nothing fails, nothing panics -/
def stdTold : Told := { keyValid := true, encFails := fun _ => false, decPanics := fun _ => false }

/-- THE WHOLE HANDLER FROM THE AES-GCM HYPOTHESES (utils.go's pair, valid key): with AEAD correctness,
    GCM shape, integrity w.r.t. the seal log `L` and a truthful log, for every `Config.Next` decision,
    request, response cookies (byte values), way the handlers end, recover or not, late writes: no clause
    is violated, the response being judged against the log extended by what this exchange issues. -/
theorem serve_meets_spec_aesgcm {A : Aead} {key kd : Bytes} {L : SealLog} (hk : decode key = some kd)
    (hv : validKeyLen kd.length = true) (hA : A.Correct) (hG : A.GcmShape) (hAu : A.Authentic kd L)
    (hL : A.Logged kd L) (ex : List Bytes) (x : Exchange) (hns : ∀ n ∈ x.nonces, goodNonce n)
    (hlen : encCount ex x.cookies ≤ x.nonces.length) (hb : ∀ c ∈ x.cookies, IsBytes c.pvalue) :
    exchangeViolation stdWire ex stdTold (wireIssued L)
      (wireIssued L ++ issuedBy ex x.cookies (encryptRun (stdCodec A key) ex x.nonces x.cookies).1) x
      (serve (stdMw A key ex) x) = none := by
  have hp := encryptRun_rel (stdCodec A key) ex x.cookies x.nonces hns
  have hcomp := std_complete hk hv hL
  refine serve_meets_spec (m := stdMw A key ex) x (fun _ => (std_sound hk hAu).on x.jar) (fun _ => hcomp)
    (std_format hG) ?_ (fun _ e he => List.mem_append.mpr (Or.inr he)) hns hlen ?_ (fun s hs => by cases hs)
  · intro e he
    rcases List.mem_append.mp he with h | h
    · exact hcomp.1 e.1 e.2 e.1 h (hcomp.2 e.1 e.2 h)
    · rw [← issuedBy_take] at h
      obtain ⟨n, hn, hen⟩ := issuedBy_enc hp e h
      obtain ⟨c, hc, hpv⟩ := issuedBy_plain hp e h
      exact std_correct hA hG n e.2 e.1 hn (by rw [hpv]; exact hb c (List.mem_of_mem_take hc)) hen
  · intro n v hnone
    exact absurd ⟨kd, hk, hv⟩ ((std_enc_none_iff A key n v).mp hnone)

/-- … AND FOR EVERY OTHER KEY TEXT THE CONSTRUCTOR ACCEPTS (it does not decode, or to a wrong length):
    nothing was ever issued; every non-excepted request cookie reaches the handler empty; a response
    with a non-excepted cookie panics with nothing in clear left of it; no clause is violated. Together
    with `serve_meets_spec_aesgcm`: the key handling is total. -/
theorem serve_meets_spec_invalid_key (A : Aead) (key : Bytes) (hbad : ¬ KeyValid key) (ex : List Bytes)
    (x : Exchange) (hns : ∀ n ∈ x.nonces, goodNonce n) (hlen : encCount ex x.cookies ≤ x.nonces.length) :
    exchangeViolation stdWire ex { stdTold with keyValid := false } [] [] x (serve (stdMw A key ex) x) = none := by
  have hbad' : ∀ kd, decode key = some kd → validKeyLen kd.length = false := by
    intro kd h
    cases hv : validKeyLen kd.length with
    | false => rfl
    | true => exact absurd ⟨kd, h, hv⟩ hbad
  obtain ⟨hdec, henc⟩ := std_invalid_key A key hbad'
  have hp := encryptRun_rel (stdCodec A key) ex x.cookies x.nonces hns
  refine serve_meets_spec (m := stdMw A key ex) x ?_ ?_ ?_ (fun e he => by cases he) ?_ hns hlen
    (fun _ _ _ => Or.inl rfl) (fun s hs => by cases hs)
  · intro _ k r p _ hd; rw [show (stdMw A key ex).codec.dec r = none from hdec r] at hd; cases hd
  · intro _
    refine ⟨?_, ?_⟩
    · intro c0 p r hm; cases hm
    · intro c0 p hm; cases hm
  · intro n p e _ he; rw [show (stdMw A key ex).codec.enc n p = none from henc n p] at he; cases he
  · intro _ e he
    rw [← issuedBy_take] at he
    obtain ⟨n, _, hen⟩ := issuedBy_enc hp e he
    rw [henc n e.2] at hen; cases hen

/-- the faulty custom pair of the harness (Encryptor errors / panics on some values, Decryptor panics on
    some texts) inherits correctness and wire format from the pair it wraps: failing more often cannot
    break either -/
theorem faulty_correct {C : Codec} (h : (wrapCodec C).Correct) : (faultyCodec C).Correct := by
  intro n p e hn hp he
  simp only [faultyCodec] at he ⊢
  split at he
  · cases he
  · exact h n p e hn hp he

theorem faulty_format {C : Codec} {wc : WireCodec} (h : (wrapCodec C).Format wc) : (faultyCodec C).Format wc := by
  intro n p e hn he
  simp only [faultyCodec] at he
  split at he
  · cases he
  · exact h n p e hn he

/-- THE WHOLE HANDLER WITH A CUSTOM PAIR THAT ERRORS AND PANICS (valid key, AES-GCM hypotheses): a
    Decryptor panic keeps every handler from running, an Encryptor error or panic stops the response
    loop with nothing in clear; no clause is violated. -/
theorem serve_meets_spec_faulty {A : Aead} {key kd : Bytes} {L : SealLog} (hk : decode key = some kd)
    (hv : validKeyLen kd.length = true) (hA : A.Correct) (hG : A.GcmShape) (hAu : A.Authentic kd L)
    (hL : A.Logged kd L) (ex : List Bytes) (x : Exchange) (hns : ∀ n ∈ x.nonces, goodNonce n)
    (hlen : encCount ex x.cookies ≤ x.nonces.length) (hb : ∀ c ∈ x.cookies, IsBytes c.pvalue) :
    let m : Mw := { codec := faultyCodec (stdCodec A key), decPanics := faultyDecPanics, except := ex }
    exchangeViolation wrapWire ex { keyValid := true, encFails := faultyEnc, decPanics := faultyDecPanics }
      (wrapIssued (wireIssued L))
      (wrapIssued (wireIssued L) ++ issuedBy ex x.cookies (encryptRun m.codec ex x.nonces x.cookies).1) x
      (serve m x) = none := by
  intro m
  have hp := encryptRun_rel m.codec ex x.cookies x.nonces hns
  have hcomp : m.codec.Complete wrapWire (wrapIssued (wireIssued L)) := wrap_complete (std_complete hk hv hL)
  have hcor : m.codec.Correct := faulty_correct (wrap_correct (std_correct hA hG))
  refine serve_meets_spec (m := m) x (fun _ => (wrap_sound (std_sound hk hAu)).on x.jar) (fun _ => hcomp)
    (faulty_format (wrap_format (std_format hG))) ?_ (fun _ e he => List.mem_append.mpr (Or.inr he)) hns hlen ?_
    (fun s hs => hs)
  · intro e he
    rcases List.mem_append.mp he with h | h
    · exact hcomp.1 e.1 e.2 e.1 h (hcomp.2 e.1 e.2 h)
    · rw [← issuedBy_take] at h
      obtain ⟨n, hn, hen⟩ := issuedBy_enc hp e h
      obtain ⟨c, hc, hpv⟩ := issuedBy_plain hp e h
      exact hcor n e.2 e.1 hn (by rw [hpv]; exact hb c (List.mem_of_mem_take hc)) hen
  · intro n v hnone
    right
    show faultyEnc v = true
    cases hf : faultyEnc v with
    | true => rfl
    | false =>
      have : m.codec.enc n v = (wrapCodec (stdCodec A key)).enc n v := by
        show (faultyCodec (stdCodec A key)).enc n v = _
        simp [faultyCodec, hf]
      rw [this] at hnone
      simp only [wrapCodec, Option.map_eq_none_iff] at hnone
      exact absurd ⟨kd, hk, hv⟩ ((std_enc_none_iff A key n v).mp hnone)

/-! ## whole histories -/

/-- unforgeability along a history: at every step that is not skipped, whatever the request carries
    that the Decryptor accepts denotes a ciphertext issued BEFORE that step -/
def Unforgeable (C : Codec) (wc : WireCodec) (ex : List Bytes) : Issued → List Step → Prop
  | _, [] => True
  | log, s :: rest =>
    (s.skip = false → C.SoundOn wc log s.jar) ∧ Unforgeable C wc ex (nextLog C ex log s) rest

/-- nonces are 12 real bytes, cookie values are byte strings -/
def GoodSteps (steps : List Step) : Prop :=
  ∀ s ∈ steps, (∀ n ∈ s.nonces, goodNonce n) ∧ (∀ c ∈ s.cookies, IsBytes c.pvalue)

/-- EVERY HISTORY: for a correct Encryptor/Decryptor pair with the wire format, whose Decryptor
    depends on a text only through the ciphertext it denotes, and any sequence of exchanges — some of
    them skipped by `Config.Next`, some with a response loop stopped by a failing Encryptor — in which
    the client cannot forge (each request that is not skipped carries nothing decryptable that was not
    issued before): no step violates any clause of the oracle — requests judged against the log issued
    so far, responses against the log including them. The log is the one the middleware itself
    produces (nothing for a skipped step; the encrypted prefix for a stopped loop). -/
theorem history_meets_spec {C : Codec} {wc : WireCodec} (hCor : C.Correct) (hF : C.Format wc)
    (hR : C.Respects wc) (ex : List Bytes) :
    ∀ (steps : List Step) (log : Issued), C.Wrote log → GoodSteps steps →
      Unforgeable C wc ex log steps → historyViolation C wc ex log steps = none := by
  intro steps
  induction steps with
  | nil => intro _ _ _ _; rfl
  | cons s rest ih =>
    intro log hW hG hU
    obtain ⟨hS, hU'⟩ := hU
    have hGs := hG s (by simp)
    have hGr : GoodSteps rest := fun x hx => hG x (List.mem_cons_of_mem _ hx)
    unfold historyViolation
    rw [request_meets_spec_next s.skip ex s.jar hS (fun _ => complete_of_wrote hCor hF hR hW) s.ks]
    simp only
    cases hsk : s.skip with
    | true =>
      have hlog : nextLog C ex log s = log := by simp [nextLog, hsk]
      rw [hlog] at hU'
      simp only [if_true, stepMid, hsk, passThrough_keep, Bool.not_true, Bool.false_eq_true, if_false]
      exact ih log hW hGr hU'
    | false =>
      have hp := encryptRun_rel C ex s.cookies s.nonces hGs.1
      have hlog : nextLog C ex log s = log ++ issuedBy ex s.cookies (encryptRun C ex s.nonces s.cookies).1 := by
        simp [nextLog, hsk]
      have hWn : C.Wrote (issuedBy ex s.cookies (encryptRun C ex s.nonces s.cookies).1) := by
        rw [← issuedBy_take]
        exact wrote_issuedBy hp (fun c hc => hGs.2 c (List.mem_of_mem_take hc))
      have hW' : C.Wrote (nextLog C ex log s) := by rw [hlog]; exact wrote_append hW hWn
      have hresp : respAllOK wc ex (nextLog C ex log s)
          (s.cookies.take (encryptRun C ex s.nonces s.cookies).1.length)
          (encryptRun C ex s.nonces s.cookies).1 = true :=
        resp_clause hF ex _ (wrote_functional hCor hW') _ _ hp
          (fun e hm => by rw [hlog]; rw [issuedBy_take] at hm; exact List.mem_append.mpr (Or.inr hm))
      simp only [Bool.false_eq_true, if_false, stepMid, hsk, hresp, Bool.not_true]
      exact ih _ hW' hGr hU'

/-! ### no state across requests -/

/-- what the handlers see, exchange by exchange, along a history -/
def historyViews (C : Codec) (ex : List Bytes) (steps : List Step) : List Views :=
  steps.map fun s => mwViews s.skip C ex s.jar s.ks

/-- THE REQUEST-SIDE VIEW IS A FUNCTION OF (configuration, that request's cookies) ONLY: whatever was
    served before — in particular the genuine value of a cookie, decrypted successfully — what a handler
    sees for a request is the same as on a fresh middleware. (The issued log enters the SPEC, never the
    middleware: it keeps nothing between requests.) -/
theorem request_view_stateless (C : Codec) (ex : List Bytes) (before₁ before₂ : List Step) (s : Step) :
    (historyViews C ex (before₁ ++ [s])).getLast? = some (mwViews s.skip C ex s.jar s.ks) ∧
    (historyViews C ex (before₁ ++ [s])).getLast? = (historyViews C ex (before₂ ++ [s])).getLast? := by
  simp [historyViews]

/-- the same for the whole handler: the views depend on the `Next` decision, the request's cookies and the
    names looked up — not on the response side, the surroundings, or anything earlier -/
theorem serve_views_depend_only_on_request (m : Mw) (x y : Exchange) (h1 : x.skip = y.skip)
    (h2 : x.jar = y.jar) (h3 : x.ks = y.ks) : (serve m x).views = (serve m y).views := by
  unfold serve
  rw [h1, h2, h3]
  cases y.skip <;> cases reqPanics m.decPanics m.except y.jar <;> simp

/-- consequence: a value the Decryptor refuses is refused after ANY history — also right after the genuine
    value it was derived from (same name, same nonce prefix, altered behind) was accepted -/
theorem altered_after_genuine_is_refused (C : Codec) (ex : List Bytes) (before : List Step) (k r : Bytes)
    (ks : List Bytes) (hk : isDisabled k ex = false) (hd : C.dec r = none) :
    ((historyViews C ex (before ++ [{ jar := [(k, r)], ks := ks, cookies := [], nonces := [] }])).getLast?.map
      (·.enum)) = some [(k, [])] := by
  rw [(request_view_stateless C ex before [] _).1]
  simp [mwViews, modelViews, decryptJar, rebuild, setArg, openValue, hk, hd]

/-- the same for utils.go's pair, from the AES-GCM hypotheses -/
theorem history_meets_spec_aesgcm {A : Aead} (hA : A.Correct) (hG : A.GcmShape) (key : Bytes)
    (ex : List Bytes) (steps : List Step) (hgood : GoodSteps steps)
    (hU : Unforgeable (stdCodec A key) stdWire ex [] steps) :
    historyViolation (stdCodec A key) stdWire ex [] steps = none :=
  history_meets_spec (std_correct hA hG) (std_format hG) (std_respects A key) ex steps []
    (fun e he => by cases he) hgood hU

/-! ## configuration -/

/-- `configDefault` validates only emptiness; a key text that does not decode or has a wrong length
    makes the middleware fail CLOSED: every non-excepted request cookie reaches the handler empty, and
    a response with a non-excepted cookie is not sent at all (panic). -/
theorem invalid_key_fails_closed (A : Aead) (key : Bytes) (ex : List Bytes)
    (hbad : ∀ kd, decode key = some kd → validKeyLen kd.length = false) :
    (∀ j k v, (k, v) ∈ decryptJar (stdCodec A key) ex j → isDisabled k ex = false → v = []) ∧
    (∀ ns cs, (∃ c ∈ cs, isDisabled c.key ex = false) → encryptJar (stdCodec A key) ex ns cs = none) := by
  obtain ⟨hdec, henc⟩ := std_invalid_key A key hbad
  constructor
  · intro j k v hm hk
    rw [decryptJar_eq] at hm
    obtain ⟨⟨k', r⟩, _, he⟩ := List.mem_map.mp hm
    simp only [tr, Prod.mk.injEq] at he
    obtain ⟨rfl, rfl⟩ := he
    simp [openValue, hk, hdec r]
  · intro ns cs
    induction cs generalizing ns with
    | nil => rintro ⟨c, hc, _⟩; cases hc
    | cons c r ih =>
      rintro ⟨c', hc', hd'⟩
      cases hd : isDisabled c.key ex with
      | false =>
        cases ns with
        | nil => simp [encryptJar, hd]
        | cons n ns' => simp [encryptJar, hd, henc n c.pvalue]
      | true =>
        have : ∃ c ∈ r, isDisabled c.key ex = false := by
          rcases List.mem_cons.mp hc' with rfl | h
          · rw [hd] at hd'; cases hd'
          · exact ⟨c', h, hd'⟩
        simp [encryptJar, hd, ih ns this]

/-- which key texts the default codec accepts: exactly those that base64-decode (newlines and padding
    bits tolerated) to 16, 24 or 32 bytes -/
theorem key_accepted_iff (A : Aead) (key n p : Bytes) :
    (∃ e, (stdCodec A key).enc n p = some e) ↔ ∃ kd, decode key = some kd ∧ validKeyLen kd.length = true := by
  constructor
  · rintro ⟨e, he⟩
    obtain ⟨kd, h1, h2, _⟩ := encryptCookie_some he
    exact ⟨kd, h1, h2⟩
  · rintro ⟨kd, h1, h2⟩
    exact ⟨encode (n ++ A.sealWith kd n p), by show encryptCookie A n p key = _; simp [encryptCookie, h1, h2]⟩

/-! ### every key text: what the constructor accepts, what happens per request -/

/-- `configDefault` accepts exactly the non-empty key texts (it looks at nothing else) -/
theorem ctor_accepts_iff (key : Bytes) : ctorPanics key = false ↔ key ≠ [] := by
  cases key <;> simp [ctorPanics]

/-- the request direction cannot panic with utils.go's pair, whatever the key text: a handler behind
    the middleware always runs -/
theorem std_request_never_panics (A : Aead) (key : Bytes) (ex : List Bytes) (x : Exchange) :
    (serve (stdMw A key ex) x).views.isSome = true := by
  unfold serve
  cases x.skip <;> simp [stdMw, reqPanics]

/-- WHEN THE RESPONSE LOOP PANICS with utils.go's pair (given enough randomness): exactly when there is
    a cookie to encrypt and the key text is not valid -/
theorem response_panics_iff_invalid_key (A : Aead) (key : Bytes) (ex : List Bytes) (ns : List Bytes)
    (cs : List RCookie) (hlen : encCount ex cs ≤ ns.length) :
    encryptJar (stdCodec A key) ex ns cs = none ↔
      (∃ c ∈ cs, isDisabled c.key ex = false) ∧ ¬ KeyValid key := by
  rw [encryptJar_eq_none_iff]
  constructor
  · intro h
    obtain ⟨c, hget, hd, hwhy⟩ := encryptRun_stop _ ex cs ns h
    refine ⟨⟨c, List.mem_of_getElem? hget, hd⟩, ?_⟩
    rcases hwhy with h | ⟨n, _, h⟩
    · omega
    · exact (std_enc_none_iff A key n c.pvalue).mp h
  · rintro ⟨hc, hk⟩
    exact encryptRun_fails_of _ ex cs (fun n p => (std_enc_none_iff A key n p).mpr hk) hc ns

/-- a valid key never panics at request time (request loop: never; response loop: given randomness) -/
theorem valid_key_never_panics (A : Aead) (key : Bytes) (hk : KeyValid key) (ex : List Bytes)
    (ns : List Bytes) (cs : List RCookie) (hlen : encCount ex cs ≤ ns.length) :
    ∃ ws, encryptJar (stdCodec A key) ex ns cs = some ws := by
  cases h : encryptJar (stdCodec A key) ex ns cs with
  | some ws => exact ⟨ws, rfl⟩
  | none => exact absurd hk ((response_panics_iff_invalid_key A key ex ns cs hlen).mp h).2

/-- "NO PANIC AT REQUEST TIME FOR ANY KEY THE CONSTRUCTOR ACCEPTED" — the exact extent to which this
    holds of the code: a key text is panic-free at request time (every Except list, every response,
    enough randomness) iff it is VALID. The constructor accepts more (`ctor_accepts_iff`); for the
    rest the first response that carries a non-excepted cookie panics
    (`accepted_key_can_panic_at_request_time`). -/
theorem request_time_panic_free_iff_key_valid (A : Aead) (key : Bytes) :
    (∀ ex ns cs, encCount ex cs ≤ ns.length → encryptJar (stdCodec A key) ex ns cs ≠ none) ↔
      KeyValid key := by
  constructor
  · intro h
    refine Classical.byContradiction fun hk => ?_
    have hl : encCount [] [(⟨[], [], [], [], []⟩ : RCookie)] ≤ [([] : Bytes)].length := by decide
    exact h [] [[]] [⟨[], [], [], [], []⟩] hl
      ((response_panics_iff_invalid_key A key [] [[]] _ hl).mpr
        ⟨⟨⟨[], [], [], [], []⟩, by simp, by simp [isDisabled]⟩, hk⟩)
  · intro hk ex ns cs hlen h
    obtain ⟨ws, hws⟩ := valid_key_never_panics A key hk ex ns cs hlen
    rw [h] at hws; cases hws

/-- the witness: the key text `abc` is accepted by the constructor, every non-excepted request cookie
    then reaches the handler empty, and the first response with a non-excepted cookie panics -/
theorem accepted_key_can_panic_at_request_time :
    ctorPanics (b "abc") = false ∧ ¬ KeyValid (b "abc") ∧
    ∀ (A : Aead) (ns : List Bytes) (c : RCookie),
      encryptJar (stdCodec A (b "abc")) [] ns [c] = none := by
  have hbad : ∀ kd, decode (b "abc") = some kd → validKeyLen kd.length = false := by
    intro kd h
    have : decode (b "abc") = none := by decide
    rw [this] at h; cases h
  refine ⟨by decide, ?_, ?_⟩
  · rintro ⟨kd, h1, h2⟩; rw [hbad kd h1] at h2; cases h2
  · intro A ns c
    exact (invalid_key_fails_closed A (b "abc") [] hbad).2 ns [c] ⟨c, by simp, by simp [isDisabled]⟩

/-- WHEN A PANIC REACHES THE SERVER with utils.go's pair: there is no recover middleware in front, and
    either a handler behind panicked itself, or the exchange is not skipped, has a cookie to encrypt and
    the key text is not valid. (Nothing else: not the request loop, not `Config.Next`.) -/
theorem server_sees_panic_iff (A : Aead) (key : Bytes) (ex : List Bytes) (x : Exchange)
    (hlen : encCount ex x.cookies ≤ x.nonces.length) :
    (serve (stdMw A key ex) x).wire = none ↔
      x.recover = false ∧ (x.flow = Flow.panic ∨
        (x.skip = false ∧ (∃ c ∈ x.cookies, isDisabled c.key ex = false) ∧ ¬ KeyValid key)) := by
  have hrun : (encryptRun (stdCodec A key) ex x.nonces x.cookies).2 = false ↔
      (∃ c ∈ x.cookies, isDisabled c.key ex = false) ∧ ¬ KeyValid key := by
    rw [← encryptJar_eq_none_iff]; exact response_panics_iff_invalid_key A key ex x.nonces x.cookies hlen
  unfold serve
  cases hs : x.skip with
  | true =>
    cases hr : x.recover <;> cases hf : x.flow <;> simp
  | false =>
    rw [← hrun]
    simp only [stdMw, reqPanics, Bool.and_false, List.any_eq_true, Bool.false_eq_true, and_false,
      exists_false, if_false, true_and]
    cases hr : x.recover <;> cases hf : x.flow <;> simp

/-! ## the defect that was fixed, as theorems about the old loops -/

/-- The request loop as it was (writing back with `SetCookie` while visiting) violates the property:
    with `a=x; a=y` and a Decryptor that rejects everything, the handler still enumerates the raw
    client text `y`. (`tampered_reaches_handler_empty_or_original` is false for `decryptJarOld`.) -/
theorem old_request_loop_leaks_raw_duplicate :
    ¬ (∀ (C : Codec) (ex : List Bytes) (j : Jar) (k v : Bytes), (k, v) ∈ decryptJarOld C ex j →
        isDisabled k ex = false → v = [] ∨ ∃ r, (k, r) ∈ j ∧ C.dec r = some v) := by
  intro h
  have := h ⟨fun _ _ => none, fun _ => none⟩ [] [(b "a", b "x"), (b "a", b "y")] (b "a") (b "y")
    (by decide) (by decide)
  rcases this with h | ⟨r, _, h⟩
  · exact absurd h (by decide)
  · cases h

/-- The response loop as it was leaves the second of two same-named cookies in the clear and encrypts
    the first one twice (toy parser: `name=value`, toy Encryptor: prefix byte 0). -/
theorem old_response_loop_leaks_duplicate :
    encryptJarOld ⟨fun _ v => some (0 :: v), fun _ => none⟩ []
      (fun raw => (raw.takeWhile (· != 61), (raw.dropWhile (· != 61)).drop 1, []))
      [[1], [2]] [(b "a", b "a=one"), (b "a", b "a=two")]
      = some [(b "a", b "a=" ++ [0, 0] ++ b "one"), (b "a", b "a=two")] := by decide

/-- The fix is behaviour-preserving where there was no defect: for a request whose cookie names are
    pairwise distinct the old in-place loop and the current rebuild produce the same collection. -/
theorem fix_preserves_requests_without_duplicates (C : Codec) (ex : List Bytes) (j : Jar)
    (hnd : (j.map (·.1)).Nodup) : decryptJarOld C ex j = decryptJar C ex j :=
  decryptJarOld_eq_of_nodup C ex j hnd

/-- …while the current loops on the same inputs: nothing raw, nothing in the clear -/
example : decryptJar ⟨fun _ _ => none, fun _ => none⟩ [] [(b "a", b "x"), (b "a", b "y")] = [(b "a", [])] := by
  decide

/-! ## non-vacuity: the hypotheses are satisfiable -/

/-- toy AEAD: ciphertext = plaintext (as bytes) followed by a 16-byte tag of zeros -/
def toyAead : Aead :=
  { sealWith := fun _ _ p => p.map (· % 256) ++ List.replicate 16 0,
    openWith := fun _ _ c => if 16 ≤ c.length then some (c.take (c.length - 16)) else none }

example : toyAead.Correct ∧ toyAead.GcmShape := by
  constructor
  · intro k n p hp
    have : p.map (· % 256) = p := by
      rw [List.map_congr_left (g := id)]; simp
      intro a ha; exact Nat.mod_eq_of_lt (hp a ha)
    simp [toyAead, this]
  · intro k n p
    constructor
    · intro x hx
      simp [toyAead] at hx
      rcases hx with ⟨a, _, rfl⟩ | ⟨_, rfl⟩
      · exact Nat.mod_lt _ (by decide)
      · decide
    · simp [toyAead]

/-- AEAD given by a finite log: opens exactly what the log holds -/
def logAead (L : SealLog) : Aead :=
  { sealWith := fun _ _ _ => [],
    openWith := fun _ n c => (L.find? fun e => e.1 == n && e.2.1 == c).map (·.2.2) }

example : let L : SealLog := [(List.replicate 12 7, List.replicate 17 9, b "v")]
    (logAead L).Authentic [] L ∧ (logAead L).Logged [] L := by
  intro L
  constructor
  · intro n c p h
    simp [logAead, L, List.find?_cons] at h
    split at h <;> simp_all
    rename_i hh
    simp [L, ← h, hh.1, hh.2]
  · intro n c p h
    simp [L] at h
    obtain ⟨rfl, rfl, rfl⟩ := h
    refine ⟨by decide, by decide, by decide, by decide⟩

/-! ### concrete instances of the main theorems' hypotheses and conclusions -/

def exKey : Bytes := encode (List.replicate 16 1)
def exCookies : List RCookie :=
  [⟨b "a", b "a=hi; path=/", b "a", b "hi", b "; path=/"⟩, ⟨b "csrf_", b "csrf_=t", b "csrf_", b "t", []⟩]

-- round trip: set → only ciphertext for `a`, `csrf_` untouched → echoed → originals
example : (encryptJar (stdCodec toyAead exKey) [b "csrf_"] [List.replicate 12 5] exCookies).map
    (fun ws => (ws.map (·.raw) |>.drop 1, decryptJar (stdCodec toyAead exKey) [b "csrf_"] (echo ws)))
    = some ([b "csrf_=t"], [(b "a", b "hi"), (b "csrf_", b "t")]) := by decide

-- the same on the text level: the Set-Cookie texts, scanned like a client would, decrypt to the originals
example : (encryptJar (stdCodec toyAead exKey) [b "csrf_"] [List.replicate 12 5] exCookies).map
    (fun ws => decryptJar (stdCodec toyAead exKey) [b "csrf_"] (ws.map fun w => scanSetCookie w.raw))
    = some [(b "a", b "hi"), (b "csrf_", b "t")] := by decide

-- the scanner on a request header: split on `;`, first `=`, blanks and one pair of quotes removed,
-- nameless values kept, empty pairs dropped
example : parseCookieHeader (b "a=1; b = \"q\" ;; =x; y; c=d=e") =
    [(b "a", b "1"), (b "b", b "q"), ([], b "x"), ([], b "y"), (b "c", b "d=e")] := by decide

def exL : SealLog := [(List.replicate 12 7, List.replicate 17 9, b "v")]
def exWire : Bytes := encode (List.replicate 12 7 ++ List.replicate 17 9)

-- tampering: the issued text, the same text with a newline inside, an extended text, a duplicate
-- name with attacker text, an excepted name
example : decryptJar (stdCodec (logAead exL) exKey) [b "x"]
    [(b "a", exWire), (b "b", 10 :: exWire), (b "c", exWire ++ [65]), (b "a", b "admin"), (b "x", b "raw")]
    = [(b "a", b "v"), (b "b", b "v"), (b "c", []), (b "x", b "raw")] := by decide

-- a concrete history (toy AEAD): set two cookies; send them back with a duplicate carrying attacker
-- text, a truncated value and an excepted cookie; the oracle finds nothing — and does find the
-- violation when the handler is shown the attacker's text
def exSteps : List Step :=
  [{ jar := [], ks := [], cookies := exCookies, nonces := [List.replicate 12 5] },
   { jar := [(b "a", encode (List.replicate 12 5 ++ (toyAead.sealWith [] [] (b "hi")))), (b "a", b "admin"),
             (b "b", (encode (List.replicate 12 5 ++ (toyAead.sealWith [] [] (b "hi")))).take 20),
             (b "csrf_", b "t")],
     ks := [b "a", b "b", b "csrf_", b "zz"], cookies := [], nonces := [] }]

example : historyViolation (stdCodec toyAead exKey) stdWire [b "csrf_"] [] exSteps = none := by decide

-- the hypotheses of `history_meets_spec_aesgcm` hold together for ONE AEAD on that history
example : toyAead.Correct ∧ toyAead.GcmShape ∧ GoodSteps exSteps ∧
    Unforgeable (stdCodec toyAead exKey) stdWire [b "csrf_"] [] exSteps := by
  refine ⟨?_, ?_, ?_, ?_, ?_, trivial⟩
  · intro k n p hp
    have : p.map (· % 256) = p := by
      rw [List.map_congr_left (g := id)]; simp
      intro a ha; exact Nat.mod_eq_of_lt (hp a ha)
    simp [toyAead, this]
  · intro k n p
    constructor
    · intro x hx
      simp [toyAead] at hx
      rcases hx with ⟨a, _, rfl⟩ | ⟨_, rfl⟩
      · exact Nat.mod_lt _ (by decide)
      · decide
    · simp [toyAead]
  · intro s hs
    simp [exSteps] at hs
    rcases hs with rfl | rfl
    · refine ⟨?_, ?_⟩
      · intro n hn; simp at hn; subst hn; exact ⟨by decide, by decide⟩
      · intro c hc; simp [exCookies] at hc; rcases hc with rfl | rfl <;> (unfold IsBytes; decide)
    · refine ⟨?_, ?_⟩
      · intro n hn; simp at hn
      · intro c hc; simp at hc
  · intro _ k r p hm; cases hm
  · intro _ k r p hm hd
    simp only [List.mem_cons, Prod.mk.injEq, List.not_mem_nil, or_false] at hm
    rcases hm with ⟨rfl, rfl⟩ | ⟨rfl, rfl⟩ | ⟨rfl, rfl⟩ | ⟨rfl, rfl⟩
    · have h1 : (stdCodec toyAead exKey).dec (encode (List.replicate 12 5 ++ (toyAead.sealWith [] [] (b "hi"))))
          = some (b "hi") := by decide
      rw [h1] at hd; cases hd
      exact ⟨encode (List.replicate 12 5 ++ (toyAead.sealWith [] [] (b "hi"))), by decide, by decide⟩
    · have h1 : (stdCodec toyAead exKey).dec (b "admin") = none := by decide
      rw [h1] at hd; cases hd
    · have h1 : (stdCodec toyAead exKey).dec
          ((encode (List.replicate 12 5 ++ (toyAead.sealWith [] [] (b "hi")))).take 20) = none := by decide
      rw [h1] at hd; cases hd
    · have h1 : (stdCodec toyAead exKey).dec (b "t") = none := by decide
      rw [h1] at hd; cases hd

example : reqViolation stdWire [] [] [(b "a", b "admin")]
    { enum := [(b "a", b "admin")], look := [], bind := [], hdr := b "a=admin" }
    = some "handler-enumerates-other-text" := by decide

/-! ### `Config.Next`, failing code, late writes: concrete instances -/

def exMw : Mw := stdMw toyAead exKey [b "csrf_"]

def exchg (skip : Bool) (jar : Jar) (cookies : List RCookie) (flow : Flow) (nonces : List Bytes)
    (recover : Bool) (late : List Late) : Exchange :=
  { skip := skip, jar := jar, ks := jar.map (·.1), opre := [], cookies := cookies, flow := flow,
    nonces := nonces, recover := recover, late := late }

-- a skipped exchange: the handler sees the client's raw text, the response cookies leave in clear
example : let x := exchg true [(b "a", b "tampered")] exCookies Flow.ok [] false []
    (serve exMw x).views = some (rawViews [(b "a", b "tampered")] [b "a"]) ∧
    ((serve exMw x).wire.map fun ws => ws.map (·.raw)) = some [b "a=hi; path=/", b "csrf_=t"] := by decide

-- the same exchange not skipped: the handler sees "", the client ciphertext
example : let x := exchg false [(b "a", b "tampered")] exCookies Flow.ok [List.replicate 12 5] false []
    ((serve exMw x).views.map (·.enum)) = some [(b "a", [])] ∧
    ((serve exMw x).wire.map fun ws => ws.map (·.raw)) =
      some [b "a=BQUFBQUFBQUFBQUFaGkAAAAAAAAAAAAAAAAAAAAA; path=/", b "csrf_=t"] := by decide

-- a handler behind the middleware panics, a recover middleware in front answers: still ciphertext;
-- the error handler's own cookie (a late write) is not encrypted and replaces nothing
def exEh : Late := ⟨true, ⟨b "eh", b "eh=1", b "eh", b "1", []⟩⟩

example : let x := exchg false [] exCookies Flow.panic [List.replicate 12 5] true [exEh]
    ((serve exMw x).wire.map fun ws => ws.map (·.raw)) =
      some [b "a=BQUFBQUFBQUFBQUFaGkAAAAAAAAAAAAAAAAAAAAA; path=/", b "csrf_=t", b "eh=1"] := by decide

-- …without it the panic reaches the server
example : (serve exMw (exchg false [] exCookies Flow.panic [List.replicate 12 5] false [])).wire = none := by
  decide

-- an invalid key (accepted by the constructor): the excepted cookie in front of the first cookie to
-- encrypt is all that is left when the loop panics; nothing in clear
example : (encryptRun (stdCodec toyAead (b "abc")) [b "csrf_"] [List.replicate 12 5]
      (exCookies.reverse ++ exCookies)).1.map (·.raw) = [b "csrf_=t"] ∧
    (encryptRun (stdCodec toyAead (b "abc")) [b "csrf_"] [List.replicate 12 5]
      (exCookies.reverse ++ exCookies)).2 = false := by decide

-- a Decryptor that panics: no handler runs; a faulty Encryptor stops the loop at its cookie
def exFaulty : Mw :=
  { codec := faultyCodec (stdCodec toyAead exKey), decPanics := faultyDecPanics, except := [] }

example : let x := exchg false [(b "a", b "PANIC1")] [] Flow.ok [] false []
    (serve exFaulty x).views = none ∧ (serve exFaulty x).wire = none := by decide

example : (encryptRun exFaulty.codec [] [List.replicate 12 5, List.replicate 12 6]
      [⟨b "a", b "a=ok", b "a", b "ok", []⟩, ⟨b "b", b "b=ERRx", b "b", b "ERRx", []⟩,
       ⟨b "c", b "c=secret", b "c", b "secret", []⟩]).1.map (·.pkey) = [b "a"] := by decide

-- the oracle on observations: plaintext left where the middleware is left is found, a skipped
-- request that was decrypted anyway is found, a late write that garbles a cookie is found
def exX : Exchange := exchg false [] exCookies Flow.panic [List.replicate 12 5] true []
def exTold : Told := { keyValid := true, encFails := fun _ => false, decPanics := fun _ => false }

example : exchangeViolation stdWire [b "csrf_"] exTold [] [] exX
    { views := some (rawViews [] []), mid := exCookies.map keep, wire := some (exCookies.map keep) }
    = some "client-sees-non-ciphertext-or-changed-cookie" := by decide

example : exchangeViolation stdWire [] exTold [] [] (exchg true [(b "a", b "x")] [] Flow.ok [] false [])
    { views := some (rawViews [(b "a", [])] [b "a"]), mid := [], wire := some [] }
    = some "next-skip-request-changed" := by decide

example : exchangeViolation stdWire [] exTold [] [] (exchg true [] [] Flow.ok [] false [])
    { views := some (rawViews [] []), mid := [], wire := some [⟨b "z", b "z=1", b "z", b "1", []⟩] }
    = some "late-write-damaged-cookie" := by decide

-- `serve_meets_spec` on the exchange above with the log it issues itself
example : exchangeViolation stdWire [b "csrf_"] exTold []
    (issuedBy [b "csrf_"] exX.cookies (serve exMw exX).mid) exX (serve exMw exX) = none := by decide

-- a history with a skipped step in the middle: the cookie set in clear during the skipped step is
-- rejected ("") when it comes back in a step that is not skipped
def exSteps2 : List Step :=
  [{ skip := true, jar := [(b "a", b "raw")], ks := [b "a"], cookies := exCookies, nonces := [] },
   { jar := [(b "a", b "hi")], ks := [b "a"], cookies := exCookies, nonces := [List.replicate 12 5] }]

example : historyViolation (stdCodec toyAead exKey) stdWire [b "csrf_"] [] exSteps2 = none := by decide

-- the genuine value first, then the same text with a character changed behind the nonce: refused
example : (historyViews (stdCodec (logAead exL) exKey) []
    [{ jar := [(b "a", exWire)], ks := [], cookies := [], nonces := [] },
     { jar := [(b "a", exWire.take 20 ++ [66] ++ exWire.drop 21)], ks := [], cookies := [], nonces := [] }]).map (·.enum)
    = [[(b "a", b "v")], [(b "a", [])]] := by decide

end C20
