import FiberModel.C02.Written
/-
C02 — locality of `Route.match` with respect to the 3-byte route-tree key (used by C01's
`bucket_filter_eq`): a route whose first segment is a constant of ≥ 3 bytes can only match
detection paths that carry the same first 3 bytes.

The statement holds for every branch of `Route.match` (root, star, parameters via `getMatch`,
use-prefix, literal) **except** when the constant has exactly 3 bytes and `HasOptionalSlash` is set
(`/a/:x?`, `/a/*`, strict `/a/`): then the optional-slash shortcut of `getMatch` accepts the 2-byte
path `/a`. That is the precise decidable side condition; the witness is `match_locality_witness`.
-/
namespace C02
open B

/-- One step of `getMatch` on a leading constant segment: which detection paths survive. -/
theorem getMatch_const_head {chk : Constraint → Bytes → Bool} {s0 : Seg} {rest : List Seg}
    {det path : Bytes} {pc : Bool} {vs : List Bytes}
    (h : getMatch chk (s0 :: rest) det path pc = some vs) (hc : s0.isParam = false) :
    (s0.hasOptionalSlash = true ∧ s0.length > 0 ∧ det.length = s0.length - 1 ∧ det = s0.const.take (s0.length - 1)) ∨
    (s0.length ≤ det.length ∧ det.take s0.length = s0.const) := by
  unfold getMatch at h
  simp only [hc, Bool.not_false, if_true] at h
  split at h
  · rename_i hb
    simp only [Bool.and_eq_true, decide_eq_true_eq, beq_iff_eq] at hb
    exact Or.inl ⟨hb.1.1.1, hb.1.1.2, hb.1.2, hb.2⟩
  · split at h
    · rename_i hb
      simp only [Bool.and_eq_true, decide_eq_true_eq, beq_iff_eq] at hb
      exact Or.inr hb
    · cases h

/-- Locality for the parameter matcher. -/
theorem getMatch_locality {chk : Constraint → Bytes → Bool} {s0 : Seg} {rest : List Seg}
    {det path : Bytes} {pc : Bool} {vs : List Bytes}
    (h : getMatch chk (s0 :: rest) det path pc = some vs) (hc : s0.isParam = false)
    (hl : s0.length = s0.const.length) (h3 : s0.const.length ≥ 3)
    (hno : ¬ (s0.const.length = 3 ∧ s0.hasOptionalSlash = true)) :
    det.length ≥ 3 ∧ det.take 3 = s0.const.take 3 := by
  rcases getMatch_const_head h hc with ⟨ho, _, hlen, hd⟩ | ⟨hle, hd⟩
  · have h4 : s0.const.length ≥ 4 := by
      rcases Nat.lt_or_ge 3 s0.const.length with h | h
      · exact h
      · exact absurd ⟨Nat.le_antisymm h h3, ho⟩ hno
    refine ⟨by omega, ?_⟩
    rw [hd, List.take_take, hl]
    congr 1; omega
  · refine ⟨by omega, ?_⟩
    rw [← hd, List.take_take]
    congr 1; omega

/-- Locality for the model of `Route.match`, for any route whose `path` starts with the first
    constant (true for every registered route, see `match_locality`). -/
theorem routeMatch_locality {chk : Constraint → Bytes → Bool} {r : Route} {s0 : Seg} {rest : List Seg}
    {det path : Bytes} {vs : List Bytes}
    (hm : routeMatch chk r det path = some vs)
    (hs : r.parser.segs = s0 :: rest) (hc : s0.isParam = false)
    (hl : s0.length = s0.const.length) (hpre : s0.const <+: r.path)
    (hroot : r.root = true → r.path = [SLASH]) (hstar : r.star = true → r.path = [SLASH, STAR])
    (h3 : s0.const.length ≥ 3)
    (hno : ¬ (s0.const.length = 3 ∧ s0.hasOptionalSlash = true)) :
    det.length ≥ 3 ∧ det.take 3 = s0.const.take 3 := by
  have hplen : s0.const.length ≤ r.path.length := hpre.length_le
  have hroot' : r.root = false := by
    cases hr : r.root
    · rfl
    · have := hroot hr; rw [this] at hplen; simp at hplen; omega
  have hstar' : r.star = false := by
    cases hr : r.star
    · rfl
    · have := hstar hr; rw [this] at hplen; simp at hplen; omega
  have hpath3 : r.path.take 3 = s0.const.take 3 := by
    obtain ⟨t, ht⟩ := hpre
    rw [← ht, List.take_append_of_le_length h3]
  unfold routeMatch at hm
  simp only [hroot', hstar', Bool.false_and, Bool.false_eq_true, if_false] at hm
  split at hm
  · rw [hs] at hm
    exact getMatch_locality hm hc hl h3 hno
  · split at hm
    · split at hm
      · rename_i hb
        simp only [Bool.and_eq_true, decide_eq_true_eq, beq_iff_eq] at hb
        refine ⟨by omega, ?_⟩
        rw [← hpath3, ← hb.2, List.take_take]
        congr 1; omega
      · cases hm
    · split at hm
      · rename_i hb
        simp only [beq_iff_eq] at hb
        rw [hb]
        exact ⟨by omega, hpath3⟩
      · cases hm

/-- **The lemma C01 needs.** For every route produced by `register` (any configuration, `Use` or
    method route): if the first segment of the routed pattern is a constant with ≥ 3 bytes — and not
    a 3-byte constant with an optional slash — then `Route.match` succeeding on a detection path
    implies that path has ≥ 3 bytes and its first 3 bytes are the constant's first 3 bytes
    (= the route's tree key). -/
theorem match_locality {chk : Constraint → Bytes → Bool} {cfg : Config} {use : Bool} {pattern : Bytes}
    {r : Route} (hr : register cfg use pattern = some r)
    {s0 : Seg} {rest : List Seg} (hs : r.parser.segs = s0 :: rest) (hc : s0.isParam = false)
    (h3 : s0.const.length ≥ 3) (hno : ¬ (s0.const.length = 3 ∧ s0.hasOptionalSlash = true))
    {det path : Bytes} {vs : List Bytes} (hm : routeMatch chk r det path = some vs) :
    det.length ≥ 3 ∧ det.take 3 = s0.const.take 3 := by
  unfold register at hr
  simp only at hr
  split at hr
  · rename_i pr pp hpr hpp
    cases hr
    simp only at hs
    have hok := parseRouteW_segsOK hpp s0 (by rw [hs]; exact List.mem_cons_self ..) hc
    have hpre := parseRouteW_head_const hpp hs hc
    exact routeMatch_locality hm hs hc hok.1 hpre
      (by simp only [beq_iff_eq]; exact id)
      (by simp only [beq_iff_eq]; intro h; rw [h]; rfl) h3 hno
  · cases hr

/-- The tree key the router computes equals the first 3 bytes of the detection path under the same
    hypotheses: the request is looked up in the route's own bucket. -/
theorem match_same_bucket {chk : Constraint → Bytes → Bool} {cfg : Config} {use : Bool} {pattern : Bytes}
    {r : Route} (hr : register cfg use pattern = some r)
    {s0 : Seg} {rest : List Seg} (hs : r.parser.segs = s0 :: rest) (hc : s0.isParam = false)
    (h3 : s0.const.length ≥ 3) (hno : ¬ (s0.const.length = 3 ∧ s0.hasOptionalSlash = true))
    {det path : Bytes} {vs : List Bytes} (hm : routeMatch chk r det path = some vs) :
    routeTreeKey r = reqTreeKey det := by
  have := match_locality hr hs hc h3 hno hm
  have hcond : (decide (s0.const.length ≥ 3) && (decide (s0.const.length > 3) || !s0.hasOptionalSlash)) = true := by
    cases ho : s0.hasOptionalSlash
    · simp [h3]
    · have h4 : s0.const.length > 3 := by
        rcases Nat.lt_or_ge 3 s0.const.length with h | h
        · exact h
        · exact absurd ⟨Nat.le_antisymm h h3, ho⟩ hno
      simp [h3, h4]
  unfold routeTreeKey reqTreeKey
  rw [hs]
  simp only [hcond, this.1, if_true]
  exact this.2.symm

/-- The side condition is necessary: `GET /a/:x?` (default configuration) matches the detection
    path `/a` (2 bytes) although its first constant `/a/` has 3 bytes — the route sits in bucket
    `"/a/"` while the request is looked up in bucket 0. -/
def localityWitness (pattern det : Bytes) : Bool :=
  match register {} false pattern with
  | some r =>
    (match r.parser.segs with
     | s0 :: _ => !s0.isParam && s0.const.length == 3 && s0.hasOptionalSlash
     | [] => false) &&
    (routeMatch (fun _ _ => true) r det det).isSome && decide (det.length < 3)
  | none => false

theorem match_locality_witness : localityWitness (b "/a/:x?") (b "/a") = true := by decide

/-- Non-vacuity of `match_locality`: `GET /api/:x?` matches `/api` and the hypotheses hold. -/
example :
    (match register {} false (b "/api/:x?") with
     | some r =>
       (match r.parser.segs with
        | s0 :: _ => !s0.isParam && decide (s0.const.length ≥ 3) &&
                     !(s0.const.length == 3 && s0.hasOptionalSlash)
        | [] => false) &&
       routeMatch (fun _ _ => true) r (b "/api") (b "/api") == some [[]]
     | none => false) = true := by decide

end C02
