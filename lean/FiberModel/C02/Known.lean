import FiberModel.C02.Spec
/-
C02 — regions of recorded known findings (decidable predicates on the case input), see
known/C02.json. There is no open known finding: K1 (case-insensitive routing lower-cased the
constraint text) was repaired in fiber (commit "constraints keep the letter case they were written
in"); `foldSensitive` describes the inputs it was about, the driver tags them so that every run
shows they are generated and now meet the specification.
-/
namespace C02.Known
open B C02

/-- A declared constraint that ASCII lower-casing of the pattern text would replace by a different
    one: a registered custom constraint whose name has an upper-case letter, a built-in written with
    an upper-case letter while a custom constraint is registered under the folded name, or a data
    item with an upper-case letter (regex, datetime layout, custom arguments). -/
def foldSensitive (custom : List Bytes) (c : Constraint) : Bool :=
  (toLower c.name != c.name && (custom.contains c.name || custom.contains (toLower c.name)))
    || c.data.any (fun d => toLower d != d)

/-- the former region of K1 -/
def wasK1 (cfg : Config) (custom : List Bytes) (declared : List Seg) : Bool :=
  !cfg.caseSensitive && declared.any (fun s => s.isParam && s.constraints.any (foldSensitive custom))

end C02.Known
