import FiberModel.C02.Spec
/-
C02 — regions of recorded known findings (decidable predicates on the case input), see
known/C02.json. The theorems in Props.lean that are `_partial` carry `Known.K1 … = false`.
-/
namespace C02.Known
open B C02

/-- A declared constraint that ASCII lower-casing of the pattern text replaces by a different one:
    a registered custom constraint whose name has an upper-case letter (the lower-cased name no
    longer selects it), or a data item with an upper-case letter (regex, datetime layout, custom
    arguments). The built-in `minLen`/`maxLen`/`betweenLen` are not affected by themselves (fiber
    accepts their lower-case spelling and their data are numbers) — unless a custom constraint is
    registered under the lower-cased spelling (`minlen`): then the folded name selects the custom
    constraint instead of the declared built-in one (GET /:x<minLen(10)> with a custom `minlen`
    serves /ac). -/
def foldSensitive (custom : List Bytes) (c : Constraint) : Bool :=
  (toLower c.name != c.name && (custom.contains c.name || custom.contains (toLower c.name)))
    || c.data.any (fun d => toLower d != d)

/-- K1: without CaseSensitive the router parses the *lower-cased* pattern, so a fold-sensitive
    declared constraint is not the one enforced. Region: configuration is case-insensitive and some
    declared constraint is fold-sensitive. -/
def K1 (cfg : Config) (custom : List Bytes) (declared : List Seg) : Bool :=
  !cfg.caseSensitive && declared.any (fun s => s.isParam && s.constraints.any (foldSensitive custom))

end C02.Known
