import FiberModel.C02.Link
/-
C02 — what a handler observes: `Params(key)` (ctx.go) over the values `Route.match` wrote, and the
two shortcuts of `Route.match` (root route, catch-all `/*`).
-/
namespace C02
open B

/-! ### `Params(key)`: the first declared name answering to the key decides -/

/-- `Params` as a recursion over the declared names. -/
def lookupRec (cfg : Config) : List Bytes → List Bytes → Bytes → Bytes
  | [], _, _ => []
  | n :: ns, vals, key => if keyMatch cfg n key then vals.headD [] else lookupRec cfg ns vals.tail key

theorem lookup_find (cfg : Config) (key : Bytes) : (names vals : List Bytes) → (k : Nat) → names.length ≤ k →
    (match (names.zip (vals ++ List.replicate k [])).find?
        (fun nv => nv.1.length == key.length && (nv.1 == key || (!cfg.caseSensitive && equalFold nv.1 key))) with
      | some nv => nv.2
      | none => []) = lookupRec cfg names vals key
  | [], _, _, _ => rfl
  | n :: ns, [], k, hk => by
    obtain ⟨k', rfl⟩ : ∃ k', k = k' + 1 := ⟨k - 1, by simp at hk; omega⟩
    have ih := lookup_find cfg key ns [] k' (by simpa using hk)
    simp only [List.nil_append] at ih
    by_cases hm : (n.length == key.length && (n == key || (!cfg.caseSensitive && equalFold n key))) = true
    · have hk : keyMatch cfg n key = true := hm
      simp only [List.nil_append, List.replicate_succ, List.zip_cons_cons, List.find?_cons, hm, lookupRec, hk,
        if_true, List.headD_nil]
    · have hm' : (n.length == key.length && (n == key || (!cfg.caseSensitive && equalFold n key))) = false := by
        simpa using hm
      have hk : keyMatch cfg n key = false := hm'
      simp only [List.nil_append, List.replicate_succ, List.zip_cons_cons, List.find?_cons, hm', lookupRec, hk,
        Bool.false_eq_true, if_false, List.tail_nil]
      exact ih
  | n :: ns, v :: vs, k, hk => by
    have ih := lookup_find cfg key ns vs k (by simp at hk; omega)
    by_cases hm : (n.length == key.length && (n == key || (!cfg.caseSensitive && equalFold n key))) = true
    · have hk : keyMatch cfg n key = true := hm
      simp only [List.cons_append, List.zip_cons_cons, List.find?_cons, hm, lookupRec, hk, if_true, List.headD_cons]
    · have hm' : (n.length == key.length && (n == key || (!cfg.caseSensitive && equalFold n key))) = false := by
        simpa using hm
      have hk : keyMatch cfg n key = false := hm'
      simp only [List.cons_append, List.zip_cons_cons, List.find?_cons, hm', lookupRec, hk, Bool.false_eq_true,
        if_false, List.tail_cons]
      exact ih

/-- The driver's `paramsLookup` (a `find?` over the zipped names and values) is that recursion. -/
theorem paramsLookup_eq (cfg : Config) (names vals : List Bytes) (key : Bytes) :
    paramsLookup cfg names vals key = lookupRec cfg names vals key := by
  unfold paramsLookup
  exact lookup_find cfg key names vals names.length (Nat.le_refl _)

theorem keyMatch_self (cfg : Config) (n : Bytes) : keyMatch cfg n n = true := by
  simp [keyMatch]

/-- **`Params(key)` reports the value of the first declared name that answers to the key** (or ""
    when there is none, or when that value is empty). -/
theorem lookupRec_first (cfg : Config) (key : Bytes) : (names vals : List Bytes) →
    (lookupRec cfg names vals key = [] ∧ ∀ n ∈ names, keyMatch cfg n key = false) ∨
    ∃ j, ∃ hj : j < names.length, keyMatch cfg names[j] key = true ∧
      (∀ i, ∀ hi : i < names.length, i < j → keyMatch cfg names[i] key = false) ∧
      lookupRec cfg names vals key = vals.getD j []
  | [], _ => Or.inl ⟨rfl, fun _ h => nomatch h⟩
  | n :: ns, vals => by
    unfold lookupRec
    by_cases hm : keyMatch cfg n key = true
    · right
      refine ⟨0, by simp, by simpa using hm, fun i _ hi => absurd hi (Nat.not_lt_zero _), ?_⟩
      simp only [hm, if_true]
      cases vals <;> rfl
    · have hm' : keyMatch cfg n key = false := by simpa using hm
      simp only [hm', Bool.false_eq_true, if_false]
      rcases lookupRec_first cfg key ns vals.tail with ⟨h1, h2⟩ | ⟨j, hj, h1, h2, h3⟩
      · left
        refine ⟨h1, ?_⟩
        intro m hmem
        rcases List.mem_cons.mp hmem with rfl | hmem
        · exact hm'
        · exact h2 m hmem
      · right
        refine ⟨j + 1, by simp; omega, by simpa using h1, ?_, ?_⟩
        · intro i hi hlt
          cases i with
          | zero => simpa using hm'
          | succ i => simpa using h2 i (by simp at hi; omega) (by omega)
        · rw [h3]
          cases vals with
          | nil => simp
          | cons v vs => simp

/-- declared names pairwise do not answer to each other (distinct, also case-insensitively unless
    CaseSensitive) -/
def namesDistinct (cfg : Config) : List Bytes → Bool
  | [] => true
  | n :: ns => ns.all (fun m => !keyMatch cfg n m) && namesDistinct cfg ns

/-- **With distinct declared names, `Params(name)` reports the positional values.** -/
theorem lookupRec_positional (cfg : Config) : (names vals : List Bytes) → namesDistinct cfg names = true →
    vals.length = names.length → names.map (lookupRec cfg names vals) = vals
  | [], [], _, _ => rfl
  | [], _ :: _, _, h => by simp at h
  | _ :: _, [], _, h => by simp at h
  | n :: ns, v :: vs, hd, hl => by
    unfold namesDistinct at hd
    simp only [Bool.and_eq_true, List.all_eq_true, Bool.not_eq_true'] at hd
    have ih := lookupRec_positional cfg ns vs hd.2 (by simpa using hl)
    simp only [List.map_cons]
    congr 1
    · unfold lookupRec
      simp [keyMatch_self]
    · rw [← ih]
      apply List.map_congr_left
      intro m hm
      conv => lhs; unfold lookupRec
      simp only [hd.1 m hm, Bool.false_eq_true, if_false, List.tail_cons]
      rw [ih]

/-! ### pointwise reading of the clause predicates -/

/-- the three per-value clauses of the property for one parameter segment and its value -/
def clausesAt (chk : Constraint → Bytes → Bool) (s : Seg) (v : Bytes) : Prop :=
  ((s.isOptional = true ∧ v = []) ∨ ∀ c ∈ s.constraints, chk c v = true) ∧
  (s.isOptional = true ∨ v ≠ []) ∧
  (s.isGreedy = true ∨ v.contains SLASH = false)

theorem clauses_pointwise {chk : Constraint → Bytes → Bool} : (ps : List Seg) → (vs : List Bytes) →
    constraintViolation chk ps vs = none → requiredNonEmpty ps vs = true → namedNoSlash ps vs = true →
    ∀ j, ∀ h1 : j < ps.length, ∀ h2 : j < vs.length, clausesAt chk ps[j] vs[j]
  | [], _, _, _, _ => fun j h1 => absurd h1 (Nat.not_lt_zero _)
  | _ :: _, [], _, _, _ => fun j _ h2 => absurd h2 (Nat.not_lt_zero _)
  | s :: ps, v :: vs, hc, hr, hn => by
    unfold requiredNonEmpty at hr
    unfold namedNoSlash at hn
    simp only [Bool.and_eq_true, Bool.or_eq_true, Bool.not_eq_true'] at hr hn
    have hc' : constraintViolation chk ps vs = none ∧
        ((s.isOptional = true ∧ v = []) ∨ ∀ c ∈ s.constraints, chk c v = true) := by
      unfold constraintViolation at hc
      split at hc
      · rename_i h
        simp only [Bool.and_eq_true] at h
        exact ⟨hc, Or.inl ⟨h.1, by simpa using h.2⟩⟩
      · split at hc
        · cases hc
        · rename_i hf
          refine ⟨hc, Or.inr ?_⟩
          intro c hcm
          have := List.find?_eq_none.mp hf c hcm
          simpa using this
    intro j h1 h2
    cases j with
    | zero =>
      refine ⟨hc'.2, ?_, hn.1⟩
      rcases hr.1 with h | h
      · exact Or.inl h
      · right; intro e; subst e; simp at h
    | succ j =>
      exact clauses_pointwise ps vs hc'.1 hr.2 hn.2 j (by simpa using h1) (by simpa using h2)

/-! ### clause predicates only read `pview` -/

theorem clauses_congr {chk : Constraint → Bytes → Bool} : (ps ps' : List Seg) → (vs : List Bytes) →
    ps.map pview = ps'.map pview →
    ((constraintViolation chk ps vs).isSome = (constraintViolation chk ps' vs).isSome) ∧
    requiredNonEmpty ps vs = requiredNonEmpty ps' vs ∧ namedNoSlash ps vs = namedNoSlash ps' vs
  | [], [], _, _ => ⟨rfl, rfl, rfl⟩
  | [], _ :: _, _, h => by cases h
  | _ :: _, [], _, h => by cases h
  | s :: ps, s' :: ps', [], _ => by
    simp [constraintViolation, requiredNonEmpty, namedNoSlash]
  | s :: ps, s' :: ps', v :: vs, h => by
    simp only [List.map_cons, List.cons.injEq] at h
    obtain ⟨i1, i2, i3⟩ := clauses_congr (chk := chk) ps ps' vs h.2
    have hv := h.1
    unfold pview at hv
    simp only [Prod.mk.injEq] at hv
    refine ⟨?_, ?_, ?_⟩
    · unfold constraintViolation
      rw [hv.1, hv.2.1]
      split
      · exact i1
      · cases s'.constraints.find? (fun c => !chk c v) with
        | some c => rfl
        | none => exact i1
    · unfold requiredNonEmpty; rw [hv.2.1, i2]
    · unfold namedNoSlash; rw [hv.2.2, i3]

/-! ### the number of values `getMatch` writes -/

theorem getMatch_length {chk : Constraint → Bytes → Bool} {pc : Bool} :
    (segs : List Seg) → (det path : Bytes) → (vs : List Bytes) →
    getMatch chk segs det path pc = some vs → vs.length = (paramSegs segs).length
  | [], det, path, vs, h => by
    unfold getMatch at h
    split at h
    · cases h
    · cases h; rfl
  | seg :: rest, det, path, vs, h => by
    rw [paramSegs_cons]
    cases hp : seg.isParam
    · simp only [Bool.false_eq_true, if_false]
      rcases getMatch_const_step h hp with ⟨_, _, _, _, hrec⟩ | ⟨_, _, hrec⟩
      · exact getMatch_length rest _ _ vs hrec
      · exact getMatch_length rest _ _ vs hrec
    · simp only [if_true]
      obtain ⟨vs', hv, _, _, hrec⟩ := getMatch_param_step h hp
      subst hv
      simp [getMatch_length rest _ _ vs' hrec]

end C02
