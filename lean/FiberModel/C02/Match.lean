import FiberModel.C02.Lemmas
/-
C02 — lemmas about the matcher: byte-search facts, `findParamLen ≤ |s|`, and one-step
characterisations of `getMatch` (used by every theorem in Props.lean).
-/
namespace C02
open B

/-! ### byte search -/

theorem indexByte_le : (s : Bytes) → (c k : Nat) → indexByte s c = some k → k < s.length
  | [], _, _, h => by simp [indexByte] at h
  | x :: xs, c, k, h => by
    unfold indexByte at h
    split at h
    · cases h; simp
    · cases hi : indexByte xs c with
      | none => simp [hi] at h
      | some j =>
        simp only [hi, Option.map_some, Option.some.injEq] at h
        have := indexByte_le xs c j hi
        simp; omega

/-- no `c` strictly before the first `c` -/
theorem indexByte_take : (s : Bytes) → (c k : Nat) → indexByte s c = some k → (s.take k).contains c = false
  | [], _, _, h => by simp [indexByte] at h
  | x :: xs, c, k, h => by
    unfold indexByte at h
    split at h
    · cases h; simp
    · rename_i hx
      cases hi : indexByte xs c with
      | none => simp [hi] at h
      | some j =>
        simp only [hi, Option.map_some, Option.some.injEq] at h
        subst h
        have := indexByte_take xs c j hi
        simp only [List.take_succ_cons, List.contains_cons, this, Bool.or_false]
        simp only [beq_iff_eq] at hx
        simp only [beq_eq_false_iff_ne, ne_eq]
        exact fun h => hx h.symm

theorem indexByte_none : (s : Bytes) → (c : Nat) → indexByte s c = none → s.contains c = false
  | [], _, _ => by simp
  | x :: xs, c, h => by
    unfold indexByte at h
    split at h
    · cases h
    · rename_i hx
      cases hi : indexByte xs c with
      | some j => simp [hi] at h
      | none =>
        have := indexByte_none xs c hi
        simp only [List.contains_cons, this, Bool.or_false]
        simp only [beq_iff_eq] at hx
        simp only [beq_eq_false_iff_ne, ne_eq]
        exact fun h => hx h.symm

theorem indexOf_le : (s pat : Bytes) → (k : Nat) → indexOf s pat = some k → k ≤ s.length
  | [], pat, k, h => by
    unfold indexOf at h
    split at h
    · cases h; simp
    · cases h
  | x :: xs, pat, k, h => by
    unfold indexOf at h
    split at h
    · cases h; simp
    · cases hi : indexOf xs pat with
      | none => simp [hi] at h
      | some j =>
        simp only [hi, Option.map_some, Option.some.injEq] at h
        have := indexOf_le xs pat j hi
        simp; omega

theorem indexOf_nil (s : Bytes) : indexOf s [] = some 0 := by
  cases s <;> simp [indexOf]

theorem trimRight_prefix (s : Bytes) (c : Nat) : trimRight s c <+: s := by
  unfold trimRight
  have h : (s.reverse.dropWhile (· == c)) <:+ s.reverse := List.dropWhile_suffix _
  have := List.reverse_prefix.mpr h
  simpa using this

/-! ### `findParamLen` never exceeds the remaining path -/

theorem findGreedyLoop_le (cp : Bytes) : (i sc : Nat) → (s : Bytes) → (findGreedyLoop cp i sc s).length ≤ s.length
  | 0, _, s => by unfold findGreedyLoop; exact Nat.le_refl _
  | i + 1, 0, s => by unfold findGreedyLoop; exact Nat.le_refl _
  | i + 1, sc + 1, s => by
    unfold findGreedyLoop
    split
    · exact Nat.le_refl _
    · rename_i k _
      have := findGreedyLoop_le cp i sc (s.take k)
      simp only [List.length_take] at this
      omega

theorem findParamLenForLastSegment_le (s : Bytes) (seg : Seg) : findParamLenForLastSegment s seg ≤ s.length := by
  unfold findParamLenForLastSegment
  split
  · split
    · rename_i i hi; exact Nat.le_of_lt (indexByte_le s SLASH i hi)
    · exact Nat.le_refl _
  · exact Nat.le_refl _

theorem findParamLen_le (s : Bytes) (seg : Seg) : findParamLen s seg ≤ s.length := by
  unfold findParamLen
  split
  · exact findParamLenForLastSegment_le s seg
  · split
    · rename_i h
      simp only [bne_iff_ne, ne_eq, ge_iff_le, Bool.and_eq_true, decide_eq_true_eq] at h
      split
      · exact Nat.zero_le _
      · exact h.2
    · split
      · unfold findGreedyParamLen; exact findGreedyLoop_le _ _ _ _
      · split
        · split
          · rename_i k hk
            split
            · exact Nat.zero_le _
            · exact Nat.le_of_lt (indexByte_le s _ k hk)
          · exact Nat.le_refl _
        · split
          · rename_i k hk
            split
            · exact Nat.zero_le _
            · exact indexOf_le s _ k hk
          · exact Nat.le_refl _

theorem indexOf_singleton : (s : Bytes) → (c : Nat) → indexOf s [c] = indexByte s c
  | [], c => by simp [indexOf, indexByte]
  | x :: xs, c => by
    unfold indexOf indexByte
    rw [indexOf_singleton xs c]
    by_cases h : x = c
    · subst h; simp
    · have h1 : (x == c) = false := beq_eq_false_iff_ne.mpr h
      have h2 : (c == x) = false := beq_eq_false_iff_ne.mpr (Ne.symm h)
      simp only [List.isPrefixOf, h2, Bool.false_and, Bool.false_eq_true, if_false, h1]

theorem fullConst_fields {s : Bytes} {seg seg' : Seg} {following : List Seg}
    (h : fullConst s seg following = some seg') :
    seg'.isLast = seg.isLast ∧ seg'.length = seg.length ∧ seg'.isGreedy = seg.isGreedy ∧
    seg'.isOptional = seg.isOptional ∧ seg'.isParam = seg.isParam ∧ seg'.constraints = seg.constraints := by
  unfold fullConst at h
  split at h
  · cases h
  · split at h
    · split at h
      · cases h; exact ⟨rfl, rfl, rfl, rfl, rfl, rfl⟩
      · cases h
    · cases h

theorem paramLen_le (s : Bytes) (seg : Seg) (following : List Seg) : paramLen s seg following ≤ s.length := by
  unfold paramLen
  split
  · exact findParamLen_le s seg
  · split
    · unfold findGreedyParamLen; exact findGreedyLoop_le _ _ _ _
    · exact findParamLen_le s _

/-! ### one step of `getMatch` -/

/-- A parameter segment at the head: the value is the first `paramLen det seg rest` bytes of the
    user path, required parameters are non-empty, constraints hold unless optional-and-empty, and
    matching continues behind the value. -/
theorem getMatch_param_step {chk : Constraint → Bytes → Bool} {seg : Seg} {rest : List Seg}
    {det path : Bytes} {pc : Bool} {vs : List Bytes}
    (h : getMatch chk (seg :: rest) det path pc = some vs) (hp : seg.isParam = true) :
    ∃ vs', vs = path.take (paramLen det seg rest) :: vs' ∧
      (seg.isOptional = true ∨ paramLen det seg rest ≠ 0) ∧
      (¬ (seg.isOptional = true ∧ paramLen det seg rest = 0) →
          seg.constraints.all (chk · (path.take (paramLen det seg rest))) = true) ∧
      getMatch chk rest (det.drop (paramLen det seg rest)) (path.drop (paramLen det seg rest)) pc = some vs' := by
  unfold getMatch at h
  simp only [hp, Bool.not_true, Bool.false_eq_true, if_false] at h
  have hle := paramLen_le det seg rest
  split at h
  · cases h
  · rename_i h1
    split at h
    · cases h
    · rename_i h2
      have hrec : (if det.length > 0 then getMatch chk rest (det.drop (paramLen det seg rest)) (path.drop (paramLen det seg rest)) pc
                   else getMatch chk rest det path pc) =
                  getMatch chk rest (det.drop (paramLen det seg rest)) (path.drop (paramLen det seg rest)) pc := by
        split
        · rfl
        · have : paramLen det seg rest = 0 := by omega
          rw [this]; simp
      rw [hrec] at h
      cases hr : getMatch chk rest (det.drop (paramLen det seg rest)) (path.drop (paramLen det seg rest)) pc with
      | none => simp [hr] at h
      | some vs' =>
        simp only [hr, Option.map_some, Option.some.injEq] at h
        refine ⟨vs', h.symm, ?_, ?_, rfl⟩
        · simp only [Bool.and_eq_true, Bool.not_eq_true', beq_iff_eq, not_and, Bool.not_eq_false] at h1
          cases ho : seg.isOptional
          · right; intro h0; have := h1 ho; simp [h0] at this
          · left; rfl
        · intro hne
          simp only [Bool.and_eq_true, Bool.not_eq_true', beq_iff_eq, not_and, Bool.not_eq_false,
            Bool.not_eq_eq_eq_not, Bool.not_true, Bool.and_eq_false_imp] at h2
          cases hall : seg.constraints.all (chk · (path.take (paramLen det seg rest)))
          · exfalso
            apply hne
            have := h2
            simp only [hall] at this
            constructor
            · cases ho : seg.isOptional
              · simp [ho] at this
              · rfl
            · cases ho : seg.isOptional
              · simp [ho] at this
              · simpa [ho] using this
          · rfl

/-- A constant segment at the head. -/
theorem getMatch_const_step {chk : Constraint → Bytes → Bool} {seg : Seg} {rest : List Seg}
    {det path : Bytes} {pc : Bool} {vs : List Bytes}
    (h : getMatch chk (seg :: rest) det path pc = some vs) (hc : seg.isParam = false) :
    (seg.hasOptionalSlash = true ∧ seg.length > 0 ∧ det.length = seg.length - 1 ∧
       det = seg.const.take (seg.length - 1) ∧
       getMatch chk rest [] (path.drop (seg.length - 1)) pc = some vs) ∨
    (seg.length ≤ det.length ∧ det.take seg.length = seg.const ∧
       getMatch chk rest (det.drop seg.length) (path.drop seg.length) pc = some vs) := by
  unfold getMatch at h
  simp only [hc, Bool.not_false, if_true] at h
  split at h
  · rename_i hb
    simp only [Bool.and_eq_true, decide_eq_true_eq, beq_iff_eq] at hb
    left
    refine ⟨hb.1.1.1, hb.1.1.2, hb.1.2, hb.2, ?_⟩
    split at h
    · have : det.drop (seg.length - 1) = [] := by
        apply List.drop_eq_nil_of_le; omega
      rw [this] at h; exact h
    · have h0 : det.length = 0 := by omega
      have hd : det = [] := List.eq_nil_of_length_eq_zero h0
      have : seg.length - 1 = 0 := by omega
      rw [this]; simp only [List.drop_zero]
      rw [hd] at h; exact h
  · split at h
    · rename_i hb
      simp only [Bool.and_eq_true, decide_eq_true_eq, beq_iff_eq] at hb
      right
      refine ⟨hb.1, hb.2, ?_⟩
      split at h
      · exact h
      · have h0 : seg.length = 0 := by omega
        rw [h0]; simpa using h
    · cases h

end C02
