import FiberModel.C02.Spec
/-
C02 — helper lemmas: what the parser pipeline preserves (the "core" fields of a segment), the
well-formedness of parser output, and one-step unfoldings of the matcher.
-/
namespace C02
open B

/-! ### the core of a segment is untouched by markLast / addParameterMetaInfo -/

/-- `b` is `a` up to the metadata the later parser stages fill in. -/
def Seg.Core (a b : Seg) : Prop :=
  b.const = a.const ∧ b.isParam = a.isParam ∧ b.isGreedy = a.isGreedy ∧ b.isOptional = a.isOptional ∧
  b.constraints = a.constraints ∧ b.paramName = a.paramName ∧
  (a.isParam = false → b.length = a.length) ∧
  (b.hasOptionalSlash = true → a.hasOptionalSlash = true ∨ (a.isParam = false ∧ a.const.getLast? = some SLASH))

theorem Seg.Core.refl (a : Seg) : Seg.Core a a :=
  ⟨rfl, rfl, rfl, rfl, rfl, rfl, fun _ => rfl, fun h => Or.inl h⟩

theorem Seg.Core.trans {a b c : Seg} (h1 : Seg.Core a b) (h2 : Seg.Core b c) : Seg.Core a c := by
  unfold Seg.Core at *
  obtain ⟨a1, a2, a3, a4, a5, a6, a7, a8⟩ := h1
  obtain ⟨b1, b2, b3, b4, b5, b6, b7, b8⟩ := h2
  refine ⟨by rw [b1, a1], by rw [b2, a2], by rw [b3, a3], by rw [b4, a4], by rw [b5, a5], by rw [b6, a6], ?_, ?_⟩
  · intro h; rw [b7 (by rw [a2]; exact h), a7 h]
  · intro h
    rcases b8 h with h | ⟨h, h'⟩
    · exact a8 h
    · right; rw [a2] at h; rw [a1] at h'; exact ⟨h, h'⟩

/-- element-wise relation between two segment lists -/
inductive CoreL : List Seg → List Seg → Prop
  | nil : CoreL [] []
  | cons {a b : Seg} {as bs : List Seg} : Seg.Core a b → CoreL as bs → CoreL (a :: as) (b :: bs)

theorem CoreL.refl : (l : List Seg) → CoreL l l
  | [] => .nil
  | a :: as => .cons (Seg.Core.refl a) (CoreL.refl as)

theorem CoreL.trans {l1 l2 l3 : List Seg} (h1 : CoreL l1 l2) (h2 : CoreL l2 l3) : CoreL l1 l3 := by
  induction h1 generalizing l3 with
  | nil => cases h2; exact .nil
  | cons hab _ ih =>
    cases h2 with
    | cons hbc hrest => exact .cons (hab.trans hbc) (ih hrest)

theorem markLast_core : (l : List Seg) → CoreL l (markLast l)
  | [] => .nil
  | [s] => by
    unfold markLast
    exact .cons ⟨rfl, rfl, rfl, rfl, rfl, rfl, fun _ => rfl, fun h => Or.inl h⟩ .nil
  | s :: t :: rest => by
    unfold markLast
    exact .cons (Seg.Core.refl s) (markLast_core (t :: rest))

theorem setCompareParts_core : (l : List Seg) → CoreL l (setCompareParts l).1
  | [] => by unfold setCompareParts; exact .nil
  | s :: rest => by
    have ih := setCompareParts_core rest
    unfold setCompareParts
    cases hp : s.isParam
    · simp only [Bool.false_eq_true, if_false]
      exact .cons (Seg.Core.refl s) ih
    · simp only [if_true]
      exact .cons ⟨rfl, hp.symm, rfl, rfl, rfl, rfl, fun _ => rfl, fun h => Or.inl h⟩ ih

theorem metaForward_core : (l l' : List Seg) → metaForward l = some l' → CoreL l l'
  | [], l', h => by
    unfold metaForward at h; cases h; exact .nil
  | s :: rest, l', h => by
    unfold metaForward at h
    cases hr : metaForward rest with
    | none => simp [hr] at h
    | some rest' =>
      have ih := metaForward_core rest rest' hr
      simp only [hr] at h
      cases hp : s.isParam
      · simp only [hp, Bool.false_eq_true, if_false] at h
        cases hl : s.const.getLast? with
        | none => simp [hl] at h
        | some l =>
          simp only [hl] at h
          by_cases hc : (l == SLASH && (s.isLast || nextOptional rest)) = true
          · rw [if_pos hc] at h
            cases h
            refine .cons ⟨rfl, hp.symm, rfl, rfl, rfl, rfl, fun _ => rfl, fun _ => Or.inr ⟨hp, ?_⟩⟩ ih
            simp only [Bool.and_eq_true, beq_iff_eq] at hc
            rw [hl, hc.1]
          · rw [if_neg hc] at h
            cases h; exact .cons (Seg.Core.refl s) ih
      · simp only [hp, if_true] at h
        cases h
        refine .cons ?_ ih
        refine ⟨?_, ?_, ?_, ?_, ?_, ?_, ?_, ?_⟩
        all_goals (repeat' split)
        all_goals simp_all

/-! ### well-formedness of parser output -/

/-- What the matcher proofs need from the segment list: a constant segment's `Length` is the length
    of its constant, and `HasOptionalSlash` is only set on constants ending in `/`. -/
def SegOK (s : Seg) : Prop :=
  s.isParam = false → s.length = s.const.length ∧ (s.hasOptionalSlash = true → s.const.getLast? = some SLASH)

def SegsOK (l : List Seg) : Prop := ∀ s ∈ l, SegOK s

/-- raw segments (before markLast / meta info) -/
def RawOK (s : Seg) : Prop :=
  s.hasOptionalSlash = false ∧ s.isLast = false ∧
  (s.isParam = false → s.length = s.const.length ∧ s.isOptional = false) ∧
  (s.isParam = true → s.const = [])

theorem CoreL.segsOK {l l' : List Seg} (h : CoreL l l') (hraw : ∀ s ∈ l, RawOK s) : SegsOK l' := by
  induction h with
  | nil => intro s hs; cases hs
  | cons hab _ ih =>
    rename_i a b as bs _
    intro s hs
    rcases List.mem_cons.mp hs with rfl | hs
    · have hr := hraw a (List.mem_cons_self ..)
      unfold Seg.Core at hab
      obtain ⟨c1, c2, _, _, _, _, c7, c8⟩ := hab
      intro hp
      rw [c2] at hp
      refine ⟨by rw [c7 hp, c1]; exact (hr.2.2.1 hp).1, ?_⟩
      intro ho
      rcases c8 ho with h | ⟨_, h⟩
      · rw [hr.1] at h; cases h
      · rw [c1]; exact h
    · exact ih (fun s hs => hraw s (List.mem_cons_of_mem _ hs)) s hs

theorem analyseParameterPart_isParam {p : Bytes} {wc pc n : Nat} {seg : Seg} {wc' pc' : Nat}
    (h : analyseParameterPart p wc pc = some (n, seg, wc', pc')) :
    seg.isParam = true ∧ seg.hasOptionalSlash = false ∧ seg.isLast = false ∧ seg.const = [] := by
  unfold analyseParameterPart at h
  simp only at h
  split at h
  · cases h
  · simp only [Option.some.injEq, Prod.mk.injEq] at h
    obtain ⟨_, h, _, _⟩ := h
    subst h
    simp

theorem analyseConstantPart_raw (p : Bytes) (np : Option Nat) : RawOK (analyseConstantPart p np).2 := by
  unfold analyseConstantPart RawOK
  simp

theorem parseLoop_raw : (fuel : Nat) → (p : Bytes) → (wc pc : Nat) → (raw : List Seg) →
    parseLoop fuel p wc pc = some raw → ∀ s ∈ raw, RawOK s
  | 0, _, _, _, raw, h => by
    unfold parseLoop at h; cases h; intro s hs; cases hs
  | fuel + 1, p, wc, pc, raw, h => by
    unfold parseLoop at h
    split at h
    · cases h; intro s hs; cases hs
    · split at h
      · split at h
        · cases h
        · rename_i n seg wc' pc' ha
          cases hr : parseLoop fuel (p.drop n) wc' pc' with
          | none => simp [hr] at h
          | some rest =>
            simp only [hr, Option.map_some, Option.some.injEq] at h
            subst h
            intro s hs
            rcases List.mem_cons.mp hs with rfl | hs
            · have := analyseParameterPart_isParam ha
              unfold RawOK
              exact ⟨this.2.1, this.2.2.1, (by intro hh; rw [this.1] at hh; cases hh), fun _ => this.2.2.2⟩
            · exact parseLoop_raw fuel _ _ _ rest hr s hs
      · simp only at h
        cases hr : parseLoop fuel (p.drop (analyseConstantPart p (findNextParamPosition p)).1) wc pc with
        | none => simp [hr] at h
        | some rest =>
          simp only [hr, Option.map_some, Option.some.injEq] at h
          subst h
          intro s hs
          rcases List.mem_cons.mp hs with rfl | hs
          · exact analyseConstantPart_raw _ _
          · exact parseLoop_raw fuel _ _ _ rest hr s hs

/-- The segment list of a parsed pattern is `CoreL`-related to the raw loop output. -/
theorem parseRoute_core {p : Bytes} {pp : Parser} (h : parseRoute p = some pp) :
    ∃ raw, parseLoop p.length p 0 0 = some raw ∧ CoreL raw pp.segs := by
  unfold parseRoute at h
  cases hr : parseLoop p.length p 0 0 with
  | none => simp [hr] at h
  | some raw =>
    simp only [hr] at h
    unfold addParameterMetaInfo at h
    cases hm : metaForward (setCompareParts (markLast raw)).1 with
    | none => simp [hm] at h
    | some segs =>
      simp only [hm, Option.some.injEq] at h
      subst h
      exact ⟨raw, rfl, (markLast_core raw).trans ((setCompareParts_core _).trans (metaForward_core _ _ hm))⟩

theorem parseRoute_segsOK {p : Bytes} {pp : Parser} (h : parseRoute p = some pp) : SegsOK pp.segs := by
  obtain ⟨raw, hr, hc⟩ := parseRoute_core h
  exact hc.segsOK (parseLoop_raw _ _ _ _ raw hr)

theorem CoreL.param_const {l l' : List Seg} (h : CoreL l l') (hraw : ∀ s ∈ l, RawOK s) :
    ∀ s ∈ l', s.isParam = true → s.const = [] := by
  induction h with
  | nil => intro s hs; cases hs
  | @cons a b as bs hab _ ih =>
    intro s hs hp
    rcases List.mem_cons.mp hs with rfl | hs
    · have hr := hraw a (List.mem_cons_self ..)
      rw [hab.1]; exact hr.2.2.2 (by rw [← hab.2.1]; exact hp)
    · exact ih (fun s hs => hraw s (List.mem_cons_of_mem _ hs)) s hs hp

/-- a parameter segment of a parsed pattern has an empty `Const` -/
theorem parseRoute_param_const {p : Bytes} {pp : Parser} (h : parseRoute p = some pp) :
    ∀ s ∈ pp.segs, s.isParam = true → s.const = [] := by
  obtain ⟨raw, hr, hc⟩ := parseRoute_core h
  exact hc.param_const (parseLoop_raw _ _ _ _ raw hr)

theorem parseRoute_params {p : Bytes} {pp : Parser} (h : parseRoute p = some pp) :
    pp.params = paramNames pp.segs := by
  unfold parseRoute at h
  split at h
  · cases h
  · split at h
    · cases h
    · cases h; rfl

/-! ### the first constant segment is a prefix of the escape-free pattern -/

theorem removeEscapeChar_append (a c : Bytes) :
    removeEscapeChar (a ++ c) = removeEscapeChar a ++ removeEscapeChar c := by
  unfold removeEscapeChar; simp

theorem removeEscapeChar_take_prefix (p : Bytes) (k : Nat) :
    removeEscapeChar (p.take k) <+: removeEscapeChar p := by
  conv => rhs; rw [← List.take_append_drop k p]
  rw [removeEscapeChar_append]
  exact List.prefix_append _ _

theorem parseLoop_head_const {fuel : Nat} {p : Bytes} {wc pc : Nat} {s0 : Seg} {rest : List Seg}
    (h : parseLoop fuel p wc pc = some (s0 :: rest)) (hc : s0.isParam = false) :
    s0.const <+: removeEscapeChar p := by
  cases fuel with
  | zero => unfold parseLoop at h; cases h
  | succ fuel =>
    unfold parseLoop at h
    split at h
    · cases h
    · split at h
      · split at h
        · cases h
        · rename_i n seg wc' pc' ha
          cases hr : parseLoop fuel (p.drop n) wc' pc' with
          | none => simp [hr] at h
          | some r =>
            simp only [hr, Option.map_some, Option.some.injEq, List.cons.injEq] at h
            have := (analyseParameterPart_isParam ha).1
            rw [h.1, hc] at this; cases this
      · simp only at h
        cases hr : parseLoop fuel (p.drop (analyseConstantPart p (findNextParamPosition p)).1) wc pc with
        | none => simp [hr] at h
        | some r =>
          simp only [hr, Option.map_some, Option.some.injEq, List.cons.injEq] at h
          rw [← h.1]
          unfold analyseConstantPart
          cases findNextParamPosition p with
          | none => simp
          | some k => simpa using removeEscapeChar_take_prefix p k

theorem parseRoute_head_const {p : Bytes} {pp : Parser} {s0 : Seg} {rest : List Seg}
    (h : parseRoute p = some pp) (hs : pp.segs = s0 :: rest) (hc : s0.isParam = false) :
    s0.const <+: removeEscapeChar p := by
  obtain ⟨raw, hr, hcore⟩ := parseRoute_core h
  rw [hs] at hcore
  cases hcore with
  | cons hab _ =>
    rename_i a as
    unfold Seg.Core at hab
    rw [hab.1]
    exact parseLoop_head_const hr (by rw [← hab.2.1]; exact hc)

end C02
