import FiberModel.C02.Model
/-
C02 — the property sentence as executable predicates over what a handler observes
(`Params(name)` for every declared name, `Path()`), evaluated by the driver on the
*implementation's* observation and used as the right-hand side of the theorems in Props.lean.

"Whenever a handler registered under a parameterised pattern runs, substituting the values reported
 by Params into the pattern reproduces the request path (a prefix of it for middleware), modulo
 configured case folding and the trailing slashes the pattern makes optional. Every captured value
 satisfies all constraints declared for its parameter, named parameters and '+' are non-empty unless
 optional, named parameters never span a '/', and a request whose value violates a constraint gets
 the not-found handling instead of the handler."

The spec reads only the *structure* of the parsed pattern (constant text, parameter / optional /
greedy flags, declared constraints); none of the matcher's metadata (ComparePart, PartCount, Length,
HasOptionalSlash) and not the matcher.
-/
namespace C02
open B

/-- "the trailing slashes the pattern makes optional": a constant ending in `/` that is the end of
    the pattern or is followed by an optional parameter. -/
def slashOpt (s : Seg) (rest : List Seg) : Bool :=
  s.const.getLast? == some SLASH &&
  (match rest with | [] => true | n :: _ => n.isParam && n.isOptional)

/-- Substituting `vals` into `segs` reproduces `det` (a prefix of it when `partialOK`): constants
    verbatim, each parameter replaced by its value; a pattern-optional trailing slash may be missing
    when the path ends there (everything after it then renders empty). -/
def renders : List Seg → List Bytes → Bytes → Bool → Bool
  | [], [], det, partialOK => det.isEmpty || partialOK
  | [], _ :: _, _, _ => false
  | s :: rest, vs, det, partialOK =>
    if s.isParam then
      match vs with
      | [] => false
      | v :: vs' => v.isPrefixOf det && renders rest vs' (det.drop v.length) partialOK
    else
      (s.const.isPrefixOf det && renders rest vs (det.drop s.const.length) partialOK) ||
      (slashOpt s rest && det == s.const.dropLast && renders rest vs [] partialOK)

/-- plain substitution, no slash dropped -/
def plainRender : List Seg → List Bytes → Bytes
  | [], _ => []
  | s :: rest, vs =>
    if s.isParam then (vs.headD []) ++ plainRender rest vs.tail
    else s.const ++ plainRender rest vs

/-- request-side normalisation the configuration prescribes for routing (case folding unless
    CaseSensitive, trailing slashes ignored unless StrictRouting) -/
def normPath (cfg : Config) (p : Bytes) : Bytes :=
  (configDependentPaths { cfg with unescapePath := false } p).2

/-- Clause 1. `segs` = segments of the registered (configuration-normalised) pattern, `vals` =
    reported values, `path` = `Path()` as the handler saw it. -/
def substitutionOK (cfg : Config) (use : Bool) (segs : List Seg) (vals : List Bytes) (path : Bytes) : Bool :=
  let det := normPath cfg path
  let vals' := if cfg.caseSensitive then vals else vals.map toLower
  renders segs vals' det use ||
    (let r := normPath cfg (plainRender segs vals')
     if use then r.isPrefixOf det else r == det)

/-- parameter segments, in order -/
def paramSegs (segs : List Seg) : List Seg := segs.filter (·.isParam)

/-- Clause 2: every captured value satisfies every constraint declared for its parameter (an
    optional parameter that captured nothing has no value to check). Returns the first violated
    (segment, constraint). -/
def constraintViolation (chk : Constraint → Bytes → Bool) : List Seg → List Bytes → Option (Seg × Constraint)
  | s :: ps, v :: vs =>
    if s.isOptional && v.isEmpty then constraintViolation chk ps vs
    else match s.constraints.find? (fun c => !chk c v) with
      | some c => some (s, c)
      | none => constraintViolation chk ps vs
  | _, _ => none

/-- Clause 3: named parameters and `+` are non-empty unless optional. -/
def requiredNonEmpty : List Seg → List Bytes → Bool
  | s :: ps, v :: vs => (s.isOptional || !v.isEmpty) && requiredNonEmpty ps vs
  | _, _ => true

/-- Clause 4: named (non-greedy) parameters never span a `/`. -/
def namedNoSlash : List Seg → List Bytes → Bool
  | s :: ps, v :: vs => (s.isGreedy || !v.contains SLASH) && namedNoSlash ps vs
  | _, _ => true

/-- What the harness observes for one request. -/
structure Obs where
  panic : Bool := false
  ran : Nat := 0
  status : Nat := 0
  path : Bytes := []
  rpath : Bytes := []
  names : List Bytes := []
  vals : List Bytes := []
  extra : List Bytes := []     -- `Params(k)` for the extra keys (`extraKeys`)
  deriving DecidableEq, Repr

/-- the keys, other than the declared names, the harness' handler also passes to `Params` -/
def extraKeys (names : List Bytes) : List Bytes :=
  [[STAR], [PLUS]] ++ (match names with | n :: _ => [toUpper n, toLower n] | [] => [])

/-- The model's observation of one request against an app holding the single route
    (`Get`/`Use`)(pattern): what the harness' handler would report. -/
def modelObs (chk : Constraint → Bytes → Bool) (cfg : Config) (use : Bool) (pattern reqPath : Bytes) : Obs :=
  match register cfg use pattern with
  | none => { panic := true }
  | some r =>
    match dispatch1 chk r (configDependentPaths cfg reqPath).2 (configDependentPaths cfg reqPath).1 with
    | none => { ran := 0, status := 404 }
    | some vals =>
      { ran := 1, status := 200, path := (configDependentPaths cfg reqPath).1, rpath := r.pathRaw, names := r.params,
        vals := r.params.map (paramsLookup cfg r.params vals),
        extra := (extraKeys r.params).map (paramsGet cfg r.params vals) }

/-- The model of a HISTORY: several requests served one after the other by the same app. The model
    is history-free — request i is answered as if it were the only one; that the implementation
    keeps no state from one request to the next (pooled ctx, reused path buffers, anything cached on
    the route or its constraints) is the hypothesis the history cases of the harness test. -/
def historyObs (chk : Constraint → Bytes → Bool) (cfg : Config) (use : Bool) (pattern : Bytes)
    (reqPaths : List Bytes) : List Obs :=
  reqPaths.map (modelObs chk cfg use pattern)

/-- "the values reported by Params": the documented lookup — the bare keys `*` / `+` mean the first
    wildcard / plus parameter (`*1` / `+1`); a key selects the first declared name equal to it,
    ignoring ASCII letter case unless CaseSensitive; an unknown key gives "". -/
def specLookup (cfg : Config) (names vals : List Bytes) (key : Bytes) : Bytes :=
  let key := if key == [STAR] then [STAR, 49] else if key == [PLUS] then [PLUS, 49] else key
  let same (a c : Bytes) : Bool := if cfg.caseSensitive then a == c else toLower a == toLower c
  match (List.range names.length).find? (fun i => same (names.getD i []) key) with
  | some i => vals.getD i []
  | none => []

/-- The property on one observation: first failing clause, or `none`.
    `declared` = parse of the pattern text exactly as passed to `Get`/`Use` (the declared names:
                 `Route().Params` is documented as the keys of the original path);
    `written`  = parse of the pattern as written minus the trailing slashes the configuration makes
                 insignificant (`writtenPattern`; no case folding): the declared constraints and
                 optional / greedy marks;
    `routed`   = the segments the route matches with (what is substituted into: constants are
                 case-folded unless CaseSensitive);
    `chkDeclared` = the documented meaning of a constraint (exact evaluator / standard library). -/
def specViolation (cfg : Config) (use : Bool) (declared written routed : List Seg)
    (chkDeclared : Constraint → Bytes → Bool) (o : Obs) : Option String :=
  if o.panic then none
  else if o.ran == 0 then (if o.status == 404 then none else some "not-found-handling")
  else if o.ran != 1 then some "handler-ran-twice"
  else
    let ps := paramSegs written
    if (paramSegs declared).isEmpty && ps.isEmpty then none   -- not a parameterised pattern
    else if o.names != (paramSegs declared).map (·.paramName) then some "declared-names"
    else if o.vals.length != ps.length || (paramSegs routed).length != ps.length ||
            (paramSegs declared).length != ps.length then some "arity"
    else if !substitutionOK cfg use routed o.vals o.path then some "substitution"
    else if (constraintViolation chkDeclared ps o.vals).isSome then some "constraints"
    else if !requiredNonEmpty ps o.vals then some "required-nonempty"
    else if !namedNoSlash ps o.vals then some "named-no-slash"
    else if o.extra != (extraKeys o.names).map (specLookup cfg o.names o.vals) then some "params-lookup"
    else none

end C02
