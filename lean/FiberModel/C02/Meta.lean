import FiberModel.C02.Match
/-
C02 — the invariant of `addParameterMetaInfo`'s output that the soundness proofs use (`MetaOK`),
and the proof that every parsed pattern satisfies it.
-/
namespace C02
open B

/-- The `comparePart` variable of `addParameterMetaInfo` at the head of a list: the constant of the
    first constant segment, minus trailing slashes when longer than one byte; empty if there is no
    constant segment. -/
def nextConstCmp : List Seg → Bytes
  | [] => []
  | s :: rest =>
    if s.isParam then nextConstCmp rest
    else cmpOfConst s.const

/-- Invariant of a segment list after `addParameterMetaInfo`:
    * a constant's `Length` is the length of its text;
    * `HasOptionalSlash` only on a constant that ends in `/` and is last or followed by an optional
      parameter (`slashOpt`, the spec's reading of "the pattern makes the slash optional");
    * a parameter's `ComparePart` is the (escape-free) text of the next constant segment. -/
def MetaOK : List Seg → Prop
  | [] => True
  | s :: rest =>
    (s.isParam = false → s.length = s.const.length ∧ (s.hasOptionalSlash = true → slashOpt s rest = true)) ∧
    (s.isParam = true → s.comparePart = removeEscapeChar (nextConstCmp rest)) ∧
    MetaOK rest

theorem MetaOK.tail {s : Seg} {rest : List Seg} (h : MetaOK (s :: rest)) : MetaOK rest := h.2.2

/-- what `metaForward` needs from its input -/
def Pre : List Seg → Prop
  | [] => True
  | s :: rest =>
    s.hasOptionalSlash = false ∧ (s.isLast = true → rest = []) ∧
    (s.isParam = false → s.isOptional = false ∧ s.length = s.const.length) ∧
    (s.isParam = true → s.comparePart = removeEscapeChar (nextConstCmp rest)) ∧
    Pre rest

theorem CoreL.nextConstCmp_eq {l l' : List Seg} (h : CoreL l l') : nextConstCmp l' = nextConstCmp l := by
  induction h with
  | nil => rfl
  | cons hab _ ih =>
    unfold nextConstCmp
    rw [hab.1, hab.2.1, ih]

theorem CoreL.length_eq {l l' : List Seg} (h : CoreL l l') : l'.length = l.length := by
  induction h with
  | nil => rfl
  | cons _ _ ih => simp [ih]

theorem metaForward_metaOK : (l l' : List Seg) → Pre l → metaForward l = some l' → MetaOK l'
  | [], l', _, h => by unfold metaForward at h; cases h; trivial
  | s :: rest, l', hpre, h => by
    obtain ⟨p1, p2, p3, p4, p5⟩ := hpre
    unfold metaForward at h
    cases hr : metaForward rest with
    | none => simp [hr] at h
    | some rest' =>
      have ih := metaForward_metaOK rest rest' p5 hr
      have hcore := metaForward_core rest rest' hr
      simp only [hr] at h
      cases hp : s.isParam
      · simp only [hp, Bool.false_eq_true, if_false] at h
        have p3' := p3 hp
        cases hl : s.const.getLast? with
        | none => simp [hl] at h
        | some l =>
          simp only [hl] at h
          by_cases hc : (l == SLASH && (s.isLast || nextOptional rest)) = true
          · rw [if_pos hc] at h
            cases h
            refine ⟨fun _ => ⟨p3'.2, fun _ => ?_⟩, fun hh => (by simp at hh), ih⟩
            simp only [Bool.and_eq_true, beq_iff_eq, Bool.or_eq_true] at hc
            unfold slashOpt
            simp only [hl, hc.1, beq_self_eq_true, Bool.true_and]
            rcases hc.2 with hlast | hopt
            · have := p2 hlast
              subst this
              cases hcore
              rfl
            · cases hcore with
              | nil => simp [nextOptional] at hopt
              | @cons a b' as bs hab _ =>
                simp only [nextOptional] at hopt
                simp only [Bool.and_eq_true]
                have hap : a.isParam = true := by
                  cases hq : a.isParam
                  · have := (p5.2.2.1 hq).1; rw [hopt] at this; cases this
                  · rfl
                exact ⟨by rw [hab.2.1]; exact hap, by rw [hab.2.2.2.1]; exact hopt⟩
          · rw [if_neg hc] at h
            cases h
            refine ⟨fun _ => ⟨p3'.2, fun hh => (by rw [p1] at hh; cases hh)⟩, fun hh => (by rw [hp] at hh; cases hh), ih⟩
      · simp only [hp, if_true] at h
        cases h
        refine ⟨fun hh => ?_, fun _ => ?_, ih⟩
        · exfalso
          revert hh
          (repeat' split) <;> simp [hp]
        · have hcmp : ∀ (x : Seg), x.comparePart = s.comparePart → x.comparePart = removeEscapeChar (nextConstCmp rest') := by
            intro x hx; rw [hx, p4 hp, hcore.nextConstCmp_eq]
          apply hcmp
          (repeat' split) <;> rfl

theorem setCompareParts_snd : (l : List Seg) → (setCompareParts l).2 = nextConstCmp l
  | [] => by unfold setCompareParts nextConstCmp; rfl
  | s :: rest => by
    have ih := setCompareParts_snd rest
    unfold setCompareParts nextConstCmp
    cases hp : s.isParam
    · simp
    · simp [ih]

/-- input condition for `setCompareParts` -/
def Pre0 : List Seg → Prop
  | [] => True
  | s :: rest =>
    s.hasOptionalSlash = false ∧ (s.isLast = true → rest = []) ∧
    (s.isParam = false → s.isOptional = false ∧ s.length = s.const.length) ∧ Pre0 rest

theorem setCompareParts_pre : (l : List Seg) → Pre0 l → Pre (setCompareParts l).1
  | [], _ => by unfold setCompareParts; trivial
  | s :: rest, h => by
    obtain ⟨q1, q2, q3, q4⟩ := h
    have ih := setCompareParts_pre rest q4
    have hcore := setCompareParts_core rest
    have hnil : rest = [] → (setCompareParts rest).1 = [] := by
      intro h; subst h; unfold setCompareParts; rfl
    unfold setCompareParts
    cases hp : s.isParam
    · simp only [Bool.false_eq_true, if_false]
      exact ⟨q1, fun hh => hnil (q2 hh), fun _ => q3 hp, fun hh => (by rw [hp] at hh; cases hh), ih⟩
    · simp only [if_true]
      refine ⟨q1, fun hh => hnil (q2 hh), fun hh => (by simp at hh), fun _ => ?_, ih⟩
      simp only
      rw [setCompareParts_snd, hcore.nextConstCmp_eq]

theorem markLast_pre0 : (l : List Seg) → (∀ s ∈ l, RawOK s) → Pre0 (markLast l)
  | [], _ => by unfold markLast; trivial
  | [s], h => by
    have hs := h s (List.mem_cons_self ..)
    unfold markLast
    exact ⟨hs.1, fun _ => rfl, fun hp => ⟨(hs.2.2.1 hp).2, (hs.2.2.1 hp).1⟩, trivial⟩
  | s :: t :: rest, h => by
    have hs := h s (List.mem_cons_self ..)
    have ih := markLast_pre0 (t :: rest) (fun x hx => h x (List.mem_cons_of_mem _ hx))
    unfold markLast
    exact ⟨hs.1, fun hh => (by rw [hs.2.1] at hh; cases hh), fun hp => ⟨(hs.2.2.1 hp).2, (hs.2.2.1 hp).1⟩, ih⟩

/-- Every parsed pattern satisfies the matcher invariant. -/
theorem parseRoute_metaOK {p : Bytes} {pp : Parser} (h : parseRoute p = some pp) : MetaOK pp.segs := by
  unfold parseRoute at h
  cases hr : parseLoop p.length p 0 0 with
  | none => simp [hr] at h
  | some raw =>
    simp only [hr] at h
    unfold addParameterMetaInfo at h
    cases hm : metaForward (setCompareParts (markLast raw)).1 with
    | none => simp [hm] at h
    | some segs =>
      simp only [hm, Option.some.injEq] at h
      subst h
      exact metaForward_metaOK _ _ (setCompareParts_pre _ (markLast_pre0 raw (parseLoop_raw _ _ _ _ raw hr))) hm

end C02
