import FiberModel.C02.Trailing
import FiberModel.C02.Sound
/-
C02 — (B), continued: the shape of a parameter, `analyseParameterPart` and the parse loop on
`q ++ slashes`.
-/
namespace C02
open B

/-- the end offset `analyseParameterPart` computes -/
def paramEnd (p : Bytes) : Nat :=
  let c0 := p.headD 0
  let pe0 : Option Nat :=
    if p.contains LT && p.contains GT then findCharsetConstraint (p.drop 1) paramEndChars
    else fnne (p.drop 1) paramEndChars
  if c0 == STAR || c0 == PLUS then 0
  else match pe0 with
    | none => p.length - 1
    | some e => if paramDelimChars.contains (p.getD (e + 1) 0) then e else e + 1

theorem paramShape_def (p : Bytes) :
    paramShape p =
      { pe := paramEnd p,
        cS := if paramEnd p > 0 then fnnecp (p.take (paramEnd p)) LT else none,
        cE := if paramEnd p > 0 then lastIndexByte (p.take (paramEnd p + 1)) GT else none,
        isWild := p.headD 0 == STAR, isPlus := p.headD 0 == PLUS,
        isOpt := p.headD 0 == STAR || p.getD (paramEnd p) 0 == QMARK } := rfl

/-- The corner: the parameter text starting at `q` has a '/' that the bracket scan does not accept
    as its end, and no other end character: it takes the whole rest of the pattern. -/
def swallows (q : Bytes) : Bool :=
  q.contains LT && q.contains GT && !(q.headD 0 == STAR) && !(q.headD 0 == PLUS) &&
  (findCharsetConstraint (q.drop 1) paramEndChars).isNone && (q.drop 1).contains SLASH

theorem contains_append_slashes {sl : Bytes} (hsl : Slashes sl) {ch : Nat} (hch : ch ≠ SLASH) (q : Bytes) :
    (q ++ sl).contains ch = q.contains ch := by
  simp only [List.contains_append, hsl.not_contains hch, Bool.or_false]

theorem paramEnd_append {sl : Bytes} (hsl : Slashes sl) {q : Bytes} (hq : q ≠ []) (hns : swallows q = false) :
    paramEnd (q ++ sl) = paramEnd q ∧ paramEnd q < q.length := by
  obtain ⟨c, rest, rfl⟩ : ∃ c rest, q = c :: rest := by
    cases q with
    | nil => exact absurd rfl hq
    | cons c rest => exact ⟨c, rest, rfl⟩
  by_cases hsle : sl = []
  · subst hsle
    rw [List.append_nil]
    refine ⟨by first | rfl | trivial, ?_⟩
    unfold paramEnd
    simp only [List.headD_cons, List.drop_succ_cons, List.drop_zero, List.length_cons]
    split
    · omega
    · split
      · omega
      · rename_i e he
        have hlt : e < rest.length := by
          split at he
          · exact findCharsetConstraint_lt he
          · rw [fnne_endChars] at he; exact findCharset_lt rest e he
        split <;> omega
  · unfold paramEnd swallows at *
    simp only [List.cons_append, List.headD_cons, List.drop_succ_cons, List.drop_zero, List.length_cons,
      List.length_append] at *
    have hcLT : ((c :: (rest ++ sl)).contains LT) = ((c :: rest).contains LT) := by
      have := contains_append_slashes hsl (ch := LT) (by decide) (c :: rest)
      simpa using this
    have hcGT : ((c :: (rest ++ sl)).contains GT) = ((c :: rest).contains GT) := by
      have := contains_append_slashes hsl (ch := GT) (by decide) (c :: rest)
      simpa using this
    rw [hcLT, hcGT]
    by_cases hstar : (c == STAR || c == PLUS) = true
    · simp only [hstar, if_true]; exact ⟨by first | rfl | trivial, by omega⟩
    · simp only [hstar, Bool.false_eq_true, if_false]
      have hstar' : (c == STAR) = false ∧ (c == PLUS) = false := by
        simpa [Bool.or_eq_false_iff] using hstar
      -- the end position on `rest ++ sl` in terms of the one on `rest`
      have key : ∀ (pe0 pe0' : Option Nat),
          (∀ e, pe0 = some e → e < rest.length) →
          pe0' = some (pe0.getD rest.length) →
          (match pe0' with
            | none => rest.length + sl.length + 1 - 1
            | some e => if paramDelimChars.contains ((c :: (rest ++ sl)).getD (e + 1) 0) = true then e else e + 1) =
          (match pe0 with
            | none => rest.length + 1 - 1
            | some e => if paramDelimChars.contains ((c :: rest).getD (e + 1) 0) = true then e else e + 1) ∧
          (match pe0 with
            | none => rest.length + 1 - 1
            | some e => if paramDelimChars.contains ((c :: rest).getD (e + 1) 0) = true then e else e + 1) <
            rest.length + 1 := by
        intro pe0 pe0' hb he
        subst he
        cases pe0 with
        | some e =>
          have hlt := hb e rfl
          simp only [Option.getD_some]
          have hg : (c :: (rest ++ sl)).getD (e + 1) 0 = (c :: rest).getD (e + 1) 0 := by
            have := getD_append_lt (c :: rest) sl (k := e + 1) (by simp; omega)
            simpa using this
          rw [hg]
          refine ⟨rfl, ?_⟩
          split <;> omega
        | none =>
          simp only [Option.getD_none]
          have hg : (c :: (rest ++ sl)).getD (rest.length + 1) 0 = SLASH := by
            cases sl with
            | nil => exact absurd rfl hsle
            | cons x xs =>
              have hx : x = SLASH := hsl x (List.mem_cons_self ..)
              simp [List.getD_eq_getElem?_getD, hx]
          rw [hg]
          have : paramDelimChars.contains SLASH = true := by decide
          simp only [this, if_true]
          omega
      by_cases hb : ((c :: rest).contains LT && (c :: rest).contains GT) = true
      · simp only [hb, if_true] at hns ⊢
        apply key
        · intro e he; exact findCharsetConstraint_lt he
        · rw [findCharsetConstraint_append hsl hsle]
          cases hcs : rest.contains SLASH
          · simp only [Bool.false_eq_true, if_false]
            cases findCharsetConstraint rest paramEndChars <;> rfl
          · simp only [if_true]
            cases hf : findCharsetConstraint rest paramEndChars with
            | some e => rfl
            | none =>
              exfalso
              simp only [hstar'.1, hstar'.2, Bool.not_false, Bool.and_true, Bool.true_and, hf,
                Option.isNone_none, hcs, Bool.true_eq_false] at hns
      · simp only [hb, Bool.false_eq_true, if_false]
        apply key
        · intro e he; rw [fnne_endChars] at he; exact findCharset_lt rest e he
        · rw [fnne_endChars, fnne_endChars, findCharset_append (by decide) hsl hsle]
          cases findCharset rest paramEndChars <;> rfl

theorem paramShape_append {sl : Bytes} (hsl : Slashes sl) {q : Bytes} (hq : q ≠ []) (hns : swallows q = false) :
    paramShape (q ++ sl) = paramShape q ∧ (paramShape q).pe < q.length := by
  obtain ⟨hpe, hlt⟩ := paramEnd_append hsl hq hns
  refine ⟨?_, hlt⟩
  rw [paramShape_def, paramShape_def, hpe]
  have hhead : (q ++ sl).headD 0 = q.headD 0 := by
    cases q with
    | nil => exact absurd rfl hq
    | cons _ _ => rfl
  rw [hhead, List.take_append_of_le_length (Nat.le_of_lt hlt), List.take_append_of_le_length (by omega),
    getD_append_lt q sl hlt]

theorem shape_bounds (p : Bytes) :
    (∀ s, (paramShape p).cS = some s → s < (paramShape p).pe) ∧
    (∀ e, (paramShape p).cE = some e → e < (paramShape p).pe + 1) := by
  rw [paramShape_def]
  simp only
  constructor
  · intro s hs
    split at hs
    · have := fnnecpGo_lt none _ s hs
      simp only [List.length_take] at this; omega
    · cases hs
  · intro e he
    split at he
    · have := lastIndexByte_lt _ e he
      simp only [List.length_take] at this; omega
    · cases he

/-- texts cut inside the first `pe + 1` bytes do not see what is appended behind them -/
theorem mkParam_append (sh : Shape) (q sl : Bytes) (wc pc : Nat) (hpe : sh.pe < q.length)
    (hs : ∀ s, sh.cS = some s → s < sh.pe) (he : ∀ e, sh.cE = some e → e < sh.pe + 1) :
    mkParam sh (q ++ sl) (q ++ sl) wc pc = mkParam sh q q wc pc := by
  have hcons : consOf sh (q ++ sl) = consOf sh q := by
    unfold consOf
    cases hcs : sh.cS with
    | none => rfl
    | some s =>
      cases hce : sh.cE with
      | none => rfl
      | some e =>
        have := he e hce
        simp only
        rw [List.take_append_of_le_length (by omega)]
  have hname : nameOf sh (q ++ sl) = nameOf sh q := by
    unfold nameOf
    cases hcs : sh.cS with
    | none => simp only; rw [List.take_append_of_le_length (by omega)]
    | some s =>
      cases hce : sh.cE with
      | none => simp only; rw [List.take_append_of_le_length (by omega)]
      | some e =>
        have := hs s hcs
        simp only
        rw [List.take_append_of_le_length (by omega)]
  unfold mkParam
  rw [hcons, hname]

theorem analyseParameterPart_append {sl : Bytes} (hsl : Slashes sl) {q : Bytes} (hq : q ≠ [])
    (hns : swallows q = false) (wc pc : Nat) :
    analyseParameterPart (q ++ sl) wc pc = analyseParameterPart q wc pc ∧
    ∀ n seg wc' pc', analyseParameterPart q wc pc = some (n, seg, wc', pc') → 1 ≤ n ∧ n ≤ q.length := by
  obtain ⟨hsh, hlt⟩ := paramShape_append hsl hq hns
  obtain ⟨hb1, hb2⟩ := shape_bounds q
  constructor
  · rw [analyseParameterPart_eq, analyseParameterPart_eq, hsh]
    exact mkParam_append _ q sl wc pc hlt hb1 hb2
  · intro n seg wc' pc' h
    rw [analyseParameterPart_eq] at h
    unfold mkParam at h
    cases hc : consOf (paramShape q) q with
    | none => rw [hc] at h; cases h
    | some cs =>
      rw [hc] at h
      simp only [Option.some.injEq, Prod.mk.injEq] at h
      omega

/-! ### the parse loop -/

theorem parseLoop_nil (fuel : Nat) (wc pc : Nat) : parseLoop fuel [] wc pc = some [] := by
  cases fuel <;> rfl

theorem findNextParamPosition_slashes {sl : Bytes} (hsl : Slashes sl) : findNextParamPosition sl = none := by
  have := findNextParamPosition_append hsl []
  rw [List.nil_append] at this
  rw [this]; rfl

theorem parseLoop_slashes {sl : Bytes} (hsl : Slashes sl) (fuel : Nat) (hf : sl.length ≤ fuel) (wc pc : Nat) :
    (parseLoop fuel sl wc pc).map paramSegs = some [] := by
  cases fuel with
  | zero =>
    have : sl = [] := List.eq_nil_of_length_eq_zero (by omega)
    subst this; rfl
  | succ fuel =>
    unfold parseLoop
    split
    · rfl
    · rw [findNextParamPosition_slashes hsl]
      simp only [analyseConstantPart, List.drop_length, parseLoop_nil]
      rfl

/-- no suffix of `q` is in the corner -/
def NoSwallow (q : Bytes) : Prop := ∀ i, swallows (q.drop i) = false

theorem NoSwallow.drop {q : Bytes} (h : NoSwallow q) (k : Nat) : NoSwallow (q.drop k) := by
  intro i
  rw [List.drop_drop]
  exact h _

/-- **(B)** Trailing slashes change no parameter segment. -/
theorem parseLoop_append_slashes {sl : Bytes} (hsl : Slashes sl) : (f2 : Nat) → (f1 : Nat) → (q : Bytes) →
    (wc pc : Nat) → q.length ≤ f2 → q.length + sl.length ≤ f1 → NoSwallow q →
    (parseLoop f1 (q ++ sl) wc pc).map paramSegs = (parseLoop f2 q wc pc).map paramSegs
  | f2, f1, [], wc, pc, _, h1, _ => by
    rw [List.nil_append, parseLoop_nil, parseLoop_slashes hsl f1 (by simp only [List.length_nil, Nat.zero_add] at h1; exact h1)]
    rfl
  | 0, _, _ :: _, _, _, h2, _, _ => by simp at h2
  | f2 + 1, 0, c :: rest, _, _, _, h1, _ => by simp at h1
  | f2 + 1, f1 + 1, c :: rest, wc, pc, h2, h1, hns => by
    have hq : (c :: rest) ≠ [] := by simp
    have hns0 : swallows (c :: rest) = false := by have := hns 0; simpa using this
    unfold parseLoop
    rw [findNextParamPosition_append hsl]
    have he1 : ((c :: rest) ++ sl).isEmpty = false := rfl
    have he2 : (c :: rest).isEmpty = false := rfl
    rw [he1, he2]
    simp only [Bool.false_eq_true, if_false]
    split
    · -- a parameter
      obtain ⟨hap, hn⟩ := analyseParameterPart_append hsl hq hns0 wc pc
      rw [hap]
      cases ha : analyseParameterPart (c :: rest) wc pc with
      | none => rfl
      | some r =>
        obtain ⟨n, seg, wc', pc'⟩ := r
        obtain ⟨hn1, hn2⟩ := hn n seg wc' pc' ha
        simp only
        rw [List.drop_append_of_le_length hn2]
        have ih := parseLoop_append_slashes hsl f2 f1 ((c :: rest).drop n) wc' pc'
          (by simp only [List.length_drop, List.length_cons] at h2 ⊢; omega)
          (by simp only [List.length_drop, List.length_cons] at h1 ⊢; omega) (hns.drop n)
        cases hl1 : parseLoop f1 (List.drop n (c :: rest) ++ sl) wc' pc' <;>
          cases hl2 : parseLoop f2 (List.drop n (c :: rest)) wc' pc' <;>
          rw [hl1, hl2] at ih <;> simp only [Option.map_some, Option.map_none] at ih ⊢
        · cases ih
        · cases ih
        · simp only [Option.some.injEq] at ih
          rw [paramSegs_cons, paramSegs_cons, ih]
    · -- a constant
      rename_i hnp
      cases hp : findNextParamPosition (c :: rest) with
      | none =>
        simp only [analyseConstantPart, List.drop_length, parseLoop_nil, Option.map_some]
        rfl
      | some k =>
        have hk := findNextParamPosition_lt hp
        simp only [analyseConstantPart]
        rw [List.take_append_of_le_length (Nat.le_of_lt hk)]
        have hlen : ((c :: rest).take k).length = k := by
          rw [List.length_take]; omega
        rw [hlen, List.drop_append_of_le_length (Nat.le_of_lt hk)]
        have hk0 : k ≠ 0 := by
          intro h0; subst h0; exact hnp hp
        have ih := parseLoop_append_slashes hsl f2 f1 ((c :: rest).drop k) wc pc
          (by simp only [List.length_drop, List.length_cons] at h2 ⊢; omega)
          (by simp only [List.length_drop, List.length_cons] at h1 ⊢; omega) (hns.drop k)
        cases hl1 : parseLoop f1 (List.drop k (c :: rest) ++ sl) wc pc <;>
          cases hl2 : parseLoop f2 (List.drop k (c :: rest)) wc pc <;>
          rw [hl1, hl2] at ih <;> simp only [Option.map_some, Option.map_none] at ih ⊢
        · cases ih
        · cases ih
        · simp only [Option.some.injEq] at ih
          rw [paramSegs_cons, paramSegs_cons, ih]

end C02
