import FiberModel.C02.Meta
/-
C02 — the inductions behind the property theorems (helper file; the property theorems themselves
are in Props.lean).
-/
namespace C02
open B

/-! ### alignment of detection path and user path -/

/-- `det` is a prefix of the byte-wise image of `path` (lower-casing, then trailing slashes cut). -/
def Aligned (f : Nat → Nat) (det path : Bytes) : Prop := det <+: path.map f

theorem Aligned.nil (f : Nat → Nat) (path : Bytes) : Aligned f [] path := List.nil_prefix

theorem Aligned.length_le {f : Nat → Nat} {det path : Bytes} (h : Aligned f det path) :
    det.length ≤ path.length := by
  have := List.IsPrefix.length_le h
  simpa using this

theorem Aligned.drop {f : Nat → Nat} {det path : Bytes} (h : Aligned f det path) (i : Nat)
    (hi : i ≤ det.length) : Aligned f (det.drop i) (path.drop i) := by
  obtain ⟨t, ht⟩ := h
  refine ⟨t, ?_⟩
  rw [List.map_drop, ← ht, List.drop_append_of_le_length hi]

theorem Aligned.take {f : Nat → Nat} {det path : Bytes} (h : Aligned f det path) (i : Nat)
    (hi : i ≤ det.length) : (path.take i).map f = det.take i := by
  obtain ⟨t, ht⟩ := h
  rw [List.map_take, ← ht, List.take_append_of_le_length hi]

theorem isPrefixOf_take (det : Bytes) (i : Nat) : (det.take i).isPrefixOf det = true := by
  rw [List.isPrefixOf_iff_prefix]; exact List.take_prefix i det

/-! ### T1: substitution -/

theorem getMatch_renders (f : Nat → Nat) {chk : Constraint → Bytes → Bool} {pc : Bool} :
    (segs : List Seg) → (det path : Bytes) → (vs : List Bytes) → MetaOK segs → Aligned f det path →
    getMatch chk segs det path pc = some vs → renders segs (vs.map (·.map f)) det pc = true
  | [], det, path, vs, _, _, h => by
    unfold getMatch at h
    split at h
    · cases h
    · rename_i hc
      cases h
      unfold renders
      cases hd : det.isEmpty <;> cases hp : pc <;> simp_all
  | seg :: rest, det, path, vs, hm, hal, h => by
    cases hp : seg.isParam
    · -- constant
      have hmc := hm.1 hp
      rcases getMatch_const_step h hp with ⟨ho, hpos, hlen, hd, hrec⟩ | ⟨hle, hd, hrec⟩
      · have ih := getMatch_renders f rest [] _ vs hm.tail (Aligned.nil f _) hrec
        unfold renders
        simp only [hp, Bool.false_eq_true, if_false, Bool.or_eq_true, Bool.and_eq_true, beq_iff_eq]
        right
        refine ⟨⟨hmc.2 ho, ?_⟩, ih⟩
        rw [hd, hmc.1, List.dropLast_eq_take]
      · have ih := getMatch_renders f rest _ _ vs hm.tail (hal.drop _ hle) hrec
        unfold renders
        simp only [hp, Bool.false_eq_true, if_false, Bool.or_eq_true, Bool.and_eq_true]
        left
        rw [← hmc.1]
        exact ⟨by rw [← hd]; exact isPrefixOf_take det _, ih⟩
    · -- parameter
      obtain ⟨vs', hv, _, _, hrec⟩ := getMatch_param_step h hp
      have hle := paramLen_le det seg rest
      have ih := getMatch_renders f rest _ _ vs' hm.tail (hal.drop _ hle) hrec
      subst hv
      unfold renders
      simp only [hp, if_true, List.map_cons, Bool.and_eq_true]
      rw [hal.take _ hle]
      refine ⟨isPrefixOf_take det _, ?_⟩
      rw [List.length_take, Nat.min_eq_left hle]
      exact ih

/-! ### T2: constraints -/

theorem paramSegs_cons (s : Seg) (rest : List Seg) :
    paramSegs (s :: rest) = if s.isParam then s :: paramSegs rest else paramSegs rest := by
  unfold paramSegs
  cases h : s.isParam <;> simp [List.filter, h]

theorem getMatch_constraints {chk : Constraint → Bytes → Bool} {pc : Bool} :
    (segs : List Seg) → (det path : Bytes) → (vs : List Bytes) →
    getMatch chk segs det path pc = some vs → constraintViolation chk (paramSegs segs) vs = none
  | [], det, path, vs, h => by
    unfold paramSegs; simp [constraintViolation]
  | seg :: rest, det, path, vs, h => by
    rw [paramSegs_cons]
    cases hp : seg.isParam
    · simp only [Bool.false_eq_true, if_false]
      rcases getMatch_const_step h hp with ⟨_, _, _, _, hrec⟩ | ⟨_, _, hrec⟩
      · exact getMatch_constraints rest _ _ vs hrec
      · exact getMatch_constraints rest _ _ vs hrec
    · simp only [if_true]
      obtain ⟨vs', hv, _, hcs, hrec⟩ := getMatch_param_step h hp
      have ih := getMatch_constraints rest _ _ vs' hrec
      subst hv
      unfold constraintViolation
      split
      · exact ih
      · rename_i hne
        have hall : seg.constraints.all (chk · (path.take (paramLen det seg rest))) = true := by
          apply hcs
          intro ⟨ho, h0⟩
          apply hne
          simp [ho, h0]
        have hfind : seg.constraints.find? (fun c => !chk c (path.take (paramLen det seg rest))) = none := by
          rw [List.find?_eq_none]
          intro c hc
          rw [List.all_eq_true] at hall
          simp [hall c hc]
        simp only [hfind]
        exact ih

/-! ### T3: required parameters are non-empty -/

theorem getMatch_required (f : Nat → Nat) {chk : Constraint → Bytes → Bool} {pc : Bool} :
    (segs : List Seg) → (det path : Bytes) → (vs : List Bytes) → Aligned f det path →
    getMatch chk segs det path pc = some vs → requiredNonEmpty (paramSegs segs) vs = true
  | [], det, path, vs, _, h => by
    unfold paramSegs; simp [requiredNonEmpty]
  | seg :: rest, det, path, vs, hal, h => by
    rw [paramSegs_cons]
    cases hp : seg.isParam
    · simp only [Bool.false_eq_true, if_false]
      rcases getMatch_const_step h hp with ⟨_, _, _, _, hrec⟩ | ⟨hle, _, hrec⟩
      · exact getMatch_required f rest _ _ vs (Aligned.nil f _) hrec
      · exact getMatch_required f rest _ _ vs (hal.drop _ hle) hrec
    · simp only [if_true]
      obtain ⟨vs', hv, hreq, _, hrec⟩ := getMatch_param_step h hp
      have hle := paramLen_le det seg rest
      have ih := getMatch_required f rest _ _ vs' (hal.drop _ hle) hrec
      subst hv
      unfold requiredNonEmpty
      simp only [Bool.and_eq_true, Bool.or_eq_true, Bool.not_eq_true', ih, and_true]
      rcases hreq with ho | hne
      · left; exact ho
      · right
        have hl : (path.take (paramLen det seg rest)).length = paramLen det seg rest := by
          rw [List.length_take]; have := hal.length_le; omega
        cases hv : path.take (paramLen det seg rest) with
        | nil => rw [hv] at hl; simp at hl; omega
        | cons _ _ => rfl

/-! ### T4: named parameters never span a slash -/

/-- If the rest of the pattern matches the empty detection path, the next constant segment (if
    any) is `/` (taken through the optional-slash shortcut) or empty. -/
theorem getMatch_nil_cmp {chk : Constraint → Bytes → Bool} {pc : Bool} :
    (rest : List Seg) → (path : Bytes) → (vs : List Bytes) → MetaOK rest →
    getMatch chk rest [] path pc = some vs → nextConstCmp rest = [] ∨ nextConstCmp rest = [SLASH]
  | [], _, _, _, _ => Or.inl rfl
  | seg :: rest, path, vs, hm, h => by
    unfold nextConstCmp
    cases hp : seg.isParam
    · simp only [Bool.false_eq_true, if_false]
      have hmc := hm.1 hp
      rcases getMatch_const_step h hp with ⟨ho, hpos, hlen, _, _⟩ | ⟨hle, _, _⟩
      · have h1 : seg.const.length = 1 := by simp at hlen; omega
        have hs := hmc.2 ho
        unfold slashOpt at hs
        simp only [Bool.and_eq_true, beq_iff_eq] at hs
        right
        match hc : seg.const, h1, hs.1 with
        | [x], _, hx => simp at hx; simp [hx, cmpOfConst]
      · have h0 : seg.const.length = 0 := by simp at hle; omega
        left
        simp [List.eq_nil_of_length_eq_zero h0, cmpOfConst]
    · simp only [if_true]
      obtain ⟨vs', _, _, _, hrec⟩ := getMatch_param_step h hp
      simp only [List.drop_nil] at hrec
      exact getMatch_nil_cmp rest _ vs' hm.tail hrec

theorem take_length_self (s : Bytes) : s.take s.length = s := List.take_length

/-- The bytes a non-greedy parameter consumes contain no `/`, provided the rest of the pattern
    goes on to match (that is what rules out the "delimiter not found" fall-through). -/
theorem findParamLen_noSlash {chk : Constraint → Bytes → Bool} {pc : Bool} {seg : Seg} {rest : List Seg}
    {det path' : Bytes} {vs' : List Bytes}
    (hm : MetaOK (seg :: rest)) (hp : seg.isParam = true) (hg : seg.isGreedy = false)
    (hrec : getMatch chk rest (det.drop (findParamLen det seg)) path' pc = some vs') :
    (det.take (findParamLen det seg)).contains SLASH = false := by
  have hcmp := hm.2.1 hp
  -- the fall-through case: nothing found, the parameter takes everything
  have fall : findParamLen det seg = det.length →
      (seg.comparePart = [] ∨ seg.comparePart = [SLASH]) := by
    intro hi
    rw [hi, List.drop_length] at hrec
    rcases getMatch_nil_cmp rest _ vs' hm.tail hrec with h | h
    · left; rw [hcmp, h]; rfl
    · right; rw [hcmp, h]; rfl
  unfold findParamLen at *
  split
  · -- last segment
    rename_i hl
    simp only [hl, if_true] at *
    unfold findParamLenForLastSegment
    simp only [hg, Bool.not_false, if_true]
    split
    · rename_i i hi; exact indexByte_take det SLASH i hi
    · rename_i hi; rw [take_length_self]; exact indexByte_none det SLASH hi
  · rename_i hl
    simp only [hl, Bool.false_eq_true, if_false] at fall hrec
    split
    · split
      · simp
      · rename_i hc; simpa using hc
    · rename_i hlen
      simp only [hlen, if_false, hg, Bool.false_and, Bool.false_eq_true, Bool.not_false, Bool.true_and] at fall hrec ⊢
      split
      · rename_i h1
        simp only [h1, if_true] at fall hrec
        split
        · rename_i k hk
          split
          · simp
          · rename_i hc; simpa using hc
        · rename_i hk
          simp only [hk] at fall
          rcases fall trivial with h | h
          · rw [h] at h1; simp at h1
          · rw [h] at hk
            rw [take_length_self]
            exact indexByte_none det SLASH (by simpa using hk)
      · rename_i h1
        simp only [h1, Bool.false_eq_true, if_false] at fall hrec
        split
        · rename_i k hk
          split
          · simp
          · rename_i hc; simpa using hc
        · rename_i hk
          simp only [hk] at fall
          rcases fall trivial with h | h
          · rw [h, indexOf_nil] at hk; cases hk
          · rw [h] at h1; simp at h1

/-- The same for `findParamLen(s, segment, following)`: when the full constant replaces the compare
    part the path holds it, so the "delimiter not found" fall-through does not arise at all. -/
theorem paramLen_noSlash {chk : Constraint → Bytes → Bool} {pc : Bool} {seg : Seg} {rest : List Seg}
    {det path' : Bytes} {vs' : List Bytes}
    (hm : MetaOK (seg :: rest)) (hp : seg.isParam = true) (hg : seg.isGreedy = false)
    (hrec : getMatch chk rest (det.drop (paramLen det seg rest)) path' pc = some vs') :
    (det.take (paramLen det seg rest)).contains SLASH = false := by
  unfold paramLen at hrec ⊢
  split at hrec
  · exact findParamLen_noSlash hm hp hg hrec
  · rename_i seg' hfc
    simp only [hg, Bool.false_eq_true, if_false] at hrec ⊢
    -- replaced: `seg'.comparePart` occurs in `det`
    unfold fullConst at hfc
    split at hfc
    · cases hfc
    · rename_i hguard
      split at hfc
      · rename_i n tl
        split at hfc
        · rename_i hc
          cases hfc
          simp only [Bool.and_eq_true, decide_eq_true_eq] at hc
          simp only [Bool.or_eq_true, Bool.and_eq_true, bne_iff_ne, ne_eq, decide_eq_true_eq, not_or, not_and] at hguard
          have hl : seg.isLast = false := by
            cases h : seg.isLast
            · rfl
            · exact absurd h hguard.1
          obtain ⟨k, hk⟩ := Option.isSome_iff_exists.mp hc.2
          unfold findParamLen
          simp only [hl, Bool.false_eq_true, if_false, hg, Bool.false_and, Bool.not_false, Bool.true_and]
          have hlen : (seg.length != 0 && decide (det.length ≥ seg.length)) = false := by
            cases h : (seg.length != 0 && decide (det.length ≥ seg.length))
            · rfl
            · simp only [Bool.and_eq_true, bne_iff_ne, ne_eq, decide_eq_true_eq] at h
              exact absurd h.2 (by have := hguard.2 h.1; omega)
          simp only [hlen, Bool.false_eq_true, if_false]
          split
          · rename_i h1
            simp only [beq_iff_eq] at h1
            obtain ⟨c0, hc0⟩ : ∃ c0, n.const = [c0] := by
              match hcc : n.const, h1 with
              | [x], _ => exact ⟨x, rfl⟩
            rw [hc0] at hk ⊢
            rw [indexOf_singleton] at hk
            simp only [List.headD_cons, hk]
            split
            · simp
            · rename_i hcs; simpa using hcs
          · rw [hk]
            simp only
            split
            · simp
            · rename_i hcs; simpa using hcs
        · cases hfc
      · cases hfc

theorem contains_map_slash {f : Nat → Nat} (hf : ∀ c, f c = SLASH ↔ c = SLASH) (l : Bytes) :
    (l.map f).contains SLASH = l.contains SLASH := by
  induction l with
  | nil => rfl
  | cons x xs ih =>
    simp only [List.map_cons, List.contains_cons, ih]
    congr 1
    by_cases h : x = SLASH
    · subst h
      have h2 := (hf SLASH).mpr rfl
      simp [h2]
    · have h2 : f x ≠ SLASH := fun hh => h ((hf x).mp hh)
      have e1 : (SLASH == x) = false := beq_eq_false_iff_ne.mpr (Ne.symm h)
      have e2 : (SLASH == f x) = false := beq_eq_false_iff_ne.mpr (Ne.symm h2)
      have e3 : (x == SLASH) = false := beq_eq_false_iff_ne.mpr h
      have e4 : (f x == SLASH) = false := beq_eq_false_iff_ne.mpr h2
      simp only [e1, e2, e3, e4]

theorem getMatch_namedNoSlash (f : Nat → Nat) (hf : ∀ c, f c = SLASH ↔ c = SLASH)
    {chk : Constraint → Bytes → Bool} {pc : Bool} :
    (segs : List Seg) → (det path : Bytes) → (vs : List Bytes) → MetaOK segs → Aligned f det path →
    getMatch chk segs det path pc = some vs → namedNoSlash (paramSegs segs) vs = true
  | [], det, path, vs, _, _, h => by
    unfold paramSegs; simp [namedNoSlash]
  | seg :: rest, det, path, vs, hm, hal, h => by
    rw [paramSegs_cons]
    cases hp : seg.isParam
    · simp only [Bool.false_eq_true, if_false]
      rcases getMatch_const_step h hp with ⟨_, _, _, _, hrec⟩ | ⟨hle, _, hrec⟩
      · exact getMatch_namedNoSlash f hf rest _ _ vs hm.tail (Aligned.nil f _) hrec
      · exact getMatch_namedNoSlash f hf rest _ _ vs hm.tail (hal.drop _ hle) hrec
    · simp only [if_true]
      obtain ⟨vs', hv, _, _, hrec⟩ := getMatch_param_step h hp
      have hle := paramLen_le det seg rest
      have ih := getMatch_namedNoSlash f hf rest _ _ vs' hm.tail (hal.drop _ hle) hrec
      subst hv
      unfold namedNoSlash
      simp only [Bool.and_eq_true, Bool.or_eq_true, Bool.not_eq_true', ih, and_true]
      cases hg : seg.isGreedy
      · right
        have := paramLen_noSlash hm hp hg hrec
        rw [← hal.take _ hle, contains_map_slash hf] at this
        exact this
      · left; rfl

end C02
