import FiberModel.Basic
/-
C02/C03 — executable model of fiber's route-pattern parser and matcher.

Go sources transcribed (file/function cited per definition): /repo/path.go (parseRoute,
findNextParamPosition, analyseConstantPart, analyseParameterPart, addParameterMetaInfo, getMatch,
findParamLen, findParamLenForLastSegment, findGreedyParamLen, CheckConstraint, RoutePatternMatch,
RemoveEscapeChar, GetTrimmedParam, the findNext* helpers), /repo/router.go (register, Route.match),
/repo/ctx.go (configDependentPaths, Params).

The model follows the code *after* the `fix:` commits recorded in known/C02.json and known/C03.json:
  * Route.match / RoutePatternMatch: a route that declares parameters matches only through
    `getMatch` (no literal / prefix fallback);
  * findParamLen: the "no slash inside a non-greedy parameter" rule also in the one-byte-delimiter
    branch and in the one-character (adjacent parameters) rule;
  * findParamLen(s, segment, following) (a47187c, C03's former K1): when the path holds the following
    constant in full and that is longer than `ComparePart` (= it has trailing slashes), the full
    constant is searched for, `PartCount` is recounted for it and a greedy parameter searches from
    the right: `fullConst` / `paramLen`; `findParamLen` below is the function on the locals.

Go slice expressions that can panic (registration-time only) are modelled with `Option`:
`none` = the real code panics while registering the pattern.
Core Lean only: this file is linked into the drivers.
-/
namespace C02
open B

/-! ### byte constants -/
abbrev SLASH : Nat := 47
abbrev BSL : Nat := 92      -- '\\' escapeChar
abbrev STAR : Nat := 42
abbrev PLUS : Nat := 43
abbrev COLON : Nat := 58
abbrev QMARK : Nat := 63
abbrev LT : Nat := 60
abbrev GT : Nat := 62
abbrev SEMI : Nat := 59
abbrev LPAR : Nat := 40
abbrev RPAR : Nat := 41
abbrev COMMA : Nat := 44
abbrev DASH : Nat := 45
abbrev DOT : Nat := 46
abbrev PCT : Nat := 37
abbrev SPACE : Nat := 32

/-! ### string helpers (Go `strings` / fiber utils) -/

/-- path.go `RemoveEscapeChar`: drops *every* backslash. -/
def removeEscapeChar (s : Bytes) : Bytes := s.filter (· != BSL)

/-- `strings.Count(s, sep)` for non-empty `sep`: non-overlapping occurrences, left to right.
    `skip` = bytes of the current occurrence still to be stepped over. -/
def countGo (sep : Bytes) : Bytes → Nat → Nat
  | [], _ => 0
  | _ :: xs, skip + 1 => countGo sep xs skip
  | x :: xs, 0 =>
    if sep.isPrefixOf (x :: xs) then 1 + countGo sep xs (sep.length - 1) else countGo sep xs 0

/-- `strings.Count`. For the empty separator Go returns (rune count + 1); the matcher only uses
    that value in `> 1` (true iff `s ≠ ""`) and as a loop bound next to `PartCount`, which is 0
    when `ComparePart` is empty – `s.length + 1` is indistinguishable there. -/
def count (s sep : Bytes) : Nat :=
  if sep.isEmpty then s.length + 1 else countGo sep s 0

/-- `strings.LastIndex(s, sep)`: greatest offset at which `sep` occurs. -/
def lastIndexOf : Bytes → Bytes → Option Nat
  | [], sep => if sep.isEmpty then some 0 else none
  | x :: xs, sep =>
    match lastIndexOf xs sep with
    | some k => some (k + 1)
    | none => if sep.isPrefixOf (x :: xs) then some 0 else none

/-- `strings.LastIndexByte`. -/
def lastIndexByte : Bytes → Nat → Option Nat
  | [], _ => none
  | x :: xs, c =>
    match lastIndexByte xs c with
    | some k => some (k + 1)
    | none => if x == c then some 0 else none

/-! ### segments and constraints -/

/-- path.go `TypeConstraint`. -/
inductive CType
  | noC | int | bool | float | alpha | datetime | guid | minLen | maxLen | len | betweenLen
  | min | max | range | regex
  deriving DecidableEq, Repr

/-- path.go `Constraint` (the regex compiler and the custom-constraint list are behind the abstract
    predicate, see `checkConstraint`). -/
structure Constraint where
  id : CType
  name : Bytes
  data : List Bytes
  deriving DecidableEq, Repr

/-- path.go `routeSegment`. -/
structure Seg where
  const : Bytes := []
  paramName : Bytes := []
  comparePart : Bytes := []
  constraints : List Constraint := []
  partCount : Nat := 0
  length : Nat := 0
  isParam : Bool := false
  isGreedy : Bool := false
  isOptional : Bool := false
  isLast : Bool := false
  hasOptionalSlash : Bool := false
  deriving DecidableEq, Repr

/-! ### the parser -/

def paramStartChars : List Nat := [STAR, PLUS, COLON]
/-- `parameterDelimiterChars` = `: \ / - .` -/
def paramDelimChars : List Nat := [COLON, BSL, SLASH, DASH, DOT]
/-- `parameterEndChars` = `? : \ / - .` -/
def paramEndChars : List Nat := [QMARK, COLON, BSL, SLASH, DASH, DOT]

/-- path.go `findNextCharsetPosition`: least index of a byte of `charset` (the Go code takes the
    minimum of the per-character first positions, which is the same thing). -/
def findCharset : Bytes → List Nat → Option Nat
  | [], _ => none
  | x :: xs, cs => if cs.contains x then some 0 else (findCharset xs cs).map (· + 1)

/-- path.go `findNextNonEscapedCharsetPosition`. `prev` = the byte before the current position
    (`none` at offset 0: the Go loop condition is `pos > 0 && search[pos-1] == '\\'`). A candidate
    that is escaped and is the last byte ends the search with -1. -/
def fnneGo (cs : List Nat) : Option Nat → Bytes → Option Nat
  | _, [] => none
  | prev, c :: rest =>
    if cs.contains c then
      if prev == some BSL then
        (if rest.isEmpty then none else (fnneGo cs (some c) rest).map (· + 1))
      else some 0
    else (fnneGo cs (some c) rest).map (· + 1)

def fnne (s : Bytes) (cs : List Nat) : Option Nat := fnneGo cs none s

/-- path.go `findNextNonEscapedCharPosition`: first `i` with `s[i] = ch` and (`i = 0` or
    `s[i-1] ≠ '\\'`). -/
def fnnecpGo (ch : Nat) : Option Nat → Bytes → Option Nat
  | _, [] => none
  | prev, c :: rest =>
    if c == ch && prev != some BSL then some 0 else (fnnecpGo ch (some c) rest).map (· + 1)

def fnnecp (s : Bytes) (ch : Nat) : Option Nat := fnnecpGo ch none s

/-- path.go `splitNonEscaped` (fuel = length of the input + 1; every round consumes ≥ 1 byte). -/
def splitNonEscapedGo (sep : Nat) : Nat → Bytes → List Bytes
  | 0, s => [s]
  | fuel + 1, s =>
    match fnnecp s sep with
    | none => [s]
    | some i => s.take i :: splitNonEscapedGo sep fuel (s.drop (i + 1))

def splitNonEscaped (s : Bytes) (sep : Nat) : List Bytes := splitNonEscapedGo sep (s.length + 1) s

/-- path.go `findNextParamPosition`. The Go `for found := …; found == 0;` loop evaluates `found`
    once and leaves after one increment (the `len(pattern) > pos` test is then always true), so a
    `+`/`:` directly followed by another parameter-start character moves the start by one. -/
def findNextParamPosition (p : Bytes) : Option Nat :=
  match fnne p paramStartChars with
  | none => none
  | some n =>
    if p.getD n 0 != STAR then
      (if fnne (p.drop (n + 1)) paramStartChars == some 0 then some (n + 1) else some n)
    else some n

/-- path.go `analyseConstantPart`: returns (bytes consumed, segment). -/
def analyseConstantPart (p : Bytes) (np : Option Nat) : Nat × Seg :=
  let processed := match np with | none => p | some k => p.take k
  let c := removeEscapeChar processed
  (processed.length, { const := c, length := c.length })

/-- `pos > x` / `pos < x` against a Go position that may be -1 (`none`). -/
def gtPos (pos : Nat) : Option Nat → Bool
  | none => true
  | some x => pos > x
def ltPos (pos : Nat) : Option Nat → Bool
  | none => false
  | some x => pos < x

/-- path.go `findNextCharsetPositionConstraint`: only the *first* occurrence of each charset byte is
    considered, and only if it lies on the same side of the first `<` and the first `>`. -/
def findCharsetConstraint (s : Bytes) (charset : List Nat) : Option Nat :=
  let cs := fnnecp s LT
  let ce := fnnecp s GT
  charset.foldl (fun next ch =>
    match indexByte s ch with
    | none => next
    | some pos =>
      if (match next with | none => true | some nx => pos < nx) then
        (if (gtPos pos cs && gtPos pos ce) || (ltPos pos cs && ltPos pos ce) then some pos else next)
      else next) none

/-- path.go `GetTrimmedParam`. -/
def getTrimmedParam (p : Bytes) : Bytes :=
  match p with
  | [] => []
  | c :: body =>
    if c != COLON then p
    else if p.getLast? == some QMARK then body.dropLast else body

/-- path.go `getParamConstraintType`. -/
def constraintType (n : Bytes) : CType :=
  if n = b "int" then .int else if n = b "bool" then .bool else if n = b "float" then .float
  else if n = b "alpha" then .alpha else if n = b "guid" then .guid
  else if n = b "minLen" ∨ n = b "minlen" then .minLen
  else if n = b "maxLen" ∨ n = b "maxlen" then .maxLen
  else if n = b "len" then .len
  else if n = b "betweenLen" ∨ n = b "betweenlen" then .betweenLen
  else if n = b "min" then .min else if n = b "max" then .max else if n = b "range" then .range
  else if n = b "datetime" then .datetime else if n = b "regex" then .regex else .noC

/-- One entry of `userConstraints` in `analyseParameterPart`; `none` = slice bounds panic
    (`c[start+1:end]` with `end ≤ start`). -/
def parseConstraint (c : Bytes) : Option Constraint :=
  match fnnecp c LPAR, lastIndexByte c RPAR with
  | some st, some en =>
    if en < st + 1 then none
    else
      let name := c.take st
      let id := constraintType name
      let raw := (c.take en).drop (st + 1)
      if id = .regex then some { id := id, name := name, data := [raw] }
      else
        let d := splitNonEscaped raw COMMA
        let d := if d.length = 1 ∨ d.length = 2 then d.map removeEscapeChar else d
        some { id := id, name := name, data := d }
  | _, _ => some { id := constraintType c, name := c, data := [] }

/-- path.go `analyseParameterPart`. `wc`/`pc` = wildcard / plus counters of the parser. Returns
    (bytes consumed, segment, wc', pc'); `none` = registration panics. `p` starts with a
    parameter-start byte. -/
def analyseParameterPart (p : Bytes) (wc pc : Nat) : Option (Nat × Seg × Nat × Nat) :=
  let c0 := p.headD 0
  let isWild := c0 == STAR
  let isPlus := c0 == PLUS
  let pe0 : Option Nat :=
    if p.contains LT && p.contains GT then findCharsetConstraint (p.drop 1) paramEndChars
    else fnne (p.drop 1) paramEndChars
  let pe : Nat :=
    if isWild || isPlus then 0
    else match pe0 with
      | none => p.length - 1
      | some e => if paramDelimChars.contains (p.getD (e + 1) 0) then e else e + 1
  let cS : Option Nat := if pe > 0 then fnnecp (p.take pe) LT else none
  let cE : Option Nat := if pe > 0 then lastIndexByte (p.take (pe + 1)) GT else none
  let processed := p.take (pe + 1)
  let n := pe + 1
  let name0 := removeEscapeChar (getTrimmedParam processed)
  let parsed : Option (Bytes × List Constraint) :=
    match cS, cE with
    | some s, some e =>
      if e < s + 1 then none
      else
        let cstr := (p.take e).drop (s + 1)
        match (splitNonEscaped cstr SEMI).mapM parseConstraint with
        | none => none
        | some cs => some (removeEscapeChar (getTrimmedParam (p.take s)), cs)
    | _, _ => some (name0, [])
  match parsed with
  | none => none
  | some (name, cs) =>
    let wc' := if isWild then wc + 1 else wc
    let pc' := if !isWild && isPlus then pc + 1 else pc
    let name := if isWild then name ++ natToDec wc' else if isPlus then name ++ natToDec pc' else name
    some (n, { paramName := name, isParam := true,
               isOptional := isWild || p.getD pe 0 == QMARK,
               isGreedy := isWild || isPlus, constraints := cs }, wc', pc')

/-- The `for len(pattern) > 0` loop of `parseRoute` (fuel = length of the pattern; every round
    consumes ≥ 1 byte). -/
def parseLoop : Nat → Bytes → Nat → Nat → Option (List Seg)
  | 0, _, _, _ => some []
  | fuel + 1, p, wc, pc =>
    if p.isEmpty then some []
    else match findNextParamPosition p with
      | some 0 =>
        match analyseParameterPart p wc pc with
        | none => none
        | some (n, seg, wc', pc') => (parseLoop fuel (p.drop n) wc' pc').map (seg :: ·)
      | np =>
        let (n, seg) := analyseConstantPart p np
        (parseLoop fuel (p.drop n) wc pc).map (seg :: ·)

/-- "mark last segment" -/
def markLast : List Seg → List Seg
  | [] => []
  | [s] => [{ s with isLast := true }]
  | s :: rest => s :: markLast rest

/-- The `comparePart` a constant hands to the parameters before it: the constant without its
    trailing slashes when it is longer than one byte – but one slash is kept for a constant made of
    slashes only (commit "a parameter followed by a constant of slashes only ends at the first
    slash"). -/
def cmpOfConst (c : Bytes) : Bytes :=
  if c.length > 1 then (if (trimRight c SLASH).isEmpty then [SLASH] else trimRight c SLASH) else c

/-- `addParameterMetaInfo`, backward loop: every parameter gets the (trailing-slash-trimmed, if
    longer than one byte) constant of the nearest following constant segment as `ComparePart`.
    Returns the list and the `comparePart` variable's value at its head. -/
def setCompareParts : List Seg → List Seg × Bytes
  | [] => ([], [])
  | s :: rest =>
    let (rest', cp) := setCompareParts rest
    if s.isParam then ({ s with comparePart := removeEscapeChar cp } :: rest', cp)
    else (s :: rest', cmpOfConst s.const)

/-- Σ `strings.Count(segs[j].Const, cp)` over the constant segments `j`. -/
def partCountOf (cp : Bytes) : List Seg → Nat
  | [] => 0
  | s :: rest => (if s.isParam then 0 else count s.const cp) + partCountOf cp rest

/-- `segLen > i+1 && segs[i+1].IsParam && !segs[i+1].IsGreedy` -/
def nextNonGreedyParam : List Seg → Bool
  | n :: _ => n.isParam && !n.isGreedy
  | [] => false

/-- `segLen > i+1 && segs[i+1].IsOptional` -/
def nextOptional : List Seg → Bool
  | n :: _ => n.isOptional
  | [] => false

/-- `addParameterMetaInfo`, forward loop. `none` = `Const[len(Const)-1]` on an empty constant
    (index out of range at registration, e.g. pattern `/:x\`). -/
def metaForward : List Seg → Option (List Seg)
  | [] => some []
  | s :: rest =>
    match metaForward rest with
    | none => none
    | some rest' =>
      if s.isParam then
        let s1 := if !s.isGreedy && nextNonGreedyParam rest then { s with length := 1 } else s
        let s2 := if s1.comparePart.isEmpty then s1
                  else { s1 with partCount := s1.partCount + partCountOf s1.comparePart rest }
        some (s2 :: rest')
      else
        match s.const.getLast? with
        | none => none
        | some l =>
          if l == SLASH && (s.isLast || nextOptional rest)
          then some ({ s with hasOptionalSlash := true } :: rest')
          else some (s :: rest')

def addParameterMetaInfo (segs : List Seg) : Option (List Seg) :=
  metaForward (setCompareParts segs).1

/-- path.go `routeParser` after `parseRoute`. -/
structure Parser where
  segs : List Seg
  params : List Bytes
  deriving DecidableEq, Repr

def paramNames (segs : List Seg) : List Bytes := (segs.filter (·.isParam)).map (·.paramName)

/-- path.go `parseRoute`. -/
def parseRoute (pattern : Bytes) : Option Parser :=
  match parseLoop pattern.length pattern 0 0 with
  | none => none
  | some raw =>
    match addParameterMetaInfo (markLast raw) with
    | none => none
    | some segs => some { segs := segs, params := paramNames segs }

/-! ### parsing a case-folded pattern with the constraints as written
    (path.go `parseRouteWritten`, commit "constraints keep the letter case they were written in") -/

/-- path.go `analyseParameterPart(pattern, written, …)`: everything is decided on `p` (the pattern
    the router matches on, lower-cased unless CaseSensitive); only the text between the constraint
    brackets is cut, at the offsets found on `p`, from `w` (the pattern as written, same length). -/
def analyseParameterPartW (p w : Bytes) (wc pc : Nat) : Option (Nat × Seg × Nat × Nat) :=
  let c0 := p.headD 0
  let isWild := c0 == STAR
  let isPlus := c0 == PLUS
  let pe0 : Option Nat :=
    if p.contains LT && p.contains GT then findCharsetConstraint (p.drop 1) paramEndChars
    else fnne (p.drop 1) paramEndChars
  let pe : Nat :=
    if isWild || isPlus then 0
    else match pe0 with
      | none => p.length - 1
      | some e => if paramDelimChars.contains (p.getD (e + 1) 0) then e else e + 1
  let cS : Option Nat := if pe > 0 then fnnecp (p.take pe) LT else none
  let cE : Option Nat := if pe > 0 then lastIndexByte (p.take (pe + 1)) GT else none
  let processed := p.take (pe + 1)
  let n := pe + 1
  let name0 := removeEscapeChar (getTrimmedParam processed)
  let parsed : Option (Bytes × List Constraint) :=
    match cS, cE with
    | some s, some e =>
      if e < s + 1 then none
      else
        let cstr := (w.take e).drop (s + 1)
        match (splitNonEscaped cstr SEMI).mapM parseConstraint with
        | none => none
        | some cs => some (removeEscapeChar (getTrimmedParam (p.take s)), cs)
    | _, _ => some (name0, [])
  match parsed with
  | none => none
  | some (name, cs) =>
    let wc' := if isWild then wc + 1 else wc
    let pc' := if !isWild && isPlus then pc + 1 else pc
    let name := if isWild then name ++ natToDec wc' else if isPlus then name ++ natToDec pc' else name
    some (n, { paramName := name, isParam := true,
               isOptional := isWild || p.getD pe 0 == QMARK,
               isGreedy := isWild || isPlus, constraints := cs }, wc', pc')

/-- The loop of `parseRouteWritten`: `pattern = pattern[n:]; written = written[n:]`. -/
def parseLoopW : Nat → Bytes → Bytes → Nat → Nat → Option (List Seg)
  | 0, _, _, _, _ => some []
  | fuel + 1, p, w, wc, pc =>
    if p.isEmpty then some []
    else match findNextParamPosition p with
      | some 0 =>
        match analyseParameterPartW p w wc pc with
        | none => none
        | some (n, seg, wc', pc') => (parseLoopW fuel (p.drop n) (w.drop n) wc' pc').map (seg :: ·)
      | np =>
        let (n, seg) := analyseConstantPart p np
        (parseLoopW fuel (p.drop n) (w.drop n) wc pc).map (seg :: ·)

/-- path.go `parseRouteWritten(pattern, written)`; a `written` of another length is ignored. -/
def parseRouteW (pattern written : Bytes) : Option Parser :=
  let written := if written.length != pattern.length then pattern else written
  match parseLoopW pattern.length pattern written 0 0 with
  | none => none
  | some raw =>
    match addParameterMetaInfo (markLast raw) with
    | none => none
    | some segs => some { segs := segs, params := paramNames segs }

/-! ### constraint evaluation (path.go `CheckConstraint`) -/

/-- `strconv.Atoi` on 64-bit: optional sign, ≥ 1 digit, value in int64 range. Returns the value Go
    returns together with whether `err == nil` (syntax error → 0; range error → clamped). -/
def atoi (s : Bytes) : Int × Bool :=
  let (neg, ds) := match s with
    | 43 :: r => (false, r)
    | 45 :: r => (true, r)
    | _ => (false, s)
  if ds.isEmpty || !ds.all isDigit then (0, false)
  else
    let n : Nat := ds.foldl (fun a c => a * 10 + (c - 48)) 0
    if neg then (if n > 9223372036854775808 then (-9223372036854775808, false) else (-(n : Int), true))
    else (if n > 9223372036854775807 then (9223372036854775807, false) else ((n : Int), true))

/-- `strconv.ParseBool`. -/
def parseBoolOK (s : Bytes) : Bool :=
  [b "1", b "t", b "T", b "TRUE", b "true", b "True",
   b "0", b "f", b "F", b "FALSE", b "false", b "False"].contains s

/-! #### `strconv.ParseFloat(param, 32)` and `uuid.Parse(param)`: is the error nil? -/

/-- strconv `lower(c)`: `c | ('x' - 'X')`. -/
def lowerOr (c : Nat) : Nat := c ||| 32

/-- strconv `commonPrefixLenIgnoreCase(s, prefix)` (`prefix` is lower case). -/
def commonPrefixLenIC : Bytes → Bytes → Nat
  | c :: s, p :: ps => if lowerByte c == p then 1 + commonPrefixLenIC s ps else 0
  | _, _ => 0

/-- the `case 'i', 'I'` body of strconv `special`: bytes consumed by `inf` / `infinity` -/
def infLen (t : Bytes) (nsign : Nat) : Option Nat :=
  let n := commonPrefixLenIC t (b "infinity")
  let n := if 3 < n && n < 8 then 3 else n
  if n == 3 || n == 8 then some (nsign + n) else none

/-- strconv `special`: bytes consumed by an optionally signed `inf`/`infinity` or an unsigned `nan`
    (the sign case falls through into the `inf` case only). -/
def floatSpecial (s : Bytes) : Option Nat :=
  match s with
  | [] => none
  | c :: rest =>
    if c == 43 || c == 45 then infLen rest 1
    else if c == 105 || c == 73 then infLen s 0
    else if c == 110 || c == 78 then (if commonPrefixLenIC s (b "nan") == 3 then some 3 else none)
    else none

/-- state of the mantissa loop of strconv `readFloat`; `digits` is the value of *all* digits read
    (the Go code keeps 19 / 16 of them plus a sticky bit and rounds correctly from there) -/
structure Mant where
  sawdot : Bool := false
  sawdigits : Bool := false
  digits : Nat := 0
  frac : Nat := 0
  underscores : Bool := false
  deriving DecidableEq, Repr

/-- the `loop:` of `readFloat`: returns the state and the unread rest -/
def scanMant (hex : Bool) : Bytes → Mant → Mant × Bytes
  | [], m => (m, [])
  | c :: rest, m =>
    if c == 95 then scanMant hex rest { m with underscores := true }
    else if c == DOT then (if m.sawdot then (m, c :: rest) else scanMant hex rest { m with sawdot := true })
    else if isDigit c then
      scanMant hex rest { m with sawdigits := true, digits := m.digits * (if hex then 16 else 10) + (c - 48),
                                 frac := if m.sawdot then m.frac + 1 else m.frac }
    else if hex && 97 ≤ lowerOr c && lowerOr c ≤ 102 then
      scanMant hex rest { m with sawdigits := true, digits := m.digits * 16 + (lowerOr c - 87),
                                 frac := if m.sawdot then m.frac + 1 else m.frac }
    else (m, c :: rest)

/-- the exponent digits loop of `readFloat` (`if e < 10000 { e = e*10 + d }`): value, saw an
    underscore, unread rest -/
def scanExp : Bytes → Nat → Bool → Nat × Bool × Bytes
  | [], e, u => (e, u, [])
  | c :: rest, e, u =>
    if c == 95 then scanExp rest e true
    else if isDigit c then scanExp rest (if e < 10000 then e * 10 + (c - 48) else e) u
    else (e, u, c :: rest)

/-- strconv `underscoreOK`: underscores only between digits or between a base prefix and a digit.
    `saw`: 94 '^' start, 48 '0' digit, 95 '_' underscore, 33 '!' other. -/
def underscoreLoop (hex : Bool) : Bytes → Nat → Bool
  | [], saw => saw != 95
  | c :: rest, saw =>
    if isDigit c || (hex && 97 ≤ lowerOr c && lowerOr c ≤ 102) then underscoreLoop hex rest 48
    else if c == 95 then (if saw != 48 then false else underscoreLoop hex rest 95)
    else if saw == 95 then false
    else underscoreLoop hex rest 33

def underscoreOK (s : Bytes) : Bool :=
  let s := match s with | c :: r => if c == 45 || c == 43 then r else s | [] => s
  match s with
  | c0 :: c1 :: r =>
    if c0 == 48 && (lowerOr c1 == 98 || lowerOr c1 == 111 || lowerOr c1 == 120)
    then underscoreLoop (lowerOr c1 == 120) r 48
    else underscoreLoop false s 94
  | _ => underscoreLoop false s 94

/-- the least magnitude that rounds (to nearest, ties to even) beyond the largest float32:
    `(2²⁵ − 1) · 2¹⁰³ = 2¹²⁸ − 2¹⁰³`; `ParseFloat(_, 32)` reports a range error from there on. -/
def float32Overflow : Nat := (2 ^ 25 - 1) * 2 ^ 103

/-- `digits · base^E < float32Overflow`, exactly (`len` bounds the number of digits). -/
def belowOverflow (digits base : Nat) (E : Int) (len : Nat) : Bool :=
  if digits == 0 then true
  else if E ≥ 0 then (if E ≥ 128 then false else decide (digits * base ^ E.toNat < float32Overflow))
  else if (-E).toNat ≥ len then true
  else decide (digits < float32Overflow * base ^ (-E).toNat)

/-- `_, err := strconv.ParseFloat(s, 32); err == nil` — syntax by transcription of `special`,
    `readFloat`, `underscoreOK` and the "whole string consumed" test of `ParseFloat`; the range error
    by the documented result (correctly rounded: error iff the magnitude rounds beyond the largest
    float32). -/
def parseFloat32OK (s : Bytes) : Bool :=
  match floatSpecial s with
  | some n => n == s.length
  | none =>
    if s.isEmpty then false
    else
      let t := match s with | c :: r => if c == 43 || c == 45 then r else s | [] => s
      let hex := t.length > 2 && t.getD 0 0 == 48 && lowerOr (t.getD 1 0) == 120
      let (m, rest) := scanMant hex (if hex then t.drop 2 else t) {}
      if !m.sawdigits then false
      else
        let expChar : Nat := if hex then 112 else 101
        -- (exponent × sign, underscores in it, unread rest); `none` = syntax error
        let ex : Option (Int × Bool × Bytes) :=
          match rest with
          | c :: r1 =>
            if lowerOr c == expChar then
              match r1 with
              | [] => none
              | c2 :: r2 =>
                let (neg, r3) := if c2 == 43 then (false, r2) else if c2 == 45 then (true, r2) else (false, r1)
                match r3 with
                | [] => none
                | c3 :: _ =>
                  if !isDigit c3 then none
                  else
                    let (e, u, r4) := scanExp r3 0 false
                    some (if neg then -(e : Int) else (e : Int), u, r4)
            else if hex then none else some (0, false, rest)
          | [] => if hex then none else some (0, false, [])
        match ex with
        | none => false
        | some (e, u, r) =>
          if !r.isEmpty then false
          else if (m.underscores || u) && !underscoreOK s then false
          else if hex then belowOverflow m.digits 2 (e - 4 * (m.frac : Int)) (4 * s.length)
          else belowOverflow m.digits 10 (e - (m.frac : Int)) s.length

def isHexDigit (c : Nat) : Bool := isDigit c || (97 ≤ c && c ≤ 102) || (65 ≤ c && c ≤ 70)

/-- the tail of google/uuid `Parse`: `xxxxxxxx-xxxx-xxxx-xxxx-xxxxxxxxxxxx` in the first 36 bytes -/
def uuidCore (s : Bytes) : Bool :=
  s.getD 8 0 == DASH && s.getD 13 0 == DASH && s.getD 18 0 == DASH && s.getD 23 0 == DASH &&
  [0, 2, 4, 6, 9, 11, 14, 16, 19, 21, 24, 26, 28, 30, 32, 34].all
    (fun x => isHexDigit (s.getD x 0) && isHexDigit (s.getD (x + 1) 0))

/-- `_, err := uuid.Parse(s); err == nil` (google/uuid v1.6.0): by length — 36 plain, 45 with a
    case-insensitive `urn:uuid:`, 38 with any one byte before and after (the braces are not
    checked), 32 hex digits. -/
def uuidParseOK (s : Bytes) : Bool :=
  if s.length == 36 then uuidCore s
  else if s.length == 45 then equalFold (s.take 9) (b "urn:uuid:") && uuidCore (s.drop 9)
  else if s.length == 38 then uuidCore (s.drop 1)
  else if s.length == 32 then s.all isHexDigit
  else false

/-- `CheckConstraint` for the kinds the model evaluates itself (no custom constraint of that name
    registered). `data, _ := strconv.Atoi(c.Data[0])` ignores the error, as the Go code does. -/
def checkExact (c : Constraint) (v : Bytes) : Bool :=
  let d0 := (atoi (c.data.getD 0 [])).1
  let d1 := (atoi (c.data.getD 1 [])).1
  let needOne := c.data.length == 0
  let needTwo := c.data.length < 2
  match c.id with
  | .noC => true
  | .int => (atoi v).2
  | .bool => parseBoolOK v
  | .alpha => v.all isAlpha            -- ASCII input only, see `checkConstraint`
  | .minLen => !needOne && !((v.length : Int) < d0)
  | .maxLen => !needOne && !((v.length : Int) > d0)
  | .len => !needOne && (v.length : Int) == d0
  | .betweenLen => !needTwo && !((v.length : Int) < d0 || (v.length : Int) > d1)
  | .min => !needOne && (atoi v).2 && !((atoi v).1 < d0)
  | .max => !needOne && (atoi v).2 && !((atoi v).1 > d0)
  | .range => !needTwo && (atoi v).2 && !((atoi v).1 < d0 || (atoi v).1 > d1)
  | .datetime | .regex => !needOne       -- the "required data" gate; the rest is abstract
  | .float => parseFloat32OK v
  | .guid => uuidParseOK v

/-- Does the verdict of `c` on `v` involve the abstract predicate? `custom` = names of the
    registered custom constraints (they override built-ins of the same name). Abstract: custom
    constraints, regex, datetime, and alpha on values with a non-ASCII byte (`unicode.IsLetter` on
    the decoded runes). (guid's `strings.EqualFold(s[:9], "urn:uuid:")` works on runes too, but no
    non-ASCII rune folds to a letter of that prefix, so the byte-wise test is exact.) -/
def Constraint.abstractOn (custom : List Bytes) (c : Constraint) (v : Bytes) : Bool :=
  custom.contains c.name ||
  (match c.id with
   | .datetime | .regex => true
   | .alpha => v.any (· ≥ 128)
   | _ => false)

/-- `CheckConstraint`: `abs` is the abstract verdict (regex / datetime / custom constraints /
    `unicode.IsLetter` on non-ASCII input), supplied by the harness from the
    real code at run time and universally quantified in the theorems; every other built-in is
    decided by `checkExact`. -/
def checkConstraint (custom : List Bytes) (abs : Constraint → Bytes → Bool) (c : Constraint) (v : Bytes) : Bool :=
  if custom.contains c.name then abs c v
  else match c.id with
    | .datetime | .regex => checkExact c v && abs c v
    | .alpha => if v.any (· ≥ 128) then abs c v else checkExact c v
    | _ => checkExact c v

/-! ### the matcher -/

/-- path.go `findParamLenForLastSegment`. -/
def findParamLenForLastSegment (s : Bytes) (seg : Seg) : Nat :=
  if !seg.isGreedy then
    match indexByte s SLASH with
    | some i => i
    | none => s.length
  else s.length

/-- path.go `findGreedyParamLen`: strip up to `min PartCount searchCount` occurrences of
    `ComparePart` from the right. -/
def findGreedyLoop (cp : Bytes) : Nat → Nat → Bytes → Bytes
  | 0, _, s => s
  | _, 0, s => s
  | i + 1, sc + 1, s =>
    match lastIndexOf s cp with
    | none => s
    | some k => findGreedyLoop cp i sc (s.take k)

def findGreedyParamLen (s : Bytes) (searchCount : Nat) (seg : Seg) : Nat :=
  (findGreedyLoop seg.comparePart seg.partCount searchCount s).length

/-- path.go `findParamLen` on the locals `comparePart, partCount` (= the fields of `seg`; the two
    early returns included), with the slash rule of commit "named route parameters never span a
    slash" in the one-character and one-byte-delimiter branches. `paramLen` below is the function
    `getMatch` calls. -/
def findParamLen (s : Bytes) (seg : Seg) : Nat :=
  if seg.isLast then findParamLenForLastSegment s seg
  else if seg.length != 0 && s.length ≥ seg.length then
    (if (s.take seg.length).contains SLASH then 0 else seg.length)
  else if seg.isGreedy && count s seg.comparePart > 1 then
    findGreedyParamLen s (count s seg.comparePart) seg
  else if seg.comparePart.length == 1 then
    match indexByte s (seg.comparePart.headD 0) with
    | some k => if !seg.isGreedy && (s.take k).contains SLASH then 0 else k
    | none => s.length
  else
    match indexOf s seg.comparePart with
    | some k => if !seg.isGreedy && (s.take k).contains SLASH then 0 else k
    | none => s.length

/-- path.go `findParamLen`, the locals `comparePart, partCount` (commit "a parameter in front of a
    constant with trailing slashes ends at that constant in full when the path holds it"):
    `ComparePart` is the following constant without its trailing slashes, because a trailing slash
    can be optional; when the path holds the following constant *in full* (`strings.Contains`), the
    full constant is searched for and `partCount` is recounted for it over the following constants.
    `some seg'` = replaced (`full = true`; `seg'` is `seg` with the two locals as fields),
    `none` = not replaced – also when one of the two early returns (`IsLast`, `Length`) fires before
    the locals are set. -/
def fullConst (s : Bytes) (seg : Seg) (following : List Seg) : Option Seg :=
  if seg.isLast || (seg.length != 0 && s.length ≥ seg.length) then none
  else
    match following with
    | n :: _ =>
      if n.const.length > seg.comparePart.length && (indexOf s n.const).isSome then
        some { seg with comparePart := n.const, partCount := partCountOf n.const following }
      else none
    | [] => none

/-- path.go `findParamLen(s, segment, following)`: with the full constant a greedy parameter always
    searches from the right (`searchCount > 1 || full`), everything else is `findParamLen` on the
    locals. -/
def paramLen (s : Bytes) (seg : Seg) (following : List Seg) : Nat :=
  match fullConst s seg following with
  | none => findParamLen s seg
  | some seg' =>
    if seg.isGreedy then findGreedyParamLen s (count s seg'.comparePart) seg' else findParamLen s seg'

/-- path.go `getMatch`. `det` = detection path, `path` = user-visible path (values are slices of
    it at the offsets found on `det`), `partialCheck` = middleware (prefix) match.
    `chk` = constraint check. Result: the values written to `params[0..]`, or `none` (no match). -/
def getMatch (chk : Constraint → Bytes → Bool) : List Seg → Bytes → Bytes → Bool → Option (List Bytes)
  | [], det, _, partialCheck => if !det.isEmpty && !partialCheck then none else some []
  | seg :: rest, det, path, partialCheck =>
    let partLen := det.length
    if !seg.isParam then
      let i := seg.length
      if seg.hasOptionalSlash && i > 0 && partLen == i - 1 && det == seg.const.take (i - 1) then
        (if partLen > 0 then getMatch chk rest (det.drop (i - 1)) (path.drop (i - 1)) partialCheck
         else getMatch chk rest det path partialCheck)
      else if i ≤ partLen && det.take i == seg.const then
        (if partLen > 0 then getMatch chk rest (det.drop i) (path.drop i) partialCheck
         else getMatch chk rest det path partialCheck)
      else none
    else
      let i := paramLen det seg rest
      if !seg.isOptional && i == 0 then none
      else
        let v := path.take i
        if !(seg.isOptional && i == 0) && !(seg.constraints.all (chk · v)) then none
        else
          (if partLen > 0 then getMatch chk rest (det.drop i) (path.drop i) partialCheck
           else getMatch chk rest det path partialCheck).map (v :: ·)

/-! ### registration, request-side normalisation, Route.match, RoutePatternMatch -/

structure Config where
  caseSensitive : Bool := false
  strictRouting : Bool := false
  unescapePath : Bool := false
  deriving DecidableEq, Repr

/-- router.go `Route` (the fields `match` reads). -/
structure Route where
  pathRaw : Bytes          -- `Path`
  path : Bytes             -- prettified, escape-free (`pathClean`)
  params : List Bytes      -- names, from the *raw* pattern
  parser : Parser          -- from the prettified pattern
  use : Bool
  star : Bool
  root : Bool
  deriving DecidableEq, Repr

/-- The pattern normalisation shared by `register` and `RoutePatternMatch`. -/
def prettyPattern (cfg : Config) (p : Bytes) : Bytes :=
  let p := if p.isEmpty then [SLASH] else p
  let p := if p.headD 0 != SLASH then SLASH :: p else p
  let p := if !cfg.caseSensitive then toLower p else p
  if !cfg.strictRouting && p.length > 1 then trimRight p SLASH else p

def rawPattern (p : Bytes) : Bytes :=
  let p := if p.isEmpty then [SLASH] else p
  if p.headD 0 != SLASH then SLASH :: p else p

/-- The pattern as written, minus the trailing slashes the configuration makes insignificant — no
    case folding. It is the text `register` reads the constraints from: `pathRaw[:len(pathPretty)]`
    (`writtenPattern_eq_take`). -/
def writtenPattern (cfg : Config) (p : Bytes) : Bytes :=
  let raw := rawPattern p
  if !cfg.strictRouting && raw.length > 1 then trimRight raw SLASH else raw

/-- router.go `register` (one method). `none` = registration panics. The routed parser comes from
    the prettified pattern, its constraint text from the pattern as written (commit "constraints
    keep the letter case they were written in"). -/
def register (cfg : Config) (use : Bool) (pattern : Bytes) : Option Route :=
  let raw := rawPattern pattern
  let pretty := prettyPattern cfg pattern
  let clean := removeEscapeChar pretty
  match parseRoute raw, parseRouteW pretty (raw.take pretty.length) with
  | some pr, some pp =>
    some { pathRaw := raw, path := clean, params := pr.params, parser := pp, use := use,
           star := pretty == [SLASH, STAR], root := clean == [SLASH] }
  | _, _ => none

def hexNibble (c : Nat) : Option Nat :=
  if 48 ≤ c ∧ c ≤ 57 then some (c - 48)
  else if 97 ≤ c ∧ c ≤ 102 then some (c - 87)
  else if 65 ≤ c ∧ c ≤ 70 then some (c - 55)
  else none

/-- fasthttp `decodeArgAppend` (= `AppendUnquotedArg`): `%XX` decoded, `+` → space, a `%` with
    fewer than two bytes after it copies the rest verbatim, a `%` with a non-hex pair stays `%`. -/
def unquote : Bytes → Bytes
  | [] => []
  | c :: rest =>
    if c == PCT then
      match rest with
      | x1 :: x2 :: rest' =>
        match hexNibble x1, hexNibble x2 with
        | some h, some l => (h * 16 + l) :: unquote rest'
        | _, _ => PCT :: unquote (x1 :: x2 :: rest')
      | _ => c :: rest
    else if c == PLUS then SPACE :: unquote rest
    else c :: unquote rest
termination_by s => s.length
decreasing_by all_goals (simp; try omega)

/-- ctx.go `configDependentPaths`: (path, detectionPath) from the original request path. -/
def configDependentPaths (cfg : Config) (orig : Bytes) : Bytes × Bytes :=
  let path := if cfg.unescapePath then unquote orig else orig
  let det := if !cfg.caseSensitive then toLower path else path
  let det := if !cfg.strictRouting && det.length > 1 && det.getLast? == some SLASH
             then trimRight det SLASH else det
  (path, det)

/-- router.go `Route.match`. Returns the values written (`params[0..]`) on a match. -/
def routeMatch (chk : Constraint → Bytes → Bool) (r : Route) (det path : Bytes) : Option (List Bytes) :=
  if r.root && det == [SLASH] then some []
  else if r.star then some [path.drop 1]
  else if r.params.length > 0 then getMatch chk r.parser.segs det path r.use
  else if r.use then
    (if r.root then (if det.headD 0 == SLASH && !det.isEmpty then some [] else none)
     else if det.length ≥ r.path.length && det.take r.path.length == r.path then some [] else none)
  else if det == r.path then some []
  else none

/-- router.go `buildTree` (after commit "file a route under its 3-byte key only if every path it
    matches carries that key"): the bucket a route is filed under – the first three bytes of its
    first segment's constant when that has ≥ `maxDetectionPaths` (= 3) bytes and is not a 3-byte
    constant with an optional slash; else the global bucket (`[]`; a parameter segment has
    `Const = ""`). -/
def routeTreeKey (r : Route) : Bytes :=
  match r.parser.segs with
  | s :: _ => if s.const.length ≥ 3 && (s.const.length > 3 || !s.hasOptionalSlash) then s.const.take 3 else []
  | [] => []

/-- ctx.go `configDependentPaths`: `treePathHash` of the request. -/
def reqTreeKey (det : Bytes) : Bytes := if det.length ≥ 3 then det.take 3 else []

/-- router.go `next` on an app holding only `r`: the request's bucket (or the global bucket when
    that bucket does not exist) is scanned; `r` is in its own bucket and, when its key is global, in
    the only bucket there is. -/
def dispatch1 (chk : Constraint → Bytes → Bool) (r : Route) (det path : Bytes) : Option (List Bytes) :=
  if routeTreeKey r == [] || routeTreeKey r == reqTreeKey det then routeMatch chk r det path else none

/-- ctx.go `Params(key)` for the i-th declared name: first declared name equal to it (case-folded
    unless CaseSensitive) decides; an empty value gives "". -/
def paramsLookup (cfg : Config) (names : List Bytes) (vals : List Bytes) (key : Bytes) : Bytes :=
  match (names.zip (vals ++ List.replicate names.length [])).find?
      (fun nv => nv.1.length == key.length && (nv.1 == key || (!cfg.caseSensitive && equalFold nv.1 key))) with
  | some nv => nv.2
  | none => []

/-- ctx.go `Params`: which declared name answers to a key — same length, and equal or (unless
    CaseSensitive) equal under ASCII case folding. -/
def keyMatch (cfg : Config) (n key : Bytes) : Bool :=
  n.length == key.length && (n == key || (!cfg.caseSensitive && equalFold n key))

/-- ctx.go `Params`: `if key == "*" || key == "+" { key += "1" }`. -/
def paramsKey (key : Bytes) : Bytes := if key == [STAR] || key == [PLUS] then key ++ [49] else key

/-- ctx.go `Params(key)` for an arbitrary key. -/
def paramsGet (cfg : Config) (names : List Bytes) (vals : List Bytes) (key : Bytes) : Bytes :=
  paramsLookup cfg names vals (paramsKey key)

/-- path.go `RoutePatternMatch(path, pattern, cfg)`; `none` = panic while parsing. -/
def routePatternMatch (chk : Constraint → Bytes → Bool) (cfg : Config) (path pattern : Bytes) : Option Bool :=
  let path := if path.isEmpty then [SLASH] else path
  let pretty := prettyPattern cfg pattern
  -- the path is normalised as `configDependentPaths` normalises a request path: values are cut
  -- from `path`, the decision is taken on `det`
  let path := if cfg.unescapePath then unquote path else path
  let det := if !cfg.caseSensitive then toLower path else path
  let det := if !cfg.strictRouting && det.length > 1 then trimRight det SLASH else det
  match parseRouteW pretty ((rawPattern pattern).take pretty.length) with
  | none => none
  | some pp =>
    if pretty == [SLASH] && det == [SLASH] then some true
    else if pretty == [SLASH, STAR] then some true
    else if pp.params.length > 0 then some (getMatch chk pp.segs det path false).isSome
    else some (removeEscapeChar pretty == det)

end C02
