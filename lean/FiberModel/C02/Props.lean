import FiberModel.C02.Sound
import FiberModel.C02.Locality
import FiberModel.C02.Known
/-
C02 — property theorems (only). The matcher theorems quantify over every segment list satisfying
`MetaOK` (which `parseRoute_metaOK` proves for every parsed pattern), every detection path / user
path pair related as `configDependentPaths` relates them (`Aligned`), every constraint verdict
function `chk` (so also over every regex / datetime / custom constraint), and both match modes
(`partialCheck` = middleware). The route-level theorems quantify over every configuration, every
pattern `register` accepts, and every request path.
-/
namespace C02
open B

/-- the byte-wise case folding a configuration applies to the detection path -/
def foldByte (cfg : Config) : Nat → Nat := if cfg.caseSensitive then id else lowerByte

theorem lowerByte_slash (c : Nat) : lowerByte c = SLASH ↔ c = SLASH := by
  unfold lowerByte isUpper
  split
  · rename_i h
    simp only [Bool.and_eq_true, decide_eq_true_eq] at h
    have hs : SLASH = 47 := rfl
    constructor <;> intro hh <;> omega
  · exact Iff.rfl

theorem foldByte_slash (cfg : Config) (c : Nat) : foldByte cfg c = SLASH ↔ c = SLASH := by
  unfold foldByte
  cases cfg.caseSensitive
  · exact lowerByte_slash c
  · exact Iff.rfl

theorem configDependentPaths_aligned (cfg : Config) (orig : Bytes) :
    Aligned (foldByte cfg) (configDependentPaths cfg orig).2 (configDependentPaths cfg orig).1 := by
  unfold configDependentPaths Aligned foldByte toLower
  simp only
  cases cfg.caseSensitive
  · simp only [Bool.not_false, if_true, Bool.false_eq_true, if_false]
    repeat' split
    all_goals first | exact trimRight_prefix _ _ | exact List.prefix_refl _
  · simp only [Bool.not_true, Bool.false_eq_true, if_false, if_true, List.map_id]
    repeat' split
    all_goals first | exact trimRight_prefix _ _ | exact List.prefix_refl _

theorem configDependentPaths_norm (cfg : Config) (orig : Bytes) :
    (configDependentPaths cfg orig).2 = normPath cfg (configDependentPaths cfg orig).1 := by
  unfold normPath configDependentPaths
  simp

theorem map_foldByte (cfg : Config) (vs : List Bytes) :
    vs.map (·.map (foldByte cfg)) = (if cfg.caseSensitive then vs else vs.map toLower) := by
  unfold foldByte
  cases cfg.caseSensitive
  · simp [toLower]
  · simp

/-! ## Matcher theorems -/

/-- **getMatch soundness (clause 1).** If `getMatch` succeeds with values `vs`, then substituting
    the (case-folded) values into the segments reproduces the detection path — a prefix of it for a
    middleware (partial) match — where a constant's final slash may be missing only if the pattern
    makes it optional (`slashOpt`) and the path ends there. The values are the slices of the user
    path at the offsets found on the detection path (`Aligned`). -/
theorem getMatch_sound (f : Nat → Nat) {chk : Constraint → Bytes → Bool} {pc : Bool}
    {segs : List Seg} {det path : Bytes} {vs : List Bytes}
    (hm : MetaOK segs) (hal : Aligned f det path)
    (h : getMatch chk segs det path pc = some vs) :
    renders segs (vs.map (·.map f)) det pc = true :=
  getMatch_renders f segs det path vs hm hal h

example : (match parseRoute (b "/api/:x/b/:y?") with
    | some p => getMatch (fun _ _ => true) p.segs (b "/api/v/b") (b "/api/V/b") false == some [b "V", []] &&
                renders p.segs [b "v", []] (b "/api/v/b") false
    | none => false) = true := by decide

/-- **Constraints are enforced (clause 2).** Every value `getMatch` reports satisfies every
    constraint of its segment (an optional parameter that captured nothing is not checked). -/
theorem getMatch_constraints_enforced {chk : Constraint → Bytes → Bool} {pc : Bool}
    {segs : List Seg} {det path : Bytes} {vs : List Bytes}
    (h : getMatch chk segs det path pc = some vs) :
    constraintViolation chk (paramSegs segs) vs = none :=
  getMatch_constraints segs det path vs h

/-- The values `getMatch` reports do not depend on the constraints. -/
theorem getMatch_mono {chk : Constraint → Bytes → Bool} {pc : Bool} :
    (segs : List Seg) → (det path : Bytes) → (vs : List Bytes) →
    getMatch chk segs det path pc = some vs → getMatch (fun _ _ => true) segs det path pc = some vs
  | [], det, path, vs, h => by
    unfold getMatch at h ⊢; exact h
  | seg :: rest, det, path, vs, h => by
    cases hp : seg.isParam
    · unfold getMatch at h ⊢
      simp only [hp, Bool.not_false, if_true] at h ⊢
      split
      · rename_i hb
        rw [if_pos hb] at h
        split
        · rename_i hl; rw [if_pos hl] at h; exact getMatch_mono rest _ _ vs h
        · rename_i hl; rw [if_neg hl] at h; exact getMatch_mono rest _ _ vs h
      · rename_i hb
        rw [if_neg hb] at h
        split
        · rename_i hb2
          rw [if_pos hb2] at h
          split
          · rename_i hl; rw [if_pos hl] at h; exact getMatch_mono rest _ _ vs h
          · rename_i hl; rw [if_neg hl] at h; exact getMatch_mono rest _ _ vs h
        · rename_i hb2; rw [if_neg hb2] at h; cases h
    · obtain ⟨vs', hv, hreq, _, hrec⟩ := getMatch_param_step h hp
      have ih := getMatch_mono rest _ _ vs' hrec
      have hle := findParamLen_le det seg
      unfold getMatch
      simp only [hp, Bool.not_true, Bool.false_eq_true, if_false]
      have h1 : (!seg.isOptional && findParamLen det seg == 0) = false := by
        rcases hreq with ho | hne
        · simp [ho]
        · simp [hne]
      simp only [h1, Bool.false_eq_true, if_false]
      have hrec' : (if det.length > 0 then getMatch (fun _ _ => true) rest (det.drop (findParamLen det seg)) (path.drop (findParamLen det seg)) pc
                   else getMatch (fun _ _ => true) rest det path pc) =
                  getMatch (fun _ _ => true) rest (det.drop (findParamLen det seg)) (path.drop (findParamLen det seg)) pc := by
        split
        · rfl
        · have : findParamLen det seg = 0 := by omega
          rw [this]; simp
      rw [hrec', ih, hv]
      simp

/-- **A value that violates a constraint gets the not-found handling (clause 5).** The matcher's
    choice of values does not depend on the constraints; if the values it would report violate a
    constraint, the route does not match at all. -/
theorem constraint_violation_rejects {chk : Constraint → Bytes → Bool} {pc : Bool}
    {segs : List Seg} {det path : Bytes} {vs : List Bytes}
    (h : getMatch (fun _ _ => true) segs det path pc = some vs)
    (hv : (constraintViolation chk (paramSegs segs) vs).isSome = true) :
    getMatch chk segs det path pc = none := by
  cases hc : getMatch chk segs det path pc with
  | none => rfl
  | some vs' =>
    have h1 := getMatch_mono segs det path vs' hc
    rw [h] at h1
    cases h1
    rw [getMatch_constraints segs det path vs hc] at hv
    cases hv

example : (match parseRoute (b "/u/:id<int>") with
    | some p => getMatch (fun _ _ => true) p.segs (b "/u/:id<int>") (b "/u/:id<int>") false == some [b ":id<int>"] &&
                (constraintViolation (checkConstraint [] (fun _ _ => true)) (paramSegs p.segs) [b ":id<int>"]).isSome &&
                getMatch (checkConstraint [] (fun _ _ => true)) p.segs (b "/u/:id<int>") (b "/u/:id<int>") false == none &&
                getMatch (checkConstraint [] (fun _ _ => true)) p.segs (b "/u/42") (b "/u/42") false == some [b "42"]
    | none => false) = true := by decide

/-- **Required parameters are non-empty (clause 3).** -/
theorem getMatch_required_nonempty (f : Nat → Nat) {chk : Constraint → Bytes → Bool} {pc : Bool}
    {segs : List Seg} {det path : Bytes} {vs : List Bytes}
    (hal : Aligned f det path) (h : getMatch chk segs det path pc = some vs) :
    requiredNonEmpty (paramSegs segs) vs = true :=
  getMatch_required f segs det path vs hal h

/-- **Named parameters never span a `/` (clause 4).** Holds for the repaired `findParamLen`
    (commit "named route parameters never span a slash"); before it, `/flights/:from-:to` matched
    `/flights/a/b-c` with `from = "a/b"`. -/
theorem named_no_slash (f : Nat → Nat) (hf : ∀ c, f c = SLASH ↔ c = SLASH)
    {chk : Constraint → Bytes → Bool} {pc : Bool}
    {segs : List Seg} {det path : Bytes} {vs : List Bytes}
    (hm : MetaOK segs) (hal : Aligned f det path) (h : getMatch chk segs det path pc = some vs) :
    namedNoSlash (paramSegs segs) vs = true :=
  getMatch_namedNoSlash f hf segs det path vs hm hal h

example : (match parseRoute (b "/flights/:from-:to") with
    | some p => getMatch (fun _ _ => true) p.segs (b "/flights/a/b-c") (b "/flights/a/b-c") false == none &&
                getMatch (fun _ _ => true) p.segs (b "/flights/ab-c") (b "/flights/ab-c") false == some [b "ab", b "c"]
    | none => false) = true := by decide

example : (match parseRoute (b "/ab/:a:b") with
    | some p => getMatch (fun _ _ => true) p.segs (b "/ab//x") (b "/ab//x") false == none &&
                getMatch (fun _ _ => true) p.segs (b "/ab/xyz") (b "/ab/xyz") false == some [b "x", b "yz"]
    | none => false) = true := by decide

/-! ## Route level -/

/-- **A route with parameters matches only through `getMatch`** (no literal / prefix fallback;
    repaired by commit "a route with parameters matches only through its parser"). -/
theorem route_match_requires_getMatch {chk : Constraint → Bytes → Bool} {r : Route} {det path : Bytes}
    (hp : r.params.length > 0) (hstar : r.star = false) (hroot : r.root = false) :
    routeMatch chk r det path = getMatch chk r.parser.segs det path r.use := by
  unfold routeMatch
  simp [hp, hstar, hroot]

theorem register_use {cfg : Config} {use : Bool} {pattern : Bytes} {r : Route}
    (hr : register cfg use pattern = some r) :
    r.use = use ∧ ∃ pp, parseRoute (prettyPattern cfg pattern) = some pp ∧ r.parser = pp := by
  unfold register at hr
  simp only at hr
  split at hr
  · rename_i pr pp _ hpp
    cases hr
    exact ⟨rfl, pp, hpp, rfl⟩
  · cases hr

/-- **C02 for a registered parameterised route.** For every configuration, every pattern
    `register` accepts (GET or `Use`), every request path: if `Route.match` succeeds on the paths
    `configDependentPaths` derives from the request, then, for the values written to `c.values`,
    (1) substituting them into the routed pattern reproduces `Path()` (a prefix for middleware)
        modulo the configured case folding and the trailing slashes the pattern / configuration make
        optional,
    (2) every value satisfies every constraint of its segment,
    (3) named parameters and `+` are non-empty unless optional,
    (4) named parameters contain no `/`. -/
theorem route_sound {chk : Constraint → Bytes → Bool} {cfg : Config} {use : Bool} {pattern : Bytes}
    {r : Route} (hr : register cfg use pattern = some r)
    (hp : r.params.length > 0) (hstar : r.star = false) (hroot : r.root = false)
    (orig : Bytes) {vs : List Bytes}
    (h : routeMatch chk r (configDependentPaths cfg orig).2 (configDependentPaths cfg orig).1 = some vs) :
    substitutionOK cfg use r.parser.segs vs (configDependentPaths cfg orig).1 = true ∧
    constraintViolation chk (paramSegs r.parser.segs) vs = none ∧
    requiredNonEmpty (paramSegs r.parser.segs) vs = true ∧
    namedNoSlash (paramSegs r.parser.segs) vs = true := by
  rw [route_match_requires_getMatch hp hstar hroot] at h
  obtain ⟨hu, pp, hpp, hpe⟩ := register_use hr
  have hm : MetaOK r.parser.segs := by rw [hpe]; exact parseRoute_metaOK hpp
  have hal := configDependentPaths_aligned cfg orig
  refine ⟨?_, getMatch_constraints _ _ _ _ h, getMatch_required _ _ _ _ _ hal h,
    getMatch_namedNoSlash _ (foldByte_slash cfg) _ _ _ _ hm hal h⟩
  unfold substitutionOK
  simp only
  have := getMatch_renders (foldByte cfg) _ _ _ _ hm hal h
  rw [map_foldByte, hu, configDependentPaths_norm] at this
  rw [this]
  rfl

/-- The catch-all route `/*`: the value is the path behind the first byte, and `"/" ++ value` is the
    path. -/
theorem star_route_value {chk : Constraint → Bytes → Bool} {r : Route} {det path : Bytes} {vs : List Bytes}
    (hstar : r.star = true) (hnr : ¬ (r.root = true ∧ det = [SLASH]))
    (h : routeMatch chk r det path = some vs) : vs = [path.drop 1] := by
  unfold routeMatch at h
  have : (r.root && det == [SLASH]) = false := by
    cases hr : r.root
    · rfl
    · simp only [Bool.true_and, beq_eq_false_iff_ne, ne_eq]
      exact fun hd => hnr ⟨hr, hd⟩
  simp only [this, hstar, Bool.false_eq_true, if_false, if_true, Option.some.injEq] at h
  exact h.symm

/-- **With CaseSensitive and StrictRouting the routed pattern is the declared pattern**, so the
    constraints `route_sound` speaks about are the declared ones. (For the other configurations the
    routed pattern is the lower-cased / slash-trimmed text; that declared constraints survive this
    is known finding K1 where they do not, and is covered by the correspondence check and the spec
    oracle where they do.) -/
theorem declared_eq_routed {cfg : Config} (hcs : cfg.caseSensitive = true) (hst : cfg.strictRouting = true)
    (pattern : Bytes) : prettyPattern cfg pattern = rawPattern pattern := by
  unfold prettyPattern rawPattern
  simp [hcs, hst]

/-- K1 witness: default configuration, `GET /:x<regex(^[A-Z]+$)>`, request `/abc`. The declared
    constraint (upper-case letters only) is violated by the value `abc`, yet the route matches,
    because the router enforces the constraint parsed from the lower-cased pattern. `decl` is the
    documented meaning of the declared regex on this value, `low` of the lower-cased one. -/
theorem declared_constraints_witness_K1 :
    (match register {} false (b "/:x<regex(^[A-Z]+$)>"), parseRoute (b "/:x<regex(^[A-Z]+$)>") with
     | some r, some decl =>
       -- fiber's verdicts: the lower-cased regex accepts "abc"
       let low : Constraint → Bytes → Bool := fun c v => c.data == [b "^[a-z]+$"] && v == b "abc"
       -- documented meaning of the declared regex: "abc" is not upper-case
       let declared : Constraint → Bytes → Bool := fun c v => c.data == [b "^[A-Z]+$"] && v == b "ABC"
       routeMatch (checkConstraint [] low) r (b "/abc") (b "/abc") == some [b "abc"] &&
       (constraintViolation (checkConstraint [] declared) (paramSegs decl.segs) [b "abc"]).isSome &&
       Known.K1 {} [] decl.segs
     | _, _ => false) = true := by decide

end C02
