import FiberModel.C02.Sound
import FiberModel.C02.Locality
import FiberModel.C02.Capstone
import FiberModel.C02.Constraints
import FiberModel.C02.Known
/-
C02 — property theorems (only). The matcher theorems quantify over every segment list satisfying
`MetaOK` (which `parseRoute_metaOK` proves for every parsed pattern), every detection path / user
path pair related as `configDependentPaths` relates them (`Aligned`), every constraint verdict
function `chk` (so also over every regex / datetime / custom constraint), and both match modes
(`partialCheck` = middleware). The route-level theorems quantify over every configuration, every
pattern `register` accepts, and every request path.
-/
namespace C02
open B

/-- the byte-wise case folding a configuration applies to the detection path -/
def foldByte (cfg : Config) : Nat → Nat := if cfg.caseSensitive then id else lowerByte

theorem lowerByte_slash (c : Nat) : lowerByte c = SLASH ↔ c = SLASH := by
  unfold lowerByte isUpper
  split
  · rename_i h
    simp only [Bool.and_eq_true, decide_eq_true_eq] at h
    have hs : SLASH = 47 := rfl
    constructor <;> intro hh <;> omega
  · exact Iff.rfl

theorem foldByte_slash (cfg : Config) (c : Nat) : foldByte cfg c = SLASH ↔ c = SLASH := by
  unfold foldByte
  cases cfg.caseSensitive
  · exact lowerByte_slash c
  · exact Iff.rfl

theorem configDependentPaths_aligned (cfg : Config) (orig : Bytes) :
    Aligned (foldByte cfg) (configDependentPaths cfg orig).2 (configDependentPaths cfg orig).1 := by
  unfold configDependentPaths Aligned foldByte toLower
  simp only
  cases cfg.caseSensitive
  · simp only [Bool.not_false, if_true, Bool.false_eq_true, if_false]
    repeat' split
    all_goals first | exact trimRight_prefix _ _ | exact List.prefix_refl _
  · simp only [Bool.not_true, Bool.false_eq_true, if_false, if_true, List.map_id]
    repeat' split
    all_goals first | exact trimRight_prefix _ _ | exact List.prefix_refl _

theorem configDependentPaths_norm (cfg : Config) (orig : Bytes) :
    (configDependentPaths cfg orig).2 = normPath cfg (configDependentPaths cfg orig).1 := by
  unfold normPath configDependentPaths
  simp

theorem map_foldByte (cfg : Config) (vs : List Bytes) :
    vs.map (·.map (foldByte cfg)) = (if cfg.caseSensitive then vs else vs.map toLower) := by
  unfold foldByte
  cases cfg.caseSensitive
  · simp [toLower]
  · simp

/-! ## Matcher theorems -/

/-- **getMatch soundness (clause 1).** If `getMatch` succeeds with values `vs`, then substituting
    the (case-folded) values into the segments reproduces the detection path — a prefix of it for a
    middleware (partial) match — where a constant's final slash may be missing only if the pattern
    makes it optional (`slashOpt`) and the path ends there. The values are the slices of the user
    path at the offsets found on the detection path (`Aligned`). -/
theorem getMatch_sound (f : Nat → Nat) {chk : Constraint → Bytes → Bool} {pc : Bool}
    {segs : List Seg} {det path : Bytes} {vs : List Bytes}
    (hm : MetaOK segs) (hal : Aligned f det path)
    (h : getMatch chk segs det path pc = some vs) :
    renders segs (vs.map (·.map f)) det pc = true :=
  getMatch_renders f segs det path vs hm hal h

example : (match parseRoute (b "/api/:x/b/:y?") with
    | some p => getMatch (fun _ _ => true) p.segs (b "/api/v/b") (b "/api/V/b") false == some [b "V", []] &&
                renders p.segs [b "v", []] (b "/api/v/b") false
    | none => false) = true := by decide

/-- **Constraints are enforced (clause 2).** Every value `getMatch` reports satisfies every
    constraint of its segment (an optional parameter that captured nothing is not checked). -/
theorem getMatch_constraints_enforced {chk : Constraint → Bytes → Bool} {pc : Bool}
    {segs : List Seg} {det path : Bytes} {vs : List Bytes}
    (h : getMatch chk segs det path pc = some vs) :
    constraintViolation chk (paramSegs segs) vs = none :=
  getMatch_constraints segs det path vs h

/-- The values `getMatch` reports do not depend on the constraints. -/
theorem getMatch_mono {chk : Constraint → Bytes → Bool} {pc : Bool} :
    (segs : List Seg) → (det path : Bytes) → (vs : List Bytes) →
    getMatch chk segs det path pc = some vs → getMatch (fun _ _ => true) segs det path pc = some vs
  | [], det, path, vs, h => by
    unfold getMatch at h ⊢; exact h
  | seg :: rest, det, path, vs, h => by
    cases hp : seg.isParam
    · unfold getMatch at h ⊢
      simp only [hp, Bool.not_false, if_true] at h ⊢
      split
      · rename_i hb
        rw [if_pos hb] at h
        split
        · rename_i hl; rw [if_pos hl] at h; exact getMatch_mono rest _ _ vs h
        · rename_i hl; rw [if_neg hl] at h; exact getMatch_mono rest _ _ vs h
      · rename_i hb
        rw [if_neg hb] at h
        split
        · rename_i hb2
          rw [if_pos hb2] at h
          split
          · rename_i hl; rw [if_pos hl] at h; exact getMatch_mono rest _ _ vs h
          · rename_i hl; rw [if_neg hl] at h; exact getMatch_mono rest _ _ vs h
        · rename_i hb2; rw [if_neg hb2] at h; cases h
    · obtain ⟨vs', hv, hreq, _, hrec⟩ := getMatch_param_step h hp
      have ih := getMatch_mono rest _ _ vs' hrec
      have hle := paramLen_le det seg rest
      unfold getMatch
      simp only [hp, Bool.not_true, Bool.false_eq_true, if_false]
      have h1 : (!seg.isOptional && paramLen det seg rest == 0) = false := by
        rcases hreq with ho | hne
        · simp [ho]
        · simp [hne]
      simp only [h1, Bool.false_eq_true, if_false]
      have hrec' : (if det.length > 0 then getMatch (fun _ _ => true) rest (det.drop (paramLen det seg rest)) (path.drop (paramLen det seg rest)) pc
                   else getMatch (fun _ _ => true) rest det path pc) =
                  getMatch (fun _ _ => true) rest (det.drop (paramLen det seg rest)) (path.drop (paramLen det seg rest)) pc := by
        split
        · rfl
        · have : paramLen det seg rest = 0 := by omega
          rw [this]; simp
      rw [hrec', ih, hv]
      simp

/-- **A value that violates a constraint gets the not-found handling (clause 5).** The matcher's
    choice of values does not depend on the constraints; if the values it would report violate a
    constraint, the route does not match at all. -/
theorem constraint_violation_rejects {chk : Constraint → Bytes → Bool} {pc : Bool}
    {segs : List Seg} {det path : Bytes} {vs : List Bytes}
    (h : getMatch (fun _ _ => true) segs det path pc = some vs)
    (hv : (constraintViolation chk (paramSegs segs) vs).isSome = true) :
    getMatch chk segs det path pc = none := by
  cases hc : getMatch chk segs det path pc with
  | none => rfl
  | some vs' =>
    have h1 := getMatch_mono segs det path vs' hc
    rw [h] at h1
    cases h1
    rw [getMatch_constraints segs det path vs hc] at hv
    cases hv

example : (match parseRoute (b "/u/:id<int>") with
    | some p => getMatch (fun _ _ => true) p.segs (b "/u/:id<int>") (b "/u/:id<int>") false == some [b ":id<int>"] &&
                (constraintViolation (checkConstraint [] (fun _ _ => true)) (paramSegs p.segs) [b ":id<int>"]).isSome &&
                getMatch (checkConstraint [] (fun _ _ => true)) p.segs (b "/u/:id<int>") (b "/u/:id<int>") false == none &&
                getMatch (checkConstraint [] (fun _ _ => true)) p.segs (b "/u/42") (b "/u/42") false == some [b "42"]
    | none => false) = true := by decide

/-- **Required parameters are non-empty (clause 3).** -/
theorem getMatch_required_nonempty (f : Nat → Nat) {chk : Constraint → Bytes → Bool} {pc : Bool}
    {segs : List Seg} {det path : Bytes} {vs : List Bytes}
    (hal : Aligned f det path) (h : getMatch chk segs det path pc = some vs) :
    requiredNonEmpty (paramSegs segs) vs = true :=
  getMatch_required f segs det path vs hal h

/-- **Named parameters never span a `/` (clause 4).** Holds for the repaired `findParamLen`
    (commit "named route parameters never span a slash"); before it, `/flights/:from-:to` matched
    `/flights/a/b-c` with `from = "a/b"`. -/
theorem named_no_slash (f : Nat → Nat) (hf : ∀ c, f c = SLASH ↔ c = SLASH)
    {chk : Constraint → Bytes → Bool} {pc : Bool}
    {segs : List Seg} {det path : Bytes} {vs : List Bytes}
    (hm : MetaOK segs) (hal : Aligned f det path) (h : getMatch chk segs det path pc = some vs) :
    namedNoSlash (paramSegs segs) vs = true :=
  getMatch_namedNoSlash f hf segs det path vs hm hal h

example : (match parseRoute (b "/flights/:from-:to") with
    | some p => getMatch (fun _ _ => true) p.segs (b "/flights/a/b-c") (b "/flights/a/b-c") false == none &&
                getMatch (fun _ _ => true) p.segs (b "/flights/ab-c") (b "/flights/ab-c") false == some [b "ab", b "c"]
    | none => false) = true := by decide

example : (match parseRoute (b "/ab/:a:b") with
    | some p => getMatch (fun _ _ => true) p.segs (b "/ab//x") (b "/ab//x") false == none &&
                getMatch (fun _ _ => true) p.segs (b "/ab/xyz") (b "/ab/xyz") false == some [b "x", b "yz"]
    | none => false) = true := by decide

/-! ## Route level -/

/-- **A route with parameters matches only through `getMatch`** (no literal / prefix fallback;
    repaired by commit "a route with parameters matches only through its parser"). -/
theorem route_match_requires_getMatch {chk : Constraint → Bytes → Bool} {r : Route} {det path : Bytes}
    (hp : r.params.length > 0) (hstar : r.star = false) (hroot : r.root = false) :
    routeMatch chk r det path = getMatch chk r.parser.segs det path r.use := by
  unfold routeMatch
  simp [hp, hstar, hroot]

theorem register_use {cfg : Config} {use : Bool} {pattern : Bytes} {r : Route}
    (hr : register cfg use pattern = some r) :
    r.use = use ∧ ∃ pp, parseRouteW (prettyPattern cfg pattern)
        ((rawPattern pattern).take (prettyPattern cfg pattern).length) = some pp ∧ r.parser = pp := by
  unfold register at hr
  simp only at hr
  split at hr
  · rename_i pr pp _ hpp
    cases hr
    exact ⟨rfl, pp, hpp, rfl⟩
  · cases hr

/-- **C02 for a registered parameterised route.** For every configuration, every pattern
    `register` accepts (GET or `Use`), every request path: if `Route.match` succeeds on the paths
    `configDependentPaths` derives from the request, then, for the values written to `c.values`,
    (1) substituting them into the routed pattern reproduces `Path()` (a prefix for middleware)
        modulo the configured case folding and the trailing slashes the pattern / configuration make
        optional,
    (2) every value satisfies every constraint of its segment,
    (3) named parameters and `+` are non-empty unless optional,
    (4) named parameters contain no `/`. -/
theorem route_sound {chk : Constraint → Bytes → Bool} {cfg : Config} {use : Bool} {pattern : Bytes}
    {r : Route} (hr : register cfg use pattern = some r)
    (hp : r.params.length > 0) (hstar : r.star = false) (hroot : r.root = false)
    (orig : Bytes) {vs : List Bytes}
    (h : routeMatch chk r (configDependentPaths cfg orig).2 (configDependentPaths cfg orig).1 = some vs) :
    substitutionOK cfg use r.parser.segs vs (configDependentPaths cfg orig).1 = true ∧
    constraintViolation chk (paramSegs r.parser.segs) vs = none ∧
    requiredNonEmpty (paramSegs r.parser.segs) vs = true ∧
    namedNoSlash (paramSegs r.parser.segs) vs = true := by
  rw [route_match_requires_getMatch hp hstar hroot] at h
  obtain ⟨hu, pp, hpp, hpe⟩ := register_use hr
  have hm : MetaOK r.parser.segs := by rw [hpe]; exact parseRouteW_metaOK hpp
  have hal := configDependentPaths_aligned cfg orig
  refine ⟨?_, getMatch_constraints _ _ _ _ h, getMatch_required _ _ _ _ _ hal h,
    getMatch_namedNoSlash _ (foldByte_slash cfg) _ _ _ _ hm hal h⟩
  unfold substitutionOK
  simp only
  have := getMatch_renders (foldByte cfg) _ _ _ _ hm hal h
  rw [map_foldByte, hu, configDependentPaths_norm] at this
  rw [this]
  rfl

/-- The catch-all route `/*`: the value is the path behind the first byte, and `"/" ++ value` is the
    path. -/
theorem star_route_value {chk : Constraint → Bytes → Bool} {r : Route} {det path : Bytes} {vs : List Bytes}
    (hstar : r.star = true) (hnr : ¬ (r.root = true ∧ det = [SLASH]))
    (h : routeMatch chk r det path = some vs) : vs = [path.drop 1] := by
  unfold routeMatch at h
  have : (r.root && det == [SLASH]) = false := by
    cases hr : r.root
    · rfl
    · simp only [Bool.true_and, beq_eq_false_iff_ne, ne_eq]
      exact fun hd => hnr ⟨hr, hd⟩
  simp only [this, hstar, Bool.false_eq_true, if_false, if_true, Option.some.injEq] at h
  exact h.symm

/-- **With CaseSensitive and StrictRouting the routed pattern is the declared pattern**, so the
    constraints `route_sound` speaks about are the declared ones. (For the other configurations the
    routed pattern is the lower-cased / slash-trimmed text; that declared constraints survive this
    is known finding K1 where they do not, and is covered by the correspondence check and the spec
    oracle where they do.) -/
theorem declared_eq_routed {cfg : Config} (hcs : cfg.caseSensitive = true) (hst : cfg.strictRouting = true)
    (pattern : Bytes) : prettyPattern cfg pattern = rawPattern pattern := by
  unfold prettyPattern rawPattern
  simp [hcs, hst]

/-! ## The pattern as written, all routes, and what `Params` reports -/

theorem unquote_head {orig : Bytes} (ho : orig.head? = some SLASH) : (unquote orig).head? = some SLASH := by
  cases orig with
  | nil => cases ho
  | cons c rest =>
    have hc : c = SLASH := by simpa using ho
    subst hc
    unfold unquote
    have h1 : (SLASH == PCT) = false := by decide
    have h2 : (SLASH == PLUS) = false := by decide
    simp only [h1, h2, Bool.false_eq_true, if_false, List.head?_cons]

theorem configDependentPaths_head (cfg : Config) {orig : Bytes} (ho : orig.head? = some SLASH) :
    (configDependentPaths cfg orig).1.head? = some SLASH := by
  unfold configDependentPaths
  simp only
  split
  · exact unquote_head ho
  · exact ho

/-- The four clauses for the segments the route matches with — every branch of `Route.match`:
    the root shortcut (impossible for a route that declares parameters), the catch-all shortcut, and
    the parameter matcher. -/
theorem route_sound_routed {chk : Constraint → Bytes → Bool} {cfg : Config} {use : Bool} {pattern : Bytes}
    {r : Route} (hr : register cfg use pattern = some r) (hp : r.params.length > 0)
    (orig : Bytes) (ho : orig.head? = some SLASH) {vs : List Bytes}
    (h : routeMatch chk r (configDependentPaths cfg orig).2 (configDependentPaths cfg orig).1 = some vs) :
    vs.length = (paramSegs r.parser.segs).length ∧
    substitutionOK cfg use r.parser.segs vs (configDependentPaths cfg orig).1 = true ∧
    constraintViolation chk (paramSegs r.parser.segs) vs = none ∧
    requiredNonEmpty (paramSegs r.parser.segs) vs = true ∧
    namedNoSlash (paramSegs r.parser.segs) vs = true := by
  have hroot : r.root = false := by
    cases hrt : r.root
    · rfl
    · have := root_no_params hr hrt
      rw [this] at hp; simp at hp
  cases hst : r.star
  · have hgm := h
    rw [route_match_requires_getMatch hp hst hroot] at hgm
    exact ⟨getMatch_length _ _ _ _ hgm, route_sound hr hp hst hroot orig h⟩
  · obtain ⟨hsegs, _⟩ := star_parser hr hst
    have hv := star_route_value (chk := chk) hst (by rw [hroot]; simp) h
    subst hv
    rw [hsegs]
    exact ⟨rfl, star_sound cfg use _ (configDependentPaths_head cfg ho)⟩

/-- **C02 against the pattern as written — every configuration, every registered route that declares
    parameters, every request path.** If `Route.match` succeeds, then for the values it wrote:
    (1) substituting them into the routed pattern reproduces `Path()` (a prefix for middleware) modulo
        the configured case folding and the trailing slashes the pattern / configuration make optional;
    (2) every value satisfies every constraint **as written in the pattern** (same names, same data,
        same letter case — `routed_eq_written`; for any verdict function of regex / datetime / custom
        constraints), an optional parameter that captured nothing excepted;
    (3) parameters not marked optional in the written pattern are non-empty;
    (4) parameters not greedy in the written pattern contain no '/'.
    `wr` is the parse of `writtenPattern cfg pattern`: the text passed to `Get`/`Use`, no case folding,
    minus the trailing slashes the configuration ignores. -/
theorem route_sound_written {chk : Constraint → Bytes → Bool} {cfg : Config} {use : Bool} {pattern : Bytes}
    {r : Route} (hr : register cfg use pattern = some r) (hp : r.params.length > 0)
    (orig : Bytes) (ho : orig.head? = some SLASH) {vs : List Bytes}
    (h : routeMatch chk r (configDependentPaths cfg orig).2 (configDependentPaths cfg orig).1 = some vs) :
    ∃ wr, parseRoute (writtenPattern cfg pattern) = some wr ∧
      vs.length = (paramSegs wr.segs).length ∧
      substitutionOK cfg use r.parser.segs vs (configDependentPaths cfg orig).1 = true ∧
      constraintViolation chk (paramSegs wr.segs) vs = none ∧
      requiredNonEmpty (paramSegs wr.segs) vs = true ∧
      namedNoSlash (paramSegs wr.segs) vs = true := by
  obtain ⟨wr, hwr, hv⟩ := routed_eq_written hr
  obtain ⟨hl, h1, h2, h3, h4⟩ := route_sound_routed hr hp orig ho h
  obtain ⟨c1, c2, c3⟩ := clauses_congr (chk := chk) _ _ vs hv
  refine ⟨wr, hwr, ?_, h1, ?_, by rw [← c2]; exact h3, by rw [← c3]; exact h4⟩
  · have := congrArg List.length hv
    simp only [List.length_map] at this
    omega
  · rw [h2] at c1
    cases hc : constraintViolation chk (paramSegs wr.segs) vs with
    | none => rfl
    | some _ => rw [hc] at c1; cases c1

example : (match register {} false (b "/Shop/:id<regex(^[A-Z]+$)>/:rest?/"), parseRoute (writtenPattern {} (b "/Shop/:id<regex(^[A-Z]+$)>/:rest?/")) with
    | some r, some wr =>
      decide (r.params.length > 0) &&
      routeMatch (fun _ _ => true) r (b "/shop/abc") (b "/SHOP/ABC") == some [b "ABC", []] &&
      (paramSegs wr.segs).map (·.constraints) ==
        [[{ id := .regex, name := b "regex", data := [b "^[A-Z]+$"] }], []]
    | _, _ => false) = true := by decide

/-- **What `Params(key)` reports.** For any key, `Params(key)` is "" or the value of the first
    declared name `j` that answers to the key (same length; equal, or equal under ASCII case folding
    unless CaseSensitive; the keys `*` / `+` stand for `*1` / `+1`), and that value meets the
    per-value clauses of the property for the `j`-th parameter of the pattern as written.
    (`NoSwallow`: outside the corner where the raw text and the written pattern disagree about where
    the last parameter ends; there `Route.Params` is only tied to the route by the correspondence
    check.) -/
theorem params_observed_sound {chk : Constraint → Bytes → Bool} {cfg : Config} {use : Bool} {pattern : Bytes}
    {r : Route} (hr : register cfg use pattern = some r) (hp : r.params.length > 0)
    (hns : NoSwallow (writtenPattern cfg pattern))
    (orig : Bytes) (ho : orig.head? = some SLASH) {vs : List Bytes}
    (h : routeMatch chk r (configDependentPaths cfg orig).2 (configDependentPaths cfg orig).1 = some vs)
    (key : Bytes) :
    ∃ wr, parseRoute (writtenPattern cfg pattern) = some wr ∧
      (paramsGet cfg r.params vs key = [] ∨
       ∃ j, ∃ _ : j < r.params.length, ∃ _ : j < (paramSegs wr.segs).length, ∃ _ : j < vs.length,
         keyMatch cfg r.params[j] (paramsKey key) = true ∧
         (∀ i, ∀ _ : i < r.params.length, i < j → keyMatch cfg r.params[i] (paramsKey key) = false) ∧
         paramsGet cfg r.params vs key = vs[j] ∧
         clausesAt chk (paramSegs wr.segs)[j] vs[j]) := by
  obtain ⟨wr, hwr, hl, _, h2, h3, h4⟩ := route_sound_written hr hp orig ho h
  refine ⟨wr, hwr, ?_⟩
  have hal := params_aligned hr hns
  have hl2 := (route_sound_routed hr hp orig ho h).1
  unfold paramsGet
  rw [paramsLookup_eq]
  rcases lookupRec_first cfg (paramsKey key) r.params vs with ⟨h0, _⟩ | ⟨j, hj, hm, hfirst, hval⟩
  · left; exact h0
  · right
    have hjv : j < vs.length := by omega
    have hjs : j < (paramSegs wr.segs).length := by omega
    refine ⟨j, hj, hjs, hjv, hm, hfirst, ?_, clauses_pointwise _ _ h2 h3 h4 j hjs hjv⟩
    rw [hval]
    simp [List.getD_eq_getElem?_getD, List.getElem?_eq_getElem hjv]

/-- **With distinct declared names, `Params(name)` reports exactly the values `Route.match` wrote**, so
    the clauses of `route_sound_written` hold for what the handler reads through `Params`. -/
theorem params_positional {chk : Constraint → Bytes → Bool} {cfg : Config} {use : Bool} {pattern : Bytes}
    {r : Route} (hr : register cfg use pattern = some r) (hp : r.params.length > 0)
    (hns : NoSwallow (writtenPattern cfg pattern)) (hd : namesDistinct cfg r.params = true)
    (orig : Bytes) (ho : orig.head? = some SLASH) {vs : List Bytes}
    (h : routeMatch chk r (configDependentPaths cfg orig).2 (configDependentPaths cfg orig).1 = some vs) :
    r.params.map (paramsLookup cfg r.params vs) = vs := by
  have hal := params_aligned hr hns
  have hl2 := (route_sound_routed hr hp orig ho h).1
  have : r.params.map (paramsLookup cfg r.params vs) = r.params.map (lookupRec cfg r.params vs) := by
    apply List.map_congr_left
    intro n _
    exact paramsLookup_eq cfg r.params vs n
  rw [this]
  exact lookupRec_positional cfg r.params vs hd (by omega)

example : (match register {} false (b "/a/:Id/*") with
    | some r =>
      namesDistinct {} r.params &&
      routeMatch (fun _ _ => true) r (b "/a/x/y/z") (b "/a/X/y/Z") == some [b "X", b "y/Z"] &&
      paramsGet {} r.params [b "X", b "y/Z"] (b "ID") == b "X" &&
      paramsGet {} r.params [b "X", b "y/Z"] (b "*") == b "y/Z"
    | none => false) = true := by decide

/-- **The built-in constraints, end to end.** With `CheckConstraint` as the constraint check (any
    registered custom constraints `custom`, any verdicts `abs` for regex / datetime / custom): whenever
    a registered route matches, every value written for a parameter of the pattern as written passes
    the transcribed decision procedure of each of its built-in constraints int, bool, float, guid,
    minLen, maxLen, len, betweenLen, min, max, range — and alpha when the value is ASCII — that no
    custom constraint overrides (an optional parameter that captured nothing excepted). What the
    procedures demand is spelled out by `checkExact_int … checkExact_range`, `atoi_ok`. -/
theorem builtin_constraints_enforced {custom : List Bytes} {abs : Constraint → Bytes → Bool}
    {cfg : Config} {use : Bool} {pattern : Bytes}
    {r : Route} (hr : register cfg use pattern = some r) (hp : r.params.length > 0)
    (orig : Bytes) (ho : orig.head? = some SLASH) {vs : List Bytes}
    (h : routeMatch (checkConstraint custom abs) r (configDependentPaths cfg orig).2
      (configDependentPaths cfg orig).1 = some vs) :
    ∃ wr, parseRoute (writtenPattern cfg pattern) = some wr ∧
      ∀ j, ∀ hj : j < (paramSegs wr.segs).length, ∀ hv : j < vs.length,
        ∀ c ∈ ((paramSegs wr.segs)[j]).constraints, custom.contains c.name = false →
          (c.id.exact = true ∨ (c.id = .alpha ∧ vs[j].any (· ≥ 128) = false)) →
          (((paramSegs wr.segs)[j]).isOptional = true ∧ vs[j] = []) ∨ checkExact c vs[j] = true := by
  obtain ⟨wr, hwr, _, _, h2, h3, h4⟩ := route_sound_written hr hp orig ho h
  refine ⟨wr, hwr, ?_⟩
  intro j hj hv c hc hcust hk
  rcases (clauses_pointwise _ _ h2 h3 h4 j hj hv).1 with hopt | hall
  · exact Or.inl hopt
  · right
    rw [← checkConstraint_builtin custom abs c _ hcust hk]
    exact hall c hc

example : (match register {} false (b "/U/:id<range(5,10)>/:f<float>/:g<guid>?") with
    | some r =>
      let chk := checkConstraint [] (fun _ _ => false)
      routeMatch chk r (b "/u/7/1.5") (b "/U/7/1.5") == some [b "7", b "1.5", []] &&
      routeMatch chk r (b "/u/11/1.5") (b "/u/11/1.5") == none &&
      routeMatch chk r (b "/u/7/1e39") (b "/u/7/1e39") == none &&
      routeMatch chk r (b "/u/7/0x1p-2/123e4567-e89b-12d3-a456-426614174000") (b "/u/7/0x1p-2/123E4567-e89b-12d3-a456-426614174000")
        == some [b "7", b "0x1p-2", b "123E4567-e89b-12d3-a456-426614174000"] &&
      routeMatch chk r (b "/u/7/1.5/123e4567") (b "/u/7/1.5/123e4567") == none
    | none => false) = true := by decide

/-! ## model ⊑ spec -/

theorem dispatch1_some {chk : Constraint → Bytes → Bool} {r : Route} {det path : Bytes} {vs : List Bytes}
    (h : dispatch1 chk r det path = some vs) : routeMatch chk r det path = some vs := by
  unfold dispatch1 at h
  split at h
  · exact h
  · cases h

/-- **The model's observation meets the specification — the exact predicate the oracle evaluates on
    the implementation's observations.** For every configuration, `Get` or `Use`, every pattern that
    registers, every request path starting with '/', every constraint verdict function: the
    observation the model produces (handler ran or 404; `Route().Params`; `Params(name)` for every
    declared name; `Params(k)` for the extra keys `*`, `+`, the first name in upper and lower case;
    `Path()`) has no failing clause: declared names, arity, substitution, constraints as written,
    required non-empty, named without '/', `Params` lookup rule, not-found handling.
    Hypotheses: distinct declared names (the documented assumption under which `Params(name)` is the
    positional value) and `NoSwallow` (the raw text and the written pattern agree on where the last
    parameter ends). -/
theorem model_meets_spec {chk : Constraint → Bytes → Bool} {cfg : Config} {use : Bool} {pattern reqPath : Bytes}
    {decl wr : Parser} {r : Route}
    (hd : parseRoute (rawPattern pattern) = some decl) (hw : parseRoute (writtenPattern cfg pattern) = some wr)
    (hr : register cfg use pattern = some r)
    (ho : reqPath.head? = some SLASH) (hns : NoSwallow (writtenPattern cfg pattern))
    (hdist : namesDistinct cfg r.params = true) :
    specViolation cfg use decl.segs wr.segs r.parser.segs chk (modelObs chk cfg use pattern reqPath) = none := by
  unfold modelObs
  rw [hr]
  simp only
  cases hdsp : dispatch1 chk r (configDependentPaths cfg reqPath).2 (configDependentPaths cfg reqPath).1 with
  | none => simp [specViolation]
  | some vs =>
    have hm := dispatch1_some hdsp
    simp only
    -- facts about the route
    obtain ⟨pr, hpr, hparams, _⟩ := register_parts hr
    rw [hd] at hpr
    cases hpr
    obtain ⟨wr', hwr', hv⟩ := routed_eq_written hr
    rw [hw] at hwr'
    cases hwr'
    have hraw := written_eq_raw hns hd hw
    have hal := params_aligned hr hns
    have hnames : r.params = (paramSegs decl.segs).map (·.paramName) := by
      rw [hparams, parseRoute_params hd]; rfl
    have l1 : (paramSegs r.parser.segs).length = (paramSegs wr.segs).length := by
      have := congrArg List.length hv; simpa using this
    have l2 : (paramSegs decl.segs).length = (paramSegs wr.segs).length := by
      have := congrArg List.length hraw; simpa using this
    unfold specViolation
    simp only [Bool.false_eq_true, if_false, show ((1 : Nat) == 0) = false from rfl,
      show ((1 : Nat) != 1) = false from rfl]
    by_cases hemp : ((paramSegs decl.segs).isEmpty && (paramSegs wr.segs).isEmpty) = true
    · rw [if_pos hemp]
    · rw [if_neg hemp]
      have hp : r.params.length > 0 := by
        rw [hal, l1]
        cases hps : paramSegs wr.segs with
        | nil =>
          exfalso; apply hemp
          have : paramSegs decl.segs = [] := List.eq_nil_of_length_eq_zero (by rw [l2, hps]; rfl)
          rw [this, hps]; rfl
        | cons _ _ => simp
      obtain ⟨wr'', hwr'', hlen, h1, h2, h3, h4⟩ := route_sound_written hr hp reqPath ho hm
      rw [hw] at hwr''
      cases hwr''
      have hpos := params_positional hr hp hns hdist reqPath ho hm
      have hextra : (extraKeys r.params).map (paramsGet cfg r.params vs) =
          (extraKeys r.params).map (specLookup cfg r.params vs) := by
        apply List.map_congr_left
        intro k _
        exact paramsGet_eq_specLookup cfg r.params vs k
      have n1 : (r.params != (paramSegs decl.segs).map (fun s => s.paramName)) = false := by
        rw [← hnames]; simp
      have e1 : (((extraKeys r.params).map (paramsGet cfg r.params vs)) !=
          ((extraKeys r.params).map (specLookup cfg r.params vs))) = false := by
        rw [hextra]; simp
      have c2 : (constraintViolation chk (paramSegs wr.segs) vs).isSome = false := by rw [h2]; rfl
      have a1 : (vs.length != (paramSegs wr.segs).length) = false := by simp [hlen]
      have a2 : ((paramSegs r.parser.segs).length != (paramSegs wr.segs).length) = false := by simp [l1]
      have a3 : ((paramSegs decl.segs).length != (paramSegs wr.segs).length) = false := by simp [l2]
      simp only [hpos, n1, a1, a2, a3, Bool.or_self, Bool.false_eq_true, if_false, h1, Bool.not_true, c2, h3, h4, e1]

example : (match parseRoute (rawPattern (b "/A/:Id")), parseRoute (writtenPattern {} (b "/A/:Id")),
      register {} false (b "/A/:Id") with
    | some decl, some wr, some r =>
      namesDistinct {} r.params &&
      (modelObs (fun _ _ => true) {} false (b "/A/:Id") (b "/a/X")).vals == [b "X"] &&
      (modelObs (fun _ _ => true) {} false (b "/A/:Id") (b "/a/X")).extra == [[], [], b "X", b "X"] &&
      specViolation {} false decl.segs wr.segs r.parser.segs (fun _ _ => true)
        (modelObs (fun _ _ => true) {} false (b "/A/:Id") (b "/a/X")) == none
    | _, _, _ => false) = true := by decide

/-- **Statelessness, named.** In the model the observation of the i-th request of a history does not
    depend on the requests before or after it: it is the observation of that request served alone.
    The differential check holds the implementation to this (history cases: one app, 2-4 requests on
    a reused fasthttp.RequestCtx, parameter values of equal length with different verdicts); every
    per-request theorem above (`route_sound_written`, `model_meets_spec`, …) therefore applies to each
    request of a history. -/
theorem history_stateless (chk : Constraint → Bytes → Bool) (cfg : Config) (use : Bool) (pattern : Bytes)
    (before after : List Bytes) (req : Bytes) :
    (historyObs chk cfg use pattern (before ++ req :: after))[before.length]? =
      some (modelObs chk cfg use pattern req) := by
  unfold historyObs
  simp

example : (historyObs (fun _ _ => true) {} false (b "/a/:x") [b "/a/b", b "/a", b "/a/c"]).map (·.ran) = [1, 0, 1] := by
  decide

/-- Former known finding K1, on the repaired code: default configuration (case-insensitive routing),
    `GET /:x<regex(^[A-Z]+$)>`. The routed parser carries the regex as written, so with the documented
    meaning of that regex the request `/abc` is rejected and `/ABC` is served with x = "ABC" (the
    pre-repair router compiled `^[a-z]+$`, served `/abc` and rejected `/ABC`). -/
theorem K1_repaired :
    (match register {} false (b "/:x<regex(^[A-Z]+$)>") with
     | some r =>
       let declared : Constraint → Bytes → Bool := fun c v => c.data == [b "^[A-Z]+$"] && v == b "ABC"
       (paramSegs r.parser.segs).map (·.constraints) ==
         [[{ id := .regex, name := b "regex", data := [b "^[A-Z]+$"] }]] &&
       routeMatch (checkConstraint [] declared) r (b "/abc") (b "/abc") == none &&
       routeMatch (checkConstraint [] declared) r (b "/abc") (b "/ABC") == some [b "ABC"]
     | none => false) = true := by decide

end C02
