import FiberModel.C02.Declared
/-
C02 — (B): trailing slashes of the pattern text do not change its parameter segments.

`register` cuts the trailing slashes of the pattern unless StrictRouting, but takes the parameter
names (`Route.Params`) from the uncut text. `parseLoop_append_slashes` shows both parses have the
same parameter segments (names, constraints, flags) — outside the corner `swallows`: a parameter
whose constraint brackets contain a '/' and have no end character behind them takes the whole rest
of the pattern text, trailing slashes included (`/:x</>/` declares the parameter text `:x</>/`).
-/
namespace C02
open B

/-- all bytes are slashes -/
def Slashes (sl : Bytes) : Prop := ∀ c ∈ sl, c = SLASH

theorem Slashes.tail {c : Nat} {sl : Bytes} (h : Slashes (c :: sl)) : Slashes sl :=
  fun x hx => h x (List.mem_cons_of_mem _ hx)

theorem Slashes.not_contains {sl : Bytes} (h : Slashes sl) {ch : Nat} (hch : ch ≠ SLASH) :
    sl.contains ch = false := by
  cases hh : sl.contains ch
  · rfl
  · exact absurd (h ch (List.contains_iff_mem.mp hh)) hch

/-! ### searches on `s ++ slashes` -/

theorem fnneGo_slashes {cs : List Nat} (hcs : cs.contains SLASH = false) : (prev : Option Nat) → (sl : Bytes) →
    Slashes sl → fnneGo cs prev sl = none
  | _, [], _ => rfl
  | prev, c :: rest, h => by
    have hc : c = SLASH := h c (List.mem_cons_self ..)
    unfold fnneGo
    rw [hc, hcs]
    simp [fnneGo_slashes hcs (some SLASH) rest h.tail]

theorem fnneGo_append {cs : List Nat} (hcs : cs.contains SLASH = false) {sl : Bytes} (hsl : Slashes sl) :
    (prev : Option Nat) → (q : Bytes) → fnneGo cs prev (q ++ sl) = fnneGo cs prev q
  | prev, [] => by
    rw [List.nil_append, fnneGo_slashes hcs prev sl hsl]; rfl
  | prev, c :: rest => by
    rw [List.cons_append]
    unfold fnneGo
    rw [fnneGo_append hcs hsl (some c) rest]
    by_cases hr : rest = []
    · subst hr
      have h0 : fnneGo cs (some c) [] = none := rfl
      simp only [List.nil_append, List.isEmpty_nil, if_true, h0, Option.map_none, ite_self]
    · have h1 : (rest ++ sl).isEmpty = false := by
        cases rest with
        | nil => exact absurd rfl hr
        | cons _ _ => rfl
      have h2 : rest.isEmpty = false := by
        cases rest with
        | nil => exact absurd rfl hr
        | cons _ _ => rfl
      rw [h1, h2]

theorem fnneGo_lt {cs : List Nat} : (prev : Option Nat) → (q : Bytes) → (n : Nat) →
    fnneGo cs prev q = some n → n < q.length
  | _, [], _, h => by cases h
  | prev, c :: rest, n, h => by
    unfold fnneGo at h
    have hrec : ∀ k, (fnneGo cs (some c) rest).map (· + 1) = some k → k < (c :: rest).length := by
      intro k hk
      cases hr : fnneGo cs (some c) rest with
      | none => rw [hr] at hk; cases hk
      | some j =>
        rw [hr] at hk
        simp only [Option.map_some, Option.some.injEq] at hk
        have := fnneGo_lt (some c) rest j hr
        simp only [List.length_cons]; omega
    split at h
    · split at h
      · split at h
        · cases h
        · exact hrec n h
      · cases h; simp
    · exact hrec n h

theorem startChars_noSlash : paramStartChars.contains SLASH = false := by decide

theorem getD_append_lt (q sl : Bytes) {k : Nat} (hk : k < q.length) : (q ++ sl).getD k 0 = q.getD k 0 := by
  simp only [List.getD_eq_getElem?_getD, List.getElem?_append_left hk]

theorem findNextParamPosition_append {sl : Bytes} (hsl : Slashes sl) (q : Bytes) :
    findNextParamPosition (q ++ sl) = findNextParamPosition q := by
  unfold findNextParamPosition fnne
  rw [fnneGo_append startChars_noSlash hsl]
  cases h : fnneGo paramStartChars none q with
  | none => rfl
  | some n =>
    have hn := fnneGo_lt none q n h
    simp only
    rw [getD_append_lt q sl hn, List.drop_append_of_le_length (by omega), fnneGo_append startChars_noSlash hsl]

theorem findNextParamPosition_lt {q : Bytes} {k : Nat} (h : findNextParamPosition q = some k) : k < q.length := by
  unfold findNextParamPosition fnne at h
  cases hn : fnneGo paramStartChars none q with
  | none => rw [hn] at h; cases h
  | some n =>
    have hlt := fnneGo_lt none q n hn
    rw [hn] at h
    simp only at h
    split at h
    · split at h
      · rename_i _ h0
        cases h
        -- the byte behind `n` is a parameter-start byte: it exists
        have : fnneGo paramStartChars none (q.drop (n + 1)) = some 0 := by simpa using h0
        have := fnneGo_lt none _ 0 this
        simp only [List.length_drop] at this
        omega
      · cases h; exact hlt
    · cases h; exact hlt

/-- with `\` in the charset nothing is ever skipped as escaped -/
theorem fnneGo_eq_findCharset {cs : List Nat} (hb : cs.contains BSL = true) : (prev : Option Nat) → (s : Bytes) →
    (prev == some BSL) = false → fnneGo cs prev s = findCharset s cs
  | _, [], _ => rfl
  | prev, c :: rest, hp => by
    unfold fnneGo findCharset
    by_cases hc : cs.contains c = true
    · simp only [hc, if_true, hp, Bool.false_eq_true, if_false]
    · have hc' : cs.contains c = false := by simpa using hc
      have hne : (some c == some BSL) = false := by
        cases hh : (some c == some BSL)
        · rfl
        · have : c = BSL := by simpa using hh
          rw [this, hb] at hc'; cases hc'
      simp only [hc', Bool.false_eq_true, if_false]
      rw [fnneGo_eq_findCharset hb (some c) rest hne]

theorem fnne_endChars (s : Bytes) : fnne s paramEndChars = findCharset s paramEndChars :=
  fnneGo_eq_findCharset (by decide) none s rfl

theorem findCharset_lt {cs : List Nat} : (s : Bytes) → (e : Nat) → findCharset s cs = some e → e < s.length
  | [], _, h => by cases h
  | c :: rest, e, h => by
    unfold findCharset at h
    split at h
    · cases h; simp
    · cases hr : findCharset rest cs with
      | none => rw [hr] at h; cases h
      | some j =>
        rw [hr] at h
        simp only [Option.map_some, Option.some.injEq] at h
        have := findCharset_lt rest j hr
        simp only [List.length_cons]; omega

theorem findCharset_append {cs : List Nat} (hcs : cs.contains SLASH = true) {sl : Bytes} (hsl : Slashes sl)
    (hne : sl ≠ []) : (s : Bytes) →
    findCharset (s ++ sl) cs = (match findCharset s cs with | some e => some e | none => some s.length)
  | [] => by
    cases sl with
    | nil => exact absurd rfl hne
    | cons c rest =>
      have hc : c = SLASH := hsl c (List.mem_cons_self ..)
      simp only [List.nil_append, findCharset, hc, hcs, if_true, List.length_nil]
  | c :: rest => by
    rw [List.cons_append]
    unfold findCharset
    split
    · rfl
    · rw [findCharset_append hcs hsl hne rest]
      cases findCharset rest cs <;> simp

theorem fnnecpGo_append {ch : Nat} (hch : ch ≠ SLASH) {sl : Bytes} (hsl : Slashes sl) :
    (prev : Option Nat) → (s : Bytes) → fnnecpGo ch prev (s ++ sl) = fnnecpGo ch prev s
  | prev, [] => by
    rw [List.nil_append, fnnecpGo_none_of_not_mem ch prev sl (hsl.not_contains hch)]; rfl
  | prev, c :: rest => by
    rw [List.cons_append]
    unfold fnnecpGo
    rw [fnnecpGo_append hch hsl (some c) rest]

theorem fnnecpGo_lt {ch : Nat} : (prev : Option Nat) → (s : Bytes) → (k : Nat) →
    fnnecpGo ch prev s = some k → k < s.length
  | _, [], _, h => by cases h
  | prev, c :: rest, k, h => by
    unfold fnnecpGo at h
    split at h
    · cases h; simp
    · cases hr : fnnecpGo ch (some c) rest with
      | none => rw [hr] at h; cases h
      | some j =>
        rw [hr] at h
        simp only [Option.map_some, Option.some.injEq] at h
        have := fnnecpGo_lt (some c) rest j hr
        simp only [List.length_cons]; omega

theorem indexByte_append_ne {ch : Nat} (hch : ch ≠ SLASH) {sl : Bytes} (hsl : Slashes sl) :
    (s : Bytes) → indexByte (s ++ sl) ch = indexByte s ch
  | [] => by
    rw [List.nil_append]
    have := hsl.not_contains hch
    cases hi : indexByte sl ch with
    | none => rfl
    | some k =>
      have h1 := indexByte_le sl ch k hi
      -- the byte at `k` is `ch`, but `sl` has no `ch`
      exfalso
      clear h1
      induction sl generalizing k with
      | nil => cases hi
      | cons x xs ih =>
        have hx : x = SLASH := hsl x (List.mem_cons_self ..)
        unfold indexByte at hi
        have : (x == ch) = false := by
          rw [hx, beq_eq_false_iff_ne]; exact fun h => hch h.symm
        simp only [this, Bool.false_eq_true, if_false] at hi
        cases hr : indexByte xs ch with
        | none => rw [hr] at hi; cases hi
        | some j => exact ih hsl.tail (hsl.tail.not_contains hch) j hr
  | c :: rest => by
    rw [List.cons_append]
    unfold indexByte
    rw [indexByte_append_ne hch hsl rest]

theorem indexByte_append_slash {sl : Bytes} (hsl : Slashes sl) (hne : sl ≠ []) :
    (s : Bytes) → indexByte (s ++ sl) SLASH =
      (match indexByte s SLASH with | some k => some k | none => some s.length)
  | [] => by
    cases sl with
    | nil => exact absurd rfl hne
    | cons c rest =>
      have hc : c = SLASH := hsl c (List.mem_cons_self ..)
      simp [indexByte, hc]
  | c :: rest => by
    rw [List.cons_append]
    unfold indexByte
    split
    · rfl
    · rw [indexByte_append_slash hsl hne rest]
      cases indexByte rest SLASH <;> simp

theorem lastIndexByte_append {ch : Nat} (hch : ch ≠ SLASH) {sl : Bytes} (hsl : Slashes sl) :
    (s : Bytes) → lastIndexByte (s ++ sl) ch = lastIndexByte s ch
  | [] => by
    rw [List.nil_append]
    induction sl with
    | nil => rfl
    | cons x xs ih =>
      have hx : x = SLASH := hsl x (List.mem_cons_self ..)
      unfold lastIndexByte
      rw [ih hsl.tail]
      have : (x == ch) = false := by
        rw [hx, beq_eq_false_iff_ne]; exact fun h => hch h.symm
      simp [lastIndexByte, this]
  | c :: rest => by
    rw [List.cons_append]
    unfold lastIndexByte
    rw [lastIndexByte_append hch hsl rest]

theorem lastIndexByte_lt {ch : Nat} : (s : Bytes) → (k : Nat) → lastIndexByte s ch = some k → k < s.length
  | [], _, h => by cases h
  | c :: rest, k, h => by
    unfold lastIndexByte at h
    cases hr : lastIndexByte rest ch with
    | some j =>
      rw [hr] at h
      simp only [Option.some.injEq] at h
      have := lastIndexByte_lt rest j hr
      simp only [List.length_cons]; omega
    | none =>
      rw [hr] at h
      simp only at h
      split at h
      · cases h; simp
      · cases h

theorem indexByte_none_of_not_contains : (s : Bytes) → (c : Nat) → s.contains c = false → indexByte s c = none
  | [], _, _ => rfl
  | x :: xs, c, h => by
    simp only [List.contains_cons, Bool.or_eq_false_iff] at h
    unfold indexByte
    have hx : (x == c) = false := by
      rw [beq_eq_false_iff_ne]; intro e; subst e; simp at h
    simp [hx, indexByte_none_of_not_contains xs c h.2]

/-! ### `findNextCharsetPositionConstraint` as a fold -/

def qualifies (cs ce : Option Nat) (pos : Nat) : Bool :=
  (gtPos pos cs && gtPos pos ce) || (ltPos pos cs && ltPos pos ce)

def fccStep (idx : Nat → Option Nat) (Q : Nat → Bool) (next : Option Nat) (ch : Nat) : Option Nat :=
  match idx ch with
  | none => next
  | some pos =>
    if (match next with | none => true | some nx => pos < nx) then (if Q pos then some pos else next)
    else next

theorem findCharsetConstraint_eq (s : Bytes) (charset : List Nat) :
    findCharsetConstraint s charset =
      charset.foldl (fccStep (indexByte s) (qualifies (fnnecp s LT) (fnnecp s GT))) none := rfl

theorem fccStep_cases (idx : Nat → Option Nat) (Q : Nat → Bool) (o : Option Nat) (ch : Nat) :
    fccStep idx Q o ch = o ∨ ∃ pos, idx ch = some pos ∧ fccStep idx Q o ch = some pos := by
  unfold fccStep
  cases hi : idx ch with
  | none => left; rfl
  | some pos =>
    simp only
    by_cases h1 : (match o with | none => true | some nx => decide (pos < nx)) = true
    · rw [if_pos h1]
      cases hq : Q pos
      · left; simp
      · right; exact ⟨pos, rfl, by simp⟩
    · rw [if_neg h1]; left; rfl

/-- every state of the fold is a first-occurrence position -/
theorem fcc_bound {idx : Nat → Option Nat} {Q : Nat → Bool} {m : Nat}
    (h3 : ∀ ch pos, idx ch = some pos → pos < m) :
    (cs : List Nat) → (o : Option Nat) → (∀ x, o = some x → x < m) →
    ∀ x, cs.foldl (fccStep idx Q) o = some x → x < m
  | [], o, ho => by simpa using ho
  | ch :: rest, o, ho => by
    rw [List.foldl_cons]
    apply fcc_bound h3 rest
    intro x hx
    rcases fccStep_cases idx Q o ch with h | ⟨pos, hi, h⟩
    · rw [h] at hx; exact ho x hx
    · rw [h] at hx; cases hx; exact h3 ch _ hi

theorem findCharsetConstraint_lt {s : Bytes} {cs : List Nat} {e : Nat}
    (h : findCharsetConstraint s cs = some e) : e < s.length := by
  rw [findCharsetConstraint_eq] at h
  exact fcc_bound (fun ch pos hp => indexByte_le s ch pos hp) cs none (fun _ hx => by cases hx) e h

/-- relation between the fold on `s` (state `o`) and the fold on `s ++ slashes` (state `n`) when `s`
    has no slash of its own: equal, or the second one has picked the first appended slash. -/
def FccRel (m : Nat) (o n : Option Nat) : Prop :=
  (o = n ∧ ∀ x, n = some x → x < m) ∨ (o = none ∧ n = some m)

theorem fccStep_rel {idx idx' : Nat → Option Nat} {Q : Nat → Bool} {m : Nat}
    (h1 : ∀ ch, ch ≠ SLASH → idx' ch = idx ch) (h2 : idx SLASH = none) (h2' : idx' SLASH = some m)
    (h3 : ∀ ch pos, idx ch = some pos → pos < m) (h4 : Q m = true)
    (o n : Option Nat) (ch : Nat) (hr : FccRel m o n) :
    FccRel m (fccStep idx Q o ch) (fccStep idx' Q n ch) := by
  by_cases hch : ch = SLASH
  · subst hch
    unfold fccStep
    rw [h2, h2']
    simp only
    rcases hr with ⟨rfl, hb⟩ | ⟨rfl, rfl⟩
    · cases o with
      | none => simp only [if_true, h4]; right; exact ⟨rfl, rfl⟩
      | some x =>
        have := hb x rfl
        have hlt : ¬ m < x := by omega
        simp only [hlt, if_false]
        left; exact ⟨rfl, hb⟩
    · simp only [Nat.lt_irrefl, if_false]
      right; exact ⟨rfl, rfl⟩
  · unfold fccStep
    rw [h1 ch hch]
    cases hi : idx ch with
    | none => exact hr
    | some pos =>
      have hpos := h3 ch pos hi
      simp only
      rcases hr with ⟨rfl, hb⟩ | ⟨rfl, rfl⟩
      · left
        refine ⟨rfl, ?_⟩
        intro x hx
        have hc := fccStep_cases idx Q o ch
        unfold fccStep at hc
        rw [hi] at hc
        simp only at hc
        rcases hc with h | ⟨pos', hp', h⟩
        · rw [h] at hx; exact hb x hx
        · rw [h] at hx; cases hx; cases hp'; exact hpos
      · simp only [if_true, hpos, decide_true]
        cases hq : Q pos
        · right; exact ⟨by simp, by simp⟩
        · left; refine ⟨by simp, ?_⟩; intro x hx; simp at hx; omega

theorem fcc_rel {idx idx' : Nat → Option Nat} {Q : Nat → Bool} {m : Nat}
    (h1 : ∀ ch, ch ≠ SLASH → idx' ch = idx ch) (h2 : idx SLASH = none) (h2' : idx' SLASH = some m)
    (h3 : ∀ ch pos, idx ch = some pos → pos < m) (h4 : Q m = true) :
    (cs : List Nat) → (o n : Option Nat) → FccRel m o n →
    FccRel m (cs.foldl (fccStep idx Q) o) (cs.foldl (fccStep idx' Q) n)
  | [], _, _, hr => hr
  | ch :: rest, o, n, hr => by
    rw [List.foldl_cons, List.foldl_cons]
    exact fcc_rel h1 h2 h2' h3 h4 rest _ _ (fccStep_rel h1 h2 h2' h3 h4 o n ch hr)

theorem fccStep_ne_none {idx : Nat → Option Nat} {Q : Nat → Bool} {n : Option Nat} (ch : Nat)
    (hn : n ≠ none) : fccStep idx Q n ch ≠ none := by
  rcases fccStep_cases idx Q n ch with h | ⟨pos, _, h⟩
  · rw [h]; exact hn
  · rw [h]; simp

theorem fcc_ne_none {idx : Nat → Option Nat} {Q : Nat → Bool} : (cs : List Nat) → (n : Option Nat) →
    n ≠ none → cs.foldl (fccStep idx Q) n ≠ none
  | [], _, hn => hn
  | ch :: rest, n, hn => by
    rw [List.foldl_cons]
    exact fcc_ne_none rest _ (fccStep_ne_none ch hn)

theorem fcc_slash_ne_none {idx : Nat → Option Nat} {Q : Nat → Bool} {m : Nat}
    (h2' : idx SLASH = some m) (h4 : Q m = true) : (cs : List Nat) → (n : Option Nat) →
    SLASH ∈ cs → cs.foldl (fccStep idx Q) n ≠ none
  | [], _, h => by cases h
  | ch :: rest, n, h => by
    rw [List.foldl_cons]
    by_cases hch : ch = SLASH
    · subst hch
      apply fcc_ne_none
      cases n with
      | none =>
        unfold fccStep
        rw [h2']
        simp [h4]
      | some x => exact fccStep_ne_none SLASH (by simp)
    · have : SLASH ∈ rest := by
        rcases List.mem_cons.mp h with h | h
        · exact absurd h.symm hch
        · exact h
      exact fcc_slash_ne_none h2' h4 rest _ this

theorem qualifies_end {s : Bytes} : qualifies (fnnecp s LT) (fnnecp s GT) s.length = true := by
  unfold qualifies
  have h : ∀ ch, gtPos s.length (fnnecp s ch) = true := by
    intro ch
    unfold gtPos
    cases hh : fnnecp s ch with
    | none => rfl
    | some x => simpa using fnnecpGo_lt none s x hh
  simp [h]

theorem findCharsetConstraint_append {sl : Bytes} (hsl : Slashes sl) (hne : sl ≠ []) (s : Bytes) :
    findCharsetConstraint (s ++ sl) paramEndChars =
      if s.contains SLASH then findCharsetConstraint s paramEndChars
      else (match findCharsetConstraint s paramEndChars with | some e => some e | none => some s.length) := by
  have hq : qualifies (fnnecp (s ++ sl) LT) (fnnecp (s ++ sl) GT) = qualifies (fnnecp s LT) (fnnecp s GT) := by
    unfold fnnecp
    rw [fnnecpGo_append (by decide) hsl, fnnecpGo_append (by decide) hsl]
  rw [findCharsetConstraint_eq, findCharsetConstraint_eq, hq]
  cases hc : s.contains SLASH
  · simp only [Bool.false_eq_true, if_false]
    have hidx : indexByte s SLASH = none := indexByte_none_of_not_contains s SLASH hc
    have hidx' : indexByte (s ++ sl) SLASH = some s.length := by
      rw [indexByte_append_slash hsl hne, hidx]
    have hrel := fcc_rel (idx := indexByte s) (idx' := indexByte (s ++ sl))
      (Q := qualifies (fnnecp s LT) (fnnecp s GT)) (m := s.length)
      (fun ch hch => indexByte_append_ne hch hsl s) hidx hidx'
      (fun ch pos hp => indexByte_le s ch pos hp) qualifies_end paramEndChars none none
      (Or.inl ⟨rfl, fun _ hx => by cases hx⟩)
    have hnn := fcc_slash_ne_none (idx := indexByte (s ++ sl)) (Q := qualifies (fnnecp s LT) (fnnecp s GT))
      hidx' qualifies_end paramEndChars none (by decide)
    rcases hrel with ⟨h1, _⟩ | ⟨h1, h2⟩
    · rw [← h1] at hnn ⊢
      cases hh : List.foldl (fccStep (indexByte s) (qualifies (fnnecp s LT) (fnnecp s GT))) none paramEndChars with
      | none => exact absurd hh hnn
      | some e => rfl
    · rw [h1, h2]
  · simp only [if_true]
    have hfun : indexByte (s ++ sl) = indexByte s := by
      funext ch
      by_cases hch : ch = SLASH
      · subst hch
        rw [indexByte_append_slash hsl hne]
        cases hi : indexByte s SLASH with
        | some k => rfl
        | none => have := indexByte_none s SLASH hi; rw [hc] at this; cases this
      · exact indexByte_append_ne hch hsl s
    rw [hfun]

end C02
