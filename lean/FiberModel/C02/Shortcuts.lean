import FiberModel.C02.Observe
/-
C02 — the two shortcuts at the top of `Route.match` (router.go):
  * `r.root && detectionPath == "/"` returns true without writing a value — `root_no_params`: a root
    route declares no parameters, so the property is silent about it;
  * `r.star` (the routed pattern is exactly `/*`) writes `params[0] = path[1:]` — `star_parser`: its
    parser is the parse of `/*`, and `star_sound` proves the four clauses for that value.
-/
namespace C02
open B

/-! ### a pattern without parameter-start characters has no parameters -/

theorem fnneGo_none_of_disjoint {cs : List Nat} : (prev : Option Nat) → (s : Bytes) →
    (∀ c ∈ s, cs.contains c = false) → fnneGo cs prev s = none
  | _, [], _ => rfl
  | prev, c :: rest, h => by
    unfold fnneGo
    rw [h c (List.mem_cons_self ..)]
    simp [fnneGo_none_of_disjoint (some c) rest (fun x hx => h x (List.mem_cons_of_mem _ hx))]

theorem parseLoop_noStart {s : Bytes} (h : ∀ c ∈ s, paramStartChars.contains c = false) (fuel wc pc : Nat) :
    (parseLoop fuel s wc pc).map paramSegs = some [] := by
  cases fuel with
  | zero => rfl
  | succ fuel =>
    unfold parseLoop
    split
    · rfl
    · have : findNextParamPosition s = none := by
        unfold findNextParamPosition fnne
        rw [fnneGo_none_of_disjoint none s h]
      rw [this]
      simp only [analyseConstantPart, List.drop_length, parseLoop_nil]
      rfl

theorem parseRoute_noStart {s : Bytes} (h : ∀ c ∈ s, paramStartChars.contains c = false) {pp : Parser}
    (hp : parseRoute s = some pp) : pp.params = [] := by
  obtain ⟨raw, hr, hc⟩ := parseRoute_core hp
  have h0 := parseLoop_noStart h s.length 0 0
  rw [hr] at h0
  simp only [Option.map_some, Option.some.injEq] at h0
  have hv := hc.nviews
  rw [h0] at hv
  have hnil : paramSegs pp.segs = [] := by
    cases hh : paramSegs pp.segs with
    | nil => rfl
    | cons _ _ => rw [hh] at hv; cases hv
  rw [parseRoute_params hp]
  show (paramSegs pp.segs).map (·.paramName) = []
  rw [hnil]; rfl

/-- **A root route declares no parameters.** (`root` = the escape-free prettified pattern is "/".) -/
theorem root_no_params {cfg : Config} {use : Bool} {pattern : Bytes} {r : Route}
    (hr : register cfg use pattern = some r) (hroot : r.root = true) : r.params = [] := by
  obtain ⟨pr, hpr, hparams, _, _, _, _, _, hrt⟩ := register_parts hr
  rw [hparams]
  apply parseRoute_noStart _ hpr
  rw [hrt, beq_iff_eq, prettyPattern_eq] at hroot
  -- every byte of the written pattern is '\\' or '/'
  have hw : ∀ c ∈ writtenPattern cfg pattern, c = BSL ∨ c = SLASH := by
    intro c hc
    have hn := cfgFold_neutral cfg
    by_cases hb : cfgFold cfg c = BSL
    · left; exact (hn c BSL (by decide)).mp hb
    · right
      have hm : cfgFold cfg c ∈ removeEscapeChar ((writtenPattern cfg pattern).map (cfgFold cfg)) := by
        unfold removeEscapeChar
        rw [List.mem_filter]
        exact ⟨List.mem_map_of_mem hc, by simpa using hb⟩
      rw [hroot] at hm
      have : cfgFold cfg c = SLASH := by simpa using hm
      exact (hn c SLASH (by decide)).mp this
  obtain ⟨sl, hsl, hsplit⟩ := rawPattern_split cfg pattern
  intro c hc
  rw [hsplit, List.mem_append] at hc
  rcases hc with hc | hc
  · rcases hw c hc with rfl | rfl <;> decide
  · rw [hsl c hc]; decide

/-! ### the catch-all route -/

theorem map_eq_of_neutral {f : Nat → Nat} (hf : Neutral f) : (l t : Bytes) → (∀ c ∈ t, c ∈ specials) →
    l.map f = t → l = t
  | [], [], _, _ => rfl
  | [], _ :: _, _, h => by cases h
  | _ :: _, [], _, h => by cases h
  | x :: xs, y :: ys, hs, h => by
    simp only [List.map_cons, List.cons.injEq] at h
    have hx : x = y := (hf x y (hs y (List.mem_cons_self ..))).mp h.1
    rw [hx, map_eq_of_neutral hf xs ys (fun c hc => hs c (List.mem_cons_of_mem _ hc)) h.2]

/-- the parse of `/*` -/
def starSegs : List Seg :=
  [{ const := [SLASH], length := 1, hasOptionalSlash := true },
   { paramName := [STAR, 49], isParam := true, isGreedy := true, isOptional := true, isLast := true }]

theorem parseRoute_star : parseRoute [SLASH, STAR] = some { segs := starSegs, params := [[STAR, 49]] } := by
  decide

/-- **The parser of a catch-all route is the parse of `/*`.** -/
theorem star_parser {cfg : Config} {use : Bool} {pattern : Bytes} {r : Route}
    (hr : register cfg use pattern = some r) (hstar : r.star = true) :
    r.parser.segs = starSegs ∧ r.root = false := by
  obtain ⟨_, _, _, hpp, _, _, _, hst, hrt⟩ := register_parts hr
  rw [hst, beq_iff_eq] at hstar
  have hw : writtenPattern cfg pattern = [SLASH, STAR] := by
    rw [prettyPattern_eq] at hstar
    exact map_eq_of_neutral (cfgFold_neutral cfg) _ _ (by decide) hstar
  rw [← prettyPattern_eq, hstar, hw, parseRouteW_self, parseRoute_star] at hpp
  constructor
  · simp only [Option.some.injEq] at hpp
    rw [← hpp]
  · rw [hrt, hstar]; rfl

theorem toLower_drop_one (p : Bytes) : toLower (p.drop 1) = (toLower p).drop 1 := by
  unfold toLower; rw [List.map_drop]

/-- **The catch-all value meets the property**: for a path starting with '/', the value
    `path[1:]` substituted into `/*` gives back the path (modulo the configured normalisation), it
    has no constraint to meet, `*` is optional and greedy. -/
theorem star_sound {chk : Constraint → Bytes → Bool} (cfg : Config) (use : Bool) (path : Bytes)
    (hp : path.head? = some SLASH) :
    substitutionOK cfg use starSegs [path.drop 1] path = true ∧
    constraintViolation chk (paramSegs starSegs) [path.drop 1] = none ∧
    requiredNonEmpty (paramSegs starSegs) [path.drop 1] = true ∧
    namedNoSlash (paramSegs starSegs) [path.drop 1] = true := by
  obtain ⟨rest, rfl⟩ : ∃ rest, path = SLASH :: rest := by
    cases path with
    | nil => cases hp
    | cons c rest => simp at hp; exact ⟨rest, by rw [hp]⟩
  refine ⟨?_, by simp [paramSegs, starSegs, constraintViolation], by simp [paramSegs, starSegs, requiredNonEmpty],
    by simp [paramSegs, starSegs, namedNoSlash]⟩
  unfold substitutionOK
  simp only [Bool.or_eq_true]
  right
  have hplain : ∀ v : Bytes, plainRender starSegs [v] = SLASH :: v := by
    intro v; simp [plainRender, starSegs]
  have hnorm : normPath cfg (plainRender starSegs (if cfg.caseSensitive then [List.drop 1 (SLASH :: rest)]
      else List.map toLower [List.drop 1 (SLASH :: rest)])) = normPath cfg (SLASH :: rest) := by
    cases hcs : cfg.caseSensitive
    · simp only [Bool.false_eq_true, if_false, List.map_cons, List.map_nil, hplain, List.drop_succ_cons,
        List.drop_zero]
      unfold normPath configDependentPaths
      simp only [hcs, Bool.false_eq_true, if_false, Bool.not_false, if_true]
      have : toLower (SLASH :: toLower rest) = toLower (SLASH :: rest) := by
        have h1 : SLASH :: toLower rest = toLower (SLASH :: rest) := by
          have : lowerByte SLASH = SLASH := by decide
          simp [toLower, this]
        rw [h1, toLower_idem]
      rw [this]
    · simp only [if_true, hplain, List.drop_succ_cons, List.drop_zero]
  rw [hnorm]
  cases use
  · simp
  · simp only [if_true]
    rw [List.isPrefixOf_iff_prefix]
    exact List.prefix_refl _

end C02
