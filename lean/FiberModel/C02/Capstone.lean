import FiberModel.C02.Shortcuts
/-
C02 — lemmas for `model_meets_spec` (Props.lean): the model's `Params` lookup is the documented
lookup of the specification (`specLookup`).
-/
namespace C02
open B

/-- the spec's name comparison -/
def sameName (cfg : Config) (a c : Bytes) : Bool :=
  if cfg.caseSensitive then a == c else toLower a == toLower c

theorem keyMatch_eq_sameName (cfg : Config) (n key : Bytes) : keyMatch cfg n key = sameName cfg n key := by
  unfold keyMatch sameName equalFold
  cases hcs : cfg.caseSensitive
  · simp only [Bool.not_false, Bool.true_and, Bool.false_eq_true, if_false]
    by_cases hf : toLower n = toLower key
    · have hl : n.length = key.length := by
        have := congrArg List.length hf
        simpa [toLower_length] using this
      have e1 : (toLower n == toLower key) = true := beq_iff_eq.mpr hf
      have e3 : (n.length == key.length) = true := beq_iff_eq.mpr hl
      rw [e1, e3]; simp
    · have hne : n ≠ key := fun h => hf (by rw [h])
      have e1 : (toLower n == toLower key) = false := beq_eq_false_iff_ne.mpr hf
      have e2 : (n == key) = false := beq_eq_false_iff_ne.mpr hne
      rw [e1, e2]; simp
  · simp only [Bool.not_true, Bool.false_and, Bool.or_false, if_true]
    by_cases h : n = key
    · subst h; simp
    · simp [h]

theorem specKey_eq (key : Bytes) :
    (if key == [STAR] then [STAR, 49] else if key == [PLUS] then [PLUS, 49] else key) = paramsKey key := by
  unfold paramsKey
  by_cases h1 : key = [STAR]
  · subst h1; decide
  · by_cases h2 : key = [PLUS]
    · subst h2; decide
    · simp [h1, h2]

/-- a `find?` over the indices is the recursion over the names -/
theorem range_find (cfg : Config) (key : Bytes) : (names vals : List Bytes) →
    (match (List.range names.length).find? (fun i => sameName cfg (names.getD i []) key) with
      | some i => vals.getD i []
      | none => []) = lookupRec cfg names vals key
  | [], _ => rfl
  | n :: ns, vals => by
    have ih := range_find cfg key ns vals.tail
    rw [List.length_cons, List.range_succ_eq_map, List.find?_cons]
    unfold lookupRec
    rw [keyMatch_eq_sameName]
    have h0 : (n :: ns).getD 0 [] = n := rfl
    rw [h0]
    cases hm : sameName cfg n key
    · simp only [Bool.false_eq_true, if_false]
      rw [List.find?_map]
      have hf : ((fun i => sameName cfg ((n :: ns).getD i []) key) ∘ Nat.succ) =
          (fun i => sameName cfg (ns.getD i []) key) := by
        funext i; simp [Function.comp]
      rw [hf, ← ih]
      cases (List.range ns.length).find? (fun i => sameName cfg (ns.getD i []) key) with
      | none => rfl
      | some i => cases vals <;> simp
    · simp only [if_true]
      cases vals <;> rfl

/-- **The model's `Params(key)` is the documented lookup.** -/
theorem paramsGet_eq_specLookup (cfg : Config) (names vals : List Bytes) (key : Bytes) :
    paramsGet cfg names vals key = specLookup cfg names vals key := by
  unfold paramsGet specLookup
  rw [paramsLookup_eq, specKey_eq]
  exact (range_find cfg (paramsKey key) names vals).symm

end C02
