import FiberModel.C02.Written
/-
C02 — the parameter parser factored into (1) the *shape* of a parameter (offsets and flags, all
decided by comparing bytes with the parser's special characters) and (2) the texts cut at those
offsets. Used by Declared.lean to show that neither ASCII case folding of the pattern nor trailing
slashes change the constraints a route enforces.
-/
namespace C02
open B

/-! ### bytes the parser gives a meaning to, and byte maps that respect them -/

def specials : List Nat :=
  [STAR, PLUS, COLON, QMARK, BSL, SLASH, DASH, DOT, LT, GT, SEMI, LPAR, RPAR, COMMA]

/-- `f` neither creates nor destroys a special byte (true for ASCII lower-casing). -/
def Neutral (f : Nat → Nat) : Prop := ∀ c s, s ∈ specials → (f c = s ↔ c = s)

theorem neutral_id : Neutral id := fun _ _ _ => Iff.rfl

theorem lowerByte_neutral : Neutral lowerByte := by
  intro c s hs
  simp only [specials, List.mem_cons, List.not_mem_nil, or_false] at hs
  unfold lowerByte isUpper
  split
  · rename_i h
    simp only [Bool.and_eq_true, decide_eq_true_eq] at h
    rcases hs with h' | h' | h' | h' | h' | h' | h' | h' | h' | h' | h' | h' | h' | h' <;>
      subst h' <;> constructor <;> intro hh <;>
      simp only [STAR, PLUS, COLON, QMARK, BSL, SLASH, DASH, DOT, LT, GT, SEMI, LPAR, RPAR, COMMA] at * <;> omega
  · exact Iff.rfl

section neutral
variable {f : Nat → Nat} (hf : Neutral f)
include hf

theorem Neutral.beq {s : Nat} (hs : s ∈ specials) (c : Nat) : (f c == s) = (c == s) := by
  by_cases h : c = s
  · have h2 : f c = s := (hf c s hs).mpr h
    rw [beq_iff_eq.mpr h, beq_iff_eq.mpr h2]
  · have h2 : f c ≠ s := fun hh => h ((hf c s hs).mp hh)
    rw [beq_eq_false_iff_ne.mpr h, beq_eq_false_iff_ne.mpr h2]

theorem Neutral.contains {cs : List Nat} (hcs : ∀ s ∈ cs, s ∈ specials) (c : Nat) :
    cs.contains (f c) = cs.contains c := by
  induction cs with
  | nil => rfl
  | cons s rest ih =>
    have h1 := hf.beq (hcs s (List.mem_cons_self ..)) c
    have ih := ih (fun s hs => hcs s (List.mem_cons_of_mem _ hs))
    simp only [List.contains_cons] at ih ⊢
    rw [h1, ih]

theorem Neutral.mapContains {s : Nat} (hs : s ∈ specials) (l : Bytes) :
    (l.map f).contains s = l.contains s := by
  induction l with
  | nil => rfl
  | cons x xs ih =>
    simp only [List.map_cons, List.contains_cons, ih]
    congr 1
    have := hf.beq hs x
    rw [Bool.beq_comm (a := s), Bool.beq_comm (a := s)]
    exact this

theorem Neutral.indexByte {s : Nat} (hs : s ∈ specials) (l : Bytes) :
    indexByte (l.map f) s = indexByte l s := by
  induction l with
  | nil => rfl
  | cons x xs ih =>
    simp only [List.map_cons, B.indexByte, hf.beq hs x, ih]

theorem Neutral.lastIndexByte {s : Nat} (hs : s ∈ specials) (l : Bytes) :
    lastIndexByte (l.map f) s = lastIndexByte l s := by
  induction l with
  | nil => rfl
  | cons x xs ih =>
    simp only [List.map_cons, C02.lastIndexByte, hf.beq hs x, ih]

theorem Neutral.prevBSL (prev : Option Nat) : ((prev.map f) == some BSL) = (prev == some BSL) := by
  cases prev with
  | none => rfl
  | some c =>
    have := hf.beq (s := BSL) (by simp [specials]) c
    simpa using this

theorem Neutral.fnnecpGo {ch : Nat} (hs : ch ∈ specials) : (prev : Option Nat) → (l : Bytes) →
    fnnecpGo ch (prev.map f) (l.map f) = fnnecpGo ch prev l
  | _, [] => rfl
  | prev, c :: rest => by
    have ih := Neutral.fnnecpGo hs (some c) rest
    simp only [Option.map_some] at ih
    simp only [List.map_cons, C02.fnnecpGo, hf.beq hs c, bne, hf.prevBSL prev, ih]

theorem Neutral.fnnecp {ch : Nat} (hs : ch ∈ specials) (l : Bytes) :
    fnnecp (l.map f) ch = fnnecp l ch := by
  unfold C02.fnnecp
  exact hf.fnnecpGo hs none l

theorem Neutral.fnneGo {cs : List Nat} (hcs : ∀ s ∈ cs, s ∈ specials) : (prev : Option Nat) → (l : Bytes) →
    fnneGo cs (prev.map f) (l.map f) = fnneGo cs prev l
  | _, [] => rfl
  | prev, c :: rest => by
    have ih := Neutral.fnneGo hcs (some c) rest
    simp only [Option.map_some] at ih
    simp only [List.map_cons, C02.fnneGo, hf.contains hcs c, hf.prevBSL prev, ih, List.isEmpty_map]

theorem Neutral.fnne {cs : List Nat} (hcs : ∀ s ∈ cs, s ∈ specials) (l : Bytes) :
    fnne (l.map f) cs = fnne l cs := by
  unfold C02.fnne
  exact hf.fnneGo hcs none l

theorem Neutral.getD_beq {s : Nat} (hs : s ∈ specials) (l : Bytes) (k : Nat) :
    ((l.map f).getD k 0 == s) = (l.getD k 0 == s) := by
  by_cases hk : k < l.length
  · simp only [List.getD_eq_getElem?_getD, List.getElem?_map, List.getElem?_eq_getElem hk, Option.map_some,
      Option.getD_some]
    exact hf.beq hs _
  · simp only [List.getD_eq_getElem?_getD, List.getElem?_map,
      List.getElem?_eq_none (Nat.le_of_not_lt hk), Option.map_none]

theorem Neutral.getD_contains {cs : List Nat} (hcs : ∀ s ∈ cs, s ∈ specials) (l : Bytes) (k : Nat) :
    cs.contains ((l.map f).getD k 0) = cs.contains (l.getD k 0) := by
  by_cases hk : k < l.length
  · simp only [List.getD_eq_getElem?_getD, List.getElem?_map, List.getElem?_eq_getElem hk, Option.map_some,
      Option.getD_some]
    exact hf.contains hcs _
  · simp only [List.getD_eq_getElem?_getD, List.getElem?_map,
      List.getElem?_eq_none (Nat.le_of_not_lt hk), Option.map_none]

theorem Neutral.headD_beq {s : Nat} (hs : s ∈ specials) (l : Bytes) :
    ((l.map f).headD 0 == s) = (l.headD 0 == s) := by
  cases l with
  | nil => rfl
  | cons x xs => exact hf.beq hs x

end neutral

theorem startChars_special : ∀ s ∈ paramStartChars, s ∈ specials := by decide
theorem endChars_special : ∀ s ∈ paramEndChars, s ∈ specials := by decide
theorem delimChars_special : ∀ s ∈ paramDelimChars, s ∈ specials := by decide

theorem Neutral.findCharsetConstraint {f : Nat → Nat} (hf : Neutral f) (l : Bytes) :
    findCharsetConstraint (l.map f) paramEndChars = findCharsetConstraint l paramEndChars := by
  unfold C02.findCharsetConstraint
  simp only [hf.fnnecp (ch := LT) (by decide), hf.fnnecp (ch := GT) (by decide), paramEndChars, List.foldl,
    hf.indexByte (s := QMARK) (by decide), hf.indexByte (s := COLON) (by decide),
    hf.indexByte (s := BSL) (by decide), hf.indexByte (s := SLASH) (by decide),
    hf.indexByte (s := DASH) (by decide), hf.indexByte (s := DOT) (by decide)]

theorem Neutral.findNextParamPosition {f : Nat → Nat} (hf : Neutral f) (p : Bytes) :
    findNextParamPosition (p.map f) = findNextParamPosition p := by
  unfold C02.findNextParamPosition
  rw [hf.fnne startChars_special]
  cases C02.fnne p paramStartChars with
  | none => rfl
  | some n =>
    simp only [bne, hf.getD_beq (s := STAR) (by decide), ← List.map_drop, hf.fnne startChars_special]

/-! ### shape of a parameter -/

/-- Offsets and flags `analyseParameterPart` computes from the pattern bytes. -/
structure Shape where
  pe : Nat
  cS : Option Nat
  cE : Option Nat
  isWild : Bool
  isPlus : Bool
  isOpt : Bool
  deriving DecidableEq, Repr

def paramShape (p : Bytes) : Shape :=
  let c0 := p.headD 0
  let isWild := c0 == STAR
  let isPlus := c0 == PLUS
  let pe0 : Option Nat :=
    if p.contains LT && p.contains GT then findCharsetConstraint (p.drop 1) paramEndChars
    else fnne (p.drop 1) paramEndChars
  let pe : Nat :=
    if isWild || isPlus then 0
    else match pe0 with
      | none => p.length - 1
      | some e => if paramDelimChars.contains (p.getD (e + 1) 0) then e else e + 1
  { pe := pe,
    cS := if pe > 0 then fnnecp (p.take pe) LT else none,
    cE := if pe > 0 then lastIndexByte (p.take (pe + 1)) GT else none,
    isWild := isWild, isPlus := isPlus, isOpt := isWild || p.getD pe 0 == QMARK }

/-- the constraints of a parameter: the text between the brackets of `sh`, cut from `w` -/
def consOf (sh : Shape) (w : Bytes) : Option (List Constraint) :=
  match sh.cS, sh.cE with
  | some s, some e =>
    if e < s + 1 then none
    else (splitNonEscaped ((w.take e).drop (s + 1)) SEMI).mapM parseConstraint
  | _, _ => some []

/-- the name of a parameter, cut from `p` -/
def nameOf (sh : Shape) (p : Bytes) : Bytes :=
  match sh.cS, sh.cE with
  | some s, some _ => removeEscapeChar (getTrimmedParam (p.take s))
  | _, _ => removeEscapeChar (getTrimmedParam (p.take (sh.pe + 1)))

def mkParam (sh : Shape) (p w : Bytes) (wc pc : Nat) : Option (Nat × Seg × Nat × Nat) :=
  match consOf sh w with
  | none => none
  | some cs =>
    let wc' := if sh.isWild then wc + 1 else wc
    let pc' := if !sh.isWild && sh.isPlus then pc + 1 else pc
    let name := nameOf sh p
    let name := if sh.isWild then name ++ natToDec wc' else if sh.isPlus then name ++ natToDec pc' else name
    some (sh.pe + 1, { paramName := name, isParam := true, isOptional := sh.isOpt,
                       isGreedy := sh.isWild || sh.isPlus, constraints := cs }, wc', pc')

/-- `analyseParameterPart` behind the offsets: cutting the texts -/
def apCore (pe : Nat) (cS cE : Option Nat) (isWild isPlus : Bool) (p w : Bytes) (wc pc : Nat) :
    Option (Nat × Seg × Nat × Nat) :=
  let processed := p.take (pe + 1)
  let n := pe + 1
  let name0 := removeEscapeChar (getTrimmedParam processed)
  let parsed : Option (Bytes × List Constraint) :=
    match cS, cE with
    | some s, some e =>
      if e < s + 1 then none
      else
        let cstr := (w.take e).drop (s + 1)
        match (splitNonEscaped cstr SEMI).mapM parseConstraint with
        | none => none
        | some cs => some (removeEscapeChar (getTrimmedParam (p.take s)), cs)
    | _, _ => some (name0, [])
  match parsed with
  | none => none
  | some (name, cs) =>
    let wc' := if isWild then wc + 1 else wc
    let pc' := if !isWild && isPlus then pc + 1 else pc
    let name := if isWild then name ++ natToDec wc' else if isPlus then name ++ natToDec pc' else name
    some (n, { paramName := name, isParam := true,
               isOptional := isWild || p.getD pe 0 == QMARK,
               isGreedy := isWild || isPlus, constraints := cs }, wc', pc')

theorem analyseParameterPartW_core (p w : Bytes) (wc pc : Nat) :
    analyseParameterPartW p w wc pc =
      apCore (paramShape p).pe (paramShape p).cS (paramShape p).cE (paramShape p).isWild (paramShape p).isPlus
        p w wc pc := rfl

theorem apCore_eq (sh : Shape) (p w : Bytes) (wc pc : Nat)
    (hopt : sh.isOpt = (sh.isWild || p.getD sh.pe 0 == QMARK)) :
    apCore sh.pe sh.cS sh.cE sh.isWild sh.isPlus p w wc pc = mkParam sh p w wc pc := by
  unfold apCore mkParam consOf nameOf
  rw [hopt]
  cases sh.cS with
  | none => rfl
  | some s =>
    cases sh.cE with
    | none => rfl
    | some e =>
      simp only
      by_cases hlt : e < s + 1
      · simp only [hlt, if_true]
      · simp only [hlt, if_false]
        cases (splitNonEscaped (List.drop (s + 1) (List.take e w)) SEMI).mapM parseConstraint <;> rfl

theorem analyseParameterPartW_eq (p w : Bytes) (wc pc : Nat) :
    analyseParameterPartW p w wc pc = mkParam (paramShape p) p w wc pc := by
  rw [analyseParameterPartW_core]
  exact apCore_eq (paramShape p) p w wc pc rfl

theorem analyseParameterPart_eq (p : Bytes) (wc pc : Nat) :
    analyseParameterPart p wc pc = mkParam (paramShape p) p p wc pc := by
  rw [← analyseParameterPartW_self, analyseParameterPartW_eq]

/-- the shape only looks at special bytes -/
theorem Neutral.paramShape {f : Nat → Nat} (hf : Neutral f) (p : Bytes) :
    paramShape (p.map f) = paramShape p := by
  unfold C02.paramShape
  simp only [hf.headD_beq (s := STAR) (by decide), hf.headD_beq (s := PLUS) (by decide),
    hf.mapContains (s := LT) (by decide), hf.mapContains (s := GT) (by decide),
    ← List.map_drop, ← List.map_take, hf.findCharsetConstraint, hf.fnne endChars_special,
    List.length_map, hf.getD_contains delimChars_special, hf.fnnecp (ch := LT) (by decide),
    hf.lastIndexByte (s := GT) (by decide), hf.getD_beq (s := QMARK) (by decide)]

end C02
