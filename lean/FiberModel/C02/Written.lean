import FiberModel.C02.Meta
/-
C02 — `parseRouteW` (path.go `parseRouteWritten`): the parse of a case-folded pattern whose
constraint text is read from the pattern as written. This file carries the parser lemmas of
Lemmas.lean / Meta.lean over to `parseRouteW`, and the bridges back to `parseRoute`:
  * `parseRouteW_self`  – written = pattern: the plain parser;
  * `parseRouteW_noLT`  – a pattern without `<` has no constraint text to read: the plain parser,
                          whatever `written` is.
-/
namespace C02
open B

/-! ### bridges to `parseRoute` -/

theorem analyseParameterPartW_self (p : Bytes) (wc pc : Nat) :
    analyseParameterPartW p p wc pc = analyseParameterPart p wc pc := rfl

theorem parseLoopW_self : (fuel : Nat) → (p : Bytes) → (wc pc : Nat) →
    parseLoopW fuel p p wc pc = parseLoop fuel p wc pc
  | 0, _, _, _ => rfl
  | fuel + 1, p, wc, pc => by
    unfold parseLoopW parseLoop
    split
    · rfl
    · split
      · rw [analyseParameterPartW_self]
        split
        · rfl
        · simp only [parseLoopW_self fuel]
      · simp only [parseLoopW_self fuel]

theorem parseRouteW_self (p : Bytes) : parseRouteW p p = parseRoute p := by
  unfold parseRouteW parseRoute
  simp [parseLoopW_self]

theorem fnnecpGo_none_of_not_mem (ch : Nat) : (prev : Option Nat) → (s : Bytes) →
    s.contains ch = false → fnnecpGo ch prev s = none
  | _, [], _ => rfl
  | prev, c :: rest, h => by
    simp only [List.contains_cons, Bool.or_eq_false_iff] at h
    unfold fnnecpGo
    have hc : (c == ch) = false := by
      rw [beq_eq_false_iff_ne]; intro e; subst e; simp at h
    simp [hc, fnnecpGo_none_of_not_mem ch (some c) rest h.2]

theorem contains_take_false {s : Bytes} {c : Nat} (h : s.contains c = false) (k : Nat) :
    (s.take k).contains c = false := by
  cases hh : (s.take k).contains c
  · rfl
  · have hm := List.mem_of_mem_take (List.contains_iff_mem.mp hh)
    have := List.contains_iff_mem.mpr hm
    rw [h] at this; cases this

theorem contains_drop_false {s : Bytes} {c : Nat} (h : s.contains c = false) (k : Nat) :
    (s.drop k).contains c = false := by
  cases hh : (s.drop k).contains c
  · rfl
  · have hm := List.mem_of_mem_drop (List.contains_iff_mem.mp hh)
    have := List.contains_iff_mem.mpr hm
    rw [h] at this; cases this

/-- Without a `<` in the pattern there is no constraint section: nothing is read from `w`. -/
theorem analyseParameterPartW_noLT {p : Bytes} (w : Bytes) (wc pc : Nat) (h : p.contains LT = false) :
    analyseParameterPartW p w wc pc = analyseParameterPart p wc pc := by
  unfold analyseParameterPartW analyseParameterPart
  have hcs : ∀ k, fnnecp (p.take k) LT = none := fun k =>
    fnnecpGo_none_of_not_mem LT none _ (contains_take_false h k)
  simp only [hcs, h, Bool.false_and, Bool.false_eq_true, if_false, ite_self]

theorem parseLoopW_noLT : (fuel : Nat) → (p w : Bytes) → (wc pc : Nat) → p.contains LT = false →
    parseLoopW fuel p w wc pc = parseLoop fuel p wc pc
  | 0, _, _, _, _, _ => rfl
  | fuel + 1, p, w, wc, pc, h => by
    unfold parseLoopW parseLoop
    split
    · rfl
    · split
      · rw [analyseParameterPartW_noLT w wc pc h]
        split
        · rfl
        · simp only [parseLoopW_noLT fuel _ _ _ _ (contains_drop_false h _)]
      · simp only [parseLoopW_noLT fuel _ _ _ _ (contains_drop_false h _)]

/-- **Bridge for constraint-free patterns** (any `written` text). -/
theorem parseRouteW_noLT {p : Bytes} (w : Bytes) (h : p.contains LT = false) :
    parseRouteW p w = parseRoute p := by
  unfold parseRouteW parseRoute
  simp only [parseLoopW_noLT _ _ _ _ _ h]

/-! ### the parser lemmas for `parseRouteW` -/

theorem analyseParameterPartW_isParam {p w : Bytes} {wc pc n : Nat} {seg : Seg} {wc' pc' : Nat}
    (h : analyseParameterPartW p w wc pc = some (n, seg, wc', pc')) :
    seg.isParam = true ∧ seg.hasOptionalSlash = false ∧ seg.isLast = false ∧ seg.const = [] := by
  unfold analyseParameterPartW at h
  simp only at h
  split at h
  · cases h
  · simp only [Option.some.injEq, Prod.mk.injEq] at h
    obtain ⟨_, h, _, _⟩ := h
    subst h
    simp

theorem parseLoopW_raw : (fuel : Nat) → (p w : Bytes) → (wc pc : Nat) → (raw : List Seg) →
    parseLoopW fuel p w wc pc = some raw → ∀ s ∈ raw, RawOK s
  | 0, _, _, _, _, raw, h => by
    unfold parseLoopW at h; cases h; intro s hs; cases hs
  | fuel + 1, p, w, wc, pc, raw, h => by
    unfold parseLoopW at h
    split at h
    · cases h; intro s hs; cases hs
    · split at h
      · split at h
        · cases h
        · rename_i n seg wc' pc' ha
          cases hr : parseLoopW fuel (p.drop n) (w.drop n) wc' pc' with
          | none => simp [hr] at h
          | some rest =>
            simp only [hr, Option.map_some, Option.some.injEq] at h
            subst h
            intro s hs
            rcases List.mem_cons.mp hs with rfl | hs
            · have := analyseParameterPartW_isParam ha
              unfold RawOK
              exact ⟨this.2.1, this.2.2.1, (by intro hh; rw [this.1] at hh; cases hh), fun _ => this.2.2.2⟩
            · exact parseLoopW_raw fuel _ _ _ _ rest hr s hs
      · simp only at h
        cases hr : parseLoopW fuel (p.drop (analyseConstantPart p (findNextParamPosition p)).1)
            (w.drop (analyseConstantPart p (findNextParamPosition p)).1) wc pc with
        | none => simp [hr] at h
        | some rest =>
          simp only [hr, Option.map_some, Option.some.injEq] at h
          subst h
          intro s hs
          rcases List.mem_cons.mp hs with rfl | hs
          · exact analyseConstantPart_raw _ _
          · exact parseLoopW_raw fuel _ _ _ _ rest hr s hs

/-- what `parseRouteW` is made of: the loop on (pattern, effective written text), then the meta pass -/
theorem parseRouteW_unfold {p w : Bytes} {pp : Parser} (h : parseRouteW p w = some pp) :
    ∃ w' raw, w'.length = p.length ∧ (w.length = p.length → w' = w) ∧
      parseLoopW p.length p w' 0 0 = some raw ∧
      addParameterMetaInfo (markLast raw) = some pp.segs ∧ pp.params = paramNames pp.segs := by
  change (match parseLoopW p.length p (if w.length != p.length then p else w) 0 0 with
    | none => none
    | some raw =>
      match addParameterMetaInfo (markLast raw) with
      | none => none
      | some segs => some { segs := segs, params := paramNames segs }) = some pp at h
  have hl : (if w.length != p.length then p else w).length = p.length := by
    split
    · rfl
    · rename_i hne; simpa using hne
  have hw : w.length = p.length → (if w.length != p.length then p else w) = w := by
    intro e; simp [e]
  generalize (if w.length != p.length then p else w) = w' at h hl hw
  refine ⟨w', ?_⟩
  cases hr : parseLoopW p.length p w' 0 0 with
  | none => rw [hr] at h; cases h
  | some raw =>
    rw [hr] at h
    simp only at h
    cases hm : addParameterMetaInfo (markLast raw) with
    | none => rw [hm] at h; cases h
    | some segs =>
      rw [hm] at h
      simp only [Option.some.injEq] at h
      subst h
      exact ⟨raw, hl, hw, rfl, hm, rfl⟩

theorem finish_core {raw segs : List Seg} (h : addParameterMetaInfo (markLast raw) = some segs) :
    CoreL raw segs := by
  unfold addParameterMetaInfo at h
  exact (markLast_core raw).trans ((setCompareParts_core _).trans (metaForward_core _ _ h))

theorem finish_metaOK {raw segs : List Seg} (h : addParameterMetaInfo (markLast raw) = some segs)
    (hraw : ∀ s ∈ raw, RawOK s) : MetaOK segs := by
  unfold addParameterMetaInfo at h
  exact metaForward_metaOK _ _ (setCompareParts_pre _ (markLast_pre0 raw hraw)) h

theorem parseRouteW_core {p w : Bytes} {pp : Parser} (h : parseRouteW p w = some pp) :
    ∃ w' raw, parseLoopW p.length p w' 0 0 = some raw ∧ CoreL raw pp.segs := by
  obtain ⟨w', raw, _, _, hr, hm, _⟩ := parseRouteW_unfold h
  exact ⟨w', raw, hr, finish_core hm⟩

theorem parseRouteW_metaOK {p w : Bytes} {pp : Parser} (h : parseRouteW p w = some pp) : MetaOK pp.segs := by
  obtain ⟨w', raw, _, _, hr, hm, _⟩ := parseRouteW_unfold h
  exact finish_metaOK hm (parseLoopW_raw _ _ _ _ _ raw hr)

theorem parseRouteW_segsOK {p w : Bytes} {pp : Parser} (h : parseRouteW p w = some pp) : SegsOK pp.segs := by
  obtain ⟨w', raw, hr, hc⟩ := parseRouteW_core h
  exact hc.segsOK (parseLoopW_raw _ _ _ _ _ raw hr)

/-- a parameter segment of a parsed pattern has an empty `Const` -/
theorem parseRouteW_param_const {p w : Bytes} {pp : Parser} (h : parseRouteW p w = some pp) :
    ∀ s ∈ pp.segs, s.isParam = true → s.const = [] := by
  obtain ⟨w', raw, hr, hc⟩ := parseRouteW_core h
  exact hc.param_const (parseLoopW_raw _ _ _ _ _ raw hr)

theorem parseRouteW_params {p w : Bytes} {pp : Parser} (h : parseRouteW p w = some pp) :
    pp.params = paramNames pp.segs := by
  obtain ⟨_, _, _, _, _, _, hp⟩ := parseRouteW_unfold h
  exact hp

theorem parseLoopW_head_const {fuel : Nat} {p w : Bytes} {wc pc : Nat} {s0 : Seg} {rest : List Seg}
    (h : parseLoopW fuel p w wc pc = some (s0 :: rest)) (hc : s0.isParam = false) :
    s0.const <+: removeEscapeChar p := by
  cases fuel with
  | zero => unfold parseLoopW at h; cases h
  | succ fuel =>
    unfold parseLoopW at h
    split at h
    · cases h
    · split at h
      · split at h
        · cases h
        · rename_i n seg wc' pc' ha
          cases hr : parseLoopW fuel (p.drop n) (w.drop n) wc' pc' with
          | none => simp [hr] at h
          | some r =>
            simp only [hr, Option.map_some, Option.some.injEq, List.cons.injEq] at h
            have := (analyseParameterPartW_isParam ha).1
            rw [h.1, hc] at this; cases this
      · simp only at h
        cases hr : parseLoopW fuel (p.drop (analyseConstantPart p (findNextParamPosition p)).1)
            (w.drop (analyseConstantPart p (findNextParamPosition p)).1) wc pc with
        | none => simp [hr] at h
        | some r =>
          simp only [hr, Option.map_some, Option.some.injEq, List.cons.injEq] at h
          rw [← h.1]
          unfold analyseConstantPart
          cases findNextParamPosition p with
          | none => simp
          | some k => simpa using removeEscapeChar_take_prefix p k

theorem parseRouteW_head_const {p w : Bytes} {pp : Parser} {s0 : Seg} {rest : List Seg}
    (h : parseRouteW p w = some pp) (hs : pp.segs = s0 :: rest) (hc : s0.isParam = false) :
    s0.const <+: removeEscapeChar p := by
  obtain ⟨w', raw, hr, hcore⟩ := parseRouteW_core h
  rw [hs] at hcore
  cases hcore with
  | cons hab _ =>
    rename_i a as
    unfold Seg.Core at hab
    rw [hab.1]
    exact parseLoopW_head_const hr (by rw [← hab.2.1]; exact hc)

end C02
