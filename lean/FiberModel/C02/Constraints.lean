import FiberModel.C02.Observe
/-
C02 — the built-in constraints, concretely.

`checkConstraint custom abs` consults the abstract verdict `abs` only for custom constraints, regex,
datetime, and alpha on a value with a non-ASCII byte. For every other built-in constraint the verdict
is the transcribed decision procedure `checkExact` (`checkConstraint_builtin`), whose meaning per
kind is spelled out below: int / min / max / range through `strconv.Atoi` (`atoi_ok`), bool through
the twelve literals of `strconv.ParseBool`, the length constraints through `len(param)`, float
through `parseFloat32OK` (syntax of `strconv.ParseFloat` transcribed; range error = the correctly
rounded result overflows float32), guid through `uuidParseOK` (google/uuid `Parse`).
-/
namespace C02
open B

/-- the constraint kinds whose verdict never involves the abstract predicate -/
def CType.exact : CType → Bool
  | .regex | .datetime | .alpha => false
  | _ => true

/-- **Every built-in constraint other than regex / datetime (and alpha on non-ASCII input) is decided
    by the transcribed procedure**, whatever the abstract verdict function is — provided no custom
    constraint of that name is registered (custom constraints override built-ins). -/
theorem checkConstraint_builtin (custom : List Bytes) (abs : Constraint → Bytes → Bool) (c : Constraint)
    (v : Bytes) (hc : custom.contains c.name = false)
    (hk : c.id.exact = true ∨ (c.id = .alpha ∧ v.any (· ≥ 128) = false)) :
    checkConstraint custom abs c v = checkExact c v := by
  unfold checkConstraint
  simp only [hc, Bool.false_eq_true, if_false]
  rcases hk with hk | ⟨hk, hv⟩
  · cases hid : c.id <;> rw [hid] at hk <;> simp_all [CType.exact]
  · simp [hk, hv]

/-- decimal value of a digit string -/
def decVal (ds : Bytes) : Nat := ds.foldl (fun a c => a * 10 + (c - 48)) 0

/-- the sign split of `strconv.Atoi` -/
def atoiSplit (s : Bytes) : Bool × Bytes :=
  match s with
  | 43 :: r => (false, r)
  | 45 :: r => (true, r)
  | _ => (false, s)

/-- `strconv.Atoi` behind the sign -/
def atoiCore (neg : Bool) (ds : Bytes) : Int × Bool :=
  if ds.isEmpty || !ds.all isDigit then (0, false)
  else
    if neg then (if decVal ds > 9223372036854775808 then (-9223372036854775808, false) else (-(decVal ds : Int), true))
    else (if decVal ds > 9223372036854775807 then (9223372036854775807, false) else ((decVal ds : Int), true))

theorem atoi_eq (s : Bytes) : atoi s = atoiCore (atoiSplit s).1 (atoiSplit s).2 := by
  unfold atoi atoiSplit atoiCore decVal
  rfl

theorem atoiSplit_cases (v : Bytes) :
    (∃ r, v = 43 :: r ∧ atoiSplit v = (false, r)) ∨ (∃ r, v = 45 :: r ∧ atoiSplit v = (true, r)) ∨
    atoiSplit v = (false, v) := by
  unfold atoiSplit
  split
  · rename_i r; exact Or.inl ⟨r, rfl, rfl⟩
  · rename_i r; exact Or.inr (Or.inl ⟨r, rfl, rfl⟩)
  · exact Or.inr (Or.inr rfl)

theorem atoiCore_ok {neg : Bool} {ds : Bytes} (h : (atoiCore neg ds).2 = true) :
    ds ≠ [] ∧ ds.all isDigit = true ∧
    (atoiCore neg ds).1 = (if neg then -(decVal ds : Int) else (decVal ds : Int)) ∧
    -9223372036854775808 ≤ (atoiCore neg ds).1 ∧ (atoiCore neg ds).1 ≤ 9223372036854775807 := by
  unfold atoiCore at h ⊢
  by_cases h1 : (ds.isEmpty || !ds.all isDigit) = true
  · rw [if_pos h1] at h; cases h
  · rw [if_neg h1] at h ⊢
    have h1' : ds.isEmpty = false ∧ ds.all isDigit = true := by
      simpa [Bool.or_eq_true] using h1
    have hne : ds ≠ [] := by intro e; subst e; simp at h1'
    cases neg
    · simp only [Bool.false_eq_true, if_false] at h ⊢
      by_cases h2 : decVal ds > 9223372036854775807
      · rw [if_pos h2] at h; cases h
      · rw [if_neg h2]
        exact ⟨hne, h1'.2, rfl, by simp only; omega, by simp only; omega⟩
    · simp only [if_true] at h ⊢
      by_cases h2 : decVal ds > 9223372036854775808
      · rw [if_pos h2] at h; cases h
      · rw [if_neg h2]
        exact ⟨hne, h1'.2, rfl, by simp only; omega, by simp only; omega⟩

/-- **`strconv.Atoi` succeeds only on optionally signed, non-empty decimal digit strings whose value
    fits int64**, and then returns that value. -/
theorem atoi_ok {v : Bytes} (h : (atoi v).2 = true) :
    ∃ ds : Bytes, ds ≠ [] ∧ ds.all isDigit = true ∧
      (((v = ds ∨ v = 43 :: ds) ∧ (atoi v).1 = (decVal ds : Int)) ∨ (v = 45 :: ds ∧ (atoi v).1 = -(decVal ds : Int))) ∧
      -9223372036854775808 ≤ (atoi v).1 ∧ (atoi v).1 ≤ 9223372036854775807 := by
  rw [atoi_eq] at h ⊢
  rcases atoiSplit_cases v with ⟨r, hv, hs⟩ | ⟨r, hv, hs⟩ | hs
  · rw [hs] at h ⊢
    obtain ⟨a, b', c, d, e⟩ := atoiCore_ok h
    exact ⟨r, a, b', Or.inl ⟨Or.inr hv, by simpa using c⟩, d, e⟩
  · rw [hs] at h ⊢
    obtain ⟨a, b', c, d, e⟩ := atoiCore_ok h
    exact ⟨r, a, b', Or.inr ⟨hv, by simpa using c⟩, d, e⟩
  · rw [hs] at h ⊢
    obtain ⟨a, b', c, d, e⟩ := atoiCore_ok h
    exact ⟨v, a, b', Or.inl ⟨Or.inl rfl, by simpa using c⟩, d, e⟩

/-! ### what each kind demands (`c.data` as parsed from the pattern; `Atoi` errors on the data are
    ignored by the Go code, the data then counts as 0 / as the clamped value) -/

theorem checkExact_int {c : Constraint} (h : c.id = .int) (v : Bytes) :
    checkExact c v = (atoi v).2 := by unfold checkExact; simp [h]

theorem checkExact_bool {c : Constraint} (h : c.id = .bool) (v : Bytes) :
    checkExact c v = parseBoolOK v := by unfold checkExact; simp [h]

theorem checkExact_float {c : Constraint} (h : c.id = .float) (v : Bytes) :
    checkExact c v = parseFloat32OK v := by unfold checkExact; simp [h]

theorem checkExact_guid {c : Constraint} (h : c.id = .guid) (v : Bytes) :
    checkExact c v = uuidParseOK v := by unfold checkExact; simp [h]

theorem checkExact_alpha {c : Constraint} (h : c.id = .alpha) (v : Bytes) :
    checkExact c v = v.all isAlpha := by unfold checkExact; simp [h]

theorem checkExact_minLen {c : Constraint} (h : c.id = .minLen) (v : Bytes) :
    checkExact c v = true ↔ c.data ≠ [] ∧ (atoi (c.data.getD 0 [])).1 ≤ (v.length : Int) := by
  unfold checkExact
  cases hd : c.data <;> simp [h, Int.not_lt]

theorem checkExact_maxLen {c : Constraint} (h : c.id = .maxLen) (v : Bytes) :
    checkExact c v = true ↔ c.data ≠ [] ∧ (v.length : Int) ≤ (atoi (c.data.getD 0 [])).1 := by
  unfold checkExact
  cases hd : c.data <;> simp [h, Int.not_lt]

theorem checkExact_len {c : Constraint} (h : c.id = .len) (v : Bytes) :
    checkExact c v = true ↔ c.data ≠ [] ∧ (v.length : Int) = (atoi (c.data.getD 0 [])).1 := by
  unfold checkExact
  cases hd : c.data <;> simp [h]

theorem checkExact_betweenLen {c : Constraint} (h : c.id = .betweenLen) (v : Bytes) :
    checkExact c v = true ↔ c.data.length ≥ 2 ∧ (atoi (c.data.getD 0 [])).1 ≤ (v.length : Int) ∧
      (v.length : Int) ≤ (atoi (c.data.getD 1 [])).1 := by
  unfold checkExact
  simp only [h, Bool.and_eq_true, Bool.not_eq_true', decide_eq_false_iff_not, Nat.not_lt, Bool.or_eq_false_iff,
    decide_eq_true_eq, Int.not_lt, ge_iff_le]

theorem checkExact_min {c : Constraint} (h : c.id = .min) (v : Bytes) :
    checkExact c v = true ↔ c.data ≠ [] ∧ (atoi v).2 = true ∧ (atoi (c.data.getD 0 [])).1 ≤ (atoi v).1 := by
  unfold checkExact
  cases hd : c.data <;> simp [h, Int.not_lt]

theorem checkExact_max {c : Constraint} (h : c.id = .max) (v : Bytes) :
    checkExact c v = true ↔ c.data ≠ [] ∧ (atoi v).2 = true ∧ (atoi v).1 ≤ (atoi (c.data.getD 0 [])).1 := by
  unfold checkExact
  cases hd : c.data <;> simp [h, Int.not_lt]

theorem checkExact_range {c : Constraint} (h : c.id = .range) (v : Bytes) :
    checkExact c v = true ↔ c.data.length ≥ 2 ∧ (atoi v).2 = true ∧ (atoi (c.data.getD 0 [])).1 ≤ (atoi v).1 ∧
      (atoi v).1 ≤ (atoi (c.data.getD 1 [])).1 := by
  unfold checkExact
  simp only [h, Bool.and_eq_true, Bool.not_eq_true', decide_eq_false_iff_not, Nat.not_lt, Bool.or_eq_false_iff,
    decide_eq_true_eq, Int.not_lt, ge_iff_le, and_assoc]

/-- regex and datetime keep an abstract verdict (`regexp.MatchString`, `time.Parse`); what is
    transcribed is the gate in front of it: without data the constraint rejects everything. -/
theorem checkConstraint_needs_data (custom : List Bytes) (abs : Constraint → Bytes → Bool) (c : Constraint)
    (v : Bytes) (hc : custom.contains c.name = false) (hk : c.id = .regex ∨ c.id = .datetime)
    (hd : c.data = []) : checkConstraint custom abs c v = false := by
  have hm : ¬ c.name ∈ custom := by
    intro hm; rw [List.contains_iff_mem.mpr hm] at hc; cases hc
  unfold checkConstraint checkExact
  rcases hk with hk | hk <;> simp [hm, hk, hd]

end C02
