import FiberModel.C02.TrailingLoop
/-
C02 — the link between the pattern as written and the routed pattern, at the level of `register`:

  * `routed_eq_written` (all configurations, all patterns): the parameter segments of the routed
    parser carry the constraints, optional and greedy flags of the parse of `writtenPattern cfg p`
    (the text as written, no case folding, without the trailing slashes the configuration ignores).
  * `written_eq_raw` (outside the `swallows` corner): these are also the parameter segments — names
    included — of the parse of the raw text, which is where `Route.Params` comes from.
-/
namespace C02
open B

/-- what the property reads of a parameter segment -/
def pview (s : Seg) : List Constraint × Bool × Bool := (s.constraints, s.isOptional, s.isGreedy)
/-- … together with its name -/
def nview (s : Seg) : Bytes × List Constraint × Bool × Bool := (s.paramName, s.constraints, s.isOptional, s.isGreedy)

theorem CoreL.nviews {l l' : List Seg} (h : CoreL l l') :
    (paramSegs l').map nview = (paramSegs l).map nview := by
  induction h with
  | nil => rfl
  | @cons a b as bs hab _ ih =>
    rw [paramSegs_cons, paramSegs_cons, hab.2.1]
    cases a.isParam
    · exact ih
    · simp only [if_true, List.map_cons, ih]
      congr 1
      unfold nview
      rw [hab.2.2.2.2.2.1, hab.2.2.2.2.1, hab.2.2.2.1, hab.2.2.1]

theorem nview_pview {l l' : List Seg} (h : l.map nview = l'.map nview) : l.map pview = l'.map pview := by
  have : ∀ (l : List Seg), l.map pview = (l.map nview).map (fun x => x.2) := by
    intro l; rw [List.map_map]; rfl
  rw [this, this, h]

theorem sview_pviews : (l l' : List Seg) → l.map sview = l'.map sview →
    (paramSegs l).map pview = (paramSegs l').map pview
  | [], [], _ => rfl
  | [], _ :: _, h => by cases h
  | _ :: _, [], h => by cases h
  | a :: as, b :: bs, h => by
    simp only [List.map_cons, List.cons.injEq] at h
    have ih := sview_pviews as bs h.2
    have hv := h.1
    unfold sview at hv
    simp only [Prod.mk.injEq] at hv
    rw [paramSegs_cons, paramSegs_cons, hv.1]
    cases b.isParam
    · exact ih
    · simp only [if_true, List.map_cons, ih]
      congr 1
      unfold pview
      rw [hv.2.2.1, hv.2.2.2.1, hv.2.2.2.2]

/-! ### the meta pass succeeds exactly when no constant is empty -/

def constsOK (l : List Seg) : Bool := l.all (fun s => s.isParam || !s.const.isEmpty)

theorem metaForward_isSome : (l : List Seg) → (metaForward l).isSome = constsOK l
  | [] => rfl
  | s :: rest => by
    have ih := metaForward_isSome rest
    unfold metaForward constsOK
    rw [List.all_cons]
    unfold constsOK at ih
    cases hr : metaForward rest with
    | none =>
      rw [hr] at ih
      simp only [Option.isSome_none] at ih ⊢
      rw [← ih]; simp
    | some rest' =>
      rw [hr] at ih
      simp only [Option.isSome_some] at ih
      rw [← ih]
      simp only [Bool.and_true]
      cases hp : s.isParam
      · simp only [Bool.false_eq_true, if_false, Bool.false_or]
        cases hc : s.const with
        | nil => rfl
        | cons x xs =>
          cases hg : (x :: xs).getLast? with
          | none => simp at hg
          | some l =>
            simp only
            split <;> rfl
      · simp

theorem CoreL.constsOK {l l' : List Seg} (h : CoreL l l') : constsOK l' = constsOK l := by
  unfold C02.constsOK
  induction h with
  | nil => rfl
  | cons hab _ ih =>
    rw [List.all_cons, List.all_cons, ih, hab.1, hab.2.1]

theorem finish_isSome (raw : List Seg) : (addParameterMetaInfo (markLast raw)).isSome = constsOK raw := by
  unfold addParameterMetaInfo
  rw [metaForward_isSome, ((markLast_core raw).trans (setCompareParts_core _)).constsOK]

theorem sview_constsOK : (l l' : List Seg) → l.map sview = l'.map sview → constsOK l = constsOK l'
  | [], [], _ => rfl
  | [], _ :: _, h => by cases h
  | _ :: _, [], h => by cases h
  | a :: as, b :: bs, h => by
    simp only [List.map_cons, List.cons.injEq] at h
    have ih := sview_constsOK as bs h.2
    have hv := h.1
    unfold sview at hv
    simp only [Prod.mk.injEq] at hv
    unfold constsOK at ih ⊢
    rw [List.all_cons, List.all_cons, ih, hv.1, hv.2.1]

/-! ### (A) at the level of `parseRouteW` -/

/-- Parsing the byte-wise image of `t` under a map that respects the special characters, with `t`
    for the constraint text, succeeds exactly like parsing `t`, with the same constraints and flags
    on every parameter segment. -/
theorem parseRouteW_fold {f : Nat → Nat} (hf : Neutral f) {t : Bytes} {pp : Parser}
    (h : parseRouteW (t.map f) t = some pp) :
    ∃ wr, parseRoute t = some wr ∧ (paramSegs pp.segs).map pview = (paramSegs wr.segs).map pview := by
  obtain ⟨w', raw, _, hw, hr, hm, _⟩ := parseRouteW_unfold h
  have hw' : w' = t := hw (by simp)
  subst hw'
  rw [List.length_map] at hr
  have hA := parseLoopW_fold hf w'.length w' 0 0
  rw [hr] at hA
  cases hr' : parseLoop w'.length w' 0 0 with
  | none => rw [hr'] at hA; cases hA
  | some raw' =>
    rw [hr'] at hA
    simp only [Option.map_some, Option.some.injEq] at hA
    have hsome : (addParameterMetaInfo (markLast raw')).isSome = true := by
      rw [finish_isSome, ← sview_constsOK raw raw' hA, ← finish_isSome, hm]; rfl
    cases hm' : addParameterMetaInfo (markLast raw') with
    | none => rw [hm'] at hsome; cases hsome
    | some segs' =>
      refine ⟨{ segs := segs', params := paramNames segs' }, ?_, ?_⟩
      · unfold parseRoute
        rw [hr']
        simp only [hm']
      · have c1 := nview_pview (finish_core hm).nviews
        have c2 := nview_pview (finish_core hm').nviews
        simp only
        rw [c1, c2]
        exact sview_pviews raw raw' hA

/-! ### trimming and folding the pattern text -/

theorem dropWhile_map_slash {f : Nat → Nat} (hf : Neutral f) : (l : Bytes) →
    (l.map f).dropWhile (· == SLASH) = (l.dropWhile (· == SLASH)).map f
  | [] => rfl
  | x :: xs => by
    simp only [List.map_cons, List.dropWhile_cons, hf.beq (s := SLASH) (by decide) x]
    split
    · exact dropWhile_map_slash hf xs
    · rfl

theorem trimRight_map {f : Nat → Nat} (hf : Neutral f) (s : Bytes) :
    trimRight (s.map f) SLASH = (trimRight s SLASH).map f := by
  unfold trimRight
  rw [← List.map_reverse, dropWhile_map_slash hf, List.map_reverse]

theorem takeWhile_all (p : Nat → Bool) : (l : Bytes) → ∀ x ∈ l.takeWhile p, p x = true
  | [], _, h => by cases h
  | a :: as, x, h => by
    rw [List.takeWhile_cons] at h
    split at h
    · rename_i ha
      rcases List.mem_cons.mp h with rfl | h
      · exact ha
      · exact takeWhile_all p as x h
    · cases h

theorem trimRight_split (s : Bytes) : ∃ sl, Slashes sl ∧ s = trimRight s SLASH ++ sl := by
  refine ⟨(s.reverse.takeWhile (· == SLASH)).reverse, ?_, ?_⟩
  · intro c hc
    have hc' := List.mem_reverse.mp hc
    have := takeWhile_all (· == SLASH) _ c hc'
    simpa using this
  · unfold trimRight
    rw [← List.reverse_append, List.takeWhile_append_dropWhile, List.reverse_reverse]

/-- the byte map the configuration applies to pattern and detection path -/
def cfgFold (cfg : Config) : Nat → Nat := if cfg.caseSensitive then id else lowerByte

theorem cfgFold_neutral (cfg : Config) : Neutral (cfgFold cfg) := by
  unfold cfgFold
  cases cfg.caseSensitive
  · exact lowerByte_neutral
  · exact neutral_id

/-- `register`'s prettified pattern is the written pattern, case-folded. -/
theorem prettyPattern_eq (cfg : Config) (p : Bytes) :
    prettyPattern cfg p = (writtenPattern cfg p).map (cfgFold cfg) := by
  have hraw : ∀ q, (if (if q.isEmpty then [SLASH] else q).headD 0 != SLASH
      then SLASH :: (if q.isEmpty then [SLASH] else q) else (if q.isEmpty then [SLASH] else q)) = rawPattern q := by
    intro q; rfl
  unfold prettyPattern writtenPattern
  simp only [hraw]
  generalize rawPattern p = raw
  unfold cfgFold toLower
  cases cfg.caseSensitive
  · simp only [Bool.not_false, if_true, Bool.false_eq_true, if_false, List.length_map]
    split
    · exact trimRight_map lowerByte_neutral raw
    · rfl
  · simp only [Bool.not_true, Bool.false_eq_true, if_false, if_true, List.map_id]

/-- `pathRaw[:len(pathPretty)]` is the written pattern. -/
theorem writtenPattern_eq_take (cfg : Config) (p : Bytes) :
    (rawPattern p).take (prettyPattern cfg p).length = writtenPattern cfg p := by
  rw [prettyPattern_eq, List.length_map]
  unfold writtenPattern
  simp only
  split
  · exact (List.prefix_iff_eq_take.mp (trimRight_prefix _ _)).symm
  · exact List.take_length

theorem rawPattern_split (cfg : Config) (p : Bytes) :
    ∃ sl, Slashes sl ∧ rawPattern p = writtenPattern cfg p ++ sl := by
  unfold writtenPattern
  simp only
  split
  · exact trimRight_split _
  · exact ⟨[], ⟨fun _ h => (nomatch h), (List.append_nil _).symm⟩⟩

/-! ### the link theorems -/

theorem register_parts {cfg : Config} {use : Bool} {pattern : Bytes} {r : Route}
    (hr : register cfg use pattern = some r) :
    ∃ pr, parseRoute (rawPattern pattern) = some pr ∧ r.params = pr.params ∧
      parseRouteW ((writtenPattern cfg pattern).map (cfgFold cfg)) (writtenPattern cfg pattern) = some r.parser ∧
      r.use = use ∧ r.pathRaw = rawPattern pattern ∧
      r.path = removeEscapeChar (prettyPattern cfg pattern) ∧
      r.star = (prettyPattern cfg pattern == [SLASH, STAR]) ∧
      r.root = (removeEscapeChar (prettyPattern cfg pattern) == [SLASH]) := by
  unfold register at hr
  simp only at hr
  split at hr
  · rename_i pr pp hpr hpp
    cases hr
    rw [writtenPattern_eq_take, prettyPattern_eq] at hpp
    exact ⟨pr, hpr, rfl, hpp, rfl, rfl, rfl, rfl, rfl⟩
  · cases hr

/-- **The routed constraints are the constraints as written — every configuration, every pattern.**
    The parameter segments of the parser a registered route matches with carry, in order, exactly
    the constraint lists (same names, same data: same letter case) and the optional / greedy flags
    of the parse of the pattern as written (`writtenPattern`: no case folding; trailing slashes cut
    unless StrictRouting). -/
theorem routed_eq_written {cfg : Config} {use : Bool} {pattern : Bytes} {r : Route}
    (hr : register cfg use pattern = some r) :
    ∃ wr, parseRoute (writtenPattern cfg pattern) = some wr ∧
      (paramSegs r.parser.segs).map pview = (paramSegs wr.segs).map pview := by
  obtain ⟨_, _, _, hpp, _⟩ := register_parts hr
  exact parseRouteW_fold (cfgFold_neutral cfg) hpp

/-- (B) at the level of `parseRoute`: the raw text and the written pattern have the same parameter
    segments (names, constraints, flags) — outside the `swallows` corner. -/
theorem written_eq_raw {cfg : Config} {pattern : Bytes} {pr wr : Parser}
    (hns : NoSwallow (writtenPattern cfg pattern))
    (hpr : parseRoute (rawPattern pattern) = some pr) (hwr : parseRoute (writtenPattern cfg pattern) = some wr) :
    (paramSegs pr.segs).map nview = (paramSegs wr.segs).map nview := by
  obtain ⟨sl, hsl, hsplit⟩ := rawPattern_split cfg pattern
  obtain ⟨raw1, hl1, hc1⟩ := parseRoute_core hpr
  obtain ⟨raw2, hl2, hc2⟩ := parseRoute_core hwr
  have hB := parseLoop_append_slashes hsl (writtenPattern cfg pattern).length (rawPattern pattern).length
    (writtenPattern cfg pattern) 0 0 (Nat.le_refl _)
    (by rw [hsplit, List.length_append]; exact Nat.le_refl _) hns
  rw [← hsplit, hl1, hl2] at hB
  simp only [Option.map_some, Option.some.injEq] at hB
  rw [hc1.nviews, hc2.nviews, hB]

/-- `Route.Params` (the names `Params(name)` is looked up in, taken from the raw text) lines up with
    the parameter segments of the routed parser: same number, in order. -/
theorem params_aligned {cfg : Config} {use : Bool} {pattern : Bytes} {r : Route}
    (hr : register cfg use pattern = some r) (hns : NoSwallow (writtenPattern cfg pattern)) :
    r.params.length = (paramSegs r.parser.segs).length := by
  obtain ⟨pr, hpr, hparams, _⟩ := register_parts hr
  obtain ⟨wr, hwr, hv⟩ := routed_eq_written hr
  have h1 := written_eq_raw hns hpr hwr
  have l1 := congrArg List.length hv
  have l2 := congrArg List.length h1
  simp only [List.length_map] at l1 l2
  rw [hparams, parseRoute_params hpr]
  show ((paramSegs pr.segs).map (·.paramName)).length = _
  rw [List.length_map]
  omega

end C02
