import FiberModel.C02.Shape
/-
C02 — the constraints a registered route enforces are the constraints of the pattern as written.

(A) `parseLoopW_fold`: parsing the case-folded pattern with the written text for the constraints
    (what `register` does since commit "constraints keep the letter case they were written in")
    yields, segment by segment, the same parameter / optional / greedy flags and literally the same
    constraints as parsing the written pattern itself; constants are the folded constants.
(B) `parseLoop_append_slashes`: trailing slashes of the written pattern (cut by `register` unless
    StrictRouting) do not change any parameter segment — outside the `bracketSlash` corner, where a
    parameter's constraint brackets contain a '/' and no end character follows them, so that the
    parameter takes the whole rest of the pattern text, trailing slashes included.
-/
namespace C02
open B

/-- what the later parser stages and the property read of a raw segment (everything but the
    spelling of constants and names) -/
def sview (s : Seg) : Bool × Bool × List Constraint × Bool × Bool :=
  (s.isParam, s.const.isEmpty, s.constraints, s.isOptional, s.isGreedy)

theorem map_cons_view (X : Option (List Seg)) (seg : Seg) :
    (X.map (seg :: ·)).map (·.map sview) = (X.map (·.map sview)).map (sview seg :: ·) := by
  cases X <;> rfl

theorem Neutral.removeEscapeChar {f : Nat → Nat} (hf : Neutral f) (l : Bytes) :
    removeEscapeChar (l.map f) = (removeEscapeChar l).map f := by
  unfold C02.removeEscapeChar
  rw [List.filter_map]
  congr 1
  apply List.filter_congr
  intro x _
  simp only [Function.comp, bne, hf.beq (s := BSL) (by decide) x]

theorem mkParam_view (sh : Shape) (p p' w : Bytes) (wc pc : Nat) :
    (mkParam sh p w wc pc).map (fun r => (r.1, sview r.2.1, r.2.2)) =
    (mkParam sh p' w wc pc).map (fun r => (r.1, sview r.2.1, r.2.2)) := by
  unfold mkParam
  cases consOf sh w <;> rfl

theorem mkParam_cases (sh : Shape) (p p' w : Bytes) (wc pc : Nat) :
    (mkParam sh p w wc pc = none ∧ mkParam sh p' w wc pc = none) ∨
    ∃ n seg seg' wc' pc', mkParam sh p w wc pc = some (n, seg, wc', pc') ∧
      mkParam sh p' w wc pc = some (n, seg', wc', pc') ∧ sview seg = sview seg' := by
  unfold mkParam
  cases consOf sh w with
  | none => left; exact ⟨rfl, rfl⟩
  | some cs => right; exact ⟨_, _, _, _, _, rfl, rfl, rfl⟩

theorem analyseConstantPart_fold {f : Nat → Nat} (hf : Neutral f) (p : Bytes) (np : Option Nat) :
    (analyseConstantPart (p.map f) np).1 = (analyseConstantPart p np).1 ∧
    sview (analyseConstantPart (p.map f) np).2 = sview (analyseConstantPart p np).2 := by
  unfold analyseConstantPart sview
  cases np with
  | none => simp [hf.removeEscapeChar]
  | some k => simp [← List.map_take, hf.removeEscapeChar]

/-- **(A)** -/
theorem parseLoopW_fold {f : Nat → Nat} (hf : Neutral f) : (fuel : Nat) → (p : Bytes) → (wc pc : Nat) →
    (parseLoopW fuel (p.map f) p wc pc).map (·.map sview) = (parseLoop fuel p wc pc).map (·.map sview)
  | 0, _, _, _ => rfl
  | fuel + 1, p, wc, pc => by
    unfold parseLoopW parseLoop
    rw [List.isEmpty_map, hf.findNextParamPosition]
    split
    · rfl
    · split
      · rw [analyseParameterPartW_eq, analyseParameterPart_eq, hf.paramShape]
        rcases mkParam_cases (paramShape p) (p.map f) p p wc pc with ⟨h1, h2⟩ | ⟨n, seg, seg', wc', pc', h1, h2, hv⟩
        · rw [h1, h2]
        · rw [h1, h2]
          simp only
          rw [map_cons_view, map_cons_view, ← List.map_drop, parseLoopW_fold hf fuel, hv]
      · have hc := analyseConstantPart_fold hf p (findNextParamPosition p)
        simp only
        rw [map_cons_view, map_cons_view, hc.1, hc.2, ← List.map_drop, parseLoopW_fold hf fuel]

end C02
