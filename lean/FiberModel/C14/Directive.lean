import FiberModel.C14.Spec
/-
C14 — the code's test for a request directive (`strings.Contains(utils.ToLower(Cache-Control), d)`,
Model.lean `hasDirective`) is at least as wide as the RFC 9111 §5.2 reading of the header the spec
uses (`directiveNames`: comma separated, optional `=argument`, blanks trimmed, names
case-insensitive): whenever `d` is one of the directive names of the header value, the lower-cased
value contains `d`.
-/
namespace C14
open B
set_option linter.unusedSimpArgs false

theorem indexOf_of_infix : ∀ (pre pat post : Bytes), (indexOf (pre ++ pat ++ post) pat).isSome = true := by
  intro pre
  induction pre with
  | nil =>
    intro pat post
    cases hp : pat ++ post with
    | nil =>
      have : pat = [] := by
        cases pat with
        | nil => rfl
        | cons a t => simp at hp
      subst this
      simp [indexOf, hp]
    | cons x xs =>
      have hpre : pat.isPrefixOf (x :: xs) = true := by
        rw [← hp]; simp
      simp [indexOf, hp, hpre]
  | cons a pre ih =>
    intro pat post
    simp only [List.cons_append]
    unfold indexOf
    have := ih pat post
    split
    · rfl
    · simpa using this

theorem indexOf_of_isInfix {s pat : Bytes} (h : pat <:+: s) : (indexOf s pat).isSome = true := by
  rcases h with ⟨pre, post, rfl⟩
  exact indexOf_of_infix pre pat post

theorem splitOn_go_infix (c : Nat) : ∀ (s acc p : Bytes), p ∈ splitOn.go c s acc → p <:+: (acc.reverse ++ s) := by
  intro s
  induction s with
  | nil =>
    intro acc p hp
    simp [splitOn.go] at hp
    subst hp
    simp
  | cons x xs ih =>
    intro acc p hp
    unfold splitOn.go at hp
    by_cases hx : (x == c) = true
    · rw [if_pos hx] at hp
      rcases List.mem_cons.mp hp with rfl | hp
      · exact ⟨[], x :: xs, by simp⟩
      · have := ih [] p hp
        simp only [List.reverse_nil, List.nil_append] at this
        rcases this with ⟨pre, post, he⟩
        exact ⟨acc.reverse ++ x :: pre, post, by simp [← he]⟩
    · rw [if_neg hx] at hp
      have := ih (x :: acc) p hp
      simpa using this

theorem mem_splitOn_infix {s p : Bytes} {c : Nat} (h : p ∈ splitOn s c) : p <:+: s := by
  have := splitOn_go_infix c s [] p h
  simpa using this

theorem trimRight_prefix (l : Bytes) (f : Nat → Bool) : (l.reverse.dropWhile f).reverse <+: l := by
  have h : l.reverse.dropWhile f <:+ l.reverse := List.dropWhile_suffix f
  have := List.reverse_prefix.mpr h
  simpa using this

/-- a directive name of the header value occurs, lower-cased, in the lower-cased value -/
theorem directive_name_infix {cc d : Bytes} (h : d ∈ directiveNames cc) : d <:+: toLower cc := by
  unfold directiveNames at h
  rcases List.mem_map.mp h with ⟨piece, hp, rfl⟩
  have h1 : piece <:+: cc := mem_splitOn_infix hp
  have h2 : piece.dropWhile (fun c => c == 32 || c == 9) <:+: piece := (List.dropWhile_suffix _).isInfix
  have h3 : (piece.dropWhile (fun c => c == 32 || c == 9)).takeWhile (fun c => c != 61) <:+:
      piece.dropWhile (fun c => c == 32 || c == 9) := (List.takeWhile_prefix _).isInfix
  have h4 := (trimRight_prefix ((piece.dropWhile (fun c => c == 32 || c == 9)).takeWhile (fun c => c != 61))
      (fun c => c == 32 || c == 9)).isInfix
  have h5 := ((h4.trans h3).trans h2).trans h1
  unfold toLower
  exact h5.map lowerByte

theorem directive_implies_substring {cc d : Bytes} (h : (directiveNames cc).contains d = true) :
    hasDirective cc d = true := by
  unfold hasDirective
  have hm : d ∈ directiveNames cc := by simpa using h
  exact indexOf_of_isInfix (directive_name_infix hm)

end C14
