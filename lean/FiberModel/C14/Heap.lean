import FiberModel.Basic
/-
C14 — the expiry heap of the cache middleware (middleware/cache/heap.go) and the part of Go's
`container/heap` it uses (`up`, `down`, `Fix`, `Remove`), re-modelled.

Representation of the Go slice `h.entries` *with its backing array*:
  `live`  = h.entries[0:len]                       (the heap proper)
  `dead`  = backing array positions len, len+1, …  (what `Pop` left behind; nearest first)
`Pop` only shrinks the slice, so the popped element stays at position `len` of the backing array:
`live.dropLast`, `last :: dead`.  `put` reads `h.entries[:n+1][n].idx` – the head of `dead` – to
re-use that entry's index, and `append` then overwrites that position.  Every index expression that
can panic in Go is a checked access here (`none` = run-time panic), so "no panic" is a theorem about
the model and not an artefact of totalised definitions.
Core Lean only (linked into the driver).
-/
namespace C14
open B

abbrev Key := Bytes

/-- heap.go `heapEntry` -/
structure HEntry where
  key : Key
  exp : Nat
  bytes : Nat
  idx : Nat
deriving DecidableEq, Repr, Inhabited

/-- heap.go `indexedHeap` (+ the backing-array tail of `entries`) -/
structure Heap where
  live : List HEntry      -- h.entries
  dead : List HEntry      -- backing array beyond len(h.entries)
  indices : List Nat      -- h.indices : index handed out ↦ position in entries
  maxidx : Nat            -- h.maxidx
  keys : List (Key × Nat) -- h.keys : key ↦ index handed out for the entry tracking it (Go map, `[]` = nil map)
deriving DecidableEq, Repr, Inhabited

def Heap.empty : Heap := { live := [], dead := [], indices := [], maxidx := 0, keys := [] }

/-! the Go map `h.keys` as an association list: `v, ok := m[k]`, `delete(m, k)`, `m[k] = v` -/
def klookup : List (Key × Nat) → Key → Option Nat
  | [], _ => none
  | (k', v) :: t, k => if k' = k then some v else klookup t k
def kerase (m : List (Key × Nat)) (k : Key) : List (Key × Nat) := m.filter (·.1 != k)
def kset (m : List (Key × Nat)) (k : Key) (v : Nat) : List (Key × Nat) := (k, v) :: kerase m k

/-- heap.go `Less(i, j)`: `h.entries[i].exp < h.entries[j].exp` (both index expressions checked) -/
def Heap.less (h : Heap) (i j : Nat) : Option Bool := do
  let a ← h.live[i]?
  let b ← h.live[j]?
  pure (decide (a.exp < b.exp))

/-- heap.go `Swap(i, j)`:
    entries[i], entries[j] = entries[j], entries[i];
    indices[entries[i].idx] = i; indices[entries[j].idx] = j -/
def Heap.swap (h : Heap) (i j : Nat) : Option Heap := do
  let ei ← h.live[i]?
  let ej ← h.live[j]?
  let live := (h.live.set i ej).set j ei
  if ej.idx < h.indices.length then
    let ind := h.indices.set ej.idx i
    if ei.idx < ind.length then
      pure { h with live := live, indices := ind.set ei.idx j }
    else none
  else none

/-- container/heap `up(h, j)`. The loop is bounded by fuel (`none` when it runs out – shown
    impossible for fuel > j in `up_ok`). `(j-1)/2` is Go's truncated division: 0 for j = 0. -/
def Heap.up : Nat → Heap → Nat → Option Heap
  | 0, _, _ => none
  | f + 1, h, j =>
    let i := (j - 1) / 2                       -- parent
    if i == j then some h
    else match h.less j i with
      | none => none
      | some false => some h
      | some true =>
        match h.swap i j with
        | none => none
        | some h' => Heap.up f h' i

/-- container/heap `down(h, i0, n)`; returns the heap and the final position `i`
    (Go returns `i > i0`). -/
def Heap.down : Nat → Heap → Nat → Nat → Option (Heap × Nat)
  | 0, _, _, _ => none
  | f + 1, h, i, n =>
    let j1 := 2 * i + 1
    if j1 ≥ n then some (h, i)
    else
      let j2 := j1 + 1
      let jo : Option Nat :=
        if j2 < n then (h.less j2 j1).map fun lt => if lt then j2 else j1 else some j1
      match jo with
      | none => none
      | some j =>
        match h.less j i with
        | none => none
        | some false => some (h, i)
        | some true =>
          match h.swap i j with
          | none => none
          | some h' => Heap.down f h' j n

/-- heap.go `Pop`: `n := len(h.entries); h.entries = h.entries[0:n-1]; return h.entries[0:n][n-1]`
    (`entries[0:-1]` panics on an empty heap). -/
def Heap.pop (h : Heap) : Option (Heap × HEntry) :=
  match h.live.getLast? with
  | none => none
  | some x => some ({ h with live := h.live.dropLast, dead := x :: h.dead }, x)

/-- the sift step shared by `heap.Fix` and `heap.Remove`: `if !down(h, i, n) { up(h, i) }` -/
def Heap.sift (h : Heap) (i n : Nat) : Option Heap :=
  let fuel := h.live.length + 1
  match h.down fuel i n with
  | none => none
  | some (h', i') => if i' > i then some h' else h'.up fuel i

/-- container/heap `Remove(h, i)` + heap.go `removeInternal`:
    `n := h.Len()-1; if n != i { h.Swap(i, n); if !down(h, i, n) { up(h, i) } }; return h.Pop()`.
    On an empty heap n = -1 ≠ i and `Swap(i, -1)` panics. -/
def Heap.removeAt (h : Heap) (i : Nat) : Option (Heap × HEntry) :=
  if h.live.length = 0 then none
  else
    let n := h.live.length - 1
    if n != i then
      match h.swap i n with
      | none => none
      | some h1 =>
        match h1.sift i n with
        | none => none
        | some h2 => h2.pop
    else h.pop

/-- heap.go `removeInternal(realIdx)`: `x := heap.Remove(h, realIdx); delete(h.keys, x.key); return x.key, x.bytes` -/
def Heap.removeInternal (h : Heap) (i : Nat) : Option (Heap × HEntry) :=
  match h.removeAt i with
  | none => none
  | some (h', x) => some ({ h' with keys := kerase h'.keys x.key }, x)

/-- heap.go `removeFirst` -/
def Heap.removeFirst (h : Heap) : Option (Heap × HEntry) := h.removeInternal 0

/-- heap.go `remove(idx)` as it was before the repair: `h.removeInternal(h.indices[idx])`.
    Kept only for the witness examples in Props.lean (why the repair was needed). -/
def Heap.removeUnchecked (h : Heap) (idx : Nat) : Option (Heap × HEntry) :=
  match h.indices[idx]? with
  | none => none
  | some p => h.removeAt p

/-- heap.go `remove(idx, key)` (repaired): removes the entry tracked by `idx` only if `idx` is in
    range, its position is inside the heap and the entry there still carries `idx` and `key`.
    Result: the heap and `some bytes` when something was removed. -/
def Heap.remove (h : Heap) (idx : Nat) (key : Key) : Option (Heap × Option Nat) :=
  match h.indices[idx]? with
  | none => some (h, none)
  | some p =>
    match h.live[p]? with
    | none => some (h, none)
    | some e =>
      if e.idx != idx || e.key != key then some (h, none)
      else match h.removeInternal p with
        | none => none
        | some (h', x) => some (h', some x.bytes)

/-- heap.go `removeKey(key)`: `idx, ok := h.keys[key]; if !ok { return 0, false }; return h.remove(idx, key)` -/
def Heap.removeKey (h : Heap) (key : Key) : Option (Heap × Option Nat) :=
  match klookup h.keys key with
  | none => some (h, none)
  | some idx => h.remove idx key

/-- heap.go `pushInternal(entry)`: `h.indices[entry.idx] = len(h.entries); h.entries = append(h.entries, entry)`
    (`append` overwrites the backing-array position right behind the slice) -/
def Heap.pushInternal (h : Heap) (e : HEntry) : Option Heap :=
  if e.idx < h.indices.length then
    some { h with indices := h.indices.set e.idx h.live.length, live := h.live ++ [e], dead := h.dead.drop 1 }
  else none

/-- heap.go `put(key, exp, bytes)`: steal the index of the entry `Pop` left behind when
    `len(entries) < maxidx`, otherwise hand out `maxidx`; `pushInternal`; `heap.Fix(h, Len()-1)`;
    `h.keys[key] = idx`. -/
def Heap.put (h : Heap) (key : Key) (exp bytes : Nat) : Option (Heap × Nat) :=
  let r : Option (Heap × Nat) :=
    if h.live.length < h.maxidx then
      match h.dead with
      | [] => none                                  -- h.entries[:n+1] out of capacity
      | d :: _ => some (h, d.idx)
    else some ({ h with maxidx := h.maxidx + 1, indices := h.indices ++ [h.maxidx] }, h.maxidx)
  match r with
  | none => none
  | some (h1, idx) =>
    match h1.pushInternal ⟨key, exp, bytes, idx⟩ with
    | none => none
    | some h2 =>
      match h2.sift (h2.live.length - 1) h2.live.length with
      | none => none
      | some h3 => some ({ h3 with keys := kset h3.keys key idx }, idx)

/-- the view of the heap through the handed-out indices: `idx ↦ entry` for indices in use -/
def Heap.find (h : Heap) (idx : Nat) : Option HEntry :=
  match h.indices[idx]? with
  | none => none
  | some p =>
    match h.live[p]? with
    | none => none
    | some e => if e.idx = idx then some e else none

def sumBytes (l : List HEntry) : Nat := (l.map (·.bytes)).sum

end C14
