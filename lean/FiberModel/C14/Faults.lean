import FiberModel.C14.Inv
/-
C14 — storage faults: which outcomes of the storage calls can make a key `dirty` (entry, body and heap
entry out of step). Only a failing `Storage.Set` / `Storage.Delete` can; a failing or garbled `Get` cannot.
-/
namespace C14
open B
set_option linter.unusedSimpArgs false

/-- no `Storage.Set` / `Storage.Delete` (nor `Get` of a body) of this request fails; the `Get` of the entry
    may fail or deliver garbage -/
def Req.quiet (q : Req) : Prop :=
  (∀ i, 1 ≤ i → (faultAt q.f1 i).fails = false) ∧ (∀ i, (faultAt q.f2 i).fails = false)

def FsQuiet (fs : List Fault) : Prop := ∀ i, (faultAt fs i).fails = false

theorem quiet_of_no_faults {q : Req} (h1 : q.f1 = []) (h2 : q.f2 = []) : q.quiet := by
  constructor
  · intro i _; rw [h1]; simp [faultAt, Fault.fails]
  · intro i; rw [h2]; simp [faultAt, Fault.fails]

/-- `Get`s of entries may fail or deliver garbage in a quiet request -/
theorem quiet_of_entry_fault (q : Req) (f : Fault) (h1 : q.f1 = [f]) (h2 : q.f2 = []) : q.quiet := by
  constructor
  · intro i hi
    rw [h1]
    cases i with
    | zero => omega
    | succ j => simp [faultAt, Fault.fails]
  · intro i; rw [h2]; simp [faultAt, Fault.fails]

theorem FsQuiet.drop {fs : List Fault} (h : FsQuiet fs) (n : Nat) : FsQuiet (fs.drop n) := by
  intro i
  have := h (n + i)
  unfold faultAt at this ⊢
  rw [List.getD_eq_getElem?_getD, List.getElem?_drop]
  rw [List.getD_eq_getElem?_getD] at this
  exact this

theorem markDirty_nil (k : Key) : markDirty [] k false = [] := by simp [markDirty]

theorem deleteKey_clean (cfg : Config) (sh : Shared) (k : Key) (d1 d2 : Fault) (h1 : d1.fails = false)
    (h2 : d2.fails = false) (hd : sh.dirty = []) : (sh.deleteKey cfg k d1 d2).dirty = [] := by
  unfold Shared.deleteKey
  simp [h1, h2, hd, markDirty]

theorem setKey_clean (cfg : Config) (sh : Shared) (k : Key) (it : Item) (sexp : Nat) (s1 s2 : Fault)
    (h1 : s1.fails = false) (h2 : s2.fails = false) (hd : sh.dirty = []) :
    (sh.setKey cfg k it sexp s1 s2).dirty = [] := by
  unfold Shared.setKey
  simp [h1, h2, hd, markDirty]

theorem dropTracked_dirty {sh sh' : Shared} {key : Key} (h : dropTracked sh key = some sh') : sh'.dirty = sh.dirty :=
  (dropTracked_frame h).2.2

theorem sec1_clean {cfg : Config} {sh sh' : Shared} {ts uts : Nat} {q : Req} {key : Key}
    (hq : ∀ i, 1 ≤ i → (faultAt q.f1 i).fails = false) (hd : sh.dirty = [])
    (h : sec1 cfg sh ts uts q key = .pass sh') : sh'.dirty = [] := by
  unfold sec1 at h
  split at h
  · cases h; exact hd
  · rename_i e _
    unfold sec1Found at h
    split at h
    · unfold sec1Expire at h
      simp only at h
      have hdel := deleteKey_clean cfg sh key _ _ (hq 1 (by omega)) (hq 2 (by omega)) hd
      split at h
      · split at h
        · cases h
        · rename_i sh1 hdt
          cases h
          rw [dropTracked_dirty hdt]; exact hdel
      · cases h; exact hdel
    · split at h
      · split at h
        · cases h; exact hd
        · cases h
      · cases h; exact hd

theorem evict_clean {cfg : Config} {body : Nat} : ∀ (f : Nat) (fs : List Fault) {sh sh' : Shared} {fs' : List Fault},
    FsQuiet fs → sh.dirty = [] → evict cfg body f fs sh = some (sh', fs') → sh'.dirty = [] ∧ FsQuiet fs' := by
  intro f
  induction f with
  | zero => intro fs sh sh' fs' _ _ h; simp [evict] at h
  | succ f ih =>
    intro fs sh sh' fs' hq hd h
    unfold evict at h
    split at h
    · split at h
      · cases h
      · rename_i hh x _
        apply ih _ _ _ h
        · split
          · exact hq.drop 2
          · exact hq
        · show (sh.deleteKey cfg x.key (faultAt fs 0) (faultAt fs 1)).dirty = []
          exact deleteKey_clean cfg sh _ _ _ (hq 0) (hq 1) hd
    · cases h; exact ⟨hd, hq⟩

theorem sec2Store_clean {cfg : Config} {sh sh' : Shared} {ts uts : Nat} {q : Req} {key : Key} {fs : List Fault}
    (hq : FsQuiet fs) (hd : sh.dirty = []) (h : sec2Store cfg sh ts uts q key fs = .stored sh') : sh'.dirty = [] := by
  unfold sec2Store at h
  split at h
  · split at h
    · cases h
    · cases h
      exact setKey_clean cfg _ _ _ _ _ _ (hq 0) (hq 1) hd
  · cases h
    exact setKey_clean cfg _ _ _ _ _ _ (hq 0) (hq 1) hd

theorem sec2_clean {cfg : Config} {sh sh' : Shared} {ts uts : Nat} {q : Req} {key : Key}
    (hq : FsQuiet q.f2) (hd : sh.dirty = []) (h : sec2 cfg sh ts uts q key = .stored sh') : sh'.dirty = [] := by
  unfold sec2 at h
  split at h
  · cases h
  · split at h
    · cases h
    · split at h
      · split at h
        · cases h
        · rename_i sh0 hdt
          split at h
          · cases h
          · rename_i sh1 fs1 hev
            rcases evict_clean _ _ hq (by rw [dropTracked_dirty hdt]; exact hd) hev with ⟨h1, h2⟩
            exact sec2Store_clean h2 h1 h
      · exact sec2Store_clean hq hd h

/-- the state a run of quiet requests keeps: no key dirty, no thread tainted -/
def QuietOK (g : G) : Prop :=
  (∀ (t : Nat) (th : Thread), g.threads[t]? = some th → th.req.quiet) ∧ g.sh.dirty = [] ∧
  ∀ (t : Nat) (th : Thread), g.threads[t]? = some th → th.taint = false

theorem quiet_setThread {g g0 : G} {t : Nat} {th th' : Thread} (hq : QuietOK g) (ht : g.threads[t]? = some th)
    (hth : g0.threads = g.threads) (hsh : g0.sh.dirty = []) (hreq : th'.req = th.req) (htaint : th'.taint = false) :
    QuietOK (g0.setThread t th') := by
  refine ⟨?_, hsh, ?_⟩
  · intro u thu hu
    simp only [G.setThread, hth] at hu
    by_cases hut : t = u
    · subst hut; rw [getElem?_set_self' ht] at hu; cases hu; rw [hreq]; exact hq.1 t th ht
    · rw [getElem?_set_other hut] at hu; exact hq.1 u thu hu
  · intro u thu hu
    simp only [G.setThread, hth] at hu
    by_cases hut : t = u
    · subst hut; rw [getElem?_set_self' ht] at hu; cases hu; exact htaint
    · rw [getElem?_set_other hut] at hu; exact hq.2.2 u thu hu

theorem step_quiet {cfg : Config} {g g' : G} {t : Nat} (hq : QuietOK g) (hs : step cfg g t = some g') : QuietOK g' := by
  unfold step at hs
  cases ht : g.threads[t]? with
  | none => rw [ht] at hs; cases hs
  | some th =>
    rw [ht] at hs
    simp only at hs
    have hqt := hq.1 t th ht
    have htt := hq.2.2 t th ht
    cases hpc : th.pc with
    | start =>
      rw [hpc] at hs; simp only at hs
      split at hs
      · cases hs; exact quiet_setThread hq ht rfl hq.2.1 rfl htt
      · split at hs
        · cases hs; exact quiet_setThread hq ht rfl hq.2.1 rfl htt
        · split at hs
          · cases hs; exact quiet_setThread hq ht rfl hq.2.1 rfl htt
          · cases hs; exact quiet_setThread hq ht rfl hq.2.1 rfl htt
    | bypass x =>
      rw [hpc] at hs; simp only at hs
      cases hs; exact quiet_setThread hq ht rfl hq.2.1 rfl htt
    | wantLock1 =>
      rw [hpc] at hs; simp only at hs
      split at hs
      · cases hs
      · cases hs; exact quiet_setThread hq ht rfl hq.2.1 rfl htt
    | sec1 =>
      rw [hpc] at hs; simp only at hs
      have hnt : g.sh.dirty.contains (mkKey th.req) = false := by rw [hq.2.1]; rfl
      split at hs
      · cases hs; exact quiet_setThread hq ht rfl hq.2.1 rfl hnt
      · cases hs; exact quiet_setThread hq ht rfl hq.2.1 rfl hnt
      · rename_i sh' hsec
        cases hs
        exact quiet_setThread hq ht rfl (sec1_clean hqt.1 hq.2.1 hsec) rfl hnt
    | next =>
      rw [hpc] at hs; simp only at hs
      split at hs
      · cases hs; exact quiet_setThread hq ht rfl hq.2.1 rfl htt
      · cases hs; exact quiet_setThread hq ht rfl hq.2.1 rfl htt
    | afterNext =>
      rw [hpc] at hs; simp only at hs
      split at hs
      · cases hs; exact quiet_setThread hq ht rfl hq.2.1 rfl htt
      · cases hs; exact quiet_setThread hq ht rfl hq.2.1 rfl htt
    | wantLock2 =>
      rw [hpc] at hs; simp only at hs
      split at hs
      · cases hs
      · cases hs; exact quiet_setThread hq ht rfl hq.2.1 rfl htt
    | sec2 =>
      rw [hpc] at hs; simp only at hs
      split at hs
      · cases hs; exact quiet_setThread hq ht rfl hq.2.1 rfl htt
      · cases hs; exact quiet_setThread hq ht rfl hq.2.1 rfl htt
      · rename_i sh' hsec
        cases hs
        exact quiet_setThread hq ht rfl (sec2_clean hqt.2 hq.2.1 hsec) rfl htt
    | done => rw [hpc] at hs; cases hs
    | panicked => rw [hpc] at hs; cases hs

theorem run_quiet {cfg : Config} (evs : List Ev) {g : G} (hq : QuietOK g) : QuietOK (run cfg g evs) := by
  unfold run
  induction evs generalizing g with
  | nil => exact hq
  | cons e es ih =>
    apply ih
    cases e with
    | step t =>
      simp only [exec]
      cases hs : step cfg g t with
      | none => exact hq
      | some g' => exact step_quiet hq hs
    | tickTs d => exact hq
    | tickUts d => exact hq

theorem init_quiet (ts uts : Nat) (reqs : List Req) (h : ∀ q ∈ reqs, q.quiet) : QuietOK (G.init ts uts reqs) := by
  refine ⟨?_, rfl, ?_⟩
  · intro t th ht
    simp only [G.init, List.getElem?_map] at ht
    cases hq : reqs[t]? with
    | none => simp [hq] at ht
    | some q => simp [hq] at ht; subst ht; exact h q (List.mem_of_getElem? hq)
  · intro t th ht
    simp only [G.init, List.getElem?_map] at ht
    cases hq : reqs[t]? with
    | none => simp [hq] at ht
    | some q => simp [hq] at ht; subst ht; rfl

/-! ### no needless eviction -/

theorem totalBody_erase_of_lookup {s : Store} (hn : (s.map (·.1)).Nodup) {k : Key} {sl : Slot} (hl : s.lookup k = some sl) :
    totalBody (s.erase k) + sl.item.body.length = totalBody s := by
  unfold totalBody Store.erase
  induction s with
  | nil => simp [Store.lookup] at hl
  | cons a t ih =>
    rcases a with ⟨ak, asl⟩
    simp only [List.map_cons, List.nodup_cons] at hn
    by_cases hk : ak = k
    · subst hk
      simp [Store.lookup] at hl
      subst hl
      have hr : t.filter (fun p => p.1 != ak) = t := by
        apply List.filter_eq_self.mpr
        intro p hp
        have : p.1 ≠ ak := fun heq => hn.1 (List.mem_map.mpr ⟨p, hp, heq⟩)
        simpa using this
      simp [List.filter_cons, hr]
      omega
    · simp [Store.lookup, hk] at hl
      have := ih hn.2 hl
      simp [List.filter_cons, hk] at this ⊢
      omega

theorem not_mem_of_lookup_none : ∀ {s : Store} {k : Key}, s.lookup k = none → ∀ sl, (k, sl) ∉ s := by
  intro s
  induction s with
  | nil => intro k _ sl h; cases h
  | cons a t ih =>
    intro k hl sl hm
    rcases a with ⟨ak, asl⟩
    by_cases hk : ak = k
    · simp [Store.lookup, hk] at hl
    · simp [Store.lookup, hk] at hl
      rcases List.mem_cons.mp hm with h | h
      · cases h; exact hk rfl
      · exact ih hl sl h

theorem erase_of_lookup_none {s : Store} {k : Key} (hl : s.lookup k = none) : s.erase k = s := by
  unfold Store.erase
  apply List.filter_eq_self.mpr
  intro p hp
  have : p.1 ≠ k := by
    intro heq
    rcases p with ⟨pk, psl⟩
    simp only at heq
    subst heq
    exact not_mem_of_lookup_none hl psl hp
  simpa using this

/-- After `heap.removeKey(key)` the count is what the cache has stored under the other keys. -/
theorem dropTracked_stored {cfg : Config} (hmb : cfg.maxBytes < 2 ^ 63) (hpos : cfg.maxBytes > 0) {sh sh0 : Shared}
    (hi : ShInv cfg sh) (hd : sh.dirty = []) {key : Key} (h : dropTracked sh key = some sh0) :
    sh0.stored = totalBody (sh.store.erase key) := by
  have htot := stored_eq_total_of hi hpos hd
  have hstored_lt : sh.stored < U64 := by
    have := hi.bound hpos; have := U64_pos; omega
  unfold dropTracked at h
  rcases removeKey_ok hi.hinv hi.kinv key with ⟨hnone, hr⟩ | ⟨x, hfx, hkx, h', hr, _, _, _, _, hsum', _, _⟩
  · rw [hr] at h
    simp only [Option.some.injEq] at h
    subst h
    -- nothing tracked: nothing stored for the key
    have hl : sh.store.lookup key = none := by
      cases hl : sh.store.lookup key with
      | none => rfl
      | some sl =>
        rcases hi.tracked hpos hd key sl hl with ⟨e, he, hek, _⟩
        have := (hi.kinv key sl.item.heapidx).mpr ⟨e, he, hek⟩
        rw [hnone] at this; cases this
    show sh.stored = _
    rw [erase_of_lookup_none hl, htot]
  · rw [hr] at h
    simp only [Option.some.injEq] at h
    subst h
    show usub sh.stored x.bytes = _
    have hle : x.bytes ≤ sh.stored := by rw [hi.acc]; omega
    rw [usub_eq hle hstored_lt]
    -- the entry dropped is the one of the stored item
    rcases (find_some_iff hi.hinv _ _).mp hfx with ⟨_, p, hp⟩
    rcases hi.covered hd p x hp with ⟨sl, hsl⟩
    rw [hkx] at hsl
    rcases hi.tracked hpos hd key sl hsl with ⟨e, he, hek, heb⟩
    have h1 := (hi.kinv key sl.item.heapidx).mpr ⟨e, he, hek⟩
    have h2 := (hi.kinv key x.idx).mpr ⟨x, hfx, hkx⟩
    rw [h1] at h2
    injection h2 with h2
    rw [h2, hfx] at he
    injection he with he
    subst he
    have := totalBody_erase_of_lookup hi.nodup hsl
    omega

/-- "Accounting", the observable consequence: a request that stores a response which fits next to everything
    the cache has stored under other keys evicts nothing – the storage afterwards holds exactly what it held
    plus / with the new response (no failure outstanding, none in this section). -/
theorem sec2_no_needless_eviction {cfg : Config} (hmb : cfg.maxBytes < 2 ^ 63) (hpos : cfg.maxBytes > 0) {sh sh' : Shared}
    (hi : ShInv cfg sh) (hd : sh.dirty = []) {ts uts : Nat} {q : Req} {key : Key} (hq : FsQuiet q.f2)
    (hfit : totalBody (sh.store.erase key) + q.resp.body.length ≤ cfg.maxBytes)
    (h : sec2 cfg sh ts uts q key = .stored sh') :
    ∃ idx, sh'.store = sh.store.set key ⟨mkItem cfg q ts idx, storageExp cfg q uts⟩ := by
  unfold sec2 at h
  split at h
  · cases h
  · split at h
    · cases h
    · cases hdt : dropTracked sh key with
      | none => rw [hdt] at h; cases h
      | some sh0 =>
        rw [hdt] at h
        simp only at h
        have hs0 := dropTracked_stored hmb hpos hi hd hdt
        have hst0 := (dropTracked_frame hdt).1
        -- the loop condition is false at once
        have hev : evict cfg q.resp.body.length (sh0.heap.live.length + 1) q.f2 sh0 = some (sh0, q.f2) := by
          unfold evict
          have hlt : sh0.stored + q.resp.body.length < U64 := by rw [hs0]; have := U64_pos; omega
          rw [uadd_eq hlt, hs0]
          rw [if_neg (by omega)]
        rw [hev] at h
        simp only at h
        unfold sec2Store at h
        rw [if_pos hpos] at h
        cases hp : sh0.heap.put key (ts + expSecs cfg q) q.resp.body.length with
        | none => rw [hp] at h; cases h
        | some r =>
          rcases r with ⟨h', idx⟩
          rw [hp] at h
          simp only [Sec2.stored.injEq] at h
          subst h
          refine ⟨idx, ?_⟩
          have h2 : (cfg.ext && (faultAt q.f2 1).fails) = false := by rw [hq 1]; simp
          simp only [Shared.setKey, h2]
          rw [hst0]; rfl

end C14
