import FiberModel.C14.HeapLemmas
/-
C14 — lemmas about the handler model: the invariant of the state protected by `mux` is kept by both
critical sections, which therefore cannot panic.
-/
namespace C14
open B
set_option linter.unusedSimpArgs false

/-! ### uint arithmetic where it does not wrap -/

theorem uadd_eq {a b : Nat} (h : a + b < U64) : uadd a b = a + b := by
  unfold uadd; exact Nat.mod_eq_of_lt h

theorem usub_eq {a b : Nat} (hb : b ≤ a) (ha : a < U64) : usub a b = a - b := by
  unfold usub
  have hb' : b < U64 := by omega
  rw [Nat.mod_eq_of_lt hb']
  have : a + (U64 - b) = (a - b) + U64 := by omega
  rw [this, Nat.add_mod_right]
  exact Nat.mod_eq_of_lt (by omega)

theorem U64_pos : 2 ^ 63 + 2 ^ 63 = U64 := by unfold U64; decide

/-! ### storage -/

theorem lookup_erase (s : Store) (k k' : Key) :
    (Store.erase s k).lookup k' = if k' = k then none else s.lookup k' := by
  unfold Store.erase
  induction s with
  | nil => simp [Store.lookup]
  | cons p t ih =>
    rcases p with ⟨pk, psl⟩
    by_cases h1 : pk = k
    · subst h1
      by_cases h2 : k' = pk
      · subst h2; simp [Store.lookup, List.filter_cons] at ih ⊢; exact ih
      · have : ¬ pk = k' := fun h => h2 h.symm
        simp [Store.lookup, List.filter_cons, h2, this] at ih ⊢; exact ih
    · by_cases h2 : k' = k
      · subst h2
        simp [Store.lookup, List.filter_cons, h1] at ih ⊢; exact ih
      · by_cases h3 : pk = k'
        · simp [Store.lookup, List.filter_cons, h1, h2, h3]
        · simp [Store.lookup, List.filter_cons, h1, h2, h3] at ih ⊢; exact ih

theorem lookup_set (s : Store) (k k' : Key) (sl : Slot) :
    (Store.set s k sl).lookup k' = if k' = k then some sl else s.lookup k' := by
  by_cases h : k' = k
  · subst h; simp [Store.set, Store.lookup]
  · have h' : ¬ k = k' := fun e => h e.symm
    have := lookup_erase s k k'
    simp only [h, if_false] at this ⊢
    rw [← this]
    simp [Store.set, Store.lookup, h']

/-! ### the invariant of the state protected by `mux` -/

theorem nodup_erase {s : Store} (h : (s.map (·.1)).Nodup) (k : Key) : ((s.erase k).map (·.1)).Nodup := by
  unfold Store.erase
  exact List.Nodup.sublist (List.Sublist.map _ List.filter_sublist) h

theorem nodup_set {s : Store} (h : (s.map (·.1)).Nodup) (k : Key) (sl : Slot) : ((s.set k sl).map (·.1)).Nodup := by
  unfold Store.set
  simp only [List.map_cons, List.nodup_cons]
  refine ⟨?_, nodup_erase h k⟩
  intro hm
  rcases List.mem_map.mp hm with ⟨p, hp, hpk⟩
  unfold Store.erase at hp
  have := (List.mem_filter.mp hp).2
  simp [hpk] at this

structure ShInv (cfg : Config) (sh : Shared) : Prop where
  hinv : HInv sh.heap
  nodup : (sh.store.map (·.1)).Nodup
  acc : sh.stored = sumBytes sh.heap.live
  bound : cfg.maxBytes > 0 → sh.stored ≤ cfg.maxBytes
  unused : cfg.maxBytes = 0 → sh.heap = Heap.empty
  tracked : cfg.maxBytes > 0 → Tracked sh

theorem ShInv_empty (cfg : Config) : ShInv cfg Shared.empty :=
  ⟨HInv_empty, by simp [Shared.empty], rfl, fun _ => Nat.zero_le _, fun _ => rfl, fun _ k sl h => by simp [Shared.empty, Store.lookup] at h⟩

/-- removing the heap entry of one key and erasing that key keeps the other keys tracked -/
theorem tracked_after_remove {sh : Shared} (ht : Tracked sh) {h' : Heap} {x : HEntry} {k : Key}
    (hx : sh.heap.find x.idx = some x) (hk : x.key = k)
    (hfind : ∀ y, h'.find y = if y = x.idx then none else sh.heap.find y) :
    Tracked { store := sh.store.erase k, heap := h', stored := 0 } := by
  intro k' sl hl
  simp only at hl
  rw [lookup_erase] at hl
  by_cases hkk : k' = k
  · simp [hkk] at hl
  · simp only [hkk, if_false] at hl
    rcases ht k' sl hl with ⟨e, he, hek, heb⟩
    refine ⟨e, ?_, hek, heb⟩
    show h'.find sl.item.heapidx = some e
    rw [hfind]
    have : sl.item.heapidx ≠ x.idx := by
      intro heq
      rw [heq, hx] at he
      cases he
      exact hkk (hek.symm.trans hk)
    simp [this, he]

theorem Tracked_congr {a b : Shared} (hs : a.store = b.store) (hh : a.heap = b.heap) (h : Tracked a) : Tracked b := by
  intro k sl hl; rw [← hs] at hl; rw [← hh]; exact h k sl hl

/-- erasing a key (without touching the heap) keeps everything tracked -/
theorem tracked_erase {sh : Shared} (ht : Tracked sh) (k : Key) :
    Tracked { sh with store := sh.store.erase k } := by
  intro k' sl hl
  simp only at hl
  rw [lookup_erase] at hl
  by_cases hkk : k' = k
  · simp [hkk] at hl
  · simp only [hkk, if_false] at hl
    exact ht k' sl hl

/-! ### first critical section -/

theorem sec1Expire_ok {cfg : Config} (hmb : cfg.maxBytes < 2 ^ 63) {sh : Shared} (hi : ShInv cfg sh)
    (key : Key) (heapidx : Nat) :
    ∃ sh', sec1Expire cfg sh key heapidx = .pass sh' ∧ ShInv cfg sh' := by
  unfold sec1Expire
  simp only
  by_cases hmbp : cfg.maxBytes > 0
  · rw [if_pos hmbp]
    have hstored_lt : sh.stored < U64 := by
      have := hi.bound hmbp; have := U64_pos; omega
    rcases remove_ok hi.hinv heapidx key with ⟨x, hfx, hkx, h', hr, hinv', _, hfind', hsum', _⟩ | ⟨_, hr⟩
    · simp only [Shared.deleteKey]
      rw [hr]
      simp only
      have hle : x.bytes ≤ sh.stored := by rw [hi.acc]; omega
      refine ⟨_, rfl, hinv', nodup_erase hi.nodup key, ?_, ?_, ?_, ?_⟩
      · show usub sh.stored x.bytes = sumBytes h'.live
        rw [usub_eq hle hstored_lt, hi.acc]; omega
      · intro _
        show usub sh.stored x.bytes ≤ cfg.maxBytes
        rw [usub_eq hle hstored_lt]; have := hi.bound hmbp; omega
      · intro h0; omega
      · intro _
        have hxi : x.idx = heapidx := ((find_some_iff hi.hinv _ _).mp hfx).1
        have := tracked_after_remove (hi.tracked hmbp) (x := x) (k := key) (h' := h') (by rw [hxi]; exact hfx) hkx
          (by intro y; rw [hxi]; exact hfind' y)
        exact Tracked_congr rfl rfl this
    · simp only [Shared.deleteKey]
      rw [hr]
      simp only
      refine ⟨_, rfl, hi.hinv, nodup_erase hi.nodup key, hi.acc, hi.bound, hi.unused, ?_⟩
      intro hp
      exact tracked_erase (hi.tracked hp) key
  · rw [if_neg hmbp]
    refine ⟨_, rfl, hi.hinv, nodup_erase hi.nodup key, hi.acc, hi.bound, hi.unused, ?_⟩
    intro hp; exact absurd hp hmbp

theorem sec1Found_ok {cfg : Config} (hmb : cfg.maxBytes < 2 ^ 63) {sh : Shared} (hi : ShInv cfg sh)
    (ts : Nat) (q : Req) (key : Key) (e : Item) :
    (sec1Found cfg sh ts q key e = .hit (replay cfg e ts) ∧ itemExpired e ts = false ∧ e.exp ≠ 0 ∧
        hasDirective q.cc Facts.noCache = false) ∨
    (∃ sh', sec1Found cfg sh ts q key e = .pass sh' ∧ ShInv cfg sh') := by
  unfold sec1Found
  by_cases hexp : itemExpired e ts = true
  · rw [if_pos hexp]; right; exact sec1Expire_ok hmb hi key e.heapidx
  · rw [if_neg hexp]
    by_cases hhit : (e.exp != 0 && !hasDirective q.cc Facts.noCache) = true
    · rw [if_pos hhit]; left
      have : e.exp ≠ 0 ∧ hasDirective q.cc Facts.noCache = false := by simpa using hhit
      exact ⟨rfl, by simpa using hexp, this.1, this.2⟩
    · rw [if_neg hhit]; right; exact ⟨sh, rfl, hi⟩

theorem sec1_ok {cfg : Config} (hmb : cfg.maxBytes < 2 ^ 63) {sh : Shared} (hi : ShInv cfg sh)
    (ts uts : Nat) (q : Req) (key : Key) :
    (∃ o, sec1 cfg sh ts uts q key = .hit o) ∨ (∃ sh', sec1 cfg sh ts uts q key = .pass sh' ∧ ShInv cfg sh') := by
  unfold sec1
  cases lookup1 cfg sh uts key with
  | none => right; exact ⟨sh, rfl, hi⟩
  | some e =>
    simp only
    rcases sec1Found_ok hmb hi ts q key (applyInv q ts e) with ⟨h, _⟩ | h
    · left; exact ⟨_, h⟩
    · right; exact h

/-! ### what the sections do to the storage contents -/

def StoreSub (a b : Store) : Prop := ∀ k sl, a.lookup k = some sl → b.lookup k = some sl

theorem StoreSub.refl (a : Store) : StoreSub a a := fun _ _ h => h
theorem StoreSub.trans {a b c : Store} (h1 : StoreSub a b) (h2 : StoreSub b c) : StoreSub a c :=
  fun k sl h => h2 k sl (h1 k sl h)

theorem storeSub_erase (s : Store) (k : Key) : StoreSub (s.erase k) s := by
  intro k' sl h
  rw [lookup_erase] at h
  by_cases hk : k' = k
  · simp [hk] at h
  · simpa [hk] using h

theorem sec1Expire_sub {cfg : Config} {sh sh' : Shared} {key : Key} {heapidx : Nat}
    (h : sec1Expire cfg sh key heapidx = .pass sh') : StoreSub sh'.store sh.store := by
  unfold sec1Expire at h
  simp only at h
  by_cases hp : cfg.maxBytes > 0
  · rw [if_pos hp] at h
    cases hr : (sh.deleteKey key).heap.remove heapidx key with
    | none => rw [hr] at h; cases h
    | some r =>
      rcases r with ⟨h', _ | sz⟩
      · rw [hr] at h; simp only [Sec1.pass.injEq] at h; subst h; exact storeSub_erase _ _
      · rw [hr] at h; simp only [Sec1.pass.injEq] at h; subst h; exact storeSub_erase _ _
  · rw [if_neg hp] at h
    simp only [Sec1.pass.injEq] at h; subst h; exact storeSub_erase _ _

theorem sec1_sub {cfg : Config} {sh sh' : Shared} {ts uts : Nat} {q : Req} {key : Key}
    (h : sec1 cfg sh ts uts q key = .pass sh') : StoreSub sh'.store sh.store := by
  unfold sec1 at h
  cases hl : lookup1 cfg sh uts key with
  | none => rw [hl] at h; simp only [Sec1.pass.injEq] at h; subst h; exact StoreSub.refl _
  | some e =>
    rw [hl] at h
    simp only at h
    unfold sec1Found at h
    by_cases hexp : itemExpired (applyInv q ts e) ts = true
    · rw [if_pos hexp] at h; exact sec1Expire_sub h
    · rw [if_neg hexp] at h
      by_cases hhit : ((applyInv q ts e).exp != 0 && !hasDirective q.cc Facts.noCache) = true
      · rw [if_pos hhit] at h; cases h
      · rw [if_neg hhit] at h; simp only [Sec1.pass.injEq] at h; subst h; exact StoreSub.refl _

/-- a hit replays an item the storage holds for this key, unexpired on the cache's clock, and the
    request neither invalidates nor carries `no-cache` -/
theorem sec1_hit {cfg : Config} {sh : Shared} {ts uts : Nat} {q : Req} {key : Key} {o : Out}
    (h : sec1 cfg sh ts uts q key = .hit o) :
    ∃ sl, sh.store.lookup key = some sl ∧ sl.expired uts = false ∧ o = replay cfg sl.item ts ∧ q.inv = false ∧
      hasDirective q.cc Facts.noCache = false ∧ ts < sl.item.exp := by
  unfold sec1 at h
  cases hl : lookup1 cfg sh uts key with
  | none => rw [hl] at h; cases h
  | some e =>
    rw [hl] at h
    simp only at h
    unfold sec1Found at h
    by_cases hexp : itemExpired (applyInv q ts e) ts = true
    · rw [if_pos hexp] at h
      -- the expiry branch never yields a hit
      unfold sec1Expire at h
      simp only at h
      by_cases hp : cfg.maxBytes > 0
      · rw [if_pos hp] at h
        cases hr : (sh.deleteKey key).heap.remove (applyInv q ts e).heapidx key with
        | none => rw [hr] at h; cases h
        | some r => rcases r with ⟨h', _ | sz⟩ <;> (rw [hr] at h; cases h)
      · rw [if_neg hp] at h; cases h
    · rw [if_neg hexp] at h
      by_cases hhit : ((applyInv q ts e).exp != 0 && !hasDirective q.cc Facts.noCache) = true
      · rw [if_pos hhit] at h
        simp only [Sec1.hit.injEq] at h
        have hh : (applyInv q ts e).exp ≠ 0 ∧ hasDirective q.cc Facts.noCache = false := by simpa using hhit
        have hne : ¬ (ts ≥ (applyInv q ts e).exp) := by
          intro hge; apply hexp; simp [itemExpired, hh.1, hge]
        -- the invalidator did not fire
        have hinv : q.inv = false := by
          cases hq : q.inv with
          | false => rfl
          | true =>
            simp [applyInv, hq] at hne hh
            all_goals omega
        have he : applyInv q ts e = e := by simp [applyInv, hinv]
        rw [he] at h hh hne
        -- the item comes from the storage (a blank item has exp = 0)
        unfold lookup1 at hl
        cases hg : sh.store.get key uts with
        | none =>
          rw [hg] at hl
          by_cases hx : cfg.ext = true
          · simp [hx] at hl; subst hl; simp [blankItem] at hh
          · simp [hx] at hl
        | some it =>
          rw [hg] at hl
          simp only [Option.some.injEq] at hl
          subst hl
          unfold Store.get at hg
          cases hlk : sh.store.lookup key with
          | none => rw [hlk] at hg; cases hg
          | some sl =>
            rw [hlk] at hg
            simp only at hg
            by_cases hse : sl.expired uts = true
            · rw [if_pos hse] at hg; cases hg
            · rw [if_neg hse] at hg
              simp only [Option.some.injEq] at hg
              subst hg
              exact ⟨sl, rfl, by simpa using hse, h.symm, hinv, hh.2, by omega⟩
      · rw [if_neg hhit] at h; cases h

theorem evict_sub {mb body : Nat} : ∀ (f : Nat) {sh sh' : Shared}, evict mb body f sh = some sh' →
    StoreSub sh'.store sh.store := by
  intro f
  induction f with
  | zero => intro sh sh' h; simp [evict] at h
  | succ f ih =>
    intro sh sh' h
    unfold evict at h
    by_cases hgt : uadd sh.stored body > mb
    · rw [if_pos hgt] at h
      cases hr : sh.heap.removeFirst with
      | none => rw [hr] at h; cases h
      | some r =>
        rcases r with ⟨h', x⟩
        rw [hr] at h
        simp only at h
        exact (ih h).trans (storeSub_erase _ _)
    · rw [if_neg hgt] at h
      simp only [Option.some.injEq] at h; subst h; exact StoreSub.refl _

/-! ### second critical section -/

theorem sumBytes_pos_ne_nil {l : List HEntry} (h : 0 < sumBytes l) : l ≠ [] := by
  intro hl; subst hl; simp [sumBytes] at h

theorem evict_ok {cfg : Config} (hmb : cfg.maxBytes < 2 ^ 63) (hpos : cfg.maxBytes > 0) (body : Nat)
    (hbody : body ≤ cfg.maxBytes) :
    ∀ (f : Nat) {sh : Shared}, ShInv cfg sh → sh.heap.live.length < f →
      ∃ sh', evict cfg.maxBytes body f sh = some sh' ∧ ShInv cfg sh' ∧ sh'.stored + body ≤ cfg.maxBytes := by
  intro f
  induction f with
  | zero => intro sh _ h; omega
  | succ f ih =>
    intro sh hi hlen
    unfold evict
    have hb := hi.bound hpos
    have hlt : sh.stored + body < U64 := by have := U64_pos; omega
    rw [uadd_eq hlt]
    by_cases hgt : sh.stored + body > cfg.maxBytes
    · rw [if_pos hgt]
      have hne : sh.heap.live ≠ [] := sumBytes_pos_ne_nil (by rw [← hi.acc]; omega)
      rcases removeFirst_ok hi.hinv hne with ⟨h', x, hr, hxm, hinv', _, hfind', hsum', hlen'⟩
      rw [hr]
      simp only
      have hle : x.bytes ≤ sh.stored := by rw [hi.acc]; omega
      have hsl : sh.stored < U64 := by have := U64_pos; omega
      have hfx : sh.heap.find x.idx = some x := by
        rw [find_some_iff hi.hinv]
        exact ⟨rfl, List.mem_iff_getElem?.mp hxm⟩
      apply ih
      · refine ⟨hinv', nodup_erase hi.nodup x.key, ?_, ?_, ?_, ?_⟩
        · show usub sh.stored x.bytes = sumBytes h'.live
          rw [usub_eq hle hsl, hi.acc]; omega
        · intro _
          show usub sh.stored x.bytes ≤ cfg.maxBytes
          rw [usub_eq hle hsl]; omega
        · intro h0; omega
        · intro _
          exact Tracked_congr rfl rfl (tracked_after_remove (hi.tracked hpos) hfx rfl hfind')
      · show h'.live.length < f
        omega
    · rw [if_neg hgt]
      exact ⟨sh, rfl, hi, by omega⟩

theorem sec2Store_ok {cfg : Config} (hmb : cfg.maxBytes < 2 ^ 63) {sh : Shared} (hi : ShInv cfg sh)
    (ts uts : Nat) (q : Req) (key : Key)
    (hroom : cfg.maxBytes > 0 → sh.stored + q.resp.body.length ≤ cfg.maxBytes) :
    ∃ sh' idx, sec2Store cfg sh ts uts q key = .stored sh' ∧ ShInv cfg sh' ∧
      sh'.store = sh.store.set key ⟨mkItem cfg q ts idx, storageExp cfg q uts⟩ := by
  unfold sec2Store
  by_cases hpos : cfg.maxBytes > 0
  · rw [if_pos hpos]
    rcases put_ok hi.hinv key (ts + expSecs cfg q) q.resp.body.length with ⟨h', idx, hp, hinv', hfresh, hfind', hsum', _⟩
    rw [hp]
    simp only
    have hr := hroom hpos
    have hlt : sh.stored + q.resp.body.length < U64 := by have := U64_pos; omega
    refine ⟨_, idx, rfl, ⟨hinv', nodup_set hi.nodup _ _, ?_, ?_, ?_, ?_⟩, rfl⟩
    · show uadd sh.stored q.resp.body.length = sumBytes h'.live
      rw [uadd_eq hlt, hsum', hi.acc]
    · intro _
      show uadd sh.stored q.resp.body.length ≤ cfg.maxBytes
      rw [uadd_eq hlt]; exact hr
    · intro h0; omega
    · intro _ k sl hl
      simp only at hl
      rw [lookup_set] at hl
      by_cases hk : k = key
      · simp only [hk, if_true] at hl
        cases hl
        refine ⟨⟨key, ts + expSecs cfg q, q.resp.body.length, idx⟩, ?_, hk.symm, rfl⟩
        show h'.find (mkItem cfg q ts idx).heapidx = _
        rw [hfind']; simp [mkItem]
      · simp only [hk, if_false] at hl
        rcases hi.tracked hpos k sl hl with ⟨e, he, hek, heb⟩
        refine ⟨e, ?_, hek, heb⟩
        show h'.find sl.item.heapidx = some e
        rw [hfind']
        have : sl.item.heapidx ≠ idx := by
          intro heq; rw [heq, hfresh] at he; cases he
        simp [this, he]
  · rw [if_neg hpos]
    refine ⟨_, 0, rfl, ⟨hi.hinv, nodup_set hi.nodup _ _, hi.acc, hi.bound, hi.unused, ?_⟩, rfl⟩
    intro hp; exact absurd hp hpos

inductive Sec2Res (cfg : Config) (sh : Shared) (ts uts : Nat) (q : Req) (key : Key) : Sec2 → Prop
  | unreachable : Sec2Res cfg sh ts uts q key .unreachable
  | stored (sh' : Shared) (idx : Nat) (mid : Shared) : ShInv cfg sh' →
      sh'.store = mid.store.set key ⟨mkItem cfg q ts idx, storageExp cfg q uts⟩ →
      (∀ k sl, mid.store.lookup k = some sl → sh.store.lookup k = some sl) →
      q.skip = false → Sec2Res cfg sh ts uts q key (.stored sh')

theorem sec2_ok {cfg : Config} (hmb : cfg.maxBytes < 2 ^ 63) {sh : Shared} (hi : ShInv cfg sh)
    (ts uts : Nat) (q : Req) (key : Key) : Sec2Res cfg sh ts uts q key (sec2 cfg sh ts uts q key) := by
  unfold sec2
  by_cases hskip : q.skip = true
  · rw [if_pos hskip]; exact .unreachable
  · rw [if_neg hskip]
    have hskip' : q.skip = false := by simpa using hskip
    by_cases hbig : (decide (cfg.maxBytes > 0) && decide (q.resp.body.length > cfg.maxBytes)) = true
    · rw [if_pos hbig]; exact .unreachable
    · rw [if_neg hbig]
      by_cases hpos : cfg.maxBytes > 0
      · rw [if_pos hpos]
        have hbody : q.resp.body.length ≤ cfg.maxBytes := by
          simp [hpos] at hbig; exact hbig
        rcases evict_ok hmb hpos _ hbody (sh.heap.live.length + 1) hi (Nat.lt_succ_self _) with ⟨sh1, he, hi1, hroom⟩
        rw [he]
        simp only
        rcases sec2Store_ok hmb hi1 ts uts q key (fun _ => hroom) with ⟨sh', idx, hs, hi', hst⟩
        rw [hs]
        exact .stored sh' idx sh1 hi' hst (evict_sub _ he) hskip'
      · rw [if_neg hpos]
        rcases sec2Store_ok hmb hi ts uts q key (fun h => absurd h hpos) with ⟨sh', idx, hs, hi', hst⟩
        rw [hs]
        exact .stored sh' idx sh hi' hst (fun _ _ h => h) hskip'


/-! ### the storage never holds more bytes than the heap accounts for -/

def sumIf (l : List HEntry) (p : HEntry → Bool) : Nat := sumBytes (l.filter p)

theorem sumIf_le (l : List HEntry) (p : HEntry → Bool) : sumIf l p ≤ sumBytes l := by
  unfold sumIf
  induction l with
  | nil => simp [sumBytes]
  | cons a t ih =>
    by_cases h : p a = true
    · simp [List.filter_cons, h, sumBytes_cons]; exact ih
    · simp [List.filter_cons, h, sumBytes_cons]; omega

theorem mem_le_sumIf (l : List HEntry) (p : HEntry → Bool) (e : HEntry) (he : e ∈ l) (hp : p e = true) :
    e.bytes ≤ sumIf l p := by
  unfold sumIf
  induction l with
  | nil => cases he
  | cons a t ih =>
    rcases List.mem_cons.mp he with h | h
    · subst h; simp [List.filter_cons, hp, sumBytes_cons]
    · have := ih h
      by_cases hpa : p a = true
      · simp [List.filter_cons, hpa, sumBytes_cons]; omega
      · simp [List.filter_cons, hpa]; exact this

theorem sumIf_or (l : List HEntry) (p q : HEntry → Bool) (hd : ∀ e, ¬ (p e = true ∧ q e = true)) :
    sumIf l (fun e => p e || q e) = sumIf l p + sumIf l q := by
  unfold sumIf
  induction l with
  | nil => simp [sumBytes]
  | cons a t ih =>
    have := hd a
    cases hp : p a <;> cases hq : q a <;> simp [List.filter_cons, hp, hq, sumBytes_cons] at this ⊢ <;> omega

def totalBody (s : Store) : Nat := (s.map fun p => p.2.item.body.length).sum

theorem held_le_total (s : Store) (uts : Nat) : s.held uts ≤ totalBody s := by
  unfold Store.held totalBody
  induction s with
  | nil => simp
  | cons a t ih =>
    by_cases h : (!a.2.expired uts) = true
    · simp [List.filter_cons, h]; omega
    · simp [List.filter_cons, h]; omega

theorem lookup_of_mem {s : Store} (hn : (s.map (·.1)).Nodup) {k : Key} {sl : Slot} (hm : (k, sl) ∈ s) :
    s.lookup k = some sl := by
  induction s with
  | nil => cases hm
  | cons a t ih =>
    rcases a with ⟨ak, asl⟩
    simp only [List.map_cons, List.nodup_cons] at hn
    rcases List.mem_cons.mp hm with h | h
    · cases h; simp [Store.lookup]
    · have hne : ¬ ak = k := by
        intro heq; subst heq
        exact hn.1 (List.mem_map.mpr ⟨(ak, sl), h, rfl⟩)
      simp [Store.lookup, hne]; exact ih hn.2 h

/-- every pair in `s` is backed by a live entry of its key and size → Σ body sizes ≤ Σ entry sizes -/
theorem total_le_sumIf (live : List HEntry) :
    ∀ (s : Store), (s.map (·.1)).Nodup →
      (∀ k sl, (k, sl) ∈ s → ∃ e, e ∈ live ∧ e.key = k ∧ e.bytes = sl.item.body.length) →
      totalBody s ≤ sumIf live (fun e => (s.map (·.1)).contains e.key) := by
  intro s
  induction s with
  | nil => intro _ _; simp [totalBody]
  | cons a t ih =>
    intro hn hb
    rcases a with ⟨ak, asl⟩
    simp only [List.map_cons, List.nodup_cons] at hn
    have ht := ih hn.2 (fun k sl hm => hb k sl (List.mem_cons_of_mem _ hm))
    rcases hb ak asl (by simp) with ⟨e, hel, hek, heb⟩
    have h1 : sumIf live (fun e => ((ak, asl) :: t).map (·.1) |>.contains e.key) =
        sumIf live (fun e => (e.key == ak) || (t.map (·.1)).contains e.key) := by
      congr 1
    rw [h1, sumIf_or live (fun e => e.key == ak) (fun e => (t.map (·.1)).contains e.key)]
    · have h2 := mem_le_sumIf live (fun e => e.key == ak) e hel (by simp [hek])
      simp only [totalBody, List.map_cons, List.sum_cons] at ht ⊢
      omega
    · intro e' ⟨ha, hb'⟩
      have : e'.key = ak := by simpa using ha
      rw [this] at hb'
      exact hn.1 (by simpa using hb')

theorem held_le_stored_of {cfg : Config} {sh : Shared} (hi : ShInv cfg sh) (hpos : cfg.maxBytes > 0) (uts : Nat) :
    sh.store.held uts ≤ sh.stored := by
  have ht := hi.tracked hpos
  have h1 := held_le_total sh.store uts
  have h2 := total_le_sumIf sh.heap.live sh.store hi.nodup (by
    intro k sl hm
    rcases ht k sl (lookup_of_mem hi.nodup hm) with ⟨e, he, hek, heb⟩
    rcases (find_some_iff hi.hinv _ _).mp he with ⟨_, p, hp⟩
    exact ⟨e, List.mem_of_getElem? hp, hek, heb⟩)
  have h3 := sumIf_le sh.heap.live (fun e => (sh.store.map (·.1)).contains e.key)
  rw [hi.acc]; omega

/-! ### invalidation and expiry erase the entry -/

theorem sec1Expire_erases {cfg : Config} {sh sh' : Shared} {key : Key} {heapidx : Nat}
    (h : sec1Expire cfg sh key heapidx = .pass sh') : sh'.store.lookup key = none := by
  have he : (sh.store.erase key).lookup key = none := by rw [lookup_erase]; simp
  unfold sec1Expire at h
  simp only at h
  by_cases hp : cfg.maxBytes > 0
  · rw [if_pos hp] at h
    cases hr : (sh.deleteKey key).heap.remove heapidx key with
    | none => rw [hr] at h; cases h
    | some r =>
      rcases r with ⟨h', _ | sz⟩
      · rw [hr] at h; simp only [Sec1.pass.injEq] at h; subst h; exact he
      · rw [hr] at h; simp only [Sec1.pass.injEq] at h; subst h; exact he
  · rw [if_neg hp] at h
    simp only [Sec1.pass.injEq] at h; subst h; exact he

/-- a request for which the invalidator fires, and which finds an entry, leaves none behind -/
theorem sec1_invalidates {cfg : Config} {sh : Shared} {ts uts : Nat} {q : Req} {key : Key}
    (hinv : q.inv = true) (hts : ts ≥ 2) (hfound : lookup1 cfg sh uts key ≠ none) :
    ∀ r, sec1 cfg sh ts uts q key = r → (∃ sh', r = .pass sh' ∧ sh'.store.lookup key = none) ∨ r = .panic := by
  intro r hr
  unfold sec1 at hr
  cases hl : lookup1 cfg sh uts key with
  | none => exact absurd hl hfound
  | some e =>
    rw [hl] at hr
    simp only at hr
    unfold sec1Found at hr
    have hexp : itemExpired (applyInv q ts e) ts = true := by
      simp [itemExpired, applyInv, hinv]; omega
    rw [if_pos hexp] at hr
    cases hx : sec1Expire cfg sh key (applyInv q ts e).heapidx with
    | panic => right; rw [← hr, hx]
    | hit o =>
      -- the expiry branch never produces a hit
      exfalso
      unfold sec1Expire at hx
      simp only at hx
      by_cases hp : cfg.maxBytes > 0
      · rw [if_pos hp] at hx
        cases hrm : (sh.deleteKey key).heap.remove (applyInv q ts e).heapidx key with
        | none => rw [hrm] at hx; cases hx
        | some r' => rcases r' with ⟨h', _ | sz⟩ <;> (rw [hrm] at hx; cases hx)
      · rw [if_neg hp] at hx; cases hx
    | pass sh' => left; exact ⟨sh', by rw [← hr, hx], sec1Expire_erases hx⟩

/-- an entry found expired on the cache's clock is erased as well -/
theorem sec1_expired_erases {cfg : Config} {sh sh' : Shared} {ts uts : Nat} {q : Req} {key : Key} {e : Item}
    (hl : lookup1 cfg sh uts key = some e) (hexp : itemExpired (applyInv q ts e) ts = true)
    (h : sec1 cfg sh ts uts q key = .pass sh') : sh'.store.lookup key = none := by
  unfold sec1 at h
  rw [hl] at h
  simp only at h
  unfold sec1Found at h
  rw [if_pos hexp] at h
  exact sec1Expire_erases h

end C14
