import FiberModel.C14.HeapLemmas
/-
C14 — lemmas about the handler model: the invariant of the state protected by `mux` is kept by both
critical sections under every outcome of the storage calls, so they cannot panic; for the keys whose
`Set`/`Delete` calls all went through, entry, body and heap entry stay in step.
-/
namespace C14
open B
set_option linter.unusedSimpArgs false

/-! ### uint arithmetic where it does not wrap -/

theorem uadd_eq {a b : Nat} (h : a + b < U64) : uadd a b = a + b := by
  unfold uadd; exact Nat.mod_eq_of_lt h

theorem usub_eq {a b : Nat} (hb : b ≤ a) (ha : a < U64) : usub a b = a - b := by
  unfold usub
  have hb' : b < U64 := by omega
  rw [Nat.mod_eq_of_lt hb']
  have : a + (U64 - b) = (a - b) + U64 := by omega
  rw [this, Nat.add_mod_right]
  exact Nat.mod_eq_of_lt (by omega)

theorem U64_pos : 2 ^ 63 + 2 ^ 63 = U64 := by unfold U64; decide

/-! ### storage -/

theorem lookup_erase (s : Store) (k k' : Key) :
    (Store.erase s k).lookup k' = if k' = k then none else s.lookup k' := by
  unfold Store.erase
  induction s with
  | nil => simp [Store.lookup]
  | cons p t ih =>
    rcases p with ⟨pk, psl⟩
    by_cases h1 : pk = k
    · subst h1
      by_cases h2 : k' = pk
      · subst h2; simp [Store.lookup, List.filter_cons] at ih ⊢; exact ih
      · have : ¬ pk = k' := fun h => h2 h.symm
        simp [Store.lookup, List.filter_cons, h2, this] at ih ⊢; exact ih
    · by_cases h2 : k' = k
      · subst h2
        simp [Store.lookup, List.filter_cons, h1] at ih ⊢; exact ih
      · by_cases h3 : pk = k'
        · simp [Store.lookup, List.filter_cons, h1, h2, h3]
        · simp [Store.lookup, List.filter_cons, h1, h2, h3] at ih ⊢; exact ih

theorem lookup_set (s : Store) (k k' : Key) (sl : Slot) :
    (Store.set s k sl).lookup k' = if k' = k then some sl else s.lookup k' := by
  by_cases h : k' = k
  · subst h; simp [Store.set, Store.lookup]
  · have h' : ¬ k = k' := fun e => h e.symm
    have := lookup_erase s k k'
    simp only [h, if_false] at this ⊢
    rw [← this]
    simp [Store.set, Store.lookup, h']

theorem blookup_erase (s : BStore) (k k' : Key) :
    (BStore.erase s k).lookup k' = if k' = k then none else s.lookup k' := by
  unfold BStore.erase
  induction s with
  | nil => simp [BStore.lookup]
  | cons p t ih =>
    rcases p with ⟨pk, psl⟩
    by_cases h1 : pk = k
    · subst h1
      by_cases h2 : k' = pk
      · subst h2; simp [BStore.lookup, List.filter_cons] at ih ⊢; exact ih
      · have : ¬ pk = k' := fun h => h2 h.symm
        simp [BStore.lookup, List.filter_cons, h2, this] at ih ⊢; exact ih
    · by_cases h2 : k' = k
      · subst h2
        simp [BStore.lookup, List.filter_cons, h1] at ih ⊢; exact ih
      · by_cases h3 : pk = k'
        · simp [BStore.lookup, List.filter_cons, h1, h2, h3]
        · simp [BStore.lookup, List.filter_cons, h1, h2, h3] at ih ⊢; exact ih

theorem blookup_set (s : BStore) (k k' : Key) (sl : BSlot) :
    (BStore.set s k sl).lookup k' = if k' = k then some sl else s.lookup k' := by
  by_cases h : k' = k
  · subst h; simp [BStore.set, BStore.lookup]
  · have h' : ¬ k = k' := fun e => h e.symm
    have := blookup_erase s k k'
    simp only [h, if_false] at this ⊢
    rw [← this]
    simp [BStore.set, BStore.lookup, h']

theorem nodup_erase {s : Store} (h : (s.map (·.1)).Nodup) (k : Key) : ((s.erase k).map (·.1)).Nodup := by
  unfold Store.erase
  exact List.Nodup.sublist (List.Sublist.map _ List.filter_sublist) h

theorem nodup_set {s : Store} (h : (s.map (·.1)).Nodup) (k : Key) (sl : Slot) : ((s.set k sl).map (·.1)).Nodup := by
  unfold Store.set
  simp only [List.map_cons, List.nodup_cons]
  refine ⟨?_, nodup_erase h k⟩
  intro hm
  rcases List.mem_map.mp hm with ⟨p, hp, hpk⟩
  unfold Store.erase at hp
  have := (List.mem_filter.mp hp).2
  simp [hpk] at this

theorem bnodup_erase {s : BStore} (h : (s.map (·.1)).Nodup) (k : Key) : ((s.erase k).map (·.1)).Nodup := by
  unfold BStore.erase
  exact List.Nodup.sublist (List.Sublist.map _ List.filter_sublist) h

theorem bnodup_set {s : BStore} (h : (s.map (·.1)).Nodup) (k : Key) (sl : BSlot) : ((s.set k sl).map (·.1)).Nodup := by
  unfold BStore.set
  simp only [List.map_cons, List.nodup_cons]
  refine ⟨?_, bnodup_erase h k⟩
  intro hm
  rcases List.mem_map.mp hm with ⟨p, hp, hpk⟩
  unfold BStore.erase at hp
  have := (List.mem_filter.mp hp).2
  simp [hpk] at this

theorem mem_markDirty (d : List Key) (k k' : Key) (failed : Bool) :
    k' ∈ markDirty d k failed ↔ (k' = k ∧ failed = true) ∨ (k' ≠ k ∧ k' ∈ d) := by
  unfold markDirty
  cases failed <;> simp [List.mem_filter]
  · constructor
    · rintro ⟨a, b⟩; exact ⟨b, a⟩
    · rintro ⟨a, b⟩; exact ⟨b, a⟩
  · constructor
    · rintro (h | ⟨a, b⟩)
      · exact Or.inl h
      · exact Or.inr ⟨b, a⟩
    · rintro (h | ⟨a, b⟩)
      · exact Or.inl h
      · exact Or.inr ⟨b, a⟩

/-! ### what the sections do to the storage contents -/

def StoreSub (a b : Store) : Prop := ∀ k sl, a.lookup k = some sl → b.lookup k = some sl

theorem StoreSub.refl (a : Store) : StoreSub a a := fun _ _ h => h
theorem StoreSub.trans {a b c : Store} (h1 : StoreSub a b) (h2 : StoreSub b c) : StoreSub a c :=
  fun k sl h => h2 k sl (h1 k sl h)

theorem storeSub_erase (s : Store) (k : Key) : StoreSub (s.erase k) s := by
  intro k' sl h
  rw [lookup_erase] at h
  by_cases hk : k' = k
  · simp [hk] at h
  · simpa [hk] using h

theorem deleteKey_sub (cfg : Config) (sh : Shared) (k : Key) (d1 d2 : Fault) :
    StoreSub (sh.deleteKey cfg k d1 d2).store sh.store := by
  unfold Shared.deleteKey
  simp only
  split
  · exact StoreSub.refl _
  · exact storeSub_erase _ _

/-! ### the invariant of the state protected by `mux` -/

/-- the stored item of `k` is tracked by a live heap entry of its key and size -/
def TrackedK (sh : Shared) (k : Key) : Prop :=
  ∀ sl, sh.store.lookup k = some sl →
    ∃ e, sh.heap.find sl.item.heapidx = some e ∧ e.key = k ∧ e.bytes = sl.item.body.length

/-- a live heap entry of `k` tracks something the cache has stored for `k` -/
def CoveredK (sh : Shared) (k : Key) : Prop :=
  ∀ (p : Nat) (e : HEntry), sh.heap.live[p]? = some e → e.key = k → ∃ sl, sh.store.lookup k = some sl

/-- entry and separately stored body of `k` belong together (same body, same storage expiry) -/
def SyncK (sh : Shared) (k : Key) : Prop :=
  sh.bodies.lookup k = (sh.store.lookup k).map fun sl => ⟨sl.item.body, sl.sexp⟩

def CleanK (cfg : Config) (sh : Shared) (k : Key) : Prop :=
  (cfg.maxBytes > 0 → TrackedK sh k) ∧ CoveredK sh k ∧ SyncK sh k

/-- The invariant. The heap, its key map and the count are consistent whatever the storage does; entry,
    body and heap entry of a key are in step unless a `Set`/`Delete` of that key failed and has not been
    made good (`dirty`). `H`: keys whose heap entry the running section has already dropped while their
    entry is still stored (closed again by the `Delete`s / `Set`s that follow). -/
structure ShInvX (cfg : Config) (sh : Shared) (H : Key → Prop) : Prop where
  hinv : HInv sh.heap
  kinv : KInv sh.heap
  nodup : (sh.store.map (·.1)).Nodup
  bnodup : (sh.bodies.map (·.1)).Nodup
  acc : sh.stored = sumBytes sh.heap.live
  bound : cfg.maxBytes > 0 → sh.stored ≤ cfg.maxBytes
  unused : cfg.maxBytes = 0 → sh.heap = Heap.empty
  clean : ∀ k, k ∉ sh.dirty → ¬ H k → CleanK cfg sh k

abbrev ShInv (cfg : Config) (sh : Shared) : Prop := ShInvX cfg sh fun _ => False

theorem ShInvX.weaken {cfg : Config} {sh : Shared} {H H' : Key → Prop} (hi : ShInvX cfg sh H) (hh : ∀ k, H k → H' k) :
    ShInvX cfg sh H' :=
  ⟨hi.hinv, hi.kinv, hi.nodup, hi.bnodup, hi.acc, hi.bound, hi.unused, fun k hk hn => hi.clean k hk (fun h => hn (hh k h))⟩

theorem ShInv_empty (cfg : Config) : ShInv cfg Shared.empty :=
  ⟨HInv_empty, KInv_empty, by simp [Shared.empty], by simp [Shared.empty], rfl, fun _ => Nat.zero_le _, fun _ => rfl,
   fun k _ _ => ⟨fun _ sl h => by simp [Shared.empty, Store.lookup] at h,
     fun p e h => by simp [Shared.empty, Heap.empty] at h,
     by simp [SyncK, Shared.empty, Store.lookup, BStore.lookup]⟩⟩

theorem ShInvX.tracked {cfg : Config} {sh : Shared} (hi : ShInv cfg sh) (hpos : cfg.maxBytes > 0) (hd : sh.dirty = []) :
    Tracked sh := by
  intro k sl hl
  exact (hi.clean k (by simp [hd]) (fun h => h)).1 hpos sl hl

/-- every live heap entry tracks a key the cache has stored (and neither deleted nor replaced) -/
def Covered (sh : Shared) : Prop :=
  ∀ (p : Nat) (e : HEntry), sh.heap.live[p]? = some e → ∃ sl, sh.store.lookup e.key = some sl

theorem ShInvX.covered {cfg : Config} {sh : Shared} (hi : ShInv cfg sh) (hd : sh.dirty = []) : Covered sh := by
  intro p e hp
  exact (hi.clean e.key (by simp [hd]) (fun h => h)).2.1 p e hp rfl

/-- a live entry is found under its own index, and the key map points to it -/
theorem live_find {h : Heap} (hi : HInv h) {p : Nat} {e : HEntry} (hp : h.live[p]? = some e) : h.find e.idx = some e :=
  (find_some_iff hi _ _).mpr ⟨rfl, p, hp⟩

theorem live_klookup {h : Heap} (hi : HInv h) (hk : KInv h) {p : Nat} {e : HEntry} (hp : h.live[p]? = some e) :
    klookup h.keys e.key = some e.idx :=
  (hk e.key e.idx).mpr ⟨e, live_find hi hp, rfl⟩

/-- no entry is tracked for `k` -/
theorem no_live_of_klookup_none {h : Heap} (hi : HInv h) (hk : KInv h) {k : Key} (hn : klookup h.keys k = none)
    {p : Nat} {e : HEntry} (hp : h.live[p]? = some e) : e.key ≠ k := by
  intro heq
  have := live_klookup hi hk hp
  rw [heq, hn] at this; cases this

/-! ### `heap.removeKey(key)` + `storedBytes -= size` -/

/-- `dropTracked` only touches the heap and the count -/
theorem dropTracked_frame {sh sh' : Shared} {key : Key} (h : dropTracked sh key = some sh') :
    sh'.store = sh.store ∧ sh'.bodies = sh.bodies ∧ sh'.dirty = sh.dirty := by
  unfold dropTracked at h
  split at h
  · cases h
  · cases h; exact ⟨rfl, rfl, rfl⟩
  · cases h; exact ⟨rfl, rfl, rfl⟩

/-- dropping what is tracked for `key` never panics; afterwards nothing is tracked for `key`, which
    becomes the hole of the invariant -/
theorem dropTracked_ok {cfg : Config} (hmb : cfg.maxBytes < 2 ^ 63) (hpos : cfg.maxBytes > 0) {sh : Shared}
    {H : Key → Prop} (hi : ShInvX cfg sh H) (key : Key) :
    ∃ sh', dropTracked sh key = some sh' ∧ ShInvX cfg sh' (fun k => H k ∨ k = key) ∧ sh'.stored ≤ sh.stored ∧
      klookup sh'.heap.keys key = none := by
  unfold dropTracked
  have hstored_lt : sh.stored < U64 := by
    have := hi.bound hpos; have := U64_pos; omega
  rcases removeKey_ok hi.hinv hi.kinv key with ⟨hnone, hr⟩ | ⟨x, hfx, hkx, h', hr, hinv', hkinv', _, hfind', hsum', _, hnone'⟩
  · rw [hr]
    refine ⟨_, rfl, ⟨hi.hinv, hi.kinv, hi.nodup, hi.bnodup, hi.acc, hi.bound, hi.unused, ?_⟩, Nat.le_refl _, hnone⟩
    intro k hk hn
    exact hi.clean k hk (fun h => hn (Or.inl h))
  · rw [hr]
    have hle : x.bytes ≤ sh.stored := by rw [hi.acc]; omega
    refine ⟨_, rfl, ⟨hinv', hkinv', hi.nodup, hi.bnodup, ?_, ?_, ?_, ?_⟩, ?_, hnone'⟩
    · show usub sh.stored x.bytes = sumBytes h'.live
      rw [usub_eq hle hstored_lt, hi.acc]; omega
    · intro _
      show usub sh.stored x.bytes ≤ cfg.maxBytes
      rw [usub_eq hle hstored_lt]; have := hi.bound hpos; omega
    · intro h0; omega
    · intro k hk hhole
      have hkk : k ≠ key := fun h => hhole (Or.inr h)
      rcases hi.clean k hk (fun h => hhole (Or.inl h)) with ⟨ht, hc, hs⟩
      refine ⟨?_, ?_, hs⟩
      · intro hp sl hl
        rcases ht hp sl hl with ⟨e, he, hek, heb⟩
        refine ⟨e, ?_, hek, heb⟩
        show h'.find sl.item.heapidx = some e
        rw [hfind']
        have : sl.item.heapidx ≠ x.idx := by
          intro heq; rw [heq, hfx] at he; cases he; exact hkk (hek.symm.trans hkx)
        simp [this, he]
      · intro p e hp hek
        have hf' : h'.find e.idx = some e := live_find hinv' hp
        rw [hfind'] at hf'
        by_cases hie : e.idx = x.idx
        · simp [hie] at hf'
        · simp only [hie, if_false] at hf'
          rcases (find_some_iff hi.hinv _ _).mp hf' with ⟨_, p0, hp0⟩
          exact hc p0 e hp0 hek
    · show usub sh.stored x.bytes ≤ sh.stored
      rw [usub_eq hle hstored_lt]; omega

/-! ### `deleteKey` -/

theorem deleteKey_frame (cfg : Config) (sh : Shared) (k : Key) (d1 d2 : Fault) :
    (sh.deleteKey cfg k d1 d2).heap = sh.heap ∧ (sh.deleteKey cfg k d1 d2).stored = sh.stored := ⟨rfl, rfl⟩

theorem deleteKey_lookup_other (cfg : Config) (sh : Shared) (k : Key) (d1 d2 : Fault) {k' : Key} (h : k' ≠ k) :
    (sh.deleteKey cfg k d1 d2).store.lookup k' = sh.store.lookup k' ∧
    (sh.deleteKey cfg k d1 d2).bodies.lookup k' = sh.bodies.lookup k' := by
  unfold Shared.deleteKey
  simp only
  constructor
  · split
    · rfl
    · rw [lookup_erase]; simp [h]
  · split
    · rfl
    · rw [blookup_erase]; simp [h]

/-- deleting `k` when nothing is tracked for it keeps the invariant; a hole at `k` is closed: both `Delete`s
    went through and nothing is left of `k`, or one failed and `k` is dirty -/
theorem deleteKey_ok {cfg : Config} {sh : Shared} {H : Key → Prop} (hi : ShInvX cfg sh H) (k : Key)
    (d1 d2 : Fault) (hnk : klookup sh.heap.keys k = none) :
    ShInvX cfg (sh.deleteKey cfg k d1 d2) (fun k' => H k' ∧ k' ≠ k) := by
  have hst : (sh.deleteKey cfg k d1 d2).store = (if (cfg.ext && d1.fails) = true then sh.store else sh.store.erase k) := rfl
  have hbo : (sh.deleteKey cfg k d1 d2).bodies = (if (cfg.ext && d2.fails) = true then sh.bodies else sh.bodies.erase k) := rfl
  have hdi : (sh.deleteKey cfg k d1 d2).dirty = markDirty sh.dirty k (cfg.ext && d1.fails || cfg.ext && d2.fails) := rfl
  refine ⟨hi.hinv, hi.kinv, ?_, ?_, hi.acc, hi.bound, hi.unused, ?_⟩
  · rw [hst]; split
    · exact hi.nodup
    · exact nodup_erase hi.nodup k
  · rw [hbo]; split
    · exact hi.bnodup
    · exact bnodup_erase hi.bnodup k
  · intro k' hk' hhole
    rw [hdi, mem_markDirty] at hk'
    by_cases hkk : k' = k
    · -- both deletes went through: nothing is left of `k`
      subst hkk
      have hok : (cfg.ext && d1.fails || cfg.ext && d2.fails) = false := by
        cases hb : (cfg.ext && d1.fails || cfg.ext && d2.fails)
        · rfl
        · exact absurd (Or.inl ⟨rfl, hb⟩) hk'
      have h1 : (cfg.ext && d1.fails) = false := by
        cases hx : (cfg.ext && d1.fails) <;> simp [hx] at hok ⊢
      have h2 : (cfg.ext && d2.fails) = false := by
        cases hx : (cfg.ext && d2.fails) <;> simp [hx, h1] at hok ⊢
      have hs : (sh.deleteKey cfg k' d1 d2).store.lookup k' = none := by
        rw [hst, h1]; simp [lookup_erase]
      have hb : (sh.deleteKey cfg k' d1 d2).bodies.lookup k' = none := by
        rw [hbo, h2]; simp [blookup_erase]
      refine ⟨?_, ?_, ?_⟩
      · intro _ sl hl; rw [hs] at hl; cases hl
      · intro p e hp hek
        exact absurd hek (no_live_of_klookup_none hi.hinv hi.kinv hnk hp)
      · unfold SyncK; rw [hs, hb]; rfl
    · have hd' : k' ∉ sh.dirty := fun hm => hk' (Or.inr ⟨hkk, hm⟩)
      have hh' : ¬ H k' := fun hH => hhole ⟨hH, hkk⟩
      rcases hi.clean k' hd' hh' with ⟨ht, hc, hs⟩
      rcases deleteKey_lookup_other cfg sh k d1 d2 hkk with ⟨e1, e2⟩
      refine ⟨?_, ?_, ?_⟩
      · intro hp sl hl; rw [e1] at hl; exact ht hp sl hl
      · intro p e hp hek
        rcases hc p e hp hek with ⟨sl, hsl⟩
        exact ⟨sl, by rw [e1]; exact hsl⟩
      · unfold SyncK; rw [e1, e2]; exact hs

/-! ### first critical section -/

theorem dropTracked_deleteKey_comm (cfg : Config) (sh : Shared) (k key : Key) (d1 d2 : Fault) :
    dropTracked (sh.deleteKey cfg k d1 d2) key = (dropTracked sh key).map fun s => s.deleteKey cfg k d1 d2 := by
  unfold dropTracked
  show (match sh.heap.removeKey key with
    | none => none
    | some (h, some size) => some { (sh.deleteKey cfg k d1 d2) with heap := h, stored := usub sh.stored size }
    | some (h, none) => some { (sh.deleteKey cfg k d1 d2) with heap := h }) = _
  cases sh.heap.removeKey key with
  | none => rfl
  | some r =>
    rcases r with ⟨h, _ | sz⟩ <;> rfl

theorem sec1Expire_ok {cfg : Config} (hmb : cfg.maxBytes < 2 ^ 63) {sh : Shared} (hi : ShInv cfg sh)
    (key : Key) (d1 d2 : Fault) :
    ∃ sh', sec1Expire cfg sh key d1 d2 = .pass sh' ∧ ShInv cfg sh' ∧ StoreSub sh'.store sh.store ∧
      (((cfg.ext && d1.fails) = false) → sh'.store.lookup key = none) := by
  unfold sec1Expire
  simp only
  by_cases hmbp : cfg.maxBytes > 0
  · rw [if_pos hmbp, dropTracked_deleteKey_comm]
    rcases dropTracked_ok hmb hmbp hi key with ⟨sh0, hd, hi0, _, hnk⟩
    rw [hd]
    simp only [Option.map_some]
    have := (deleteKey_ok hi0 key d1 d2 hnk).weaken (H' := fun _ => False) (by
      rintro k ⟨h1 | h1, h2⟩
      · exact h1
      · exact h2 h1)
    rcases dropTracked_frame hd with ⟨e1, _, _⟩
    refine ⟨_, rfl, this, ?_, ?_⟩
    · have := deleteKey_sub cfg sh0 key d1 d2
      rw [e1] at this; exact this
    · intro hok
      show (sh0.deleteKey cfg key d1 d2).store.lookup key = none
      unfold Shared.deleteKey
      simp only [hok]
      simp [lookup_erase]
  · rw [if_neg hmbp]
    have h0 : cfg.maxBytes = 0 := by omega
    have hnk : klookup sh.heap.keys key = none := by rw [hi.unused h0]; rfl
    have := (deleteKey_ok hi key d1 d2 hnk).weaken (H' := fun _ => False) (by rintro k ⟨h1, _⟩; exact h1)
    refine ⟨_, rfl, this, deleteKey_sub cfg sh key d1 d2, ?_⟩
    intro hok
    unfold Shared.deleteKey
    simp only [hok]
    simp [lookup_erase]

theorem sec1Expire_not_hit {cfg : Config} {sh : Shared} {key : Key} {d1 d2 : Fault} {o : Out} :
    sec1Expire cfg sh key d1 d2 ≠ .hit o := by
  intro h
  unfold sec1Expire at h
  simp only at h
  split at h
  · split at h <;> cases h
  · cases h

/-- the outcome of the first section: a hit (state unchanged), or on to the origin handler with the invariant kept
    and nothing new in the storage -/
theorem sec1_ok {cfg : Config} (hmb : cfg.maxBytes < 2 ^ 63) {sh : Shared} (hi : ShInv cfg sh)
    (ts uts : Nat) (q : Req) (key : Key) :
    (∃ o, sec1 cfg sh ts uts q key = .hit o) ∨
    (∃ sh', sec1 cfg sh ts uts q key = .pass sh' ∧ ShInv cfg sh' ∧ StoreSub sh'.store sh.store) := by
  unfold sec1
  cases lookup1 cfg sh uts key (faultAt q.f1 0) with
  | none => right; exact ⟨sh, rfl, hi, StoreSub.refl _⟩
  | some e =>
    simp only
    unfold sec1Found
    by_cases hexp : itemExpired (applyInv q ts e) ts = true
    · rw [if_pos hexp]; right
      rcases sec1Expire_ok hmb hi key (faultAt q.f1 1) (faultAt q.f1 2) with ⟨sh', h1, h2, h3, _⟩
      exact ⟨sh', h1, h2, h3⟩
    · rw [if_neg hexp]
      by_cases hhit : ((applyInv q ts e).exp != 0 && !hasDirective q.cc Facts.noCache) = true
      · rw [if_pos hhit]
        by_cases hbf : (cfg.ext && (faultAt q.f1 1).fails) = true
        · rw [if_pos hbf]; right; exact ⟨sh, rfl, hi, StoreSub.refl _⟩
        · rw [if_neg hbf]; left; exact ⟨_, rfl⟩
      · rw [if_neg hhit]; right; exact ⟨sh, rfl, hi, StoreSub.refl _⟩

theorem sec1_sub {cfg : Config} {sh sh' : Shared} {ts uts : Nat} {q : Req} {key : Key}
    (hmb : cfg.maxBytes < 2 ^ 63) (hi : ShInv cfg sh)
    (h : sec1 cfg sh ts uts q key = .pass sh') : StoreSub sh'.store sh.store := by
  rcases sec1_ok hmb hi ts uts q key with ⟨o, ho⟩ | ⟨sh2, h2, _, hs⟩
  · rw [ho] at h; cases h
  · rw [h2] at h; cases h; exact hs

/-- a hit replays an item the storage holds for this key, unexpired on the cache's clock; the `Get` of the
    entry delivered it, the `Get` of the body did not fail; the request carries no `no-cache` and the
    invalidator did not fire (clock ≥ 1: at 0 Go's `ts - 1` wraps) -/
theorem sec1_hit {cfg : Config} {sh : Shared} {ts uts : Nat} {q : Req} {key : Key} {o : Out} (hts : 1 ≤ ts)
    (h : sec1 cfg sh ts uts q key = .hit o) :
    ∃ sl, sh.store.lookup key = some sl ∧ sl.expired uts = false ∧
      o = replay cfg { sl.item with body := hitBody cfg sh uts key sl.item } ts ∧
      q.inv = false ∧ ts < sl.item.exp ∧ hasDirective q.cc Facts.noCache = false ∧
      (cfg.ext = true → (faultAt q.f1 0).noEntry = false ∧ (faultAt q.f1 1).fails = false) := by
  unfold sec1 at h
  cases hl : lookup1 cfg sh uts key (faultAt q.f1 0) with
  | none => rw [hl] at h; cases h
  | some e =>
    rw [hl] at h
    simp only at h
    unfold sec1Found at h
    by_cases hexp : itemExpired (applyInv q ts e) ts = true
    · rw [if_pos hexp] at h
      exact absurd h sec1Expire_not_hit
    · rw [if_neg hexp] at h
      by_cases hhit : ((applyInv q ts e).exp != 0 && !hasDirective q.cc Facts.noCache) = true
      · rw [if_pos hhit] at h
        by_cases hbf : (cfg.ext && (faultAt q.f1 1).fails) = true
        · rw [if_pos hbf] at h; cases h
        · rw [if_neg hbf] at h
          simp only [Sec1.hit.injEq] at h
          have hh : (applyInv q ts e).exp ≠ 0 ∧ hasDirective q.cc Facts.noCache = false := by simpa using hhit
          have hne : ¬ (ts ≥ (applyInv q ts e).exp) := by
            intro hge; apply hexp; simp [itemExpired, hh.1, hge]
          -- the invalidator did not fire
          have hinv : q.inv = false := by
            cases hq : q.inv with
            | false => rfl
            | true =>
              have h0 : ¬ ts = 0 := by omega
              simp [applyInv, hq, h0] at hne hh
          have he : applyInv q ts e = e := by simp [applyInv, hinv]
          rw [he] at h hh hne
          -- the item comes from the storage (a blank item has exp = 0)
          unfold lookup1 at hl
          by_cases hg : (cfg.ext && (faultAt q.f1 0).noEntry) = true
          · rw [if_pos hg] at hl
            simp only [Option.some.injEq] at hl
            subst hl; simp [blankItem] at hh
          · rw [if_neg hg] at hl
            cases hgs : sh.store.get key uts with
            | none =>
              rw [hgs] at hl
              by_cases hx : cfg.ext = true
              · simp [hx] at hl; subst hl; simp [blankItem] at hh
              · simp [hx] at hl
            | some it =>
              rw [hgs] at hl
              simp only [Option.some.injEq] at hl
              subst hl
              unfold Store.get at hgs
              cases hlk : sh.store.lookup key with
              | none => rw [hlk] at hgs; cases hgs
              | some sl =>
                rw [hlk] at hgs
                simp only at hgs
                by_cases hse : sl.expired uts = true
                · rw [if_pos hse] at hgs; cases hgs
                · rw [if_neg hse] at hgs
                  simp only [Option.some.injEq] at hgs
                  subst hgs
                  refine ⟨sl, rfl, by simpa using hse, h.symm, hinv, by omega, hh.2, ?_⟩
                  intro hx
                  constructor
                  · cases hn : (faultAt q.f1 0).noEntry with
                    | false => rfl
                    | true => simp [hx, hn] at hg
                  · cases hn : (faultAt q.f1 1).fails with
                    | false => rfl
                    | true => simp [hx, hn] at hbf
      · rw [if_neg hhit] at h; cases h

/-! ### second critical section -/

theorem sumBytes_pos_ne_nil {l : List HEntry} (h : 0 < sumBytes l) : l ≠ [] := by
  intro hl; subst hl; simp [sumBytes] at h

/-- taking the entry `x` out of the heap and the count (its key's entry still stored: `x.key` joins the holes) -/
theorem removeEntry_inv {cfg : Config} (hmb : cfg.maxBytes < 2 ^ 63) (hpos : cfg.maxBytes > 0) {sh : Shared}
    {H : Key → Prop} (hi : ShInvX cfg sh H) {x : HEntry} {h' : Heap} (hfx : sh.heap.find x.idx = some x)
    (hinv' : HInv h') (hfind' : ∀ y, h'.find y = if y = x.idx then none else sh.heap.find y)
    (hsum' : sumBytes h'.live + x.bytes = sumBytes sh.heap.live) (hkeys' : h'.keys = kerase sh.heap.keys x.key) :
    ShInvX cfg { sh with heap := h', stored := usub sh.stored x.bytes } (fun k => H k ∨ k = x.key) := by
  have hstored_lt : sh.stored < U64 := by
    have := hi.bound hpos; have := U64_pos; omega
  have hle : x.bytes ≤ sh.stored := by rw [hi.acc]; omega
  refine ⟨hinv', kinv_remove hi.kinv hfx hfind' hkeys', hi.nodup, hi.bnodup, ?_, ?_, ?_, ?_⟩
  · show usub sh.stored x.bytes = sumBytes h'.live
    rw [usub_eq hle hstored_lt, hi.acc]; omega
  · intro _
    show usub sh.stored x.bytes ≤ cfg.maxBytes
    rw [usub_eq hle hstored_lt]; have := hi.bound hpos; omega
  · intro h0; omega
  · intro k hk hhole
    have hkk : k ≠ x.key := fun h => hhole (Or.inr h)
    rcases hi.clean k hk (fun h => hhole (Or.inl h)) with ⟨ht, hc, hs⟩
    refine ⟨?_, ?_, hs⟩
    · intro hp sl hl
      rcases ht hp sl hl with ⟨e, he, hek, heb⟩
      refine ⟨e, ?_, hek, heb⟩
      show h'.find sl.item.heapidx = some e
      rw [hfind']
      have : sl.item.heapidx ≠ x.idx := by
        intro heq; rw [heq, hfx] at he; cases he; exact hkk hek.symm
      simp [this, he]
    · intro p e hp hek
      have hf' : h'.find e.idx = some e := live_find hinv' hp
      rw [hfind'] at hf'
      by_cases hie : e.idx = x.idx
      · simp [hie] at hf'
      · simp only [hie, if_false] at hf'
        rcases (find_some_iff hi.hinv _ _).mp hf' with ⟨_, p0, hp0⟩
        exact hc p0 e hp0 hek

theorem evict_ok {cfg : Config} (hmb : cfg.maxBytes < 2 ^ 63) (hpos : cfg.maxBytes > 0) (body : Nat)
    (hbody : body ≤ cfg.maxBytes) {H : Key → Prop} :
    ∀ (f : Nat) (fs : List Fault) {sh : Shared}, ShInvX cfg sh H → sh.heap.live.length < f →
      ∃ sh' fs', evict cfg body f fs sh = some (sh', fs') ∧ ShInvX cfg sh' H ∧ sh'.stored + body ≤ cfg.maxBytes ∧
        (∀ k, klookup sh.heap.keys k = none → klookup sh'.heap.keys k = none) ∧ StoreSub sh'.store sh.store := by
  intro f
  induction f with
  | zero => intro fs sh _ h; omega
  | succ f ih =>
    intro fs sh hi hlen
    unfold evict
    have hb := hi.bound hpos
    have hlt : sh.stored + body < U64 := by have := U64_pos; omega
    rw [uadd_eq hlt]
    by_cases hgt : sh.stored + body > cfg.maxBytes
    · rw [if_pos hgt]
      have hne : sh.heap.live ≠ [] := sumBytes_pos_ne_nil (by rw [← hi.acc]; omega)
      rcases removeFirst_ok hi.hinv hne with ⟨h', x, hr, hxm, hinv', _, hfind', hsum', hlen', hkeys'⟩
      rw [hr]
      simp only
      have hfx : sh.heap.find x.idx = some x := by
        rw [find_some_iff hi.hinv]
        exact ⟨rfl, List.mem_iff_getElem?.mp hxm⟩
      have h1 := removeEntry_inv hmb hpos hi hfx hinv' hfind' hsum' hkeys'
      have hnk : klookup ({ sh with heap := h', stored := usub sh.stored x.bytes } : Shared).heap.keys x.key = none := by
        show klookup h'.keys x.key = none
        rw [hkeys', klookup_erase]; simp
      have h2 := (deleteKey_ok h1 x.key (faultAt fs 0) (faultAt fs 1) hnk).weaken (H' := H) (by
        rintro k ⟨h | h, hne⟩
        · exact h
        · exact absurd h hne)
      have hsame : ({ (sh.deleteKey cfg x.key (faultAt fs 0) (faultAt fs 1)) with heap := h', stored := usub sh.stored x.bytes } : Shared) =
          ({ sh with heap := h', stored := usub sh.stored x.bytes } : Shared).deleteKey cfg x.key (faultAt fs 0) (faultAt fs 1) := rfl
      rw [hsame]
      rcases ih (if cfg.ext = true then fs.drop 2 else fs) h2 (by show h'.live.length < f; omega) with ⟨sh', fs', he, hi', hroom, hkeep, hsub⟩
      refine ⟨sh', fs', he, hi', hroom, ?_, ?_⟩
      · intro k hk
        apply hkeep
        show klookup h'.keys k = none
        rw [hkeys', klookup_erase]
        by_cases hkk : k = x.key <;> simp [hkk, hk]
      · exact hsub.trans (deleteKey_sub cfg _ x.key _ _)
    · rw [if_neg hgt]
      exact ⟨sh, fs, rfl, hi, by omega, fun _ h => h, StoreSub.refl _⟩

theorem setKey_lookup_other (cfg : Config) (sh : Shared) (key : Key) (it : Item) (sexp : Nat) (s1 s2 : Fault)
    {k' : Key} (h : k' ≠ key) :
    (sh.setKey cfg key it sexp s1 s2).store.lookup k' = sh.store.lookup k' ∧
    (sh.setKey cfg key it sexp s1 s2).bodies.lookup k' = sh.bodies.lookup k' := by
  unfold Shared.setKey
  simp only
  constructor
  · split
    · rfl
    · rw [lookup_set]; simp [h]
  · split
    · rfl
    · rw [blookup_set]; simp [h]

/-- `heap.put` + `storedBytes +=` + the `Set`s: closes the hole at `key` -/
theorem sec2Store_ok {cfg : Config} (hmb : cfg.maxBytes < 2 ^ 63) {sh : Shared} {H : Key → Prop}
    (hi : ShInvX cfg sh H) (ts uts : Nat) (q : Req) (key : Key) (fs : List Fault)
    (hroom : cfg.maxBytes > 0 → sh.stored + q.resp.body.length ≤ cfg.maxBytes)
    (hnokey : klookup sh.heap.keys key = none) :
    ∃ sh' idx, sec2Store cfg sh ts uts q key fs = .stored sh' ∧ ShInvX cfg sh' (fun k => H k ∧ k ≠ key) ∧
      (sh'.store = sh.store.set key ⟨mkItem cfg q ts idx, storageExp cfg q uts⟩ ∨ sh'.store = sh.store) := by
  -- the part common to both branches: what the `Set`s do, given the heap `h'` after `put` (or the unused heap)
  have common : ∀ (h' : Heap) (n' idx : Nat), HInv h' → KInv h' → n' = sumBytes h'.live →
      (cfg.maxBytes > 0 → n' ≤ cfg.maxBytes) → (cfg.maxBytes = 0 → h' = Heap.empty) →
      (cfg.maxBytes > 0 → sh.heap.find idx = none ∧
        ∀ y, h'.find y = if y = idx then some ⟨key, ts + expSecs cfg q, q.resp.body.length, idx⟩ else sh.heap.find y) →
      (cfg.maxBytes = 0 → h' = sh.heap) →
      ShInvX cfg (({ sh with heap := h', stored := n' } : Shared).setKey cfg key (mkItem cfg q ts idx) (storageExp cfg q uts)
        (faultAt fs 0) (faultAt fs 1)) (fun k => H k ∧ k ≠ key) := by
    intro h' n' idx hinv' hkinv' hacc' hbound' hunused' hput hsame
    let sh2 : Shared := { sh with heap := h', stored := n' }
    let sh3 := sh2.setKey cfg key (mkItem cfg q ts idx) (storageExp cfg q uts) (faultAt fs 0) (faultAt fs 1)
    have hst : sh3.store = (if (cfg.ext && (faultAt fs 1).fails) = true then sh.store else sh.store.set key ⟨mkItem cfg q ts idx, storageExp cfg q uts⟩) := rfl
    have hbo : sh3.bodies = (if (cfg.ext && (faultAt fs 0).fails) = true then sh.bodies else sh.bodies.set key ⟨(mkItem cfg q ts idx).body, storageExp cfg q uts⟩) := rfl
    have hdi : sh3.dirty = markDirty sh.dirty key (cfg.ext && (faultAt fs 0).fails || cfg.ext && (faultAt fs 1).fails) := rfl
    refine ⟨hinv', hkinv', ?_, ?_, hacc', hbound', hunused', ?_⟩
    · show (sh3.store.map (·.1)).Nodup
      rw [hst]; split
      · exact hi.nodup
      · exact nodup_set hi.nodup _ _
    · show (sh3.bodies.map (·.1)).Nodup
      rw [hbo]; split
      · exact hi.bnodup
      · exact bnodup_set hi.bnodup _ _
    · intro k' hk' hhole
      have hk'' : k' ∉ sh3.dirty := hk'
      rw [hdi, mem_markDirty] at hk''
      by_cases hkk : k' = key
      · subst hkk
        have hok : (cfg.ext && (faultAt fs 0).fails || cfg.ext && (faultAt fs 1).fails) = false := by
          cases hb : (cfg.ext && (faultAt fs 0).fails || cfg.ext && (faultAt fs 1).fails)
          · rfl
          · exact absurd (Or.inl ⟨rfl, hb⟩) hk''
        have h1 : (cfg.ext && (faultAt fs 0).fails) = false := by
          cases hx : (cfg.ext && (faultAt fs 0).fails) <;> simp [hx] at hok ⊢
        have h2 : (cfg.ext && (faultAt fs 1).fails) = false := by
          cases hx : (cfg.ext && (faultAt fs 1).fails) <;> simp [hx, h1] at hok ⊢
        have hs : sh3.store.lookup k' = some ⟨mkItem cfg q ts idx, storageExp cfg q uts⟩ := by
          rw [hst, h2]; simp [lookup_set]
        have hb : sh3.bodies.lookup k' = some ⟨(mkItem cfg q ts idx).body, storageExp cfg q uts⟩ := by
          rw [hbo, h1]; simp [blookup_set]
        refine ⟨?_, ?_, ?_⟩
        · intro hp sl hl
          have hl' : sh3.store.lookup k' = some sl := hl
          rw [hs] at hl'; cases hl'
          refine ⟨⟨k', ts + expSecs cfg q, q.resp.body.length, idx⟩, ?_, rfl, rfl⟩
          show h'.find (mkItem cfg q ts idx).heapidx = _
          rw [(hput hp).2]; simp [mkItem]
        · intro p e hp hek
          exact ⟨_, hs⟩
        · show sh3.bodies.lookup k' = (sh3.store.lookup k').map _
          rw [hs, hb]; rfl
      · have hd' : k' ∉ sh.dirty := fun hm => hk'' (Or.inr ⟨hkk, hm⟩)
        have hh' : ¬ H k' := fun hH => hhole ⟨hH, hkk⟩
        rcases hi.clean k' hd' hh' with ⟨ht, hc, hs⟩
        rcases setKey_lookup_other cfg sh2 key (mkItem cfg q ts idx) (storageExp cfg q uts) (faultAt fs 0) (faultAt fs 1) hkk with ⟨e1, e2⟩
        refine ⟨?_, ?_, ?_⟩
        · intro hp sl hl
          have hl' : sh3.store.lookup k' = some sl := hl
          rw [e1] at hl'
          rcases ht hp sl hl' with ⟨e, he, hek, heb⟩
          refine ⟨e, ?_, hek, heb⟩
          show h'.find sl.item.heapidx = some e
          rw [(hput hp).2]
          have : sl.item.heapidx ≠ idx := by
            intro heq; rw [heq, (hput hp).1] at he; cases he
          simp [this, he]
        · intro p e hp hek
          have hp' : h'.live[p]? = some e := hp
          show ∃ sl, sh3.store.lookup k' = some sl
          rw [e1]
          by_cases hpos : cfg.maxBytes > 0
          · have hf' : h'.find e.idx = some e := live_find hinv' hp'
            rw [(hput hpos).2] at hf'
            by_cases hie : e.idx = idx
            · simp only [hie, if_true, Option.some.injEq] at hf'
              rw [← hf'] at hek; exact absurd hek.symm hkk
            · simp only [hie, if_false] at hf'
              rcases (find_some_iff hi.hinv _ _).mp hf' with ⟨_, p0, hp0⟩
              exact hc p0 e hp0 hek
          · have h0 : cfg.maxBytes = 0 := by omega
            rw [hsame h0] at hp'
            exact hc p e hp' hek
        · show sh3.bodies.lookup k' = (sh3.store.lookup k').map _
          rw [e1, e2]; exact hs
  unfold sec2Store
  by_cases hpos : cfg.maxBytes > 0
  · rw [if_pos hpos]
    rcases put_ok hi.hinv key (ts + expSecs cfg q) q.resp.body.length with ⟨h', idx, hp, hinv', hfresh, hfind', hsum', _, hkeys'⟩
    rw [hp]
    simp only
    have hr := hroom hpos
    have hlt : sh.stored + q.resp.body.length < U64 := by have := U64_pos; omega
    refine ⟨_, idx, rfl, ?_, ?_⟩
    · apply common h' (uadd sh.stored q.resp.body.length) idx hinv' (kinv_put hi.kinv hfresh hnokey hfind' hkeys')
      · rw [uadd_eq hlt, hsum', hi.acc]
      · intro _; rw [uadd_eq hlt]; exact hr
      · intro h0; omega
      · intro _; exact ⟨hfresh, hfind'⟩
      · intro h0; omega
    · by_cases hx : (cfg.ext && (faultAt fs 1).fails) = true
      · right; simp only [Shared.setKey, hx, if_true]
      · left; simp only [Shared.setKey, hx, if_false]; rfl
  · rw [if_neg hpos]
    refine ⟨_, 0, rfl, ?_, ?_⟩
    · have := common sh.heap sh.stored 0 hi.hinv hi.kinv hi.acc hi.bound hi.unused (fun h => absurd h hpos) (fun _ => rfl)
      exact this
    · by_cases hx : (cfg.ext && (faultAt fs 1).fails) = true
      · right; simp only [Shared.setKey, hx, if_true]
      · left; simp only [Shared.setKey, hx, if_false]; rfl

inductive Sec2Res (cfg : Config) (sh : Shared) (ts uts : Nat) (q : Req) (key : Key) : Sec2 → Prop
  | unreachable : Sec2Res cfg sh ts uts q key .unreachable
  | stored (sh' : Shared) (idx : Nat) (mid : Shared) : ShInv cfg sh' →
      (sh'.store = mid.store.set key ⟨mkItem cfg q ts idx, storageExp cfg q uts⟩ ∨ sh'.store = mid.store) →
      StoreSub mid.store sh.store →
      q.skip = false → Sec2Res cfg sh ts uts q key (.stored sh')

theorem sec2_ok {cfg : Config} (hmb : cfg.maxBytes < 2 ^ 63) {sh : Shared} (hi : ShInv cfg sh)
    (ts uts : Nat) (q : Req) (key : Key) : Sec2Res cfg sh ts uts q key (sec2 cfg sh ts uts q key) := by
  unfold sec2
  by_cases hskip : q.skip = true
  · rw [if_pos hskip]; exact .unreachable
  · rw [if_neg hskip]
    have hskip' : q.skip = false := by simpa using hskip
    by_cases hbig : (decide (cfg.maxBytes > 0) && decide (q.resp.body.length > cfg.maxBytes)) = true
    · rw [if_pos hbig]; exact .unreachable
    · rw [if_neg hbig]
      by_cases hpos : cfg.maxBytes > 0
      · rw [if_pos hpos]
        have hbody : q.resp.body.length ≤ cfg.maxBytes := by
          simp [hpos] at hbig; exact hbig
        rcases dropTracked_ok hmb hpos hi key with ⟨sh0, hd, hi0, _, hnk0⟩
        rw [hd]
        simp only
        rcases evict_ok hmb hpos _ hbody (sh0.heap.live.length + 1) q.f2 hi0 (Nat.lt_succ_self _) with
          ⟨sh1, fs1, he, hi1, hroom, hkeep, hsub⟩
        rw [he]
        simp only
        rcases sec2Store_ok hmb hi1 ts uts q key fs1 (fun _ => hroom) (hkeep key hnk0) with ⟨sh', idx, hs, hi', hst⟩
        rw [hs]
        refine .stored sh' idx sh1 (hi'.weaken ?_) hst ?_ hskip'
        · rintro k ⟨h1 | h1, h2⟩
          · exact h1
          · exact h2 h1
        · rw [← (dropTracked_frame hd).1]; exact hsub
      · rw [if_neg hpos]
        have h0 : cfg.maxBytes = 0 := by omega
        have hnk : klookup sh.heap.keys key = none := by rw [hi.unused h0]; rfl
        rcases sec2Store_ok hmb hi ts uts q key q.f2 (fun h => absurd h hpos) hnk with ⟨sh', idx, hs, hi', hst⟩
        rw [hs]
        exact .stored sh' idx sh (hi'.weaken (by rintro k ⟨h1, _⟩; exact h1)) hst (StoreSub.refl _) hskip'

/-! ### a hit of a key that is in step replays the body its entry was stored with -/

theorem hitBody_sync {cfg : Config} {sh : Shared} {uts : Nat} {key : Key} {sl : Slot} (hs : SyncK sh key)
    (hl : sh.store.lookup key = some sl) (hx : sl.expired uts = false) :
    hitBody cfg sh uts key sl.item = sl.item.body := by
  unfold hitBody
  by_cases he : cfg.ext = true
  · rw [if_pos he]
    unfold SyncK at hs
    rw [hl] at hs
    simp only [Option.map_some] at hs
    unfold BStore.get
    rw [hs]
    simp only
    have : (BSlot.expired ⟨sl.item.body, sl.sexp⟩ uts) = sl.expired uts := rfl
    rw [this, hx]; rfl
  · rw [if_neg he]

/-! ### accounting: when no key is dirty, the count is exactly what the cache has stored -/

theorem sum_split_key {β} (kb : β → Key) (wb : β → Nat) : ∀ (l : List β), (l.map kb).Nodup → ∀ e ∈ l,
    (l.map wb).sum = wb e + ((l.filter fun x => kb x != kb e).map wb).sum := by
  intro l
  induction l with
  | nil => intro _ e he; cases he
  | cons a r ih =>
    intro hn e he
    simp only [List.map_cons, List.nodup_cons] at hn
    rcases List.mem_cons.mp he with h | h
    · subst h
      have hr : r.filter (fun x => kb x != kb e) = r := by
        apply List.filter_eq_self.mpr
        intro x hx
        have : kb x ≠ kb e := fun heq => hn.1 (List.mem_map.mpr ⟨x, hx, heq⟩)
        simpa using this
      simp [List.filter_cons, hr]
    · have hne : kb a ≠ kb e := fun heq => hn.1 (List.mem_map.mpr ⟨e, h, heq.symm⟩)
      have := ih hn.2 e h
      simp [List.filter_cons, hne]
      omega

/-- a one-to-one correspondence by key between two lists, weights agreeing: equal sums -/
theorem bij_sum {α β} (kb : β → Key) (wa : α → Nat) (wb : β → Nat) :
    ∀ (s : List (Key × α)) (l : List β), (s.map (·.1)).Nodup → (l.map kb).Nodup →
    (∀ k a, (k, a) ∈ s → ∃ e, e ∈ l ∧ kb e = k ∧ wb e = wa a) →
    (∀ e ∈ l, kb e ∈ s.map (·.1)) → (s.map fun p => wa p.2).sum = (l.map wb).sum := by
  intro s
  induction s with
  | nil =>
    intro l _ _ _ hc
    cases l with
    | nil => rfl
    | cons a r => have := hc a (by simp); simp at this
  | cons a t ih =>
    intro l hn hl hb hc
    rcases a with ⟨ak, av⟩
    simp only [List.map_cons, List.nodup_cons] at hn
    rcases hb ak av (by simp) with ⟨e, hel, hek, hew⟩
    have hsplit := sum_split_key kb wb l hl e hel
    have hl' : ((l.filter fun x => kb x != kb e).map kb).Nodup :=
      List.Nodup.sublist (List.Sublist.map _ List.filter_sublist) hl
    have := ih (l.filter fun x => kb x != kb e) hn.2 hl' (by
      intro k a hm
      rcases hb k a (List.mem_cons_of_mem _ hm) with ⟨e', he', hek', hew'⟩
      refine ⟨e', List.mem_filter.mpr ⟨he', ?_⟩, hek', hew'⟩
      have : k ≠ ak := fun heq => hn.1 (List.mem_map.mpr ⟨(k, a), hm, heq⟩)
      rw [hek', hek]; simpa using this) (by
      intro e' he'
      rcases List.mem_filter.mp he' with ⟨h1, h2⟩
      have := hc e' h1
      simp only [List.map_cons, List.mem_cons] at this
      rcases this with h | h
      · rw [h, ← hek] at h2; simp at h2
      · exact h)
    simp only [List.map_cons, List.sum_cons]
    rw [hsplit, ← this, hew]

def totalBody (s : Store) : Nat := (s.map fun p => p.2.item.body.length).sum

theorem lookup_of_mem {s : Store} (hn : (s.map (·.1)).Nodup) {k : Key} {sl : Slot} (hm : (k, sl) ∈ s) :
    s.lookup k = some sl := by
  induction s with
  | nil => cases hm
  | cons a t ih =>
    rcases a with ⟨ak, asl⟩
    simp only [List.map_cons, List.nodup_cons] at hn
    rcases List.mem_cons.mp hm with h | h
    · cases h; simp [Store.lookup]
    · have hne : ¬ ak = k := by
        intro heq; subst heq
        exact hn.1 (List.mem_map.mpr ⟨(ak, sl), h, rfl⟩)
      simp [Store.lookup, hne]; exact ih hn.2 h

theorem mem_of_lookup {s : Store} {k : Key} {sl : Slot} (h : s.lookup k = some sl) : (k, sl) ∈ s := by
  induction s with
  | nil => simp [Store.lookup] at h
  | cons a t ih =>
    rcases a with ⟨ak, asl⟩
    by_cases hk : ak = k
    · simp [Store.lookup, hk] at h; subst h; subst hk; simp
    · simp [Store.lookup, hk] at h
      exact List.mem_cons_of_mem _ (ih h)

theorem mem_keys_of_lookup {s : Store} {k : Key} {sl : Slot} (h : s.lookup k = some sl) : k ∈ s.map (·.1) :=
  List.mem_map.mpr ⟨(k, sl), mem_of_lookup h, rfl⟩

theorem blookup_of_mem {s : BStore} (hn : (s.map (·.1)).Nodup) {k : Key} {sl : BSlot} (hm : (k, sl) ∈ s) :
    s.lookup k = some sl := by
  induction s with
  | nil => cases hm
  | cons a t ih =>
    rcases a with ⟨ak, asl⟩
    simp only [List.map_cons, List.nodup_cons] at hn
    rcases List.mem_cons.mp hm with h | h
    · cases h; simp [BStore.lookup]
    · have hne : ¬ ak = k := by
        intro heq; subst heq
        exact hn.1 (List.mem_map.mpr ⟨(ak, sl), h, rfl⟩)
      simp [BStore.lookup, hne]; exact ih hn.2 h

theorem mem_of_blookup {s : BStore} {k : Key} {sl : BSlot} (h : s.lookup k = some sl) : (k, sl) ∈ s := by
  induction s with
  | nil => simp [BStore.lookup] at h
  | cons a t ih =>
    rcases a with ⟨ak, asl⟩
    by_cases hk : ak = k
    · simp [BStore.lookup, hk] at h; subst h; subst hk; simp
    · simp [BStore.lookup, hk] at h
      exact List.mem_cons_of_mem _ (ih h)

theorem keys_nodup {h : Heap} (hi : HInv h) (hk : KInv h) : (h.live.map (·.key)).Nodup := by
  rw [List.nodup_iff_pairwise_ne, List.pairwise_iff_getElem]
  intro i j hil hjl hij heq
  simp only [List.length_map] at hil hjl
  simp only [List.getElem_map] at heq
  have h1 : h.live[i]? = some h.live[i] := List.getElem?_eq_getElem hil
  have h2 : h.live[j]? = some h.live[j] := List.getElem?_eq_getElem hjl
  have k1 := live_klookup hi hk h1
  have k2 := live_klookup hi hk h2
  rw [heq, k2] at k1
  injection k1 with k1
  have p1 := hi.live_ok i _ h1
  have p2 := hi.live_ok j _ h2
  rw [k1, p1] at p2
  injection p2 with p2
  omega

/-- `storedBytes` = the sum of the body sizes of everything the cache has stored and neither deleted nor
    replaced (whether or not the storage itself has meanwhile let some of it lapse) – provided no `Set` /
    `Delete` failure is outstanding -/
theorem stored_eq_total_of {cfg : Config} {sh : Shared} (hi : ShInv cfg sh) (hpos : cfg.maxBytes > 0)
    (hd : sh.dirty = []) : sh.stored = totalBody sh.store := by
  rw [hi.acc]
  symm
  unfold totalBody sumBytes
  apply bij_sum (·.key) (fun sl : Slot => sl.item.body.length) (·.bytes) sh.store sh.heap.live hi.nodup (keys_nodup hi.hinv hi.kinv)
  · intro k sl hm
    rcases hi.tracked hpos hd k sl (lookup_of_mem hi.nodup hm) with ⟨e, he, hek, heb⟩
    rcases (find_some_iff hi.hinv _ _).mp he with ⟨_, p, hp⟩
    exact ⟨e, List.mem_of_getElem? hp, hek, heb⟩
  · intro e he
    rcases List.mem_iff_getElem?.mp he with ⟨p, hp⟩
    rcases hi.covered hd p e hp with ⟨sl, hsl⟩
    exact mem_keys_of_lookup hsl

/-- bytes of the stored bodies the storage has let lapse by its own clock (TTL) -/
def Store.lapsed (s : Store) (uts : Nat) : Nat :=
  ((s.filter fun p => p.2.expired uts).map fun p => p.2.item.body.length).sum

theorem held_add_lapsed (s : Store) (uts : Nat) : s.held uts + s.lapsed uts = totalBody s := by
  unfold Store.held Store.lapsed totalBody
  induction s with
  | nil => simp
  | cons a t ih =>
    by_cases h : a.2.expired uts = true
    · simp [List.filter_cons, h]; omega
    · simp [List.filter_cons, h]; omega

theorem held_as_weights (s : Store) (uts : Nat) :
    s.held uts = (s.map fun p => if p.2.expired uts then 0 else p.2.item.body.length).sum := by
  unfold Store.held
  induction s with
  | nil => simp
  | cons a t ih =>
    by_cases h : a.2.expired uts = true
    · simp [List.filter_cons, h]; exact ih
    · simp [List.filter_cons, h]; exact ih

theorem bheld_as_weights (s : BStore) (uts : Nat) :
    s.held uts = (s.map fun p => if p.2.expired uts then 0 else p.2.body.length).sum := by
  unfold BStore.held
  induction s with
  | nil => simp
  | cons a t ih =>
    by_cases h : a.2.expired uts = true
    · simp [List.filter_cons, h]; exact ih
    · simp [List.filter_cons, h]; exact ih

/-- with no failure outstanding the bodies in the storage are those of the entries -/
theorem bodies_held_eq {cfg : Config} {sh : Shared} (hi : ShInv cfg sh) (hd : sh.dirty = []) (uts : Nat) :
    sh.bodies.held uts = sh.store.held uts := by
  rw [held_as_weights, bheld_as_weights]
  symm
  have hsync : ∀ k, SyncK sh k := fun k => (hi.clean k (by simp [hd]) (fun h => h)).2.2
  apply bij_sum (fun p : Key × BSlot => p.1) (fun sl : Slot => if sl.expired uts then 0 else sl.item.body.length)
    (fun p : Key × BSlot => if p.2.expired uts then 0 else p.2.body.length) sh.store sh.bodies hi.nodup hi.bnodup
  · intro k sl hm
    have hl := lookup_of_mem hi.nodup hm
    have := hsync k
    unfold SyncK at this
    rw [hl] at this
    simp only [Option.map_some] at this
    exact ⟨(k, ⟨sl.item.body, sl.sexp⟩), mem_of_blookup this, rfl, rfl⟩
  · intro e he
    rcases e with ⟨k, b⟩
    have hb := blookup_of_mem hi.bnodup he
    have := hsync k
    unfold SyncK at this
    rw [hb] at this
    cases hl : sh.store.lookup k with
    | none => rw [hl] at this; cases this
    | some sl => exact mem_keys_of_lookup hl

/-- what the storage physically holds: the `key_body` values of an injected storage, the items of internal/memory -/
def physHeld (cfg : Config) (sh : Shared) (uts : Nat) : Nat :=
  if cfg.ext then sh.bodies.held uts else sh.store.held uts

theorem physHeld_eq {cfg : Config} {sh : Shared} (hi : ShInv cfg sh) (hd : sh.dirty = []) (uts : Nat) :
    physHeld cfg sh uts = sh.store.held uts := by
  unfold physHeld
  split
  · exact bodies_held_eq hi hd uts
  · rfl

theorem held_le_stored_of {cfg : Config} {sh : Shared} (hi : ShInv cfg sh) (hpos : cfg.maxBytes > 0)
    (hd : sh.dirty = []) (uts : Nat) : physHeld cfg sh uts ≤ sh.stored := by
  rw [physHeld_eq hi hd, stored_eq_total_of hi hpos hd, ← held_add_lapsed sh.store uts]
  omega

/-! ### invalidation and expiry erase the entry (when the storage deletes it) -/

/-- a request for which the invalidator fires, and which finds an entry, leaves none behind – provided the
    `Delete` of the entry goes through -/
theorem sec1_invalidates {cfg : Config} (hmb : cfg.maxBytes < 2 ^ 63) {sh : Shared} (hi : ShInv cfg sh)
    {ts uts : Nat} {q : Req} {key : Key}
    (hinv : q.inv = true) (hts : ts ≥ 2) (hfound : lookup1 cfg sh uts key (faultAt q.f1 0) ≠ none)
    (hdel : (cfg.ext && (faultAt q.f1 1).fails) = false) :
    ∃ sh', sec1 cfg sh ts uts q key = .pass sh' ∧ sh'.store.lookup key = none := by
  unfold sec1
  cases hl : lookup1 cfg sh uts key (faultAt q.f1 0) with
  | none => exact absurd hl hfound
  | some e =>
    simp only
    unfold sec1Found
    have hexp : itemExpired (applyInv q ts e) ts = true := by
      have h0 : ¬ ts = 0 := by omega
      simp [itemExpired, applyInv, hinv, h0]; omega
    rw [if_pos hexp]
    rcases sec1Expire_ok hmb hi key (faultAt q.f1 1) (faultAt q.f1 2) with ⟨sh', h1, _, _, h4⟩
    exact ⟨sh', h1, h4 hdel⟩

/-- an entry found expired on the cache's clock is erased as well (same proviso) -/
theorem sec1_expired_erases {cfg : Config} (hmb : cfg.maxBytes < 2 ^ 63) {sh sh' : Shared} (hi : ShInv cfg sh)
    {ts uts : Nat} {q : Req} {key : Key} {e : Item}
    (hl : lookup1 cfg sh uts key (faultAt q.f1 0) = some e) (hexp : itemExpired (applyInv q ts e) ts = true)
    (hdel : (cfg.ext && (faultAt q.f1 1).fails) = false)
    (h : sec1 cfg sh ts uts q key = .pass sh') : sh'.store.lookup key = none := by
  unfold sec1 at h
  rw [hl] at h
  simp only at h
  unfold sec1Found at h
  rw [if_pos hexp] at h
  rcases sec1Expire_ok hmb hi key (faultAt q.f1 1) (faultAt q.f1 2) with ⟨sh2, h1, _, _, h4⟩
  rw [h1] at h
  cases h
  exact h4 hdel

end C14
