import FiberModel.C14.Lemmas
/-
C14 — the global invariant of the interleaving semantics and its preservation by every event.
-/
namespace C14
open B
set_option linter.unusedSimpArgs false

/-- the request is looked up in / admitted to the cache at all -/
def Admitted (cfg : Config) (q : Req) : Prop :=
  cfg.disabled = false ∧ hasDirective q.cc Facts.noStore = false ∧ cfg.effMethods.contains q.method = true

/-- thread `th` finished by storing its origin response -/
def StoredBy (cfg : Config) (th : Thread) : Prop :=
  th.pc = .done ∧ th.out = some (passThrough .miss th.req.resp) ∧ th.ran = true ∧ Admitted cfg th.req ∧
  cacheable th.req.resp.status = true ∧ th.req.skip = false ∧ th.req.err = false

/-- what a finished thread's output is -/
def DoneOK (cfg : Config) (threads : List Thread) (th : Thread) (o : Out) : Prop :=
  (o.xcache = .hit ∧ th.ran = false ∧ Admitted cfg th.req ∧ th.req.inv = false ∧
     hasDirective th.req.cc Facts.noCache = false ∧
     (cfg.ext = true → (faultAt th.req.f1 0).noEntry = false ∧ (faultAt th.req.f1 1).fails = false) ∧
     ∃ (u : Nat) (thu : Thread) (idx : Nat) (body : Bytes), threads[u]? = some thu ∧ StoredBy cfg thu ∧
        mkKey thu.req = mkKey th.req ∧
        o = replay cfg { mkItem cfg thu.req thu.ts idx with body := body } th.ts ∧ th.ts < thu.ts + expSecs cfg thu.req ∧
        (th.taint = false → body = thu.req.resp.body))
  ∨ (o = passThrough .miss th.req.resp ∧ th.ran = true ∧ Admitted cfg th.req ∧ cacheable th.req.resp.status = true ∧
       th.req.skip = false ∧ th.req.err = false)
  ∨ (o = passThrough .unreachable th.req.resp ∧ th.ran = true ∧ cfg.disabled = false ∧
       hasDirective th.req.cc Facts.noStore = false)
  ∨ (o = passThrough .absent th.req.resp ∧ th.ran = true ∧
       (cfg.disabled = true ∨ hasDirective th.req.cc Facts.noStore = true ∨ (th.req.err = true ∧ Admitted cfg th.req)))

/-- what a thread at each program point has established -/
def ThOK (cfg : Config) (threads : List Thread) (th : Thread) : Prop :=
  match th.pc with
  | .start => th.out = none ∧ th.ran = false
  | .bypass x => th.out = none ∧ th.ran = false ∧
      ((x = .absent ∧ (cfg.disabled = true ∨ hasDirective th.req.cc Facts.noStore = true)) ∨
       (x = .unreachable ∧ cfg.disabled = false ∧ hasDirective th.req.cc Facts.noStore = false))
  | .wantLock1 | .sec1 | .next => th.out = none ∧ th.ran = false ∧ Admitted cfg th.req
  | .afterNext => th.out = none ∧ th.ran = true ∧ Admitted cfg th.req ∧ th.req.err = false
  | .wantLock2 | .sec2 => th.out = none ∧ th.ran = true ∧ Admitted cfg th.req ∧ cacheable th.req.resp.status = true ∧
      th.req.err = false
  | .done => ∃ o, th.out = some o ∧ DoneOK cfg threads th o
  | .panicked => False

/-- `mux` is held exactly by the thread inside a critical section -/
def MuxOK (g : G) : Prop :=
  (∀ (t : Nat) (th : Thread), g.threads[t]? = some th → (th.pc = .sec1 ∨ th.pc = .sec2) → g.mux = some t) ∧
  (∀ t, g.mux = some t → ∃ th, g.threads[t]? = some th ∧ (th.pc = .sec1 ∨ th.pc = .sec2))

/-- every stored item was produced by a finished request for that key -/
def SlotOrigin (cfg : Config) (g : G) : Prop :=
  ∀ k sl, g.sh.store.lookup k = some sl →
    ∃ (u : Nat) (thu : Thread) (idx : Nat), g.threads[u]? = some thu ∧ StoredBy cfg thu ∧ mkKey thu.req = k ∧
      sl.item = mkItem cfg thu.req thu.ts idx

structure Inv (cfg : Config) (g : G) : Prop where
  clock : 1 ≤ g.ts
  sh : ShInv cfg g.sh
  mux : MuxOK g
  th : ∀ (t : Nat) (th : Thread), g.threads[t]? = some th → ThOK cfg g.threads th
  origin : SlotOrigin cfg g

/-- `threads'` agrees with `threads` on every finished thread -/
def KeepsDone (threads threads' : List Thread) : Prop :=
  ∀ (u : Nat) (thu : Thread), threads[u]? = some thu → thu.pc = .done → threads'[u]? = some thu

theorem DoneOK_mono {cfg : Config} {threads threads' : List Thread} (hk : KeepsDone threads threads')
    {th : Thread} {o : Out} (h : DoneOK cfg threads th o) : DoneOK cfg threads' th o := by
  rcases h with ⟨a, b, c, d, e, f, u, thu, idx, body, h1, h2, h3⟩ | h | h | h
  · exact Or.inl ⟨a, b, c, d, e, f, u, thu, idx, body, hk u thu h1 h2.1, h2, h3⟩
  · exact Or.inr (Or.inl h)
  · exact Or.inr (Or.inr (Or.inl h))
  · exact Or.inr (Or.inr (Or.inr h))

theorem ThOK_mono {cfg : Config} {threads threads' : List Thread} (hk : KeepsDone threads threads')
    {th : Thread} (h : ThOK cfg threads th) : ThOK cfg threads' th := by
  unfold ThOK at h ⊢
  cases hpc : th.pc <;> simp only [hpc] at h ⊢ <;> try exact h
  rcases h with ⟨o, ho, hd⟩
  exact ⟨o, ho, DoneOK_mono hk hd⟩

theorem keepsDone_set {threads : List Thread} {t : Nat} {th th' : Thread} (ht : threads[t]? = some th)
    (hpc : th.pc ≠ .done) : KeepsDone threads (threads.set t th') := by
  intro u thu hu hd
  by_cases hut : t = u
  · subst hut; rw [ht] at hu; cases hu; exact absurd hd hpc
  · rw [List.getElem?_set]; simp [hut, hu]

theorem getElem?_set_self' {α} {l : List α} {t : Nat} {a b : α} (h : l[t]? = some a) : (l.set t b)[t]? = some b := by
  rw [List.getElem?_set]; simp [lt_of_getElem? h]

theorem getElem?_set_other {α} {l : List α} {t u : Nat} {b : α} (h : t ≠ u) : (l.set t b)[u]? = l[u]? := by
  rw [List.getElem?_set]; simp [h]

/-- a step that only changes thread `t` (to `th'`, still outside the critical sections, as before) and
    leaves the shared state alone keeps the invariant -/
theorem inv_local {cfg : Config} {g : G} (hi : Inv cfg g) {t : Nat} {th th' : Thread}
    (ht : g.threads[t]? = some th) (hnd : th.pc ≠ .done)
    (hpc : ¬ (th.pc = .sec1 ∨ th.pc = .sec2)) (hpc' : ¬ (th'.pc = .sec1 ∨ th'.pc = .sec2))
    (hok : ThOK cfg (g.threads.set t th') th') :
    Inv cfg (g.setThread t th') := by
  have hk := keepsDone_set (th' := th') ht hnd
  refine ⟨hi.clock, hi.sh, ⟨?_, ?_⟩, ?_, ?_⟩
  · intro u thu hu hs
    simp only [G.setThread] at hu ⊢
    by_cases hut : t = u
    · subst hut; rw [getElem?_set_self' ht] at hu; cases hu; exact absurd hs hpc'
    · rw [getElem?_set_other hut] at hu; exact hi.mux.1 u thu hu hs
  · intro u hu
    simp only [G.setThread] at hu ⊢
    rcases hi.mux.2 u hu with ⟨thu, h1, h2⟩
    by_cases hut : t = u
    · subst hut; rw [ht] at h1; cases h1; exact absurd h2 hpc
    · exact ⟨thu, by rw [getElem?_set_other hut]; exact h1, h2⟩
  · intro u thu hu
    simp only [G.setThread] at hu ⊢
    by_cases hut : t = u
    · subst hut; rw [getElem?_set_self' ht] at hu; cases hu; exact hok
    · rw [getElem?_set_other hut] at hu; exact ThOK_mono hk (hi.th u thu hu)
  · intro k sl hl
    rcases hi.origin k sl hl with ⟨u, thu, idx, h1, h2, h3⟩
    exact ⟨u, thu, idx, hk u thu h1 h2.1, h2, h3⟩

/-- taking the free mutex -/
theorem inv_lock {cfg : Config} {g : G} (hi : Inv cfg g) {t : Nat} {th th' : Thread}
    (ht : g.threads[t]? = some th) (hnd : th.pc ≠ .done) (hfree : g.mux = none)
    (hpc' : th'.pc = .sec1 ∨ th'.pc = .sec2)
    (hok : ThOK cfg (g.threads.set t th') th') :
    Inv cfg ({ g with mux := some t }.setThread t th') := by
  have hk := keepsDone_set (th' := th') ht hnd
  refine ⟨hi.clock, hi.sh, ⟨?_, ?_⟩, ?_, ?_⟩
  · intro u thu hu hs
    simp only [G.setThread] at hu ⊢
    by_cases hut : t = u
    · subst hut; rfl
    · rw [getElem?_set_other hut] at hu
      have := hi.mux.1 u thu hu hs
      rw [hfree] at this; cases this
  · intro u hu
    simp only [G.setThread] at hu ⊢
    cases hu
    exact ⟨th', getElem?_set_self' ht, hpc'⟩
  · intro u thu hu
    simp only [G.setThread] at hu ⊢
    by_cases hut : t = u
    · subst hut; rw [getElem?_set_self' ht] at hu; cases hu; exact hok
    · rw [getElem?_set_other hut] at hu; exact ThOK_mono hk (hi.th u thu hu)
  · intro k sl hl
    rcases hi.origin k sl hl with ⟨u, thu, idx, h1, h2, h3⟩
    exact ⟨u, thu, idx, hk u thu h1 h2.1, h2, h3⟩

/-- leaving a critical section: the mutex is released, the shared state becomes `sh'` whose stored
    items all have an origin among the (new) threads -/
theorem inv_unlock {cfg : Config} {g : G} (hi : Inv cfg g) {t : Nat} {th th' : Thread} {sh' : Shared}
    (ht : g.threads[t]? = some th) (hin : th.pc = .sec1 ∨ th.pc = .sec2)
    (hpc' : ¬ (th'.pc = .sec1 ∨ th'.pc = .sec2))
    (hsh : ShInv cfg sh')
    (hok : ThOK cfg (g.threads.set t th') th')
    (horigin : ∀ k sl, sh'.store.lookup k = some sl →
      ∃ (u : Nat) (thu : Thread) (idx : Nat), (g.threads.set t th')[u]? = some thu ∧ StoredBy cfg thu ∧ mkKey thu.req = k ∧
        sl.item = mkItem cfg thu.req thu.ts idx) :
    Inv cfg ({ g with mux := none, sh := sh' }.setThread t th') := by
  have hnd : th.pc ≠ .done := by rcases hin with h | h <;> rw [h] <;> simp
  have hk := keepsDone_set (th' := th') ht hnd
  have hmt : g.mux = some t := hi.mux.1 t th ht hin
  refine ⟨hi.clock, hsh, ⟨?_, ?_⟩, ?_, horigin⟩
  · intro u thu hu hs
    simp only [G.setThread] at hu ⊢
    by_cases hut : t = u
    · subst hut; rw [getElem?_set_self' ht] at hu; cases hu; exact absurd hs hpc'
    · rw [getElem?_set_other hut] at hu
      have := hi.mux.1 u thu hu hs
      rw [hmt] at this; cases this; exact absurd rfl hut
  · intro u hu
    simp only [G.setThread] at hu
    cases hu
  · intro u thu hu
    simp only [G.setThread] at hu ⊢
    by_cases hut : t = u
    · subst hut; rw [getElem?_set_self' ht] at hu; cases hu; exact hok
    · rw [getElem?_set_other hut] at hu; exact ThOK_mono hk (hi.th u thu hu)

theorem origin_sub {cfg : Config} {g : G} (hi : Inv cfg g) {t : Nat} {th th' : Thread} {st : Store}
    (ht : g.threads[t]? = some th) (hnd : th.pc ≠ .done) (hsub : StoreSub st g.sh.store) :
    ∀ k sl, st.lookup k = some sl →
      ∃ (u : Nat) (thu : Thread) (idx : Nat), (g.threads.set t th')[u]? = some thu ∧ StoredBy cfg thu ∧ mkKey thu.req = k ∧
        sl.item = mkItem cfg thu.req thu.ts idx := by
  intro k sl hl
  rcases hi.origin k sl (hsub k sl hl) with ⟨u, thu, idx, h1, h2, h3⟩
  exact ⟨u, thu, idx, keepsDone_set ht hnd u thu h1 h2.1, h2, h3⟩

theorem step_inv {cfg : Config} (hmb : cfg.maxBytes < 2 ^ 63) {g g' : G} (hi : Inv cfg g) {t : Nat}
    (hs : step cfg g t = some g') : Inv cfg g' := by
  unfold step at hs
  cases ht : g.threads[t]? with
  | none => rw [ht] at hs; cases hs
  | some th =>
    rw [ht] at hs
    simp only at hs
    have hth := hi.th t th ht
    unfold ThOK at hth
    cases hpc : th.pc with
    | start =>
      rw [hpc] at hs hth
      simp only at hs hth
      have hnd : th.pc ≠ .done := by rw [hpc]; simp
      have hns : ¬ (th.pc = .sec1 ∨ th.pc = .sec2) := by rw [hpc]; simp
      by_cases h1 : cfg.disabled = true
      · rw [if_pos h1] at hs; cases hs
        exact inv_local hi ht hnd hns (by simp) (by simp [ThOK, hth.1, hth.2, h1])
      · rw [if_neg h1] at hs
        have h1' : cfg.disabled = false := by simpa using h1
        by_cases h2 : hasDirective th.req.cc Facts.noStore = true
        · rw [if_pos h2] at hs; cases hs
          exact inv_local hi ht hnd hns (by simp) (by simp [ThOK, hth.1, hth.2, h2])
        · rw [if_neg h2] at hs
          have h2' : hasDirective th.req.cc Facts.noStore = false := by simpa using h2
          by_cases h3 : (!cfg.effMethods.contains th.req.method) = true
          · rw [if_pos h3] at hs; cases hs
            exact inv_local hi ht hnd hns (by simp) (by simp [ThOK, hth.1, hth.2, h1', h2'])
          · rw [if_neg h3] at hs; cases hs
            have h3' : cfg.effMethods.contains th.req.method = true := by simpa using h3
            exact inv_local hi ht hnd hns (by simp) (by simp only [ThOK]; exact ⟨hth.1, hth.2, h1', h2', h3'⟩)
    | bypass x =>
      rw [hpc] at hs hth
      simp only at hs hth
      cases hs
      have hnd : th.pc ≠ .done := by rw [hpc]; simp
      have hns : ¬ (th.pc = .sec1 ∨ th.pc = .sec2) := by rw [hpc]; simp
      apply inv_local hi ht hnd hns (by simp)
      simp only [ThOK]
      refine ⟨_, rfl, ?_⟩
      rcases hth.2.2 with ⟨hx, hd⟩ | ⟨hx, hd1, hd2⟩
      · subst hx
        exact Or.inr (Or.inr (Or.inr ⟨rfl, rfl, by rcases hd with h | h; exact Or.inl h; exact Or.inr (Or.inl h)⟩))
      · subst hx; exact Or.inr (Or.inr (Or.inl ⟨rfl, rfl, hd1, hd2⟩))
    | wantLock1 =>
      rw [hpc] at hs hth
      simp only at hs hth
      have hnd : th.pc ≠ .done := by rw [hpc]; simp
      cases hm : g.mux with
      | some _ => rw [hm] at hs; cases hs
      | none =>
        rw [hm] at hs; cases hs
        exact inv_lock hi ht hnd hm (Or.inl rfl) (by simp [ThOK, hth.1, hth.2.1, hth.2.2])
    | sec1 =>
      rw [hpc] at hs hth
      simp only at hs hth
      have hnd : th.pc ≠ .done := by rw [hpc]; simp
      rcases sec1_ok hmb hi.sh g.ts g.uts th.req (mkKey th.req) with ⟨o, ho⟩ | ⟨sh', hp, hsh', hsub⟩
      · rw [ho] at hs; cases hs
        rcases sec1_hit hi.clock ho with ⟨sl, hl, hx, hrep, hinv, hfresh, hnc, hflt⟩
        rcases hi.origin _ sl hl with ⟨u, thu, idx, hu1, hu2, hu3, hu4⟩
        apply inv_unlock hi ht (Or.inl hpc) (by simp) hi.sh
        · simp only [ThOK]
          refine ⟨o, rfl, Or.inl ⟨?_, hth.2.1, hth.2.2, hinv, hnc, hflt, u, thu, idx,
            hitBody cfg g.sh g.uts (mkKey th.req) sl.item, keepsDone_set ht hnd u thu hu1 hu2.1, hu2, hu3, ?_, ?_, ?_⟩⟩
          · rw [hrep]; rfl
          · rw [hrep, hu4]
          · rw [hu4] at hfresh; exact hfresh
          · intro htaint
            have hnd' : mkKey th.req ∉ g.sh.dirty := by
              intro hm
              have : g.sh.dirty.contains (mkKey th.req) = true := List.contains_iff_mem.mpr hm
              simp only at htaint
              rw [this] at htaint; cases htaint
            have hsync := (hi.sh.clean _ hnd' (fun h => h)).2.2
            rw [hitBody_sync hsync hl hx, hu4]; rfl
        · exact origin_sub hi ht hnd (StoreSub.refl _)
      · rw [hp] at hs; cases hs
        apply inv_unlock hi ht (Or.inl hpc) (by simp) hsh'
        · simp [ThOK, hth.1, hth.2.1, hth.2.2]
        · exact origin_sub hi ht hnd hsub
    | next =>
      rw [hpc] at hs hth
      simp only at hs hth
      have hnd : th.pc ≠ .done := by rw [hpc]; simp
      have hns : ¬ (th.pc = .sec1 ∨ th.pc = .sec2) := by rw [hpc]; simp
      by_cases he : th.req.err = true
      · rw [if_pos he] at hs; cases hs
        apply inv_local hi ht hnd hns (by simp)
        simp only [ThOK]
        exact ⟨_, rfl, Or.inr (Or.inr (Or.inr ⟨rfl, rfl, Or.inr (Or.inr ⟨he, hth.2.2⟩)⟩))⟩
      · rw [if_neg he] at hs; cases hs
        have he' : th.req.err = false := by simpa using he
        exact inv_local hi ht hnd hns (by simp) (by simp [ThOK, hth.1, hth.2.2, he'])
    | afterNext =>
      rw [hpc] at hs hth
      simp only at hs hth
      have hnd : th.pc ≠ .done := by rw [hpc]; simp
      have hns : ¬ (th.pc = .sec1 ∨ th.pc = .sec2) := by rw [hpc]; simp
      by_cases hc : (!cacheable th.req.resp.status) = true
      · rw [if_pos hc] at hs; cases hs
        apply inv_local hi ht hnd hns (by simp)
        simp only [ThOK]
        exact ⟨_, rfl, Or.inr (Or.inr (Or.inl ⟨rfl, hth.2.1, hth.2.2.1.1, hth.2.2.1.2.1⟩))⟩
      · rw [if_neg hc] at hs; cases hs
        have hc' : cacheable th.req.resp.status = true := by simpa using hc
        exact inv_local hi ht hnd hns (by simp) (by simp [ThOK, hth.1, hth.2.1, hth.2.2.1, hth.2.2.2, hc'])
    | wantLock2 =>
      rw [hpc] at hs hth
      simp only at hs hth
      have hnd : th.pc ≠ .done := by rw [hpc]; simp
      cases hm : g.mux with
      | some _ => rw [hm] at hs; cases hs
      | none =>
        rw [hm] at hs; cases hs
        exact inv_lock hi ht hnd hm (Or.inr rfl) (by simp [ThOK, hth.1, hth.2.1, hth.2.2.1, hth.2.2.2.1, hth.2.2.2.2])
    | sec2 =>
      rw [hpc] at hs hth
      simp only at hs hth
      have hnd : th.pc ≠ .done := by rw [hpc]; simp
      have hres := sec2_ok hmb hi.sh th.ts g.uts th.req (mkKey th.req)
      cases hr : sec2 cfg g.sh th.ts g.uts th.req (mkKey th.req) with
      | panic => rw [hr] at hres; cases hres
      | unreachable =>
        rw [hr] at hs; cases hs
        apply inv_unlock hi ht (Or.inr hpc) (by simp) hi.sh
        · simp only [ThOK]
          exact ⟨_, rfl, Or.inr (Or.inr (Or.inl ⟨rfl, hth.2.1, hth.2.2.1.1, hth.2.2.1.2.1⟩))⟩
        · exact origin_sub hi ht hnd (StoreSub.refl _)
      | stored sh' =>
        rw [hr] at hs hres; cases hs
        cases hres with
        | stored _ idx mid hsh' hst hsub hskip =>
          have hstored : StoredBy cfg { th with pc := .done, out := some (passThrough .miss th.req.resp) } :=
            ⟨rfl, rfl, hth.2.1, hth.2.2.1, hth.2.2.2.1, hskip, hth.2.2.2.2⟩
          apply inv_unlock hi ht (Or.inr hpc) (by simp) hsh'
          · simp only [ThOK]
            exact ⟨_, rfl, Or.inr (Or.inl ⟨rfl, hth.2.1, hth.2.2.1, hth.2.2.2.1, hskip, hth.2.2.2.2⟩)⟩
          · intro k sl hl
            rcases hst with hst | hst
            · rw [hst, lookup_set] at hl
              by_cases hk : k = mkKey th.req
              · simp only [hk, if_true] at hl
                cases hl
                exact ⟨t, _, idx, getElem?_set_self' ht, hstored, hk.symm, rfl⟩
              · simp only [hk, if_false] at hl
                exact origin_sub hi ht hnd hsub k sl hl
            · rw [hst] at hl
              exact origin_sub hi ht hnd hsub k sl hl
    | done => rw [hpc] at hs; cases hs
    | panicked => rw [hpc] at hs; cases hs

theorem exec_inv {cfg : Config} (hmb : cfg.maxBytes < 2 ^ 63) {g : G} (hi : Inv cfg g) (ev : Ev) :
    Inv cfg (exec cfg g ev) := by
  cases ev with
  | step t =>
    simp only [exec]
    cases hs : step cfg g t with
    | none => exact hi
    | some g' => exact step_inv hmb hi hs
  | tickTs d => exact ⟨by show 1 ≤ g.ts + d; have := hi.clock; omega, hi.sh, hi.mux, hi.th, hi.origin⟩
  | tickUts d => exact ⟨hi.clock, hi.sh, hi.mux, hi.th, hi.origin⟩

theorem init_inv (cfg : Config) (ts uts : Nat) (reqs : List Req) (hts : 1 ≤ ts) : Inv cfg (G.init ts uts reqs) := by
  refine ⟨hts, ShInv_empty cfg, ⟨?_, ?_⟩, ?_, ?_⟩
  · intro t th ht hs
    simp only [G.init, List.getElem?_map] at ht
    cases hq : reqs[t]? with
    | none => simp [hq] at ht
    | some q => simp [hq] at ht; subst ht; simp at hs
  · intro t ht; simp [G.init] at ht
  · intro t th ht
    simp only [G.init, List.getElem?_map] at ht
    cases hq : reqs[t]? with
    | none => simp [hq] at ht
    | some q => simp [hq] at ht; subst ht; simp [ThOK]
  · intro k sl hl; simp [G.init, Shared.empty, Store.lookup] at hl

theorem run_inv {cfg : Config} (hmb : cfg.maxBytes < 2 ^ 63) (evs : List Ev) {g : G} (hi : Inv cfg g) :
    Inv cfg (run cfg g evs) := by
  unfold run
  induction evs generalizing g with
  | nil => exact hi
  | cons e es ih => exact ih (exec_inv hmb hi e)

end C14
