import FiberModel.C14.Model
/-
C14 — region of the known finding K1 (known/C14.json): cache.go / manager.go ignore the errors of
`Storage.Set` and `Storage.Delete` ("TODO: Handle error here"). After such a failure the entry of the key, its
separately stored body and its heap entry can be out of step until a later `Set`/`Delete` pair for the key
goes through: a hit can carry another response's body, an invalidated entry can survive, a body the storage
refused to delete is held without being counted.

The region is read off the ghost state of the model (`Shared.dirty`: keys with such a failure outstanding;
`Thread.taint`: the request's key was dirty when it was looked up): for the clauses about what a hit
replays (hit-provenance, hit-invalidated, hit-fresh) request `t` is inside when it is tainted; for the clauses
about the storage contents (maxbytes, accounting) when some key is dirty right before or after it. Theorems
in Props.lean named `…_partial` carry exactly these hypotheses.
-/
namespace C14.Known

def tainted (g : G) (t : Nat) : Bool :=
  match g.threads[t]? with
  | some th => th.taint
  | none => false

/-- `pre` / `post`: the model states right before and after the request (for a member of a concurrent group:
    before and after the group); `clause`: the failing clause of the spec -/
def K1 (pre post : G) (t : Nat) (clause : String) : Bool :=
  if clause == "hit-provenance" || clause == "hit-invalidated" || clause == "hit-fresh" then tainted post t
  else if clause == "maxbytes" || clause == "accounting" then !pre.sh.dirty.isEmpty || !post.sh.dirty.isEmpty
  else false

/-- some clause of K1 could be suppressed for this request (distribution tag only) -/
def K1any (pre post : G) (t : Nat) : Bool :=
  tainted post t || !pre.sh.dirty.isEmpty || !post.sh.dirty.isEmpty

end C14.Known
